import PngVerif.Proofs.RoundTripAny
import PngVerif.Proofs.RoundTripAnyGen
import PngVerif.Props.C03AnimMeta
/-!
# C03 ∘ C13 / C05, animations: the encoder's file under any call path and any delivery

* `decFrames_spec`: the `k`-th frame behind the first, as the decoder side describes it (`decFrames`), is the `k`-th frame given
  to the encoder, and the specification's pixels of it in the image's buffer are its data followed by the pre-fill;
* `anyPath_anim_of` / `anyPath_anim_default_of`: `AnyPath.C09_any_path_of` / `C09_default_image_any_path_of` on the file
  `anim_run` / `anim_default_run` leave (configurations without metadata in front of `acTL`: the layout `wellFormedApng`);
* `anyPath_anim_meta_of` / `anyPath_anim_default_meta_of`: the same for ANY metadata, through `C09_any_path_gen_of`
  (`Proofs/RoundTripAnyGen.lean`);
* `frameResults_good`: the results the C03 theorems promise are successful results (for `delivery_of_run`).
-/
namespace Png.RoundTrip
open Png Png.Val Png.Enc Png.Framing Png.Reader Png.WellFormed Png.AnyPath

/-- **the frames behind the first, index by index**: frame `k` of `decFrames` is frame `k` of the list given to the encoder;
    `specFrame` of it in a buffer of `B` bytes pre-filled with `p` is its data, then the pre-fill -/
theorem decFrames_spec (compress : Bytes → Bytes) (choose : Bytes → Bytes → FilterType) (c : Enc.Cfg)
    (hd : depthOk c.depth = true) (B : Nat) (p : UInt8) :
    ∀ (frs : List Frame) (f : FC), LaterOk (scanCodec compress choose) c f frs →
      ∀ (k : Nat) (x : FrameControl × List Bytes × Bytes), (decFrames compress choose c f frs)[k]? = some x →
        ∃ fr, frs[k]? = some fr ∧
          specFrame ((headerOf c).frame x.1) x.2.2 (List.replicate B p) =
            some (fr.data ++ List.replicate (B - fr.data.length) p) := by
  intro frs
  induction frs with
  | nil => intro f _ k x hx; simp [decFrames] at hx
  | cons fr rest ih =>
    intro f hok k x hx
    obtain ⟨_, hlen, _, hrest⟩ := hok
    simp only [zstream_scanCodec] at hrest
    cases k with
    | zero =>
      simp only [decFrames, List.getElem?_cons_zero, Option.some.injEq] at hx
      subst hx
      exact ⟨fr, rfl, specFrame_encode choose c hd _ fr.data hlen B p⟩
    | succ k =>
      simp only [decFrames, List.getElem?_cons_succ] at hx ⊢
      exact ih _ hrest k x hx

/-- the results the C03 theorems promise for the frames behind the first are successful results -/
theorem frameResults_good (c : Enc.Cfg) : ∀ (frs : List Frame) (f : FC) (ps : List UInt8),
    ∀ x ∈ frameResults c f frs ps, x.isGood = true := by
  intro frs
  induction frs with
  | nil => intro f ps x hx; cases ps <;> simp [frameResults] at hx
  | cons fr rest ih =>
    intro f ps x hx
    cases ps with
    | nil => simp [frameResults] at hx
    | cons p ps =>
      simp only [frameResults, List.mem_cons] at hx
      rcases hx with rfl | hx
      · rfl
      · exact ih _ ps x hx

/-! ## any call path -/

/-- **any call path on an animation whose first frame is the `IDAT` image** (no metadata in front of `acTL`) -/
theorem anyPath_anim_of (cfg : Framing.Cfg) (t : TCfg) (hap : AnyPathOk cfg t) (f : Flags) (opts : Options) (limit : Nat)
    (compress : Bytes → Bytes) (choose : Bytes → Bytes → FilterType) (c : Enc.Cfg) (n plays : Nat) (f0 : FC)
    (fr0 : Frame) (frs : List Frame) (p : UInt8)
    (hI : cfg.InflateOk) (hcrc : ∀ b, cfg.crc b = crcOfList b) (ht : t.IsIdentity f)
    (hc : c.Anim n plays f0) (hsep : c.sepDefImg = false) (hmd : preChunks c.md = []) (hm : PostOk cfg opts.ignoreText c)
    (hn : n = frs.length + 1) (h0 : FirstOk c f0 fr0)
    (hl : LaterOk (scanCodec compress choose) c { fcOf c.width c.height f0 fr0.pre with seq := 1 } frs)
    (hsz : c.rowLen * c.height < 2 ^ 64)
    (hnil : ∀ o, cfg.inflate [] ≠ some (o, true))
    (hinf0 : cfg.inflate (compress (rawOf choose c fr0.data)) = some (rawOf choose c fr0.data, true))
    (hinf : ∀ x ∈ decFrames compress choose c { fcOf c.width c.height f0 fr0.pre with seq := 1 } frs,
      cfg.inflate (compress x.2.2) = some (x.2.2, true))
    (hlimit : c.rowLen + lineSum c (fcOf c.width c.height f0 fr0.pre) frs + postCost c ≤ limit)
    (h32 : (encodedAnim compress choose c (fr0 :: frs)).length < 2 ^ 32) (ops : List PathOp) :
    (asmRun cfg t (List.replicate (c.rowLen * c.height) p)
      (readerOf cfg t opts limit f (encodedAnim compress choose c (fr0 :: frs)),
       Asm.init (List.replicate (c.rowLen * c.height) p)) ops).2.problem = false ∧
    ∀ k px, (k, px) ∈ (asmRun cfg t (List.replicate (c.rowLen * c.height) p)
      (readerOf cfg t opts limit f (encodedAnim compress choose c (fr0 :: frs)),
       Asm.init (List.replicate (c.rowLen * c.height) p)) ops).2.frames →
      ∃ fr, (fr0 :: frs)[k]? = some fr ∧ px = fr.data ++ List.replicate (c.rowLen * c.height - fr.data.length) p := by
  have hC := crcOk_of_eq cfg hcrc
  obtain ⟨rs, _, _, _, _, hlog⟩ := anim_run (scanCodec compress choose) c n plays f0 hc hsep fr0 frs hn h0 hl hsz
  obtain ⟨hin', hfine', hseq'⟩ := fcOf_facts (W := c.width) (H := c.height) fr0.pre f0 hc.rect hc.fine (fun o ho => (h0.pre o ho).2)
  have hseq0 : (fcOf c.width c.height f0 fr0.pre).seq = 0 := by rw [hseq', hc.seq0]
  have hfile : encodedAnim compress choose c (fr0 :: frs) = _ :=
    ((bytes_of_fullLog _ _ hlog).1).trans
      (animBytes_eq cfg hcrc compress choose c n plays hc.actl hmd f0 fr0 frs hn hseq0)
  rw [hfile] at h32 ⊢
  have hcov := h0.cover
  generalize hf' : fcOf c.width c.height f0 fr0.pre = f' at *
  have hsub : c.sub f' = c := sub_cover c f' hcov.2.2.1 hcov.2.2.2
  have hlen0 : fr0.data.length = (c.sub f').rowLen * f'.h := by rw [hsub, hcov.2.2.2]; exact h0.len
  have hzne : compress (rawOf choose c fr0.data) ≠ [] := by
    intro z0; rw [z0] at hinf0; exact hnil _ hinf0
  obtain ⟨z1, z2, z3⟩ := idat_cut _ hzne
  have hdl := decFrames_length compress choose c frs { f' with seq := 1 }
  obtain ⟨dA, hanc, hlim⟩ := post_accepted_actl cfg opts limit c n plays hc.nlt hc.plt
    (c.rowLen + lineSum c f' frs) hm hlimit
  have hframe0 : (headerOf c).frame (fcDec f') = headerOf c := by rw [frame_dec, hsub]
  have hls := headerOf_lineSize (c := c) hc.depth
  have hB := bufferSize_headerOf (c := c) hc.depth
  have key := C09_any_path_of cfg t hap f opts limit (headerOf c) plays (pairs (postChunks c)) dA
      (decFrames compress choose c { f' with seq := 1 } frs) (fcDec f')
      (chunksOf maxIdatChunkLen (compress (rawOf choose c fr0.data))) (rawOf choose c fr0.data) p
      hI hC ht (valid_of_anim hc) hc.plt (by rw [hdl, ← hn]; exact hc.nlt)
      (by rw [hdl, ← hn]; exact hanc) (noActl_post cfg _ c hm) (fcOk_dec hin' hfine') z1 z2 (by rw [z3]; exact hinf0)
      (by rw [hframe0]; exact rawOk_encode choose c hc.depth fr0.data h0.len)
      (frameOk_dec cfg compress choose c hc.depth hnil frs _ hin' hfine' hl hinf)
      (seq_sum_lt compress choose c frs { f' with seq := 1 } (by show (1 : Nat) < 2 ^ 32; decide) hl)
      (by rw [hls]; exact hsz)
      (by
        rw [hframe0, hls, lineSum_dec compress choose c hc.depth, lineSum_setSeq]
        exact hlim)
      h32 ops
  rw [hB] at key
  refine ⟨key.1, fun k px hk => ?_⟩
  obtain ⟨x, hx, hspec⟩ := key.2 k px hk
  cases k with
  | zero =>
    simp only [List.getElem?_cons_zero, Option.some.injEq] at hx
    subst hx
    have hspec' := specFrame_encode choose c hc.depth f' fr0.data hlen0 (c.rowLen * c.height) p
    rw [hsub] at hspec'
    rw [hspec'] at hspec
    cases hspec
    exact ⟨fr0, rfl, rfl⟩
  | succ k =>
    simp only [List.getElem?_cons_succ] at hx ⊢
    obtain ⟨fr, hfr, hs⟩ := decFrames_spec compress choose c hc.depth (c.rowLen * c.height) p frs _ hl k x hx
    rw [hs] at hspec
    cases hspec
    exact ⟨fr, hfr, rfl⟩

/-- **any call path on an animation with a separate default image** (no metadata in front of `acTL`): index 0 is the default
    image, index `j + 1` the `j`-th frame of the animation -/
theorem anyPath_anim_default_of (cfg : Framing.Cfg) (t : TCfg) (hap : AnyPathOk cfg t) (f : Flags) (opts : Options) (limit : Nat)
    (compress : Bytes → Bytes) (choose : Bytes → Bytes → FilterType) (c : Enc.Cfg) (n plays : Nat) (f0 : FC)
    (fr0 : Frame) (frs : List Frame) (p : UInt8)
    (hI : cfg.InflateOk) (hcrc : ∀ b, cfg.crc b = crcOfList b) (ht : t.IsIdentity f)
    (hc : c.Anim n plays f0) (hsep : c.sepDefImg = true) (hmd : preChunks c.md = []) (hm : PostOk cfg opts.ignoreText c)
    (hn : n = frs.length) (h0 : FirstOk c f0 fr0)
    (hl : LaterOk (scanCodec compress choose) c (fcOf c.width c.height f0 fr0.pre) frs)
    (hsz : c.rowLen * c.height < 2 ^ 64)
    (hnil : ∀ o, cfg.inflate [] ≠ some (o, true))
    (hinf0 : cfg.inflate (compress (rawOf choose c fr0.data)) = some (rawOf choose c fr0.data, true))
    (hinf : ∀ x ∈ decFrames compress choose c (fcOf c.width c.height f0 fr0.pre) frs,
      cfg.inflate (compress x.2.2) = some (x.2.2, true))
    (hlimit : c.rowLen + lineSum c (fcOf c.width c.height f0 fr0.pre) frs + postCost c ≤ limit)
    (h32 : (encodedAnim compress choose c (fr0 :: frs)).length < 2 ^ 32) (ops : List PathOp) :
    (asmRun cfg t (List.replicate (c.rowLen * c.height) p)
      (readerOf cfg t opts limit f (encodedAnim compress choose c (fr0 :: frs)),
       Asm.init (List.replicate (c.rowLen * c.height) p)) ops).2.problem = false ∧
    ∀ k px, (k, px) ∈ (asmRun cfg t (List.replicate (c.rowLen * c.height) p)
      (readerOf cfg t opts limit f (encodedAnim compress choose c (fr0 :: frs)),
       Asm.init (List.replicate (c.rowLen * c.height) p)) ops).2.frames →
      ∃ fr, (fr0 :: frs)[k]? = some fr ∧ px = fr.data ++ List.replicate (c.rowLen * c.height - fr.data.length) p := by
  have hC := crcOk_of_eq cfg hcrc
  obtain ⟨rs, _, _, _, _, hlog⟩ := anim_default_run (scanCodec compress choose) c n plays f0 hc hsep fr0 frs hn h0 hl hsz
  obtain ⟨hin', hfine', hseq'⟩ := fcOf_facts (W := c.width) (H := c.height) fr0.pre f0 hc.rect hc.fine (fun o ho => (h0.pre o ho).2)
  have hseq0 : (fcOf c.width c.height f0 fr0.pre).seq = 0 := by rw [hseq', hc.seq0]
  have hfile : encodedAnim compress choose c (fr0 :: frs) = _ :=
    ((bytes_of_fullLog _ _ hlog).1).trans
      (animDefaultBytes_eq cfg hcrc compress choose c n plays hc.actl hmd f0 fr0 frs hn hseq0)
  rw [hfile] at h32 ⊢
  generalize hf' : fcOf c.width c.height f0 fr0.pre = f' at *
  have hzne : compress (rawOf choose c fr0.data) ≠ [] := by
    intro z0; rw [z0] at hinf0; exact hnil _ hinf0
  obtain ⟨z1, z2, z3⟩ := idat_cut _ hzne
  have hdl := decFrames_length compress choose c frs f'
  obtain ⟨dA, hanc, hlim⟩ := post_accepted_actl cfg opts limit c n plays hc.nlt hc.plt
    (c.rowLen + lineSum c f' frs) hm hlimit
  have hls := headerOf_lineSize (c := c) hc.depth
  have hB := bufferSize_headerOf (c := c) hc.depth
  have key := C09_default_image_any_path_of cfg t hap f opts limit (headerOf c) plays (pairs (postChunks c)) dA
      (decFrames compress choose c f' frs)
      (chunksOf maxIdatChunkLen (compress (rawOf choose c fr0.data))) (rawOf choose c fr0.data) p
      hI hC ht (valid_of_anim hc) hc.plt (by rw [hdl, ← hn]; exact hc.nlt)
      (by rw [hdl, ← hn]; exact hanc) (noActl_post cfg _ c hm) z1 z2 (by rw [z3]; exact hinf0)
      (rawOk_encode choose c hc.depth fr0.data h0.len)
      (frameOk_dec cfg compress choose c hc.depth hnil frs _ hin' hfine' hl hinf)
      (by
        have := seq_sum_lt compress choose c frs f' (by rw [hseq0]; decide) hl
        rw [hseq0] at this
        omega)
      (by rw [hls]; exact hsz)
      (by rw [hls, lineSum_dec compress choose c hc.depth]; exact hlim)
      h32 ops
  rw [hB] at key
  refine ⟨key.1, fun k px hk => ?_⟩
  obtain ⟨k0, kS⟩ := key.2 k px hk
  cases k with
  | zero =>
    have hspec := k0 rfl
    rw [specPixels_encode choose c hc.depth fr0.data h0.len] at hspec
    cases hspec
    refine ⟨fr0, rfl, ?_⟩
    rw [h0.len, Nat.sub_self]; simp
  | succ k =>
    obtain ⟨x, hx, hspec⟩ := kS k rfl
    simp only [List.getElem?_cons_succ]
    obtain ⟨fr, hfr, hs⟩ := decFrames_spec compress choose c hc.depth (c.rowLen * c.height) p frs _ hl k x hx
    rw [hs] at hspec
    cases hspec
    exact ⟨fr, hfr, rfl⟩

/-- **any call path on an animation whose first frame is the `IDAT` image, ANY metadata** -/
theorem anyPath_anim_meta_of (cfg : Framing.Cfg) (t : TCfg) (hap : AnyPathOk cfg t) (f : Flags) (opts : Options) (limit P : Nat)
    (compress : Bytes → Bytes) (choose : Bytes → Bytes → FilterType) (c : Enc.Cfg) (n plays : Nat) (f0 : FC)
    (fr0 : Frame) (frs : List Frame) (p : UInt8)
    (hI : cfg.InflateOk) (hcrc : ∀ b, cfg.crc b = crcOfList b) (ht : t.IsIdentity f)
    (hc : c.Anim n plays f0) (hsep : c.sepDefImg = false) (hm : MetaOk cfg opts.ignoreText P c)
    (hn : n = frs.length + 1) (h0 : FirstOk c f0 fr0)
    (hl : LaterOk (scanCodec compress choose) c { fcOf c.width c.height f0 fr0.pre with seq := 1 } frs)
    (hsz : c.rowLen * c.height < 2 ^ 64)
    (hnil : ∀ o, cfg.inflate [] ≠ some (o, true))
    (hinf0 : cfg.inflate (compress (rawOf choose c fr0.data)) = some (rawOf choose c fr0.data, true))
    (hinf : ∀ x ∈ decFrames compress choose c { fcOf c.width c.height f0 fr0.pre with seq := 1 } frs,
      cfg.inflate (compress x.2.2) = some (x.2.2, true))
    (hlimit : c.rowLen + lineSum c (fcOf c.width c.height f0 fr0.pre) frs + metaCost P c ≤ limit)
    (h32 : (encodedAnim compress choose c (fr0 :: frs)).length < 2 ^ 32) (ops : List PathOp) :
    (asmRun cfg t (List.replicate (c.rowLen * c.height) p)
      (readerOf cfg t opts limit f (encodedAnim compress choose c (fr0 :: frs)),
       Asm.init (List.replicate (c.rowLen * c.height) p)) ops).2.problem = false ∧
    ∀ k px, (k, px) ∈ (asmRun cfg t (List.replicate (c.rowLen * c.height) p)
      (readerOf cfg t opts limit f (encodedAnim compress choose c (fr0 :: frs)),
       Asm.init (List.replicate (c.rowLen * c.height) p)) ops).2.frames →
      ∃ fr, (fr0 :: frs)[k]? = some fr ∧ px = fr.data ++ List.replicate (c.rowLen * c.height - fr.data.length) p := by
  have hC := crcOk_of_eq cfg hcrc
  obtain ⟨rs, _, _, _, _, hlog⟩ := anim_run (scanCodec compress choose) c n plays f0 hc hsep fr0 frs hn h0 hl hsz
  obtain ⟨hin', hfine', hseq'⟩ := fcOf_facts (W := c.width) (H := c.height) fr0.pre f0 hc.rect hc.fine (fun o ho => (h0.pre o ho).2)
  have hseq0 : (fcOf c.width c.height f0 fr0.pre).seq = 0 := by rw [hseq', hc.seq0]
  have hfile : encodedAnim compress choose c (fr0 :: frs) = _ :=
    ((bytes_of_fullLog _ _ hlog).1).trans (animBytesMeta_eq cfg hcrc compress choose c n plays hc.actl f0 fr0 frs hseq0)
  rw [hfile] at h32 ⊢
  have hcov := h0.cover
  generalize hf' : fcOf c.width c.height f0 fr0.pre = f' at *
  have hsub : c.sub f' = c := sub_cover c f' hcov.2.2.1 hcov.2.2.2
  have hlen0 : fr0.data.length = (c.sub f').rowLen * f'.h := by rw [hsub, hcov.2.2.2]; exact h0.len
  have hzne : compress (rawOf choose c fr0.data) ≠ [] := by
    intro z0; rw [z0] at hinf0; exact hnil _ hinf0
  obtain ⟨z1, z2, z3⟩ := idat_cut _ hzne
  have hdl := decFrames_length compress choose c frs { f' with seq := 1 }
  obtain ⟨dB, b1, b2, b3, b4, b5, hlim⟩ := meta_accepted_anim cfg hC opts limit P c n plays hc.nlt hc.plt
    (c.rowLen + lineSum c f' frs) hm hlimit
  have hframe0 : (headerOf c).frame (fcDec f') = headerOf c := by rw [frame_dec, hsub]
  have hls := headerOf_lineSize (c := c) hc.depth
  have hB := bufferSize_headerOf (c := c) hc.depth
  have key := C09_any_path_gen_of cfg t hap f opts limit (headerOf c) plays (ancBytes cfg c n plays) dB
      (decFrames compress choose c { f' with seq := 1 } frs) (fcDec f')
      (chunksOf maxIdatChunkLen (compress (rawOf choose c fr0.data))) (rawOf choose c fr0.data) p
      hI hC ht (valid_of_anim hc) b1 b2 b3 b4 (by rw [hdl, ← hn]; exact b5)
      (fcOk_dec hin' hfine') z1 z2 (by rw [z3]; exact hinf0)
      (by rw [hframe0]; exact rawOk_encode choose c hc.depth fr0.data h0.len)
      (frameOk_dec cfg compress choose c hc.depth hnil frs _ hin' hfine' hl hinf)
      (seq_sum_lt compress choose c frs { f' with seq := 1 } (by show (1 : Nat) < 2 ^ 32; decide) hl)
      (by rw [hls]; exact hsz)
      (by
        rw [hframe0, hls, lineSum_dec compress choose c hc.depth, lineSum_setSeq]
        exact hlim)
      h32 ops
  rw [hB] at key
  refine ⟨key.1, fun k px hk => ?_⟩
  obtain ⟨x, hx, hspec⟩ := key.2 k px hk
  cases k with
  | zero =>
    simp only [List.getElem?_cons_zero, Option.some.injEq] at hx
    subst hx
    have hspec' := specFrame_encode choose c hc.depth f' fr0.data hlen0 (c.rowLen * c.height) p
    rw [hsub] at hspec'
    rw [hspec'] at hspec
    cases hspec
    exact ⟨fr0, rfl, rfl⟩
  | succ k =>
    simp only [List.getElem?_cons_succ] at hx ⊢
    obtain ⟨fr, hfr, hs⟩ := decFrames_spec compress choose c hc.depth (c.rowLen * c.height) p frs _ hl k x hx
    rw [hs] at hspec
    cases hspec
    exact ⟨fr, hfr, rfl⟩

/-- **any call path on an animation with a separate default image, ANY metadata** -/
theorem anyPath_anim_default_meta_of (cfg : Framing.Cfg) (t : TCfg) (hap : AnyPathOk cfg t) (f : Flags) (opts : Options)
    (limit P : Nat)
    (compress : Bytes → Bytes) (choose : Bytes → Bytes → FilterType) (c : Enc.Cfg) (n plays : Nat) (f0 : FC)
    (fr0 : Frame) (frs : List Frame) (p : UInt8)
    (hI : cfg.InflateOk) (hcrc : ∀ b, cfg.crc b = crcOfList b) (ht : t.IsIdentity f)
    (hc : c.Anim n plays f0) (hsep : c.sepDefImg = true) (hm : MetaOk cfg opts.ignoreText P c)
    (hn : n = frs.length) (h0 : FirstOk c f0 fr0)
    (hl : LaterOk (scanCodec compress choose) c (fcOf c.width c.height f0 fr0.pre) frs)
    (hsz : c.rowLen * c.height < 2 ^ 64)
    (hnil : ∀ o, cfg.inflate [] ≠ some (o, true))
    (hinf0 : cfg.inflate (compress (rawOf choose c fr0.data)) = some (rawOf choose c fr0.data, true))
    (hinf : ∀ x ∈ decFrames compress choose c (fcOf c.width c.height f0 fr0.pre) frs,
      cfg.inflate (compress x.2.2) = some (x.2.2, true))
    (hlimit : c.rowLen + lineSum c (fcOf c.width c.height f0 fr0.pre) frs + metaCost P c ≤ limit)
    (h32 : (encodedAnim compress choose c (fr0 :: frs)).length < 2 ^ 32) (ops : List PathOp) :
    (asmRun cfg t (List.replicate (c.rowLen * c.height) p)
      (readerOf cfg t opts limit f (encodedAnim compress choose c (fr0 :: frs)),
       Asm.init (List.replicate (c.rowLen * c.height) p)) ops).2.problem = false ∧
    ∀ k px, (k, px) ∈ (asmRun cfg t (List.replicate (c.rowLen * c.height) p)
      (readerOf cfg t opts limit f (encodedAnim compress choose c (fr0 :: frs)),
       Asm.init (List.replicate (c.rowLen * c.height) p)) ops).2.frames →
      ∃ fr, (fr0 :: frs)[k]? = some fr ∧ px = fr.data ++ List.replicate (c.rowLen * c.height - fr.data.length) p := by
  have hC := crcOk_of_eq cfg hcrc
  obtain ⟨rs, _, _, _, _, hlog⟩ := anim_default_run (scanCodec compress choose) c n plays f0 hc hsep fr0 frs hn h0 hl hsz
  obtain ⟨hin', hfine', hseq'⟩ := fcOf_facts (W := c.width) (H := c.height) fr0.pre f0 hc.rect hc.fine (fun o ho => (h0.pre o ho).2)
  have hseq0 : (fcOf c.width c.height f0 fr0.pre).seq = 0 := by rw [hseq', hc.seq0]
  have hfile : encodedAnim compress choose c (fr0 :: frs) = _ :=
    ((bytes_of_fullLog _ _ hlog).1).trans (animDefaultBytesMeta_eq cfg hcrc compress choose c n plays hc.actl f0 fr0 frs hseq0)
  rw [hfile] at h32 ⊢
  generalize hf' : fcOf c.width c.height f0 fr0.pre = f' at *
  have hzne : compress (rawOf choose c fr0.data) ≠ [] := by
    intro z0; rw [z0] at hinf0; exact hnil _ hinf0
  obtain ⟨z1, z2, z3⟩ := idat_cut _ hzne
  have hdl := decFrames_length compress choose c frs f'
  obtain ⟨dB, b1, b2, b3, b4, b5, hlim⟩ := meta_accepted_anim cfg hC opts limit P c n plays hc.nlt hc.plt
    (c.rowLen + lineSum c f' frs) hm hlimit
  have hls := headerOf_lineSize (c := c) hc.depth
  have hB := bufferSize_headerOf (c := c) hc.depth
  have key := C09_default_any_path_gen_of cfg t hap f opts limit (headerOf c) plays (ancBytes cfg c n plays) dB
      (decFrames compress choose c f' frs)
      (chunksOf maxIdatChunkLen (compress (rawOf choose c fr0.data))) (rawOf choose c fr0.data) p
      hI hC ht (valid_of_anim hc) b1 b2 b3 b4 (by rw [hdl, ← hn]; exact b5)
      z1 z2 (by rw [z3]; exact hinf0) (rawOk_encode choose c hc.depth fr0.data h0.len)
      (frameOk_dec cfg compress choose c hc.depth hnil frs _ hin' hfine' hl hinf)
      (by
        have := seq_sum_lt compress choose c frs f' (by rw [hseq0]; decide) hl
        rw [hseq0] at this
        omega)
      (by rw [hls]; exact hsz)
      (by rw [hls, lineSum_dec compress choose c hc.depth]; exact hlim)
      h32 ops
  rw [hB] at key
  refine ⟨key.1, fun k px hk => ?_⟩
  obtain ⟨k0, kS⟩ := key.2 k px hk
  cases k with
  | zero =>
    have hspec := k0 rfl
    rw [specPixels_encode choose c hc.depth fr0.data h0.len] at hspec
    cases hspec
    refine ⟨fr0, rfl, ?_⟩
    rw [h0.len, Nat.sub_self]; simp
  | succ k =>
    obtain ⟨x, hx, hspec⟩ := kS k rfl
    simp only [List.getElem?_cons_succ]
    obtain ⟨fr, hfr, hs⟩ := decFrames_spec compress choose c hc.depth (c.rowLen * c.height) p frs _ hl k x hx
    rw [hs] at hspec
    cases hspec
    exact ⟨fr, hfr, rfl⟩

end Png.RoundTrip
