import PngVerif.Model.DataPath
import PngVerif.Proofs.ZlibWindow
import PngVerif.Proofs.Unfiltering
/-!
# Reader-side buffers are bounded (component of C06): lemmas

* `ZSz`: the size-only between-call invariant of the `ZlibStream` window (`ZBnd` and
  `read_pos = out_pos`); `ZW.call_sz`, `ZW.pull_sz`, `ZW.finishIters_sz`, `ZW.flush_sz`: one call
  hands at most `min k (out_buffer.len() - out_pos)` bytes to the caller's vector and keeps the window
  within `2·(lookback·factor + chunk)`; the only panic is the progress `assert!` of the finish loop.
* `UB.unfilterCurr_shape`, `UB.unfilterCurr_no_panic`: `unfilter_curr_row` does not change
  `data_stream.len()`.
* `DPInv`: the invariant of the composite; `DP.step_inv`, `DP.run_inv`, `DP.start_inv`.
* `DP.step_panic`: from a state satisfying the invariant the only reachable panic is that `assert!`.
-/
namespace Png

/-! ## `ZlibStream`: sizes only -/

/-- between calls: the `ZBnd` bounds and everything below `out_pos` has been handed over -/
def ZSz (c : ZCfg) (z : ZW) : Prop := ZBnd c z ∧ z.readPos = z.hist.length

theorem zsz_init (c : ZCfg) : ZSz c ZW.init := ⟨zbnd_init c, by simp [ZW.init]⟩

theorem ZCfg.window_eq (c : ZCfg) : c.window = 2 * (c.lookback * c.factor + c.chunk) := rfl

theorem ZSz.bufLen_le {c : ZCfg} {z : ZW} (h : ZSz c z) : z.bufLen ≤ c.window := h.1.2.2

/-- **one `decompress` call, sizes only** (no hypothesis on the contents of the stream): no panic;
    the bytes `bs` handed to the caller are at most what the inflater wanted (`k`) and at most the
    space it was offered; the between-call bounds hold again; the buffer never shrinks. -/
theorem ZW.call_sz (c : ZCfg) (hc : c.Ok) (O : Bytes) (z : ZW) (k : Nat) (h : ZSz c z) :
    ∃ z' bs, z.call c O k = some z' ∧ ZSz c z' ∧ z.bufLen ≤ z'.bufLen ∧
      z'.delivered = z.delivered ++ bs ∧ bs.length ≤ k ∧ bs.length + z.hist.length ≤ z'.bufLen := by
  obtain ⟨hb, hr⟩ := h
  obtain ⟨z1, hprep, e1, e2, _, e4, hgrow, hmax, _, _⟩ := ZW.prepare_spec c hc z hb
  have hle1 : z1.hist.length ≤ z1.bufLen := by rw [e1]; have := hb.1; omega
  have hlen2 : (z1.read O k).hist.length ≤ z1.bufLen := by
    simp only [ZW.read, ZW.readLen, List.length_append, List.length_take, List.length_drop]
    omega
  have hlenk : (z1.read O k).hist.length ≤ z1.hist.length + k := by
    simp only [ZW.read, ZW.readLen, List.length_append, List.length_take, List.length_drop]
    omega
  have hge2 : z1.hist.length ≤ (z1.read O k).hist.length := by
    simp only [ZW.read, List.length_append]; omega
  have hrp2 : (z1.read O k).readPos = z.hist.length := by simp only [ZW.read]; rw [e2, hr]
  have e1l : z1.hist.length = z.hist.length := by rw [e1]
  have hbl : (((z1.read O k).transfer).compact c).bufLen = z1.bufLen := by
    unfold ZW.compact; split <;> simp [ZW.transfer, ZW.read]
  have hdl : (((z1.read O k).transfer).compact c).delivered
      = z.delivered ++ (z1.read O k).hist.drop (z1.read O k).readPos := by
    unfold ZW.compact; split <;> simp [ZW.transfer, ZW.read, e4]
  have hL := c.lookback_le_thresh hc
  refine ⟨((z1.read O k).transfer).compact c, (z1.read O k).hist.drop (z1.read O k).readPos,
    ?_, ⟨⟨?_, ?_, ?_⟩, ?_⟩, ?_, hdl, ?_, ?_⟩
  · simp only [ZW.call, hprep]
    rw [if_neg (by omega), if_neg (by omega)]
  · rw [hbl]
    unfold ZW.compact; split
    · simp only [List.length_drop, ZW.transfer]; omega
    · simpa [ZW.transfer] using hlen2
  · unfold ZW.compact; split
    · simp only [List.length_drop, ZW.transfer]; omega
    · rename_i hnb; simpa using hnb
  · rw [hbl]; exact hmax
  · unfold ZW.compact; split
    · simp only [List.length_drop, ZW.transfer]
    · simp [ZW.transfer]
  · rw [hbl]; exact hgrow
  · rw [List.length_drop, hrp2, ← e1]; omega
  · rw [hbl, List.length_drop, hrp2]; omega

/-- `ZW.pull` = one `decompress` into a vector: no panic, at most `min k window` bytes appended -/
theorem ZW.pull_sz (c : ZCfg) (hc : c.Ok) (O : Bytes) (z : ZW) (k : Nat) (h : ZSz c z) :
    ∃ z' bs, z.pull c O k = some (z', bs) ∧ ZSz c z' ∧ z.bufLen ≤ z'.bufLen ∧
      bs.length ≤ k ∧ bs.length ≤ c.window := by
  have h0 : ZSz c ({ z with delivered := [] } : ZW) := h
  obtain ⟨z', bs, hcall, hz', hgrow, hdel, hk, hsp⟩ := ZW.call_sz c hc O _ k h0
  refine ⟨{ z' with delivered := [] }, bs, ?_, hz', hgrow, hk, ?_⟩
  · simp only [ZW.pull, ZW.decompress, hcall]
    simp only [List.nil_append] at hdel
    rw [hdel]
  · have := hz'.bufLen_le
    omega

/-- the non-final iterations of the finish loop: if none trips the progress `assert!` the bounds hold
    again, the buffer has not shrunk and at most `Σ ks` bytes were appended -/
theorem ZW.finishIters_sz (c : ZCfg) (hc : c.Ok) (O : Bytes) : ∀ (ks : List Nat) (z z' : ZW),
    ZSz c z → ZW.finishIters c O ks z = some z' →
    ZSz c z' ∧ z.bufLen ≤ z'.bufLen ∧
      ∃ bs, z'.delivered = z.delivered ++ bs ∧ bs.length ≤ ks.foldr (· + ·) 0 := by
  intro ks
  induction ks with
  | nil =>
    intro z z' h hs
    simp only [ZW.finishIters, Option.some.injEq] at hs
    subst hs
    exact ⟨h, Nat.le_refl _, [], by simp, by simp⟩
  | cons k ks ih =>
    intro z z' h hs
    simp only [ZW.finishIters] at hs
    obtain ⟨z1, bs1, hcall, hz1, hg1, hd1, hk1, _⟩ := ZW.call_sz c hc O z k h
    rcases ZW.finishIter_eq c O z k with hn | he
    · rw [hn] at hs; cases hs
    · rw [he, hcall] at hs
      obtain ⟨hz', hg, bs, hd, hl⟩ := ih z1 z' hz1 hs
      refine ⟨hz', by omega, bs1 ++ bs, ?_, ?_⟩
      · rw [hd, hd1, List.append_assoc]
      · simp only [List.length_append, List.foldr_cons]; omega

/-- the final iteration plus epilogue: no panic, the buffer inside stays within the window bound,
    at most `kl` bytes appended -/
theorem ZW.finishLast_sz (c : ZCfg) (hc : c.Ok) (O : Bytes) (z : ZW) (kl : Nat) (h : ZSz c z) :
    ∃ zp z2 bs, z.prepare c = some zp ∧ z.finishLast c O kl = some z2 ∧ z.bufLen ≤ zp.bufLen ∧
      zp.bufLen ≤ c.window ∧ z2.delivered = z.delivered ++ bs ∧ bs.length ≤ kl := by
  obtain ⟨hb, hr⟩ := h
  obtain ⟨z1, hprep, e1, e2, _, e4, hgrow, hmax, _, _⟩ := ZW.prepare_spec c hc z hb
  have hle1 : z1.hist.length ≤ z1.bufLen := by rw [e1]; have := hb.1; omega
  have hlenk : (z1.read O kl).hist.length ≤ z1.hist.length + kl := by
    simp only [ZW.read, ZW.readLen, List.length_append, List.length_take, List.length_drop]
    omega
  have hge2 : z1.hist.length ≤ (z1.read O kl).hist.length := by
    simp only [ZW.read, List.length_append]; omega
  have hrp2 : (z1.read O kl).readPos = z.hist.length := by simp only [ZW.read]; rw [e2, hr]
  have e1l : z1.hist.length = z.hist.length := by rw [e1]
  refine ⟨z1, { (z1.read O kl).transfer with bufLen := 0 },
    (z1.read O kl).hist.drop (z1.read O kl).readPos, hprep, ?_, hgrow, hmax, ?_, ?_⟩
  · simp only [ZW.finishLast, hprep]
    rw [if_neg (by omega), if_neg (by omega)]
  · simp [ZW.transfer, ZW.read, e4]
  · rw [List.length_drop, hrp2, ← e1]; omega

/-- **`finish_compressed_chunks`, sizes only**: whatever the inflater does, `out_buffer` stays within
    the window bound during the call and at most `fl.want` bytes are appended -/
theorem ZW.flush_sz (c : ZCfg) (hc : c.Ok) (O : Bytes) (z : ZW) (fl : ZFlush) (bs : Bytes) (hi : Nat)
    (h : ZSz c z) (hf : z.flush c O fl = some (bs, hi)) :
    z.bufLen ≤ hi ∧ hi ≤ c.window ∧ bs.length ≤ fl.want := by
  cases fl with
  | idle =>
    simp only [ZW.flush] at hf
    split at hf
    · cases hf
    · simp only [Option.some.injEq, Prod.mk.injEq] at hf
      obtain ⟨hbs, hhi⟩ := hf
      subst hhi
      refine ⟨Nat.le_refl _, h.bufLen_le, ?_⟩
      rw [← hbs]
      simp only [ZW.transfer, List.nil_append, List.length_drop, ZFlush.want]
      rw [h.2]; omega
  | loop ks kl =>
    simp only [ZW.flush] at hf
    cases hit : ZW.finishIters c O ks { z with delivered := [] } with
    | none => rw [hit] at hf; cases hf
    | some z1 =>
      rw [hit] at hf
      have h0 : ZSz c ({ z with delivered := [] } : ZW) := h
      obtain ⟨hz1, hg1, bs1, hd1, hl1⟩ := ZW.finishIters_sz c hc O ks _ z1 h0 hit
      obtain ⟨zp, z2, bs2, hp, hl, hg2, hw, hd2, hl2⟩ := ZW.finishLast_sz c hc O z1 kl hz1
      simp only [hp, hl, Option.some.injEq, Prod.mk.injEq] at hf
      obtain ⟨hbs, hhi⟩ := hf
      subst hhi
      refine ⟨?_, hw, ?_⟩
      · have : ({ z with delivered := [] } : ZW).bufLen = z.bufLen := rfl
        omega
      · rw [← hbs, hd2, hd1]
        simp only [List.nil_append, List.length_append, ZFlush.want]
        omega

/-- the only panic of `finish_compressed_chunks` from a between-call state is the progress `assert!`
    (zlib.rs:141) in one of the non-final iterations -/
theorem ZW.flush_none (c : ZCfg) (hc : c.Ok) (O : Bytes) (z : ZW) (fl : ZFlush)
    (h : ZSz c z) (hf : z.flush c O fl = none) :
    ∃ ks kl, fl = .loop ks kl ∧ ZW.finishIters c O ks { z with delivered := [] } = none := by
  cases fl with
  | idle =>
    simp only [ZW.flush] at hf
    split at hf
    · rename_i hlt; rw [h.2] at hlt; omega
    · cases hf
  | loop ks kl =>
    refine ⟨ks, kl, rfl, ?_⟩
    simp only [ZW.flush] at hf
    cases hit : ZW.finishIters c O ks { z with delivered := [] } with
    | none => rfl
    | some z1 =>
      rw [hit] at hf
      have h0 : ZSz c ({ z with delivered := [] } : ZW) := h
      obtain ⟨hz1, _⟩ := ZW.finishIters_sz c hc O ks _ z1 h0 hit
      obtain ⟨zp, z2, bs2, hp, hl, _⟩ := ZW.finishLast_sz c hc O z1 kl hz1
      simp [hp, hl] at hf

/-- `prepare_vec_for_appending` alone keeps the between-call bounds -/
theorem ZW.prepare_sz (c : ZCfg) (hc : c.Ok) (z : ZW) (h : ZSz c z) :
    ∃ z1, z.prepare c = some z1 ∧ ZSz c z1 ∧ z.bufLen ≤ z1.bufLen := by
  obtain ⟨hb, hr⟩ := h
  obtain ⟨z1, hprep, e1, e2, _, _, hgrow, hmax, _, _⟩ := ZW.prepare_spec c hc z hb
  refine ⟨z1, hprep, ⟨⟨?_, ?_, hmax⟩, ?_⟩, hgrow⟩
  · rw [e1]; have := hb.1; omega
  · rw [e1]; exact hb.2.1
  · rw [e1, e2]; exact hr

/-! ## `UnfilteringBuffer`: lengths -/

theorem UB.prevRow_length (u : UB) (h : u.Inv) : u.prevRow.length = u.curStart - u.prevStart := by
  obtain ⟨h1, h2⟩ := h
  simp only [UB.prevRow, List.length_take, List.length_drop]; omega

theorem UB.compact_length (u : UB) (h : u.Inv) :
    u.compact.data.length = (u.curStart - u.prevStart) + u.currLen ∧
    u.compact.curStart - u.compact.prevStart = u.curStart - u.prevStart ∧
    u.compact.currLen = u.currLen := by
  obtain ⟨h1, h2⟩ := h
  unfold UB.compact
  split
  · simp only [UB.currLen, List.length_drop]; omega
  · refine ⟨?_, rfl, rfl⟩
    simp only [UB.currLen]; omega

theorem UB.append_length (u : UB) (bs : Bytes) (h : u.Inv) :
    (u.append bs).data.length = (u.curStart - u.prevStart) + u.currLen + bs.length ∧
    (u.append bs).curStart - (u.append bs).prevStart = u.curStart - u.prevStart := by
  obtain ⟨a, b, _⟩ := UB.compact_length u h
  simp only [UB.append, UB.extend, List.length_append]
  omega

/-- a successful `unfilter_curr_row` leaves `data_stream.len()` alone and advances the two indices -/
theorem UB.unfilterCurr_shape (u u' : UB) (rowlen bpp : Nat)
    (hok : u.unfilterCurr rowlen bpp = .ok u') :
    u'.data.length = u.data.length ∧ u'.prevStart = u.curStart + 1 ∧ u'.curStart = u.curStart + rowlen ∧
      2 ≤ rowlen := by
  unfold UB.unfilterCurr at hok
  by_cases c1 : rowlen < 2
  · simp only [c1, if_true] at hok; cases hok
  by_cases c2 : u.data.length < u.curStart
  · simp only [c1, c2, if_true, if_false] at hok; cases hok
  by_cases c3 : u.curStart < u.prevStart
  · simp only [c1, c2, c3, if_true, if_false] at hok; cases hok
  by_cases c4 : ¬ (u.prevRow.isEmpty ∨ u.prevRow.length = rowlen - 1)
  · simp only [c1, c2, c3, c4, if_false] at hok; cases hok
  by_cases c5 : u.currLen = 0
  · simp only [c1, c2, c3, c4, c5, if_true, if_false] at hok; cases hok
  simp only [c1, c2, c3, c4, c5, if_false] at hok
  cases hft : FilterType.ofNat? (u.data.getD u.curStart 0).toNat with
  | none => rw [hft] at hok; cases hok
  | some ft =>
    rw [hft] at hok
    by_cases c6 : u.currLen < rowlen
    · simp only [c6, if_true] at hok; cases hok
    · simp only [c6, if_false] at hok
      injection hok with hok
      subst hok
      have hol : (unfilterImpl ft bpp u.prevRow ((u.data.drop (u.curStart + 1)).take (rowlen - 1))).length
          = rowlen - 1 := by
        rw [unfilterImpl_length]; simp [UB.currLen] at c6 ⊢; omega
      refine ⟨?_, rfl, rfl, by omega⟩
      simp only [List.length_append, List.length_take, List.length_drop, hol]
      simp only [UB.currLen] at c6
      omega

/-- `unfilter_curr_row` does not panic when a whole row is present and the previous row is absent or
    has the row's length -/
theorem UB.unfilterCurr_no_panic (u : UB) (rowlen bpp : Nat) (h : u.Inv) (hr : 2 ≤ rowlen)
    (hp : u.curStart - u.prevStart = 0 ∨ u.curStart - u.prevStart = rowlen - 1)
    (hc : ¬ u.currLen < rowlen) : u.unfilterCurr rowlen bpp ≠ .panic := by
  have hpl := UB.prevRow_length u h
  obtain ⟨h1, h2⟩ := h
  unfold UB.unfilterCurr
  have c1 : ¬ rowlen < 2 := by omega
  have c2 : ¬ u.data.length < u.curStart := by omega
  have c3 : ¬ u.curStart < u.prevStart := by omega
  have c4 : ¬¬ (u.prevRow.isEmpty ∨ u.prevRow.length = rowlen - 1) := by
    intro hn; apply hn
    rcases hp with hp | hp
    · left; rw [List.isEmpty_iff_length_eq_zero]; omega
    · right; omega
  have c5 : ¬ u.currLen = 0 := by omega
  simp only [c1, c2, c3, c4, c5, if_false]
  cases FilterType.ofNat? (u.data.getD u.curStart 0).toNat with
  | none => simp
  | some ft => simp only [hc, if_false]; simp

/-! ## The composite invariant -/

/-- what every reachable state of the data path satisfies; `L` = the budget `DP.start` was given -/
structure DPInv (c : ZCfg) (L : Nat) (st : DP) : Prop where
  zsz : ZSz c st.z
  ubinv : st.ub.Inv
  /-- the previous row is absent or has the current pass's row length -/
  prev : st.ub.curStart - st.ub.prevStart = 0 ∨ st.ub.curStart - st.ub.prevStart = st.rowlen - 1
  row2 : 2 ≤ st.rowlen
  rowle : st.rowlen ≤ st.frame.rowlen
  /-- `data_stream.len() ≤ 2·rowlen − 2 + max(window, largest flush)` -/
  ublen : st.ub.data.length + 2 ≤ 2 * st.frame.rowlen + max c.window st.flushHigh
  zcur : st.z.bufLen ≤ st.zHigh
  zhigh : st.zHigh ≤ c.window
  tmp : st.tmpHigh ≤ max c.window st.flushHigh
  lim : st.limit ≤ L
  /-- the scratch row and the current frame's output line are covered by what was charged (a frame whose
      charge is refused is never installed) -/
  paid : st.scratchLen ≤ L - st.limit ∧ st.frame.outLine ≤ L - st.limit

theorem DP.start_inv (c : ZCfg) (L : Nat) (fr : DPFrame) (O : Bytes) (st : DP)
    (h : DP.start L fr O = some st) : DPInv c L st ∧ st.limitHit = false ∧ st.frame = fr := by
  unfold DP.start at h
  split at h
  · cases h
  · rename_i hg
    simp only [Option.some.injEq] at h
    subst h
    refine ⟨⟨zsz_init c, UB.inv_new, Or.inl rfl, by dsimp only; omega, Nat.le_refl _, ?_, ?_, ?_, ?_, ?_, ?_⟩,
      rfl, rfl⟩
    · simp only [UB.new, List.length_nil]; omega
    · simp [ZW.init]
    · exact Nat.zero_le _
    · exact Nat.zero_le _
    · exact Nat.sub_le _ _
    · dsimp only; omega

/-- compaction + appending `bs` while the Reader still wants data: the new length -/
theorem DPInv.append_len {c : ZCfg} {L : Nat} {st : DP} (hi : DPInv c L st)
    (hw : st.wantsData = true) (bs : Bytes) :
    (st.ub.append bs).data.length + 2 ≤ 2 * st.frame.rowlen + bs.length := by
  have hlen := (UB.append_length st.ub bs hi.ubinv).1
  have hcur : st.ub.currLen < st.rowlen := by
    simp only [DP.wantsData, Bool.and_eq_true, decide_eq_true_eq] at hw; exact hw.2
  have := hi.prev; have := hi.rowle; have := hi.row2
  omega

theorem DP.step_inv (c : ZCfg) (hc : c.Ok) (L : Nat) (st st' : DP) (op : DPOp)
    (hi : DPInv c L st) (hs : st.step c op = .ok st') : DPInv c L st' := by
  cases op with
  | setMax n =>
    simp only [DP.step, DPOut.ok.injEq] at hs; subst hs
    exact { hi with zsz := hi.zsz }
  | charge n =>
    simp only [DP.step] at hs
    split at hs
    · simp only [DPOut.ok.injEq] at hs; subst hs
      have := hi.lim
      exact { hi with lim := by dsimp only; omega,
                      paid := by have := hi.paid; dsimp only; omega }
    · cases hs
  | pullNone =>
    simp only [DP.step] at hs
    split at hs
    · cases hs
    · rename_i hw
      simp only [Bool.not_eq_true', Bool.not_eq_false] at hw
      simp only [DPOut.ok.injEq] at hs; subst hs
      have hlen := DPInv.append_len hi hw []
      have hc2 := UB.compact_length st.ub hi.ubinv
      have hap : st.ub.append [] = st.ub.compact := by simp [UB.append, UB.extend]
      rw [hap] at hlen
      exact { hi with ubinv := UB.inv_compact _ hi.ubinv,
                      prev := by dsimp only; rw [hc2.2.1]; exact hi.prev,
                      ublen := by dsimp only; simp only [List.length_nil] at hlen; omega }
  | pull k =>
    simp only [DP.step] at hs
    split at hs
    · cases hs
    · rename_i hw
      simp only [Bool.not_eq_true', Bool.not_eq_false] at hw
      obtain ⟨z', bs, hp, hz', hg, _, hbw⟩ := ZW.pull_sz c hc st.O st.z k hi.zsz
      rw [hp] at hs
      simp only [DPOut.ok.injEq] at hs; subst hs
      have hlen := DPInv.append_len hi hw bs
      have hpv := (UB.append_length st.ub bs hi.ubinv).2
      have := hi.zhigh; have := hz'.bufLen_le
      exact { hi with zsz := hz', ubinv := UB.inv_append _ _ hi.ubinv,
                      prev := by dsimp only; rw [hpv]; exact hi.prev,
                      ublen := by dsimp only; omega,
                      zcur := by dsimp only; omega,
                      zhigh := by dsimp only; omega }
  | pullFlush fl O' =>
    simp only [DP.step] at hs
    split at hs
    · cases hs
    · rename_i hw
      simp only [Bool.not_eq_true', Bool.not_eq_false] at hw
      cases hf : st.z.flush c st.O fl with
      | none => rw [hf] at hs; cases hs
      | some r =>
        obtain ⟨bs, hi'⟩ := r
        rw [hf] at hs
        simp only [DPOut.ok.injEq] at hs; subst hs
        obtain ⟨_, hhw, _⟩ := ZW.flush_sz c hc st.O st.z fl bs hi' hi.zsz hf
        have hlen := DPInv.append_len hi hw bs
        have hpv := (UB.append_length st.ub bs hi.ubinv).2
        have := hi.zhigh; have := hi.tmp
        exact { hi with zsz := zsz_init c, ubinv := UB.inv_append _ _ hi.ubinv,
                        prev := by dsimp only; rw [hpv]; exact hi.prev,
                        ublen := by dsimp only; omega,
                        zcur := by dsimp only; simp [ZW.init],
                        zhigh := by dsimp only; omega,
                        tmp := by dsimp only; omega }
  | zFail =>
    simp only [DP.step] at hs
    obtain ⟨z1, hp, hz1, hg⟩ := ZW.prepare_sz c hc st.z hi.zsz
    rw [hp] at hs
    simp only [DPOut.ok.injEq] at hs; subst hs
    have := hi.zhigh; have := hz1.bufLen_le
    exact { hi with zsz := hz1, zcur := by dsimp only; omega, zhigh := by dsimp only; omega }
  | row =>
    simp only [DP.step] at hs
    split at hs
    · cases hs
    · cases hu : st.ub.unfilterCurr st.rowlen st.frame.bpp with
      | panic => rw [hu] at hs; cases hs
      | unknownFilter b =>
        rw [hu] at hs
        simp only [DPOut.ok.injEq] at hs; subst hs; exact hi
      | ok u =>
        rw [hu] at hs
        simp only [DPOut.ok.injEq] at hs; subst hs
        obtain ⟨e1, e2, e3, _⟩ := UB.unfilterCurr_shape _ _ _ _ hu
        exact { hi with ubinv := UB.inv_unfilterCurr _ _ _ _ hi.ubinv hu,
                        prev := by dsimp only; rw [e2, e3]; right; omega,
                        ublen := by dsimp only; rw [e1]; exact hi.ublen }
  | newPass r =>
    simp only [DP.step] at hs
    split at hs
    · rename_i hr
      simp only [DPOut.ok.injEq] at hs; subst hs
      exact { hi with ubinv := UB.inv_resetPrev _ hi.ubinv,
                      prev := by left; simp [UB.resetPrev],
                      row2 := hr.1, rowle := hr.2,
                      ublen := by simpa [UB.resetPrev] using hi.ublen }
    · cases hs
  | scratch =>
    simp only [DP.step, DPOut.ok.injEq] at hs; subst hs
    exact { hi with paid := by have := hi.paid; dsimp only; omega }
  | skip k =>
    simp only [DP.step] at hs
    obtain ⟨z', bs, hp, hz', hg, _, hbw⟩ := ZW.pull_sz c hc st.O st.z k hi.zsz
    rw [hp] at hs
    simp only [DPOut.ok.injEq] at hs; subst hs
    have := hi.zhigh; have := hz'.bufLen_le; have := hi.tmp
    exact { hi with zsz := hz', zcur := by dsimp only; omega, zhigh := by dsimp only; omega,
                    tmp := by dsimp only; omega }
  | skipFlush fl O' =>
    simp only [DP.step] at hs
    cases hf : st.z.flush c st.O fl with
    | none => rw [hf] at hs; cases hs
    | some r =>
      obtain ⟨bs, hi'⟩ := r
      rw [hf] at hs
      simp only [DPOut.ok.injEq] at hs; subst hs
      obtain ⟨_, hhw, _⟩ := ZW.flush_sz c hc st.O st.z fl bs hi' hi.zsz hf
      have := hi.zhigh; have := hi.tmp; have := hi.ublen
      exact { hi with zsz := zsz_init c,
                      ublen := by dsimp only; omega,
                      zcur := by dsimp only; simp [ZW.init],
                      zhigh := by dsimp only; omega,
                      tmp := by dsimp only; omega }
  | newFrame fr =>
    simp only [DP.step] at hs
    split at hs
    · cases hs
    · rename_i hg
      have hr2 : 2 ≤ fr.rowlen := by omega
      have := hi.lim
      split at hs
      · rename_i hl
        simp only [DPOut.ok.injEq] at hs; subst hs
        exact { hi with ubinv := UB.inv_new, prev := Or.inl rfl, row2 := hr2, rowle := Nat.le_refl _,
                        ublen := by simp only [UB.new, List.length_nil]; omega,
                        lim := by dsimp only; omega,
                        paid := by have := hi.paid; dsimp only; omega }
      · simp only [DPOut.ok.injEq] at hs; subst hs
        exact { hi with zsz := hi.zsz }
  | finish =>
    simp only [DP.step, DPOut.ok.injEq] at hs; subst hs
    have := hi.row2; have := hi.rowle
    exact { hi with ubinv := UB.inv_new, prev := Or.inl rfl,
                    ublen := by simp only [UB.new, List.length_nil]; omega }

theorem DP.run_inv (c : ZCfg) (hc : c.Ok) (L : Nat) : ∀ (ops : List DPOp) (st st' : DP),
    DPInv c L st → DP.run c ops st = .ok st' → DPInv c L st' := by
  intro ops
  induction ops with
  | nil =>
    intro st st' hi hr
    simp only [DP.run, DPOut.ok.injEq] at hr; subst hr; exact hi
  | cons op ops ih =>
    intro st st' hi hr
    simp only [DP.run] at hr
    cases hs : st.step c op with
    | ok st1 => rw [hs] at hr; exact ih st1 st' (DP.step_inv c hc L st st1 op hi hs) hr
    | refused => rw [hs] at hr; cases hr
    | panic => rw [hs] at hr; cases hr

/-- **the only reachable panic**: from a state satisfying the invariant an operation panics only if it
    is a flush in which a non-final iteration of the finish loop trips the progress `assert!`
    (zlib.rs:141: the inflater produced nothing and nothing was left to hand over) -/
theorem DP.step_panic (c : ZCfg) (hc : c.Ok) (L : Nat) (st : DP) (op : DPOp)
    (hi : DPInv c L st) (hs : st.step c op = .panic) :
    ∃ ks kl O', (op = .pullFlush (.loop ks kl) O' ∨ op = .skipFlush (.loop ks kl) O') ∧
      ZW.finishIters c st.O ks { st.z with delivered := [] } = none := by
  cases op with
  | setMax n => simp [DP.step] at hs
  | charge n => simp only [DP.step] at hs; split at hs <;> cases hs
  | pullNone => simp only [DP.step] at hs; split at hs <;> cases hs
  | pull k =>
    simp only [DP.step] at hs
    obtain ⟨z', bs, hp, _⟩ := ZW.pull_sz c hc st.O st.z k hi.zsz
    rw [hp] at hs
    split at hs <;> cases hs
  | pullFlush fl O' =>
    simp only [DP.step] at hs
    split at hs
    · cases hs
    · cases hf : st.z.flush c st.O fl with
      | some r => rw [hf] at hs; cases hs
      | none =>
        obtain ⟨ks, kl, rfl, hn⟩ := ZW.flush_none c hc st.O st.z fl hi.zsz hf
        exact ⟨ks, kl, O', Or.inl rfl, hn⟩
  | zFail =>
    simp only [DP.step] at hs
    obtain ⟨z1, hp, _⟩ := ZW.prepare_sz c hc st.z hi.zsz
    rw [hp] at hs; cases hs
  | row =>
    simp only [DP.step] at hs
    split at hs
    · cases hs
    · rename_i hcur
      have := UB.unfilterCurr_no_panic st.ub st.rowlen st.frame.bpp hi.ubinv hi.row2 hi.prev hcur
      cases hu : st.ub.unfilterCurr st.rowlen st.frame.bpp with
      | panic => exact absurd hu this
      | unknownFilter b => rw [hu] at hs; cases hs
      | ok u => rw [hu] at hs; cases hs
  | newPass r => simp only [DP.step] at hs; split at hs <;> cases hs
  | scratch => simp [DP.step] at hs
  | skip k =>
    simp only [DP.step] at hs
    obtain ⟨z', bs, hp, _⟩ := ZW.pull_sz c hc st.O st.z k hi.zsz
    rw [hp] at hs; cases hs
  | skipFlush fl O' =>
    simp only [DP.step] at hs
    cases hf : st.z.flush c st.O fl with
    | some r => rw [hf] at hs; cases hs
    | none =>
      obtain ⟨ks, kl, rfl, hn⟩ := ZW.flush_none c hc st.O st.z fl hi.zsz hf
      exact ⟨ks, kl, O', Or.inr rfl, hn⟩
  | newFrame fr =>
    simp only [DP.step] at hs
    split at hs
    · cases hs
    · split at hs <;> cases hs
  | finish => simp [DP.step] at hs

/-- the first panic of a run: the operations before it succeed, and it is the progress `assert!` -/
theorem DP.run_panic (c : ZCfg) (hc : c.Ok) (L : Nat) : ∀ (ops : List DPOp) (st : DP),
    DPInv c L st → DP.run c ops st = .panic →
    ∃ pre op post st1 ks kl O', ops = pre ++ op :: post ∧ DP.run c pre st = .ok st1 ∧
      (op = .pullFlush (.loop ks kl) O' ∨ op = .skipFlush (.loop ks kl) O') ∧
      ZW.finishIters c st1.O ks { st1.z with delivered := [] } = none := by
  intro ops
  induction ops with
  | nil => intro st _ hr; simp [DP.run] at hr
  | cons op ops ih =>
    intro st hi hr
    simp only [DP.run] at hr
    cases hs : st.step c op with
    | ok st1 =>
      rw [hs] at hr
      obtain ⟨pre, op', post, st2, ks, kl, O', he, hp, hop, hn⟩ :=
        ih st1 (DP.step_inv c hc L st st1 op hi hs) hr
      refine ⟨op :: pre, op', post, st2, ks, kl, O', by rw [he]; rfl, ?_, hop, hn⟩
      simp only [DP.run, hs]; exact hp
    | refused => rw [hs] at hr; cases hr
    | panic =>
      obtain ⟨ks, kl, O', hop, hn⟩ := DP.step_panic c hc L st op hi hs
      exact ⟨[], op, ops, st, ks, kl, O', rfl, rfl, hop, hn⟩

/-! ## What the run's operations say about the ghosts -/

/-- bytes the inflater wants to produce in the flush of an operation (0 for the others) -/
def DPOp.flushWant : DPOp → Nat
  | .pullFlush fl _ => fl.want
  | .skipFlush fl _ => fl.want
  | _ => 0

theorem DP.step_flushHigh (c : ZCfg) (hc : c.Ok) (L : Nat) (st st' : DP) (op : DPOp) (F : Nat)
    (hi : DPInv c L st) (hs : st.step c op = .ok st') (hF : st.flushHigh ≤ F) (hop : op.flushWant ≤ F) :
    st'.flushHigh ≤ F := by
  cases op with
  | pullFlush fl O' =>
    simp only [DP.step] at hs
    split at hs
    · cases hs
    · cases hf : st.z.flush c st.O fl with
      | none => rw [hf] at hs; cases hs
      | some r =>
        obtain ⟨bs, hi'⟩ := r
        rw [hf] at hs
        simp only [DPOut.ok.injEq] at hs; subst hs
        obtain ⟨_, _, hw⟩ := ZW.flush_sz c hc st.O st.z fl bs hi' hi.zsz hf
        simp only [DPOp.flushWant] at hop
        dsimp only; omega
  | skipFlush fl O' =>
    simp only [DP.step] at hs
    cases hf : st.z.flush c st.O fl with
    | none => rw [hf] at hs; cases hs
    | some r =>
      obtain ⟨bs, hi'⟩ := r
      rw [hf] at hs
      simp only [DPOut.ok.injEq] at hs; subst hs
      obtain ⟨_, _, hw⟩ := ZW.flush_sz c hc st.O st.z fl bs hi' hi.zsz hf
      simp only [DPOp.flushWant] at hop
      dsimp only; omega
  | setMax n => simp only [DP.step, DPOut.ok.injEq] at hs; subst hs; exact hF
  | charge n =>
    simp only [DP.step] at hs
    split at hs
    · simp only [DPOut.ok.injEq] at hs; subst hs; exact hF
    · cases hs
  | pullNone =>
    simp only [DP.step] at hs
    split at hs
    · cases hs
    · simp only [DPOut.ok.injEq] at hs; subst hs; exact hF
  | pull k =>
    simp only [DP.step] at hs
    split at hs
    · cases hs
    · split at hs
      · cases hs
      · simp only [DPOut.ok.injEq] at hs; subst hs; exact hF
  | zFail =>
    simp only [DP.step] at hs
    split at hs
    · cases hs
    · simp only [DPOut.ok.injEq] at hs; subst hs; exact hF
  | row =>
    simp only [DP.step] at hs
    split at hs
    · cases hs
    · split at hs
      · simp only [DPOut.ok.injEq] at hs; subst hs; exact hF
      · simp only [DPOut.ok.injEq] at hs; subst hs; exact hF
      · cases hs
  | newPass r =>
    simp only [DP.step] at hs
    split at hs
    · simp only [DPOut.ok.injEq] at hs; subst hs; exact hF
    · cases hs
  | scratch => simp only [DP.step, DPOut.ok.injEq] at hs; subst hs; exact hF
  | skip k =>
    simp only [DP.step] at hs
    split at hs
    · cases hs
    · simp only [DPOut.ok.injEq] at hs; subst hs; exact hF
  | newFrame fr =>
    simp only [DP.step] at hs
    split at hs
    · cases hs
    · split at hs <;> (simp only [DPOut.ok.injEq] at hs; subst hs; exact hF)
  | finish => simp only [DP.step, DPOut.ok.injEq] at hs; subst hs; exact hF

/-- if no flush of the run wants more than `F` bytes, no flush produced more than `F` -/
theorem DP.run_flushHigh (c : ZCfg) (hc : c.Ok) (L F : Nat) : ∀ (ops : List DPOp) (st st' : DP),
    DPInv c L st → DP.run c ops st = .ok st' → st.flushHigh ≤ F → (∀ op ∈ ops, op.flushWant ≤ F) →
    st'.flushHigh ≤ F := by
  intro ops
  induction ops with
  | nil =>
    intro st st' _ hr hF _
    simp only [DP.run, DPOut.ok.injEq] at hr; subst hr; exact hF
  | cons op ops ih =>
    intro st st' hi hr hF hops
    simp only [DP.run] at hr
    cases hs : st.step c op with
    | ok st1 =>
      rw [hs] at hr
      exact ih st1 st' (DP.step_inv c hc L st st1 op hi hs) hr
        (DP.step_flushHigh c hc L st st1 op F hi hs hF (hops op (List.mem_cons_self ..)))
        (fun o ho => hops o (List.mem_cons_of_mem _ ho))
    | refused => rw [hs] at hr; cases hr
    | panic => rw [hs] at hr; cases hr

/-- a successful step leaves the frame alone unless it is `newFrame fr`, which installs `fr` -/
theorem DP.step_frame (c : ZCfg) (st st' : DP) (op : DPOp) (hs : st.step c op = .ok st') :
    st'.frame = st.frame ∨ op = .newFrame st'.frame := by
  cases op with
  | newFrame fr =>
    simp only [DP.step] at hs
    split at hs
    · cases hs
    · split at hs
      · right; simp only [DPOut.ok.injEq] at hs; subst hs; rfl
      · left; simp only [DPOut.ok.injEq] at hs; subst hs; rfl
  | pullFlush fl O' =>
    left
    simp only [DP.step] at hs
    split at hs
    · cases hs
    · split at hs
      · cases hs
      · simp only [DPOut.ok.injEq] at hs; subst hs; rfl
  | skipFlush fl O' =>
    left
    simp only [DP.step] at hs
    split at hs
    · cases hs
    · simp only [DPOut.ok.injEq] at hs; subst hs; rfl
  | setMax n => left; simp only [DP.step, DPOut.ok.injEq] at hs; subst hs; rfl
  | charge n =>
    left
    simp only [DP.step] at hs
    split at hs
    · simp only [DPOut.ok.injEq] at hs; subst hs; rfl
    · cases hs
  | pullNone =>
    left
    simp only [DP.step] at hs
    split at hs
    · cases hs
    · simp only [DPOut.ok.injEq] at hs; subst hs; rfl
  | pull k =>
    left
    simp only [DP.step] at hs
    split at hs
    · cases hs
    · split at hs
      · cases hs
      · simp only [DPOut.ok.injEq] at hs; subst hs; rfl
  | zFail =>
    left
    simp only [DP.step] at hs
    split at hs
    · cases hs
    · simp only [DPOut.ok.injEq] at hs; subst hs; rfl
  | row =>
    left
    simp only [DP.step] at hs
    split at hs
    · cases hs
    · split at hs
      · simp only [DPOut.ok.injEq] at hs; subst hs; rfl
      · simp only [DPOut.ok.injEq] at hs; subst hs; rfl
      · cases hs
  | newPass r =>
    left
    simp only [DP.step] at hs
    split at hs
    · simp only [DPOut.ok.injEq] at hs; subst hs; rfl
    · cases hs
  | scratch => left; simp only [DP.step, DPOut.ok.injEq] at hs; subst hs; rfl
  | skip k =>
    left
    simp only [DP.step] at hs
    split at hs
    · cases hs
    · simp only [DPOut.ok.injEq] at hs; subst hs; rfl
  | finish => left; simp only [DP.step, DPOut.ok.injEq] at hs; subst hs; rfl

/-- a property of frames that holds for the first frame and for every frame the run starts holds for
    the current frame -/
theorem DP.run_frame (c : ZCfg) (P : DPFrame → Prop) : ∀ (ops : List DPOp) (st st' : DP),
    DP.run c ops st = .ok st' → P st.frame → (∀ fr, DPOp.newFrame fr ∈ ops → P fr) → P st'.frame := by
  intro ops
  induction ops with
  | nil =>
    intro st st' hr h0 _
    simp only [DP.run, DPOut.ok.injEq] at hr; subst hr; exact h0
  | cons op ops ih =>
    intro st st' hr h0 hops
    simp only [DP.run] at hr
    cases hs : st.step c op with
    | ok st1 =>
      rw [hs] at hr
      refine ih st1 st' hr ?_ (fun fr hfr => hops fr (List.mem_cons_of_mem _ hfr))
      rcases DP.step_frame c st st1 op hs with h | h
      · rw [h]; exact h0
      · exact hops _ (by rw [h]; exact List.mem_cons_self ..)
    | refused => rw [hs] at hr; cases hr
    | panic => rw [hs] at hr; cases hr

/-- a successful step leaves `scratch_buffer.len()` alone or sets it to the current frame's output line -/
theorem DP.step_scratch (c : ZCfg) (st st' : DP) (op : DPOp) (hs : st.step c op = .ok st') :
    st'.scratchLen = st.scratchLen ∨ st'.scratchLen = st.frame.outLine := by
  cases op with
  | scratch => right; simp only [DP.step, DPOut.ok.injEq] at hs; subst hs; rfl
  | newFrame fr =>
    left
    simp only [DP.step] at hs
    split at hs
    · cases hs
    · split at hs <;> (simp only [DPOut.ok.injEq] at hs; subst hs; rfl)
  | pullFlush fl O' =>
    left
    simp only [DP.step] at hs
    split at hs
    · cases hs
    · split at hs
      · cases hs
      · simp only [DPOut.ok.injEq] at hs; subst hs; rfl
  | skipFlush fl O' =>
    left
    simp only [DP.step] at hs
    split at hs
    · cases hs
    · simp only [DPOut.ok.injEq] at hs; subst hs; rfl
  | setMax n => left; simp only [DP.step, DPOut.ok.injEq] at hs; subst hs; rfl
  | charge n =>
    left
    simp only [DP.step] at hs
    split at hs
    · simp only [DPOut.ok.injEq] at hs; subst hs; rfl
    · cases hs
  | pullNone =>
    left
    simp only [DP.step] at hs
    split at hs
    · cases hs
    · simp only [DPOut.ok.injEq] at hs; subst hs; rfl
  | pull k =>
    left
    simp only [DP.step] at hs
    split at hs
    · cases hs
    · split at hs
      · cases hs
      · simp only [DPOut.ok.injEq] at hs; subst hs; rfl
  | zFail =>
    left
    simp only [DP.step] at hs
    split at hs
    · cases hs
    · simp only [DPOut.ok.injEq] at hs; subst hs; rfl
  | row =>
    left
    simp only [DP.step] at hs
    split at hs
    · cases hs
    · split at hs
      · simp only [DPOut.ok.injEq] at hs; subst hs; rfl
      · simp only [DPOut.ok.injEq] at hs; subst hs; rfl
      · cases hs
  | newPass r =>
    left
    simp only [DP.step] at hs
    split at hs
    · simp only [DPOut.ok.injEq] at hs; subst hs; rfl
    · cases hs
  | skip k =>
    left
    simp only [DP.step] at hs
    split at hs
    · cases hs
    · simp only [DPOut.ok.injEq] at hs; subst hs; rfl
  | finish => left; simp only [DP.step, DPOut.ok.injEq] at hs; subst hs; rfl

/-- paid or not, the scratch row is never longer than the longest output line of the frames started -/
theorem DP.run_scratch (c : ZCfg) (B : Nat) : ∀ (ops : List DPOp) (st st' : DP),
    DP.run c ops st = .ok st' → st.scratchLen ≤ B → st.frame.outLine ≤ B →
    (∀ fr, DPOp.newFrame fr ∈ ops → fr.outLine ≤ B) → st'.scratchLen ≤ B ∧ st'.frame.outLine ≤ B := by
  intro ops
  induction ops with
  | nil =>
    intro st st' hr h1 h2 _
    simp only [DP.run, DPOut.ok.injEq] at hr; subst hr; exact ⟨h1, h2⟩
  | cons op ops ih =>
    intro st st' hr h1 h2 hops
    simp only [DP.run] at hr
    cases hs : st.step c op with
    | ok st1 =>
      rw [hs] at hr
      refine ih st1 st' hr ?_ ?_ (fun fr hfr => hops fr (List.mem_cons_of_mem _ hfr))
      · rcases DP.step_scratch c st st1 op hs with h | h <;> omega
      · rcases DP.step_frame c st st1 op hs with h | h
        · rw [h]; exact h2
        · exact hops _ (by rw [h]; exact List.mem_cons_self ..)
    | refused => rw [hs] at hr; cases hr
    | panic => rw [hs] at hr; cases hr

/-- reading an observed outcome back -/
theorem DP.runFrom_ok (c : ZCfg) (L : Nat) (fr : DPFrame) (O : Bytes) (ops : List DPOp) (s : DPSizes)
    (h : DP.runFrom c L fr O ops = some (.ok s)) :
    ∃ st0 st, DP.start L fr O = some st0 ∧ DP.run c ops st0 = .ok st ∧ st.sizes = s := by
  unfold DP.runFrom at h
  cases h0 : DP.start L fr O with
  | none => rw [h0] at h; cases h
  | some st0 =>
    rw [h0] at h
    simp only [Option.some.injEq] at h
    cases hr : DP.run c ops st0 with
    | ok st => rw [hr] at h; simp only [DPOut.obs, DPObs.ok.injEq] at h; exact ⟨st0, st, rfl, hr, h⟩
    | refused => rw [hr] at h; cases h
    | panic => rw [hr] at h; cases h

/-- reading an observed outcome of the pinned tree's run back -/
theorem DP.runFromPinned_ok (c : ZCfg) (L : Nat) (fr : DPFrame) (O : Bytes) (ops : List DPOp) (s : DPSizes)
    (h : DP.runFromPinned c L fr O ops = some (.ok s)) :
    ∃ st0 st, DP.start L fr O = some st0 ∧ DP.runPinned c ops st0 = .ok st ∧ st.sizes = s := by
  unfold DP.runFromPinned at h
  cases h0 : DP.start L fr O with
  | none => rw [h0] at h; cases h
  | some st0 =>
    rw [h0] at h
    simp only [Option.some.injEq] at h
    cases hr : DP.runPinned c ops st0 with
    | ok st => rw [hr] at h; simp only [DPOut.obs, DPObs.ok.injEq] at h; exact ⟨st0, st, rfl, hr, h⟩
    | refused => rw [hr] at h; cases h
    | panic => rw [hr] at h; cases h

/-- the pinned tree and the repaired tree differ only in a frame start whose charge is refused -/
theorem DP.stepPinned_eq (c : ZCfg) (st : DP) (op : DPOp)
    (h : ∀ fr, op = .newFrame fr → fr.outLine ≤ st.limit) : st.stepPinned c op = st.step c op := by
  cases op with
  | newFrame fr =>
    have hl := h fr rfl
    simp only [DP.stepPinned, DP.step, hl, if_true]
  | _ => rfl

/-! ## `Vec` capacity (std's amortised growth) -/

/-- capacity after `Vec::reserve`/`resize`/`extend_from_slice` needs room for `need` elements
    (`RawVec::grow_amortized`: `max(2·cap, need, MIN_NON_ZERO_CAP = 8)` when `need > cap`) -/
def vecGrow (cap need : Nat) : Nat := if need ≤ cap then cap else max (max (2 * cap) need) 8

/-- a vector whose length never exceeds `B` never has capacity above `2·B` (or 8) -/
theorem vecGrow_bounded (B : Nat) : ∀ (needs : List Nat) (cap : Nat), cap ≤ max (2 * B) 8 →
    (∀ n ∈ needs, n ≤ B) → needs.foldl vecGrow cap ≤ max (2 * B) 8 := by
  intro needs
  induction needs with
  | nil => intro cap h _; exact h
  | cons n ns ih =>
    intro cap h hn
    simp only [List.foldl_cons]
    apply ih
    · have := hn n (List.mem_cons_self ..)
      unfold vecGrow; split <;> omega
    · exact fun m hm => hn m (List.mem_cons_of_mem _ hm)

end Png
