import PngVerif.Proofs.RoundTripEnc
/-!
# C03 end to end, the `StreamWriter` path: what the sink holds after the image was written through `Write::write`

`Proofs/Encoder.lean` (Part 8) proves that a stream writer leaves the `Writer` in the state `write_image_data` would leave
it in "with the same zlib stream, cut the same way" — without saying which rows went into that stream or how long the
chunks are (C12 does not need either).  Here

* `Lens`: the chunk writer never emits a chunk longer than its buffer (`≤ 2^31 − 1`), through `ChunkWriter::write`,
  flate2's `dump` / `write_all` / `finish` and `finish_image`;
* the invariants `Inside` / `Completed` are restated with the bytes received so far (`InsideD`, `CompletedD`:
  `written = curs.flatten ++ curBuf.take index`) and `Inside.write` is re-proved with them (`InsideD.write`);
* a whole session on a still configuration is computed (`session_done`): `write_header`, `StreamWriter::new` (owned or
  borrowed, any requested buffer size), the image `data` handed over in ANY partition `ds` into `write_all` calls (empty
  ones included); then `finish` of an owned stream writer (`stream_owned_log`), or `finish` / drop of a borrowed one followed
  by `Writer::finish` (`stream_borrowed_log`).

Result: every call returns `Ok`; the sink holds the signature, `headerChunks c`, `IDAT` chunks whose payloads are non-empty,
at most `2^31 − 1` bytes long and concatenate to the finished output of the compressor for exactly the rows of `data`, each
filtered against the previous one (the first against a zero row), and `IEND`.
-/
namespace Png.Enc
open Png Png.Val

/-! ## `overwrite` -/

theorem overwrite_take (buf : Bytes) (i : Nat) (d : Bytes) (h : i + d.length ≤ buf.length) :
    (overwrite buf i d).take (i + d.length) = buf.take i ++ d := by
  unfold overwrite
  have h1 : (buf.take i ++ d).length = i + d.length := by simp only [List.length_append, List.length_take]; omega
  rw [← h1, List.take_left']
  rfl

theorem overwrite_full (buf : Bytes) (i : Nat) (d : Bytes) (h : i + d.length = buf.length) :
    overwrite buf i d = buf.take i ++ d := by
  unfold overwrite
  rw [h, List.drop_length, List.append_nil]

theorem flatten_length_uniform (curs : List Bytes) (L : Nat) (h : ∀ c ∈ curs, c.length = L) :
    curs.flatten.length = curs.length * L := by
  induction curs with
  | nil => simp
  | cons c cs ih =>
    rw [List.flatten_cons, List.length_append, List.length_cons, Nat.succ_mul, h c (by simp),
      ih (fun x hx => h x (by simp [hx]))]
    omega

/-! ## the chunk writer never emits a chunk longer than its buffer

(`CWC` of `Proofs/Encoder.lean` says which bytes the data chunks hold, not how long each is; the decoder needs every
length to fit the four-byte length field.) -/

/-- the chunk writer `c` has a buffer of `cap ≥ 4` bytes, sits on a sink that never fails, and every chunk emitted since the
    sink held `n0` chunks has at most `cap` bytes -/
structure Lens (n0 cap : Nat) (c : CW) : Prop where
  capEq : c.cap = cap
  cap4 : 4 ≤ cap
  buf : c.buf.length ≤ cap
  good : c.w.sink.good
  base : n0 ≤ c.w.sink.chunks.length
  lens : ∀ ch ∈ c.w.sink.chunks.drop n0, ch.data.length ≤ cap

theorem Lens.flushInner {n0 cap : Nat} {c : CW} (h : Lens n0 cap c) : Lens n0 cap (c.flushInner).1 := by
  unfold CW.flushInner
  by_cases hb : c.buf.length > 0
  · rw [if_pos hb]
    obtain ⟨e1, e2, e3, e4⟩ := WState.emit_good h.good [⟨c.curr, c.buf⟩]
    cases he : c.w.emit [⟨c.curr, c.buf⟩] with
    | mk w' ok =>
      rw [he] at e1 e2 e3 e4
      simp only at e1 e2 e3 e4
      subst e1
      simp only
      refine ⟨h.capEq, h.cap4, by simp, e3, by rw [e4]; simp only [List.length_append]; have := h.base; omega, ?_⟩
      intro ch hch
      rw [e4, List.drop_append_of_le_length h.base] at hch
      rcases List.mem_append.mp hch with hc | hc
      · exact h.lens ch hc
      · simp only [List.mem_singleton] at hc; subst hc; exact h.buf
  · rw [if_neg hb]; exact h

theorem Lens.startChunk {n0 cap : Nat} {c : CW} (h : Lens n0 cap c) : Lens n0 cap c.startChunk := by
  unfold CW.startChunk
  split
  · split
    · exact ⟨h.capEq, h.cap4, by simp only [be32Bytes_length]; exact h.cap4, h.good, h.base, h.lens⟩
    · exact h
  · exact h

theorem Lens.append {n0 cap : Nat} {c : CW} (h : Lens n0 cap c) (data : Bytes) : Lens n0 cap (c.append data).1 := by
  have h1 : Lens n0 cap { c with buf := c.buf ++ data.take (min data.length (c.cap - c.buf.length)) } :=
    ⟨h.capEq, h.cap4, by
      have := h.buf; have := h.capEq
      simp only [List.length_append, List.length_take]; omega, h.good, h.base, h.lens⟩
  unfold CW.append
  simp only
  split
  · have h2 := h1.flushInner
    cases hfi : CW.flushInner { c with buf := c.buf ++ data.take (min data.length (c.cap - c.buf.length)) } with
    | mk c' r =>
      rw [hfi] at h2
      cases r <;> exact h2
  · exact h1

theorem Lens.write {n0 cap : Nat} {c : CW} (h : Lens n0 cap c) (data : Bytes) : Lens n0 cap (c.write data).1 := by
  unfold CW.write
  split
  · exact h
  · exact h.startChunk.append data

theorem Lens.dumpAux {n0 cap : Nat} (fuel : Nat) :
    ∀ z : ZEnc, Lens n0 cap z.cw → Lens n0 cap (ZEnc.dumpAux fuel z).1.cw := by
  induction fuel with
  | zero => intro z h; exact h
  | succ k ih =>
    intro z h
    simp only [ZEnc.dumpAux]
    split
    · exact h
    · have hw := h.write z.pending
      cases hcw : z.cw.write z.pending with
      | mk cw' r =>
        rw [hcw] at hw
        cases r with
        | ok n =>
          simp only
          split
          · exact hw
          · exact ih _ hw
        | err e => exact hw
        | panic p => exact hw

theorem Lens.dump {n0 cap : Nat} {z : ZEnc} (h : Lens n0 cap z.cw) : Lens n0 cap z.dump.1.cw :=
  Lens.dumpAux _ z h

theorem Lens.writeAll {n0 cap : Nat} (Z : ZCodec) {z : ZEnc} (h : Lens n0 cap z.cw) (d : Bytes) :
    Lens n0 cap (z.writeAll Z d).1.cw := by
  unfold ZEnc.writeAll
  split
  · exact h
  · have hd := Lens.dump h
    cases hdz : z.dump with
    | mk z' r =>
      rw [hdz] at hd
      cases r <;> exact hd

theorem Lens.finish {n0 cap : Nat} (Z : ZCodec) {z : ZEnc} (h : Lens n0 cap z.cw) : Lens n0 cap (z.finish Z).1.cw := by
  unfold ZEnc.finish
  have hd := Lens.dump h
  cases hdz : z.dump with
  | mk z' r =>
    rw [hdz] at hd
    cases r with
    | ok =>
      simp only
      split
      · exact hd
      · exact Lens.dump (z := { z' with pending := z'.pending ++ Z.out z'.hist ZOp.finish, hist := z'.hist ++ [ZOp.finish] }) hd
    | err e => exact hd
    | panic p => exact hd

theorem incrementImagesWritten_sink (w : WState) : (incrementImagesWritten w).sink = w.sink := by
  unfold incrementImagesWritten
  simp only
  split
  · split <;> rfl
  · rfl

/-- `finish_image`: the chunk writer it leaves still has the property -/
theorem Lens.finishImage {n0 cap : Nat} (Z : ZCodec) {s : SW} {z : ZEnc} (hz : s.wr = .zlib z) (h : Lens n0 cap z.cw)
    (cw' : CW) (hr : (s.finishImage Z).1.wr = .chunk cw') : Lens n0 cap cw' := by
  have hf := Lens.finish Z h
  unfold SW.finishImage SW.endZlib at hr
  simp only [hz] at hr
  cases hzf : z.finish Z with
  | mk z' r =>
    rw [hzf] at hf hr
    cases r with
    | ok =>
      simp only at hr
      have hfl := hf.flushInner
      cases hfi : z'.cw.flushInner with
      | mk c2 r2 =>
        rw [hfi] at hfl hr
        cases r2 with
        | ok =>
          simp only [Wrap.chunk.injEq] at hr
          subst hr
          exact ⟨hfl.capEq, hfl.cap4, hfl.buf, by show (incrementImagesWritten c2.w).sink.good; rw [incrementImagesWritten_sink]; exact hfl.good,
            by show n0 ≤ (incrementImagesWritten c2.w).sink.chunks.length; rw [incrementImagesWritten_sink]; exact hfl.base,
            by show ∀ ch ∈ (incrementImagesWritten c2.w).sink.chunks.drop n0, _; rw [incrementImagesWritten_sink]; exact hfl.lens⟩
        | err e => simp only [Wrap.chunk.injEq] at hr; subst hr; exact hfl
        | panic p => simp only [Wrap.chunk.injEq] at hr; subst hr; exact hfl
    | err e =>
      simp only at hr
      cases hdr : ZEnc.drop Z z' s.owned with
      | mk w r3 => rw [hdr] at hr; cases r3 <;> simp at hr
    | panic p => simp at hr

/-- the chunk writer inside a stream writer (`True` when there is none) -/
def SW.LensOk (n0 cap : Nat) (s : SW) : Prop :=
  match s.wr with
  | .zlib z => Lens n0 cap z.cw
  | .chunk c => Lens n0 cap c
  | _ => True

/-! ## the invariants with the bytes received -/

/-- `Inside` with the bytes received so far: the complete rows `curs` and the beginning of the current row -/
structure InsideD (Z : ZCodec) (wH : WState) (fd : Bool) (fh : Nat) (s : SW) (written : Bytes) : Prop where
  st : ∃ z curs, s.wr = .zlib z ∧ ZI wH fd Z z ∧ z.finished = false ∧
    curs.length * s.lineLen + s.index + s.toWrite = s.lineLen * fh ∧ (∀ c ∈ curs, c.length = s.lineLen) ∧
    writtenOf z.hist = (fedRows Z s.bpp (List.replicate s.lineLen 0) curs).flatten ∧
    s.prevBuf = (curs.getLast?).getD (List.replicate s.lineLen 0) ∧
    written = curs.flatten ++ s.curBuf.take s.index
  cur : s.curBuf.length = s.lineLen
  pos : 0 < s.lineLen
  idx : s.index < s.lineLen
  tw : 0 < s.toWrite
  released : s.released = none

/-- `Completed` with the rows: the image `written` is complete, its rows are the ones handed to the compressor -/
structure CompletedD (Z : ZCodec) (wH : WState) (fd : Bool) (fh L bpp : Nat) (s : SW) (written : Bytes) : Prop where
  st : ∃ cap curr ds hist curs, 5 ≤ cap ∧
    s.wr = .chunk ⟨incrementImagesWritten { (if fd then bumpSeq wH ds.length else wH) with
        sink := (wH.sink.emitChunks (dataChunks fd (seq0Of wH) ds)).1 }, cap, [], curr⟩ ∧
    (∀ d ∈ ds, d ≠ []) ∧ ds.flatten = outs Z (hist ++ [ZOp.finish]) ∧
    hist.contains ZOp.finish = false ∧ curs.length = fh ∧ (∀ c ∈ curs, c.length = L) ∧
    writtenOf hist = (fedRows Z bpp (List.replicate L 0) curs).flatten ∧ curs.flatten = written
  tw : s.toWrite = 0
  idx : s.index = 0
  released : s.released = none

theorem InsideD.room {Z : ZCodec} {wH : WState} {fd : Bool} {fh : Nat} {s : SW} {written : Bytes}
    (h : InsideD Z wH fd fh s written) : written.length + s.toWrite = s.lineLen * fh := by
  obtain ⟨z, curs, _, _, _, heq, hcl, _, _, hw⟩ := h.st
  have hfl : curs.flatten.length = curs.length * s.lineLen := flatten_length_uniform curs _ hcl
  rw [hw, List.length_append, hfl, List.length_take, h.cur]
  have := h.idx
  omega

/-- **one `write` call inside an image**: a non-empty prefix of `data` is taken; the writer stays inside the image or the
    image is complete; in both cases the bytes received are the old ones and that prefix -/
theorem InsideD.write {Z : ZCodec} {wH : WState} {fd : Bool} {fh n0 cap : Nat} {s : SW} {written : Bytes}
    (h : InsideD Z wH fd fh s written) (hl : SW.LensOk n0 cap s) (data : Bytes) (hd : data ≠ []) :
    ∃ s' n, s.write Z data = (s', .ok n) ∧ 0 < n ∧ n ≤ data.length ∧
      (InsideD Z wH fd fh s' (written ++ data.take n) ∨
        CompletedD Z wH fd fh s.lineLen s.bpp s' (written ++ data.take n)) ∧
      s'.owned = s.owned ∧ s'.bpp = s.bpp ∧ s'.lineLen = s.lineLen ∧ SW.LensOk n0 cap s' := by
  obtain ⟨z, curs, hz, hzi, hzf, heq, hcl, hwr, hprev, hwd⟩ := h.st
  have hlz : Lens n0 cap z.cw := by unfold SW.LensOk at hl; rw [hz] at hl; exact hl
  have hlen : 0 < data.length := List.length_pos_iff.mpr hd
  have hidx := h.idx
  have hpos := h.pos
  have htw := h.tw
  have hroom := row_room heq hidx htw
  unfold SW.write
  have hnu : ¬ s.wr = .unrecoverable := by rw [hz]; simp
  rw [if_neg hnu, if_neg hd]
  have hb : s.beginIfDone Z = (s, .ok) := by
    unfold SW.beginIfDone; rw [if_neg (by omega)]
  rw [hb]
  simp only
  have hrs : ¬ (s.lineLen > s.curBuf.length ∨ s.index > s.lineLen) := by rw [h.cur]; omega
  rw [if_neg hrs]
  have hwt : ¬ min data.length (s.lineLen - s.index) > s.toWrite := by omega
  rw [if_neg hwt]
  generalize hn : min data.length (s.lineLen - s.index) = n at *
  have hn0 : 0 < n := by omega
  have htl : (data.take n).length = n := by rw [List.length_take]; omega
  have hcl2 : (overwrite s.curBuf s.index (data.take n)).length = s.lineLen := by
    rw [overwrite_length, h.cur]
    rw [htl, h.cur]; omega
  by_cases hfull : s.index + n = s.lineLen
  · rw [if_pos hfull]
    -- the row is complete
    have hrow : overwrite s.curBuf s.index (data.take n) = s.curBuf.take s.index ++ data.take n :=
      overwrite_full _ _ _ (by rw [htl, h.cur]; exact hfull)
    simp only [SW.rowDone, hz]
    obtain ⟨z1, a1, a2, a3⟩ := hzi.writeAll ((Z.row s.bpp s.prevBuf (overwrite s.curBuf s.index (data.take n))).take 1)
    rw [a1]
    simp only
    obtain ⟨z2, b1, b2, b3⟩ := a2.writeAll ((Z.row s.bpp s.prevBuf (overwrite s.curBuf s.index (data.take n))).drop 1)
    rw [b1]
    simp only
    have hlz1 : Lens n0 cap z1.cw := by
      have := Lens.writeAll Z hlz ((Z.row s.bpp s.prevBuf (overwrite s.curBuf s.index (data.take n))).take 1)
      rw [a1] at this; exact this
    have hlz2 : Lens n0 cap z2.cw := by
      have := Lens.writeAll Z hlz1 ((Z.row s.bpp s.prevBuf (overwrite s.curBuf s.index (data.take n))).drop 1)
      rw [b1] at this; exact this
    have hzf2 : z2.finished = false := by
      simp only [ZEnc.finished] at hzf ⊢
      rw [b3, a3]; exact finished_writeAll (finished_writeAll hzf)
    have hplen : s.prevBuf.length = s.lineLen := by
      rw [hprev]; exact getLastD_length hcl (by simp)
    have hcl' : ∀ c ∈ curs ++ [overwrite s.curBuf s.index (data.take n)], c.length = s.lineLen := by
      intro c hc
      simp only [List.mem_append, List.mem_singleton] at hc
      rcases hc with hc | hc
      · exact hcl c hc
      · rw [hc]; exact hcl2
    have hwr' : writtenOf z2.hist = (fedRows Z s.bpp (List.replicate s.lineLen 0)
        (curs ++ [overwrite s.curBuf s.index (data.take n)])).flatten := by
      rw [b3, a3, writtenOf_writeAll, writtenOf_writeAll, hwr, fedRows_snoc, ← hprev]
      simp only [List.flatten_append, List.flatten_cons, List.flatten_nil, List.append_nil, List.append_assoc,
        List.take_append_drop]
    have heq' : (curs ++ [overwrite s.curBuf s.index (data.take n)]).length * s.lineLen + 0
        + (s.toWrite - n) = s.lineLen * fh := by
      simp only [List.length_append, List.length_singleton, Nat.add_mul, Nat.one_mul]; omega
    have hwd' : written ++ data.take n = (curs ++ [overwrite s.curBuf s.index (data.take n)]).flatten := by
      rw [hwd, hrow]; simp
    by_cases hdone : s.toWrite - n = 0
    · rw [if_pos hdone]
      obtain ⟨cap', curr, ds, hcap, hfi, hds1, hds2⟩ := finishImage_spec (Z := Z) (wH := wH) (fd := fd)
        (s := { s with curBuf := s.prevBuf, index := 0, toWrite := s.toWrite - n,
                       wr := .zlib z2, prevBuf := overwrite s.curBuf s.index (data.take n) })
        rfl b2 hzf2
      have hlf := Lens.finishImage (n0 := n0) (cap := cap) Z
        (s := { s with curBuf := s.prevBuf, index := 0, toWrite := s.toWrite - n,
                       wr := .zlib z2, prevBuf := overwrite s.curBuf s.index (data.take n) }) rfl hlz2
      rw [hfi] at hlf
      rw [hfi]
      refine ⟨_, _, rfl, hn0, by omega, Or.inr ?_, rfl, rfl, rfl, hlf _ rfl⟩
      refine ⟨⟨cap', curr, ds, z2.hist, _, hcap, rfl, hds1, hds2, hzf2, ?_, hcl', hwr', hwd'.symm⟩, hdone, rfl, h.released⟩
      rw [hdone] at heq'
      have : ((curs ++ [overwrite s.curBuf s.index (data.take n)]).length) * s.lineLen = fh * s.lineLen := by
        rw [Nat.mul_comm fh]; omega
      exact Nat.eq_of_mul_eq_mul_right hpos this
    · rw [if_neg hdone]
      refine ⟨_, _, rfl, hn0, by omega, Or.inl ?_, rfl, rfl, rfl, hlz2⟩
      refine ⟨⟨z2, _, rfl, b2, hzf2, heq', hcl', hwr', by simp, ?_⟩, hplen, hpos, hpos, by simp only; omega, h.released⟩
      simp only [List.take_zero, List.append_nil]
      exact hwd'
  · rw [if_neg hfull]
    refine ⟨_, _, rfl, hn0, by omega, Or.inl ?_, rfl, rfl, rfl, hl⟩
    refine ⟨⟨z, curs, hz, hzi, hzf, ?_, hcl, hwr, hprev, ?_⟩, hcl2, hpos, by simp only; omega, by simp only; omega, h.released⟩
    · simp only; omega
    · simp only
      have := overwrite_take s.curBuf s.index (data.take n) (by rw [htl, h.cur]; omega)
      rw [htl] at this
      rw [this, hwd, List.append_assoc]

/-! ## `write_all` -/

/-- where a stream writer stands after it received `written` of an image of `fh` rows of `L` bytes -/
def AtD (Z : ZCodec) (wH : WState) (fd : Bool) (fh L bpp : Nat) (s : SW) (written : Bytes) : Prop :=
  (InsideD Z wH fd fh s written ∧ s.lineLen = L ∧ s.bpp = bpp) ∨ CompletedD Z wH fd fh L bpp s written

/-- **`write_all(d)` when the image has room for `d`**: `Ok`, and the bytes received are the old ones and `d` -/
theorem InsideD.writeAllAux {Z : ZCodec} {wH : WState} {fd : Bool} {fh L bpp n0 cap : Nat} (fuel : Nat) :
    ∀ (s : SW) (written d : Bytes), InsideD Z wH fd fh s written → SW.LensOk n0 cap s → s.lineLen = L → s.bpp = bpp →
      d.length < fuel → d ≠ [] → written.length + d.length ≤ L * fh →
      ∃ s', SW.writeAllAux Z fuel s d = (s', .ok) ∧ AtD Z wH fd fh L bpp s' (written ++ d) ∧ s'.owned = s.owned ∧
        SW.LensOk n0 cap s' := by
  induction fuel with
  | zero => intro s written d _ _ _ _ h; omega
  | succ k ih =>
    intro s written d hin hlk hL hb hf hd hroom
    simp only [SW.writeAllAux, if_neg hd]
    obtain ⟨s1, n, hw, hn0, hnl, hcase, ho, hb1, hL1, hlk1⟩ := hin.write hlk d hd
    rw [hw]
    simp only
    rw [if_neg (by omega)]
    by_cases hrest : d.drop n = []
    · -- everything was taken
      have hall : d.take n = d := by
        have := List.take_append_drop n d
        rw [hrest, List.append_nil] at this; exact this
      rw [hrest]
      refine ⟨s1, ?_, ?_, ho, hlk1⟩
      · cases k with
        | zero => rfl
        | succ k => simp [SW.writeAllAux]
      · rw [hall] at hcase
        rcases hcase with h1 | h1
        · exact Or.inl ⟨h1, hL1.trans hL, hb1.trans hb⟩
        · rw [hL, hb] at h1; exact Or.inr h1
    · -- more to write: the image cannot be complete
      have hdl : (d.drop n).length = d.length - n := List.length_drop
      have hdn : 0 < (d.drop n).length := List.length_pos_iff.mpr hrest
      have htn : (d.take n).length = n := by rw [List.length_take]; omega
      rcases hcase with h1 | h1
      · obtain ⟨s2, e1, e2, e3, e4⟩ := ih s1 (written ++ d.take n) (d.drop n) h1 hlk1 (hL1.trans hL) (hb1.trans hb) (by omega) hrest
          (by rw [List.length_append, htn]; omega)
        refine ⟨s2, e1, ?_, e3.trans ho, e4⟩
        rw [List.append_assoc, List.take_append_drop] at e2
        exact e2
      · exfalso
        obtain ⟨_, _, _, _, curs, _, _, _, _, _, hcl, hcc, _, hfl⟩ := h1.st
        have hlenw : (written ++ d.take n).length = fh * s.lineLen := by
          rw [← hfl, ← hcl]; exact flatten_length_uniform curs _ hcc
        rw [List.length_append, htn, hL, Nat.mul_comm] at hlenw
        omega

/-- `write_all` of nothing -/
theorem writeAll_nil (Z : ZCodec) (s : SW) : s.writeAll Z [] = (s, .ok) := by
  simp [SW.writeAll, SW.writeAllAux]

/-- **a sequence of `write_all` calls that hand over the rest of the image** (any partition, empty pieces included):
    every call returns `Ok`; at the end the image is complete -/
theorem AtD.runWrites {Z : ZCodec} {wH : WState} {fd : Bool} {fh L bpp n0 cap : Nat} :
    ∀ (ds : List Bytes) (s : SW) (written : Bytes), AtD Z wH fd fh L bpp s written → SW.LensOk n0 cap s →
      written.length + ds.flatten.length = L * fh →
      ∃ s', runSOps Z s (ds.map .write) = (s', ds.map fun _ => .ok) ∧ AtD Z wH fd fh L bpp s' (written ++ ds.flatten) ∧
        s'.owned = s.owned ∧ SW.LensOk n0 cap s' := by
  intro ds
  induction ds with
  | nil => intro s written h hlk _; exact ⟨s, rfl, by simpa using h, rfl, hlk⟩
  | cons d ds ih =>
    intro s written h hlk hlen
    simp only [List.flatten_cons, List.length_append] at hlen
    simp only [List.map_cons, runSOps, streamStep]
    by_cases hd : d = []
    · subst hd
      rw [writeAll_nil]
      simp only
      obtain ⟨s', e1, e2, e3, e4⟩ := ih s written h hlk (by simpa using hlen)
      rw [e1]
      exact ⟨s', rfl, by simpa using e2, e3, e4⟩
    · have hdl : 0 < d.length := List.length_pos_iff.mpr hd
      rcases h with ⟨hin, hL, hb⟩ | hco
      · obtain ⟨s1, w1, w2, w3, w4⟩ := InsideD.writeAllAux (d.length + 1) s written d hin hlk hL hb (Nat.lt_succ_self _) hd (by omega)
        have hw : s.writeAll Z d = (s1, .ok) := w1
        rw [hw]
        simp only
        obtain ⟨s', e1, e2, e3, e4⟩ := ih s1 (written ++ d) w2 w4 (by rw [List.length_append]; omega)
        rw [e1]
        refine ⟨s', rfl, ?_, e3.trans w3, e4⟩
        simpa [List.append_assoc] using e2
      · -- the image is complete already: there is no room for `d`
        exfalso
        obtain ⟨_, _, _, _, curs, _, _, _, _, _, hcl, hcc, _, hfl⟩ := hco.st
        have : written.length = fh * L := by
          rw [← hfl, ← hcl]; exact flatten_length_uniform curs _ hcc
        rw [Nat.mul_comm] at this
        omega

/-! ## a whole session on a still configuration -/

/-- the stream writer at the first byte of an image, nothing received yet -/
theorem InsideD.init {Z : ZCodec} {wH : WState} {fh : Nat} {s : SW} {cap : Nat}
    (hg : wH.sink.good) (hcap : 5 ≤ cap)
    (hwr : s.wr = .zlib { cw := ⟨wH, cap, [], tyIDAT⟩ }) (hL : 0 < s.lineLen) (hfh : 0 < fh)
    (htw : s.toWrite = s.lineLen * fh) (hidx : s.index = 0)
    (hprev : s.prevBuf = List.replicate s.lineLen 0) (hcur : s.curBuf.length = s.lineLen)
    (hrel : s.released = none) : InsideD Z wH false fh s [] := by
  have hw : wH = { (if false then bumpSeq wH 0 else wH) with sink := (wH.sink.emitChunks (dataChunks false (seq0Of wH) [])).1 } := by
    simp [dataChunks, Sink.emitChunks]
  have hcwi : CWI wH false ⟨wH, cap, [], tyIDAT⟩ [] :=
    ⟨⟨hcap, rfl, fun h => (by cases h), hg, [], [], by simp, by simp, by simp, by simpa using hw⟩, by simp; omega⟩
  refine ⟨⟨{ cw := ⟨wH, cap, [], tyIDAT⟩ }, [], hwr, ⟨[], hcwi, rfl⟩, rfl, ?_, by simp, by simp [writtenOf, fedRows], by simp [hprev],
    by simp [hidx]⟩, hcur, hL, by omega, ?_, hrel⟩
  · simp [hidx, htw]
  · rw [htw]; exact Nat.mul_pos hL hfh

/-- `StreamWriter::new` on the `Writer` right after `write_header` of a still configuration -/
theorem SW.new_still (Z : ZCodec) (c : Cfg) (hs : c.Still) (w : WState) (hst : StaticEq (initState c {}) w)
    (hg : w.sink.good) (hi : w.imagesWritten = 0) (hf : w.fctl = none) (ha : w.actl = none)
    (hsz : c.rowLen * c.height < 2 ^ 64) (owned : Bool) (size : Nat) :
    ∃ s, SW.new w owned size = (.inl s, .ok) ∧ InsideD Z w false c.height s [] ∧ s.lineLen = c.rowLen ∧
      s.bpp = bytesPerPixel c.color c.depth ∧ s.owned = owned ∧
      SW.LensOk w.sink.chunks.length (max (min chunkCap size) streamMinBuffer) s := by
  obtain ⟨e1, e2, e3, e4, _, e6, _, _⟩ := hst
  simp only [initState] at e1 e2 e3 e4 e6
  have hpal : ¬ (w.color = 3 ∧ w.hasPalette = false) := by
    intro ⟨h1, h2⟩
    have := hs.pal (by rw [← e3]; exact h1)
    rw [← e6, h2] at this; cases this
  have hv : validateNewImage w = none := by
    unfold validateNewImage
    cases w.validate <;> simp [ha, hi]
  have hr : validateFirstImageRect w = none := by simp [validateFirstImageRect, hf]
  have hck : streamChecks w = none := by simp only [streamChecks, if_neg hpal, hv, hr]
  have hd : nextDims w = (c.width, c.height) := by simp [nextDims, hf, e1, e2]
  have hil : inLenOf w c.width = c.rowLen := by simp [inLenOf, Cfg.rowLen, e3, e4]
  have hkind : chunkKind w = tyIDAT := by simp [chunkKind, hi]
  have hinfo : ∀ cap buf curr, CW.nextFrameInfo ⟨w, cap, buf, curr⟩ = (c.rowLen, c.rowLen * c.height) := by
    intro cap buf curr
    simp only [CW.nextFrameInfo, hd, hil, hsz, if_true]
  have hhdr : ∀ cap, CW.writeHeader ⟨w, cap, [], tyIDAT⟩ = (⟨w, cap, [], tyIDAT⟩, .ok) := by
    intro cap
    simp only [CW.writeHeader, List.length_nil, ne_eq, not_true_eq_false, if_false, hkind, hf]
  unfold SW.new
  simp only [hck, CW.new, hkind, hinfo, hhdr]
  refine ⟨_, rfl, ?_, rfl, by rw [e3, e4], rfl, ?_⟩
  · exact InsideD.init hg (Nat.le_max_right _ _) rfl hs.rowLen_pos (Nat.pos_of_ne_zero hs.hpos) rfl rfl rfl (by simp) rfl
  · show Lens _ _ ⟨w, max (min chunkCap size) streamMinBuffer, [], tyIDAT⟩
    exact ⟨rfl, Nat.le_trans (by decide) (Nat.le_max_right _ _), Nat.zero_le _, hg, Nat.le_refl _, by simp⟩

/-- what a complete session leaves: the `Writer` after the header (`w`), the stream writer after the last `write_all`
    (`s1`, between two images, holding the `Writer` `w1`), the `IDAT` payloads `zs` -/
structure SessionDone (Z : ZCodec) (c : Cfg) (data : Bytes) (owned : Bool) (size : Nat) (ds : List Bytes)
    (w : WState) (s1 : SW) (w1 : WState) (zs : List Bytes) : Prop where
  header : writeHeader c {} = (w, .ok)
  ops : ∃ s0, SW.new w owned size = (.inl s0, .ok) ∧ runSOps Z s0 (ds.map .write) = (s1, ds.map fun _ => Res.ok)
  wr : ∃ cap curr, s1.wr = .chunk ⟨w1, cap, [], curr⟩
  idx : s1.index = 0
  tw : s1.toWrite = 0
  owned : s1.owned = owned
  good : w1.sink.good
  iend : w1.iendWritten = false
  seqDone : validateSequenceDone w1 = none
  log : w1.sink.log = sigEmit :: (headerChunks c ++ zs.map mkIdat).map fullEmit
  ne : ∀ z ∈ zs, z ≠ []
  lens : ∀ z ∈ zs, z.length ≤ chunkCap
  stream : ∃ (hist : List ZOp) (curs : List Bytes), zs.flatten = outs Z (hist ++ [ZOp.finish]) ∧
    hist.contains ZOp.finish = false ∧
    writtenOf hist = (fedRows Z (bytesPerPixel c.color c.depth) (List.replicate c.rowLen 0) curs).flatten ∧
    curs.length = c.height ∧ (∀ r ∈ curs, r.length = c.rowLen) ∧ curs.flatten = data

/-- **a complete stream-writer session on a still configuration**: `write_header`, `StreamWriter::new` (owned or borrowed,
    any requested buffer size), the image handed over in the pieces `ds` (`write_all` each; any partition of `data`, empty
    pieces included), on a sink that never fails: every call returns `Ok`; then the image is complete -/
theorem session_done (Z : ZCodec) (c : Cfg) (hs : c.Still) (owned : Bool) (size : Nat) (ds : List Bytes) (data : Bytes)
    (hds : ds.flatten = data) (hlen : data.length = c.rowLen * c.height) (hsz : c.rowLen * c.height < 2 ^ 64) :
    ∃ w s1 w1 zs, SessionDone Z c data owned size ds w s1 w1 zs := by
  obtain ⟨w, hh, hst, hg, hl, hi, _, hie, hf, ha⟩ := writeHeader_still c hs
  obtain ⟨s0, hnew, hin0, hL0, hb0, ho0, hlk0⟩ := SW.new_still Z c hs w hst hg hi hf ha hsz owned size
  obtain ⟨s1, hrun, hat, ho1, hlk1⟩ := AtD.runWrites (Z := Z) ds s0 [] (Or.inl ⟨hin0, hL0, hb0⟩) hlk0
    (by rw [hds, hlen]; simp)
  rw [List.nil_append, hds] at hat
  have hco : CompletedD Z w false c.height c.rowLen (bytesPerPixel c.color c.depth) s1 data := by
    rcases hat with ⟨hin, hL, _⟩ | hco
    · exfalso
      have := hin.room
      have := hin.tw
      rw [hL] at *
      omega
    · exact hco
  obtain ⟨cap, curr, zs, hist, curs, hcap, hwr, hz1, hz2, hnf, hcl, hcc, hwo, hfl⟩ := hco.st
  generalize hw1 : incrementImagesWritten { (if false = true then bumpSeq w zs.length else w) with
      sink := (w.sink.emitChunks (dataChunks false (seq0Of w) zs)).1 } = w1 at hwr
  have hw1v : w1 = { w with sink := (w.sink.emitChunks (zs.map mkIdat)).1, imagesWritten := 1 } := by
    rw [← hw1]
    simp only [Bool.false_eq_true, if_false, dataChunks, incrementImagesWritten, ha, hi]
    rfl
  obtain ⟨l2, g2⟩ := Sink.emitChunks_good_log (zs.map mkIdat) hg
  have hlens : ∀ z ∈ zs, z.length ≤ chunkCap := by
    have hL1 : Lens w.sink.chunks.length (max (min chunkCap size) streamMinBuffer) ⟨w1, cap, [], curr⟩ := by
      unfold SW.LensOk at hlk1; rw [hwr] at hlk1; exact hlk1
    have hch : w1.sink.chunks = w.sink.chunks ++ zs.map mkIdat := by
      rw [hw1v]; exact (Sink.emitChunks_good (zs.map mkIdat) hg).2.2.1
    intro z hz
    have := hL1.lens (mkIdat z) (by
      show mkIdat z ∈ w1.sink.chunks.drop w.sink.chunks.length
      rw [hch, List.drop_left]
      exact List.mem_map_of_mem hz)
    have hcapx : max (min chunkCap size) streamMinBuffer ≤ chunkCap := by
      have : streamMinBuffer ≤ chunkCap := by decide
      omega
    exact Nat.le_trans this hcapx
  refine ⟨w, s1, w1, zs, hh, ⟨s0, hnew, hrun⟩, ⟨cap, curr, hwr⟩, hco.idx, hco.tw, ho1.trans ho0, ?_, ?_, ?_, ?_, hz1, hlens,
    ⟨hist, curs, hz2, hnf, hwo, hcl, hcc, hfl⟩⟩
  · rw [hw1v]; exact g2
  · rw [hw1v]; exact hie
  · rw [hw1v]; unfold validateSequenceDone
    cases w.validate <;> simp [ha]
  · rw [hw1v]
    show (w.sink.emitChunks (zs.map mkIdat)).1.log = _
    rw [l2, hl]; simp

/-- the log once the `Writer` `w1` of a complete session is closed (`IEND`, then the sink is flushed) -/
theorem SessionDone.closed_log {Z : ZCodec} {c : Cfg} {data : Bytes} {owned : Bool} {size : Nat} {ds : List Bytes}
    {w : WState} {s1 : SW} {w1 : WState} {zs : List Bytes} (h : SessionDone Z c data owned size ds w s1 w1 zs) :
    (flushedW (dropW w1)).sink.log = sigEmit :: (headerChunks c ++ zs.map mkIdat ++ [iendChunk]).map fullEmit ∧
    flushedW (dropW w1) = { dropW w1 with sink := ((dropW w1).sink.flush).1 } := by
  obtain ⟨wi, _⟩ := writeIend_good h.good
  have hdrop : dropW w1 = { w1 with iendWritten := true, sink := (w1.sink.emitChunks [iendChunk]).1 } := by
    simp [dropW, h.iend, wi]
  obtain ⟨l3, _⟩ := Sink.emitChunks_good_log [iendChunk] h.good
  refine ⟨?_, rfl⟩
  rw [(flushedW_chunks _).2.1, hdrop]
  show (w1.sink.emitChunks [iendChunk]).1.log = _
  rw [l3, h.log]
  simp

/-- **the whole run through an owned stream writer**: `write_header`, `into_stream_writer_with_size(size)`, the pieces,
    `finish`.  Every call returns `Ok`; the sink holds the signature and, completely, `headerChunks c`, the `IDAT` chunks
    and `IEND`. -/
theorem stream_owned_log (E : Codec) (Z : ZCodec) (c : Cfg) (size : Nat) (ds : List Bytes) (data : Bytes)
    {w : WState} {s1 : SW} {w1 : WState} {zs : List Bytes} (h : SessionDone Z c data true size ds w s1 w1 zs) :
    (runProg E Z c {} [] (.intoStream size (ds.map .write) .finish)).header = .ok ∧
    (runProg E Z c {} [] (.intoStream size (ds.map .write) .finish)).final = .ok :: (ds.map fun _ => Res.ok) ++ [.ok] ∧
    (runProg E Z c {} [] (.intoStream size (ds.map .write) .finish)).state.sink.log =
      sigEmit :: (headerChunks c ++ zs.map mkIdat ++ [iendChunk]).map fullEmit := by
  obtain ⟨s0, hnew, hrun⟩ := h.ops
  obtain ⟨cap, curr, hwr⟩ := h.wr
  obtain ⟨f1, f2⟩ := finish_between (Z := Z) hwr h.idx h.tw h.good h.iend w
  rw [h.seqDone] at f1 f2
  simp only [h.owned, if_true] at f2
  have hnp : anyPanic (ds.map fun _ => Res.ok) = false := by
    simp [anyPanic, Res.isPanic]
  have hprog : runProg E Z c {} [] (.intoStream size (ds.map .write) .finish) =
      { state := (s1.finish Z).1.writerState w, header := .ok, results := [],
        final := .ok :: (ds.map fun _ => Res.ok) ++ [(s1.finish Z).2] } := by
    simp only [runProg, h.header, runSteps, List.any_nil, Bool.false_eq_true, if_false, streamSession, hnew, hrun, hnp]
  rw [hprog]
  refine ⟨rfl, by simp only [f1], ?_⟩
  show ((s1.finish Z).1.writerState w).sink.log = _
  rw [f2, ← h.closed_log.2]
  exact h.closed_log.1

/-- **the whole run through a borrowed stream writer**: `write_header`, `stream_writer_with_size(size)`, the pieces, the
    stream writer `finish`ed or dropped (`fin`), then `Writer::finish`.  Every call returns `Ok`; the same file. -/
theorem stream_borrowed_log (E : Codec) (Z : ZCodec) (c : Cfg) (size : Nat) (ds : List Bytes) (data : Bytes) (fin : Final)
    {w : WState} {s1 : SW} {w1 : WState} {zs : List Bytes} (h : SessionDone Z c data false size ds w s1 w1 zs) :
    (runProg E Z c {} [.stream size (ds.map .write) fin] .finish).header = .ok ∧
    (runProg E Z c {} [.stream size (ds.map .write) fin] .finish).results = [.ok :: (ds.map fun _ => Res.ok) ++ [.ok]] ∧
    (runProg E Z c {} [.stream size (ds.map .write) fin] .finish).final = [.ok] ∧
    (runProg E Z c {} [.stream size (ds.map .write) fin] .finish).state.sink.log =
      sigEmit :: (headerChunks c ++ zs.map mkIdat ++ [iendChunk]).map fullEmit := by
  obtain ⟨s0, hnew, hrun⟩ := h.ops
  obtain ⟨cap, curr, hwr⟩ := h.wr
  have hnp : anyPanic (ds.map fun _ => Res.ok) = false := by
    simp [anyPanic, Res.isPanic]
  -- the session ends with the `Writer` `w1`
  have hsess : streamSession Z w false size (ds.map .write) fin = (w1, .ok :: (ds.map fun _ => Res.ok) ++ [.ok]) := by
    cases fin with
    | finish =>
      obtain ⟨f1, f2⟩ := finish_between (Z := Z) hwr h.idx h.tw h.good h.iend w
      rw [h.seqDone] at f1
      simp only [h.owned, Bool.false_eq_true, if_false] at f2
      simp only [streamSession, hnew, hrun, hnp, Bool.false_eq_true, if_false, f1, f2]
    | drop =>
      obtain ⟨f1, f2⟩ := drop_between (Z := Z) hwr h.idx w
      simp only [h.owned, Bool.false_eq_true, if_false] at f2
      simp only [streamSession, hnew, hrun, hnp, Bool.false_eq_true, if_false, f1, f2]
  have hfin : finishW w1 = (flushedW (dropW w1), .ok) := by
    rw [finishW_good h.good h.iend, h.seqDone]
  have hnp2 : anyPanic (Res.ok :: (ds.map fun _ => Res.ok) ++ [Res.ok]) = false := by
    simp [anyPanic, Res.isPanic]
  have hprog : runProg E Z c {} [.stream size (ds.map .write) fin] .finish =
      { state := flushedW (dropW w1), header := .ok, results := [.ok :: (ds.map fun _ => Res.ok) ++ [.ok]],
        final := [.ok] } := by
    simp only [runProg, h.header, runSteps, hsess, hnp2, Bool.false_eq_true, if_false, List.any_cons, List.any_nil,
      Bool.or_false, hfin]
  rw [hprog]
  exact ⟨rfl, rfl, rfl, h.closed_log.1⟩

end Png.Enc
