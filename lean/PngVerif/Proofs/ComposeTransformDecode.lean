import PngVerif.Proofs.ComposeTransformRows
/-!
# C08 end to end, layer L2 with an arbitrary row transformation: `next_frame`, `read_info`, the composition

The generalisation of `Proofs/ComposeDecode.lean` from the identity transformation to any `t : TCfg` satisfying
`TCfg.Converts` (`Proofs/ComposeTransformRows.lean`):

* `frameIntoT_trace`: from a reader that stands at the begin of a (sub)frame's image data, `next_frame` reports the
  advertised OUTPUT geometry and leaves `specFrameT` (the specification's scanlines, converted) in the buffer;
* `readInfoT_wf`: `read_info` on a well-formed stream — the size checks are made with the OUTPUT type: the first
  (mod.rs:206-218) with the `Info` as it is after `IHDR` alone; the line buffer charged to the limits (mod.rs:369) and
  the repeated check of the output buffer (mod.rs:224-232, repair f60364d; hypothesis `hfinal`) with the `Info` at the
  begin of the image data (`PLTE`, `tRNS` seen);
* `decodeT_wf`: `[read_info, next_frame]` on a well-formed still image.
-/
namespace Png.Reader
open Png Png.Framing Png.WellFormed

/-- `Ready` (`Proofs/ComposeDecode.lean`) with the cached transform function (if any) created from `i` itself -/
structure ReadyT (cfg : Cfg) (f : Flags) (i : Info) (N : Nat) (r : R) (raw : Bytes) (dEnd : Dec) (bEnd : Bytes) : Prop where
  pend : ∃ pend, Pending cfg i N r pend dEnd bEnd ∧ dataOf pend = raw
  flags : r.flags = f
  sub : r.sub = Sub.new i
  bpp : r.bpp = bytesPerPixel i.color i.depth
  ub : r.ub = UB.new
  cached : CachedIs i r

/-- the converted scanlines of a non-interlaced image fill `n` rows of `OL` bytes -/
theorem unfilterScanlines_conv_length (unit : Nat) (rb : Nat → Nat) (W OL : Nat) (conv : Bytes → Bytes)
    (hc : ∀ row : Bytes, row.length = rb W → (conv row).length = OL) :
    ∀ (n k : Nat) (prev S : Bytes), ScanlinesOk rb ((List.range' k n).map fun l => (0, l, W)) S →
      ((unfilterScanlines unit rb ((List.range' k n).map fun l => (0, l, W)) prev S).map conv).flatten.length = n * OL := by
  intro n
  induction n with
  | zero => intro k prev S _; simp [unfilterScanlines]
  | succ n ih =>
    intro k prev S hok
    rw [List.range'_succ, List.map_cons] at hok ⊢
    obtain ⟨hlen, hhead, hrest⟩ := hok
    obtain ⟨ft, hft⟩ := ofNat?_of_le hhead
    simp only [unfilterScanlines, hft, List.map_cons, List.flatten_cons, List.length_append]
    rw [ih (k + 1) _ _ hrest, hc]
    · rw [Nat.succ_mul]; omega
    · unfold reconRow
      rw [recon_length]
      simp only [List.length_take, List.length_drop]
      omega

/-- **`next_frame` on one (sub)frame with a row transformation**: into any buffer that holds the output image, the
    call succeeds, reports the (sub)frame's size with the advertised output type and line size, and leaves
    `specFrameT` — the specification's scanlines converted by the transformation — in the buffer -/
theorem frameIntoT_trace (cfg : Cfg) {t : TCfg} {f : Flags} (i : Info) (hcv : t.Converts f i (Sub.dims i).1)
    (hleg : (i.color, i.depth) ∈ legalPairs) (hW : 1 ≤ (Sub.dims i).1) (hH : 1 ≤ (Sub.dims i).2)
    (N : Nat) (raw : Bytes) (dEnd : Dec) (bEnd : Bytes) (r : R) (buf : Bytes)
    (hR : ReadyT cfg f i N r raw dEnd bEnd) (hraw : RawOk (hdrOf i) raw)
    (hneed : outLineSize t i f i.width * i.height ≤ buf.length)
    (hfit : outLineSize t i f (Sub.dims i).1 * (Sub.dims i).2 ≤ buf.length) :
    ∃ r' buf', frameInto cfg t r buf =
        (r', .frame { width := (Sub.dims i).1, height := (Sub.dims i).2, color := (t.outColorDepth i f).1,
                      depth := (t.outColorDepth i f).2, lineSize := outLineSize t i f (Sub.dims i).1 } buf', buf') ∧
      specFrameT (hdrOf i) (t.conv f i) (outLineSize t i f (Sub.dims i).1)
        (samplesOf (t.outColorDepth i f).1 * (t.outColorDepth i f).2) raw buf = some buf' ∧
      buf'.length = buf.length ∧
      Pending cfg i N r' [] dEnd bEnd ∧ r'.sub.caf = true ∧ r'.dec = dEnd ∧ avail r' = bEnd ∧ r'.remaining + 1 = N ∧
      SameEnv r r' ∧ CachedIs i r' := by
  obtain ⟨pend, hP, hdata⟩ := hR.pend
  obtain ⟨hsw, hsh, hsrl, hscaf⟩ := subNew_dims i
  obtain ⟨hrows, hswf⟩ := rows_new i
  have hd := (legal_pos hleg).2.2
  have hinfo : infoOf r = some i := hP.info
  have hhw : (hdrOf i).width = (Sub.dims i).1 := rfl
  have hhh : (hdrOf i).height = (Sub.dims i).2 := rfl
  generalize hWd : (Sub.dims i).1 = W at *
  generalize hHd : (Sub.dims i).2 = H at *
  have hrb : (hdrOf i).rowBytes = fun w => rawRowLengthFromWidth i.color i.depth w - 1 := rowBytes_fun (hdrOf i) hd
  have hrl2 := rowlen_ge2 hleg hW
  have hol1 : 1 ≤ outLineSize t i f W := by
    rw [outLineSize_eq]
    have := rowlen_ge2 hcv.outLegal hW
    omega
  have hub : r.ub.abs.pending ++ dataOf pend = raw := by
    rw [hR.ub, UB.abs_new]; simpa using hdata
  have hubinv : r.ub.Inv := by rw [hR.ub]; exact UB.inv_new
  have hprev0 : r.ub.prevRow = [] := by rw [hR.ub]; exact prevRow_new
  have hscan : (hdrOf i).scanlines = (if i.interlaced then Adam7.specRows W H else (List.range H).map fun l => (0, l, W)) := by
    show (if i.interlaced then Adam7.specRows (hdrOf i).width (hdrOf i).height else
      (List.range (hdrOf i).height).map fun l => (0, l, (hdrOf i).width)) = _
    rw [hhw, hhh]
  have hrawOk : ScanlinesOk (fun w => rawRowLengthFromWidth i.color i.depth w - 1)
      (if i.interlaced then Adam7.specRows W H else (List.range H).map fun l => (0, l, W)) raw := by
    have := hraw; unfold RawOk at this; rw [hrb, hscan] at this; exact this
  have hspecS : specScanlines (hdrOf i) raw = unfilterScanlines (bytesPerPixel i.color i.depth)
      (fun w => rawRowLengthFromWidth i.color i.depth w - 1)
      (if i.interlaced then Adam7.specRows W H else (List.range H).map fun l => (0, l, W)) [] raw := by
    unfold specScanlines; rw [hrb, hscan]; rfl
  have hfit' : H * outLineSize t i f W ≤ buf.length := by rw [Nat.mul_comm]; exact hfit
  -- the body
  have hbody : ∃ r2 buf' pend2, frameBody cfg t r i.interlaced (outLineSize t i f W)
        (samplesOf (t.outColorDepth i f).1 * (t.outColorDepth i f).2) buf = (r2, buf', none) ∧
      specFrameT (hdrOf i) (t.conv f i) (outLineSize t i f W)
        (samplesOf (t.outColorDepth i f).1 * (t.outColorDepth i f).2) raw buf = some buf' ∧
      buf'.length = buf.length ∧
      Pending cfg i N r2 pend2 dEnd bEnd ∧ r2.sub.cur = none ∧ SameEnv r r2 ∧ CachedIs i r2 := by
    cases hil : i.interlaced with
    | false =>
      rw [hil] at hrows hrawOk hspecS
      simp only [Bool.false_eq_true, if_false] at hrows hrawOk hspecS
      rw [List.range_eq_range'] at hrows hrawOk hspecS
      -- the first row
      have hH' : H = (H - 1) + 1 := by omega
      have hline : ∃ c, r.sub.cur = some c ∧ c.line = 0 := by
        rw [hR.sub]
        rcases hrows with ⟨c, h1, h2⟩ | ⟨_, h2⟩
        · refine ⟨c, h1, ?_⟩
          rw [hH', List.range'_succ, List.map_cons] at h2
          have := (List.cons.inj h2).1
          rw [← desc_line (Sub.new i).width c, ← this]
        · rw [hH', List.range'_succ] at h2; cases h2
      obtain ⟨c, hcur, hcl⟩ := hline
      have happ : ∀ row : Bytes, row.length = rawRowLengthFromWidth i.color i.depth W - 1 →
          t.apply i f i row (outLineSize t i f W) = some (t.conv f i W row) ∧ (t.conv f i W row).length = outLineSize t i f W :=
        fun row hrow => hcv.conv_eq hW (Nat.le_refl _) (by omega)
      obtain ⟨r2, pend2, hrun, hP2, hcur2, hse2, _, _, hca2⟩ :=
        frameRowsT_trace cfg i hcv.create N dEnd bEnd (fun w => rawRowLengthFromWidth i.color i.depth w - 1)
          (bytesPerPixel i.color i.depth) W H (rawRowLengthFromWidth i.color i.depth W - 1) (outLineSize t i f W)
          (t.conv f i W) (by omega) hol1 rfl
          (bpp_total _ _ hleg).2 (rowlen_multiple _ _ _ hleg) happ H 0 r buf raw pend (by omega) hP hub hubinv hR.bpp hR.flags
          hR.cached (by rw [hR.sub, hsrl]; omega) (by rw [hR.sub, hsw]) (by rw [hR.sub]; exact hswf)
          (by rw [hR.sub]; exact hrows) hrawOk (fun _ => hprev0) (fun h => absurd rfl h) hfit'
      have hST : specScanlinesT (hdrOf i) (t.conv f i) raw =
          (unfilterScanlines (bytesPerPixel i.color i.depth) (fun w => rawRowLengthFromWidth i.color i.depth w - 1)
            ((List.range' 0 H).map fun l => (0, l, W)) [] raw).map (t.conv f i W) := by
        rw [specScanlinesT_noninterlaced (hdrOf i) hil, hspecS, hhw]
      refine ⟨r2, (specScanlinesT (hdrOf i) (t.conv f i) raw).flatten ++ buf.drop (outLineSize t i f W * H), pend2,
        ?_, ?_, ?_, hP2, hcur2, hse2, hca2⟩
      · unfold frameBody
        simp only [Bool.false_eq_true, if_false, hcur, hcl]
        rw [if_neg (by omega), hR.sub, hsh, Nat.sub_zero]
        rw [hrun, hST, hprev0, Nat.zero_mul, List.take_zero, List.nil_append, Nat.mul_comm H]
      · unfold specFrameT
        have : (hdrOf i).interlaced = false := hil
        simp only [this, Bool.false_eq_true, if_false]
        rw [hhh]
      · rw [hST, List.length_append,
          unfilterScanlines_conv_length _ _ W (outLineSize t i f W) _ (fun row hrow => (happ row hrow).2) _ _ _ _ hrawOk,
          List.length_drop]
        rw [Nat.mul_comm] at hfit
        rw [Nat.mul_comm (outLineSize t i f W) H]
        omega
    | true =>
      rw [hil] at hrows hrawOk hspecS
      simp only [if_true] at hrows hrawOk hspecS
      have hiw0 : IterWf true (Sub.start i) := by
        unfold IterWf
        simp only [Sub.start, IIter.new, hil, if_true]
        exact Adam7.new_wf _ _
      have hadv := advance_ok hiw0
      rw [← subNew_eq] at hadv
      have hpo : PrevOk i.color i.depth r.sub r.ub.prevRow := by
        rw [hprev0]; unfold PrevOk
        split
        · exact Or.inl rfl
        · intro _; exact Or.inl rfl
        · trivial
      obtain ⟨r2, buf2, hrun, hde, hbl2, hP2, hcur2, _, _, _, _, hse2, _, _, hca2⟩ :=
        frameInterlacedT_trace cfg i W H hcv hleg N dEnd bEnd hH (Adam7.specRows W H) r buf raw pend (7 * H + 8)
          (by have := Adam7.specRows_length_le W H; omega) hP hub hubinv hR.bpp hR.flags hR.cached
          (by rw [hR.sub, hsw]) (by rw [hR.sub, hsh]) (by rw [hR.sub]; exact hadv.1) (by rw [hR.sub]; exact hadv.2) hpo
          (by rw [hR.sub]; exact hrows) hrawOk hfit'
      refine ⟨r2, buf2, [], ?_, ?_, hbl2, hP2, hcur2, hse2, hca2⟩
      · unfold frameBody
        simp only [if_true]
        rw [hR.sub, hsh]
        exact hrun
      · unfold specFrameT
        have : (hdrOf i).interlaced = true := hil
        simp only [this, if_true]
        have hpr : specPassRowsT (hdrOf i) (t.conv f i) raw = passRowsT (t.conv f i) (Adam7.specRows W H)
            (unfilterScanlines (bytesPerPixel i.color i.depth) (fun w => rawRowLengthFromWidth i.color i.depth w - 1)
              (Adam7.specRows W H) [] raw) := by
          unfold specPassRowsT passRowsT
          rw [hspecS, hscan, hil]; rfl
        rw [hpr]
        rw [hprev0] at hde
        exact hde
  obtain ⟨r2, buf', pend2, hrun2, hspec, hblen, hP2, hcur2, hse2, hca2⟩ := hbody
  obtain ⟨r3, hrun3, hP3, hsub3, hdec3, hav3, hrem3, hse3, _, hca3, _⟩ := finishDecoding_trace hP2 hcur2
  refine ⟨r3, buf', ?_, hspec, hblen, hP3, by rw [hsub3], hdec3, hav3, hrem3, hse2.trans hse3,
    fun s0 hs0 => hca2 s0 (hca3 ▸ hs0)⟩
  unfold frameInto
  simp only [hinfo]
  rw [hR.flags]
  rw [if_neg (by omega)]
  rw [hR.sub, hsw, hsh, hrun2]
  simp only [hrun3]

/-! ## `next_frame` as an operation -/

/-- **`next_frame`** (the operation of the model: a buffer of `output_buffer_size()` bytes pre-filled with `p`) on a
    reader that stands at the begin of a frame's image data, with a row transformation -/
theorem nextFrameOpT_ready (cfg : Cfg) {t : TCfg} {f : Flags} (i : Info) (hcv : t.Converts f i (Sub.dims i).1)
    (hleg : (i.color, i.depth) ∈ legalPairs) (hW : 1 ≤ (Sub.dims i).1) (hH : 1 ≤ (Sub.dims i).2)
    (N : Nat) (raw : Bytes) (dEnd : Dec) (bEnd : Bytes) (r : R) (p : UInt8)
    (hR : ReadyT cfg f i N r raw dEnd bEnd) (hpb : r.pendingBuf = none) (hrd : r.isReader = true)
    (hraw : RawOk (hdrOf i) raw)
    (hfit : outLineSize t i f (Sub.dims i).1 * (Sub.dims i).2 ≤ outLineSize t i f i.width * i.height) :
    ∃ r' buf', step cfg t r (.nextFrame p) =
        (r', .frame { width := (Sub.dims i).1, height := (Sub.dims i).2, color := (t.outColorDepth i f).1,
                      depth := (t.outColorDepth i f).2, lineSize := outLineSize t i f (Sub.dims i).1 } buf') ∧
      specFrameT (hdrOf i) (t.conv f i) (outLineSize t i f (Sub.dims i).1)
        (samplesOf (t.outColorDepth i f).1 * (t.outColorDepth i f).2) raw
        (List.replicate (outLineSize t i f i.width * i.height) p) = some buf' ∧
      buf'.length = outLineSize t i f i.width * i.height ∧
      Pending cfg i N r' [] dEnd bEnd ∧ r'.sub.caf = true ∧ r'.dec = dEnd ∧ avail r' = bEnd ∧ r'.remaining + 1 = N ∧
      SameEnv r r' ∧ CachedIs i r' := by
  obtain ⟨pend, hP, hdata⟩ := hR.pend
  have hinfo : infoOf r = some i := hP.info
  have hcaf : r.sub.caf = false := by rw [hR.sub]; exact (subNew_dims i).2.2.2
  have hrem : r.remaining ≠ 0 := by
    rcases hP.caf with ⟨_, _, h⟩ | ⟨h, _, _⟩
    · have := hP.hN; omega
    · rw [hcaf] at h; cases h
  obtain ⟨r', buf', hrun, hspec, hbl, h3, h4, h5, h6, h7, h8, h9⟩ :=
    frameIntoT_trace cfg i hcv hleg hW hH N raw dEnd bEnd r (List.replicate (outLineSize t i f i.width * i.height) p) hR hraw
      (by simp) (by simpa using hfit)
  refine ⟨r', buf', ?_, hspec, by simpa using hbl, h3, h4, h5, h6, h7, h8, h9⟩
  show (if !r.isReader then _ else nextFrameOp cfg t r p) = _
  simp only [hrd, Bool.not_true, Bool.false_eq_true, if_false]
  unfold nextFrameOp
  simp only [hinfo, callerBuf, hpb]
  rw [pendingBuf_none_eq hpb]
  rw [nextFrameBuf_inside cfg t r _ hrem hcaf]
  simp only [hR.flags, hrun]

/-! ## `read_until_image_data` and `read_info` -/

/-- **`Reader::read_until_image_data`** along a trace that ends with the begin of an `IDAT` chunk, for any
    transformation: the line buffer charged to the limits has the OUTPUT line size for the `Info` held then -/
theorem readUntilImageDataT_trace (cfg : Cfg) (t : TCfg) {f : Flags} {P : Dec → Prop} {r : R}
    {pre : List (Ev × Bytes)} {len : Nat} {tD : ChunkType} {dM : Dec} {bM : Bytes} {i : Info}
    (htD : tD = IDAT ∨ tD = fdAT) (ho : r.dec.out = []) (hpre : ∀ e ∈ pre, PreEv e)
    (htr : Trace cfg P r.dec (avail r) (pre ++ [(.chunkBegin len tD, [])]) dM bM)
    (hi : dM.info = some i) (hleg : (i.color, i.depth) ∈ legalPairs) (hfl : r.flags = f)
    (hlim : outLineSize t i f (Sub.dims i).1 ≤ dM.limit) :
    ∃ r', readUntilImageData cfg t r = (r', .ok ()) ∧
      r'.dec = { dM with limit := dM.limit - outLineSize t i f (Sub.dims i).1 } ∧ avail r' = bM ∧ r'.sub = Sub.new i ∧
      r'.bpp = bytesPerPixel i.color i.depth ∧ r'.ub = UB.new ∧ SameEnv r r' ∧ r'.cached = r.cached ∧
      r'.remaining = r.remaining := by
  have hlt : pre.length < fuelOf r := by
    have h1 := htr.length_le
    have h2 := fuelOf_ge r
    simp only [M, List.length_append, List.length_cons, List.length_nil] at h1 h2
    omega
  obtain ⟨r1, hrun, ha, ho1⟩ := rdReadUntilImageData_trace htD pre r (fuelOf r) hlt ho hpre htr
  have hfr := ha.frame
  have hse := hfr.sameEnv
  unfold Frame at hfr
  have hi1 : infoOf r1 = some i := by show r1.dec.info = some i; rw [ha.dec]; exact hi
  have hbpp := (bpp_total _ _ hleg).1
  have hfl1 : r1.flags = f := by rw [hse.flags]; exact hfl
  have hw : (Sub.new i).width = (Sub.dims i).1 := (subNew_dims i).1
  refine ⟨{ ({ r1 with sub := Sub.new i, bpp := bytesPerPixel i.color i.depth, ub := UB.new } : R) with
    dec := { r1.dec with limit := r1.dec.limit - outLineSize t i f (Sub.dims i).1 } }, ?_, ?_, ?_, rfl, rfl, rfl,
    ⟨hse.input, hse.visible, hse.flags, hse.isReader, hse.finished, hse.dead, hse.pendingBuf⟩, ?_, ?_⟩
  · unfold readUntilImageData
    rw [hrun]
    simp only [hi1, hbpp]
    unfold reserveBytes
    simp only [hfl1, hw]
    rw [if_pos (by rw [ha.dec]; exact hlim)]
  · show ({ r1.dec with limit := r1.dec.limit - outLineSize t i f (Sub.dims i).1 } : Dec) = _
    rw [ha.dec]
  · rw [← ha.avail]; rfl
  · show r1.cached = r.cached; rw [hfr]
  · show r1.remaining = r.remaining; rw [hfr]

/-- **`read_info` on a well-formed stream, for any transformation** whose advertised output type for the `Info` after
    `IHDR` alone has a legal bit depth and whose output image — as computed from that `Info` — fits `usize`
    (`read_info`'s first check, mod.rs:206-218), whose output image as computed from the `Info` at the begin of the image
    data fits `usize` as well (`read_info`'s second check, mod.rs:224-232: `hfinal`), and whose output line for that `Info`
    fits the limit left after the chunks before `IDAT` (mod.rs:369) -/
theorem readInfoT_wf (cfg : Cfg) (hI : cfg.InflateOk) (hC : cfg.CrcOk) (t : TCfg) (f : Flags)
    (opts : Options) (limit : Nat) (h : Header) (hv : h.Valid) (anc : Bytes) (dA : Dec) (fo : Option FrameControl)
    (hanc : AncTrace cfg (afterIhdr cfg opts limit h) anc dA) (hidle : IdleF dA h.info.core fo)
    (z : Bytes) (zs : List Bytes) (raw : Bytes) (hz : z.length < 2 ^ 32) (hzs : ∀ z' ∈ zs, z'.length < 2 ^ 32)
    (hinf : cfg.inflate (z :: zs).flatten = some (raw, true))
    (len' t' : Nat) (rest' : Bytes) (hlen' : len' < 2 ^ 32) (ht' : t' < 2 ^ 32) (hne' : t' ≠ IDAT)
    (hod0 : depthOk (t.outColorDepth h.info f).2 = true)
    (hsize : outLineSize t h.info f h.width * h.height < 2 ^ 64)
    (hfinal : ∀ i, dA.info = some i → depthOk (t.outColorDepth i f).2 = true ∧
      outLineSize t i f h.width * h.height < 2 ^ 64)
    (hlimit : ∀ i, dA.info = some i → outLineSize t i f (Sub.dims i).1 ≤ dA.limit) :
    ∃ r i N dEnd,
      readInfo cfg t (R.init opts limit f
        (signature ++ (chunk cfg IHDR h.body ++ (anc ++ (idats cfg (z :: zs) ++ (be32Bytes len' ++ typeBytes t' ++ rest')))))
        (signature ++ (chunk cfg IHDR h.body ++ (anc ++ (idats cfg (z :: zs) ++ (be32Bytes len' ++ typeBytes t' ++ rest'))))).length)
        = (r, .header) ∧
      ReadyT cfg f i N r raw dEnd rest' ∧ i.core = h.info.core ∧ i.fctl = fo ∧ Flushed dEnd i len' t' ∧
      r.isReader = true ∧ r.pendingBuf = none ∧ r.dead = false ∧ r.finished = false ∧
      dA.info = some i ∧ r.remaining = N ∧
      N = (match i.actl with
        | none => 1
        | some (nf, _) => max 1 (if i.fctl.isNone then nf + 1 else nf)) ∧
      dEnd.seqNo = dA.seqNo ∧ dEnd.cap = dA.cap ∧ dEnd.opts = dA.opts ∧
      dEnd.limit = dA.limit - outLineSize t i f (Sub.dims i).1 := by
  generalize hfile : (signature ++ (chunk cfg IHDR h.body ++ (anc ++ (idats cfg (z :: zs) ++
    (be32Bytes len' ++ typeBytes t' ++ rest'))))) = file
  generalize hr0 : R.init opts limit f file file.length = r0
  have hav0 : avail r0 = file := by rw [← hr0]; exact avail_init _ _ _ _
  have hd0 : r0.dec = dec0 opts limit := by rw [← hr0]; rfl
  obtain ⟨hw1, hw2, hh1, hh2, hleg⟩ := hv
  have hd := (legal_pos hleg).2.2
  -- the bytes behind `IHDR`
  generalize htbZ : z ++ (be32Bytes (cfg.crc (typeBytes IDAT ++ z)) ++ (idats cfg zs ++ (be32Bytes len' ++ typeBytes t' ++ rest'))) = restZ
  have htb : anc ++ (idats cfg (z :: zs) ++ (be32Bytes len' ++ typeBytes t' ++ rest')) =
      anc ++ (be32Bytes z.length ++ typeBytes IDAT ++ restZ) := by
    rw [idats_cons, List.append_assoc, chunk_append, htbZ]
  obtain ⟨d1, d2, T1, ho1, T2, ho2, T3⟩ := ihdr_trace cfg hC opts limit h ⟨hw1, hw2, hh1, hh2, hleg⟩
    (anc ++ (idats cfg (z :: zs) ++ (be32Bytes len' ++ typeBytes t' ++ rest')))
  rw [hfile] at T1
  -- `read_header_info`
  have hF : fuelOf r0 = (fuelOf r0 - 3) + 3 := by simp only [fuelOf]; omega
  obtain ⟨r1, hrh, ha1, hi1, hor1⟩ := readHeaderInfo_trace (cfg := cfg) (r := r0) (fuelOf r0 - 3)
    (by rw [hd0]; rfl) (by rw [hd0]; rfl) (e1 := .chunkBegin 13 IHDR) (by simp)
    (e2 := .header h.width h.height h.depth h.color h.interlaced) (by simp)
    (by rw [hd0, hav0]; exact T1) ho1 T2
  rw [← hF] at hrh
  have hse1 := ha1.frame.sameEnv
  have hfr1 := ha1.frame
  unfold Frame at hfr1
  -- the size checks
  have hfl1 : r1.flags = f := by rw [hse1.flags, ← hr0]; rfl
  have hck : checkedRawRowLength h.color h.depth h.width = some (rawRowLengthFromWidth h.color h.depth h.width) := by
    obtain ⟨n, hn⟩ := rowlen_checked_some h.color h.depth h.width hw2 hd
    rw [hn, rowlen_checked _ _ _ hd n hn]
  have hck2 : checkedRawRowLength (t.outColorDepth h.info f).1 (t.outColorDepth h.info f).2 h.width =
      some (rawRowLengthFromWidth (t.outColorDepth h.info f).1 (t.outColorDepth h.info f).2 h.width) := by
    obtain ⟨n, hn⟩ := rowlen_checked_some (t.outColorDepth h.info f).1 (t.outColorDepth h.info f).2 h.width hw2 hod0
    rw [hn, rowlen_checked _ _ _ hod0 n hn]
  -- `read_until_image_data`
  obtain ⟨evA, TA, hpA⟩ := hanc (be32Bytes z.length ++ typeBytes IDAT ++ restZ) (head8_ne_nil _ _ _)
  obtain ⟨dM, i, TB, hmid, hcore, hfctl, hlimM, hinfM, hseqM, hkM⟩ := first_idat_begin cfg (rest := restZ) hidle hz
  have hcore' := hcore
  simp only [Info.core, Header.info, Prod.mk.injEq] at hcore'
  obtain ⟨c1, c2, c3, c4, c5⟩ := hcore'
  have hlegi : (i.color, i.depth) ∈ legalPairs := by rw [c3, c4]; exact hleg
  rw [htb] at T3
  have Tpre : Trace cfg (fun _ => True) d2
      (be32Bytes (cfg.crc (typeBytes IHDR ++ h.body)) ++ (anc ++ (be32Bytes z.length ++ typeBytes IDAT ++ restZ)))
      (([(.chunkComplete (cfg.crc (typeBytes IHDR ++ h.body)) IHDR, [])] ++ evA) ++ [(.chunkBegin z.length IDAT, [])]) dM restZ :=
    (T3.append TA).append TB
  have hpre : ∀ e ∈ [(Ev.chunkComplete (cfg.crc (typeBytes IHDR ++ h.body)) IHDR, ([] : Bytes))] ++ evA, PreEv e := by
    intro e he
    rcases List.mem_append.mp he with h1 | h1
    · simp only [List.mem_cons, List.mem_nil_iff, or_false] at h1
      subst h1
      exact ⟨rfl, by simp, fun _ _ hx => by cases hx⟩
    · exact hpA e h1
  obtain ⟨r1', hr1'⟩ : ∃ x : R, x = { r1 with isReader := true } := ⟨_, rfl⟩
  have hdec1' : r1'.dec = d2 := by rw [hr1']; exact ha1.dec
  have hav1' : avail r1' = be32Bytes (cfg.crc (typeBytes IHDR ++ h.body)) ++
      (anc ++ (idats cfg (z :: zs) ++ (be32Bytes len' ++ typeBytes t' ++ rest'))) := by rw [hr1']; exact ha1.avail
  rw [htb] at hav1'
  have hfl1' : r1'.flags = f := by rw [hr1']; exact hfl1
  have hiA : dA.info = some i := by rw [← hinfM]; exact hmid.info
  obtain ⟨r2, hru, hdec2, hav2, hsub2, hbpp2, hub2, hse2, hca2, hrem2⟩ :=
    readUntilImageDataT_trace cfg t (P := fun _ => True) (r := r1') (i := i) (Or.inl rfl)
      (by rw [hr1']; exact hor1) hpre (by rw [hdec1', hav1']; exact Tpre) hmid.info hlegi hfl1'
      (by rw [hlimM]; exact hlimit i hiA)
  -- the image data
  obtain ⟨evs, dEnd, TD, hev, hdata, hflu, hkeep, hseq⟩ := idat_sequence_trace cfg hI hC i raw rest' len' t' hlen' ht' hne' z zs
    { dM with limit := dM.limit - outLineSize t i f (Sub.dims i).1 } (hmid.setLimit _) hzs hinf
  rw [htbZ] at TD
  -- remaining frames
  generalize hN : (match i.actl with
    | none => 1
    | some (nf, _) => max 1 (if i.fctl.isNone then nf + 1 else nf)) = N
  have hN1 : 1 ≤ N := by
    rw [← hN]; split
    · exact Nat.le_refl _
    · exact Nat.le_max_left _ _
  have hi2 : infoOf r2 = some i := by show r2.dec.info = some i; rw [hdec2]; exact hmid.info
  refine ⟨{ r2 with remaining := N }, i, N, dEnd, ?_, ?_, hcore, hfctl, hflu, ?_, ?_, ?_, ?_, hiA, rfl, ?_, ?_, ?_, ?_, ?_⟩
  · -- the call
    unfold readInfo readInfo'
    have hnr : r0.isReader = false := by rw [← hr0]; rfl
    simp only [hnr, Bool.false_eq_true, if_false, hrh]
    have hinfo1 : infoOf r1 = some h.info := hi1
    have hocd : t.outColorDepth h.info r1.flags = t.outColorDepth h.info f := by rw [hfl1]
    simp only [hinfo1, hocd]
    have hw' : h.info.width = h.width := rfl
    have hc' : h.info.color = h.color := rfl
    have hdp' : h.info.depth = h.depth := rfl
    have hh' : h.info.height = h.height := rfl
    simp only [hw', hc', hdp', hh', hck, hck2]
    rw [outLineSize_eq] at hsize
    rw [if_neg (by omega), ← hr1', hru]
    simp only [hi2]
    have hfit : sizeFits (t.outColorDepth i r2.flags) h.width h.height = true := by
      obtain ⟨hod1, hsize1⟩ := hfinal i hiA
      rw [hse2.flags, hfl1']
      obtain ⟨n, hn⟩ := rowlen_checked_some (t.outColorDepth i f).1 (t.outColorDepth i f).2 h.width hw2 hod1
      have hn' := rowlen_checked _ _ _ hod1 n hn
      rw [outLineSize_eq, hn'] at hsize1
      unfold sizeFits
      simp only [hn, decide_eq_true_eq]
      exact hsize1
    rw [if_pos hfit]
    subst hN
    rfl
  · refine ⟨⟨evs, ⟨?_, hi2, ?_, Or.inl ⟨?_, hev, rfl⟩, hN1⟩, hdata⟩, ?_, hsub2, hbpp2, hub2, ?_⟩
    · show r2.dec.out = []; rw [hdec2]; exact hmid.out
    · show Trace cfg _ r2.dec (avail r2) evs dEnd rest'
      rw [hdec2, hav2]; exact TD
    · show r2.sub.caf = false; rw [hsub2]; exact (subNew_dims i).2.2.2
    · show r2.flags = f; rw [hse2.flags]; exact hfl1'
    · intro s0 hs0
      have : r2.cached = none := by rw [hca2, hr1']; show r1.cached = none; rw [hfr1, ← hr0]; rfl
      have hs0' : r2.cached = some s0 := hs0
      rw [this] at hs0'; cases hs0'
  · show r2.isReader = true; rw [hse2.isReader, hr1']
  · show r2.pendingBuf = none; rw [hse2.pendingBuf, hr1']; show r1.pendingBuf = none; rw [hse1.pendingBuf, ← hr0]; rfl
  · show r2.dead = false; rw [hse2.dead, hr1']; show r1.dead = false; rw [hse1.dead, ← hr0]; rfl
  · show r2.finished = false; rw [hse2.finished, hr1']; show r1.finished = false; rw [hse1.finished, ← hr0]; rfl
  · exact hN.symm
  · rw [hseq]; exact hseqM
  · rw [hkeep.cap]; exact hkM.cap
  · rw [hkeep.opts]; exact hkM.opts
  · rw [hkeep.limit]; show dM.limit - _ = _; rw [hlimM]

/-- **`[read_info, next_frame]` on a well-formed still image with a row transformation** -/
theorem decodeT_wf (cfg : Cfg) (hI : cfg.InflateOk) (hC : cfg.CrcOk) (t : TCfg) (f : Flags)
    (opts : Options) (limit : Nat) (h : Header) (hv : h.Valid) (anc : Bytes) (dA : Dec) (i : Info)
    (hanc : AncTrace cfg (afterIhdr cfg opts limit h) anc dA) (hidle : Idle dA h.info.core) (hiA : dA.info = some i)
    (hcv : t.Converts f i h.width)
    (z : Bytes) (zs : List Bytes) (raw : Bytes) (hz : z.length < 2 ^ 32) (hzs : ∀ z' ∈ zs, z'.length < 2 ^ 32)
    (hinf : cfg.inflate (z :: zs).flatten = some (raw, true)) (hraw : RawOk h raw)
    (len' t' : Nat) (rest' : Bytes) (hlen' : len' < 2 ^ 32) (ht' : t' < 2 ^ 32) (hne' : t' ≠ IDAT)
    (hod0 : depthOk (t.outColorDepth h.info f).2 = true)
    (hsize : outLineSize t h.info f h.width * h.height < 2 ^ 64)
    (hsize2 : outLineSize t i f h.width * h.height < 2 ^ 64)
    (hlimit : outLineSize t i f h.width ≤ dA.limit) (p : UInt8) :
    ∃ buf,
      (run cfg t (R.init opts limit f
        (signature ++ (chunk cfg IHDR h.body ++ (anc ++ (idats cfg (z :: zs) ++ (be32Bytes len' ++ typeBytes t' ++ rest')))))
        (signature ++ (chunk cfg IHDR h.body ++ (anc ++ (idats cfg (z :: zs) ++ (be32Bytes len' ++ typeBytes t' ++ rest'))))).length)
        [.readInfo, .nextFrame p]).2 =
        [.header, .frame { width := h.width, height := h.height, color := (t.outColorDepth i f).1,
                           depth := (t.outColorDepth i f).2, lineSize := outLineSize t i f h.width } buf] ∧
      specPixelsT h (t.conv f i) (outLineSize t i f h.width) (samplesOf (t.outColorDepth i f).1 * (t.outColorDepth i f).2) raw
        (List.replicate (outLineSize t i f h.width * h.height) p) = some buf ∧
      buf.length = outLineSize t i f h.width * h.height := by
  obtain ⟨j, hj, hcj, hfj⟩ := hidle.info
  have hji : j = i := by rw [hiA] at hj; cases hj; rfl
  subst hji
  have hdimsj : Sub.dims j = (h.width, h.height) := by
    have hc := hcj
    simp only [Info.core, Header.info, Prod.mk.injEq] at hc
    simp [Sub.dims, hfj, hc.1, hc.2.1]
  obtain ⟨r, i, N, dEnd, hri, hR, hcore, hfctl, _, hrd, hpb, _, _, hiA', _⟩ :=
    readInfoT_wf cfg hI hC t f opts limit h hv anc dA none hanc hidle z zs raw hz hzs hinf len' t' rest' hlen' ht' hne' hod0 hsize
      (fun i' hi' => by
        have : i' = j := by rw [hiA] at hi'; cases hi'; rfl
        subst this; exact ⟨(legal_pos hcv.outLegal).2.2, hsize2⟩)
      (fun i' hi' => by
        have : i' = j := by rw [hiA] at hi'; cases hi'; rfl
        subst this; rw [hdimsj]; exact hlimit)
  have hij : i = j := by rw [hiA] at hiA'; cases hiA'; rfl
  subst hij
  have hhdr : hdrOf i = h := hdrOf_eq hcore hfctl
  have hcore' := hcore
  simp only [Info.core, Header.info, Prod.mk.injEq] at hcore'
  obtain ⟨c1, c2, c3, c4, c5⟩ := hcore'
  obtain ⟨hw1, hw2, hh1, hh2, hleg⟩ := hv
  have hlegi : (i.color, i.depth) ∈ legalPairs := by rw [c3, c4]; exact hleg
  have hdims : Sub.dims i = (h.width, h.height) := hdimsj
  have hsz : outLineSize t i f i.width * i.height = outLineSize t i f h.width * h.height := by rw [c1, c2]
  obtain ⟨r', buf', hstep, hspec, hblen, _⟩ := nextFrameOpT_ready cfg i (by rw [hdims]; exact hcv) hlegi
    (by rw [hdims]; exact hw1) (by rw [hdims]; exact hh1)
    N raw dEnd rest' r p hR hpb hrd (by rw [hhdr]; exact hraw) (by rw [hdims, hsz]; exact Nat.le_refl _)
  refine ⟨buf', ?_, ?_, by rw [hblen, hsz]⟩
  · generalize (signature ++ (chunk cfg IHDR h.body ++ (anc ++ (idats cfg (z :: zs) ++
      (be32Bytes len' ++ typeBytes t' ++ rest'))))) = file at hri ⊢
    have hdead : (R.init opts limit f file file.length).dead = false := rfl
    generalize R.init opts limit f file file.length = r0 at hri hdead ⊢
    have hs1 : step cfg t r0 .readInfo = (r, .header) := by
      show (if r0.dead then _ else readInfo cfg t r0) = _
      rw [hdead]; exact hri
    rw [run_two, hs1]
    simp only
    rw [hstep, hdims]
  · rw [hhdr, hsz, hdims] at hspec
    rw [← specFrameT_eq_specPixelsT h _ _ _ raw _ (by simp)]
    exact hspec

end Png.Reader
