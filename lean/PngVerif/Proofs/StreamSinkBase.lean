import PngVerif.Proofs.Encoder
/-!
# The stream writer under EVERY sink behaviour, part 1: `Writer` transitions and the chunk writer

`Proofs/Encoder.lean` follows the stream writer on a sink that never fails (`CWI`, `ZI`, `Inside`, `SessInv`: exact
contents of the log).  Here nothing is assumed about the sink (`SinkBehaviour`: write failure at any byte offset, once
or permanent; flush failure at any call index, once or permanent), so only the facts that survive every failure are
tracked:

* `Tr n P s s'` — how a call may change the `Writer` state: static fields and the failure schedule stay; the log only
  grows, and if `P` holds (in the lemmas: "the call returned `Ok`") every entry it grew by was completely accepted; the
  IEND flag never goes back, an IEND emission is attempted exactly when the flag is set, it is then the LAST entry of
  the log, and nothing is written once the flag is set; the frame control keeps a legal rectangle; `animation_written`
  grows by at most `n`.
* `Live w` — a `Writer` that is still open: the panic-relevant facts (`Safe`, `Fits`), IEND flag clear, no IEND attempt.
* `CWOk c` — a chunk writer holding a live `Writer`; its chunk type is not IEND.  NOTHING is assumed about its buffer
  (it may be full: a failed `flush_inner` leaves it so) — the lemmas on `flushInner`, `startChunk`, `append`, `write`,
  `writeHeader`, `setFctl`, `drop` hold from any such state.
-/
namespace Png.Enc
open Png Png.Val

/-! ## Transitions of the `Writer` state -/

/-- how a call may change the `Writer` state, whatever the sink does -/
structure Tr (n : Nat) (P : Prop) (s s' : WState) : Prop where
  static : StaticEq s s'
  beh : s'.sink.beh = s.sink.beh
  /-- the log only grows; if `P` (the call returned `Ok`) every new entry was completely accepted -/
  log : ∃ ext, s'.sink.log = s.sink.log ++ ext ∧ (P → ∀ e ∈ ext, e.complete = true)
  /-- nothing is written once the IEND flag is set -/
  closed : s.iendWritten = true → s'.iendWritten = true ∧ s'.sink.log = s.sink.log
  /-- as long as the flag is clear no IEND emission is attempted -/
  open_ : s.iendWritten = false → s'.iendWritten = false → s'.sink.iendAttempts = s.sink.iendAttempts
  /-- the flag is set by exactly one IEND attempt, which is the last entry of the log -/
  closing : s.iendWritten = false → s'.iendWritten = true →
    s'.sink.iendAttempts = s.sink.iendAttempts + 1 ∧ ∃ pre k, s'.sink.log = pre ++ [⟨.chunk iendChunk, k⟩]
  rect : (∀ f, s.fctl = some f → RectOk s f) → ∀ f, s'.fctl = some f → RectOk s' f
  /-- without a frame control (no animation, or the animation is complete) none appears -/
  fcNone : s.fctl = none → s'.fctl = none
  animLo : s.animWritten ≤ s'.animWritten
  animHi : s'.animWritten ≤ s.animWritten + n

theorem Tr.refl (s : WState) : Tr 0 True s s :=
  { static := StaticEq.refl s, beh := rfl, log := ⟨[], by simp, by simp⟩,
    closed := fun h => ⟨h, rfl⟩, open_ := fun _ _ => rfl,
    closing := fun h h' => by rw [h] at h'; cases h'
    rect := fun h => h, fcNone := fun h => h, animLo := Nat.le_refl _, animHi := Nat.le_refl _ }

theorem Tr.weaken {n m : Nat} {P Q : Prop} {s s' : WState} (h : Tr n P s s') (hn : n ≤ m) (hq : Q → P) : Tr m Q s s' :=
  { static := h.static, beh := h.beh
    log := by obtain ⟨ext, h1, h2⟩ := h.log; exact ⟨ext, h1, fun q => h2 (hq q)⟩
    closed := h.closed, open_ := h.open_, closing := h.closing, rect := h.rect, fcNone := h.fcNone, animLo := h.animLo
    animHi := Nat.le_trans h.animHi (Nat.add_le_add_left hn _) }

theorem iendAttempts_log_eq {k k' : Sink} (h : k'.log = k.log) : k'.iendAttempts = k.iendAttempts := by
  simp [Sink.iendAttempts, h]

theorem Tr.trans {n1 n2 : Nat} {P Q : Prop} {a b c : WState} (h1 : Tr n1 P a b) (h2 : Tr n2 Q b c) :
    Tr (n1 + n2) (P ∧ Q) a c := by
  obtain ⟨e1, l1, m1⟩ := h1.log
  obtain ⟨e2, l2, m2⟩ := h2.log
  refine { static := h1.static.trans h2.static, beh := h2.beh.trans h1.beh
           log := ⟨e1 ++ e2, by rw [l2, l1]; simp, ?_⟩, closed := ?_, open_ := ?_, closing := ?_
           rect := fun h => h2.rect (h1.rect h), fcNone := fun h => h2.fcNone (h1.fcNone h), animLo := Nat.le_trans h1.animLo h2.animLo, animHi := ?_ }
  · intro ⟨p, q⟩ e he
    simp only [List.mem_append] at he
    rcases he with he | he
    · exact m1 p e he
    · exact m2 q e he
  · intro ha
    obtain ⟨hb, lb⟩ := h1.closed ha
    obtain ⟨hc, lc⟩ := h2.closed hb
    exact ⟨hc, lc.trans lb⟩
  · intro ha hc
    cases hb : b.iendWritten with
    | true => have := (h2.closed hb).1; rw [hc] at this; cases this
    | false => exact (h2.open_ hb hc).trans (h1.open_ ha hb)
  · intro ha hc
    cases hb : b.iendWritten with
    | true =>
      obtain ⟨x1, pre, k, x2⟩ := h1.closing ha hb
      obtain ⟨_, lc⟩ := h2.closed hb
      exact ⟨by rw [iendAttempts_log_eq lc]; exact x1, pre, k, by rw [lc]; exact x2⟩
    | false =>
      obtain ⟨x1, x2⟩ := h2.closing hb hc
      exact ⟨by rw [x1, h1.open_ ha hb], x2⟩
  · have := h1.animHi; have := h2.animHi; omega

/-- composition, with the bound and the condition restated -/
theorem Tr.comp {n1 n2 m : Nat} {P Q R : Prop} {a b c : WState} (h1 : Tr n1 P a b) (h2 : Tr n2 Q b c)
    (hn : n1 + n2 ≤ m) (hr : R → P ∧ Q) : Tr m R a c :=
  (h1.trans h2).weaken hn hr

theorem emit_iend (s : WState) (cs : List RChunk) : (s.emit cs).1.iendWritten = s.iendWritten := by
  simp [WState.emit]

/-- emitting chunks none of which is an IEND, on an open `Writer`: the call returns `true` only if every
    chunk got through completely -/
theorem Tr.emit (s : WState) (cs : List RChunk) (hc : ∀ c ∈ cs, c.ty ≠ tyIEND) (h0 : s.iendWritten = false) :
    Tr 0 ((s.emit cs).2 = true) s (s.emit cs).1 := by
  obtain ⟨ext, g1, g2, g3, g4, _⟩ := Sink.emitChunks_log cs s.sink
  have hlog : (s.emit cs).1.sink.log = s.sink.log ++ ext := by simp only [WState.emit]; exact g1
  have hfl := emit_iend s cs
  have hok : (s.emit cs).2 = (s.sink.emitChunks cs).2 := by simp [WState.emit]
  exact {
    static := emit_static s cs
    beh := by simp only [WState.emit]; exact g4
    log := ⟨ext, hlog, fun h => g3 (by rw [← hok]; exact h)⟩
    closed := fun h => by rw [h0] at h; cases h
    open_ := fun _ _ => by
      rw [iendAttempts_of_log hlog, no_iend_ext]; · rfl
      intro e he; obtain ⟨c, hcm, hp⟩ := g2 e he; exact ⟨c, hp, hc c hcm⟩
    closing := fun _ h => by rw [hfl, h0] at h; cases h
    rect := by intro h f hf; simp only [WState.emit] at hf ⊢; exact h f hf
    fcNone := by intro h; rw [emit_fctl]; exact h
    animLo := by simp [WState.emit]
    animHi := by simp [WState.emit] }

/-- an update of the frame control that keeps its rectangle (sequence numbers), possibly counting a frame -/
theorem Tr.setSeq (s : WState) (g : FC) (hg : s.fctl = some g) (f' : FC)
    (hsame : f'.w = g.w ∧ f'.h = g.h ∧ f'.x = g.x ∧ f'.y = g.y) (n a : Nat)
    (ha : s.animWritten ≤ a ∧ a ≤ s.animWritten + n) :
    Tr n True s { s with fctl := some f', animWritten := a } :=
  { static := ⟨rfl, rfl, rfl, rfl, rfl, rfl, rfl, rfl⟩, beh := rfl, log := ⟨[], by simp, by simp⟩
    closed := fun h => ⟨h, rfl⟩, open_ := fun _ _ => rfl
    closing := fun h h' => by simp only at h'; rw [h] at h'; cases h'
    rect := fun h k hk => by
      simp only [Option.some.injEq] at hk; subst hk
      have := h g hg
      simp only [RectOk] at this ⊢
      obtain ⟨e1, e2, e3, e4⟩ := hsame
      rw [e1, e2, e3, e4]; exact this
    fcNone := fun h => by rw [hg] at h; cases h
    animLo := ha.1, animHi := ha.2 }

/-- installing a frame control that lies inside the canvas -/
theorem Tr.setFc (s : WState) (g : FC) (hg : s.fctl = some g) (f' : FC) (hr : RectOk s f') :
    Tr 0 True s { s with fctl := some f' } :=
  { static := ⟨rfl, rfl, rfl, rfl, rfl, rfl, rfl, rfl⟩, beh := rfl, log := ⟨[], by simp, by simp⟩
    closed := fun h => ⟨h, rfl⟩, open_ := fun _ _ => rfl
    closing := fun h h' => by simp only at h'; rw [h] at h'; cases h'
    rect := fun _ k hk => by simp only [Option.some.injEq] at hk; subst hk; exact hr
    fcNone := fun h => by rw [hg] at h; cases h
    animLo := Nat.le_refl _, animHi := Nat.le_refl _ }

/-- the whole-image API on an open `Writer` (completeness of the new entries is not claimed here) -/
theorem Evolves.toTr {s s' : WState} (h : Evolves s s') (h0 : s.iendWritten = false)
    (hfn : s.fctl = none → s'.fctl = none) : Tr 1 False s s' := by
  obtain ⟨ext, l1, l2⟩ := h.log
  exact {
    static := h.static, beh := h.beh, log := ⟨ext, l1, fun f => f.elim⟩
    closed := fun hh => by rw [h0] at hh; cases hh
    open_ := fun _ _ => h.grows.iendAttempts
    closing := fun _ hh => by rw [h.iend, h0] at hh; cases hh
    rect := h.rect, fcNone := hfn, animLo := h.animLo, animHi := h.animHi }

/-! ## IEND: `write_iend`, the `Writer`'s drop, the sink's flush -/

theorem Tr.writeIend (s : WState) (h0 : s.iendWritten = false) :
    Tr 0 ((writeIend s).2 = true) s (writeIend s).1 ∧ (writeIend s).1.iendWritten = true := by
  obtain ⟨n, h1, h2, h3, _⟩ := s.sink.emit_log (.chunk iendChunk)
  rw [writeIend_eq]
  refine ⟨?_, rfl⟩
  exact {
    static := ⟨rfl, rfl, rfl, rfl, rfl, rfl, rfl, rfl⟩
    beh := h3
    log := ⟨[⟨.chunk iendChunk, n⟩], h1, fun hok e he => by
      simp only [List.mem_singleton] at he; subst he
      simp [Emit.complete, h2 hok]⟩
    closed := fun h => by rw [h0] at h; cases h
    open_ := fun _ h => by cases h
    closing := fun _ _ => ⟨by
      show (s.sink.emit (.chunk iendChunk)).1.iendAttempts = _
      rw [iendAttempts_of_log h1]; simp, s.sink.log, n, h1⟩
    rect := fun h => h, fcNone := fun h => h
    animLo := Nat.le_refl _, animHi := Nat.le_refl _ }

/-- `Drop for Writer`: the flag is set afterwards; a sink error is lost -/
theorem Tr.dropW (s : WState) : Tr 0 False s (dropW s) ∧ (dropW s).iendWritten = true := by
  unfold Enc.dropW
  cases h : s.iendWritten with
  | true => simp only [if_true]; exact ⟨(Tr.refl s).weaken (Nat.le_refl _) (fun f => f.elim), h⟩
  | false =>
    simp only [Bool.false_eq_true, if_false]
    obtain ⟨t, f⟩ := Tr.writeIend s h
    exact ⟨t.weaken (Nat.le_refl _) (fun f => f.elim), f⟩

/-- the sink's `flush` changes neither the log nor the `Writer` -/
theorem Tr.sinkFlush (s : WState) : Tr 0 True s { s with sink := (s.sink.flush).1 } :=
  { static := ⟨rfl, rfl, rfl, rfl, rfl, rfl, rfl, rfl⟩, beh := rfl, log := ⟨[], by simp [Sink.flush], by simp⟩
    closed := fun h => ⟨h, rfl⟩, open_ := fun _ _ => (flush_log s.sink).2
    closing := fun h h' => by simp only at h'; rw [h] at h'; cases h'
    rect := fun h => h, fcNone := fun h => h, animLo := Nat.le_refl _, animHi := Nat.le_refl _ }

/-- a call that returned `Ok` and set the IEND flag: the log ends with a completely accepted IEND chunk -/
theorem Tr.closing_complete {n : Nat} {P : Prop} {s s' : WState} (t : Tr n P s s') (hp : P)
    (h0 : s.iendWritten = false) (h1 : s'.iendWritten = true) :
    ∃ pre, s'.sink.log = pre ++ [⟨.chunk iendChunk, 12⟩] := by
  obtain ⟨hatt, pre, k, hlog⟩ := t.closing h0 h1
  obtain ⟨ext, hext, hc⟩ := t.log
  have hne : ext ≠ [] := by
    intro he
    rw [he, List.append_nil] at hext
    have := iendAttempts_log_eq hext
    omega
  obtain ⟨ext0, y, rfl⟩ : ∃ ext0 y, ext = ext0 ++ [y] := by
    rcases List.eq_nil_or_concat ext with h | ⟨l, b, h⟩
    · exact absurd h hne
    · exact ⟨l, b, by rw [h]; simp⟩
  have hy := hc hp y (by simp)
  have : pre ++ [(⟨.chunk iendChunk, k⟩ : Emit)] = (s.sink.log ++ ext0) ++ [y] := by
    rw [← hlog, hext, List.append_assoc]
  have hxy : (⟨.chunk iendChunk, k⟩ : Emit) = y := by
    have := congrArg List.getLast? this
    simpa using this
  subst hxy
  refine ⟨pre, ?_⟩
  rw [hlog]
  have hk : k = 12 := by
    simp only [Emit.complete, beq_iff_eq, Piece.size, iendChunk, List.length_nil] at hy
    omega
  rw [hk]

/-! ## Room in the frame counter -/

/-- room in the `u32` counter `animation_written` for `n` more frame headers — or no frame control at all (no
    animation, or the animation is complete): the counter is then never touched again -/
def Room (w : WState) (n : Nat) : Prop := w.fctl = none ∨ w.animWritten + n < 2 ^ 32

theorem Room.mono {w : WState} {n m : Nat} (h : Room w n) (hm : m ≤ n) : Room w m := by
  rcases h with h | h
  · exact Or.inl h
  · exact Or.inr (by omega)

theorem Room.tr {k n m : Nat} {P : Prop} {w w' : WState} (h : Room w n) (t : Tr k P w w') (hm : k + m ≤ n) :
    Room w' m := by
  rcases h with h | h
  · exact Or.inl (t.fcNone h)
  · exact Or.inr (by have := t.animHi; omega)

theorem Room.bound {w : WState} {n : Nat} (h : Room w n) {f : FC} (hf : w.fctl = some f) : w.animWritten + n < 2 ^ 32 := by
  rcases h with h | h
  · rw [hf] at h; cases h
  · exact h

/-! ## Open writers -/

/-- a `Writer` that is still open -/
structure Live (w : WState) : Prop where
  safe : Safe w
  fits : Fits w
  iend : w.iendWritten = false
  att : w.sink.iendAttempts = 0

theorem Live.tr {n : Nat} {P : Prop} {w w' : WState} (h : Live w) (t : Tr n P w w') (hi : w'.iendWritten = false) :
    Live w' :=
  { safe := ⟨t.rect h.safe.rect, by
      obtain ⟨a1, a2, a3, a4, _⟩ := t.static
      rw [a1, a2, a3, a4]; exact h.safe.valid⟩
    fits := h.fits.static t.static
    iend := hi
    att := (t.open_ h.iend hi).trans h.att }

/-- what the stream writer hands back: an owned `Writer` has been dropped with it (IEND flag set), a borrowed one
    is open and usable -/
def Rel (owned : Bool) (w : WState) : Prop := if owned then w.iendWritten = true else Live w

theorem Rel.owned {w : WState} (h : w.iendWritten = true) : Rel true w := by simp [Rel, h]
theorem Rel.borrowed {w : WState} (h : Live w) : Rel false w := by simp [Rel, h]

/-- the size of the next image, as `next_frame_info` computes it, in a live state: exact, positive -/
theorem Live.frameInfo {w : WState} (h : Live w) (cap : Nat) (buf : Bytes) (curr : Ty) :
    0 < (CW.nextFrameInfo ⟨w, cap, buf, curr⟩).1 ∧
    ∃ fh, 0 < fh ∧ (CW.nextFrameInfo ⟨w, cap, buf, curr⟩).2 = (CW.nextFrameInfo ⟨w, cap, buf, curr⟩).1 * fh := by
  have hpos := h.safe.nextDims_pos
  obtain ⟨v1, v2, _, _⟩ := h.safe.valid
  simp only [CW.nextFrameInfo]
  rcases opt_cases w.fctl with hf | ⟨f, hf⟩
  · simp only [nextDims, hf] at hpos ⊢
    have := h.fits w.width w.height (Nat.le_refl _) (Nat.le_refl _)
    simp only [this, if_true]
    exact ⟨hpos, w.height, v2, rfl⟩
  · simp only [nextDims, hf] at hpos ⊢
    obtain ⟨r1, r2, r3, r4⟩ := h.safe.rect f hf
    have := h.fits f.w f.h (by omega) (by omega)
    simp only [this, if_true]
    exact ⟨hpos, f.h, r2, rfl⟩

/-! ## The chunk writer -/

/-- a chunk writer that holds an open `Writer`; nothing is assumed about its buffer -/
structure CWOk (c : CW) : Prop where
  live : Live c.w
  curr : c.curr ≠ tyIEND

theorem chunkKind_ne_iend (w : WState) : chunkKind w ≠ tyIEND := by
  unfold chunkKind; split <;> decide

theorem CWOk.new {w : WState} (h : Live w) (n : Nat) : CWOk (CW.new w n) ∧ (CW.new w n).w = w ∧ (CW.new w n).buf = [] :=
  ⟨⟨h, chunkKind_ne_iend w⟩, rfl, rfl⟩

/-- `flush_inner` from any state: no panic; `Ok` means the chunk got through and the buffer is empty;
    on an error the buffer stays as it is -/
theorem CWOk.flushInner {c : CW} (h : CWOk c) : ∀ c' r, c.flushInner = (c', r) →
    r.isPanic = false ∧ CWOk c' ∧ Tr 0 (r = .ok) c.w c'.w ∧ c'.cap = c.cap ∧ c'.curr = c.curr ∧
    (r = .ok → c'.buf = []) ∧ c'.w.fctl = c.w.fctl ∧ c'.w.animWritten = c.w.animWritten := by
  intro c' r hf
  unfold CW.flushInner at hf
  by_cases hb : c.buf.length > 0
  · rw [if_pos hb] at hf
    have ht := Tr.emit c.w [⟨c.curr, c.buf⟩] (by
      intro x hx; simp only [List.mem_singleton] at hx; subst hx; exact h.curr) h.live.iend
    have hi := emit_iend c.w [⟨c.curr, c.buf⟩]
    have hfc := emit_fctl c.w [⟨c.curr, c.buf⟩]
    have han := emit_anim c.w [⟨c.curr, c.buf⟩]
    cases he : c.w.emit [⟨c.curr, c.buf⟩] with
    | mk w' ok =>
      rw [he] at hf ht hi hfc han
      simp only at ht hi hfc han
      have hl : Live w' := h.live.tr ht (by rw [hi]; exact h.live.iend)
      cases ok with
      | true =>
        simp only [Prod.mk.injEq] at hf; obtain ⟨rfl, rfl⟩ := hf
        exact ⟨rfl, ⟨hl, h.curr⟩, ht.weaken (Nat.le_refl _) (fun _ => rfl), rfl, rfl, fun _ => rfl, hfc, han⟩
      | false =>
        simp only [Prod.mk.injEq] at hf; obtain ⟨rfl, rfl⟩ := hf
        exact ⟨rfl, ⟨hl, h.curr⟩, ht.weaken (Nat.le_refl _) (fun hh => by cases hh), rfl, rfl, (fun hh => by cases hh), hfc, han⟩
  · rw [if_neg hb] at hf
    simp only [Prod.mk.injEq] at hf; obtain ⟨rfl, rfl⟩ := hf
    exact ⟨rfl, h, (Tr.refl _).weaken (Nat.le_refl _) (fun _ => trivial), rfl, rfl,
      (fun _ => by apply List.eq_nil_of_length_eq_zero; omega), rfl, rfl⟩

/-- the start of a chunk: only the sequence number of the frame control moves -/
theorem CWOk.startChunk {c : CW} (h : CWOk c) :
    CWOk c.startChunk ∧ Tr 0 True c.w c.startChunk.w ∧ c.startChunk.curr = c.curr := by
  unfold CW.startChunk
  by_cases hc : c.buf.length = 0 ∧ c.curr = tyFDAT
  · rw [if_pos hc]
    rcases opt_cases c.w.fctl with hf | ⟨f, hf⟩
    · simp only [hf]; exact ⟨h, Tr.refl _, trivial⟩
    · simp only [hf]
      have t := Tr.setSeq c.w f hf { f with seq := (f.seq + 1) % 2 ^ 32 } ⟨rfl, rfl, rfl, rfl⟩ 0 c.w.animWritten
        ⟨Nat.le_refl _, Nat.le_refl _⟩
      exact ⟨⟨h.live.tr t h.live.iend, h.curr⟩, t, trivial⟩
  · rw [if_neg hc]; exact ⟨h, Tr.refl _, rfl⟩

theorem CWOk.append {c : CW} (h : CWOk c) (data : Bytes) : ∀ c' o, c.append data = (c', o) →
    o.toRes.isPanic = false ∧ CWOk c' ∧ Tr 0 (o.toRes = .ok) c.w c'.w ∧ c'.curr = c.curr := by
  intro c' o hf
  simp only [CW.append] at hf
  split at hf
  · have h1 : CWOk { c with buf := c.buf ++ data.take (min data.length (c.cap - c.buf.length)) } := ⟨h.live, h.curr⟩
    cases hfi : CW.flushInner { c with buf := c.buf ++ data.take (min data.length (c.cap - c.buf.length)) } with
    | mk c1 r =>
      obtain ⟨a1, a2, a3, _, a5, _⟩ := h1.flushInner c1 r hfi
      rw [hfi] at hf
      cases r with
      | ok =>
        simp only [Prod.mk.injEq] at hf; obtain ⟨rfl, rfl⟩ := hf
        exact ⟨rfl, a2, a3.weaken (Nat.le_refl _) (fun _ => rfl), a5⟩
      | err e =>
        simp only [Prod.mk.injEq] at hf; obtain ⟨rfl, rfl⟩ := hf
        exact ⟨rfl, a2, a3.weaken (Nat.le_refl _) (fun hh => by cases hh), a5⟩
      | panic p => cases a1
  · simp only [Prod.mk.injEq] at hf; obtain ⟨rfl, rfl⟩ := hf
    exact ⟨rfl, ⟨h.live, h.curr⟩, (Tr.refl _).weaken (Nat.le_refl _) (fun _ => trivial), rfl⟩

/-- `ChunkWriter::write` from any state (also with a full buffer, where it answers `Ok(0)`) -/
theorem CWOk.write {c : CW} (h : CWOk c) (data : Bytes) : ∀ c' o, c.write data = (c', o) →
    o.toRes.isPanic = false ∧ CWOk c' ∧ Tr 0 (o.toRes = .ok) c.w c'.w ∧ c'.curr = c.curr := by
  intro c' o hf
  unfold CW.write at hf
  by_cases hd : data = []
  · rw [if_pos hd] at hf
    simp only [Prod.mk.injEq] at hf; obtain ⟨rfl, rfl⟩ := hf
    exact ⟨rfl, h, (Tr.refl _).weaken (Nat.le_refl _) (fun _ => trivial), rfl⟩
  · rw [if_neg hd] at hf
    obtain ⟨s1, s2, s3⟩ := h.startChunk
    obtain ⟨a1, a2, a3, a4⟩ := s1.append data c' o hf
    exact ⟨a1, a2, s2.comp a3 (Nat.le_refl _) (fun hh => ⟨trivial, hh⟩), a4.trans s3⟩

/-- `ChunkWriter::write_header` with an empty buffer and room in the `u32` frame counter: no panic -/
theorem CWOk.writeHeader {c : CW} (h : CWOk c) (hb : c.buf = []) (ha : Room c.w 1) :
    ∀ c' r, c.writeHeader = (c', r) →
    r.isPanic = false ∧ CWOk c' ∧ Tr 1 (r = .ok) c.w c'.w ∧ c'.buf = [] := by
  intro c' r hf
  unfold CW.writeHeader at hf
  have hb0 : ¬ c.buf.length ≠ 0 := by simp [hb]
  rw [if_neg hb0] at hf
  rcases opt_cases c.w.fctl with hfc | ⟨f, hfc⟩
  · simp only [hfc, Prod.mk.injEq] at hf; obtain ⟨rfl, rfl⟩ := hf
    exact ⟨rfl, ⟨h.live, chunkKind_ne_iend _⟩, (Tr.refl _).weaken (by omega) (fun _ => trivial), hb⟩
  · have ha := ha.bound hfc
    simp only [hfc] at hf
    split at hf
    · simp only [Prod.mk.injEq] at hf; obtain ⟨rfl, rfl⟩ := hf
      exact ⟨rfl, ⟨h.live, chunkKind_ne_iend _⟩, (Tr.refl _).weaken (by omega) (fun _ => trivial), hb⟩
    · have ht := Tr.emit c.w [mkFctl f] (by
        intro x hx; simp only [List.mem_singleton] at hx; subst hx; show tyFCTL ≠ tyIEND; decide) h.live.iend
      have hi := emit_iend c.w [mkFctl f]
      have hff := emit_fctl c.w [mkFctl f]
      have han := emit_anim c.w [mkFctl f]
      cases he : c.w.emit [mkFctl f] with
      | mk w' ok =>
        rw [he] at hf ht hi hff han
        simp only at hf ht hi hff han
        have hl : Live w' := h.live.tr ht (by rw [hi]; exact h.live.iend)
        cases ok with
        | false =>
          simp only [Prod.mk.injEq] at hf; obtain ⟨rfl, rfl⟩ := hf
          exact ⟨rfl, ⟨hl, chunkKind_ne_iend _⟩, ht.weaken (by omega) (fun hh => by cases hh), hb⟩
        | true =>
          have hov : ¬ (w'.animWritten + 1 ≥ 2 ^ 32) := by omega
          simp only [hov, if_false, Prod.mk.injEq] at hf; obtain ⟨rfl, rfl⟩ := hf
          have t2 := Tr.setSeq w' f (hff.trans hfc) { f with seq := (f.seq + 1) % 2 ^ 32 } ⟨rfl, rfl, rfl, rfl⟩ 1
            (w'.animWritten + 1) ⟨Nat.le_succ _, Nat.le_refl _⟩
          have t := ht.comp t2 (Nat.le_refl _) (fun _ : Res.ok = Res.ok => ⟨rfl, trivial⟩)
          exact ⟨rfl, ⟨h.live.tr t hl.iend, chunkKind_ne_iend _⟩, t, hb⟩

/-- `set_fctl` with a frame control inside the canvas -/
theorem CWOk.setFctl {c : CW} (h : CWOk c) (f : FC) (hr : RectOk c.w f) :
    CWOk (c.setFctl f) ∧ Tr 0 True c.w (c.setFctl f).w ∧ (c.setFctl f).buf = c.buf ∧
    (c.setFctl f).w.animWritten = c.w.animWritten := by
  unfold CW.setFctl
  rcases opt_cases c.w.fctl with hf | ⟨g, hf⟩
  · simp only [hf]; exact ⟨h, Tr.refl _, trivial, trivial⟩
  · simp only [hf]
    have t := Tr.setFc c.w g hf { f with seq := g.seq } (by simpa [RectOk] using hr)
    exact ⟨⟨h.live.tr t h.live.iend, h.curr⟩, t, trivial, trivial⟩

theorem CW.drop_empty (c : CW) (hb : c.buf = []) (owned : Bool) :
    c.drop owned = (if owned then dropW c.w else c.w, .ok) := by
  have : c.flushInner = (c, .ok) := by simp [CW.flushInner, hb]
  simp [CW.drop, this]

/-- dropping a chunk writer (and an owned `Writer` with it): no panic; errors are lost -/
theorem CWOk.drop {c : CW} (h : CWOk c) (owned : Bool) : ∀ w' r, c.drop owned = (w', r) →
    r.isPanic = false ∧ Tr 0 False c.w w' ∧ Rel owned w' := by
  intro w' r hf
  unfold CW.drop at hf
  cases hfi : c.flushInner with
  | mk c1 r1 =>
    obtain ⟨a1, a2, a3, _⟩ := h.flushInner c1 r1 hfi
    rw [hfi] at hf
    have hfin : (if owned then dropW c1.w else c1.w, Res.ok) = (w', r) := by
      cases r1 with
      | panic p => cases a1
      | ok => exact hf
      | err e => exact hf
    simp only [Prod.mk.injEq] at hfin; obtain ⟨rfl, rfl⟩ := hfin
    refine ⟨rfl, ?_, ?_⟩
    · cases owned with
      | true =>
        simp only [if_true]
        exact a3.comp (Tr.dropW c1.w).1 (Nat.le_refl _) (fun f => f.elim)
      | false => simp only [Bool.false_eq_true, if_false]; exact a3.weaken (Nat.le_refl _) (fun f => f.elim)
    · cases owned with
      | true => simp only [if_true]; exact Rel.owned (Tr.dropW c1.w).2
      | false => simp only [Bool.false_eq_true, if_false]; exact Rel.borrowed a2.live

end Png.Enc
