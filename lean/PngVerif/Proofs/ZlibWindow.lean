import PngVerif.Model.ZlibWindow
/-!
# `ZlibStream` window: delivery, look-back, space and size bounds (components of C01 / C06)

* `ZInv`: `hist` is a suffix of what the inflater produced, everything before `read_pos` has been
  delivered, the look-back window is intact.  Preserved by every stage.
* `ZBnd`: `out_pos ≤ out_buffer.len()`, `out_pos ≤ lookback·factor` between calls,
  `out_buffer.len() ≤ 2·(lookback·factor + chunk)` always.
* `ZW.prepare_spec` (`space_invariant`), `ZW.call_spec`, `ZW.run_spec` and the corollaries
  `decompress_delivers`, `hist_bounded`, `window_bounded`.
All constants enter through `ZCfg.Ok`, discharged for the extracted constants by `decide`.
-/
namespace Png

/-- what the arithmetic needs from the constants -/
structure ZCfg.Ok (c : ZCfg) : Prop where
  factor_pos : 1 ≤ c.factor
  chunk_pos : 1 ≤ c.chunk
  small : 2 * (c.thresh + c.chunk) ≤ isizeMax

theorem ZCfg.current_ok : ZCfg.current.Ok := ⟨by decide, by decide, by decide⟩

/-- the inflater's look-back requirement (32 KiB deflate window) is met by the source constant -/
theorem lookback_ok : Params.lookbackSize ≥ 32768 := by decide

theorem ZCfg.lookback_le_thresh (c : ZCfg) (h : c.Ok) : c.lookback ≤ c.thresh := by
  have : c.lookback * 1 ≤ c.lookback * c.factor := Nat.mul_le_mul_left _ h.factor_pos
  simpa [ZCfg.thresh] using this

/-- `hist` is the produced output minus `d` discarded leading bytes; everything before `readPos`
    has been delivered; the look-back window of `lookback` bytes is intact -/
def ZInv (O : Bytes) (c : ZCfg) (z : ZW) : Prop :=
  ∃ d, z.p ≤ O.length ∧ d ≤ z.p ∧ z.hist = (O.take z.p).drop d ∧ z.readPos ≤ z.hist.length ∧
    z.delivered = O.take (d + z.readPos) ∧ min z.p c.lookback ≤ z.hist.length

/-- size relations that hold between calls -/
def ZBnd (c : ZCfg) (z : ZW) : Prop :=
  z.hist.length ≤ z.bufLen ∧ z.hist.length ≤ c.thresh ∧ z.bufLen ≤ 2 * (c.thresh + c.chunk)

theorem zinv_init (O : Bytes) (c : ZCfg) : ZInv O c ZW.init := ⟨0, by simp [ZW.init]⟩
theorem zbnd_init (c : ZCfg) : ZBnd c ZW.init := by simp [ZBnd, ZW.init]

theorem zhist_len {O : Bytes} {z : ZW} {d : Nat} (hp : z.p ≤ O.length)
    (hh : z.hist = (O.take z.p).drop d) : z.hist.length = z.p - d := by
  rw [hh]; simp; omega

/-- in terms of positions: `hist` is exactly the last `hist.length` produced bytes -/
theorem ZInv.hist_suffix {O : Bytes} {c : ZCfg} {z : ZW} (h : ZInv O c z) :
    z.hist = (O.take z.p).drop (z.p - z.hist.length) ∧ min z.p c.lookback ≤ z.hist.length := by
  obtain ⟨d, hp, hd, hh, _, _, hw⟩ := h
  have hl := zhist_len hp hh
  refine ⟨?_, hw⟩
  have : z.p - z.hist.length = d := by omega
  rw [this]; exact hh

/-! ### Stages and the delivery invariant -/

theorem zinv_read (O : Bytes) (c : ZCfg) (z : ZW) (k : Nat) (h : ZInv O c z) :
    ZInv O c (z.read O k) := by
  obtain ⟨d, hp, hd, hh, hr, hdel, hw⟩ := h
  have hl := zhist_len hp hh
  have hn : z.readLen O k ≤ O.length - z.p := by unfold ZW.readLen; omega
  generalize hnn : z.readLen O k = n at hn
  refine ⟨d, ?_, ?_, ?_, ?_, ?_, ?_⟩
  · simp only [ZW.read, hnn]; omega
  · simp only [ZW.read, hnn]; omega
  · simp only [ZW.read, hnn]
    rw [List.take_add, List.drop_append_of_le_length (by simp; omega), hh]
  · simp only [ZW.read, hnn, List.length_append]; omega
  · simpa [ZW.read] using hdel
  · simp only [ZW.read, hnn, List.length_append, List.length_take, List.length_drop]; omega

theorem zinv_transfer (O : Bytes) (c : ZCfg) (z : ZW) (h : ZInv O c z) :
    ZInv O c z.transfer ∧ z.transfer.delivered = O.take z.p := by
  obtain ⟨d, hp, hd, hh, hr, hdel, hw⟩ := h
  have hl := zhist_len hp hh
  have key : z.delivered ++ z.hist.drop z.readPos = O.take z.p := by
    rw [hdel, hh, List.drop_drop]
    have : O.take (d + z.readPos) = (O.take z.p).take (d + z.readPos) := by
      rw [List.take_take]; congr 1; omega
    rw [this, List.take_append_drop]
  refine ⟨⟨d, hp, hd, hh, by simp [ZW.transfer], ?_, by simpa [ZW.transfer] using hw⟩,
    by simpa [ZW.transfer] using key⟩
  simp only [ZW.transfer]
  rw [key, hl]; congr 1; omega

theorem zinv_compact (O : Bytes) (c : ZCfg) (hc : c.Ok) (z : ZW) (h : ZInv O c z)
    (hr : z.readPos = z.hist.length) :
    ZInv O c (z.compact c) ∧ (z.compact c).delivered = z.delivered ∧ (z.compact c).p = z.p ∧
      (z.compact c).readPos = (z.compact c).hist.length := by
  unfold ZW.compact
  split
  · rename_i hbig
    obtain ⟨d, hp, hd, hh, _, hdel, hw⟩ := h
    have hl := zhist_len hp hh
    have hL : c.lookback ≤ z.hist.length := by
      have := c.lookback_le_thresh hc; omega
    refine ⟨⟨d + (z.hist.length - c.lookback), hp, by dsimp only; omega, ?_, ?_, ?_, ?_⟩, rfl, rfl, ?_⟩
    · simp only; rw [hh, List.drop_drop]
    · simp only [List.length_drop]; omega
    · simp only; rw [hdel, hr]; congr 1; omega
    · simp only [List.length_drop]; omega
    · simp only [List.length_drop]
  · exact ⟨h, rfl, rfl, hr⟩

/-! ### `prepare_vec_for_appending`: no panic, enough space, bounded growth -/

/-- **space invariant and growth bound of `prepare_vec_for_appending`.**  From a state satisfying the
    between-call bounds it never trips its `debug_assert!`, touches only `out_buffer.len()` and
    `max_total_output`, never shrinks the buffer, keeps it within `2·(lookback·factor + chunk)`,
    leaves `max_total_output > out_pos` and offers the inflater
    `min(out_pos + chunk, max_total_output) - out_pos ≥ 1` bytes of space. -/
theorem ZW.prepare_spec (c : ZCfg) (hc : c.Ok) (z : ZW) (hb : ZBnd c z) :
    ∃ z1, z.prepare c = some z1 ∧ z1.hist = z.hist ∧ z1.readPos = z.readPos ∧ z1.p = z.p ∧
      z1.delivered = z.delivered ∧ z.bufLen ≤ z1.bufLen ∧ z1.bufLen ≤ 2 * (c.thresh + c.chunk) ∧
      z.hist.length < z1.maxTotal ∧ min (z.hist.length + c.chunk) z1.maxTotal ≤ z1.bufLen := by
  obtain ⟨h1, h2, h3⟩ := hb
  obtain ⟨_, hC, hsm⟩ := hc
  unfold ZW.prepare
  generalize hW : c.thresh = W at *
  generalize hmt : (if z.hist.length ≥ z.maxTotal then usizeMax else z.maxTotal) = mt
  have hmt1 : z.hist.length < mt := by
    rw [← hmt]; split
    · simp only [usizeMax, isizeMax] at *; omega
    · omega
  have hsat : satAdd z.hist.length c.chunk = z.hist.length + c.chunk := by
    simp only [satAdd, usizeMax, isizeMax] at *; omega
  rw [hsat]
  by_cases hd : z.bufLen ≥ min (z.hist.length + c.chunk) mt
  · simp only [hd, if_true]
    exact ⟨_, rfl, rfl, rfl, rfl, rfl, Nat.le_refl _, h3, hmt1, hd⟩
  · simp only [hd, if_false]
    have hds : decodingSize c z.bufLen mt = min (z.bufLen + max c.chunk z.bufLen) mt := by
      simp only [decodingSize, satAdd, usizeMax, isizeMax] at *; omega
    rw [hds]
    by_cases hbuf : min (z.bufLen + max c.chunk z.bufLen) mt < z.bufLen
    · omega
    · simp only [hbuf, if_false]
      refine ⟨_, rfl, rfl, rfl, rfl, rfl, ?_, ?_, hmt1, ?_⟩
      · simp only; omega
      · simp only; omega
      · simp only; omega

/-! ### One call -/

/-- **one `decompress` call / one non-final iteration of the finish loop.**  No panic (other than
    the progress assert of `finishIter`, treated separately); afterwards everything produced so far
    has been delivered, in order, exactly once; the look-back window is intact; the between-call
    bounds hold again. -/
theorem ZW.call_spec (c : ZCfg) (hc : c.Ok) (O : Bytes) (z : ZW) (k : Nat)
    (hi : ZInv O c z) (hb : ZBnd c z) :
    ∃ z', z.call c O k = some z' ∧ ZInv O c z' ∧ ZBnd c z' ∧ z'.delivered = O.take z'.p ∧
      z'.readPos = z'.hist.length ∧ z.p ≤ z'.p ∧ z.bufLen ≤ z'.bufLen := by
  obtain ⟨z1, hprep, e1, e2, e3, e4, hgrow, hmax, _, _⟩ := ZW.prepare_spec c hc z hb
  have hi1 : ZInv O c z1 := by
    obtain ⟨d, hh⟩ := hi
    exact ⟨d, by rw [e1, e2, e3, e4]; exact hh⟩
  have hle1 : z1.hist.length ≤ z1.bufLen := by rw [e1]; have := hb.1; omega
  have hi2 := zinv_read O c z1 k hi1
  have hr2 : (z1.read O k).readPos ≤ (z1.read O k).hist.length := by
    obtain ⟨d, _, _, _, hr, _⟩ := hi2; exact hr
  obtain ⟨hi3, hdel3⟩ := zinv_transfer O c _ hi2
  obtain ⟨hi4, hdel4, hp4, hr4⟩ := zinv_compact O c hc (z1.read O k).transfer hi3 (by simp [ZW.transfer])
  have hlen2 : (z1.read O k).hist.length ≤ z1.bufLen := by
    simp only [ZW.read, ZW.readLen, List.length_append, List.length_take, List.length_drop]
    omega
  refine ⟨((z1.read O k).transfer).compact c, ?_, hi4, ?_, ?_, hr4, ?_, ?_⟩
  · simp only [ZW.call, hprep]
    rw [if_neg (by omega), if_neg (by omega)]
  · -- bounds
    have hbl : (((z1.read O k).transfer).compact c).bufLen = z1.bufLen := by
      unfold ZW.compact; split <;> simp [ZW.transfer, ZW.read]
    have hL := c.lookback_le_thresh hc
    refine ⟨?_, ?_, by rw [hbl]; exact hmax⟩
    · rw [hbl]
      unfold ZW.compact; split
      · simp only [List.length_drop, ZW.transfer]; omega
      · simpa [ZW.transfer] using hlen2
    · unfold ZW.compact; split
      · simp only [List.length_drop, ZW.transfer]; omega
      · rename_i hnb; simpa using hnb
  · rw [hdel4, hdel3, hp4]; rfl
  · rw [hp4]; simp only [ZW.transfer, ZW.read]; rw [← e3]; omega
  · have hbl : (((z1.read O k).transfer).compact c).bufLen = z1.bufLen := by
      unfold ZW.compact; split <;> simp [ZW.transfer, ZW.read]
    rw [hbl]; exact hgrow

/-- `finish_compressed_chunks`' loop body either trips the progress assert or is `call` -/
theorem ZW.finishIter_eq (c : ZCfg) (O : Bytes) (z : ZW) (k : Nat) :
    z.finishIter c O k = none ∨ z.finishIter c O k = z.call c O k := by
  unfold ZW.finishIter ZW.call
  cases z.prepare c with
  | none => exact Or.inl rfl
  | some z1 =>
    simp only []
    split
    · exact Or.inl rfl
    · split
      · exact Or.inl rfl
      · split
        · exact Or.inl rfl
        · exact Or.inr rfl

/-- the progress assert (zlib.rs:141) cannot fail when the inflater produced something -/
theorem ZW.finishIter_progress (c : ZCfg) (hc : c.Ok) (O : Bytes) (z : ZW) (k : Nat)
    (hi : ZInv O c z) (hb : ZBnd c z)
    (hprog : ∀ z1, z.prepare c = some z1 → 0 < z1.readLen O k) :
    z.finishIter c O k = z.call c O k := by
  obtain ⟨z', hcall, _⟩ := ZW.call_spec c hc O z k hi hb
  unfold ZW.finishIter
  unfold ZW.call at hcall
  cases hprep : z.prepare c with
  | none => rw [hprep] at hcall; cases hcall
  | some z1 =>
    rw [hprep] at hcall
    simp only [] at hcall ⊢
    have hn := hprog z1 hprep
    by_cases g1 : z1.bufLen < z1.hist.length
    · simp only [g1, if_true] at hcall; cases hcall
    · simp only [g1, if_false] at hcall ⊢
      by_cases g2 : (z1.read O k).hist.length < (z1.read O k).readPos
      · simp only [g2, if_true] at hcall; cases hcall
      · simp only [g2, if_false] at hcall ⊢
        have g3 : ¬¬ ((z1.read O k).hist.length - (z1.read O k).readPos > 0 ∨ z1.readLen O k > 0) := by
          intro h; exact h (Or.inr hn)
        simp only [g3, if_false]
        unfold ZW.call
        simp only [hprep, g1, g2, if_false]

/-! ### Any sequence of operations -/

theorem ZW.step_spec (c : ZCfg) (hc : c.Ok) (O : Bytes) (z z' : ZW) (op : ZOp)
    (hi : ZInv O c z) (hb : ZBnd c z) (hd : z.delivered = O.take z.p ∧ z.readPos = z.hist.length)
    (hs : z.step c O op = some z') :
    ZInv O c z' ∧ ZBnd c z' ∧ (z'.delivered = O.take z'.p ∧ z'.readPos = z'.hist.length) ∧
      z.p ≤ z'.p := by
  cases op with
  | decompress k =>
    obtain ⟨z2, hcall, a, b, d1, d2, e, _⟩ := ZW.call_spec c hc O z k hi hb
    simp only [ZW.step, ZW.decompress, hcall, Option.some.injEq] at hs
    subst hs; exact ⟨a, b, ⟨d1, d2⟩, e⟩
  | finishIter k =>
    obtain ⟨z2, hcall, a, b, d1, d2, e, _⟩ := ZW.call_spec c hc O z k hi hb
    simp only [ZW.step] at hs
    rcases ZW.finishIter_eq c O z k with h | h
    · rw [h] at hs; cases hs
    · rw [h, hcall, Option.some.injEq] at hs
      subst hs; exact ⟨a, b, ⟨d1, d2⟩, e⟩
  | setMaxTotal n =>
    simp only [ZW.step, Option.some.injEq] at hs
    subst hs
    exact ⟨hi, hb, hd, Nat.le_refl _⟩

/-- **every reachable state** (any sequence of `decompress` calls and finish-loop iterations with
    arbitrary production sizes, and `set_max_total_output` with arbitrary arguments): everything
    produced has been delivered, in order, exactly once; `out_buffer[..out_pos]` is exactly the last
    `out_pos` produced bytes and holds at least `min(produced, lookback)` of them; the size bounds
    hold. -/
theorem ZW.run_spec (c : ZCfg) (hc : c.Ok) (O : Bytes) : ∀ (ops : List ZOp) (z z' : ZW),
    ZInv O c z → ZBnd c z → (z.delivered = O.take z.p ∧ z.readPos = z.hist.length) →
    ZW.run c O ops z = some z' →
    ZInv O c z' ∧ ZBnd c z' ∧ z'.delivered = O.take z'.p ∧ z.p ≤ z'.p := by
  intro ops
  induction ops with
  | nil =>
    intro z z' hi hb hd hr
    simp only [ZW.run, Option.some.injEq] at hr
    subst hr; exact ⟨hi, hb, hd.1, Nat.le_refl _⟩
  | cons op ops ih =>
    intro z z' hi hb hd hr
    simp only [ZW.run] at hr
    cases hs : z.step c O op with
    | none => rw [hs] at hr; cases hr
    | some z1 =>
      rw [hs] at hr
      obtain ⟨a, b, d, e⟩ := ZW.step_spec c hc O z z1 op hi hb hd hs
      obtain ⟨a', b', d', e'⟩ := ih z1 z' a b d hr
      exact ⟨a', b', d', by omega⟩

/-- `decompress` never panics from a reachable state -/
theorem ZW.decompress_some (c : ZCfg) (hc : c.Ok) (O : Bytes) (z : ZW) (k : Nat)
    (hi : ZInv O c z) (hb : ZBnd c z) : ∃ z', z.decompress c O k = some z' := by
  obtain ⟨z', h, _⟩ := ZW.call_spec c hc O z k hi hb
  exact ⟨z', h⟩

/-- `decompress` never panics in a state reachable from `new()`/`reset()` -/
theorem decompress_no_panic (c : ZCfg) (hc : c.Ok) (O : Bytes) (ops : List ZOp) (z : ZW) (k : Nat)
    (hr : ZW.run c O ops ZW.init = some z) : ∃ z', z.decompress c O k = some z' := by
  obtain ⟨hi, hb, _, _⟩ := ZW.run_spec c hc O ops ZW.init z (zinv_init O c) (zbnd_init c)
    (by simp [ZW.init]) hr
  exact ZW.decompress_some c hc O z k hi hb

/-- C01 component: after any operation sequence from `new()`/`reset()`, delivered = produced
    prefix of the inflater's output, and the look-back window is intact -/
theorem decompress_delivers (c : ZCfg) (hc : c.Ok) (O : Bytes) (ops : List ZOp) (z : ZW)
    (hr : ZW.run c O ops ZW.init = some z) :
    z.delivered = O.take z.p ∧ z.p ≤ O.length ∧
    z.hist = (O.take z.p).drop (z.p - z.hist.length) ∧ min z.p c.lookback ≤ z.hist.length := by
  obtain ⟨hi, _, hd, _⟩ := ZW.run_spec c hc O ops ZW.init z (zinv_init O c) (zbnd_init c)
    (by simp [ZW.init]) hr
  obtain ⟨h1, h2⟩ := hi.hist_suffix
  obtain ⟨d, hp, _⟩ := hi
  exact ⟨hd, hp, h1, h2⟩

/-- C06 component: between calls the live part of the buffer is at most `lookback·factor` -/
theorem hist_bounded (c : ZCfg) (hc : c.Ok) (O : Bytes) (ops : List ZOp) (z : ZW)
    (hr : ZW.run c O ops ZW.init = some z) : z.outPos ≤ c.lookback * c.factor := by
  obtain ⟨_, hb, _, _⟩ := ZW.run_spec c hc O ops ZW.init z (zinv_init O c) (zbnd_init c)
    (by simp [ZW.init]) hr
  exact hb.2.1

/-- C06 component: `out_buffer.len() ≤ 2·(lookback·factor + chunk)` in every reachable state,
    whatever `max_total_output` was set to (it only ever makes the buffer smaller) -/
theorem window_bounded (c : ZCfg) (hc : c.Ok) (O : Bytes) (ops : List ZOp) (z : ZW)
    (hr : ZW.run c O ops ZW.init = some z) : z.bufLen ≤ 2 * (c.lookback * c.factor + c.chunk) := by
  obtain ⟨_, hb, _, _⟩ := ZW.run_spec c hc O ops ZW.init z (zinv_init O c) (zbnd_init c)
    (by simp [ZW.init]) hr
  exact hb.2.2

/-- the bound also holds for the buffer as resized inside the next call -/
theorem window_bounded_prepared (c : ZCfg) (hc : c.Ok) (O : Bytes) (ops : List ZOp) (z : ZW)
    (hr : ZW.run c O ops ZW.init = some z) :
    ∃ z1, z.prepare c = some z1 ∧ z1.bufLen ≤ 2 * (c.lookback * c.factor + c.chunk) := by
  obtain ⟨_, hb, _, _⟩ := ZW.run_spec c hc O ops ZW.init z (zinv_init O c) (zbnd_init c)
    (by simp [ZW.init]) hr
  obtain ⟨z1, h, _, _, _, _, _, hmax, _⟩ := ZW.prepare_spec c hc z hb
  exact ⟨z1, h, hmax⟩

/-- C01 component: in every reachable state `prepare_vec_for_appending` succeeds and offers the
    inflater at least one byte — precisely `min(out_pos + chunk, max_total_output) - out_pos` bytes
    with `max_total_output > out_pos`, hence a full chunk when `max_total_output` does not bind -/
theorem space_invariant (c : ZCfg) (hc : c.Ok) (O : Bytes) (ops : List ZOp) (z : ZW)
    (hr : ZW.run c O ops ZW.init = some z) :
    ∃ z1, z.prepare c = some z1 ∧ z1.outPos = z.outPos ∧ z1.outPos < z1.bufLen ∧
      min (z1.outPos + c.chunk) z1.maxTotal ≤ z1.bufLen ∧
      (z1.outPos + c.chunk ≤ z1.maxTotal → z1.outPos + c.chunk ≤ z1.bufLen) := by
  obtain ⟨_, hb, _, _⟩ := ZW.run_spec c hc O ops ZW.init z (zinv_init O c) (zbnd_init c)
    (by simp [ZW.init]) hr
  obtain ⟨z1, h, e1, _, _, _, _, _, hmt, hsp⟩ := ZW.prepare_spec c hc z hb
  have hC := hc.chunk_pos
  refine ⟨z1, h, by simp [ZW.outPos, e1], ?_, ?_, ?_⟩ <;> simp only [ZW.outPos, e1] <;> omega

/-- the last iteration of the finish loop plus epilogue delivers everything produced and releases
    the buffer -/
theorem finishLast_delivers (c : ZCfg) (hc : c.Ok) (O : Bytes) (z : ZW) (k : Nat)
    (hi : ZInv O c z) (hb : ZBnd c z) :
    ∃ z', z.finishLast c O k = some z' ∧ z'.delivered = O.take z'.p ∧ z.p ≤ z'.p ∧ z'.bufLen = 0 := by
  obtain ⟨z1, hprep, e1, e2, e3, e4, _, _, _, _⟩ := ZW.prepare_spec c hc z hb
  have hi1 : ZInv O c z1 := by
    obtain ⟨d, hh⟩ := hi
    exact ⟨d, by rw [e1, e2, e3, e4]; exact hh⟩
  have hle1 : z1.hist.length ≤ z1.bufLen := by rw [e1]; have := hb.1; omega
  have hi2 := zinv_read O c z1 k hi1
  have hr2 : (z1.read O k).readPos ≤ (z1.read O k).hist.length := by
    obtain ⟨d, _, _, _, hr, _⟩ := hi2; exact hr
  obtain ⟨_, hdel3⟩ := zinv_transfer O c _ hi2
  refine ⟨{ (z1.read O k).transfer with bufLen := 0 }, ?_, ?_, ?_, rfl⟩
  · simp only [ZW.finishLast, hprep]
    rw [if_neg (by omega), if_neg (by omega)]
  · simpa [ZW.transfer] using hdel3
  · simp only [ZW.transfer, ZW.read]; rw [← e3]; omega

end Png
