import PngVerif.Proofs.ReaderPathsZ3
/-!
# Decoding paths, part 12: whole runs — the reference decoding and the assembling executor (C13)

* `refFrames`: the reference — every remaining frame decoded by one `next_frame` call into a fresh
  buffer.
* `Asm`, `asmStep`, `asmRun`: the executor of the harness (`harness/src/props/reader_props.rs`,
  `assemble`): any interleaving of `next_frame`, `next_row` / `next_interlaced_row`, `read_row` and
  `next_frame_info`; rows delivered by row-level calls are placed into the caller's frame buffer
  (`placeRow`: copy, or the public Adam7 helper), a `next_frame` in the middle of a frame receives the
  buffer as assembled so far, completed frames are recorded with their index.
* `Closed` / `Open`: where a reader stands relative to the reference; `J`: the invariant of a run.
-/
namespace Png.Reader
open Png Png.Framing

/-! ## the reference -/

/-- `n` more `next_frame` calls, each into a fresh buffer `fresh`: the frames, or `none` if a call fails -/
def refFrames (cfg : Cfg) (t : TCfg) (fresh : Bytes) : Nat → R → Option (List Bytes)
  | 0, _ => some []
  | n + 1, r =>
    match nextFrameBuf cfg t r fresh with
    | (r', .frame _ B, _) => (refFrames cfg t fresh n r').map (B :: ·)
    | _ => none

theorem refFrames_succ {cfg : Cfg} {t : TCfg} {fresh : Bytes} {n : Nat} {r : R} {l : List Bytes}
    (h : refFrames cfg t fresh (n + 1) r = some l) :
    ∃ r' oi B B' rest, nextFrameBuf cfg t r fresh = (r', .frame oi B, B') ∧ refFrames cfg t fresh n r' = some rest ∧
      l = B :: rest := by
  rw [refFrames] at h
  cases hx : nextFrameBuf cfg t r fresh with
  | mk r' y =>
    obtain ⟨res, B'⟩ := y
    rw [hx] at h
    cases res with
    | frame oi B =>
      simp only at h
      cases hr : refFrames cfg t fresh n r' with
      | none => rw [hr] at h; cases h
      | some rest => rw [hr] at h; simp only [Option.map, Option.some.injEq] at h; exact ⟨r', oi, B, B', rest, rfl, hr, h.symm⟩
    | _ => cases h

/-- the reference does not depend on the scratch length / the cached transformation -/
theorem refFrames_sim (cfg : Cfg) {t : TCfg} (ht : t.Ok) {b : Prop} (hb : b → t.SnapIndep) (fresh : Bytes) :
    ∀ (n : Nat) (r r' : R), PSim b r r' → Inv t r → Inv t r' → refFrames cfg t fresh n r' = refFrames cfg t fresh n r := by
  intro n
  induction n with
  | zero => intro r r' _ _ _; rfl
  | succ n ih =>
    intro r r' h hI hI'
    rw [refFrames, refFrames]
    have hs := nextFrameBuf_sim cfg ht hb fresh h hI hI'
    have h1 := nextFrameBuf_spec cfg ht r fresh hI
    have h2 := nextFrameBuf_spec cfg ht r' fresh hI'
    cases hx : nextFrameBuf cfg t r fresh with
    | mk a y =>
      cases hx' : nextFrameBuf cfg t r' fresh with
      | mk a' y' =>
        rw [hx] at hs h1
        rw [hx'] at hs h2
        obtain ⟨k1, k2⟩ := hs
        simp only at k1 k2
        subst k2
        obtain ⟨res, B'⟩ := y'
        cases res with
        | frame oi B => simp only; rw [ih a a' k1 h1.1 h2.1]
        | _ => rfl

/-! ## what `next_frame` leaves -/

theorem readUntilImageData_ub {cfg : Cfg} {t : TCfg} {r s : R} (h : readUntilImageData cfg t r = (s, .ok ())) :
    s.ub = UB.new := by
  unfold readUntilImageData at h
  cases hx : rdReadUntilImageData cfg (fuelOf r) r with
  | mk r' res =>
    rw [hx] at h
    cases res with
    | error e => cases h
    | ok u =>
      simp only at h
      cases hi : infoOf r' with
      | none => rw [hi] at h; cases h
      | some i =>
        rw [hi] at h; simp only [reserveBytes] at h
        by_cases hl : r'.dec.limit ≥ outLineSize t i r'.flags (Sub.new i).width
        · rw [if_pos hl] at h; simp only at h
          cases hb : bppFromUsize (bytesPerPixel i.color i.depth) with
          | none => rw [hb] at h; cases h
          | some bpp =>
            rw [hb] at h; simp only [Prod.mk.injEq] at h; obtain ⟨rfl, _⟩ := h; rfl
        · rw [if_neg hl] at h; cases h

/-- the reader `next_frame` leaves: the frame is consumed, no row is current, one frame less remains -/
theorem frameInto_leaves (cfg : Cfg) {t : TCfg} (ht : t.Ok) {r rE : R} {buf B : Bytes} {oi : OutputInfo}
    (hI : Inv t r) (hcaf : r.sub.caf = false) (hW : frameInto cfg t r buf = (rE, .frame oi B, B)) :
    Inv t rE ∧ rE.sub.caf = true ∧ rE.sub.cur = none ∧ rE.remaining + 1 = r.remaining := by
  obtain ⟨i, hi, _⟩ := hI.info
  have hsp := frameInto_spec cfg ht r buf hI
  rw [hW] at hsp
  obtain ⟨r2, _, hf, _, _, hI2, _, hcur2, _⟩ := frameInto_ok_body cfg ht hI hi hW
  have hfd := finishDecoding_spec cfg r2 hI2 hcur2
  rw [hf] at hfd
  refine ⟨hsp.1, by rw [hfd.2.2.1], by rw [hfd.2.2.1]; exact hcur2, ?_⟩
  obtain ⟨x, hx⟩ := frameInto_skip cfg ht hI hi hW
  have hsk := finishDecoding_spec cfg (clearCur r) hI.clearCur rfl
  cases hs : skipRest cfg r with
  | mk rs res =>
    rw [hs] at hx
    simp only [mapFst_mk, Prod.mk.injEq] at hx
    obtain ⟨rfl, rfl⟩ := hx
    have hs' : finishDecoding cfg (clearCur r) = (rs, .ok ()) := hs
    rw [hs'] at hsk
    exact hsk.2.2.2.2.2 hcaf

/-! ## where a reader stands relative to the reference -/

section
variable (cfg : Cfg) (t : TCfg) (fresh : Bytes) (ref : List Bytes)

/-- the current frame is consumed; the remaining frames are the reference from index `k` on -/
def Closed (r : R) (k : Nat) : Prop :=
  r.sub.caf = true ∧ r.sub.cur = none ∧ refFrames cfg t fresh r.remaining r = some (ref.drop k)

/-- inside frame `k`: completing it by `next_frame` on the buffer `canvas` gives the reference frame `k`
    and leaves a reader from which the reference continues -/
def Open (r : R) (canvas : Bytes) (k : Nat) : Prop :=
  r.sub.caf = false ∧ Line0Fresh r ∧
    ∃ rE oi B, frameInto cfg t r canvas = (rE, .frame oi B, B) ∧ ref[k]? = some B ∧ Closed cfg t fresh ref rE (k + 1)
end

theorem Closed.sim {cfg : Cfg} {t : TCfg} (ht : t.Ok) {b : Prop} (hb : b → t.SnapIndep) {fresh : Bytes} {ref : List Bytes}
    {r r' : R} {k : Nat} (h : PSim b r r') (hI : Inv t r) (hI' : Inv t r') (hc : Closed cfg t fresh ref r k) :
    Closed cfg t fresh ref r' k := by
  obtain ⟨c1, c2, c3⟩ := hc
  refine ⟨by rw [h.sub]; exact c1, by rw [h.sub]; exact c2, ?_⟩
  rw [h.remaining, refFrames_sim cfg ht hb fresh _ r r' h hI hI']
  exact c3

theorem Open.sim {cfg : Cfg} {t : TCfg} (ht : t.Ok) {b : Prop} (hb : b → t.SnapIndep) {fresh : Bytes} {ref : List Bytes}
    {r r' : R} {canvas : Bytes} {k : Nat} (h : PSim b r r') (hI : Inv t r) (hI' : Inv t r')
    (ho : Open cfg t fresh ref r canvas k) : Open cfg t fresh ref r' canvas k := by
  obtain ⟨o1, o2, rE, oi, B, hW, hB, hC⟩ := ho
  have hcaf' : r'.sub.caf = false := by rw [h.sub]; exact o1
  refine ⟨hcaf', ?_, ?_⟩
  · intro h0; rw [h.ub]; exact o2 (by rw [← h.sub]; exact h0)
  · have hfs := frameInto_sim cfg ht hb canvas h hI hI'
    rw [hW] at hfs
    cases hy : frameInto cfg t r' canvas with
    | mk rE' y =>
      rw [hy] at hfs
      obtain ⟨n1, n2⟩ := hfs
      simp only at n1 n2
      subst n2
      exact ⟨rE', oi, B, rfl, hB, hC.sim ht hb n1 (frameInto_leaves cfg ht hI o1 hW).1
        (frameInto_leaves cfg ht hI' hcaf' hy).1⟩

/-- from a consumed frame with frames remaining, `read_until_image_data` reaches the next frame of the
    reference -/
theorem Closed.next {cfg : Cfg} {t : TCfg} (ht : t.Ok) {fresh : Bytes} {ref : List Bytes} {r : R} {k : Nat}
    (hI : Inv t r) (hc : Closed cfg t fresh ref r k) (hrem : r.remaining ≠ 0) :
    ∃ s, readUntilImageData cfg t r = (s, .ok ()) ∧ Inv t s ∧ Open cfg t fresh ref s fresh k ∧
      ∃ i fc, s.dec.info = some i ∧ i.fctl = some fc := by
  obtain ⟨c1, c2, c3⟩ := hc
  obtain ⟨n, hn⟩ : ∃ n, r.remaining = n + 1 := ⟨r.remaining - 1, by omega⟩
  rw [hn] at c3
  obtain ⟨r', oi, B, B', rest, hx, hr, hl⟩ := refFrames_succ c3
  have hadv := advanceFrame_spec cfg r hI c1 hrem
  rw [nextFrameBuf_none cfg t r _ c2] at hx
  unfold nextFrameBuf0 at hx
  rw [if_neg hrem, c1] at hx
  simp only [if_true] at hx
  cases hy : readUntilImageData cfg t r with
  | mk s res =>
    rw [hy] at hx hadv
    cases res with
    | error e =>
      simp only [Prod.mk.injEq] at hx
      obtain ⟨_, rfl, _⟩ := hx
      exact absurd hadv.1 (by simp [Res.isErr])
    | ok u =>
      simp only at hx
      obtain ⟨hIs, _, hrs, hcafs, i, hi, hfc⟩ := hadv
      obtain ⟨_, _, _, _, hB', _⟩ := frameInto_ok_body cfg ht hIs hi hx
      rw [hB'] at hx
      obtain ⟨l1, l2, l3, l4⟩ := frameInto_leaves cfg ht hIs hcafs hx
      cases hf : i.fctl with
      | none => rw [hf] at hfc; cases hfc
      | some fc =>
        refine ⟨s, rfl, hIs, ⟨hcafs, fun _ => ?_, r', oi, B, hx, ?_, l2, l3, ?_⟩, i, fc, hi, hf⟩
        · rw [readUntilImageData_ub hy]; exact prevRow_new
        · have := congrArg (fun l => l[0]?) hl
          simp only [List.getElem?_drop, Nat.add_zero, List.getElem?_cons_zero] at this
          exact this
        · have hr' : r'.remaining = n := by omega
          rw [hr', hr]
          have := congrArg (fun l => l.drop 1) hl
          simp only [List.drop_drop, List.drop_succ_cons, List.drop_zero] at this
          rw [← this, Nat.add_comm]

/-- the start of a run: inside a frame, the reference being the whole-frame decoding from here -/
theorem Open.start {cfg : Cfg} {t : TCfg} (ht : t.Ok) {fresh : Bytes} {ref : List Bytes} {r : R}
    (hI : Inv t r) (hcaf : r.sub.caf = false) (hF : Line0Fresh r)
    (href : refFrames cfg t fresh r.remaining r = some ref) : Open cfg t fresh ref r fresh 0 := by
  obtain ⟨i, hi, _⟩ := hI.info
  have hrem := (hI.live hcaf).1
  obtain ⟨n, hn⟩ : ∃ n, r.remaining = n + 1 := ⟨r.remaining - 1, by omega⟩
  rw [hn] at href
  obtain ⟨r', oi, B, B', rest, hx, hr, hl⟩ := refFrames_succ href
  rw [nextFrameBuf_open cfg fresh hI hcaf] at hx
  obtain ⟨_, _, _, _, hB', _⟩ := frameInto_ok_body cfg ht hI hi hx
  rw [hB'] at hx
  obtain ⟨l1, l2, l3, l4⟩ := frameInto_leaves cfg ht hI hcaf hx
  refine ⟨hcaf, hF, r', oi, B, hx, by rw [hl]; rfl, l2, l3, ?_⟩
  have hr' : r'.remaining = n := by omega
  rw [hr', hr, hl]
  rfl

end Png.Reader
