import PngVerif.Proofs.AnyPathBufFrames
/-!
# The frames of a well-formed file as a property of the reader `read_info` returns (`WholeFrames`)

`WholeFrames cfg t need r ds`: from the reader `r`, whole-frame calls (`next_frame`) into ANY buffers of at least `need`
bytes return, one after the other, frames with the descriptors `ds` (the `OutputInfo`, the frame's header, the frame's
inflated stream): each call leaves `specFrame` of the frame's own data computed on the caller's buffer; behind the last
frame no frame remains and no row is pending.

* `between_wholeFrames`: the frames after the first (`Between`);
* `still_first`, `apng_first`, `apng_default_first`: the three well-formed layouts from `read_info` on;
* consumers: `WholeFrames.refFrames` (the reference of C13 for an arbitrary fresh buffer), `WholeFrames.run_end` (the
  reader in which `Reader.run` on `Op.nextFrame` calls ends).
-/
namespace Png.Reader
open Png Png.Framing Png.WellFormed

/-- a reader on which `next_frame` can be called as the operation of the model: it is a `Reader`, no buffer of an earlier
    attempt is pending, and the documented buffer size is `need` -/
def CallOk (t : TCfg) (need : Nat) (r : R) : Prop :=
  r.isReader = true ∧ r.pendingBuf = none ∧ ∃ i, r.dec.info = some i ∧ needOf t r i = need

/-- the frames still to come from `r`, by whole-frame calls into any buffers of at least `need` bytes -/
def WholeFrames (cfg : Cfg) (t : TCfg) (need : Nat) : R → List (OutputInfo × Header × Bytes) → Prop
  | r, [] => CallOk t need r ∧ r.remaining = 0 ∧ r.sub.cur = none
  | r, d :: rest => CallOk t need r ∧ ∀ buf : Bytes, need ≤ buf.length →
      ∃ r' B, nextFrameBuf cfg t r buf = (r', .frame d.1 B, B) ∧ specFrame d.2.1 d.2.2 buf = some B ∧
        B.length = buf.length ∧ WholeFrames cfg t need r' rest

theorem WholeFrames.callOk {cfg : Cfg} {t : TCfg} {need : Nat} {r : R} {ds : List (OutputInfo × Header × Bytes)}
    (h : WholeFrames cfg t need r ds) : CallOk t need r := by
  cases ds with
  | nil => exact h.1
  | cons d rest => exact h.1

/-- the descriptor of a frame after the first -/
def descOf (h : Header) (fr : FrameControl × List Bytes × Bytes) : OutputInfo × Header × Bytes :=
  ({ width := fr.1.width, height := fr.1.height, color := h.color, depth := h.depth, lineSize := (h.frame fr.1).lineSize },
    h.frame fr.1, fr.2.2)

theorem between_callOk {cfg : Cfg} {t : TCfg} {f : Flags} (ht : t.IsIdentity f) {h : Header} (hv : h.Valid) {r : R} {i : Info}
    {s : Nat} {frames : List (FrameControl × List Bytes × Bytes)} (hB : Between cfg f h r i s frames) :
    CallOk t h.bufferSize r := by
  obtain ⟨hw1, hw2, hh1, hh2, hleg⟩ := hv
  have hd := (legal_pos hleg).2.2
  have hcore' := hB.core
  simp only [Info.core, Header.info, Prod.mk.injEq] at hcore'
  obtain ⟨c1, c2, c3, c4, c5⟩ := hcore'
  refine ⟨hB.isReader, hB.pendingBuf, i, hB.flushed.info, ?_⟩
  unfold needOf
  rw [hB.flags, outLineSize_id ht, c1, c2, c3, c4, ← rowBytes_eq h hd]; rfl

/-- **the frames after the first** -/
theorem between_wholeFrames (cfg : Cfg) (hI : cfg.InflateOk) (hC : cfg.CrcOk) {t : TCfg} {f : Flags} (ht : t.IsIdentity f)
    (h : Header) (hv : h.Valid) :
    ∀ (frames : List (FrameControl × List Bytes × Bytes)) (r : R) (i : Info) (s : Nat),
      (∀ fr ∈ frames, FrameOk cfg h fr) → s + (frames.map fun x => 1 + x.2.1.length).sum < 2 ^ 32 →
      Between cfg f h r i s frames → WholeFrames cfg t h.bufferSize r (frames.map (descOf h)) := by
  intro frames
  induction frames with
  | nil =>
    intro r i s _ _ hB
    exact ⟨between_callOk ht hv hB, hB.remaining, hB.cur⟩
  | cons fr rest ih =>
    intro r i s hok hseq hB
    obtain ⟨fc, zs, raw⟩ := fr
    refine ⟨between_callOk ht hv hB, fun buf hbuf => ?_⟩
    obtain ⟨r', i', B, hstep, hspec, hlen, hB'⟩ := between_step cfg hI hC ht h hv fc zs raw rest r i s (hok _ (by simp)) hseq hB buf
      hbuf
    exact ⟨r', B, hstep, hspec, hlen, ih r' i' _ (fun fr hfr => hok fr (by simp [hfr])) (seq_bound_rest s fc zs raw rest hseq) hB'⟩

/-! ## consumers -/

/-- **the reference of C13 for an arbitrary fresh buffer**: every remaining frame is `specFrame` of its own data
    computed on `fresh` -/
theorem WholeFrames.refFrames {cfg : Cfg} {t : TCfg} {need : Nat} (fresh : Bytes) (hfresh : need ≤ fresh.length) :
    ∀ (ds : List (OutputInfo × Header × Bytes)) (r : R), WholeFrames cfg t need r ds →
      ∃ bs, Reader.refFrames cfg t fresh ds.length r = some bs ∧ bs.length = ds.length ∧
        ∀ (k : Nat) (px : Bytes), bs[k]? = some px → ∃ d, ds[k]? = some d ∧ specFrame d.2.1 d.2.2 fresh = some px := by
  intro ds
  induction ds with
  | nil => intro r _; exact ⟨[], rfl, rfl, fun k px hk => by simp at hk⟩
  | cons d rest ih =>
    intro r hw
    obtain ⟨r', B, hstep, hspec, _, hw'⟩ := hw.2 fresh hfresh
    obtain ⟨bs, hbs, hl, hall⟩ := ih r' hw'
    refine ⟨B :: bs, ?_, by simp [hl], ?_⟩
    · simp only [List.length_cons]
      rw [Reader.refFrames, hstep]
      simp only
      rw [hbs]; rfl
    · intro k px hk
      cases k with
      | zero =>
        simp only [List.getElem?_cons_zero, Option.some.injEq] at hk
        subst hk
        exact ⟨d, rfl, hspec⟩
      | succ k =>
        simp only [List.getElem?_cons_succ] at hk ⊢
        exact hall k px hk

/-- `next_frame` as the operation of the model (`Op.nextFrame p`: a buffer of the documented size pre-filled with `p`)
    on such a reader -/
theorem WholeFrames.step {cfg : Cfg} {t : TCfg} {need : Nat} {r : R} {d : OutputInfo × Header × Bytes}
    {rest : List (OutputInfo × Header × Bytes)} (hw : WholeFrames cfg t need r (d :: rest)) (p : UInt8) :
    ∃ r' B, Reader.step cfg t r (.nextFrame p) = (r', .frame d.1 B) ∧ specFrame d.2.1 d.2.2 (List.replicate need p) = some B ∧
      B.length = need ∧ WholeFrames cfg t need r' rest := by
  obtain ⟨hrd, hpb, i, hi, hneed⟩ := hw.1
  obtain ⟨r', B, hstep, hspec, hl, hw'⟩ := hw.2 (List.replicate need p) (by simp)
  refine ⟨r', B, ?_, hspec, by simpa using hl, hw'⟩
  rw [(step_is_path_op cfg t r i p hrd hpb hi).2.2.2, hneed, hstep]
  rfl

/-- **the reader in which the run of the `next_frame` calls ends**: one call per remaining frame, each into a buffer
    pre-filled with its own byte — afterwards no frame remains and no row is pending -/
theorem WholeFrames.run_end {cfg : Cfg} {t : TCfg} {need : Nat} :
    ∀ (ds : List (OutputInfo × Header × Bytes)) (ps : List UInt8) (r : R), ps.length = ds.length →
      WholeFrames cfg t need r ds →
      WholeFrames cfg t need (Reader.run cfg t r (ps.map Op.nextFrame)).1 [] := by
  intro ds
  induction ds with
  | nil =>
    intro ps r hps hw
    have : ps = [] := List.eq_nil_of_length_eq_zero hps
    subst this
    exact hw
  | cons d rest ih =>
    intro ps r hps hw
    cases ps with
    | nil => simp at hps
    | cons p ps =>
      obtain ⟨r', B, hstep, _, _, hw'⟩ := hw.step p
      simp only [List.map_cons]
      rw [prun_cons, hstep]
      exact ih ps r' (by simpa using hps) hw'

/-- the call behind the last frame is refused -/
theorem WholeFrames.polled {cfg : Cfg} {t : TCfg} {need : Nat} {r : R} (hw : WholeFrames cfg t need r []) (q : UInt8) :
    Reader.step cfg t r (.nextFrame q) = ({ r with pendingBuf := none }, .err .parameter "PolledAfterEndOfImage") := by
  obtain ⟨⟨hrd, _, i, hi, _⟩, hrem, hcur⟩ := hw
  rw [(step_reader cfg t r hrd).1 q]
  exact nextFrameOp_polled cfg t r q i hi hrem hcur

end Png.Reader
