import PngVerif.Proofs.ReaderPathsFrame
/-!
# Decoding paths, part 6: any number of row-level calls, then `next_frame` (C13)

`RowCalls`: a sequence of successful row-level calls — `next_row` / `next_interlaced_row` (library-owned
row) or `read_row` (caller-owned buffer of any sufficient size) — each delivered row being placed into
the caller's frame buffer (`placeRow`).  `path_agreement`: `next_frame` afterwards returns the frame
that `next_frame` returns at once.
-/
namespace Png.Reader
open Png Png.Framing

/-- what a successful row-level call keeps -/
theorem nextRow_keeps (cfg : Cfg) {t : TCfg} (ht : t.Ok) {r r1 : R} {i : Info} {ii : IInfo} {data : Bytes}
    (hI : Inv t r) (hi : r.dec.info = some i) (hx : nextInterlacedRow cfg t r = (r1, .row ii data)) :
    Inv t r1 ∧ Keep r r1 ∧ Line0Fresh r1 ∧ r.sub.cur = some ii ∧ r1.sub.width = r.sub.width ∧
      r1.sub.height = r.sub.height ∧ data.length = outLineSize t i r.flags (widthOf r.sub ii) := by
  have hsp := nextInterlacedRow_spec cfg ht r i hI hi
  rw [hx] at hsp
  obtain ⟨a1, a2, _, a4⟩ := hsp
  simp only [RowRes] at a4
  obtain ⟨hcur, hdl, hsub⟩ := a4
  obtain ⟨d1, d2, _, _⟩ := advance_dims r.sub
  exact ⟨a1, a2, fresh_of_advance hI a1 hi (a2.info.trans hi) hcur hsub, hcur, by rw [hsub]; exact d1,
    by rw [hsub]; exact d2, hdl⟩

/-- successful row-level calls, each row placed into the caller's frame buffer -/
inductive RowCalls (cfg : Cfg) (t : TCfg) (stride bits : Nat) : R → Bytes → R → Bytes → Prop
  | done (r : R) (buf : Bytes) : RowCalls cfg t stride bits r buf r buf
  /-- `next_row` / `next_interlaced_row` -/
  | nextRow {r r1 r2 : R} {buf buf1 buf2 : Bytes} {ii : IInfo} {data : Bytes}
      (hx : nextInterlacedRow cfg t r = (r1, .row ii data)) (hp : placeRow stride bits buf ii data = some buf1)
      (hrest : RowCalls cfg t stride bits r1 buf1 r2 buf2) : RowCalls cfg t stride bits r buf r2 buf2
  /-- `read_row` into a caller buffer of `n ≥ output_line_size(width)` bytes -/
  | readRow {r r1 r2 : R} {buf buf1 buf2 : Bytes} {ii : IInfo} {data : Bytes} (n : Nat) (hn : stride ≤ n)
      (hx : readRow cfg t r n = (r1, .row ii data)) (hp : placeRow stride bits buf ii data = some buf1)
      (hrest : RowCalls cfg t stride bits r1 buf1 r2 buf2) : RowCalls cfg t stride bits r buf r2 buf2

/-- **path agreement inside a frame**: after any number of row-level calls (rows placed into the
    buffer), `next_frame` returns the same frame as `next_frame` called at once on the original
    buffer — it continues with exactly the rows not yet delivered — and leaves the same reader (up
    to the scratch length) -/
theorem path_agreement (cfg : Cfg) {t : TCfg} (ht : t.Ok) {i : Info} {stride bits : Nat} {r rk : R} {buf bufk : Bytes}
    (hc : RowCalls cfg t stride bits r buf rk bufk) :
    ∀ {rE : R} {oi : OutputInfo} {B : Bytes}, Inv t r → Line0Fresh r → r.dec.info = some i →
    stride = outLineSize t i r.flags r.sub.width → bits = outBits t i r.flags →
    frameInto cfg t r buf = (rE, .frame oi B, B) →
    ∃ rEk, frameInto cfg t rk bufk = (rEk, .frame oi B, B) ∧ PSim False rE rEk ∧ Inv t rk ∧ Line0Fresh rk ∧ Keep r rk := by
  induction hc with
  | done r buf => intro rE oi B hI hF _ _ _ hW; exact ⟨rE, hW, PSim.refl _ _, hI, hF, Keep.refl _⟩
  | @nextRow r r1 r2 buf buf1 buf2 ii data hx hp _ ih =>
    intro rE oi B hI hF hi hst hbits hW
    obtain ⟨b1, b2, b3, b4, b5, b6, _⟩ := nextRow_keeps cfg ht hI hi hx
    obtain ⟨data', r1', buf1', hx', hp', rE1, hW1, hs1⟩ := frameInto_row cfg ht hI hF hi b4 hW
    rw [hx] at hx'
    simp only [Prod.mk.injEq, Res.row.injEq] at hx'
    obtain ⟨rfl, _, rfl⟩ := hx'
    rw [← hst, ← hbits, hp] at hp'
    cases hp'
    obtain ⟨rEk, k1, k2, k3, k4, k5⟩ := ih b1 b3 (b2.info.trans hi) (by rw [b2.flags, b5]; exact hst)
      (by rw [b2.flags]; exact hbits) hW1
    exact ⟨rEk, k1, hs1.trans k2, k3, k4, b2.trans k5⟩
  | @readRow r r1 r2 buf buf1 buf2 ii data n hn hx hp _ ih =>
    intro rE oi B hI hF hi hst hbits hW
    obtain ⟨j, hj, hg⟩ := hI.info
    rw [hi] at hj; cases hj
    have hsr := readRow_eq_nextRow cfg ht n hI hi (by rw [← hst]; exact hn)
    rw [hx] at hsr
    cases hxn : nextInterlacedRow cfg t r with
    | mk r1n res =>
      rw [hxn] at hsr
      obtain ⟨m1, m2⟩ := hsr
      simp only at m1 m2
      subst m2
      obtain ⟨b1, b2, b3, b4, b5, b6, _⟩ := nextRow_keeps cfg ht hI hi hxn
      obtain ⟨data', r1', buf1', hx', hp', rE1, hW1, hs1⟩ := frameInto_row cfg ht hI hF hi b4 hW
      rw [hxn] at hx'
      simp only [Prod.mk.injEq, Res.row.injEq] at hx'
      obtain ⟨rfl, _, rfl⟩ := hx'
      rw [← hst, ← hbits, hp] at hp'
      cases hp'
      -- transfer from the reader `next_row` leaves to the one `read_row` leaves
      have hsp := readRow_spec cfg ht r n i hI hi (by rw [← hst]; exact hn)
      rw [hx] at hsp
      have hI1 : Inv t r1 := hsp.1
      have hfs := frameInto_sim cfg ht (b := False) False.elim buf1 m1 b1 hI1
      rw [hW1] at hfs
      cases hy : frameInto cfg t r1 buf1 with
      | mk rE1' y =>
        rw [hy] at hfs
        obtain ⟨n1, n2⟩ := hfs
        simp only at n1 n2
        subst n2
        have hK1 : Keep r r1 := hsp.2.1
        have hF1 : Line0Fresh r1 := by
          intro h0
          rw [m1.ub]
          exact b3 (by rw [← m1.sub]; exact h0)
        obtain ⟨rEk, k1, k2, k3, k4, k5⟩ := ih hI1 hF1 (hK1.info.trans hi)
          (by rw [hK1.flags, m1.sub, b5]; exact hst) (by rw [hK1.flags]; exact hbits) hy
        exact ⟨rEk, k1, (hs1.trans n1).trans k2, k3, k4, hK1.trans k5⟩

/-- `next_frame` on a frame that has not been consumed yet is `frameInto` -/
theorem nextFrameBuf_open (cfg : Cfg) {t : TCfg} {r : R} (buf : Bytes) (hI : Inv t r) (hcaf : r.sub.caf = false) :
    nextFrameBuf cfg t r buf = frameInto cfg t r buf := by
  exact nextFrameBuf_inside cfg t r buf (by have := (hI.live hcaf).1; omega) hcaf

end Png.Reader
