import PngVerif.Proofs.KernelBytes
import PngVerif.Props.KernelsEnums
import PngVerif.Props.KernelsCommon
/-!
# Tactic and lemmas shared by the parser kernel theorems (`Props/KernelsParsers.lean`, `Props/KernelsParsersApng.lean`)

* the byte -> enum decoders the parsers call (`Unit::from_u8`, ...) on a byte of the chunk body, from the theorems of
  `Props/KernelsEnums.lean` (i.e. from what these functions compute, not from the shape of their translation);
* `parser_tie (f) [lemmas]`: proves `model parser = f (translated parser ..)` once both are unfolded.
-/
namespace Png.Kernels
open Png Png.Framing

theorem unit_isSome (b : UInt8) : (Gen.Unit_from_u8 (b.toNat : Int)).isSome = !decide (1 < b.toNat) := by
  rw [(kernel_unit_from_u8 b.toNat b.toNat_lt).1]; split <;> simp <;> omega
theorem unit_getD (b : UInt8) (h : ¬ 1 < b.toNat) : (Gen.Unit_from_u8 (b.toNat : Int)).getD 0 = (b.toNat : Int) := by
  rw [(kernel_unit_from_u8 b.toNat b.toNat_lt).1]; split <;> simp <;> omega
theorem dispose_isSome (b : UInt8) : (Gen.DisposeOp_from_u8 (b.toNat : Int)).isSome = !decide (2 < b.toNat) := by
  rw [(kernel_dispose_from_u8 b.toNat b.toNat_lt).1]; split <;> simp <;> omega
theorem dispose_getD (b : UInt8) (h : ¬ 2 < b.toNat) : (Gen.DisposeOp_from_u8 (b.toNat : Int)).getD 0 = (b.toNat : Int) := by
  rw [(kernel_dispose_from_u8 b.toNat b.toNat_lt).1]; split <;> simp <;> omega
theorem blend_isSome (b : UInt8) : (Gen.BlendOp_from_u8 (b.toNat : Int)).isSome = !decide (1 < b.toNat) := by
  rw [(kernel_blend_from_u8 b.toNat b.toNat_lt).1]; split <;> simp <;> omega
theorem blend_getD (b : UInt8) (h : ¬ 1 < b.toNat) : (Gen.BlendOp_from_u8 (b.toNat : Int)).getD 0 = (b.toNat : Int) := by
  rw [(kernel_blend_from_u8 b.toNat b.toNat_lt).1]; split <;> simp <;> omega
theorem srgb_isSome (b : UInt8) : (Gen.SrgbRenderingIntent_from_raw (b.toNat : Int)).isSome = !decide (3 < b.toNat) := by
  rw [(kernel_srgb_from_raw b.toNat b.toNat_lt).1]; split <;> simp <;> omega
theorem srgb_getD (b : UInt8) (h : ¬ 3 < b.toNat) : (Gen.SrgbRenderingIntent_from_raw (b.toNat : Int)).getD 0 = (b.toNat : Int) := by
  rw [(kernel_srgb_from_raw b.toNat b.toNat_lt).1]; split <;> simp <;> omega
theorem depth_isSome (b : UInt8) : (Gen.BitDepth_from_u8 (b.toNat : Int)).isSome = depthOk b.toNat := by
  rw [(kernel_depth_from_u8 b.toNat b.toNat_lt).1]; split <;> simp_all
theorem depth_getD (b : UInt8) (h : depthOk b.toNat = true) : (Gen.BitDepth_from_u8 (b.toNat : Int)).getD 0 = (b.toNat : Int) := by
  rw [(kernel_depth_from_u8 b.toNat b.toNat_lt).1]; simp [h]
theorem color_isSome (b : UInt8) : (Gen.ColorType_from_u8 (b.toNat : Int)).isSome = colorOk b.toNat := by
  rw [(kernel_color_from_u8 b.toNat b.toNat_lt).1]; split <;> simp_all
theorem color_getD (b : UInt8) (h : colorOk b.toNat = true) : (Gen.ColorType_from_u8 (b.toNat : Int)).getD 0 = (b.toNat : Int) := by
  rw [(kernel_color_from_u8 b.toNat b.toNat_lt).1]; simp [h]

/-! the `_ok` functions of the decoders on a byte of the chunk body (`from_u8` cannot panic), again from the theorems of
    `Props/KernelsEnums.lean` and not from the translated text (which is the constant `true` for a `match`, and need not be for another way of
    writing the decoder) -/
theorem unit_ok (b : UInt8) : Gen.Unit_from_u8_ok (b.toNat : Int) = true := (kernel_unit_from_u8 b.toNat b.toNat_lt).2
theorem dispose_ok (b : UInt8) : Gen.DisposeOp_from_u8_ok (b.toNat : Int) = true := (kernel_dispose_from_u8 b.toNat b.toNat_lt).2
theorem blend_ok (b : UInt8) : Gen.BlendOp_from_u8_ok (b.toNat : Int) = true := (kernel_blend_from_u8 b.toNat b.toNat_lt).2
theorem srgb_ok (b : UInt8) : Gen.SrgbRenderingIntent_from_raw_ok (b.toNat : Int) = true := (kernel_srgb_from_raw b.toNat b.toNat_lt).2.1
theorem depth_ok (b : UInt8) : Gen.BitDepth_from_u8_ok (b.toNat : Int) = true := (kernel_depth_from_u8 b.toNat b.toNat_lt).2.2
theorem color_ok (b : UInt8) : Gen.ColorType_from_u8_ok (b.toNat : Int) = true := (kernel_color_from_u8 b.toNat b.toNat_lt).2.2
/-- `is_combination_invalid` cannot panic on two values that passed `from_u8` (second half of `kernel_combination_invalid`) -/
theorem combination_ok (c b : UInt8) (hc : colorOk c.toNat = true) (hd : depthOk b.toNat = true) :
    Gen.ColorType_is_combination_invalid_ok (c.toNat : Int) (b.toNat : Int) = true := (kernel_combination_invalid _ _ hc hd).2

/-- `parser_tie (f) [lemmas of the first step] [lemmas of the evaluation, among them the definition of f]` proves `model parser = f (translated parser ..)` after both have been unfolded:
    * the join points of the model's `do` block (`if c then throw e` followed by more steps) are resolved WITHOUT duplicating the rest of
      the parser (`simp -zeta` with `throw_bind` first: each join point is then used once);
    * one `simp` brings the translated parser into the vocabulary of the model (lengths and big-endian values of `Dec.raw`, the byte ->
      enum decoders as comparisons) and pushes the interpretation `f` of the result into its branches;
    * the `if`s of the translated parser are then taken one by one (`eq_ite_of`; the `split` tactic simplifies the whole goal at every
      step, which is too slow here), and after each step ONLY the model side is simplified under the conditions met so far (the
      model's readers are conditional rewrite rules, so nothing is rewritten under the binders of later steps): the model's parser is
      evaluated along the path, each step once;
    * what remains at the end of a path (casts, linear arithmetic, residual `if`s of the model) is closed with `norm_cast` / `simp` /
      `omega` / `split`.
    It does not depend on the shape of the generated term beyond "a tree of `if`s". -/
syntax "parser_tie" "(" term ")" "[" Lean.Parser.Tactic.simpLemma,* "]" "[" Lean.Parser.Tactic.simpLemma,* "]" : tactic
macro_rules
  | `(tactic| parser_tie ($f) [$ps,*] [$ls,*]) =>
    `(tactic| (try simp -zeta only [throw_bind]
               simp [-Nat.not_le, bInt_length, beU8_bInt, beU16_bInt, beU32_bInt, apply_ite $f, unit_isSome, dispose_isSome, blend_isSome,
                 srgb_isSome, depth_isSome, color_isSome, $ps,*]
               repeat' (with_reducible refine eq_ite_of (fun h__ => ?_) (fun h__ => ?_) <;>
                 (try (simp [*, -Nat.not_le, unit_getD, dispose_getD, blend_getD, srgb_getD, depth_getD, color_getD, $ps,*] at h__)) <;>
                 try (conv => lhs; simp [*, -Nat.not_le, rdU8_of_le, rdU8_of_not_le, rdU16_of_le, rdU16_of_not_le, rdU32_of_le,
                   rdU32_of_not_le, withInfo, unit_getD, dispose_getD, blend_getD, srgb_getD, depth_getD, color_getD, $ls,*]))
               all_goals try norm_cast at *
               all_goals try (simp [*, -Nat.not_le, unit_getD, dispose_getD, blend_getD, srgb_getD, depth_getD, color_getD, $ls,*])
               all_goals try omega
               all_goals try ((repeat' split) <;> first | rfl | omega | (exfalso; omega))))

/-- `parser_ok [lemmas]`: the `_ok` function of a translated parser (no overflow, no index out of range, no `unwrap` of `None`) is `true`:
    the same vocabulary as `parser_tie`, every `if` split, arithmetic by `omega` -/
syntax "parser_ok" "[" Lean.Parser.Tactic.simpLemma,* "]" : tactic
macro_rules
  | `(tactic| parser_ok [$ls,*]) =>
    `(tactic| (simp only [bInt_length, beU8_bInt, beU16_bInt, beU32_bInt, unit_isSome, dispose_isSome, blend_isSome,
                 srgb_isSome, depth_isSome, color_isSome, unit_ok, dispose_ok, blend_ok, srgb_ok, depth_ok, color_ok,
                 Gen.ScaledFloat_from_scaled_ok]
               repeat' (first
                 | (with_reducible rfl)
                 | (with_reducible refine ite_eq_true_of (fun h__ => ?_) (fun h__ => ?_))
                 | (with_reducible refine and_eq_true_of ?_ ?_))
               all_goals try (simp_all [-Nat.not_le, unit_getD, dispose_getD, blend_getD, srgb_getD, depth_getD, color_getD, combination_ok, $ls,*])
               all_goals try omega))

theorem be16_mul2_ok (a b : UInt8) : (0 ≤ ((be16 a b : Nat) : Int) * 2 ∧ ((be16 a b : Nat) : Int) * 2 ≤ 4294967295) := by
  have := be16_lt a b; omega

/-- `checked_raw_row_length` does not overflow on a header width (from `kernel_checked_raw_row_length`) -/
theorem checked_ok_be32 (c b : Nat) (x y z w : UInt8) (hc : colorOk c = true) (hd : depthOk b = true) :
    Gen.ColorType_checked_raw_row_length_ok c b (be32 x y z w) = true :=
  (kernel_checked_raw_row_length c b _ hc hd (be32_lt x y z w)).2

end Png.Kernels
