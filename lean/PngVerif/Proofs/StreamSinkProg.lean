import PngVerif.Proofs.StreamSinkSession
import PngVerif.Proofs.StreamSinkCpl
/-!
# The stream writer under EVERY sink behaviour, part 6: programs over both APIs (`runProg`)

`runProg_ok`: `write_header`, any steps (operations of the whole-image API, borrowed stream-writer sessions — complete
or abandoned, ended by `finish()` or dropped), then `Writer::finish`, the `Writer`'s drop, or an owned stream-writer
session: under ANY sink no call panics, exactly one IEND emission is attempted and it is the last entry of the sink's
log, and `Ok` from the final `finish` means that IEND was accepted completely.

The only quantitative hypothesis is room in the `u32` counter `animation_written`: `c.fctl = none` (no animation: the
counter is never touched) or `progCost steps fin < 2^32`, where every whole-image operation and every stream-writer
session costs 1 and every byte handed to a stream writer's `write_all` costs 1 (a `write` call starts at most one
frame, and takes at least one byte).
-/
namespace Png.Enc
open Png Png.Val

/-! ## Cost of a program: a bound on the number of frame headers it can emit -/

def Step.cost : Step → Nat
  | .op _ => 1
  | .stream _ ops _ => 1 + sopsCost ops

def stepsCost : List Step → Nat
  | [] => 0
  | s :: r => s.cost + stepsCost r

def PFinal.cost : PFinal → Nat
  | .intoStream _ ops _ => 1 + sopsCost ops
  | _ => 0

/-- number of whole-image operations + number of stream-writer sessions + number of bytes written through
    stream writers -/
def progCost (steps : List Step) (fin : PFinal) : Nat := stepsCost steps + fin.cost

/-- the caller does not write IEND chunks himself (through `write_chunk` / `write_text_chunk`) -/
def Step.noIend : Step → Prop
  | .op o => o.noIend
  | _ => True

instance (s : Step) : Decidable s.noIend := by cases s <;> simp only [Step.noIend] <;> infer_instance

/-- the step is not a stream-writer session that is ended by dropping the stream writer (a drop cannot report) -/
def Step.endsWithFinish : Step → Prop
  | .stream _ _ .drop => False
  | _ => True

instance (s : Step) : Decidable s.endsWithFinish := by
  cases s with
  | op o => exact isTrue trivial
  | stream n ops f => cases f <;> simp only [Step.endsWithFinish] <;> infer_instance

/-- every call returned `Ok` -/
def allOk (rss : List (List Res)) : Prop := ∀ rs ∈ rss, ∀ r ∈ rs, r = .ok

instance (rss : List (List Res)) : Decidable (allOk rss) := by unfold allOk; infer_instance

theorem Step.noIend_of_inRange {s : Step} (h : s.inRange) : s.noIend := by
  cases s with
  | op o => exact Op.noIend_of_inRange h
  | stream _ _ _ => trivial

/-! ## `write_header` under any sink -/

theorem dropW_last (x : WState) (h : x.iendWritten = false) :
    ∃ pre k, (dropW x).sink.log = pre ++ [⟨.chunk iendChunk, k⟩] :=
  ((Tr.dropW x).1.closing h (Tr.dropW x).2).2

/-- the shape of `write_header`'s result: success leaves a state that differs from the initial one by the
    header chunks; any failure drops such a state (one IEND attempt, the last entry of the log) -/
theorem writeHeader_shape (c : Cfg) (beh : SinkBehaviour) (hn : c.NoIend) :
    ∃ x : WState, x.iendWritten = false ∧ x.sink.iendAttempts = 0 ∧ (StaticEq (initState c beh) x ∧ x.fctl = c.fctl) ∧
      ((writeHeader c beh = (x, .ok) ∧ ∀ e ∈ x.sink.log, e.complete = true) ∨
       ((writeHeader c beh).1 = dropW x ∧ (writeHeader c beh).2 ≠ .ok ∧ (writeHeader c beh).2.isPanic = false)) := by
  unfold writeHeader
  by_cases hw0 : c.width = 0
  · rw [if_pos hw0]
    exact ⟨initState c beh, rfl, rfl, ⟨StaticEq.refl _, rfl⟩, Or.inr ⟨rfl, by simp, rfl⟩⟩
  rw [if_neg hw0]
  by_cases hh0 : c.height = 0
  · rw [if_pos hh0]
    exact ⟨initState c beh, rfl, rfl, ⟨StaticEq.refl _, rfl⟩, Or.inr ⟨rfl, by simp, rfl⟩⟩
  rw [if_neg hh0]
  cases hci : combinationInvalid c.color c.depth with
  | true =>
    rw [if_pos rfl]
    exact ⟨initState c beh, rfl, rfl, ⟨StaticEq.refl _, rfl⟩, Or.inr ⟨rfl, by simp, rfl⟩⟩
  | false =>
    rw [if_neg (by simp)]
    obtain ⟨n, g1, g1c, _, _⟩ := (initState c beh).sink.emit_log .sig
    cases he : (initState c beh).sink.emit .sig with
    | mk k ok =>
      rw [he] at g1 g1c; simp only at g1 g1c
      have hk0 : k.iendAttempts = 0 := by
        rw [iendAttempts_of_log g1]; simp [initState_attempts]
      cases ok with
      | false =>
        simp only
        exact ⟨{ initState c beh with sink := k }, rfl, hk0, ⟨⟨rfl, rfl, rfl, rfl, rfl, rfl, rfl, rfl⟩, rfl⟩, Or.inr ⟨rfl, by simp, rfl⟩⟩
      | true =>
        simp only
        have hev := Evolves.emit { initState c beh with sink := k } (headerChunks c) (headerChunks_no_iend c hn)
        have hcp := Cpl.emit { initState c beh with sink := k } (headerChunks c)
        cases hem : ({ initState c beh with sink := k } : WState).emit (headerChunks c) with
        | mk s' ok2 =>
          rw [hem] at hev hcp; simp only at hev hcp
          have hatt : s'.sink.iendAttempts = 0 := by rw [hev.grows.iendAttempts]; exact hk0
          have hie : s'.iendWritten = false := hev.iend
          have hfc' := emit_fctl { initState c beh with sink := k } (headerChunks c)
          rw [hem] at hfc'
          have hst : StaticEq (initState c beh) s' ∧ s'.fctl = c.fctl := ⟨hev.static, hfc'⟩
          cases ok2 with
          | false => simp only; exact ⟨s', hie, hatt, hst, Or.inr ⟨rfl, by simp, rfl⟩⟩
          | true =>
            simp only
            cases htp : (textPrefix c.texts).2 with
            | false => rw [if_neg (by simp)]; exact ⟨s', hie, hatt, hst, Or.inr ⟨rfl, by simp, rfl⟩⟩
            | true =>
              rw [if_pos rfl]
              refine ⟨s', hie, hatt, hst, Or.inl ⟨rfl, ?_⟩⟩
              obtain ⟨ext, l1, l2⟩ := hcp
              have l1' : s'.sink.log = k.log ++ ext := l1
              rw [l1', g1]
              intro e he
              simp only [List.mem_append, List.mem_singleton] at he
              rcases he with (he | he) | he
              · simp [initState] at he
              · subst he; simp [Emit.complete, g1c rfl]
              · exact l2 rfl e he

theorem WellFormed.noIend {c : Cfg} (hw : c.WellFormed) : c.NoIend := by
  intro r hr
  have := hw.2.2.2 r hr
  intro hi; rw [hi] at this; revert this; decide

/-- after a successful `write_header`, under any sink, the `Writer` is open and has written no frame yet -/
theorem header_live (c : Cfg) (beh : SinkBehaviour) (hr : c.inRange) (hacc : c.Accepted) (hn : c.NoIend) (hsm : c.Small)
    {s : WState} (h : writeHeader c beh = (s, .ok)) : Live s ∧ s.animWritten = 0 ∧ s.fctl = c.fctl := by
  obtain ⟨_, h2, _⟩ := header_spec c beh hr hacc hn
  rw [h] at h2
  obtain ⟨hs, hi, ha, han⟩ := h2 rfl
  obtain ⟨x, _, _, hst, hx⟩ := writeHeader_shape c beh hn
  have hxs : x = s := by
    rcases hx with ⟨hx, _⟩ | ⟨_, hx, _⟩
    · rw [h] at hx; simp only [Prod.mk.injEq, and_true] at hx; exact hx.symm
    · rw [h] at hx; exact absurd rfl hx
  subst hxs
  refine ⟨⟨hs, Fits.ofSmall hs.valid.2.2.2 ?_, hi, ha⟩, han, hst.2⟩
  rw [hst.1.1, hst.1.2.1]; exact hsm

/-! ## Steps -/

/-- an operation of the whole-image API on an open `Writer`, any sink -/
theorem Live.step (E : Codec) {w : WState} (h : Live w) (op : Op) (hno : op.noIend) (hb : Room w 1) :
    (writerStep E w op).2.isPanic = false ∧ Live (writerStep E w op).1 ∧
    Tr 1 ((writerStep E w op).2 = .ok) w (writerStep E w op).1 := by
  have hev := Evolves.step E w op hno
  have t := (hev.toTr h.iend (writerStep_count' E w op).2).withCpl (writerStep_cpl E w op)
  exact ⟨step_no_panic E h.safe (fun _ hf => hb.bound hf) op, h.tr t (by rw [hev.iend]; exact h.iend), t⟩

/-- all steps of a program under any sink: no panic, the `Writer` stays open -/
theorem runSteps_ok (E : Codec) (Z : ZCodec) (steps : List Step) : ∀ {w : WState}, Live w → (∀ s ∈ steps, s.noIend) →
    Room w (stepsCost steps) → ∀ w' rss, Enc.runSteps E Z w steps = (w', rss) →
    rss.any anyPanic = false ∧ Live w' ∧
    Tr (stepsCost steps) ((∀ s ∈ steps, s.endsWithFinish) ∧ allOk rss) w w' := by
  induction steps with
  | nil =>
    intro w h _ _ w' rss hf
    simp only [Enc.runSteps, Prod.mk.injEq] at hf; obtain ⟨rfl, rfl⟩ := hf
    exact ⟨rfl, h, Tr.refl' _⟩
  | cons st rest ih =>
    intro w h hno hb w' rss hf
    have hno' : ∀ s ∈ rest, s.noIend := fun s hs => hno s (by simp [hs])
    cases st with
    | op o =>
      simp only [stepsCost, Step.cost] at hb ⊢
      obtain ⟨a1, a2, a3⟩ := h.step E o (hno (.op o) (by simp)) (hb.mono (by omega))
      simp only [Enc.runSteps] at hf
      cases hs : writerStep E w o with
      | mk w1 r1 =>
        rw [hs] at hf a1 a2 a3
        simp only at a1 a2 a3
        have hrest : (let (s'', rs) := Enc.runSteps E Z w1 rest; (s'', [r1] :: rs)) = (w', rss) →
            rss.any anyPanic = false ∧ Live w' ∧
            Tr (1 + stepsCost rest) ((∀ s ∈ Step.op o :: rest, s.endsWithFinish) ∧ allOk rss) w w' := by
          intro hf
          cases hr : Enc.runSteps E Z w1 rest with
          | mk w2 rss2 =>
            obtain ⟨b1, b2, b3⟩ := ih a2 hno' (hb.tr a3 (Nat.le_refl _)) w2 rss2 hr
            rw [hr] at hf
            simp only [Prod.mk.injEq] at hf; obtain ⟨rfl, rfl⟩ := hf
            refine ⟨?_, b2, a3.comp b3 (Nat.le_refl _) (fun hh => ⟨hh.2 [r1] (by simp) r1 (by simp),
              fun s hs => hh.1 s (by simp [hs]), fun rs hrs => hh.2 rs (by simp [hrs])⟩)⟩
            simp only [List.any_cons, b1, Bool.or_false, anyPanic, List.any_nil, a1]
        cases r1 with
        | panic p => cases a1
        | ok => exact hrest hf
        | err e => exact hrest hf
    | stream size ops fin =>
      simp only [stepsCost, Step.cost] at hb ⊢
      simp only [Enc.runSteps] at hf
      cases hs : streamSession Z w false size ops fin with
      | mk w1 rs1 =>
        obtain ⟨a1, a2, a3, _⟩ := streamSession_ok Z h false size ops fin (hb.mono (by omega)) w1 rs1 hs
        rw [hs] at hf
        simp only [a1, Bool.false_eq_true, if_false] at hf
        have hl1 : Live w1 := by simpa [Rel] using a2
        cases hr : Enc.runSteps E Z w1 rest with
        | mk w2 rss2 =>
          obtain ⟨b1, b2, b3⟩ := ih hl1 hno' (hb.tr a3 (Nat.le_refl _)) w2 rss2 hr
          rw [hr] at hf
          simp only [Prod.mk.injEq] at hf; obtain ⟨rfl, rfl⟩ := hf
          refine ⟨?_, b2, a3.comp b3 (Nat.le_refl _) (fun hh => ⟨⟨?_, hh.2 rs1 (by simp)⟩,
              fun s hs => hh.1 s (by simp [hs]), fun rs hrs => hh.2 rs (by simp [hrs])⟩)⟩
          · simp only [List.any_cons, b1, Bool.or_false, a1]
          · have := hh.1 (.stream size ops fin) (by simp)
            cases fin with
            | finish => rfl
            | drop => exact this.elim

/-! ## The end of a program -/

/-- `Writer::finish` on an open `Writer`, any sink: no panic; the flag is set by one IEND attempt; `Ok` only if the
    IEND chunk got through completely -/
theorem finishW_tr (s : WState) (h0 : s.iendWritten = false) :
    (finishW s).2.isPanic = false ∧ (finishW s).1.iendWritten = true ∧ Tr 0 ((finishW s).2 = .ok) s (finishW s).1 := by
  unfold Enc.finishW
  cases hv : validateSequenceDone s with
  | some e =>
    simp only
    exact ⟨rfl, (Tr.dropW s).2, (Tr.dropW s).1.weaken (Nat.le_refl _) (fun hh => by cases hh)⟩
  | none =>
    simp only
    obtain ⟨t1, f1⟩ := Tr.writeIend s h0
    cases hwi : Enc.writeIend s with
    | mk w1 ok1 =>
      rw [hwi] at t1 f1
      simp only at t1 f1
      cases ok1 with
      | false =>
        simp only
        rw [dropW_of_iend f1]
        exact ⟨rfl, f1, t1.weaken (Nat.le_refl _) (fun hh => by cases hh)⟩
      | true =>
        simp only
        have t2 := t1.comp (Tr.sinkFlush w1) (Nat.le_refl _) (fun _ : True => ⟨rfl, trivial⟩)
        have hd2 : dropW { w1 with sink := (w1.sink.flush).1 } = { w1 with sink := (w1.sink.flush).1 } :=
          dropW_of_iend f1
        cases hfl : w1.sink.flush with
        | mk k okf =>
          rw [hfl] at hd2 t2
          simp only at hd2 t2
          cases okf with
          | false => simp only; rw [hd2]; exact ⟨rfl, f1, t2.weaken (Nat.le_refl _) (fun _ => trivial)⟩
          | true => simp only; rw [hd2]; exact ⟨rfl, f1, t2.weaken (Nat.le_refl _) (fun _ => trivial)⟩

/-- what holds of every run: no panic, the `Writer` is closed, one IEND attempt, which is the last entry of the log;
    `Ok` from the final `finish` means that IEND was accepted completely -/
structure ProgOk (steps : List Step) (fin : PFinal) (R : ProgRun) : Prop where
  header : R.header.isPanic = false
  results : R.results.any anyPanic = false
  final : anyPanic R.final = false
  iend : R.state.iendWritten = true
  att : R.state.sink.iendAttempts = 1
  last : ∃ pre k, R.state.sink.log = pre ++ [⟨.chunk iendChunk, k⟩]
  complete : fin.isFinish = true → R.final.getLast? = some .ok →
    ∃ pre, R.state.sink.log = pre ++ [⟨.chunk iendChunk, 12⟩]
  /-- no call returned an error (and no stream writer was merely dropped) ⇒ the sink accepted every byte -/
  allComplete : (∀ s ∈ steps, s.endsWithFinish) → fin.isFinish = true → R.header = .ok → allOk R.results →
    (∀ r ∈ R.final, r = .ok) → ∀ e ∈ R.state.sink.log, e.complete = true

theorem all_complete_of_tr {n : Nat} {P : Prop} {s s' : WState} (t : Tr n P s s') (hp : P)
    (h0 : ∀ e ∈ s.sink.log, e.complete = true) : ∀ e ∈ s'.sink.log, e.complete = true := by
  obtain ⟨ext, l1, l2⟩ := t.log
  rw [l1]
  intro e he
  simp only [List.mem_append] at he
  rcases he with he | he
  · exact h0 e he
  · exact l2 hp e he

/-- from an open `Writer` without IEND attempt to a closed one -/
theorem closed_of_tr {n : Nat} {P : Prop} {s s' : WState} (t : Tr n P s s') (h0 : s.iendWritten = false)
    (ha : s.sink.iendAttempts = 0) (h1 : s'.iendWritten = true) :
    s'.sink.iendAttempts = 1 ∧ ∃ pre k, s'.sink.log = pre ++ [⟨.chunk iendChunk, k⟩] := by
  obtain ⟨x1, x2⟩ := t.closing h0 h1
  exact ⟨by rw [x1, ha], x2⟩

/-- **programs over both APIs under any sink** -/
theorem runProg_ok (E : Codec) (Z : ZCodec) (c : Cfg) (beh : SinkBehaviour) (steps : List Step) (fin : PFinal)
    (hr : c.inRange) (hacc : c.Accepted) (hn : c.NoIend) (hsm : c.Small) (hno : ∀ s ∈ steps, s.noIend)
    (hb : c.fctl = none ∨ progCost steps fin < 2 ^ 32) :
    ProgOk steps fin (runProg E Z c beh steps fin) := by
  obtain ⟨x, hx1, hx2, _, hx⟩ := writeHeader_shape c beh hn
  unfold runProg
  cases hwh : writeHeader c beh with
  | mk s0 r0 =>
    rw [hwh] at hx
    rcases hx with hx | ⟨e1, e2, e3⟩
    · -- header written
      obtain ⟨hx, hcpl0⟩ := hx
      simp only [Prod.mk.injEq] at hx; obtain ⟨rfl, rfl⟩ := hx
      obtain ⟨hl0, han0, hfc0⟩ := header_live c beh hr hacc hn hsm hwh
      have hroom : Room s0 (stepsCost steps + fin.cost) := by
        rcases hb with hb | hb
        · exact Or.inl (hfc0.trans hb)
        · exact Or.inr (by simp only [progCost] at hb; omega)
      simp only
      cases hrs : Enc.runSteps E Z s0 steps with
      | mk s1 rss =>
        obtain ⟨a1, a2, a3⟩ := runSteps_ok E Z steps hl0 hno (hroom.mono (by omega)) s1 rss hrs
        simp only [a1, Bool.false_eq_true, if_false]
        have hroom1 : Room s1 fin.cost := hroom.tr a3 (Nat.le_refl _)
        cases fin with
        | finish =>
          simp only
          obtain ⟨f1, f2, f3⟩ := finishW_tr s1 a2.iend
          obtain ⟨g1, g2⟩ := closed_of_tr f3 a2.iend a2.att f2
          cases hfw : finishW s1 with
          | mk s2 r2 =>
            rw [hfw] at f1 f2 f3 g1 g2
            simp only at f1 f2 f3 g1 g2 ⊢
            exact {
              header := rfl, results := a1, final := by simp [anyPanic, f1], iend := f2, att := g1, last := g2
              complete := fun _ hl => by
                simp only [List.getLast?_singleton, Option.some.injEq] at hl
                exact f3.closing_complete hl a2.iend f2
              allComplete := fun h1 _ _ h4 h5 =>
                all_complete_of_tr (a3.trans f3) ⟨⟨h1, h4⟩, h5 r2 (by simp)⟩ hcpl0 }
        | drop =>
          simp only
          obtain ⟨d1, d2⟩ := Tr.dropW s1
          obtain ⟨g1, g2⟩ := closed_of_tr d1 a2.iend a2.att d2
          exact { header := rfl, results := a1, final := rfl, iend := d2, att := g1, last := g2
                  complete := fun hh => by cases hh
                  allComplete := fun _ hh => by cases hh }
        | intoStream size ops f =>
          simp only [PFinal.cost] at hroom1
          simp only
          cases hss : streamSession Z s1 true size ops f with
          | mk s2 rs =>
            obtain ⟨b1, b2, b3, b4⟩ := streamSession_ok Z a2 true size ops f hroom1 s2 rs hss
            have hflag : s2.iendWritten = true := by simpa [Rel] using b2
            obtain ⟨g1, g2⟩ := closed_of_tr b3 a2.iend a2.att hflag
            simp only
            exact {
              header := rfl, results := a1, final := b1, iend := hflag, att := g1, last := g2
              complete := fun hfin hl => by
                cases f with
                | finish => exact b4 rfl rfl hl
                | drop => cases hfin
              allComplete := fun h1 hfin _ h4 h5 => by
                cases f with
                | finish => exact all_complete_of_tr (a3.trans b3) ⟨⟨h1, h4⟩, rfl, h5⟩ hcpl0
                | drop => cases hfin }
    · -- `write_header` failed: the `Writer` was dropped
      simp only at e1 e2 e3
      subst e1
      have hd := Tr.dropW x
      obtain ⟨g1, g2⟩ := closed_of_tr hd.1 hx1 hx2 hd.2
      have fin_ok : ProgOk steps fin ({ state := dropW x, header := r0 } : ProgRun) :=
        { header := e3, results := rfl, final := rfl, iend := hd.2, att := g1, last := g2
          complete := fun _ hl => by simp at hl
          allComplete := fun _ _ h3 => absurd h3 e2 }
      cases r0 with
      | ok => exact absurd rfl e2
      | err e => exact fin_ok
      | panic p => exact fin_ok

/-! ## Concrete runs and states (witnesses for `Props/C19Stream.lean`) -/

/-- an open `Writer` of a 1x1 animation whose `u32` frame counter is exhausted (reachable by 2^32 - 1 frame headers,
    e.g. abandoned sessions) -/
def wFull : WState := { (writeHeader (cfgAnim 2) {}).1 with animWritten := 2 ^ 32 - 1 }

/-- a 1x1 picture through an owned stream writer on a sink that fails ONCE at byte 40 (inside the IDAT chunk): the
    `write` reports `Err(io)`, `finish` retries the chunk and returns `Ok`; the log holds the cut chunk, the whole
    chunk and the IEND -/
def runOnce40 : ProgRun :=
  runProg toyCodec toyZ cfgStill { writeFailAt := some 40, writeOnce := true } [] (.intoStream 64 [.write [7]] .finish)

set_option maxRecDepth 100000 in
theorem runOnce40_facts :
    runOnce40.final = [.ok, .err .io, .ok] ∧
    runOnce40.state.sink.log.map (fun e => (e.accepted, e.piece.size)) = [(8, 8), (25, 25), (7, 15), (15, 15), (12, 12)] := by
  decide

/-- results, `index`, `line_len`, `to_write` after `new` and `ops` on a 2x2 one-frame animation, 5-byte chunk buffer -/
def midSession (beh : SinkBehaviour) (ops : List SOp) : Option (List Res × Nat × Nat × Nat) :=
  match SW.new (writeHeader cfgAnim22 beh).1 true 0 with
  | (.inl s0, _) => let r := runSOps toyZf s0 ops; some (r.2, r.1.index, r.1.lineLen, r.1.toWrite)
  | _ => none

end Png.Enc
