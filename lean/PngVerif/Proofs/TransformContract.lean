import PngVerif.Driver.Reader
import PngVerif.Proofs.Transform
import PngVerif.Proofs.ReaderPathsReal
import PngVerif.Proofs.ReaderRetry
/-!
# The contract of the row transformation, for the instance the executable model runs (`Driver.realT`)

`Model/Reader.lean` takes the row transformation as a parameter `t : TCfg`; the `Reader` theorems (C02,
C05, C13) assume the contracts `TCfg.Ok` (`Proofs/ReaderInv.lean`), `TCfg.Stable` (`Proofs/ReaderRetry.lean`)
and `TCfg.SnapIndep` (`Proofs/ReaderPathsSim.lean`, proved for `realT` in `Proofs/ReaderPathsReal.lean`).
This file discharges them for `Driver.realT` (= `Model/Transform.lean` behind the `Reader` model), as far as
they are true:

* `realT_stable` — full;
* `realT_outLegal`, `realT_createOk` — the first two fields of `TCfg.Ok`, full;
* `realT_applyOk_partial` — the third field outside ONE shape of `Info` (`keyGap`): grayscale below 8 bits
  whose stored `tRNS` is the EMPTY byte string, under EXPAND / ALPHA.  There `expand_gray_u8_with_trns`
  reads `trns[0]` (transform.rs:193) and `realT.apply` answers `none`, on the whole gap (`realT_apply_gap`):
  `realT_applyOk_counterexample`, `realT_not_ok`.  `InfoLegal` (what `TCfg.Ok` quantifies over) says nothing
  about `tRNS`, but no `Info` of the stream decoder has that shape: `parse_trns` (stream.rs:1241-1253)
  rejects a grayscale `tRNS` shorter than 2 bytes and stores exactly one byte below 16 bits
  (`Proofs/TrnsShape.lean`).  Every other shape is covered (`Transform.transformRow_len`), in particular
  colour keys of a wrong length (a 16-bit grayscale / RGB `tRNS` chunk longer than 2 / 6 bytes is stored
  whole; RGB keys of any length), palettes of any length and `tRNS` of any length for indexed images;
* `realTK` — `realT` with `apply` patched on the gap (there it returns a zero row): `realTK_ok`,
  `realTK_stable`, `realTK_snapIndep` in full.  `Proofs/TransformContractRun.lean` shows that the
  `Reader` model cannot tell `realT` from `realTK` on any reader whose `Info` is outside the gap.

Output lengths: one lemma per group of row functions — `transformRow_key_len` (kinds `trnsLine`,
`trnsLine16`, `trnsStrip16`; total functions, no assumption on the key), `expandGrayU8WithTrns_head` (kind
`grayTrns`: only `trns[0]` is read), and through `ok_len_of_spec` the row theorems of `Proofs/Transform.lean`
(`transformRow_gray_subbyte`, `transformRow_indexed`, `plain_case`, `transformRow_noexpand`) with
`specConvert_length` for the kinds `gray`, `paletteRgba`, `paletteRgb8`, `paletteRgb`, `strip16`, `copy`.
-/
/-! ## Every selected row function fills the caller's buffer (lengths; one lemma per group of kinds) -/
namespace Png.Transform

/-- the output type reads the colour type, the bit depth and the PRESENCE of `tRNS` only -/
theorem outputColorType_congr (a b : Info) (f : Flags) (hc : b.colorType = a.colorType)
    (hd : b.bitDepth = a.bitDepth) (ht : b.trns.isSome = a.trns.isSome) :
    outputColorType b f = outputColorType a f := by
  unfold outputColorType
  simp only [hc, hd, ht]


/-- from "the row function leaves the documented conversion" to "it succeeds with a row of the buffer's length" -/
theorem ok_len_of_spec {info : Info} {f : Flags} {w : Nat} {row out : Bytes}
    (h : transformRow info f row out = .ok (specConvert info f row w))
    (hrow : row.length = (w * info.colorType.samples * info.bitDepth.toNat + 7) / 8)
    (hout : outputLineSize info f w = .ok out.length) :
    ∃ o, transformRow info f row out = .ok o ∧ o.length = out.length := by
  refine ⟨_, h, ?_⟩
  rw [specConvert_length info f w row hrow]
  rw [outputLineSize_eq] at hout
  exact Except.ok.inj hout

/-- a `chunks_exact` loop whose body writes whole output chunks fills the buffer -/
theorem zipChunks_length (a b : Nat) (g : Bytes → Bytes) (w : Nat) (inp out : Bytes) (ha : 0 < a) (hb : 0 < b)
    (hg : ∀ px : Bytes, px.length = a → (g px).length = b) (hin : inp.length = w * a) (hout : out.length = w * b) :
    (zipChunks a b g (zipChunksCount a b inp out) inp out).length = out.length := by
  rw [zipChunks_exact a b g w inp out ha hb hin hout,
    length_flatMap_const g b _ (fun px hpx => hg px (mem_chunksN_length a w inp (by omega) px hpx)),
    chunksN_length, hout]

theorem highBytes_length (l : Bytes) : (highBytes l).length = l.length / 2 := by
  rw [highBytes_eq _ l rfl, List.length_map, be16_length _ l rfl]

/-- kinds `trnsLine`, `trnsLine16`, `trnsStrip16` (grayscale / RGB of depth 8 or 16 with `tRNS` or ALPHA):
    total functions; the buffer is filled whatever the length of the stored colour key -/
theorem transformRow_key_len (info : Info) (f : Flags) (w : Nat) (row out : Bytes)
    (hct : info.colorType = .gray ∨ info.colorType = .rgb)
    (hd : info.bitDepth = .eight ∨ info.bitDepth = .sixteen)
    (he : f.doExpand = true) (ha : addAlpha info f = true)
    (hrow : row.length = (w * info.colorType.samples * info.bitDepth.toNat + 7) / 8)
    (hol : out.length = (w * (specOutputColor info f).samples * specOutputDepth info f + 7) / 8) :
    ∃ o, transformRow info f row out = .ok o ∧ o.length = out.length := by
  have hoc : (specOutputColor info f).samples = info.colorType.samples + 1 := by
    rcases hct with h | h <;> simp [specOutputColor, he, ha, h, ColorType.samples]
  rw [hoc] at hol
  have hp := samples_pos info.colorType
  generalize hch : info.colorType.samples = ch at *
  rcases hd with hd | hd
  · have hed : specExpandedDepth info f = 8 := by simp [specExpandedDepth, hd, BitDepth.toNat]
    have hsel : selectTransform info f = .ok .trnsLine := by
      rw [selectTransform_eq]; rcases hct with h | h <;> simp [h, he, ha, hd, BitDepth.toNat]
    simp only [specOutputDepth, hed, hd, BitDepth.toNat, show ¬ ((8 : Nat) = 16 ∧ f.strip16 = true) by omega,
      if_false] at hol hrow
    simp only [transformRow, hsel, applyKind, applyKindWith]
    refine ⟨_, rfl, ?_⟩
    unfold expandTrnsLine
    rw [hch]
    exact zipChunks_length _ _ _ w row out hp (by omega) (fun px hpx => by simp [hpx]) (by omega) (by omega)
  · have hed : specExpandedDepth info f = 16 := by simp [specExpandedDepth, hd, BitDepth.toNat]
    by_cases hst : f.strip16 = true
    · have hsel : selectTransform info f = .ok .trnsStrip16 := by
        rw [selectTransform_eq]; rcases hct with h | h <;> simp [h, he, ha, hd, hst, BitDepth.toNat]
      simp only [specOutputDepth, hed, hst, and_self, if_true, hd, BitDepth.toNat] at hol hrow
      simp only [transformRow, hsel, applyKind, applyKindWith]
      refine ⟨_, rfl, ?_⟩
      unfold expandTrnsAndStripLine16
      rw [hch]
      exact zipChunks_length _ _ _ w row out (by omega) (by omega)
        (fun px hpx => by simp [highBytes_length, hpx]) (by rw [← Nat.mul_assoc]; omega) (by omega)
    · have hst' : f.strip16 = false := by simpa using hst
      have hsel : selectTransform info f = .ok .trnsLine16 := by
        rw [selectTransform_eq]; rcases hct with h | h <;> simp [h, he, ha, hd, hst', BitDepth.toNat]
      simp only [specOutputDepth, hed, hst', hd, BitDepth.toNat, Bool.false_eq_true, and_false,
        if_false] at hol hrow
      simp only [transformRow, hsel, applyKind, applyKindWith]
      refine ⟨_, rfl, ?_⟩
      unfold expandTrnsLine16
      rw [hch]
      exact zipChunks_length _ _ _ w row out (by omega) (by omega)
        (fun px hpx => by simp only [List.length_append, hpx]; split <;> rfl) (by rw [← Nat.mul_assoc]; omega)
        (by simp only [Nat.mul_add, Nat.mul_one, ← Nat.mul_assoc] at hol ⊢; omega)

/-- kind `grayTrns` reads the first byte of a stored `tRNS` only -/
theorem expandGrayU8WithTrns_head (info : Info) (t0 : UInt8) (rest : Bytes) (row out : Bytes)
    (ht : info.trns = some (t0 :: rest)) :
    expandGrayU8WithTrns info row out = expandGrayU8WithTrns { info with trns := some [t0] } row out := by
  simp only [expandGrayU8WithTrns, ht]

/-- **every selected row function fills the buffer**, for a legal colour type / bit depth pair, a palette
    where one is needed (indexed under EXPAND: `create_transform_fn` fails otherwise), ANY palette and
    `tRNS` contents — except a grayscale image below 8 bits whose stored `tRNS` is empty, under EXPAND -/
theorem transformRow_len (info : Info) (f : Flags) (w : Nat) (row out : Bytes)
    (hl : legal info.colorType info.bitDepth = true)
    (hpal : info.colorType = .indexed → f.doExpand = true → info.palette.isSome = true)
    (hgap : ¬ (info.colorType = .gray ∧ info.bitDepth.toNat < 8 ∧ f.doExpand = true ∧ info.trns = some []))
    (hrow : row.length = rawRowLengthFromWidth info.colorType info.bitDepth w - 1)
    (hout : outputLineSize info f w = .ok out.length) :
    ∃ o, transformRow info f row out = .ok o ∧ o.length = out.length := by
  rw [rawRowLength_eq] at hrow
  unfold specRowBytes at hrow
  have hol := outLen info f w out hout
  by_cases he : f.doExpand = true
  · rcases legal_cases _ _ hl with hc | ⟨hc, hne⟩ | ⟨hc, hd⟩
    · -- grayscale
      rcases depth_cases info.bitDepth with hd | hd | hd
      · cases ht : info.trns with
        | none =>
          exact ok_len_of_spec (transformRow_gray_subbyte info f w row out hc hd he
            (fun t h => by rw [ht] at h; cases h) hrow hol) hrow hout
        | some t =>
          cases t with
          | nil => exact absurd ⟨hc, hd, he, ht⟩ hgap
          | cons t0 rest =>
            -- only `trns[0]` is read: the same row as with the one-byte key
            have ha : addAlpha info f = true := by simp [addAlpha, ht]
            have hsel : selectTransform info f = .ok .grayTrns := by
              rw [selectTransform_eq]; simp [hc, he, ha, hd]
            have hsel' : selectTransform { info with trns := some [t0] } f = .ok .grayTrns := by
              rw [selectTransform_eq]; simp [hc, he, addAlpha, hd]
            have heq : transformRow info f row out = transformRow { info with trns := some [t0] } f row out := by
              simp only [transformRow, hsel, hsel', applyKind, applyKindWith]
              exact expandGrayU8WithTrns_head info t0 rest row out ht
            have hout' : outputLineSize { info with trns := some [t0] } f w = .ok out.length := by
              rw [← hout]; unfold outputLineSize
              rw [outputColorType_congr info { info with trns := some [t0] } f rfl rfl (by simp [ht])]
            rw [heq]
            exact ok_len_of_spec (transformRow_gray_subbyte { info with trns := some [t0] } f w row out hc hd he
              (fun t h => by cases h; simp [hc, ColorType.samples]; intro h16; simp [h16, BitDepth.toNat] at hd)
              hrow (outLen _ f w out hout')) hrow hout'
      all_goals
        by_cases ha : addAlpha info f = true
        · exact transformRow_key_len info f w row out (Or.inl hc) (by simp [hd]) he ha hrow hol
        · have ha' : addAlpha info f = false := by simpa using ha
          refine ok_len_of_spec (plain_case info f w row out (by simp [hd]) ?_ ?_ ?_ hrow hol) hrow hout
          · intro px; simp [specExpandPixel, he, hc, ha', hd, BitDepth.toNat]
          · simp [specOutputColor, he, hc, ha']
          · rw [selectTransform_eq]; cases hs : f.strip16 <;> simp [he, hc, ha', hd, BitDepth.toNat]
    · -- indexed
      have hsome := hpal hc he
      cases hp : info.palette with
      | none => simp [hp] at hsome
      | some pal => exact ok_len_of_spec (transformRow_indexed info f w row out pal hc hne he hp hrow hol) hrow hout
    · rcases hc with hc | hc | hc
      · -- RGB
        by_cases ha : addAlpha info f = true
        · exact transformRow_key_len info f w row out (Or.inr hc) hd he ha hrow hol
        · have ha' : addAlpha info f = false := by simpa using ha
          refine ok_len_of_spec (plain_case info f w row out hd ?_ ?_ ?_ hrow hol) hrow hout
          · intro px; simp [specExpandPixel, he, hc, ha']
          · simp [specOutputColor, he, hc, ha']
          · rw [selectTransform_eq]
            rcases hd with hd | hd <;> cases hs : f.strip16 <;> simp [he, hc, ha', hd, BitDepth.toNat]
      all_goals
        refine ok_len_of_spec (plain_case info f w row out hd ?_ ?_ ?_ hrow hol) hrow hout
        · intro px; simp [specExpandPixel, he, hc]
        · simp [specOutputColor, he, hc]
        · rw [selectTransform_eq]
          rcases hd with hd | hd <;> cases hs : f.strip16 <;> simp [he, hc, hd, BitDepth.toNat]
  · exact ok_len_of_spec (transformRow_noexpand info f w row out hl (by simpa using he) hrow hol) hrow hout

/-! ### the gap: `expand_gray_u8_with_trns` on an empty `tRNS` -/

theorem appendE_error_left (e : Err) (b : Except Err Bytes) : appendE (.error e) b = .error e := by
  cases b <;> rfl

/-- `unpack_bits` below 8 bits with a closure that panics on every pixel panics as soon as the output
    buffer holds one whole chunk (or earlier, on its asserts) -/
theorem unpackBits_all_err (input out : Bytes) (ch d : Nat) (hch : 0 < ch) (hd : d ≠ 8) (func : PixelFn)
    (hf : ∀ p, func p = .error .panic) (hout : ch ≤ out.length) :
    unpackBits input out ch d func = .error .panic := by
  unfold unpackBits
  split
  · rfl
  · split
    · rfl
    · simp only
      have hn : out.length / ch = (out.length / ch - 1) + 1 := by
        have := Nat.div_pos hout hch; omega
      generalize out.length / ch - 1 = m at hn
      rw [hn]
      simp only [unpackLoop, show ((-1 : Int) < 0) from by decide, if_true]
      cases input with
      | nil => rfl
      | cons c rest => simp only [hf, appendE_error_left]

/-- on the gap `expand_gray_u8_with_trns` panics on the first pixel -/
theorem expandGrayU8WithTrns_gap (info : Info) (row out : Bytes) (hd : info.bitDepth.toNat < 8)
    (ht : info.trns = some []) (hout : 2 ≤ out.length) :
    expandGrayU8WithTrns info row out = .error .panic := by
  unfold expandGrayU8WithTrns
  have hs : ∃ sf, scalingFactor info.bitDepth.toNat = .ok sf := by
    unfold scalingFactor; rw [if_pos (by omega)]; exact ⟨_, rfl⟩
  obtain ⟨sf, hsf⟩ := hs
  rw [hsf]
  simp only [ht]
  exact unpackBits_all_err row out 2 _ (by decide) (by omega) _ (fun p => rfl) hout

end Png.Transform

namespace Png.Driver
open Png Png.Framing Png.Reader

/-! ## From `Info` to the view of `Model/Transform.lean` -/

/-- an `Info` that passed the IHDR validation has a view, with a legal colour type / bit depth pair -/
theorem tInfo_of_infoLegal {i : Info} (hl : InfoLegal i) :
    ∃ ct bd, ct.toNat = i.color ∧ bd.toNat = i.depth ∧ Transform.legal ct bd = true ∧
      tInfo i = some { colorType := ct, bitDepth := bd, palette := i.palette, trns := i.trns } := by
  have h := hl.pair
  simp only [legalPairs, List.mem_cons, Prod.mk.injEq, List.mem_nil_iff, or_false] at h
  rcases h with ⟨hc, hd⟩ | ⟨hc, hd⟩ | ⟨hc, hd⟩ | ⟨hc, hd⟩ | ⟨hc, hd⟩ | ⟨hc, hd⟩ | ⟨hc, hd⟩ | ⟨hc, hd⟩ |
    ⟨hc, hd⟩ | ⟨hc, hd⟩ | ⟨hc, hd⟩ | ⟨hc, hd⟩ | ⟨hc, hd⟩ | ⟨hc, hd⟩ | ⟨hc, hd⟩
  all_goals (unfold tInfo; rw [hc, hd]; exact ⟨_, _, rfl, rfl, rfl, rfl⟩)

/-- the two row-length functions (`Model/Basic.lean` on byte values, `Model/Transform.lean` on the enumerations) agree -/
theorem rowlen_bridge (ct : Transform.ColorType) (bd : Transform.BitDepth) (w : Nat) :
    Png.rawRowLengthFromWidth ct.toNat bd.toNat w = Transform.rawRowLengthFromWidth ct bd w := by
  cases ct <;> cases bd <;> rfl

/-- `output_color_type` of the model behind `realT.outColorDepth` -/
theorem realT_outColorDepth {i : Info} {ti : Transform.Info} (h : tInfo i = some ti) (f : Flags) :
    ∃ d, Transform.outputColorType ti (tFlags f) = .ok (Transform.specOutputColor ti (tFlags f), d) ∧
      d.toNat = Transform.specOutputDepth ti (tFlags f) ∧
      realT.outColorDepth i f = ((Transform.specOutputColor ti (tFlags f)).toNat, d.toNat) := by
  obtain ⟨d, hoc, hd⟩ := Transform.outputColorType_eq ti (tFlags f)
  refine ⟨d, hoc, hd, ?_⟩
  simp only [realT, h, hoc]

/-- `output_line_size` of the `Reader` model at `realT` is `Transform.outputLineSize` -/
theorem realT_outLineSize {i : Info} {ti : Transform.Info} (h : tInfo i = some ti) (f : Flags) (w : Nat) :
    Transform.outputLineSize ti (tFlags f) w = .ok (outLineSize realT i f w) := by
  obtain ⟨d, hoc, _, hocd⟩ := realT_outColorDepth h f
  rw [outLineSize_eq, hocd]
  simp only [Transform.outputLineSize, hoc, rowlen_bridge]

/-! ## `TCfg.Stable`, and the first two fields of `TCfg.Ok` -/

/-- **`TCfg.Stable` for `realT`**: `output_color_type` depends on the IHDR fields and on `tRNS` only -/
theorem realT_stable : realT.Stable := by
  intro i j f hcore htrns
  simp only [Info.core, Prod.mk.injEq] at hcore
  obtain ⟨_, _, hd, hc, _⟩ := hcore
  have hti : tInfo j = (tInfo i).map fun ti => { ti with palette := j.palette } := by
    unfold tInfo
    rw [hc, hd, htrns]
    cases Transform.ColorType.ofNat? i.color <;> cases Transform.BitDepth.ofNat? i.depth <;> rfl
  show realT.outColorDepth j f = realT.outColorDepth i f
  simp only [realT, hti, hc, hd]
  cases tInfo i with
  | none => rfl
  | some ti =>
    simp only [Option.map_some]
    rw [Transform.outputColorType_congr ti { ti with palette := j.palette } (tFlags f) rfl rfl rfl]

/-- `output_color_type` on closed arguments: colour type, bit depth, the three flags, presence of `tRNS` -/
def outCD (ct : Transform.ColorType) (bd : Transform.BitDepth) (e s a tr : Bool) :
    Except Transform.Err (Transform.ColorType × Transform.BitDepth) :=
  Transform.outputColorType ⟨ct, bd, none, if tr then some [] else none⟩ ⟨e, s, a⟩

theorem outputColorType_outCD (ti : Transform.Info) (f : Transform.Flags) :
    Transform.outputColorType ti f = outCD ti.colorType ti.bitDepth f.expand f.strip16 f.alpha ti.trns.isSome := by
  unfold outCD
  rw [Transform.outputColorType_congr ti ⟨ti.colorType, ti.bitDepth, none, if ti.trns.isSome then some [] else none⟩
    ⟨f.expand, f.strip16, f.alpha⟩ rfl rfl (by cases ti.trns <;> rfl)]

theorem outCD_legal (ct : Transform.ColorType) (bd : Transform.BitDepth) (e s a tr : Bool) :
    Transform.legal ct bd = true → ∃ c d, outCD ct bd e s a tr = .ok (c, d) ∧ (c.toNat, d.toNat) ∈ legalPairs := by
  cases ct <;> cases bd <;> cases e <;> cases s <;> cases a <;> cases tr <;>
    first
    | exact fun _ => ⟨_, _, rfl, by decide⟩
    | exact fun h => absurd h (by decide)

/-- the output type of a legal input type is legal -/
theorem outputColorType_legal (ti : Transform.Info) (f : Transform.Flags)
    (hl : Transform.legal ti.colorType ti.bitDepth = true) :
    ∃ c d, Transform.outputColorType ti f = .ok (c, d) ∧ (c.toNat, d.toNat) ∈ legalPairs := by
  rw [outputColorType_outCD]
  exact outCD_legal _ _ _ _ _ _ hl

/-- **`TCfg.Ok.outLegal` for `realT`** -/
theorem realT_outLegal (i : Info) (f : Flags) (hl : InfoLegal i) :
    ((realT.outColorDepth i f).1, (realT.outColorDepth i f).2) ∈ legalPairs := by
  obtain ⟨ct, bd, _, _, hleg, hti⟩ := tInfo_of_infoLegal hl
  obtain ⟨c, d, hoc, hmem⟩ := outputColorType_legal
    { colorType := ct, bitDepth := bd, palette := i.palette, trns := i.trns } (tFlags f) hleg
  simp only [realT, hti, hoc]
  exact hmem

/-- **`TCfg.Ok.createOk` for `realT`**: `create_transform_fn` fails with one of its two `Format` errors only —
    the `assert_eq!(bit_depth, 16)` arm is unreachable for a legal pair, a palette function is selected
    only with a palette, and the repaired `create_rgba_palette` is total -/
theorem realT_createOk (i : Info) (f : Flags) (w : String) (hl : InfoLegal i) (h : realT.create i f = .error w) :
    w.startsWith "panic" = false := by
  obtain ⟨ct, bd, _, _, hleg, hti⟩ := tInfo_of_infoLegal hl
  simp only [realT, hti] at h
  cases hk : Transform.selectTransform
      { colorType := ct, bitDepth := bd, palette := i.palette, trns := i.trns } (tFlags f) with
  | error e =>
    rw [hk] at h
    cases e with
    | panic => exact absurd hk (Transform.selectTransform_no_panic _ _ hleg)
    | paletteRequired => cases h; decide +kernel
    | invalidColorBitDepth => cases h; decide +kernel
  | ok k =>
    rw [hk] at h; simp only at h
    by_cases hpk : isPaletteKind k = true
    · rw [if_pos hpk] at h
      cases hp : i.palette with
      | none =>
        exfalso
        by_cases h1 : ct = .indexed ∧ ((tFlags f).expand || (tFlags f).alpha) = true
        · have := selectTransform_palette_some (a := { colorType := ct, bitDepth := bd, palette := i.palette, trns := i.trns }) h1 hk
          rw [hp] at this; cases this
        · have := selectTransform_not_palette (a := { colorType := ct, bitDepth := bd, palette := i.palette, trns := i.trns }) h1 hk
          rw [hpk] at this; cases this
      | some pal =>
        rw [hp] at h; simp only at h
        obtain ⟨memo, hm, _⟩ := Transform.createRgbaPalette_total pal i.trns
        rw [hm] at h; cases h
    · rw [if_neg hpk] at h; cases h

/-! ## The third field of `TCfg.Ok`: applying the cached row function -/

/-- the one shape of `Info` (with the flags) that `TCfg.Ok.applyOk` admits and on which `realT.apply` fails:
    grayscale below 8 bits, stored `tRNS` EMPTY, EXPAND or ALPHA requested.  (Unreachable: `parse_trns`
    stores exactly one byte for a grayscale image below 16 bits, `Proofs/TrnsShape.lean`.) -/
def keyGap (i : Info) (f : Flags) : Bool :=
  i.color == 0 && decide (i.depth < 8) && (i.trns == some []) && (f.expand || f.alpha)

/-- what `realT.apply` computes once creation succeeded on `snap` and `snap` evolved into `cur`:
    `transform_row` of `Model/Transform.lean` on ONE view `v` — `snap`'s or `cur`'s, they differ at most in a
    palette that no selected function reads -/
theorem realT_apply_view {snap cur : Info} {f : Flags} {ts : Transform.Info} {k : Transform.Kind}
    (he : Evolves snap cur) (hts : tInfo snap = some ts) (hk : Transform.selectTransform ts (tFlags f) = .ok k) :
    ∃ v : Transform.Info,
      (∀ row n, realT.apply snap f cur row n =
        match Transform.transformRow v (tFlags f) row (List.replicate n 0) with
        | .ok o => some o
        | .error _ => none) ∧
      tInfo cur = some { v with palette := cur.palette } ∧
      (v.colorType = .indexed → (tFlags f).doExpand = true → v.palette.isSome = true) := by
  obtain ⟨e1, p1⟩ := tInfo_evolves he hts
  have happ : ∀ (v : Transform.Info), Transform.selectTransform v (tFlags f) = .ok k →
      (if isPaletteKind k = true then { ({ ts with palette := cur.palette } : Transform.Info) with
          palette := ts.palette, trns := ts.trns } else { ts with palette := cur.palette }) = v →
      ∀ row n, realT.apply snap f cur row n =
        match Transform.transformRow v (tFlags f) row (List.replicate n 0) with
        | .ok o => some o
        | .error _ => none := by
    intro v hv hif row n
    simp only [realT]
    rw [hts, e1]
    simp only
    rw [hk]
    simp only
    rw [hif]
    simp only [Transform.transformRow, hv]
    rfl
  by_cases h1 : ts.colorType = .indexed ∧ ((tFlags f).expand || (tFlags f).alpha) = true
  · have s1 := selectTransform_palette_some h1 hk
    have hsame : ({ ts with palette := cur.palette } : Transform.Info) = ts := by rw [p1 s1]
    refine ⟨ts, happ ts hk ?_, by rw [e1], fun _ _ => s1⟩
    rw [hsame]; split <;> rfl
  · have hsel := selectTransform_congr ts { ts with palette := cur.palette } (tFlags f) rfl rfl rfl
      (fun h => absurd h h1)
    refine ⟨{ ts with palette := cur.palette }, happ _ (hsel.trans hk) ?_, e1, fun hc hx => absurd ⟨hc, hx⟩ h1⟩
    rw [if_neg (by rw [selectTransform_not_palette h1 hk]; simp)]

/-- **`TCfg.Ok.applyOk` for `realT`, outside `keyGap`**: the function created from `snap` turns a row of the
    current `Info` (any palette, any `tRNS`, colour keys of any length) of the raw row length into a row of
    `output_line_size` bytes -/
theorem realT_applyOk_partial (snap : Info) (f : Flags) (cur : Info) (row : Bytes) (w : Nat) (hl : InfoLegal cur)
    (he : Evolves snap cur) (hc : realT.create snap f = .ok ())
    (hrow : row.length + 1 = rawRowLengthFromWidth cur.color cur.depth w) (hgap : keyGap cur f = false) :
    ∃ out, realT.apply snap f cur row (outLineSize realT cur f w) = some out ∧
      out.length = outLineSize realT cur f w := by
  obtain ⟨ts, k, hts, hk, _⟩ := create_ok hc
  obtain ⟨v, happ, hcur, hpal⟩ := realT_apply_view he hts hk
  obtain ⟨ct, bd, hct, hbd, hleg, hti⟩ := tInfo_of_infoLegal hl
  rw [hti] at hcur
  simp only [Option.some.injEq] at hcur
  have hvc : v.colorType = ct := (congrArg Transform.Info.colorType hcur).symm
  have hvd : v.bitDepth = bd := (congrArg Transform.Info.bitDepth hcur).symm
  have hvt : v.trns = cur.trns := (congrArg Transform.Info.trns hcur).symm
  have hout : Transform.outputLineSize v (tFlags f) w =
      .ok (List.replicate (outLineSize realT cur f w) (0 : UInt8)).length := by
    rw [List.length_replicate, ← realT_outLineSize hti f w]
    unfold Transform.outputLineSize
    rw [Transform.outputColorType_congr { colorType := ct, bitDepth := bd, palette := cur.palette, trns := cur.trns } v
      (tFlags f) hvc hvd (by rw [hvt])]
  obtain ⟨o, ho, hlen⟩ := Transform.transformRow_len v (tFlags f) w row _ (by rw [hvc, hvd]; exact hleg) hpal
    (by
      rintro ⟨g1, g2, g3, g4⟩
      rw [hvc] at g1; rw [hvd] at g2; rw [hvt] at g4
      have c0 : cur.color = 0 := by rw [← hct, g1]; rfl
      have : keyGap cur f = true := by
        simp only [keyGap, c0, g4, ← hbd, g2, beq_self_eq_true, decide_true, Bool.true_and]
        exact g3
      rw [hgap] at this; cases this)
    (by rw [hvc, hvd, ← rowlen_bridge, hct, hbd]; omega) hout
  refine ⟨o, ?_, by rw [hlen, List.length_replicate]⟩
  rw [happ, ho]

/-- **on the whole gap `realT.apply` fails** as soon as the buffer holds one output pixel (2 bytes): the
    exclusion in `realT_applyOk_partial` is exact -/
theorem realT_apply_gap (snap : Info) (f : Flags) (cur : Info) (row : Bytes) (n : Nat) (hl : InfoLegal cur)
    (he : Evolves snap cur) (hc : realT.create snap f = .ok ()) (hgap : keyGap cur f = true) (hn : 2 ≤ n) :
    realT.apply snap f cur row n = none := by
  obtain ⟨ts, k, hts, hk, _⟩ := create_ok hc
  obtain ⟨v, happ, hcur, _⟩ := realT_apply_view he hts hk
  obtain ⟨ct, bd, hct, hbd, hleg, hti⟩ := tInfo_of_infoLegal hl
  rw [hti] at hcur
  simp only [Option.some.injEq] at hcur
  have hvc : v.colorType = ct := (congrArg Transform.Info.colorType hcur).symm
  have hvd : v.bitDepth = bd := (congrArg Transform.Info.bitDepth hcur).symm
  have hvt : v.trns = cur.trns := (congrArg Transform.Info.trns hcur).symm
  simp only [keyGap, Bool.and_eq_true, beq_iff_eq, decide_eq_true_eq] at hgap
  obtain ⟨⟨⟨g1, g2⟩, g3⟩, g4⟩ := hgap
  have hgray : v.colorType = .gray := by
    rw [hvc]; rw [g1] at hct; revert hct; cases ct <;> simp [Transform.ColorType.toNat]
  have hd8 : v.bitDepth.toNat < 8 := by rw [hvd, hbd]; exact g2
  have htr : v.trns = some [] := by rw [hvt]; exact g3
  have hex : (tFlags f).doExpand = true := g4
  have hsel : Transform.selectTransform v (tFlags f) = .ok .grayTrns := by
    rw [Transform.selectTransform_eq]; simp [hgray, hex, Transform.addAlpha, htr, hd8]
  rw [happ]
  simp only [Transform.transformRow, hsel, Transform.applyKind, Transform.applyKindWith]
  rw [Transform.expandGrayU8WithTrns_gap v row _ hd8 htr (by rw [List.length_replicate]; exact hn)]

/-! ## The gap is real: `TCfg.Ok` as stated does not hold for `realT` -/

/-- a 1×1 grayscale image of depth 2 whose stored `tRNS` is empty -/
def gapInfo : Info := { width := 1, height := 1, depth := 2, color := 0, interlaced := false, trns := some [] }
/-- EXPAND -/
def gapFlags : Flags := { expand := true }

theorem gapInfo_legal : InfoLegal gapInfo := ⟨by decide, by decide, by decide⟩

theorem gapInfo_create : realT.create gapInfo gapFlags = .ok () := by rfl

/-- **counterexample to `TCfg.Ok.applyOk` for `realT`**: every hypothesis of the field holds — a legal
    `Info`, creation succeeded, a row of the raw row length (one byte for one 2-bit pixel), a buffer of
    `output_line_size = 2` bytes — and `apply` answers `none` (the `trns[0]` of `expand_gray_u8_with_trns`,
    transform.rs:193, on an empty `tRNS`) -/
theorem realT_applyOk_counterexample :
    InfoLegal gapInfo ∧ Evolves gapInfo gapInfo ∧ realT.create gapInfo gapFlags = .ok () ∧
    ([0x40] : Bytes).length + 1 = rawRowLengthFromWidth gapInfo.color gapInfo.depth 1 ∧
    outLineSize realT gapInfo gapFlags 1 = 2 ∧
    realT.apply gapInfo gapFlags gapInfo [0x40] (outLineSize realT gapInfo gapFlags 1) = none ∧
    keyGap gapInfo gapFlags = true :=
  ⟨gapInfo_legal, Evolves.refl _, gapInfo_create, by decide, by decide +kernel, by decide +kernel, by decide⟩

/-- the same for depths 1 and 4, and under ALPHA alone -/
theorem realT_applyOk_counterexamples :
    realT.apply { gapInfo with depth := 1 } gapFlags { gapInfo with depth := 1 } [0x80] 2 = none ∧
    realT.apply { gapInfo with depth := 4 } gapFlags { gapInfo with depth := 4 } [0x10] 2 = none ∧
    realT.apply gapInfo { alpha := true } gapInfo [0x40] 2 = none := by decide +kernel

/-- … while one stored byte — what `parse_trns` leaves — is fine: pixel value 1 of depth 2 is the key -/
theorem realT_apply_one_byte_key :
    realT.apply { gapInfo with trns := some [1] } gapFlags { gapInfo with trns := some [1] } [0x40] 2 = some [85, 0] := by
  decide +kernel

/-- **`TCfg.Ok` is false for `realT`** (because `InfoLegal` admits an `Info` no stream produces) -/
theorem realT_not_ok : ¬ realT.Ok := by
  intro h
  obtain ⟨_, _, hc, hr, _, hn, _⟩ := realT_applyOk_counterexample
  obtain ⟨out, ho, _⟩ := h.applyOk gapInfo gapFlags gapInfo [0x40] 1 gapInfo_legal (Evolves.refl _) hc (by decide) hr
  rw [hn] at ho; cases ho

/-! ## The instance with the gap closed -/

/-- `realT` with `apply` patched on `keyGap` (a zero row instead of the panic).  A proof device: the
    `Reader` model never calls `apply` there (`Proofs/TransformContractRun.lean`). -/
def realTK : TCfg :=
  { realT with
    apply := fun snap f cur row n =>
      if keyGap cur f = true then some (List.replicate n 0) else realT.apply snap f cur row n }

theorem realTK_outColorDepth : realTK.outColorDepth = realT.outColorDepth := rfl
theorem realTK_create : realTK.create = realT.create := rfl
theorem realTK_apply (snap : Info) (f : Flags) (cur : Info) (row : Bytes) (n : Nat) (h : keyGap cur f = false) :
    realTK.apply snap f cur row n = realT.apply snap f cur row n := by
  show (if keyGap cur f = true then _ else _) = _
  rw [if_neg (by rw [h]; simp)]

/-- **`TCfg.Ok` for `realTK`**, in full -/
theorem realTK_ok : realTK.Ok where
  outLegal := realT_outLegal
  createOk := realT_createOk
  applyOk := by
    intro snap f cur row w hl he hc _ hrow
    show ∃ out, (if keyGap cur f = true then some (List.replicate (outLineSize realT cur f w) 0)
      else realT.apply snap f cur row (outLineSize realT cur f w)) = some out ∧ out.length = outLineSize realT cur f w
    by_cases hg : keyGap cur f = true
    · rw [if_pos hg]; exact ⟨_, rfl, List.length_replicate⟩
    · rw [if_neg hg]
      exact realT_applyOk_partial snap f cur row w hl he hc hrow (by simpa using hg)

theorem realTK_stable : realTK.Stable := realT_stable

theorem realTK_snapIndep : realTK.SnapIndep where
  create := realT_snapIndep.create
  apply := by
    intro snap snap' cur f row n he he' hc hc'
    show (if keyGap cur f = true then _ else _) = (if keyGap cur f = true then _ else _)
    rw [realT_snapIndep.apply snap snap' cur f row n he he' hc hc']

end Png.Driver
