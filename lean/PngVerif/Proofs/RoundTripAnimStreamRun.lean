import PngVerif.Proofs.RoundTripAnimStreamEnc
import PngVerif.Proofs.RoundTripStreamDecode
import PngVerif.Proofs.RoundTripAnimSpec
/-!
# C03 end to end for animations through ONE owned `StreamWriter`: the whole session

`write_header`, `into_stream_writer_with_size(size)`, then for every frame setter calls of the stream writer (`SetOp`) and the
frame's bytes in any partition into `write_all` calls (`SFrame`, `sOps`), then `finish`; streaming back-end
`scanZ compress chooseZ`.

The first frame's `fcTL` is written by `StreamWriter::new` with the `Writer`'s frame control `f0` — setter calls issued before
the first frame's bytes reach the copy only and take effect for the SECOND frame; the frame control of every later frame
is the copy at its first non-empty `write` (`new_frame`: `set_fctl`), with the `Writer`'s sequence number.

`anim_stream_log`: every call returns `Ok` (setters: no panic); the sink's log is the signature, `headerChunks c`, `fcTL` 0 +
`IDAT` chunks `ds0`, for every later frame `fcTL` + `fdAT` chunks `ds` with consecutive numbers (`gChunks`), `IEND`; every cut
consists of non-empty pieces no longer than the chunk buffer that concatenate to the compressed scanline stream of the
frame's data under the filter choice `chooseFirst chooseZ` (`GsOk`).
-/
namespace Png.RoundTrip
open Png Png.Val Png.Enc

/-- one frame of a stream-writer session: the setter calls before its bytes, and its bytes in the pieces handed to `write_all` -/
structure SFrame where
  pre : List SetOp
  pieces : List Bytes
deriving DecidableEq, Repr

def SFrame.ops (fr : SFrame) : List SOp := fr.pre.map SOp.set ++ fr.pieces.map SOp.write

/-- the calls between `into_stream_writer` and `finish` -/
def sOps (frs : List SFrame) : List SOp := frs.flatMap SFrame.ops

/-- no call panicked and every `write_all` returned `Ok` -/
inductive SResOk : List SOp → List Res → Prop
  | nil : SResOk [] []
  | cons {o : SOp} {r : Res} {os : List SOp} {rs : List Res} (h1 : r.isPanic = false) (h2 : (∃ d, o = .write d) → r = .ok)
      (h : SResOk os rs) : SResOk (o :: os) (r :: rs)

theorem SResOk.anyPanic {os : List SOp} {rs : List Res} (h : SResOk os rs) : anyPanic rs = false := by
  induction h with
  | nil => rfl
  | cons h1 _ _ ih => simp only [Enc.anyPanic, List.any_cons, h1, Bool.false_or]; exact ih

theorem SResOk.append {a b : List SOp} {ra rb : List Res} (h1 : SResOk a ra) (h2 : SResOk b rb) :
    SResOk (a ++ b) (ra ++ rb) := by
  induction h1 with
  | nil => exact h2
  | cons x y _ ih => exact .cons x y ih

theorem sResOk_sets : ∀ (pre : List SetOp) (rs : List Res), SetsOk rs → rs.length = pre.length → SResOk (pre.map SOp.set) rs := by
  intro pre
  induction pre with
  | nil => intro rs _ h; cases rs with | nil => exact .nil | cons _ _ => simp at h
  | cons o os ih =>
    intro rs h hl
    cases rs with
    | nil => simp at hl
    | cons r rs =>
      exact .cons (h r (by simp)) (fun ⟨d, hd⟩ => by cases hd) (ih rs (fun x hx => h x (by simp [hx])) (by simpa using hl))

theorem sResOk_writes : ∀ pieces : List Bytes, SResOk (pieces.map SOp.write) (pieces.map fun _ => Res.ok) := by
  intro pieces
  induction pieces with
  | nil => exact .nil
  | cons d ds ih => exact .cons rfl (fun _ => rfl) ih

/-! ## the cut of a frame's stream, for the back-end `scanZ` -/

theorem cutOf_scanZ {compress : Bytes → Bytes} {chooseZ : Bytes → Bytes → FilterType} {c : Enc.Cfg} {g : FC} {data : Bytes}
    {ds : List Bytes}
    (h : CutOf (scanZ compress chooseZ) (bytesPerPixel c.color c.depth) (c.sub g).rowLen g.h data ds) :
    (∀ d ∈ ds, d ≠ []) ∧ ds.flatten = compress (rawOf (chooseFirst chooseZ) (c.sub g) data) := by
  obtain ⟨hne, hist, curs, hz2, hnf, hwo, hcl, hcc, hfl⟩ := h
  refine ⟨hne, ?_⟩
  have hout : outs (scanZ compress chooseZ) (hist ++ [ZOp.finish]) = compress (writtenOf hist) := by
    rw [outs_snoc, outs, scanZ_quiet compress chooseZ hist [] hnf]; rfl
  rw [hz2, hout, hwo, fedRows_scanZ_first compress chooseZ _ _ curs hcc]
  have : curs = rowsOfCfg (c.sub g) data := by
    unfold rowsOfCfg
    rw [← hfl]
    show curs = rowsOf (c.sub g).rowLen g.h curs.flatten
    rw [← hcl]
    exact (rowsOf_unique (c.sub g).rowLen curs hcc).symm
  rw [this]
  rfl

theorem length_le_flatten_of_ne : ∀ ds : List Bytes, (∀ d ∈ ds, d ≠ []) → ds.length ≤ ds.flatten.length := by
  intro ds
  induction ds with
  | nil => intro _; simp
  | cons d ds ih =>
    intro h
    have h1 : 0 < d.length := List.length_pos_iff.mpr (h d (by simp))
    have := ih (fun x hx => h x (by simp [hx]))
    simp only [List.length_cons, List.flatten_cons, List.length_append]
    omega

/-! ## what the session asks of the frames, and what it leaves -/

/-- the frames after the first: setter arguments in range, the bytes of every frame have the size of the copy of the frame
    control at that time -/
def SLaterOk (c : Enc.Cfg) : FC → List SFrame → Prop
  | _, [] => True
  | g, fr :: rest =>
    (∀ o ∈ fr.pre, o.inRange) ∧
    fr.pieces.flatten.length = (c.sub (fcOfS c.width c.height g fr.pre)).rowLen * (fcOfS c.width c.height g fr.pre).h ∧
    SLaterOk c (fcOfS c.width c.height g fr.pre) rest

instance SLaterOk.dec (c : Enc.Cfg) : (g : FC) → (frs : List SFrame) → Decidable (SLaterOk c g frs)
  | _, [] => isTrue trivial
  | g, fr :: rest => by
    unfold SLaterOk
    have := SLaterOk.dec c (fcOfS c.width c.height g fr.pre) rest
    exact inferInstance

/-- sequence numbers the frames after the first can take at most: one `fcTL` and at most one `fdAT` chunk per byte of the
    compressed stream, for each -/
def sBudget (compress : Bytes → Bytes) (chooseZ : Bytes → Bytes → FilterType) (c : Enc.Cfg) : FC → List SFrame → Nat
  | _, [] => 0
  | g, fr :: rest =>
    1 + (compress (rawOf (chooseFirst chooseZ) (c.sub (fcOfS c.width c.height g fr.pre)) fr.pieces.flatten)).length +
      sBudget compress chooseZ c (fcOfS c.width c.height g fr.pre) rest

/-- the frames after the first as the session leaves them: `(frame control with its sequence number, cut of the compressed stream,
    data)`, against the frames supplied; `g`: the stream writer's copy of the frame control, `q`: the next sequence number -/
def GsOk (compress : Bytes → Bytes) (chooseZ : Bytes → Bytes → FilterType) (c : Enc.Cfg) (capx : Nat) :
    FC → Nat → List SFrame → List (FC × List Bytes × Bytes) → Prop
  | _, _, [], [] => True
  | g, q, fr :: rest, x :: gs =>
    x.1 = { fcOfS c.width c.height g fr.pre with seq := q } ∧ x.2.2 = fr.pieces.flatten ∧
    (∀ d ∈ x.2.1, d ≠ []) ∧ (∀ d ∈ x.2.1, 4 + d.length ≤ capx) ∧
    x.2.1.flatten = compress (rawOf (chooseFirst chooseZ) (c.sub (fcOfS c.width c.height g fr.pre)) fr.pieces.flatten) ∧
    GsOk compress chooseZ c capx (fcOfS c.width c.height g fr.pre) (q + 1 + x.2.1.length) rest gs
  | _, _, _, _ => False

/-- the chunks of the frames after the first -/
def gChunks : List (FC × List Bytes × Bytes) → List RChunk
  | [] => []
  | x :: gs => mkFctl x.1 :: fdatList (x.1.seq + 1) x.2.1 ++ gChunks gs

/-- the stream writer between two images, holding the `Writer` `w`; `g`: its copy of the frame control -/
structure BetweenS (c : Enc.Cfg) (capx : Nat) (s : SW) (w : WState) (g : FC) : Prop where
  wr : ∃ curr, s.wr = .chunk ⟨w, capx, [], curr⟩
  tw : s.toWrite = 0
  idx : s.index = 0
  rel : s.released = none
  own : s.owned = true
  bpp : s.bpp = bytesPerPixel c.color c.depth
  width : s.width = c.width
  height : s.height = c.height
  fctl : s.fctl = some g

theorem fdatChunks_data_len : ∀ (ds : List Bytes) (q capx : Nat), (∀ ch ∈ (fdatChunks q ds).1, ch.data.length ≤ capx) →
    ∀ d ∈ ds, 4 + d.length ≤ capx := by
  intro ds
  induction ds with
  | nil => intro q capx _ d hd; cases hd
  | cons x xs ih =>
    intro q capx h d hd
    simp only [fdatChunks] at h
    rcases List.mem_cons.mp hd with rfl | hd
    · have := h (mkFdat q d) (by simp)
      simpa [mkFdat, be32Bytes_length] using this
    · exact ih ((q + 1) % 2 ^ 32) capx (fun ch hch => h ch (by simp [hch])) d hd

/-- **the frames after the first**: for each the setter calls, then the bytes; the log grows by `gChunks gs` -/
theorem stream_later_run (compress : Bytes → Bytes) (chooseZ : Bytes → Bytes → FilterType) (c : Enc.Cfg) (n plays : Nat)
    (hcolor : colorOk c.color = true) (hdepth : depthOk c.depth = true) (ha : c.actl = some (n, plays)) (hn : n < 2 ^ 32)
    (hsz : c.rowLen * c.height < 2 ^ 64) (capx : Nat) (hcap : 5 ≤ capx) :
    ∀ (frs : List SFrame) (s : SW) (w : WState) (g fw : FC), BetweenS c capx s w g → AnimSt c w → w.imagesWritten ≠ 0 →
      w.fctl = (if n ≤ w.animWritten then none else some fw) → FcIn c.width c.height g →
      w.animWritten + frs.length = n → SLaterOk c g frs → fw.seq + sBudget compress chooseZ c g frs < 2 ^ 32 →
      ∃ s' w' g' gs rs, runSOps (scanZ compress chooseZ) s (sOps frs) = (s', rs) ∧ SResOk (sOps frs) rs ∧
        BetweenS c capx s' w' g' ∧ AnimSt c w' ∧ w'.imagesWritten ≠ 0 ∧ w'.fctl = none ∧
        w'.sink.log = w.sink.log ++ (gChunks gs).map fullEmit ∧ GsOk compress chooseZ c capx g fw.seq frs gs := by
  intro frs
  induction frs with
  | nil =>
    intro s w g fw hb hw hk hf _ han _ _
    simp only [List.length_nil, Nat.add_zero] at han
    refine ⟨s, w, g, [], [], rfl, .nil, hb, hw, hk, ?_, by simp [gChunks], trivial⟩
    rw [hf, if_pos (by omega)]
  | cons fr rest ih =>
    intro s w g fw hb hw hk hf hin han hok hbud
    simp only [List.length_cons] at han
    rw [if_neg (by omega)] at hf
    obtain ⟨hpre, hlen, hrest⟩ := hok
    obtain ⟨curr, hwr⟩ := hb.wr
    -- the setter calls
    obtain ⟨rsA, hrunA, hresA, hlenA⟩ := sets_run (scanZ compress chooseZ) fr.pre s g hb.fctl (by rw [hb.width, hb.height]; exact hin)
    have hfcs : fcOfS s.width s.height g fr.pre = fcOfS c.width c.height g fr.pre := by rw [hb.width, hb.height]
    rw [hfcs] at hrunA
    have hin' : FcIn c.width c.height (fcOfS c.width c.height g fr.pre) := fcOf_in _ g hin
    simp only [sBudget] at hbud
    generalize hg' : fcOfS c.width c.height g fr.pre = g' at *
    generalize hsA : ({ s with fctl := some g' } : SW) = sA at hrunA
    have hwrA : sA.wr = .chunk ⟨w, capx, [], curr⟩ := by rw [← hsA]; exact hwr
    -- the frame begins at the first non-empty `write`
    obtain ⟨s1, wH, hbeg, hfs, ho1, hfc1, hw1, hh1, htw1, z1, hz1⟩ :=
      begin_frame (scanZ compress chooseZ) c hcolor hdepth n plays ha hn hsz sA w capx curr hwrA hcap
        (by rw [← hsA]; exact hb.tw) (by rw [← hsA]; exact hb.rel) (by rw [← hsA]; exact hb.bpp) g' (by rw [← hsA]) hin'
        hw fw hf hk (by omega)
    have hL : 0 < (c.sub g').rowLen := inLen_pos hcolor hdepth hin'.1
    have hne : fr.pieces.flatten ≠ [] := by
      intro h0
      rw [h0] at hlen
      have : 0 < (c.sub g').rowLen * g'.h := Nat.mul_pos hL hin'.2.1
      simp at hlen
      omega
    have hvia := writes_via_begin (scanZ compress chooseZ) sA s1 (by rw [hwrA]; simp) hbeg (by omega) (by rw [hz1]; simp)
      fr.pieces hne
    -- the bytes of the frame
    obtain ⟨s2, curr2, ds, hrun2, hwr2, hok2, hcut, hlens, htw2, hidx2, hrel2, ho2, hkeep2⟩ :=
      frame_writes (scanZ compress chooseZ) c capx s1 _ wH true g' hfs fr.pieces fr.pieces.flatten rfl hlen
    obtain ⟨hne2, hflat2⟩ := cutOf_scanZ hcut
    -- the `Writer` after the frame
    have hwpre : AnimSt c { w with fctl := some { g' with seq := fw.seq } } := ⟨hw.static, hw.good, hw.iend⟩
    have hdl : ds.length ≤ (compress (rawOf (chooseFirst chooseZ) (c.sub g') fr.pieces.flatten)).length := by
      rw [← hflat2]; exact length_le_flatten_of_ne ds hne2
    obtain ⟨w', hem, hw', hk', han', hf', hl'⟩ := emitImage_later_cut c n plays ha hn
      { w with fctl := some { g' with seq := fw.seq } } hwpre { g' with seq := fw.seq } rfl hk (show w.animWritten < n by omega)
      ds ds (by show fw.seq + 1 + ds.length < 2 ^ 32; omega)
    have hw2 : (emitImage { w with fctl := some { g' with seq := fw.seq } } ds ds).1 = w' := by rw [hem]
    rw [hw2] at hwr2
    have hb2 : BetweenS c capx s2 w' g' := by
      obtain ⟨k1, k2, k3, k4⟩ := hkeep2
      refine ⟨⟨curr2, hwr2⟩, htw2, hidx2, hrel2, ?_, ?_, ?_, ?_, ?_⟩
      · rw [ho2, ho1, ← hsA]; exact hb.own
      · rw [k4, hfs.bpp]
      · rw [k2, hw1, ← hsA]; exact hb.width
      · rw [k3, hh1, ← hsA]; exact hb.height
      · rw [k1, hfc1, ← hsA]
    have han2 : w'.animWritten = w.animWritten + 1 := han'
    -- the other frames
    obtain ⟨s3, w3, g3, gs, rs3, hrun3, hres3, hb3, hw3, hk3, hf3, hl3, hgs3⟩ := ih s2 w' g'
      { g' with seq := fw.seq + 1 + ds.length } hb2 hw' hk' (by rw [hf', han2]) hin' (by rw [han2]; omega) hrest
      (by show fw.seq + 1 + ds.length + _ < 2 ^ 32; omega)
    -- the whole run
    have hrunW : runSOps (scanZ compress chooseZ) sA (fr.pieces.map SOp.write) = (s2, fr.pieces.map fun _ => Res.ok) := by
      rw [hvia]; exact hrun2
    have hnpW : anyPanic (fr.pieces.map fun _ => Res.ok) = false := (sResOk_writes fr.pieces).anyPanic
    have hnpA : anyPanic rsA = false := (sResOk_sets fr.pre rsA hresA hlenA).anyPanic
    have hops : sOps (fr :: rest) = fr.pre.map SOp.set ++ (fr.pieces.map SOp.write ++ sOps rest) := by
      simp [sOps, SFrame.ops]
    have hall : runSOps (scanZ compress chooseZ) s (sOps (fr :: rest)) = (s3, rsA ++ ((fr.pieces.map fun _ => Res.ok) ++ rs3)) := by
      rw [hops, runSOps_append _ _ _ s sA rsA hrunA hnpA, runSOps_append _ _ _ sA s2 _ hrunW hnpW, hrun3]
    refine ⟨s3, w3, g3, ({ g' with seq := fw.seq }, ds, fr.pieces.flatten) :: gs, _, hall, ?_, hb3, hw3, hk3, hf3, ?_, ?_⟩
    · rw [hops]
      exact (sResOk_sets fr.pre rsA hresA hlenA).append ((sResOk_writes fr.pieces).append hres3)
    · rw [hl3, hl']
      show w.sink.log ++ _ ++ _ = _
      simp [gChunks]
    · show _ ∧ _ ∧ _ ∧ _ ∧ _ ∧ _
      rw [hg']
      exact ⟨rfl, rfl, hne2, fdatChunks_data_len ds _ capx (by simpa [dataChunks] using hlens), hflat2, hgs3⟩

/-- the chunks of a stream-writer animation: header chunks, `fcTL` 0 + `IDAT` chunks `ds0`, the later frames, `IEND` -/
def sAnimChunks (c : Enc.Cfg) (f0 : FC) (ds0 : List Bytes) (gs : List (FC × List Bytes × Bytes)) : List RChunk :=
  headerChunks c ++ (mkFctl f0 :: ds0.map mkIdat) ++ gChunks gs ++ [iendChunk]

/-- **the whole session**: `write_header`, `into_stream_writer_with_size(size)`, the frames (`sOps`), `finish`, on a sink that
    never fails -/
theorem anim_stream_log (E : Codec) (compress : Bytes → Bytes) (chooseZ : Bytes → Bytes → FilterType) (c : Enc.Cfg)
    (n plays : Nat) (f0 : FC) (hc : c.Anim n plays f0) (hsep : c.sepDefImg = false)
    (hcov : f0.x = 0 ∧ f0.y = 0 ∧ f0.w = c.width ∧ f0.h = c.height) (size : Nat)
    (fr0 : SFrame) (frs : List SFrame) (hn : n = frs.length + 1)
    (hlen0 : fr0.pieces.flatten.length = c.rowLen * c.height)
    (hl : SLaterOk c (fcOfS c.width c.height f0 fr0.pre) frs) (hsz : c.rowLen * c.height < 2 ^ 64)
    (hbud : 1 + sBudget compress chooseZ c (fcOfS c.width c.height f0 fr0.pre) frs < 2 ^ 32) :
    (runProg E (scanZ compress chooseZ) c {} [] (.intoStream size (sOps (fr0 :: frs)) .finish)).header = .ok ∧
    (∃ rs, (runProg E (scanZ compress chooseZ) c {} [] (.intoStream size (sOps (fr0 :: frs)) .finish)).final =
        .ok :: rs ++ [.ok] ∧ SResOk (sOps (fr0 :: frs)) rs) ∧
    ∃ ds0 gs,
      (runProg E (scanZ compress chooseZ) c {} [] (.intoStream size (sOps (fr0 :: frs)) .finish)).state.sink.log =
        sigEmit :: (sAnimChunks c f0 ds0 gs).map fullEmit ∧
      (∀ d ∈ ds0, d ≠ []) ∧ (∀ d ∈ ds0, d.length ≤ max (min chunkCap size) streamMinBuffer) ∧
      ds0.flatten = compress (rawOf (chooseFirst chooseZ) c fr0.pieces.flatten) ∧
      GsOk compress chooseZ c (max (min chunkCap size) streamMinBuffer) (fcOfS c.width c.height f0 fr0.pre) 1 frs gs := by
  generalize hZ : scanZ compress chooseZ = Z
  generalize hcapx : max (min chunkCap size) streamMinBuffer = capx
  have hcap : 5 ≤ capx := by rw [← hcapx]; exact Nat.le_max_right _ _
  obtain ⟨w0, hh, hw0, hlog0, hi0, han0, hf0⟩ := writeHeader_anim c n plays f0 hc
  obtain ⟨s0, wH, hnew, hfs0, ho0, hfc0, hwd0, hht0⟩ := SW.new_anim Z c n plays f0 hc hcov w0 hw0 hi0 han0 hf0 hsz true size
  rw [hcapx] at hfs0
  -- the setter calls in front of the first frame's bytes reach the copy only
  obtain ⟨rsA, hrunA, hresA, hlenA⟩ := sets_run Z fr0.pre s0 f0 hfc0 (by rw [hwd0, hht0]; exact hc.rect)
  have hfcs : fcOfS s0.width s0.height f0 fr0.pre = fcOfS c.width c.height f0 fr0.pre := by rw [hwd0, hht0]
  rw [hfcs] at hrunA
  have hin' : FcIn c.width c.height (fcOfS c.width c.height f0 fr0.pre) := fcOf_in _ f0 hc.rect
  generalize hg' : fcOfS c.width c.height f0 fr0.pre = g' at *
  have hfsA := hfs0.setFctl (some g')
  generalize hsA : ({ s0 with fctl := some g' } : SW) = sA at hrunA hfsA
  -- the first frame
  have hsub : c.sub f0 = c := sub_cover c f0 hcov.2.2.1 hcov.2.2.2
  obtain ⟨s2, curr2, ds0, hrun2, hwr2, hok2, hcut, hlens, htw2, hidx2, hrel2, ho2, hkeep2⟩ :=
    frame_writes Z c capx sA w0 wH false f0 hfsA fr0.pieces fr0.pieces.flatten rfl (by rw [hsub, hcov.2.2.2]; exact hlen0)
  subst hZ
  obtain ⟨hne0, hflat0⟩ := cutOf_scanZ hcut
  rw [hsub] at hflat0
  obtain ⟨w1, hem, hw1, hk1, han1, hf1, hl1⟩ := emitImage_first_cut c n plays hc.actl hsep w0 hw0 f0 hf0 hi0 han0 ds0 ds0
    (by rw [hc.seq0]; decide)
  have hw1e : (emitImage w0 ds0 ds0).1 = w1 := by rw [hem]
  rw [hw1e] at hwr2
  have hb2 : BetweenS c capx s2 w1 g' := by
    obtain ⟨k1, k2, k3, k4⟩ := hkeep2
    refine ⟨⟨curr2, hwr2⟩, htw2, hidx2, hrel2, ?_, ?_, ?_, ?_, ?_⟩
    · rw [ho2, ← hsA]; exact ho0
    · rw [k4, hfsA.bpp]
    · rw [k2, ← hsA]; exact hwd0
    · rw [k3, ← hsA]; exact hht0
    · rw [k1, ← hsA]
  -- the other frames
  have hseq1 : ({ f0 with seq := f0.seq + 1 } : FC).seq = 1 := by show f0.seq + 1 = 1; rw [hc.seq0]
  obtain ⟨s3, w3, g3, gs, rs3, hrun3, hres3, hb3, hw3, hk3, hf3, hl3, hgs3⟩ :=
    stream_later_run compress chooseZ c n plays hc.color hc.depth hc.actl hc.nlt hsz capx hcap frs s2 w1 g'
      { f0 with seq := f0.seq + 1 } hb2 hw1 hk1 (by rw [hf1, han1]) hin' (by rw [han1, hn]; omega) hl
      (by rw [hseq1]; exact hbud)
  rw [hseq1] at hgs3
  -- `finish`
  obtain ⟨curr3, hwr3⟩ := hb3.wr
  have hv3 : validateSequenceDone w3 = none := by
    unfold validateSequenceDone
    cases w3.validate <;> simp [hf3, hk3]
  obtain ⟨f1, f2⟩ := finish_between (Z := scanZ compress chooseZ) hwr3 hb3.idx hb3.tw hw3.good hw3.iend w0
  rw [hv3] at f1 f2
  simp only [hb3.own, if_true] at f2
  obtain ⟨wi, _⟩ := writeIend_good hw3.good
  have hdrop : dropW w3 = { w3 with iendWritten := true, sink := (w3.sink.emitChunks [iendChunk]).1 } := by
    simp [dropW, hw3.iend, wi]
  obtain ⟨l4, _⟩ := Sink.emitChunks_good_log [iendChunk] hw3.good
  -- the whole run
  have hresW := sResOk_writes fr0.pieces
  have hresS := sResOk_sets fr0.pre rsA hresA hlenA
  have hops : sOps (fr0 :: frs) = fr0.pre.map SOp.set ++ (fr0.pieces.map SOp.write ++ sOps frs) := by
    simp [sOps, SFrame.ops]
  have hall : runSOps (scanZ compress chooseZ) s0 (sOps (fr0 :: frs)) =
      (s3, rsA ++ ((fr0.pieces.map fun _ => Res.ok) ++ rs3)) := by
    rw [hops, runSOps_append _ _ _ s0 sA rsA hrunA hresS.anyPanic, runSOps_append _ _ _ sA s2 _ hrun2 hresW.anyPanic, hrun3]
  have hresAll : SResOk (sOps (fr0 :: frs)) (rsA ++ ((fr0.pieces.map fun _ => Res.ok) ++ rs3)) := by
    rw [hops]; exact hresS.append (hresW.append hres3)
  have hprog : runProg E (scanZ compress chooseZ) c {} [] (.intoStream size (sOps (fr0 :: frs)) .finish) =
      { state := (s3.finish (scanZ compress chooseZ)).1.writerState w0, header := .ok, results := [],
        final := .ok :: (rsA ++ ((fr0.pieces.map fun _ => Res.ok) ++ rs3)) ++ [(s3.finish (scanZ compress chooseZ)).2] } := by
    simp only [runProg, hh, runSteps, List.any_nil, Bool.false_eq_true, if_false, streamSession, hnew, hall, hresAll.anyPanic]
  rw [hprog]
  refine ⟨rfl, ⟨_, by simp only [f1], hresAll⟩, ds0, gs, ?_, hne0, ?_, hflat0, hgs3⟩
  · show ((s3.finish (scanZ compress chooseZ)).1.writerState w0).sink.log = _
    rw [f2]
    show ((dropW w3).sink.flush).1.log = _
    rw [(flush_log _).1, hdrop]
    show (w3.sink.emitChunks [iendChunk]).1.log = _
    rw [l4, hl3, hl1, hlog0]
    simp [sAnimChunks]
  · intro d hd
    have := hlens (mkIdat d) (by simp only [dataChunks, Bool.false_eq_true, if_false]; exact List.mem_map_of_mem hd)
    exact this

end Png.RoundTrip
