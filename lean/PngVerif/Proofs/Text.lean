import PngVerif.Model.Text
/-!
# Lemmas about the text-chunk model (`PngVerif/Model/Text.lean`)

Sections: Latin-1 coding; UTF-8 coding (Lean's `String` invariant is Rust's); ASCII; splitting at
NUL; the `OptCompressed` machine under the codec contract; chunk body round trips.
All statements are for all inputs (induction over the byte string / character list).
-/
namespace Png

/-! ## Latin-1 -/

theorem charOfNat_toNat_lt (n : Nat) (h : n < 256) : (Char.ofNat n).toNat = n := by
  have hv : n.isValidChar := Or.inl (by omega)
  simp [Char.ofNat, hv, Char.ofNatAux, Char.toNat]

theorem latin1Char_toNat (b : UInt8) : (latin1Char b).toNat = b.toNat :=
  charOfNat_toNat_lt b.toNat b.toNat_lt

theorem latin1Byte_latin1Char (b : UInt8) : latin1Byte (latin1Char b) = .ok b := by
  have h := latin1Char_toNat b
  have hb := b.toNat_lt
  unfold latin1Byte
  rw [h]
  simp only [show b.toNat ≤ 255 by omega, if_true]
  congr 1
  exact UInt8.ofNat_toNat

theorem toUInt8_toNat_of_le (n : Nat) (h : n ≤ 255) : n.toUInt8.toNat = n := by
  simp [Nat.toUInt8, UInt8.toNat_ofNat']; omega

theorem latin1Char_of_byte (c : Char) (h : c.toNat ≤ 255) : latin1Char c.toNat.toUInt8 = c := by
  unfold latin1Char
  rw [toUInt8_toNat_of_le _ h, Char.ofNat_toNat]

theorem latin1Byte_ok_iff (c : Char) (b : UInt8) :
    latin1Byte c = .ok b ↔ c.toNat ≤ 255 ∧ b = c.toNat.toUInt8 := by
  unfold latin1Byte
  by_cases h : c.toNat ≤ 255
  · simp only [h, if_true, true_and, Except.ok.injEq]; exact eq_comm
  · simp [h]

theorem latin1Byte_err (c : Char) (e : TextEncErr) :
    latin1Byte c = .error e ↔ c.toNat > 255 ∧ e = .unrepresentable := by
  unfold latin1Byte
  by_cases h : c.toNat ≤ 255
  · simp only [h, if_true]; constructor
    · intro h'; cases h'
    · intro ⟨h', _⟩; omega
  · simp only [h, if_false, Except.error.injEq]; constructor
    · intro h'; exact ⟨by omega, h'.symm⟩
    · intro ⟨_, h'⟩; exact h'.symm

theorem encodeLatin1L_nil : encodeLatin1L [] = .ok [] := rfl

theorem encodeLatin1L_cons (c : Char) (cs : List Char) :
    encodeLatin1L (c :: cs) =
      match latin1Byte c with
      | .error e => .error e
      | .ok b => match encodeLatin1L cs with
        | .error e => .error e
        | .ok bs => .ok (b :: bs) := by
  unfold encodeLatin1L
  rw [List.mapM_cons]
  cases latin1Byte c <;> simp [bind, Except.bind, pure, Except.pure]
  cases List.mapM latin1Byte cs <;> rfl

theorem encodeLatin1L_map_latin1Char (bs : Bytes) : encodeLatin1L (bs.map latin1Char) = .ok bs := by
  induction bs with
  | nil => rfl
  | cons b bs ih => rw [List.map_cons, encodeLatin1L_cons, latin1Byte_latin1Char, ih]

/-- if encoding succeeds, the bytes are the code points and decoding gives the characters back -/
theorem encodeLatin1L_ok (cs : List Char) (bs : Bytes) (h : encodeLatin1L cs = .ok bs) :
    bs.map latin1Char = cs ∧ (∀ c ∈ cs, c.toNat ≤ 255) ∧ bs = cs.map (fun c => c.toNat.toUInt8) := by
  induction cs generalizing bs with
  | nil =>
    rw [encodeLatin1L_nil] at h; cases h; simp
  | cons c cs ih =>
    rw [encodeLatin1L_cons] at h
    cases hb : latin1Byte c with
    | error e => rw [hb] at h; cases h
    | ok b =>
      rw [hb] at h
      cases hr : encodeLatin1L cs with
      | error e => rw [hr] at h; cases h
      | ok bs' =>
        rw [hr] at h
        simp only [Except.ok.injEq] at h
        subst h
        obtain ⟨h1, h2, h3⟩ := ih bs' hr
        obtain ⟨hc, hbc⟩ := (latin1Byte_ok_iff c b).mp hb
        refine ⟨?_, ?_, ?_⟩
        · rw [List.map_cons, h1, hbc, latin1Char_of_byte c hc]
        · intro x hx
          rcases List.mem_cons.mp hx with rfl | hx
          · exact hc
          · exact h2 x hx
        · rw [List.map_cons, ← h3, hbc]

theorem encodeLatin1L_of_le (cs : List Char) (h : ∀ c ∈ cs, c.toNat ≤ 255) :
    encodeLatin1L cs = .ok (cs.map (fun c => c.toNat.toUInt8)) := by
  induction cs with
  | nil => rfl
  | cons c cs ih =>
    have hc : c.toNat ≤ 255 := h c (List.mem_cons_self ..)
    rw [encodeLatin1L_cons, (latin1Byte_ok_iff c _).mpr ⟨hc, rfl⟩,
      ih (fun x hx => h x (List.mem_cons_of_mem _ hx))]
    rfl

theorem encodeLatin1L_err (cs : List Char) (e : TextEncErr) (h : encodeLatin1L cs = .error e) :
    e = .unrepresentable ∧ ∃ c ∈ cs, c.toNat > 255 := by
  induction cs with
  | nil => rw [encodeLatin1L_nil] at h; cases h
  | cons c cs ih =>
    rw [encodeLatin1L_cons] at h
    cases hb : latin1Byte c with
    | error e' =>
      rw [hb] at h; cases h
      obtain ⟨h1, h2⟩ := (latin1Byte_err c e).mp hb
      exact ⟨h2, c, List.mem_cons_self .., h1⟩
    | ok b =>
      rw [hb] at h
      cases hr : encodeLatin1L cs with
      | error e' =>
        rw [hr] at h; cases h
        obtain ⟨h1, c', hc', h2⟩ := ih hr
        exact ⟨h1, c', List.mem_cons_of_mem _ hc', h2⟩
      | ok bs' => rw [hr] at h; cases h

theorem latin1_decode_encode (bs : Bytes) : encodeLatin1 (decodeLatin1 bs) = .ok bs := by
  unfold encodeLatin1 decodeLatin1
  rw [String.toList_ofList, encodeLatin1L_map_latin1Char]

theorem decodeLatin1_of_encodeLatin1 (s : String) (bs : Bytes) (h : encodeLatin1 s = .ok bs) :
    decodeLatin1 bs = s := by
  unfold decodeLatin1
  rw [(encodeLatin1L_ok _ _ h).1, String.ofList_toList]

theorem encodeLatin1_isLatin1 (s : String) (bs : Bytes) (h : encodeLatin1 s = .ok bs) : IsLatin1 s :=
  (encodeLatin1L_ok _ _ h).2.1

theorem encodeLatin1_of_isLatin1 (s : String) (h : IsLatin1 s) :
    encodeLatin1 s = .ok (s.toList.map (fun c => c.toNat.toUInt8)) :=
  encodeLatin1L_of_le _ h

theorem latin1_encode_decode (s : String) (h : IsLatin1 s) :
    (encodeLatin1 s).map decodeLatin1 = .ok s := by
  have h1 := encodeLatin1_of_isLatin1 s h
  rw [h1]
  simp only [Except.map]
  rw [decodeLatin1_of_encodeLatin1 s _ h1]

theorem latin1_encode_err_iff (s : String) :
    (encodeLatin1 s).isOk = false ↔ ∃ c ∈ s.toList, c.toNat > 255 := by
  constructor
  · intro h
    cases hr : encodeLatin1 s with
    | ok bs => rw [hr] at h; simp [Except.isOk, Except.toBool] at h
    | error e => exact (encodeLatin1L_err _ e hr).2
  · intro ⟨c, hc, hgt⟩
    cases hr : encodeLatin1 s with
    | ok bs => have := encodeLatin1_isLatin1 s bs hr c hc; omega
    | error e => rfl

theorem latin1_encode_err_kind (s : String) (e : TextEncErr) (h : encodeLatin1 s = .error e) :
    e = .unrepresentable := (encodeLatin1L_err _ e h).1

theorem decodeLatin1_toList (bs : Bytes) : (decodeLatin1 bs).toList = bs.map latin1Char := by
  unfold decodeLatin1; rw [String.toList_ofList]

theorem decodeLatin1_length (bs : Bytes) : (decodeLatin1 bs).length = bs.length := by
  unfold decodeLatin1; rw [String.length_ofList, List.length_map]

theorem encodeLatin1_length (s : String) (bs : Bytes) (h : encodeLatin1 s = .ok bs) :
    bs.length = s.length := by
  rw [← decodeLatin1_of_encodeLatin1 s bs h, decodeLatin1_length]

theorem decodeLatin1_isLatin1 (bs : Bytes) : IsLatin1 (decodeLatin1 bs) :=
  encodeLatin1_isLatin1 _ _ (latin1_decode_encode bs)

theorem decodeLatin1_injective (a b : Bytes) (h : decodeLatin1 a = decodeLatin1 b) : a = b := by
  have := latin1_decode_encode a
  rw [h, latin1_decode_encode] at this
  cases this; rfl

theorem decodeLatin1_append (a b : Bytes) :
    decodeLatin1 (a ++ b) = decodeLatin1 a ++ decodeLatin1 b := by
  apply String.toList_inj.mp
  rw [String.toList_append, decodeLatin1_toList, decodeLatin1_toList, decodeLatin1_toList, List.map_append]

/-- code point of the `i`-th character = value of the `i`-th byte -/
theorem decodeLatin1_pointwise (bs : Bytes) (i : Nat) (h : i < bs.length) :
    ((decodeLatin1 bs).toList[i]?).map Char.toNat = some bs[i].toNat := by
  rw [decodeLatin1_toList]
  simp [h, latin1Char_toNat]

/-- NUL bytes correspond to U+0000 -/
theorem nul_mem_encodeLatin1 (s : String) (bs : Bytes) (h : encodeLatin1 s = .ok bs) :
    (0 : UInt8) ∉ bs ↔ NulFree s := by
  obtain ⟨_, h2, h3⟩ := encodeLatin1L_ok _ _ h
  subst h3
  unfold NulFree
  constructor
  · intro hn c hc h0
    apply hn
    rw [List.mem_map]
    exact ⟨c, hc, by rw [h0]; rfl⟩
  · intro hn hmem
    rw [List.mem_map] at hmem
    obtain ⟨c, hc, h0⟩ := hmem
    apply hn c hc
    have := congrArg UInt8.toNat h0
    rw [toUInt8_toNat_of_le _ (h2 c hc)] at this
    exact this

/-! ## UTF-8 -/

theorem utf8_rt (s : String) : String.fromUTF8? s.toUTF8 = some s := by
  have h : s.toByteArray.IsValidUTF8 := s.isValidUTF8
  simp [String.fromUTF8?, String.toUTF8, h, String.fromUTF8]

theorem utf8_inv (b : ByteArray) (s : String) (h : String.fromUTF8? b = some s) : s.toUTF8 = b := by
  unfold String.fromUTF8? at h
  split at h
  · cases h; rfl
  · cases h

theorem utf8_valid_iff (b : ByteArray) : (String.fromUTF8? b).isSome ↔ b.IsValidUTF8 := by
  unfold String.fromUTF8?
  split <;> simp [*]

theorem ofList_data_toList (b : ByteArray) : ofList b.data.toList = b := by
  unfold ofList; rw [Array.toArray_toList]

theorem ofList_data (l : Bytes) : (ofList l).data.toList = l := by
  unfold ofList; simp

theorem utf8Decode_utf8Encode (s : String) : utf8Decode (utf8Encode s) = some s := by
  unfold utf8Decode utf8Encode
  rw [ofList_data_toList, utf8_rt]

theorem utf8Encode_of_utf8Decode (bs : Bytes) (s : String) (h : utf8Decode bs = some s) :
    utf8Encode s = bs := by
  unfold utf8Decode at h
  unfold utf8Encode
  rw [utf8_inv _ _ h, ofList_data]

/-- accepted iff the bytes are the UTF-8 encoding of a sequence of Unicode scalar values -/
theorem utf8Decode_isSome_iff (bs : Bytes) :
    (utf8Decode bs).isSome ↔ ∃ cs : List Char, ofList bs = cs.utf8Encode := by
  unfold utf8Decode
  rw [utf8_valid_iff]
  constructor
  · intro ⟨m, hm⟩; exact ⟨m, hm⟩
  · intro ⟨m, hm⟩; exact ⟨m, hm⟩

theorem utf8Encode_injective (s t : String) (h : utf8Encode s = utf8Encode t) : s = t := by
  have := utf8Decode_utf8Encode s
  rw [h, utf8Decode_utf8Encode] at this
  cases this; rfl

theorem utf8Encode_length (s : String) : (utf8Encode s).length = s.utf8ByteSize := by
  unfold utf8Encode String.toUTF8
  rw [Array.length_toList]; rfl


/-! ## UTF-8 bytes of a string, character by character -/

theorem utf8Encode_eq_flatMap (s : String) :
    utf8Encode s = s.toList.flatMap String.utf8EncodeChar := by
  unfold utf8Encode String.toUTF8
  conv => lhs; rw [← String.ofList_toList (s := s), String.toByteArray_ofList]
  unfold List.utf8Encode
  rw [List.data_toByteArray]

theorem utf8EncodeChar_ascii (c : Char) (h : c.toNat < 128) :
    String.utf8EncodeChar c = [c.toNat.toUInt8] := by
  unfold String.utf8EncodeChar
  have : c.val.toNat ≤ 127 := by unfold Char.toNat at h; omega
  simp only [this, if_true]
  rfl

theorem nul_mem_utf8EncodeChar (c : Char) : (0 : UInt8) ∈ String.utf8EncodeChar c ↔ c.toNat = 0 := by
  have key : ∀ n : Nat, (0 : UInt8) = UInt8.ofNat n ↔ n % 256 = 0 := by
    intro n
    rw [← UInt8.toNat_inj, UInt8.toNat_ofNat']
    simp only [UInt8.toNat_zero]  
    omega
  unfold String.utf8EncodeChar Char.toNat
  generalize c.val.toNat = v
  simp only
  split
  · simp only [List.mem_singleton, key]; omega
  · split
    · simp only [List.mem_cons, List.not_mem_nil, or_false, key]; omega
    · split
      · simp only [List.mem_cons, List.not_mem_nil, or_false, key]; omega
      · simp only [List.mem_cons, List.not_mem_nil, or_false, key]; omega

theorem nul_mem_utf8Encode (s : String) : (0 : UInt8) ∉ utf8Encode s ↔ NulFree s := by
  rw [utf8Encode_eq_flatMap]
  unfold NulFree
  simp only [List.mem_flatMap, not_exists, not_and]
  constructor
  · intro h c hc h0; exact h c hc ((nul_mem_utf8EncodeChar c).mpr h0)
  · intro h c hc hm; exact h c hc ((nul_mem_utf8EncodeChar c).mp hm)

theorem utf8Encode_ascii (s : String) (h : isAsciiStr s = true) :
    utf8Encode s = s.toList.map (fun c => c.toNat.toUInt8) := by
  rw [utf8Encode_eq_flatMap]
  unfold isAsciiStr at h
  rw [List.all_eq_true] at h
  generalize s.toList = cs at h
  induction cs with
  | nil => rfl
  | cons c cs ih =>
    have hc : c.toNat < 128 := by simpa using h c (List.mem_cons_self ..)
    rw [List.flatMap_cons, utf8EncodeChar_ascii c hc, ih (fun x hx => h x (List.mem_cons_of_mem _ hx))]
    rfl

theorem isAsciiBytes_utf8Encode (s : String) (h : isAsciiStr s = true) :
    isAsciiBytes (utf8Encode s) = true := by
  rw [utf8Encode_ascii s h]
  unfold isAsciiStr at h
  unfold isAsciiBytes
  rw [List.all_eq_true] at h ⊢
  intro b hb
  rw [List.mem_map] at hb
  obtain ⟨c, hc, rfl⟩ := hb
  have hc' : c.toNat < 128 := by simpa using h c hc
  have := toUInt8_toNat_of_le c.toNat (by omega)
  simp only [decide_eq_true_eq, UInt8.lt_iff_toNat_lt, this]
  exact hc'

/-- ASCII bytes decode as UTF-8 to the string with those code points -/
theorem utf8Decode_ascii (bs : Bytes) (h : isAsciiBytes bs = true) :
    utf8Decode bs = some (decodeLatin1 bs) := by
  have hs : isAsciiStr (decodeLatin1 bs) = true := by
    unfold isAsciiStr isAsciiBytes at *
    rw [List.all_eq_true] at h ⊢
    intro c hc
    rw [decodeLatin1_toList, List.mem_map] at hc
    obtain ⟨b, hb, rfl⟩ := hc
    have := h b hb
    simp only [decide_eq_true_eq, UInt8.lt_iff_toNat_lt] at this ⊢
    rw [latin1Char_toNat]; exact this
  have h1 : utf8Encode (decodeLatin1 bs) = bs := by
    rw [utf8Encode_ascii _ hs]
    have := latin1_decode_encode bs
    rw [encodeLatin1_of_isLatin1 _ (decodeLatin1_isLatin1 bs)] at this
    exact (Except.ok.inj this)
  have := utf8Decode_utf8Encode (decodeLatin1 bs)
  rw [h1] at this
  exact this

/-- the `expect("unreachable")` in `decode_ascii` cannot fire -/
theorem decodeAscii_ne_panic (bs : Bytes) : decodeAscii bs ≠ .panic := by
  unfold decodeAscii
  split
  · rename_i h; rw [utf8Decode_ascii bs h]; simp
  · simp

theorem decodeAscii_eq (bs : Bytes) :
    decodeAscii bs = if isAsciiBytes bs then .ok (decodeLatin1 bs) else .err .unrepresentable := by
  unfold decodeAscii
  split
  · rename_i h; rw [utf8Decode_ascii bs h]
  · rfl

theorem decodeAscii_utf8Encode (s : String) (h : isAsciiStr s = true) :
    decodeAscii (utf8Encode s) = .ok s := by
  unfold decodeAscii
  rw [isAsciiBytes_utf8Encode s h, utf8Decode_utf8Encode]
  rfl


/-! ## Splitting at the first NUL -/

theorem splitNul_nil : splitNul [] = none := rfl

theorem splitNul_cons (b : UInt8) (bs : Bytes) :
    splitNul (b :: bs) =
      if b = 0 then some ([], bs) else (splitNul bs).map (fun p => (b :: p.1, p.2)) := by
  unfold splitNul
  by_cases h : b = 0
  · subst h; simp
  · simp only [List.dropWhile_cons, List.takeWhile_cons, bne_iff_ne, ne_eq, h, not_false_eq_true,
      if_true, if_false]
    cases List.dropWhile (fun b => b != 0) bs <;> rfl

/-- the first component has no NUL, and the input is `first ++ 0 :: second` -/
theorem splitNul_eq_some_iff (bs a r : Bytes) :
    splitNul bs = some (a, r) ↔ bs = a ++ 0 :: r ∧ (0 : UInt8) ∉ a := by
  induction bs generalizing a with
  | nil => simp [splitNul_nil]
  | cons b bs ih =>
    rw [splitNul_cons]
    by_cases h : b = 0
    · subst h
      simp only [if_true, Option.some.injEq, Prod.mk.injEq]
      constructor
      · rintro ⟨rfl, rfl⟩; simp
      · rintro ⟨h1, h2⟩
        cases a with
        | nil => simp at h1; exact ⟨rfl, h1⟩
        | cons x a =>
          simp only [List.cons_append, List.cons.injEq] at h1
          exact absurd (h1.1 ▸ List.mem_cons_self ..) h2
    · simp only [h, if_false]
      constructor
      · intro hs
        cases hr : splitNul bs with
        | none => rw [hr] at hs; cases hs
        | some p =>
          rw [hr] at hs
          simp only [Option.map_some, Option.some.injEq, Prod.mk.injEq] at hs
          obtain ⟨rfl, rfl⟩ := hs
          obtain ⟨h1, h2⟩ := (ih p.1).mp hr
          refine ⟨by rw [List.cons_append, ← h1], ?_⟩
          intro hm
          rcases List.mem_cons.mp hm with h0 | h0
          · exact h h0.symm
          · exact h2 h0
      · rintro ⟨h1, h2⟩
        cases a with
        | nil => simp at h1; exact absurd h1.1 h
        | cons x a =>
          simp only [List.cons_append, List.cons.injEq] at h1
          obtain ⟨rfl, h1⟩ := h1
          have := (ih a).mpr ⟨h1, fun hm => h2 (List.mem_cons_of_mem _ hm)⟩
          rw [this]; rfl

theorem splitNul_append (a r : Bytes) (h : (0 : UInt8) ∉ a) : splitNul (a ++ 0 :: r) = some (a, r) :=
  (splitNul_eq_some_iff _ a r).mpr ⟨rfl, h⟩

theorem splitNul_eq_none_iff (bs : Bytes) : splitNul bs = none ↔ (0 : UInt8) ∉ bs := by
  induction bs with
  | nil => simp [splitNul_nil]
  | cons b bs ih =>
    rw [splitNul_cons]
    by_cases h : b = 0
    · subst h; simp
    · simp only [h, if_false, Option.map_eq_none_iff, ih, List.mem_cons, not_or]
      constructor
      · intro h'; exact ⟨fun h0 => h h0.symm, h'⟩
      · intro h'; exact h'.2

/-! ## `split_keyword` and the three parsers against the specification's layout -/

/-- a keyword as the PNG specification lays it out in the file: 1..79 bytes, none of them zero -/
def KeywordBytes (kw : Bytes) : Prop := 1 ≤ kw.length ∧ kw.length ≤ 79 ∧ (0 : UInt8) ∉ kw

theorem badKeywordLen_eq_false (kw : Bytes) : badKeywordLen kw = false ↔ 1 ≤ kw.length ∧ kw.length ≤ 79 := by
  unfold badKeywordLen maxKeywordLen
  cases kw with
  | nil => simp
  | cons b bs => simp

theorem kwIndexCheck (a : Bytes) :
    (a.length == 0 || decide (a.length > maxKeywordLen)) = true ↔ (a.length = 0 ∨ a.length > 79) := by
  unfold maxKeywordLen; simp

theorem splitKeyword_of_splitNul (buf a r : Bytes) (hs : splitNul buf = some (a, r)) :
    splitKeyword buf =
      if a.length = 0 ∨ a.length > 79 then .error .invalidKeywordSize else .ok (a, r) := by
  unfold splitKeyword
  rw [hs]
  simp only
  by_cases h : a.length = 0 ∨ a.length > 79
  · rw [if_pos ((kwIndexCheck a).mpr h), if_pos h]
  · rw [if_neg (fun h' => h ((kwIndexCheck a).mp h')), if_neg h]

theorem splitKeyword_of_none (buf : Bytes) (hs : splitNul buf = none) :
    splitKeyword buf = .error .missingNullSeparator := by
  unfold splitKeyword; rw [hs]

theorem splitKeyword_append (kw rest : Bytes) (h : KeywordBytes kw) :
    splitKeyword (kw ++ 0 :: rest) = .ok (kw, rest) := by
  obtain ⟨h1, h2, h3⟩ := h
  rw [splitKeyword_of_splitNul _ _ _ (splitNul_append kw rest h3), if_neg (by omega)]

theorem splitKeyword_ok_iff (buf kw rest : Bytes) :
    splitKeyword buf = .ok (kw, rest) ↔ buf = kw ++ 0 :: rest ∧ KeywordBytes kw := by
  constructor
  · intro h
    cases hs : splitNul buf with
    | none => rw [splitKeyword_of_none _ hs] at h; cases h
    | some p =>
      obtain ⟨a, r⟩ := p
      obtain ⟨h1, h2⟩ := (splitNul_eq_some_iff _ _ _).mp hs
      rw [splitKeyword_of_splitNul _ _ _ hs] at h
      by_cases hb : a.length = 0 ∨ a.length > 79
      · rw [if_pos hb] at h; cases h
      · rw [if_neg hb] at h
        simp only [Except.ok.injEq, Prod.mk.injEq] at h
        obtain ⟨rfl, rfl⟩ := h
        exact ⟨h1, by omega, by omega, h2⟩
  · rintro ⟨rfl, h⟩
    exact splitKeyword_append _ _ h

/-- which error: no NUL at all → `MissingNullSeparator`; first NUL at index 0 or beyond 79 →
`InvalidKeywordSize` -/
theorem splitKeyword_err_iff (buf : Bytes) (e : TextDecErr) :
    splitKeyword buf = .error e ↔
      ((0 : UInt8) ∉ buf ∧ e = .missingNullSeparator) ∨
      (∃ a r, buf = a ++ 0 :: r ∧ (0 : UInt8) ∉ a ∧ (a.length = 0 ∨ a.length > 79) ∧ e = .invalidKeywordSize) := by
  cases hs : splitNul buf with
  | none =>
    have hn := (splitNul_eq_none_iff buf).mp hs
    rw [splitKeyword_of_none _ hs]
    simp only [Except.error.injEq]
    constructor
    · intro h; exact Or.inl ⟨hn, h.symm⟩
    · rintro (⟨_, h⟩ | ⟨a, r, h1, _⟩)
      · exact h.symm
      · exact absurd (h1 ▸ List.mem_append_right a (List.mem_cons_self ..)) hn
  | some p =>
    obtain ⟨a, r⟩ := p
    obtain ⟨h1, h2⟩ := (splitNul_eq_some_iff _ _ _).mp hs
    have hmem : (0 : UInt8) ∈ buf := h1 ▸ List.mem_append_right a (List.mem_cons_self ..)
    rw [splitKeyword_of_splitNul _ _ _ hs]
    by_cases hb : a.length = 0 ∨ a.length > 79
    · rw [if_pos hb]
      simp only [Except.error.injEq]
      constructor
      · intro h; exact Or.inr ⟨a, r, h1, h2, hb, h.symm⟩
      · rintro (⟨hn, _⟩ | ⟨_, _, _, _, _, h⟩)
        · exact absurd hmem hn
        · exact h.symm
    · rw [if_neg hb]
      simp only [reduceCtorEq, false_iff, not_or, not_and, not_exists]
      refine ⟨fun hn => absurd hmem hn, ?_⟩
      intro a' r' h3 h4 h5
      rw [h3, splitNul_append _ _ h4] at hs
      simp only [Option.some.injEq, Prod.mk.injEq] at hs
      obtain ⟨rfl, rfl⟩ := hs
      exact absurd h5 hb

/-- tEXt: the body is `keyword 0 text`, the text being *everything* after the first NUL (any byte,
including further NULs) -/
theorem parseTEXt_ok_iff (buf : Bytes) (c : TEXt) :
    parseTEXt buf = .ok c ↔
      ∃ kw text, buf = kw ++ 0 :: text ∧ KeywordBytes kw ∧ c = ⟨decodeLatin1 kw, decodeLatin1 text⟩ := by
  unfold parseTEXt
  cases hs : splitKeyword buf with
  | error e =>
    simp only [reduceCtorEq, false_iff, not_exists, not_and]
    intro kw text h1 h2
    rw [h1, splitKeyword_append _ _ h2] at hs; cases hs
  | ok p =>
    obtain ⟨kw, value⟩ := p
    obtain ⟨h1, h2⟩ := (splitKeyword_ok_iff _ _ _).mp hs
    have hb : badKeywordLen kw = false := (badKeywordLen_eq_false kw).mpr ⟨h2.1, h2.2.1⟩
    simp only [TEXt.decode, hb, Bool.false_eq_true, if_false, Except.ok.injEq]
    constructor
    · intro h; exact ⟨kw, value, h1, h2, h.symm⟩
    · rintro ⟨kw', text', h3, h4, h5⟩
      rw [h3, splitKeyword_append _ _ h4] at hs
      cases hs; exact h5.symm

theorem parseTEXt_layout (kw text : Bytes) (h : KeywordBytes kw) :
    parseTEXt (kw ++ 0 :: text) = .ok ⟨decodeLatin1 kw, decodeLatin1 text⟩ :=
  (parseTEXt_ok_iff _ _).mpr ⟨kw, text, rfl, h, rfl⟩

/-- zTXt: `keyword 0 method compressed…`, method must be 0 -/
theorem parseZTXt_ok_iff (buf : Bytes) (c : ZTXt) :
    parseZTXt buf = .ok c ↔
      ∃ kw z, buf = kw ++ 0 :: 0 :: z ∧ KeywordBytes kw ∧ c = ⟨decodeLatin1 kw, .compressed z⟩ := by
  unfold parseZTXt
  cases hs : splitKeyword buf with
  | error e =>
    simp only [reduceCtorEq, false_iff, not_exists, not_and]
    intro kw text h1 h2
    rw [h1, splitKeyword_append _ _ h2] at hs; cases hs
  | ok p =>
    obtain ⟨kw, value⟩ := p
    obtain ⟨h1, h2⟩ := (splitKeyword_ok_iff _ _ _).mp hs
    have hb : badKeywordLen kw = false := (badKeywordLen_eq_false kw).mpr ⟨h2.1, h2.2.1⟩
    simp only
    cases value with
    | nil =>
      simp only [reduceCtorEq, false_iff, not_exists, not_and]
      intro kw' z h3 h4
      rw [h3, splitKeyword_append _ _ h4] at hs; cases hs
    | cons m text =>
      simp only [ZTXt.decode, hb, Bool.false_eq_true, if_false]
      by_cases hm : m = 0
      · subst hm
        simp only [bne_self_eq_false, Bool.false_eq_true, if_false, Except.ok.injEq]
        constructor
        · intro h; exact ⟨kw, text, h1, h2, h.symm⟩
        · rintro ⟨kw', z, h3, h4, h5⟩
          rw [h3, splitKeyword_append _ _ h4] at hs
          cases hs; exact h5.symm
      · simp only [bne_iff_ne, ne_eq, hm, not_false_eq_true, if_true, reduceCtorEq, false_iff,
          not_exists, not_and]
        intro kw' z h3 h4
        rw [h3, splitKeyword_append _ _ h4] at hs
        cases hs; exact absurd rfl hm

theorem parseZTXt_layout (kw z : Bytes) (h : KeywordBytes kw) :
    parseZTXt (kw ++ 0 :: 0 :: z) = .ok ⟨decodeLatin1 kw, .compressed z⟩ :=
  (parseZTXt_ok_iff _ _).mpr ⟨kw, z, rfl, h, rfl⟩

/-- iTXt: `keyword 0 flag method language 0 translated 0 text` with the three separators being the
first NUL of the body, the first NUL after the method byte, and the first NUL after that -/
theorem parseITXt_layout (kw lang tk text : Bytes) (flag method : UInt8)
    (hk : KeywordBytes kw) (hl : (0 : UInt8) ∉ lang) (ht : (0 : UInt8) ∉ tk) :
    parseITXt (kw ++ 0 :: flag :: method :: (lang ++ 0 :: (tk ++ 0 :: text))) =
      ITXt.decode kw flag method lang tk text := by
  unfold parseITXt
  rw [splitKeyword_append _ _ hk]
  simp only
  rw [splitNul_append _ _ hl]
  simp only
  rw [splitNul_append _ _ ht]

theorem parseITXt_ok_layout (buf : Bytes) (c : ITXt) (h : parseITXt buf = .ok c) :
    ∃ kw flag method lang tk text,
      buf = kw ++ 0 :: flag :: method :: (lang ++ 0 :: (tk ++ 0 :: text)) ∧ KeywordBytes kw ∧
      (0 : UInt8) ∉ lang ∧ (0 : UInt8) ∉ tk ∧ ITXt.decode kw flag method lang tk text = .ok c := by
  unfold parseITXt at h
  cases hs : splitKeyword buf with
  | error e => rw [hs] at h; cases h
  | ok p =>
    obtain ⟨kw, value⟩ := p
    obtain ⟨h1, h2⟩ := (splitKeyword_ok_iff _ _ _).mp hs
    rw [hs] at h
    simp only at h
    match value, h1, h with
    | [], _, h => cases h
    | [_], _, h => cases h
    | flag :: method :: rest, h1, h =>
      simp only at h
      cases hl : splitNul rest with
      | none => rw [hl] at h; cases h
      | some p1 =>
        obtain ⟨lang, rest2⟩ := p1
        rw [hl] at h
        simp only at h
        cases ht : splitNul rest2 with
        | none => rw [ht] at h; cases h
        | some p2 =>
          obtain ⟨tk, text⟩ := p2
          rw [ht] at h
          simp only at h
          obtain ⟨e1, n1⟩ := (splitNul_eq_some_iff _ _ _).mp hl
          obtain ⟨e2, n2⟩ := (splitNul_eq_some_iff _ _ _).mp ht
          exact ⟨kw, flag, method, lang, tk, text, by rw [h1, e1, e2], h2, n1, n2, h⟩


/-! ## The two codings are lawful -/

theorem latin1Coding_ok : latin1Coding.Ok where
  dec_enc := by
    intro s b h
    simp only [latin1Coding] at h ⊢
    cases he : encodeLatin1 s with
    | error e => rw [he] at h; cases h
    | ok b' =>
      rw [he] at h
      simp only [Option.some.injEq] at h
      subst h
      rw [decodeLatin1_of_encodeLatin1 s b' he]
  enc_dec := by
    intro b s h
    simp only [latin1Coding, Option.some.injEq] at h ⊢
    subst h
    rw [latin1_decode_encode]

theorem utf8Coding_ok : utf8Coding.Ok where
  dec_enc := by
    intro s b h
    simp only [utf8Coding, Option.some.injEq] at h ⊢
    subst h
    exact utf8Decode_utf8Encode s
  enc_dec := by
    intro b s h
    simp only [utf8Coding] at h ⊢
    rw [utf8Encode_of_utf8Decode b s h]

theorem latin1Coding_enc_some (s : String) (b : Bytes) :
    latin1Coding.enc s = some b ↔ encodeLatin1 s = .ok b := by
  simp only [latin1Coding]
  cases encodeLatin1 s <;> simp

theorem latin1Coding_enc_none (s : String) :
    latin1Coding.enc s = none ↔ ∃ c ∈ s.toList, c.toNat > 255 := by
  rw [← latin1_encode_err_iff]
  simp only [latin1Coding]
  cases encodeLatin1 s <;> simp [Except.isOk, Except.toBool]

/-! ## Consequences of the codec contract -/

theorem ZCodec.Ok.bounded_of_decompress {z : ZCodec} (hz : z.Ok) (v x : Bytes) (n : Nat)
    (h : z.decompress v = some x) (hn : x.length ≤ n) : z.decompressBounded v n = .ok x :=
  (hz.bounded_ok v n x).mpr ⟨h, hn⟩

/-- a stream that inflates to more than `n` bytes is refused as too large -/
theorem ZCodec.Ok.bounded_tooLarge {z : ZCodec} (hz : z.Ok) (v x : Bytes) (n : Nat)
    (h : z.decompress v = some x) (hn : x.length > n) : z.decompressBounded v n = .error .tooLarge := by
  cases hb : z.decompressBounded v n with
  | ok y =>
    obtain ⟨h1, h2⟩ := (hz.bounded_ok v n y).mp hb
    rw [h] at h1; cases h1; omega
  | error e =>
    cases e with
    | tooLarge => rfl
    | corrupt => have := hz.bounded_corrupt v n hb; rw [h] at this; cases this

/-- a corrupt stream is refused whatever the limit -/
theorem ZCodec.Ok.bounded_of_corrupt {z : ZCodec} (hz : z.Ok) (v : Bytes) (n : Nat)
    (h : z.decompress v = none) : ∃ e, z.decompressBounded v n = .error e := by
  cases hb : z.decompressBounded v n with
  | ok y => have := ((hz.bounded_ok v n y).mp hb).1; rw [h] at this; cases this
  | error e => exact ⟨e, rfl⟩

/-! ## The `OptCompressed` machine -/

section OptC
variable {z : ZCodec} {k : Coding}

/-- an error never changes the state -/
theorem OptC.decompress_err_unchanged (n : Nat) (t : OptC) (e : TextDecErr)
    (h : (t.decompressWithLimit z k n).2 = .error e) : (t.decompressWithLimit z k n).1 = t := by
  unfold OptC.decompressWithLimit at h ⊢
  cases t with
  | uncompressed s => rfl
  | compressed v =>
    simp only at h ⊢
    cases hb : z.decompressBounded v n with
    | error be => cases be <;> rfl
    | ok raw =>
      rw [hb] at h
      simp only at h ⊢
      cases hd : k.dec raw with
      | none => rfl
      | some s => rw [hd] at h; cases h

theorem OptC.compress_err_unchanged (t : OptC) (e : TextEncErr)
    (h : (t.compress z k).2 = .error e) : (t.compress z k).1 = t := by
  unfold OptC.compress at h ⊢
  cases t with
  | compressed v => rfl
  | uncompressed s =>
    simp only at h ⊢
    cases he : k.enc s with
    | none => rfl
    | some raw => rw [he] at h; cases h

/-- over-long payload: error `OutOfDecompressionSpace`, state unchanged -/
theorem OptC.decompress_tooLarge (hz : z.Ok) (n : Nat) (v x : Bytes)
    (h : z.decompress v = some x) (hn : x.length > n) :
    (OptC.compressed v).decompressWithLimit z k n = (.compressed v, .error .outOfDecompressionSpace) := by
  unfold OptC.decompressWithLimit
  simp only [hz.bounded_tooLarge v x n h hn]

/-- corrupt payload: an error (`InflationError`, or `OutOfDecompressionSpace` when the inflater
produced more than `n` bytes before it met the corruption), state unchanged -/
theorem OptC.decompress_corrupt (hz : z.Ok) (n : Nat) (v : Bytes) (h : z.decompress v = none) :
    (OptC.compressed v).decompressWithLimit z k n = (.compressed v, .error .inflationError) ∨
    (OptC.compressed v).decompressWithLimit z k n = (.compressed v, .error .outOfDecompressionSpace) := by
  obtain ⟨e, he⟩ := hz.bounded_of_corrupt v n h
  unfold OptC.decompressWithLimit
  cases e with
  | tooLarge => right; simp only [he]
  | corrupt => left; simp only [he]

/-- success on a compressed state: the payload inflates to `raw` with `raw.length ≤ n`, the stored
string is its decoding, so the stored text occupies at most `n` bytes -/
theorem OptC.decompress_ok (hz : z.Ok) (hk : k.Ok) (n : Nat) (v : Bytes)
    (h : ((OptC.compressed v).decompressWithLimit z k n).2 = .ok ()) :
    ∃ raw s, z.decompress v = some raw ∧ raw.length ≤ n ∧ k.dec raw = some s ∧ k.enc s = some raw ∧
      ((OptC.compressed v).decompressWithLimit z k n).1 = .uncompressed s := by
  unfold OptC.decompressWithLimit at h ⊢
  simp only at h ⊢
  cases hb : z.decompressBounded v n with
  | error be => rw [hb] at h; cases be <;> cases h
  | ok raw =>
    rw [hb] at h
    simp only at h ⊢
    obtain ⟨h1, h2⟩ := (hz.bounded_ok v n raw).mp hb
    cases hd : k.dec raw with
    | none => rw [hd] at h; cases h
    | some s => exact ⟨raw, s, h1, h2, hd, hk.enc_dec raw s hd, rfl⟩

/-- exact outcome when the payload is well formed and small enough -/
theorem OptC.decompress_of_valid (hz : z.Ok) (n : Nat) (v raw : Bytes) (s : String)
    (h : z.decompress v = some raw) (hn : raw.length ≤ n) (hd : k.dec raw = some s) :
    (OptC.compressed v).decompressWithLimit z k n = (.uncompressed s, .ok ()) := by
  unfold OptC.decompressWithLimit
  simp only [hz.bounded_of_decompress v raw n h hn, hd]

theorem OptC.decompress_uncompressed (n : Nat) (s : String) :
    (OptC.uncompressed s).decompressWithLimit z k n = (.uncompressed s, .ok ()) := rfl

theorem OptC.compress_compressed (v : Bytes) :
    (OptC.compressed v).compress z k = (.compressed v, .ok ()) := rfl

theorem OptC.compress_of_enc (s : String) (raw : Bytes) (h : k.enc s = some raw) :
    (OptC.uncompressed s).compress z k = (.compressed (z.compress raw), .ok ()) := by
  unfold OptC.compress; simp only [h]

/-- `decompress` is idempotent (any two limits) -/
theorem OptC.decompress_idem (n m : Nat) (t : OptC) (h : (t.decompressWithLimit z k n).2 = .ok ()) :
    (t.decompressWithLimit z k n).1.decompressWithLimit z k m = ((t.decompressWithLimit z k n).1, .ok ()) := by
  cases t with
  | uncompressed s => rfl
  | compressed v =>
    unfold OptC.decompressWithLimit at h ⊢
    simp only at h ⊢
    cases hb : z.decompressBounded v n with
    | error be => rw [hb] at h; cases be <;> cases h
    | ok raw =>
      rw [hb] at h
      simp only at h ⊢
      cases hd : k.dec raw with
      | none => rw [hd] at h; cases h
      | some s => rfl

/-- `compress` is idempotent -/
theorem OptC.compress_idem (t : OptC) (h : (t.compress z k).2 = .ok ()) :
    (t.compress z k).1.compress z k = ((t.compress z k).1, .ok ()) := by
  cases t with
  | compressed v => rfl
  | uncompressed s =>
    unfold OptC.compress at h ⊢
    simp only at h ⊢
    cases he : k.enc s with
    | none => rw [he] at h; cases h
    | some raw => rfl

/-- `decompress ∘ compress = id` on an uncompressed text whose encoding fits the limit -/
theorem OptC.decompress_compress (hz : z.Ok) (hk : k.Ok) (n : Nat) (s : String) (raw : Bytes)
    (he : k.enc s = some raw) (hn : raw.length ≤ n) :
    ((OptC.uncompressed s).compress z k).1.decompressWithLimit z k n = (.uncompressed s, .ok ()) := by
  rw [OptC.compress_of_enc s raw he]
  exact OptC.decompress_of_valid hz n _ raw s (hz.roundtrip raw) hn (hk.dec_enc s raw he)

/-- `compress ∘ decompress`: the new payload is the deflation of what the old payload inflated to
(the same text, not necessarily the same bytes) -/
theorem OptC.compress_decompress (hz : z.Ok) (hk : k.Ok) (n : Nat) (v : Bytes)
    (h : ((OptC.compressed v).decompressWithLimit z k n).2 = .ok ()) :
    ∃ raw, z.decompress v = some raw ∧
      ((OptC.compressed v).decompressWithLimit z k n).1.compress z k = (.compressed (z.compress raw), .ok ()) ∧
      z.decompress (z.compress raw) = some raw := by
  obtain ⟨raw, s, h1, _, _, h4, h5⟩ := OptC.decompress_ok hz hk n v h
  exact ⟨raw, h1, by rw [h5, OptC.compress_of_enc s raw h4], hz.roundtrip raw⟩

/-- `get_text` does not depend on the representation: unchanged by a successful `compress` -/
theorem OptC.getText_compress (hz : z.Ok) (hk : k.Ok) (t : OptC) (h : (t.compress z k).2 = .ok ()) :
    (t.compress z k).1.getText z k = t.getText z k := by
  cases t with
  | compressed v => rfl
  | uncompressed s =>
    unfold OptC.compress at h ⊢
    simp only at h ⊢
    cases he : k.enc s with
    | none => rfl
    | some raw =>
      simp only [OptC.getText, hz.roundtrip raw, hk.dec_enc s raw he]

/-- … and unchanged by a successful `decompress_text_with_limit` -/
theorem OptC.getText_decompress (hz : z.Ok) (hk : k.Ok) (n : Nat) (t : OptC)
    (h : (t.decompressWithLimit z k n).2 = .ok ()) :
    (t.decompressWithLimit z k n).1.getText z k = t.getText z k := by
  cases t with
  | uncompressed s => rfl
  | compressed v =>
    obtain ⟨raw, s, h1, _, h3, _, h5⟩ := OptC.decompress_ok hz hk n v h
    rw [h5]
    simp only [OptC.getText, h1, h3]

/-- `get_text` of an uncompressed text is that text; of a compressed one the decoding of the
inflated payload -/
theorem OptC.getText_uncompressed (s : String) : (OptC.uncompressed s).getText z k = .ok s := rfl

theorem OptC.getText_compressed_ok (v raw : Bytes) (s : String) (h : z.decompress v = some raw)
    (hd : k.dec raw = some s) : (OptC.compressed v).getText z k = .ok s := by
  simp only [OptC.getText, h, hd]

/-- when `decompress_text_with_limit` fails, `get_text` still answers exactly as before, and a
later attempt with a sufficient limit succeeds: the chunk stays usable -/
theorem OptC.retry_after_error (hz : z.Ok) (n m : Nat) (v raw : Bytes) (s : String) (e : TextDecErr)
    (herr : ((OptC.compressed v).decompressWithLimit z k n).2 = .error e)
    (h : z.decompress v = some raw) (hd : k.dec raw = some s) (hm : raw.length ≤ m) :
    ((OptC.compressed v).decompressWithLimit z k n).1.decompressWithLimit z k m = (.uncompressed s, .ok ()) := by
  rw [OptC.decompress_err_unchanged n _ e herr]
  exact OptC.decompress_of_valid hz m v raw s h hm hd

end OptC


/-! ## Chunk bodies: what `encode` writes is read back by the parsers -/

theorem strHasNul_eq_false (s : String) : strHasNul s = false ↔ NulFree s := by
  unfold strHasNul NulFree
  rw [List.any_eq_false]
  constructor
  · intro h c hc h0; exact h c hc (by simp [h0])
  · intro h c hc; simpa using h c hc

theorem strHasNul_eq_true (s : String) : strHasNul s = true ↔ ¬ NulFree s := by
  rw [← strHasNul_eq_false]; cases strHasNul s <;> simp

/-- the keyword rule of the three `encode` functions: accepted iff Latin-1, 1..79 characters, and
no U+0000 -/
theorem encodeKeyword_ok_iff (kw : String) (data : Bytes) :
    encodeKeyword kw = .ok data ↔
      encodeLatin1 kw = .ok data ∧ 1 ≤ kw.length ∧ kw.length ≤ 79 ∧ NulFree kw := by
  unfold encodeKeyword
  cases he : encodeLatin1 kw with
  | error e => simp
  | ok d =>
    have hl := encodeLatin1_length kw d he
    have hnul := nul_mem_encodeLatin1 kw d he
    simp only
    cases hb : badKeywordLen d with
    | true =>
      have : ¬ (1 ≤ d.length ∧ d.length ≤ 79) := by
        intro h; rw [(badKeywordLen_eq_false d).mpr h] at hb; cases hb
      simp only [if_true, reduceCtorEq, Except.ok.injEq, false_iff, not_and]
      intro _ h1 h2; exact absurd ⟨by omega, by omega⟩ this
    | false =>
      have := (badKeywordLen_eq_false d).mp hb
      simp only [Bool.false_eq_true, if_false]
      by_cases hm : (0 : UInt8) ∈ d
      · simp only [hm, if_true, reduceCtorEq, Except.ok.injEq, false_iff, not_and]
        intro _ _ _ hn; exact hnul.mpr hn hm
      · simp only [hm, if_false, Except.ok.injEq]
        constructor
        · intro h; exact ⟨h, by omega, by omega, hnul.mp hm⟩
        · intro h; exact h.1

/-- which refusal: a character above U+00FF → `Unrepresentable`; otherwise an empty keyword or one
longer than 79 characters → `InvalidKeywordSize`; otherwise a U+0000 → `Unrepresentable` -/
theorem encodeKeyword_err_iff (kw : String) (e : TextEncErr) :
    encodeKeyword kw = .error e ↔
      (¬ IsLatin1 kw ∧ e = .unrepresentable) ∨
      (IsLatin1 kw ∧ (kw.length = 0 ∨ kw.length > 79) ∧ e = .invalidKeywordSize) ∨
      (IsLatin1 kw ∧ 1 ≤ kw.length ∧ kw.length ≤ 79 ∧ ¬ NulFree kw ∧ e = .unrepresentable) := by
  unfold encodeKeyword
  cases he : encodeLatin1 kw with
  | error e' =>
    obtain ⟨h1, c, hc, hgt⟩ := encodeLatin1L_err _ e' he
    have hnl : ¬ IsLatin1 kw := fun h => by have := h c hc; omega
    subst h1
    simp only [Except.error.injEq]
    constructor
    · intro h; exact Or.inl ⟨hnl, h.symm⟩
    · rintro (⟨_, h⟩ | ⟨h, _⟩ | ⟨h, _⟩)
      · exact h.symm
      · exact absurd h hnl
      · exact absurd h hnl
  | ok d =>
    have hl := encodeLatin1_length kw d he
    have hlat := encodeLatin1_isLatin1 kw d he
    have hnul := nul_mem_encodeLatin1 kw d he
    simp only
    cases hb : badKeywordLen d with
    | true =>
      have : ¬ (1 ≤ d.length ∧ d.length ≤ 79) := by
        intro h; rw [(badKeywordLen_eq_false d).mpr h] at hb; cases hb
      simp only [if_true, Except.error.injEq]
      constructor
      · intro h; exact Or.inr (Or.inl ⟨hlat, by omega, h.symm⟩)
      · rintro (⟨h, _⟩ | ⟨_, _, h⟩ | ⟨_, h1, h2, _⟩)
        · exact absurd hlat h
        · exact h.symm
        · exact absurd ⟨by omega, by omega⟩ this
    | false =>
      have := (badKeywordLen_eq_false d).mp hb
      simp only [Bool.false_eq_true, if_false]
      by_cases hm : (0 : UInt8) ∈ d
      · simp only [hm, if_true, Except.error.injEq]
        constructor
        · intro h
          exact Or.inr (Or.inr ⟨hlat, by omega, by omega, fun hn => hnul.mpr hn hm, h.symm⟩)
        · rintro (⟨h, _⟩ | ⟨_, h, _⟩ | ⟨_, _, _, _, h⟩)
          · exact absurd hlat h
          · omega
          · exact h.symm
      · simp only [hm, if_false, reduceCtorEq, false_iff, not_or, not_and]
        exact ⟨fun h => absurd hlat h, fun _ h => by omega, fun _ _ _ hn => absurd (hnul.mp hm) hn⟩

/-- an accepted keyword becomes keyword bytes in the specification's sense (1..79 bytes, none of
them zero), and they decode to the keyword -/
theorem encodeKeyword_keywordBytes (kw : String) (data : Bytes) (h : encodeKeyword kw = .ok data) :
    KeywordBytes data ∧ decodeLatin1 data = kw := by
  obtain ⟨h1, h2, h3, hn⟩ := (encodeKeyword_ok_iff kw data).mp h
  have hl := encodeLatin1_length kw data h1
  exact ⟨⟨by omega, by omega, (nul_mem_encodeLatin1 kw data h1).mpr hn⟩,
    decodeLatin1_of_encodeLatin1 kw data h1⟩

/-- a keyword with a U+0000 in it is refused, whatever else is true of it -/
theorem encodeKeyword_refuses_nul (kw : String) (h : ¬ NulFree kw) : ∃ e, encodeKeyword kw = .error e := by
  cases hk : encodeKeyword kw with
  | error e => exact ⟨e, rfl⟩
  | ok data => exact absurd ((encodeKeyword_ok_iff kw data).mp hk).2.2.2 h

/-- tEXt: written then parsed gives the same chunk (for every chunk `encode` accepts; the text may
contain anything Latin-1, U+0000 included) -/
theorem tEXt_roundtrip (c : TEXt) (body : Bytes) (h : c.encodeBody = .ok body) :
    parseTEXt body = .ok c := by
  unfold TEXt.encodeBody at h
  cases hk : encodeKeyword c.keyword with
  | error e => rw [hk] at h; cases h
  | ok data =>
    rw [hk] at h
    simp only at h
    cases ht : encodeLatin1 c.text with
    | error e => rw [ht] at h; cases h
    | ok t =>
      rw [ht] at h
      simp only [Except.ok.injEq] at h
      subst h
      obtain ⟨h1, h2⟩ := encodeKeyword_keywordBytes _ _ hk
      rw [parseTEXt_layout data t h1, h2, decodeLatin1_of_encodeLatin1 _ _ ht]

/-- zTXt: written then parsed gives the chunk in its compressed state -/
theorem zTXt_roundtrip (z : ZCodec) (c : ZTXt) (body : Bytes) (h : c.encodeBody z = .ok body) :
    parseZTXt body = .ok (c.compress z).1 := by
  unfold ZTXt.encodeBody at h
  cases hk : encodeKeyword c.keyword with
  | error e => rw [hk] at h; cases h
  | ok data =>
    rw [hk] at h
    simp only at h
    obtain ⟨h1, h2⟩ := encodeKeyword_keywordBytes _ _ hk
    obtain ⟨kw, text⟩ := c
    cases text with
    | compressed v =>
      simp only [Except.ok.injEq] at h
      subst h
      rw [parseZTXt_layout data v h1, h2]
      rfl
    | uncompressed s =>
      simp only at h
      cases ht : encodeLatin1 s with
      | error e => rw [ht] at h; cases h
      | ok raw =>
        rw [ht] at h
        simp only [Except.ok.injEq] at h
        subst h
        rw [parseZTXt_layout data _ h1, h2]
        simp only [ZTXt.compress, OptC.compress, latin1Coding, ht]

/-- the chunk read back from a written zTXt chunk has the same text (under the codec contract) -/
theorem zTXt_roundtrip_text (z : ZCodec) (hz : z.Ok) (c : ZTXt) (body : Bytes)
    (h : c.encodeBody z = .ok body) :
    ∃ c', parseZTXt body = .ok c' ∧ c'.keyword = c.keyword ∧ c'.getText z = c.getText z := by
  refine ⟨(c.compress z).1, zTXt_roundtrip z c body h, rfl, ?_⟩
  have hok : (c.text.compress z latin1Coding).2 = .ok () := by
    unfold ZTXt.encodeBody at h
    cases hk : encodeKeyword c.keyword with
    | error e => rw [hk] at h; cases h
    | ok data =>
      rw [hk] at h
      simp only at h
      cases ht : c.text with
      | compressed v => rfl
      | uncompressed s =>
        rw [ht] at h
        simp only at h
        cases he : encodeLatin1 s with
        | error e => rw [he] at h; cases h
        | ok raw => simp only [OptC.compress, latin1Coding, he]
  exact OptC.getText_compress hz latin1Coding_ok c.text hok

/-- the text payload `ITXtChunk::encode` puts after the third separator; `none` = a stored
compressed text that has to be written uncompressed does not inflate (`CompressionError`) or
inflates to something that is not UTF-8 (`Unrepresentable`) -/
def ITXt.payload (z : ZCodec) (c : ITXt) : Option Bytes :=
  if c.compressed then
    match c.text with
    | .compressed v => some v
    | .uncompressed s => some (z.compress (utf8Encode s))
  else
    match c.text with
    | .compressed v =>
      match z.decompress v with
      | some raw => if (utf8Decode raw).isSome then some raw else none
      | none => none
    | .uncompressed s => some (utf8Encode s)

/-- the error reported when there is no payload -/
def ITXt.payloadErr (z : ZCodec) (c : ITXt) : TextEncErr :=
  match c.text with
  | .compressed v => (match z.decompress v with | some _ => .unrepresentable | none => .compressionError)
  | .uncompressed _ => .compressionError

/-- a compressed payload written uncompressed: it inflated, and to valid UTF-8 -/
theorem ITXt.payload_inflated (z : ZCodec) (c : ITXt) (v p : Bytes) (hc : c.compressed = false)
    (hs : c.text = .compressed v) (hp : c.payload z = some p) :
    z.decompress v = some p ∧ ∃ s, utf8Decode p = some s := by
  simp only [ITXt.payload, hc, hs, Bool.false_eq_true, if_false] at hp
  cases hd : z.decompress v with
  | none => rw [hd] at hp; cases hp
  | some raw =>
    rw [hd] at hp
    simp only at hp
    cases hu : utf8Decode raw with
    | none => rw [hu] at hp; simp at hp
    | some s =>
      rw [hu] at hp
      simp only [Option.isSome_some, if_true, Option.some.injEq] at hp
      subst hp
      exact ⟨rfl, s, hu⟩

/-- `ITXtChunk::encode` in one piece: the specification's layout around `ITXt.payload` -/
theorem ITXt.encodeBody_eq (z : ZCodec) (c : ITXt) :
    c.encodeBody z =
      match encodeKeyword c.keyword with
      | .error e => .error e
      | .ok data =>
        if !isAsciiStr c.languageTag || strHasNul c.languageTag then .error .unrepresentable else
        if strHasNul c.translatedKeyword then .error .unrepresentable else
        match c.payload z with
        | none => .error (c.payloadErr z)
        | some p => .ok (data ++ 0 :: (if c.compressed then 1 else 0) :: 0 ::
            (utf8Encode c.languageTag ++ 0 :: (utf8Encode c.translatedKeyword ++ 0 :: p))) := by
  unfold ITXt.encodeBody ITXt.payload ITXt.payloadErr
  cases encodeKeyword c.keyword with
  | error e => rfl
  | ok data =>
    simp only
    cases (!isAsciiStr c.languageTag || strHasNul c.languageTag) with
    | true => rfl
    | false =>
      simp only [Bool.false_eq_true, if_false]
      cases strHasNul c.translatedKeyword with
      | true => rfl
      | false =>
        simp only [Bool.false_eq_true, if_false]
        cases c.compressed with
        | true =>
          cases c.text with
          | compressed v => simp
          | uncompressed s => simp
        | false =>
          cases c.text with
          | compressed v =>
            simp only [Bool.false_eq_true, if_false]
            cases z.decompress v with
            | none => rfl
            | some raw =>
              simp only
              cases (utf8Decode raw).isSome <;> simp
          | uncompressed s => simp

/-- what an accepted iTXt chunk looks like: keyword accepted, language tag ASCII without U+0000,
translated keyword without U+0000, and a payload -/
theorem ITXt.encodeBody_ok (z : ZCodec) (c : ITXt) (body : Bytes) (h : c.encodeBody z = .ok body) :
    ∃ data p, encodeKeyword c.keyword = .ok data ∧ isAsciiStr c.languageTag = true ∧
      NulFree c.languageTag ∧ NulFree c.translatedKeyword ∧ c.payload z = some p ∧
      body = data ++ 0 :: (if c.compressed then 1 else 0) :: 0 ::
        (utf8Encode c.languageTag ++ 0 :: (utf8Encode c.translatedKeyword ++ 0 :: p)) := by
  rw [ITXt.encodeBody_eq] at h
  cases hk : encodeKeyword c.keyword with
  | error e => rw [hk] at h; cases h
  | ok data =>
    rw [hk] at h
    simp only at h
    cases ha : isAsciiStr c.languageTag with
    | false => rw [ha] at h; simp at h
    | true =>
      rw [ha] at h
      cases hl : strHasNul c.languageTag with
      | true => rw [hl] at h; simp at h
      | false =>
        rw [hl] at h
        cases ht : strHasNul c.translatedKeyword with
        | true => rw [ht] at h; simp at h
        | false =>
          rw [ht] at h
          simp only [Bool.not_true, Bool.or_self, Bool.false_eq_true, if_false] at h
          cases hp : c.payload z with
          | none => rw [hp] at h; cases h
          | some p =>
            rw [hp] at h
            simp only [Except.ok.injEq] at h
            exact ⟨data, p, rfl, rfl, (strHasNul_eq_false _).mp hl, (strHasNul_eq_false _).mp ht, rfl, h.symm⟩

/-- what the parser makes of the body written by `ITXtChunk::encode`: `ITXt.decode` applied to
exactly the fields that were written -/
theorem iTXt_encode_parse (z : ZCodec) (c : ITXt) (body : Bytes) (h : c.encodeBody z = .ok body) :
    ∃ data p, encodeKeyword c.keyword = .ok data ∧ isAsciiStr c.languageTag = true ∧
      c.payload z = some p ∧
      parseITXt body = ITXt.decode data (if c.compressed then 1 else 0) 0
        (utf8Encode c.languageTag) (utf8Encode c.translatedKeyword) p := by
  obtain ⟨data, p, hk, ha, hl, ht, hp, hb⟩ := ITXt.encodeBody_ok z c body h
  obtain ⟨h1, _⟩ := encodeKeyword_keywordBytes _ _ hk
  refine ⟨data, p, hk, ha, hp, ?_⟩
  rw [hb]
  exact parseITXt_layout data _ _ p _ 0 h1 ((nul_mem_utf8Encode _).mpr hl)
    ((nul_mem_utf8Encode _).mpr ht)

/-- `ITXt.decode` of fields that were produced from a chunk's own strings -/
theorem ITXt.decode_of_fields (c : ITXt) (data p : Bytes) (hk : encodeKeyword c.keyword = .ok data)
    (ha : isAsciiStr c.languageTag = true) :
    ITXt.decode data (if c.compressed then 1 else 0) 0
        (utf8Encode c.languageTag) (utf8Encode c.translatedKeyword) p =
      if c.compressed then .ok ⟨c.keyword, true, c.languageTag, c.translatedKeyword, .compressed p⟩
      else match utf8Decode p with
        | none => .err .unrepresentable
        | some s => .ok ⟨c.keyword, false, c.languageTag, c.translatedKeyword, .uncompressed s⟩ := by
  obtain ⟨h1, h2, h3, _⟩ := (encodeKeyword_ok_iff _ _).mp hk
  have hl := encodeLatin1_length _ _ h1
  have hb : badKeywordLen data = false := (badKeywordLen_eq_false data).mpr ⟨by omega, by omega⟩
  have hd := decodeLatin1_of_encodeLatin1 _ _ h1
  unfold ITXt.decode
  rw [decodeAscii_utf8Encode _ ha, utf8Decode_utf8Encode, hb, hd]
  cases c.compressed <;> simp <;> cases utf8Decode p <;> rfl

/-- iTXt, uncompressed: written then parsed gives the same chunk -/
theorem iTXt_roundtrip_plain (z : ZCodec) (c : ITXt) (s : String) (body : Bytes)
    (hc : c.compressed = false) (hs : c.text = .uncompressed s) (h : c.encodeBody z = .ok body) :
    parseITXt body = .ok c := by
  obtain ⟨data, p, hk, ha, hp, hparse⟩ := iTXt_encode_parse z c body h
  rw [hparse, ITXt.decode_of_fields c data p hk ha]
  simp only [ITXt.payload, hc, hs, Bool.false_eq_true, if_false, Option.some.injEq] at hp ⊢
  subst hp
  rw [utf8Decode_utf8Encode]
  obtain ⟨kw, cf, lt, tk, tx⟩ := c
  simp only at hc hs; subst hc hs; rfl

/-- iTXt with `compressed = true`: written then parsed gives the chunk in its compressed state -/
theorem iTXt_roundtrip_compressed (z : ZCodec) (c : ITXt) (body : Bytes)
    (hc : c.compressed = true) (h : c.encodeBody z = .ok body) :
    parseITXt body = .ok (c.compress z).1 := by
  obtain ⟨data, p, hk, ha, hp, hparse⟩ := iTXt_encode_parse z c body h
  rw [hparse, ITXt.decode_of_fields c data p hk ha]
  obtain ⟨kw, cf, lt, tk, tx⟩ := c
  simp only at hc; subst hc
  simp only [ITXt.payload, if_true] at hp ⊢
  cases tx with
  | compressed v => simp only [Option.some.injEq] at hp; subst hp; rfl
  | uncompressed s =>
    simp only [Option.some.injEq] at hp; subst hp
    simp only [ITXt.compress, OptC.compress, utf8Coding]

/-- iTXt with `compressed = false` but a text still in the compressed state: the chunk is accepted
only when the payload inflates to valid UTF-8; that text is then written and read back as plain text -/
theorem iTXt_roundtrip_inflated (z : ZCodec) (c : ITXt) (v body : Bytes)
    (hc : c.compressed = false) (hs : c.text = .compressed v) (h : c.encodeBody z = .ok body) :
    ∃ raw s, z.decompress v = some raw ∧ utf8Decode raw = some s ∧
      parseITXt body = .ok { c with text := .uncompressed s } := by
  obtain ⟨data, p, hk, ha, hp, hparse⟩ := iTXt_encode_parse z c body h
  obtain ⟨hd, s, hu⟩ := ITXt.payload_inflated z c v p hc hs hp
  refine ⟨p, s, hd, hu, ?_⟩
  rw [hparse, ITXt.decode_of_fields c data p hk ha]
  obtain ⟨kw, cf, lt, tk, tx⟩ := c
  simp only at hc; subst hc
  simp only [Bool.false_eq_true, if_false, hu]

/-- … and a payload that does not inflate, or inflates to something that is not UTF-8, is refused
(`CompressionError` / `Unrepresentable`) -/
theorem iTXt_inflated_refused (z : ZCodec) (c : ITXt) (v : Bytes) (data : Bytes)
    (hk : encodeKeyword c.keyword = .ok data) (hl : isAsciiStr c.languageTag = true)
    (hln : NulFree c.languageTag) (htn : NulFree c.translatedKeyword)
    (hc : c.compressed = false) (hs : c.text = .compressed v) :
    (z.decompress v = none → c.encodeBody z = .error .compressionError) ∧
    (∀ raw, z.decompress v = some raw → utf8Decode raw = none → c.encodeBody z = .error .unrepresentable) := by
  have hpre : c.encodeBody z = match c.payload z with
      | none => .error (c.payloadErr z)
      | some p => .ok (data ++ 0 :: (if c.compressed then 1 else 0) :: 0 ::
          (utf8Encode c.languageTag ++ 0 :: (utf8Encode c.translatedKeyword ++ 0 :: p))) := by
    rw [ITXt.encodeBody_eq, hk]
    simp only [hl, (strHasNul_eq_false _).mpr hln, (strHasNul_eq_false _).mpr htn, Bool.not_true, Bool.or_self,
      Bool.false_eq_true, if_false]
  constructor
  · intro hd
    rw [hpre]
    simp only [ITXt.payload, ITXt.payloadErr, hc, hs, hd, Bool.false_eq_true, if_false]
  · intro raw hd hu
    rw [hpre]
    simp only [ITXt.payload, ITXt.payloadErr, hc, hs, hd, hu, Bool.false_eq_true, if_false, Option.isSome_none]

/-- iTXt, all three cases in one statement at the level of what a reader of the chunk observes:
what `encode` writes is read back as a chunk with the same keyword, flag, language tag, translated
keyword and text -/
theorem iTXt_roundtrip_text (z : ZCodec) (hz : z.Ok) (c : ITXt) (body : Bytes)
    (h : c.encodeBody z = .ok body) :
    ∃ c', parseITXt body = .ok c' ∧ c'.keyword = c.keyword ∧ c'.compressed = c.compressed ∧
      c'.languageTag = c.languageTag ∧ c'.translatedKeyword = c.translatedKeyword ∧
      c'.getText z = c.getText z := by
  cases hc : c.compressed with
  | true =>
    refine ⟨(c.compress z).1, iTXt_roundtrip_compressed z c body hc h, rfl, ?_, rfl, rfl, ?_⟩
    · simp only [ITXt.compress, hc]
    · have hok : (c.text.compress z utf8Coding).2 = .ok () := by
        cases c.text with
        | compressed v => rfl
        | uncompressed s => rfl
      exact OptC.getText_compress hz utf8Coding_ok c.text hok
  | false =>
    cases hs : c.text with
    | uncompressed s =>
      exact ⟨c, iTXt_roundtrip_plain z c s body hc hs h, rfl, hc.symm ▸ rfl, rfl, rfl, rfl⟩
    | compressed v =>
      obtain ⟨raw, s, hd, hu, hp⟩ := iTXt_roundtrip_inflated z c v body hc hs h
      refine ⟨_, hp, rfl, by simp only [hc], rfl, rfl, ?_⟩
      simp only [ITXt.getText, OptC.getText, hs, hd, hu, utf8Coding]

/-- NUL in a keyword-like field ⇒ `encode` answers with an error (nothing is written) -/
theorem encode_refuses_nul :
    (∀ c : TEXt, ¬ NulFree c.keyword → ∃ e, c.encodeBody = .error e) ∧
    (∀ (z : ZCodec) (c : ZTXt), ¬ NulFree c.keyword → ∃ e, c.encodeBody z = .error e) ∧
    (∀ (z : ZCodec) (c : ITXt), ¬ NulFree c.keyword ∨ ¬ NulFree c.languageTag ∨ ¬ NulFree c.translatedKeyword →
      ∃ e, c.encodeBody z = .error e) := by
  refine ⟨?_, ?_, ?_⟩
  · intro c hn
    obtain ⟨e, he⟩ := encodeKeyword_refuses_nul _ hn
    exact ⟨e, by simp only [TEXt.encodeBody, he]⟩
  · intro z c hn
    obtain ⟨e, he⟩ := encodeKeyword_refuses_nul _ hn
    exact ⟨e, by simp only [ZTXt.encodeBody, he]⟩
  · intro z c hn
    cases hb : c.encodeBody z with
    | error e => exact ⟨e, rfl⟩
    | ok body =>
      obtain ⟨data, p, hk, _, hl, ht, _, _⟩ := ITXt.encodeBody_ok z c body hb
      have hkn := ((encodeKeyword_ok_iff _ _).mp hk).2.2.2
      rcases hn with h | h | h
      · exact absurd hkn h
      · exact absurd hl h
      · exact absurd ht h

/-- … and which error: `Unrepresentable`, unless the keyword is already refused for another reason
that is checked first (a character above U+00FF — also `Unrepresentable` — or its length) -/
theorem encode_refuses_nul_kind (z : ZCodec) (c : ITXt) (data : Bytes)
    (hk : encodeKeyword c.keyword = .ok data)
    (hn : ¬ NulFree c.languageTag ∨ ¬ NulFree c.translatedKeyword) :
    c.encodeBody z = .error .unrepresentable := by
  rw [ITXt.encodeBody_eq, hk]
  simp only
  rcases hn with h | h
  · rw [(strHasNul_eq_true _).mpr h]; simp
  · rw [(strHasNul_eq_true _).mpr h]
    cases (!isAsciiStr c.languageTag || strHasNul c.languageTag) <;> simp

/-! ## Chunk-level statements (zTXt = Latin-1 coding, iTXt = UTF-8 coding) -/

theorem singleton_eq_ofList (c : Char) : String.singleton c = String.ofList [c] := by
  apply String.toList_inj.mp
  rw [String.toList_singleton, String.toList_ofList]

theorem latin1_singleton_byte (b : UInt8) :
    (decodeLatin1 [b]).toList = [Char.ofNat b.toNat] ∧ (Char.ofNat b.toNat).toNat = b.toNat ∧
    encodeLatin1 (String.singleton (Char.ofNat b.toNat)) = .ok [b] := by
  refine ⟨by rw [decodeLatin1_toList]; rfl, latin1Char_toNat b, ?_⟩
  rw [singleton_eq_ofList]
  exact latin1_decode_encode [b]

theorem latin1_singleton_char (c : Char) (h : c.toNat ≤ 255) :
    encodeLatin1 (String.singleton c) = .ok [c.toNat.toUInt8] ∧ c.toNat.toUInt8.toNat = c.toNat ∧
    decodeLatin1 [c.toNat.toUInt8] = String.singleton c := by
  refine ⟨?_, toUInt8_toNat_of_le _ h, ?_⟩
  · rw [encodeLatin1_of_isLatin1]
    · rw [String.toList_singleton]; rfl
    · intro x hx; rw [String.toList_singleton, List.mem_singleton] at hx; subst hx; exact h
  · unfold decodeLatin1
    rw [List.map_singleton, latin1Char_of_byte c h, singleton_eq_ofList]

theorem latin1_singleton_big (c : Char) (h : c.toNat > 255) :
    encodeLatin1 (String.singleton c) = .error .unrepresentable := by
  cases hr : encodeLatin1 (String.singleton c) with
  | error e => rw [latin1_encode_err_kind _ e hr]
  | ok bs =>
    have := encodeLatin1_isLatin1 _ _ hr c (by rw [String.toList_singleton]; exact List.mem_singleton_self c)
    omega

/-- iTXt with flag 0: with the other fields well formed, the chunk is accepted iff the text is
valid UTF-8 -/
theorem ITXt.decode_plain_accept_iff (kw lang tk text : Bytes) (method : UInt8) (tks : String)
    (hk : badKeywordLen kw = false) (hl : isAsciiBytes lang = true) (htk : utf8Decode tk = some tks) :
    (∃ c, ITXt.decode kw 0 method lang tk text = .ok c) ↔ (utf8Decode text).isSome = true := by
  unfold ITXt.decode
  rw [hk, decodeAscii_eq, hl, htk]
  cases utf8Decode text <;> simp

/-- … and the text it then holds is the string whose UTF-8 encoding is the text field, byte for
byte; `get_text` returns it -/
theorem ITXt.decode_plain_text (z : ZCodec) (kw lang tk text : Bytes) (method : UInt8) (c : ITXt)
    (h : ITXt.decode kw 0 method lang tk text = .ok c) :
    ∃ s, c.compressed = false ∧ c.text = .uncompressed s ∧ utf8Encode s = text ∧ c.getText z = .ok s := by
  unfold ITXt.decode at h
  have h01 : ((0 : UInt8) == 1) = false := by decide
  cases hb : badKeywordLen kw with
  | true => rw [hb] at h; cases h
  | false =>
    rw [hb] at h
    simp only [Bool.false_eq_true, if_false, bne_self_eq_false, Bool.false_and, h01] at h
    cases ha : decodeAscii lang with
    | err e => rw [ha] at h; cases h
    | panic => rw [ha] at h; cases h
    | ok l =>
      rw [ha] at h
      simp only at h
      cases ht : utf8Decode tk with
      | none => rw [ht] at h; cases h
      | some t =>
        rw [ht] at h
        simp only at h
        cases hs : utf8Decode text with
        | none => rw [hs] at h; cases h
        | some s =>
          rw [hs] at h
          simp only [ITXtOut.ok.injEq] at h
          subst h
          exact ⟨s, rfl, rfl, utf8Encode_of_utf8Decode _ _ hs, rfl⟩

/-- iTXt with flag 1: the payload is stored untouched; `get_text` succeeds iff it inflates to valid
UTF-8, and returns exactly the string with that encoding -/
theorem ITXt.getText_compressed_iff (z : ZCodec) (c : ITXt) (v : Bytes) (s : String)
    (hc : c.text = .compressed v) :
    c.getText z = .ok s ↔ ∃ raw, z.decompress v = some raw ∧ utf8Decode raw = some s := by
  unfold ITXt.getText OptC.getText
  rw [hc]
  simp only [utf8Coding]
  cases hd : z.decompress v with
  | none => simp
  | some raw =>
    simp only [Option.some.injEq, exists_eq_left']
    cases hu : utf8Decode raw with
    | none => simp
    | some s' => simp

theorem ITXt.getText_compressed_err (z : ZCodec) (c : ITXt) (v : Bytes) (hc : c.text = .compressed v) :
    (c.getText z = .error .inflationError ↔ z.decompress v = none) ∧
    (c.getText z = .error .unrepresentable ↔ ∃ raw, z.decompress v = some raw ∧ utf8Decode raw = none) := by
  unfold ITXt.getText OptC.getText
  rw [hc]
  simp only [utf8Coding]
  cases hd : z.decompress v with
  | none => simp
  | some raw =>
    cases hu : utf8Decode raw with
    | none => simp [hu]
    | some s' => simp [hu]

/-- zTXt: `get_text` of a compressed chunk is the Latin-1 decoding of the inflated payload -/
theorem ZTXt.getText_compressed (z : ZCodec) (c : ZTXt) (v : Bytes) (hc : c.text = .compressed v) :
    c.getText z = match z.decompress v with
      | none => .error .inflationError
      | some raw => .ok (decodeLatin1 raw) := by
  unfold ZTXt.getText OptC.getText
  rw [hc]
  simp only [latin1Coding]
  cases z.decompress v <;> rfl

/-- zTXt: bounded decompression — errors leave the chunk as it was; success stores at most `n`
characters (= bytes) -/
theorem ZTXt.limit_respected (z : ZCodec) (hz : z.Ok) (n : Nat) (c : ZTXt) :
    (∀ e, (c.decompressWithLimit z n).2 = .error e → (c.decompressWithLimit z n).1 = c) ∧
    (∀ v x, c.text = .compressed v → z.decompress v = some x → x.length > n →
      c.decompressWithLimit z n = (c, .error .outOfDecompressionSpace)) ∧
    (∀ v, c.text = .compressed v → z.decompress v = none →
      c.decompressWithLimit z n = (c, .error .inflationError) ∨
      c.decompressWithLimit z n = (c, .error .outOfDecompressionSpace)) ∧
    (∀ v, c.text = .compressed v → (c.decompressWithLimit z n).2 = .ok () →
      ∃ raw, z.decompress v = some raw ∧ raw.length ≤ n ∧
        (c.decompressWithLimit z n).1 = { c with text := .uncompressed (decodeLatin1 raw) } ∧
        (decodeLatin1 raw).length ≤ n) := by
  obtain ⟨kw, t⟩ := c
  unfold ZTXt.decompressWithLimit
  simp only
  refine ⟨?_, ?_, ?_, ?_⟩
  · intro e h; rw [OptC.decompress_err_unchanged n t e h]
  · intro v x hc hd hx; subst hc; rw [OptC.decompress_tooLarge hz n v x hd hx]
  · intro v hc hd; subst hc
    rcases OptC.decompress_corrupt (k := latin1Coding) hz n v hd with h | h
    · left; rw [h]
    · right; rw [h]
  · intro v hc h; subst hc
    obtain ⟨raw, s, h1, h2, h3, _, h5⟩ := OptC.decompress_ok hz latin1Coding_ok n v h
    simp only [latin1Coding, Option.some.injEq] at h3
    subst h3
    exact ⟨raw, h1, h2, by rw [h5], by rw [decodeLatin1_length]; exact h2⟩

/-- iTXt: the same, the size of the stored text being its UTF-8 size; a payload that inflates
within the limit but is not valid UTF-8 is refused as `Unrepresentable`, chunk unchanged -/
theorem ITXt.limit_respected (z : ZCodec) (hz : z.Ok) (n : Nat) (c : ITXt) :
    (∀ e, (c.decompressWithLimit z n).2 = .error e → (c.decompressWithLimit z n).1 = c) ∧
    (∀ v x, c.text = .compressed v → z.decompress v = some x → x.length > n →
      c.decompressWithLimit z n = (c, .error .outOfDecompressionSpace)) ∧
    (∀ v, c.text = .compressed v → z.decompress v = none →
      c.decompressWithLimit z n = (c, .error .inflationError) ∨
      c.decompressWithLimit z n = (c, .error .outOfDecompressionSpace)) ∧
    (∀ v x, c.text = .compressed v → z.decompress v = some x → x.length ≤ n → utf8Decode x = none →
      c.decompressWithLimit z n = (c, .error .unrepresentable)) ∧
    (∀ v, c.text = .compressed v → (c.decompressWithLimit z n).2 = .ok () →
      ∃ raw s, z.decompress v = some raw ∧ raw.length ≤ n ∧ utf8Encode s = raw ∧
        (c.decompressWithLimit z n).1 = { c with text := .uncompressed s } ∧
        s.utf8ByteSize ≤ n) := by
  obtain ⟨kw, cf, lt, tk, t⟩ := c
  unfold ITXt.decompressWithLimit
  simp only
  refine ⟨?_, ?_, ?_, ?_, ?_⟩
  · intro e h; rw [OptC.decompress_err_unchanged n t e h]
  · intro v x hc hd hx; subst hc; rw [OptC.decompress_tooLarge hz n v x hd hx]
  · intro v hc hd; subst hc
    rcases OptC.decompress_corrupt (k := utf8Coding) hz n v hd with h | h
    · left; rw [h]
    · right; rw [h]
  · intro v x hc hd hx hu; subst hc
    simp only [OptC.decompressWithLimit, hz.bounded_of_decompress v x n hd hx, utf8Coding, hu]
  · intro v hc h; subst hc
    obtain ⟨raw, s, h1, h2, h3, _, h5⟩ := OptC.decompress_ok hz utf8Coding_ok n v h
    simp only [utf8Coding] at h3
    have h6 := utf8Encode_of_utf8Decode raw s h3
    exact ⟨raw, s, h1, h2, h6, by rw [h5], by rw [← utf8Encode_length, h6]; exact h2⟩

/-- zTXt: compress then decompress restores the chunk exactly (text in the Latin-1 range, limit at
least the number of characters) -/
theorem ZTXt.decompress_compress (z : ZCodec) (hz : z.Ok) (n : Nat) (kw s : String)
    (hl : IsLatin1 s) (hn : s.length ≤ n) :
    ((ZTXt.mk kw (.uncompressed s)).compress z).2 = .ok () ∧
    ((ZTXt.mk kw (.uncompressed s)).compress z).1.decompressWithLimit z n =
      (ZTXt.mk kw (.uncompressed s), .ok ()) := by
  have he := encodeLatin1_of_isLatin1 s hl
  have hs := (latin1Coding_enc_some s _).mpr he
  have hlen := encodeLatin1_length s _ he
  have := OptC.decompress_compress hz latin1Coding_ok n s _ hs (by omega)
  unfold ZTXt.compress ZTXt.decompressWithLimit
  simp only [OptC.compress_of_enc (z := z) s _ hs] at this ⊢
  rw [this]; exact ⟨trivial, rfl⟩

/-- zTXt: a text with a character above U+00FF cannot be compressed: `Unrepresentable`, chunk
unchanged -/
theorem ZTXt.compress_unrepresentable (z : ZCodec) (kw s : String) (h : ¬ IsLatin1 s) :
    (ZTXt.mk kw (.uncompressed s)).compress z = (ZTXt.mk kw (.uncompressed s), .error .unrepresentable) := by
  have : latin1Coding.enc s = none := by
    cases hr : encodeLatin1 s with
    | ok b => exact absurd (encodeLatin1_isLatin1 s b hr) h
    | error e => simp only [latin1Coding, hr]
  simp only [ZTXt.compress, OptC.compress, this]

/-- iTXt: compress then decompress restores the chunk exactly (any Unicode text) -/
theorem ITXt.decompress_compress (z : ZCodec) (hz : z.Ok) (n : Nat) (c : ITXt) (s : String)
    (hs : c.text = .uncompressed s) (hn : s.utf8ByteSize ≤ n) :
    (c.compress z).2 = .ok () ∧ (c.compress z).1.decompressWithLimit z n = (c, .ok ()) := by
  obtain ⟨kw, cf, lt, tk, t⟩ := c
  simp only at hs; subst hs
  have he : utf8Coding.enc s = some (utf8Encode s) := rfl
  have := OptC.decompress_compress hz utf8Coding_ok n s _ he (by rw [utf8Encode_length]; exact hn)
  unfold ITXt.compress ITXt.decompressWithLimit
  simp only [OptC.compress_of_enc (z := z) s _ he] at this ⊢
  rw [this]; exact ⟨trivial, rfl⟩

/-! ## The toy codec satisfies the contract (so the contract is satisfiable) -/

theorem toyCodec_ok : toyCodec.Ok where
  roundtrip := by intro x; rfl
  bounded_ok := by
    intro zs n x
    unfold toyCodec
    simp only
    split
    · rename_i y
      by_cases h : y.length ≤ n
      · simp only [h, if_true, Except.ok.injEq, Option.some.injEq]
        constructor
        · intro e; subst e; exact ⟨rfl, h⟩
        · intro e; exact e.1
      · simp only [h, if_false, reduceCtorEq, Option.some.injEq, false_iff, not_and]
        intro e; subst e; exact h
    · simp
  bounded_corrupt := by
    intro zs n
    unfold toyCodec
    simp only
    split
    · split <;> simp
    · simp

end Png
