import PngVerif.Proofs.ComposeTransformPixels
import PngVerif.Proofs.ComposeTransformReal
/-!
# C08 end to end: the documented conversion commutes with de-interlacing

The documented conversion `Transform.specConvert` works pixel by pixel; `Adam7.deinterlace` moves whole pixels.  So for
an interlaced image, converting the scanlines of the reduced images and de-interlacing them with the OUTPUT pixel
width (`specPixelsT`, what `next_frame` does) gives the same bytes as converting, row by row, the de-interlaced
image of the specification (`specPixels`, what decoding WITHOUT transformations returns).
-/
namespace Png.Adam7
open Png

/-! ## reading bits of concatenations, prefixes and suffixes -/

theorem bitAt_append_left (a b : Bytes) (j : Nat) (h : j < a.length * 8) : bitAt (a ++ b) j = bitAt a j := by
  unfold bitAt
  rw [List.getD_eq_getElem?_getD, List.getD_eq_getElem?_getD, List.getElem?_append_left (by omega)]

theorem bitAt_append_right (a b : Bytes) (j : Nat) : bitAt (a ++ b) (a.length * 8 + j) = bitAt b j := by
  unfold bitAt
  have h1 : (a.length * 8 + j) / 8 = a.length + j / 8 := by omega
  have h2 : (a.length * 8 + j) % 8 = j % 8 := by omega
  rw [h1, h2, List.getD_eq_getElem?_getD, List.getD_eq_getElem?_getD, List.getElem?_append_right (by omega),
    Nat.add_sub_cancel_left]

theorem bitAt_drop (l : Bytes) (n j : Nat) : bitAt (l.drop n) j = bitAt l (n * 8 + j) := by
  unfold bitAt
  have h1 : (n * 8 + j) / 8 = n + j / 8 := by omega
  have h2 : (n * 8 + j) % 8 = j % 8 := by omega
  rw [h1, h2, List.getD_eq_getElem?_getD, List.getD_eq_getElem?_getD, List.getElem?_drop]

theorem bitAt_take (l : Bytes) (n j : Nat) (h : j < n * 8) : bitAt (l.take n) j = bitAt l j := by
  unfold bitAt
  rw [List.getD_eq_getElem?_getD, List.getD_eq_getElem?_getD, List.getElem?_take, if_pos (by omega)]

/-- bit `t` of piece `k` of a concatenation of pieces of `B` bytes each -/
theorem bitAt_flatMap_uniform {α : Type} (g : α → Bytes) (B : Nat) : ∀ (l : List α), (∀ a ∈ l, (g a).length = B) →
    ∀ (k : Nat) (hk : k < l.length) (t : Nat), t < B * 8 → bitAt (l.flatMap g) (k * B * 8 + t) = bitAt (g l[k]) t := by
  intro l
  induction l with
  | nil => intro _ k hk; simp at hk
  | cons a l ih =>
    intro hB k hk t ht
    have ha : (g a).length = B := hB a (by simp)
    rw [List.flatMap_cons]
    cases k with
    | zero =>
      simp only [Nat.zero_mul, Nat.zero_add, List.getElem_cons_zero]
      exact bitAt_append_left _ _ _ (by rw [ha]; exact ht)
    | succ k =>
      have e : (k + 1) * B * 8 + t = (g a).length * 8 + (k * B * 8 + t) := by
        rw [ha, Nat.succ_mul, Nat.add_mul]; omega
      rw [e, bitAt_append_right]
      simp only [List.getElem_cons_succ]
      exact ih (fun x hx => hB x (by simp [hx])) k (by simpa using hk) t ht

end Png.Adam7

namespace Png.Transform
open Png Png.Adam7

/-! ## the documented conversion, pixel by pixel -/

/-- the samples of pixel `k` of a packed row -/
def pixelOf (info : Info) (row : Bytes) (k : Nat) : List Nat :=
  ((specSamples info.bitDepth row).drop (k * info.colorType.samples)).take info.colorType.samples

/-- bytes of one output pixel when the output depth is 8 or 16 -/
def outPixelBytes (info : Info) (f : Flags) : Nat :=
  (if specOutputDepth info f = 16 then 2 else 1) * (specOutputColor info f).samples

theorem chunksN_eq_range {α : Type} (s : Nat) : ∀ (n : Nat) (l : List α),
    chunksN s n l = (List.range n).map fun k => (l.drop (k * s)).take s := by
  intro n
  induction n with
  | zero => intro l; rfl
  | succ n ih =>
    intro l
    rw [List.range_succ_eq_map, List.map_cons, List.map_map]
    simp only [chunksN, Nat.zero_mul, List.drop_zero]
    congr 1
    rw [ih (l.drop s)]
    apply List.map_congr_left
    intro k _
    simp only [Function.comp, List.drop_drop, Nat.succ_eq_add_one, Nat.add_mul, Nat.one_mul]
    congr 2; omega

/-- **the documented conversion works pixel by pixel** (unless it leaves a packed row below 8 bits as it is): output
    pixel `k` is the serialisation of `specPixel` of input pixel `k` -/
theorem specConvert_pixels (info : Info) (f : Flags) (row : Bytes) (w : Nat)
    (hE : ¬ (info.bitDepth.toNat < 8 ∧ ¬ f.doExpand = true)) :
    specConvert info f row w =
      (List.range w).flatMap fun k => serialize (specOutputDepth info f) (specPixel info f (pixelOf info row k)) := by
  unfold specConvert
  rw [if_neg hE, chunksN_eq_range, List.flatMap_def, List.map_map, ← List.flatMap_def]
  rfl

theorem pixelOf_length (info : Info) (row : Bytes) (k : Nat)
    (h : (k + 1) * info.colorType.samples ≤ (specSamples info.bitDepth row).length) :
    (pixelOf info row k).length = info.colorType.samples := by
  unfold pixelOf
  rw [List.length_take, List.length_drop]
  rw [Nat.succ_mul] at h
  omega

theorem outDepth_cases (info : Info) (f : Flags) (hE : ¬ (info.bitDepth.toNat < 8 ∧ ¬ f.doExpand = true)) :
    specOutputDepth info f = 8 ∨ specOutputDepth info f = 16 := by
  unfold specOutputDepth specExpandedDepth
  cases hb : info.bitDepth <;> simp [hb, BitDepth.toNat] at hE ⊢ <;>
    cases f.strip16 <;> simp [hE]

/-- one output pixel: `outPixelBytes` bytes -/
theorem outPixel_length (info : Info) (f : Flags) (px : List Nat) (hpx : px.length = info.colorType.samples) :
    (serialize (specOutputDepth info f) (specPixel info f px)).length = outPixelBytes info f := by
  rw [serialize_length, specPixel_length info f px hpx]
  unfold outPixelBytes
  split <;> omega

theorem outBits_eq (info : Info) (f : Flags) (hE : ¬ (info.bitDepth.toNat < 8 ∧ ¬ f.doExpand = true)) :
    (specOutputColor info f).samples * specOutputDepth info f = outPixelBytes info f * 8 := by
  unfold outPixelBytes
  rcases outDepth_cases info f hE with h | h <;> rw [h] <;> simp <;> omega


/-! ## the samples of a pixel are a function of its bits -/

/-- bytes `start .. start + n` of two rows agree when their bits do -/
theorem slice_eq_of_bits (r1 r2 : Bytes) (a1 a2 n : Nat) (h1 : a1 + n ≤ r1.length) (h2 : a2 + n ≤ r2.length)
    (hb : ∀ t, t < n * 8 → bitAt r1 (a1 * 8 + t) = bitAt r2 (a2 * 8 + t)) :
    (r1.drop a1).take n = (r2.drop a2).take n := by
  apply eq_of_bitAt
  · simp only [List.length_take, List.length_drop]; omega
  · intro j hj
    have hjn : j < n * 8 := by
      simp only [List.length_take, List.length_drop] at hj; omega
    rw [bitAt_take _ _ _ hjn, bitAt_take _ _ _ hjn, bitAt_drop, bitAt_drop]
    exact hb j hjn

/-- element `q · n + j` of a concatenation of pieces of `n` elements each -/
theorem drop_take_flatMap_uniform {α β : Type} (g : α → List β) (n : Nat) : ∀ (l : List α), (∀ a ∈ l, (g a).length = n) →
    ∀ (q : Nat) (hq : q < l.length) (j : Nat), j < n →
      ((l.flatMap g).drop (q * n + j)).take 1 = ((g l[q]).drop j).take 1 := by
  intro l
  induction l with
  | nil => intro _ q hq; simp at hq
  | cons a l ih =>
    intro hn q hq j hj
    have ha : (g a).length = n := hn a (by simp)
    rw [List.flatMap_cons]
    cases q with
    | zero =>
      simp only [Nat.zero_mul, Nat.zero_add, List.getElem_cons_zero]
      rw [List.drop_append_of_le_length (by omega), List.take_append_of_le_length (by simp; omega)]
    | succ q =>
      have e : (q + 1) * n + j = (g a).length + (q * n + j) := by rw [ha, Nat.succ_mul]; omega
      rw [e, List.drop_append]
      simp only [List.getElem_cons_succ]
      rw [List.drop_of_length_le (by omega), List.nil_append]
      have : (g a).length + (q * n + j) - (g a).length = q * n + j := by omega
      rw [this]
      exact ih (fun x hx => hn x (by simp [hx])) q (by simpa using hq) j hj

theorem specByteSamples_at (d : Nat) (c : UInt8) (j : Nat) (hj : j < 8 / d) :
    ((specByteSamples d c).drop j).take 1 = [c.toNat / 2 ^ (8 - d * (j + 1)) % 2 ^ d] := by
  unfold specByteSamples
  rw [← List.map_drop, ← List.map_take]
  have : ((List.range (8 / d)).drop j).take 1 = [j] := by
    apply List.ext_getElem
    · simp; omega
    · intro i h1 h2
      simp at h1
      have : i = 0 := by omega
      subst this
      simp
  rw [this]; rfl

/-- a sample below 8 bits is a function of its bits (`j`-th sample of the byte `c`, `d` bits each) -/
theorem subbyte_sample_of_bits (d : Nat) (hd : d = 1 ∨ d = 2 ∨ d = 4) (c1 c2 : UInt8) (j1 j2 : Nat) (h1 : j1 < 8 / d)
    (h2 : j2 < 8 / d)
    (hb : ∀ t, t < d → c1.toNat.testBit (7 - (j1 * d + t)) = c2.toNat.testBit (7 - (j2 * d + t))) :
    c1.toNat / 2 ^ (8 - d * (j1 + 1)) % 2 ^ d = c2.toNat / 2 ^ (8 - d * (j2 + 1)) % 2 ^ d := by
  apply Nat.eq_of_testBit_eq
  intro u
  rw [Nat.testBit_mod_two_pow, Nat.testBit_mod_two_pow, Nat.testBit_div_two_pow, Nat.testBit_div_two_pow]
  by_cases hu : u < d
  · simp only [hu, decide_true, Bool.true_and]
    have := hb (d - 1 - u) (by omega)
    have e1 : 7 - (j1 * d + (d - 1 - u)) = u + (8 - d * (j1 + 1)) := by
      rcases hd with rfl | rfl | rfl <;> omega
    have e2 : 7 - (j2 * d + (d - 1 - u)) = u + (8 - d * (j2 + 1)) := by
      rcases hd with rfl | rfl | rfl <;> omega
    rw [e1, e2] at this
    exact this
  · simp [hu]

/-- **the samples of a pixel are a function of the pixel's bits**: if the `samples · depth` bits of pixel `k1` of `r1`
    are those of pixel `k2` of `r2` (both pixels inside their rows), the two pixels have the same samples -/
theorem pixelOf_of_bits (info : Info) (hl : legal info.colorType info.bitDepth = true) (r1 r2 : Bytes) (k1 k2 : Nat)
    (h1 : (k1 + 1) * (info.colorType.samples * info.bitDepth.toNat) ≤ r1.length * 8)
    (h2 : (k2 + 1) * (info.colorType.samples * info.bitDepth.toNat) ≤ r2.length * 8)
    (hb : ∀ t, t < info.colorType.samples * info.bitDepth.toNat →
      bitAt r1 (k1 * (info.colorType.samples * info.bitDepth.toNat) + t) =
        bitAt r2 (k2 * (info.colorType.samples * info.bitDepth.toNat) + t)) :
    pixelOf info r1 k1 = pixelOf info r2 k2 := by
  unfold pixelOf
  generalize hs : info.colorType.samples = s at *
  have hs1 : 1 ≤ s := by rw [← hs]; exact samples_pos _
  rcases depth_cases info.bitDepth with hd | hd | hd
  · -- below 8 bits: one sample per pixel
    have hs' : s = 1 := by
      rw [← hs]
      revert hl hd
      cases info.colorType <;> cases info.bitDepth <;> simp [legal, BitDepth.toNat, ColorType.samples]
    subst hs'
    have hdc : info.bitDepth.toNat = 1 ∨ info.bitDepth.toNat = 2 ∨ info.bitDepth.toNat = 4 := by
      rcases subbyte_cases _ hd with h | h | h <;> rw [h] <;> simp [BitDepth.toNat]
    have hsp : ∀ row : Bytes, specSamples info.bitDepth row = row.flatMap (specByteSamples info.bitDepth.toNat) := by
      intro row
      rcases subbyte_cases _ hd with h | h | h <;> rw [h] <;> rfl
    rw [hsp, hsp]
    generalize info.bitDepth.toNat = d at *
    simp only [Nat.one_mul, Nat.mul_one] at h1 h2 hb ⊢
    have hn : 0 < 8 / d := by rcases hdc with rfl | rfl | rfl <;> decide
    have hlen : ∀ (row : Bytes), ∀ c ∈ row, (specByteSamples d c).length = 8 / d := by
      intro row c _; simp [specByteSamples]
    have hk1 : k1 = k1 / (8 / d) * (8 / d) + k1 % (8 / d) := by
      rw [Nat.mul_comm]; exact (Nat.div_add_mod _ _).symm
    have hk2 : k2 = k2 / (8 / d) * (8 / d) + k2 % (8 / d) := by
      rw [Nat.mul_comm]; exact (Nat.div_add_mod _ _).symm
    have hq1 : k1 / (8 / d) < r1.length := by rcases hdc with rfl | rfl | rfl <;> simp at h1 ⊢ <;> omega
    have hq2 : k2 / (8 / d) < r2.length := by rcases hdc with rfl | rfl | rfl <;> simp at h2 ⊢ <;> omega
    have e1 := drop_take_flatMap_uniform (specByteSamples d) (8 / d) r1 (hlen r1) (k1 / (8 / d)) hq1 (k1 % (8 / d))
      (Nat.mod_lt _ hn)
    have e2 := drop_take_flatMap_uniform (specByteSamples d) (8 / d) r2 (hlen r2) (k2 / (8 / d)) hq2 (k2 % (8 / d))
      (Nat.mod_lt _ hn)
    rw [← hk1] at e1
    rw [← hk2] at e2
    rw [e1, e2, specByteSamples_at d _ _ (Nat.mod_lt _ hn), specByteSamples_at d _ _ (Nat.mod_lt _ hn)]
    congr 1
    apply subbyte_sample_of_bits d hdc _ _ _ _ (Nat.mod_lt _ hn) (Nat.mod_lt _ hn)
    intro t ht
    have := hb t ht
    unfold bitAt at this
    have a1 : (k1 * d + t) / 8 = k1 / (8 / d) ∧ (k1 * d + t) % 8 = k1 % (8 / d) * d + t := by
      rcases hdc with rfl | rfl | rfl <;> simp <;> omega
    have a2 : (k2 * d + t) / 8 = k2 / (8 / d) ∧ (k2 * d + t) % 8 = k2 % (8 / d) * d + t := by
      rcases hdc with rfl | rfl | rfl <;> simp <;> omega
    rw [a1.1, a1.2, a2.1, a2.2, List.getD_eq_getElem?_getD, List.getD_eq_getElem?_getD,
      List.getElem?_eq_getElem hq1, List.getElem?_eq_getElem hq2] at this
    exact this
  · -- 8 bits: a pixel is `s` bytes
    rw [hd] at h1 h2 hb ⊢
    simp only [BitDepth.toNat, specSamples] at h1 h2 hb ⊢
    rw [← List.map_drop, ← List.map_take, ← List.map_drop, ← List.map_take]
    congr 1
    refine slice_eq_of_bits r1 r2 (k1 * s) (k2 * s) s ?_ ?_ ?_
    · rw [Nat.succ_mul, ← Nat.mul_assoc] at h1; omega
    · rw [Nat.succ_mul, ← Nat.mul_assoc] at h2; omega
    · intro t ht
      have := hb t ht
      rw [← Nat.mul_assoc, ← Nat.mul_assoc] at this
      exact this
  · -- 16 bits: a pixel is `2 s` bytes
    rw [hd] at h1 h2 hb ⊢
    simp only [BitDepth.toNat, specSamples] at h1 h2 hb ⊢
    rw [← be16_drop, ← be16_take, ← be16_drop, ← be16_take]
    congr 1
    refine slice_eq_of_bits r1 r2 (2 * (k1 * s)) (2 * (k2 * s)) (2 * s) ?_ ?_ ?_
    · rw [Nat.succ_mul] at h1
      have : k1 * (s * 16) = 2 * (k1 * s) * 8 := by rw [← Nat.mul_assoc]; omega
      omega
    · rw [Nat.succ_mul] at h2
      have : k2 * (s * 16) = 2 * (k2 * s) * 8 := by rw [← Nat.mul_assoc]; omega
      omega
    · intro t ht
      have e1 : 2 * (k1 * s) * 8 = k1 * (s * 16) := by
        rw [← Nat.mul_assoc k1 s 16]; generalize k1 * s = m; omega
      have e2 : 2 * (k2 * s) * 8 = k2 * (s * 16) := by
        rw [← Nat.mul_assoc k2 s 16]; generalize k2 * s = m; omega
      rw [e1, e2]
      exact hb t (by omega)

end Png.Transform

namespace Png.Reader
open Png Png.Framing Png.WellFormed Png.Adam7

theorem legal_of_pairs (ct : Transform.ColorType) (bd : Transform.BitDepth) (h : (ct.toNat, bd.toNat) ∈ legalPairs) :
    Transform.legal ct bd = true := by
  revert h
  cases ct <;> cases bd <;> decide

theorem samples_toNat (ct : Transform.ColorType) : samplesOf ct.toNat = ct.samples := by cases ct <;> rfl

/-- when the conversion leaves packed rows below 8 bits as they are, `specPixelsT` is `specPixels` -/
theorem specPixelsT_packed (h : Header) (ti : Transform.Info) (hc : ti.colorType.toNat = h.color)
    (hd : ti.bitDepth.toNat = h.depth) (f : Transform.Flags) (hN : ti.bitDepth.toNat < 8 ∧ ¬ f.doExpand = true)
    (raw bg : Bytes) :
    specPixelsT h (fun w row => Transform.specConvert ti f row w) (Transform.specOutputLineSize ti f h.width)
      ((Transform.specOutputColor ti f).samples * Transform.specOutputDepth ti f) raw bg = specPixels h raw bg := by
  have he : f.doExpand = false := by simpa using hN.2
  have hed : Transform.specExpandedDepth ti f = ti.bitDepth.toNat := by simp [Transform.specExpandedDepth, he]
  have hod : Transform.specOutputDepth ti f = ti.bitDepth.toNat := by
    simp only [Transform.specOutputDepth, hed]; rw [if_neg (by omega)]
  have hoc : Transform.specOutputColor ti f = ti.colorType := by simp [Transform.specOutputColor, he]
  have hconv : (fun (w : Nat) (row : Bytes) => Transform.specConvert ti f row w) = fun _ r => r := by
    funext w row; unfold Transform.specConvert; rw [if_pos hN]
  have hbits : (Transform.specOutputColor ti f).samples * Transform.specOutputDepth ti f = h.bitsPerPixel := by
    rw [hoc, hod, hd, ← samples_toNat, hc]; rfl
  have hline : Transform.specOutputLineSize ti f h.width = h.lineSize := by
    unfold Transform.specOutputLineSize
    rw [hoc, hod, hd, ← samples_toNat, hc, Nat.mul_assoc]; rfl
  rw [hconv, hbits, hline, specPixelsT_id]

/-- **the documented conversion commutes with de-interlacing.**  For an interlaced image and a conversion that
    really converts (output samples of 8 or 16 bits): converting the scanlines of the reduced images and
    de-interlacing them with the output pixel width — `specPixelsT` — is converting, row by row, the rows of the
    specification's de-interlaced image `specPixels`. -/
theorem specPixelsT_commute (h : Header) (hv : h.Valid) (hil : h.interlaced = true) (raw : Bytes) (hraw : RawOk h raw)
    (ti : Transform.Info) (hc : ti.colorType.toNat = h.color) (hd : ti.bitDepth.toNat = h.depth)
    (f : Transform.Flags) (hE : ¬ (ti.bitDepth.toNat < 8 ∧ ¬ f.doExpand = true))
    (bg bg0 b0 : Bytes) (hbg : bg.length = Transform.specOutputLineSize ti f h.width * h.height)
    (hbg0 : bg0.length = h.bufferSize) (h0 : specPixels h raw bg0 = some b0) :
    specPixelsT h (fun w row => Transform.specConvert ti f row w) (Transform.specOutputLineSize ti f h.width)
      ((Transform.specOutputColor ti f).samples * Transform.specOutputDepth ti f) raw bg =
      some ((Transform.chunksN h.lineSize h.height b0).flatMap fun row => Transform.specConvert ti f row h.width) := by
  have hleg : Transform.legal ti.colorType ti.bitDepth = true := legal_of_pairs _ _ (by rw [hc, hd]; exact hv.2.2.2.2)
  have hdh : depthOk h.depth = true := (legal_pos hv.2.2.2.2).2.2
  -- the geometry: input pixels of `ib` bits, output pixels of `B` bytes
  have hib : h.bitsPerPixel = ti.colorType.samples * ti.bitDepth.toNat := by
    show samplesOf h.color * h.depth = _
    rw [← hc, ← hd, samples_toNat]
  generalize hibv : ti.colorType.samples * ti.bitDepth.toNat = ib at hib
  have hob := Transform.outBits_eq ti f hE
  generalize hB : Transform.outPixelBytes ti f = B at hob
  have hB1 : 1 ≤ B := by
    rw [← hB]; unfold Transform.outPixelBytes
    have := Transform.samples_pos (Transform.specOutputColor ti f)
    split <;> omega
  have hrb : ∀ w, h.rowBytes w = (w * ti.colorType.samples * ti.bitDepth.toNat + 7) / 8 := by
    intro w
    show (w * h.bitsPerPixel + 7) / 8 = _
    rw [hib, ← hibv, Nat.mul_assoc]
  have hol : ∀ w, Transform.specOutputLineSize ti f w = w * B := by
    intro w
    unfold Transform.specOutputLineSize
    rw [Nat.mul_assoc, hob, ← Nat.mul_assoc]
    omega
  rw [hob, hol] at *
  generalize hW : h.width = W at *
  generalize hH : h.height = H at *
  -- the conversion of a row of `w` pixels, pixel by pixel
  have hpieces : ∀ (row : Bytes) (w : Nat), row.length = h.rowBytes w →
      ∀ k ∈ List.range w, (Transform.serialize (Transform.specOutputDepth ti f)
        (Transform.specPixel ti f (Transform.pixelOf ti row k))).length = B := by
    intro row w hrow k hk
    rw [← hB]
    apply Transform.outPixel_length
    apply Transform.pixelOf_length
    have := Transform.specSamples_enough ti w row (by rw [hrow, hrb])
    have hk' : k + 1 ≤ w := Nat.succ_le_of_lt (List.mem_range.mp hk)
    exact Nat.le_trans (Nat.mul_le_mul_right _ hk') this
  have hpix : ∀ (row : Bytes) (w : Nat), row.length = h.rowBytes w → ∀ k, k < w → ∀ t, t < B * 8 →
      bitAt (Transform.specConvert ti f row w) (k * (B * 8) + t) =
        bitAt (Transform.serialize (Transform.specOutputDepth ti f)
          (Transform.specPixel ti f (Transform.pixelOf ti row k))) t := by
    intro row w hrow k hk t ht
    rw [Transform.specConvert_pixels ti f row w hE, ← Nat.mul_assoc,
      bitAt_flatMap_uniform _ B _ (hpieces row w hrow) k (by simpa using hk) t ht]
    simp
  have hclen : ∀ (row : Bytes) (w : Nat), row.length = h.rowBytes w →
      (Transform.specConvert ti f row w).length = w * B := by
    intro row w hrow
    rw [Transform.specConvert_length ti f w row (by rw [hrow, hrb]), hol]
  have hinbits : ∀ w, w * ib ≤ h.rowBytes w * 8 := by
    intro w
    show w * ib ≤ (w * h.bitsPerPixel + 7) / 8 * 8
    rw [hib]; omega
  -- the specification's image and its rows
  obtain ⟨b0', e0, hl0, hbits0, _⟩ := specPixels_interlaced h hv hil raw hraw bg0 hbg0
  rw [hW, hH] at hbits0
  have : b0' = b0 := by rw [e0] at h0; exact Option.some.inj h0
  subst this
  have hb0len : b0'.length = h.lineSize * H := by rw [hl0, hbg0]; show h.lineSize * h.height = _; rw [hH]
  have hLS : h.lineSize = h.rowBytes W := by show h.rowBytes h.width = _; rw [hW]
  generalize hL : h.lineSize = L at *
  have hrows : Transform.chunksN L H b0' = (List.range H).map fun y => (b0'.drop (y * L)).take L :=
    Transform.chunksN_eq_range L H b0'
  have hPlen : ∀ y, y < H → ((b0'.drop (y * L)).take L).length = L := by
    intro y hy
    rw [List.length_take, List.length_drop, hb0len]
    have : (y + 1) * L ≤ H * L := Nat.mul_le_mul_right _ hy
    rw [Nat.succ_mul, Nat.mul_comm H L] at this
    omega
  -- the output
  obtain ⟨buf, e1, hl1, hbits1, _⟩ := specPixelsT_interlaced_pixels h hv hil raw hraw
    (fun w row => Transform.specConvert ti f row w) (W * B) (B * 8)
    (Or.inr (Or.inr (Or.inr ⟨by omega, by omega⟩))) (by rw [hW, Nat.mul_assoc]; exact Nat.le_refl _)
    (by
      intro p l wd hm
      rw [hW, hH] at hm
      show wd * (B * 8) ≤ (Transform.specConvert ti f (specPassRow h raw p l) wd).length * 8
      rw [hclen _ wd (by rw [specPassRow_length h hil raw hraw p l wd (by rw [hW, hH]; exact hm)]), Nat.mul_assoc]
      exact Nat.le_refl _)
    bg (by rw [hH]; exact hbg)
  rw [hW, hH] at hbits1
  rw [e1]
  congr 1
  rw [hrows, List.flatMap_def, List.map_map, ← List.flatMap_def]
  simp only [Function.comp_def]
  have hrowlen : ∀ y ∈ List.range H,
      (Transform.specConvert ti f ((b0'.drop (y * L)).take L) W).length = W * B := by
    intro y hy
    exact hclen _ W (by rw [hPlen y (by simpa using hy), hLS])
  apply eq_of_bitAt
  · rw [hl1, hbg, Transform.length_flatMap_const _ (W * B) _ hrowlen, List.length_range, Nat.mul_comm]
  · intro k hk
    rw [hl1, hbg] at hk
    obtain ⟨x, y, hx, hy, hk1, hk2⟩ := packed_cover (bits := B * 8) (w := W) (h := H) (stride := W * B) (k := k)
      (by omega) (by rw [Nat.mul_assoc]) (by rw [Nat.mul_comm H]; exact hk)
    obtain ⟨t, rfl⟩ : ∃ t, k = pixelBit (W * B) (B * 8) x y + t := ⟨k - pixelBit (W * B) (B * 8) x y, by omega⟩
    have ht : t < B * 8 := by omega
    obtain ⟨hp1, hp7, hidx, hline, _, _⟩ := cover_exists W H x y hx hy
    have hmem := row_of_pixel_mem W H x y hx hy
    generalize hsrc : specSrc x y = src at *
    obtain ⟨p, l, idx⟩ := src
    simp only at hp1 hp7 hidx hline hmem
    have hRlen : (specPassRow h raw p l).length = h.rowBytes (passW W p) :=
      specPassRow_length h hil raw hraw p l (passW W p) (by rw [hW, hH]; exact hmem)
    -- the output pixel
    rw [hbits1 x y t hx hy ht]
    simp only [hsrc]
    show bitAt (Transform.specConvert ti f (specPassRow h raw p l) (passW h.width p)) (idx * (B * 8) + t) = _
    rw [hW, hpix _ _ hRlen idx hidx t ht]
    -- the pixel of the converted image row
    have hxk : x * (B * 8) + t < W * B * 8 := by
      have : (x + 1) * (B * 8) ≤ W * (B * 8) := Nat.mul_le_mul_right _ hx
      rw [Nat.succ_mul] at this
      rw [Nat.mul_assoc]; omega
    have e : pixelBit (W * B) (B * 8) x y + t = y * (W * B) * 8 + (x * (B * 8) + t) := by
      unfold pixelBit; omega
    rw [e, bitAt_flatMap_uniform _ (W * B) _ hrowlen y (by simpa using hy) _ hxk]
    simp only [List.getElem_range]
    rw [hpix _ W (by rw [hPlen y hy, hLS]) x hx t ht]
    -- the two input pixels have the same bits
    congr 3
    apply Transform.pixelOf_of_bits ti hleg
    · rw [hibv, hRlen]
      exact Nat.le_trans (Nat.mul_le_mul_right _ hidx) (hinbits _)
    · rw [hibv, hPlen y hy, hLS]
      exact Nat.le_trans (Nat.mul_le_mul_right _ hx) (hinbits _)
    · rw [hibv]
      intro t' ht'
      have hb := hbits0 x y t' hx hy (by rw [hib]; exact ht')
      simp only [hsrc] at hb
      rw [hib] at hb
      rw [← hb]
      have hxk' : x * ib + t' < L * 8 := by
        have h1 : (x + 1) * ib ≤ W * ib := Nat.mul_le_mul_right _ hx
        have h2 := hinbits W
        rw [Nat.succ_mul] at h1
        rw [hLS]; omega
      rw [bitAt_take _ _ _ hxk', bitAt_drop]
      unfold pixelBit
      congr 1; omega


theorem chunksN_flatten_take {α : Type} (k : Nat) : ∀ (n : Nat) (l : List α), (Transform.chunksN k n l).flatten = l.take (n * k) := by
  intro n
  induction n with
  | zero => intro l; simp [Transform.chunksN]
  | succ n ih =>
    intro l
    simp only [Transform.chunksN, List.flatten_cons, ih]
    rw [Nat.succ_mul, Nat.add_comm, List.take_add]

/-- **`specPixelsT` for the documented conversion = the documented conversion, row by row, of the specification's
    image**, for both interlace methods and every flag set: if `specPixels h raw _ = some b0` into a buffer pre-filled
    with `p` (the image C01 is about — what decoding without transformations returns), then `specPixelsT` into an output
    buffer pre-filled with `p` is `b0` cut into its `height` rows of `lineSize` bytes, each row converted by
    `specConvert`, concatenated -/
theorem specPixelsT_of_image (h : Header) (hv : h.Valid) (raw : Bytes) (hraw : RawOk h raw)
    (ti : Transform.Info) (hc : ti.colorType.toNat = h.color) (hd : ti.bitDepth.toNat = h.depth)
    (f : Transform.Flags) (p : UInt8) (b0 : Bytes)
    (h0 : specPixels h raw (List.replicate h.bufferSize p) = some b0) :
    specPixelsT h (fun w row => Transform.specConvert ti f row w) (Transform.specOutputLineSize ti f h.width)
      ((Transform.specOutputColor ti f).samples * Transform.specOutputDepth ti f) raw
      (List.replicate (Transform.specOutputLineSize ti f h.width * h.height) p) =
      some ((Transform.chunksN h.lineSize h.height b0).flatMap fun row => Transform.specConvert ti f row h.width) := by
  cases hil : h.interlaced with
  | false => exact specPixelsT_of_specPixels h hil _ _ _ raw _ _ b0 hraw h0
  | true =>
    by_cases hE : ti.bitDepth.toNat < 8 ∧ ¬ f.doExpand = true
    · -- packed rows are left as they are
      rw [specPixelsT_packed h ti hc hd f hE]
      have he : f.doExpand = false := by simpa using hE.2
      have hed : Transform.specExpandedDepth ti f = ti.bitDepth.toNat := by simp [Transform.specExpandedDepth, he]
      have hod : Transform.specOutputDepth ti f = ti.bitDepth.toNat := by
        simp only [Transform.specOutputDepth, hed]; rw [if_neg (by omega)]
      have hoc : Transform.specOutputColor ti f = ti.colorType := by simp [Transform.specOutputColor, he]
      have hline : Transform.specOutputLineSize ti f h.width = h.lineSize := by
        unfold Transform.specOutputLineSize
        rw [hoc, hod, hd, ← samples_toNat, hc, Nat.mul_assoc]; rfl
      rw [hline]
      have hconv : (fun row : Bytes => Transform.specConvert ti f row h.width) = fun r => r := by
        funext row; unfold Transform.specConvert; rw [if_pos hE]
      obtain ⟨b0', e0, hl0, _⟩ := specPixels_interlaced h hv hil raw hraw (List.replicate h.bufferSize p) (by simp)
      have : b0' = b0 := by rw [e0] at h0; exact Option.some.inj h0
      subst this
      show specPixels h raw (List.replicate h.bufferSize p) = _
      rw [h0, hconv, List.flatMap_def, List.map_id', chunksN_flatten_take, List.take_of_length_le]
      rw [hl0, List.length_replicate]
      show h.lineSize * h.height ≤ _
      rw [Nat.mul_comm]; exact Nat.le_refl _
    · exact specPixelsT_commute h hv hil raw hraw ti hc hd f hE _ _ b0 (by simp) (by simp) h0

end Png.Reader
