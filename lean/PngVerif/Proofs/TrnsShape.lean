import PngVerif.Proofs.ReaderSeq
/-!
# The shape of the stored `tRNS` (an invariant of the stream decoder that `DInv` does not record)

`parse_trns` (stream.rs:1222-1290, `Framing.parseTrns`) is the only writer of `info.trns`.  For a
grayscale image it rejects a chunk shorter than 2 bytes and stores ONE byte below 16 bits (the whole
chunk, at least 2 bytes, at 16 bits); for an RGB image it rejects a chunk shorter than 6 bytes and
stores THREE bytes below 16 bits (the whole chunk, at least 6 bytes, at 16 bits).  `TrnsShape` says
that; `update_keyInv` shows that every `update` call keeps it (`KeyInv`), from any decoder — in particular
from a new one (`keyInv_new`).

Why it matters: `expand_gray_u8_with_trns` (transform.rs:188-203) reads `trns[0]`, so the row
transformation of `Model/Transform.lean` panics on a grayscale `Info` below 8 bits whose stored `tRNS` is
empty (`Proofs/TransformContract.lean`, `keyGap`); `InfoLegal` / `DInv` (`Proofs/ReaderSeq.lean`) do not
exclude that `Info`, this invariant does (`TrnsShape.no_gap`).
-/
namespace Png.Framing
open Png

/-- what `parse_trns` leaves in `info.trns` for grayscale (colour type 0) and RGB (colour type 2) images -/
def TrnsShape (i : Info) : Prop :=
  ∀ t, i.trns = some t →
    (i.color = 0 → if i.depth < 16 then t.length = 1 else 2 ≤ t.length) ∧
    (i.color = 2 → if i.depth < 16 then t.length = 3 else 6 ≤ t.length)

/-- the decoder's `info`, if present, has a `tRNS` of that shape -/
def KeyInv (d : Dec) : Prop := ∀ i, d.info = some i → TrnsShape i

/-- the fields `TrnsShape` reads -/
def Info.tkey (i : Info) : Nat × Nat × Option Bytes := (i.color, i.depth, i.trns)

theorem TrnsShape.of_tkey {i j : Info} (h : j.tkey = i.tkey) (hi : TrnsShape i) : TrnsShape j := by
  simp only [Info.tkey, Prod.mk.injEq] at h
  obtain ⟨hc, hd, ht⟩ := h
  intro t hjt
  rw [hc, hd]
  exact hi t (by rw [← ht]; exact hjt)

/-- a grayscale `Info` of that shape never has an empty `tRNS` -/
theorem TrnsShape.no_gap {i : Info} (h : TrnsShape i) (hc : i.color = 0) : i.trns ≠ some [] := by
  intro ht
  have := (h [] ht).1 hc
  split at this <;> simp at this

theorem KeyInv.of_map {d d' : Dec} (h : d'.info.map Info.tkey = d.info.map Info.tkey) (hd : KeyInv d) : KeyInv d' := by
  intro j hj
  rw [hj] at h
  cases hi : d.info with
  | none => rw [hi] at h; cases h
  | some i =>
    rw [hi] at h
    simp only [Option.map_some, Option.some.injEq] at h
    exact (hd i hi).of_tkey h

theorem KeyInv.of_info {d d' : Dec} (h : d'.info = d.info) (hd : KeyInv d) : KeyInv d' :=
  hd.of_map (by rw [h])

/-! ## The chunk parsers -/

/-- a parser that leaves colour type, bit depth and `tRNS` alone -/
def PKey (d : Dec) (r : PRes) : Prop := ∀ d' ev, r = .ok (d', ev) → d'.info.map Info.tkey = d.info.map Info.tkey

macro "parser_key" h:ident : tactic => `(tactic| (
  simp only [bind, Except.bind, eofOr, pure, Except.pure, throw, throwThe, MonadExceptOf.throw, withInfo] at $h:ident
  repeat' split at $h:ident
  all_goals first
    | (cases $h:ident; done)
    | (cases $h:ident
       try (have hr := reserve_eq_limit (by assumption); subst hr)
       simp_all [setInfo, addText, Info.tkey, Option.map_map, Function.comp_def])))

theorem parseActl_key (d : Dec) : PKey d (parseActl d) := by
  intro d' ev h; unfold parseActl at h; parser_key h
theorem parsePlte_key (d : Dec) : PKey d (parsePlte d) := by
  intro d' ev h; unfold parsePlte at h; parser_key h
theorem parseSbit_key (d : Dec) : PKey d (parseSbit d) := by
  intro d' ev h; unfold parseSbit at h; parser_key h
theorem parsePhys_key (d : Dec) : PKey d (parsePhys d) := by
  intro d' ev h; unfold parsePhys at h; parser_key h
theorem parseChrm_key (d : Dec) : PKey d (parseChrm d) := by
  intro d' ev h; unfold parseChrm at h; parser_key h
theorem parseGama_key (d : Dec) : PKey d (parseGama d) := by
  intro d' ev h; unfold parseGama at h; parser_key h
theorem parseSrgb_key (d : Dec) : PKey d (parseSrgb d) := by
  intro d' ev h; unfold parseSrgb at h; parser_key h
theorem parseCicp_key (d : Dec) : PKey d (parseCicp d) := by
  intro d' ev h; unfold parseCicp at h; parser_key h
theorem parseMdcv_key (d : Dec) : PKey d (parseMdcv d) := by
  intro d' ev h; unfold parseMdcv at h; parser_key h
theorem parseClli_key (d : Dec) : PKey d (parseClli d) := by
  intro d' ev h; unfold parseClli at h; parser_key h
theorem parseExif_key (d : Dec) : PKey d (parseExif d) := by
  intro d' ev h; unfold parseExif at h; parser_key h
theorem parseBkgd_key (d : Dec) : PKey d (parseBkgd d) := by
  intro d' ev h; unfold parseBkgd at h; parser_key h
theorem parseText_key (d : Dec) : PKey d (parseText d) := by
  intro d' ev h; unfold parseText at h; parser_key h
theorem parseZtxt_key (d : Dec) : PKey d (parseZtxt d) := by
  intro d' ev h; unfold parseZtxt at h; parser_key h
theorem parseItxt_key (cfg : Cfg) (d : Dec) : PKey d (parseItxt cfg d) := by
  intro d' ev h; unfold parseItxt at h; parser_key h

theorem parseIccpRaw_key {cfg : Cfg} {d d' : Dec} (h : parseIccpRaw cfg d = .ok d') :
    d'.info.map Info.tkey = d.info.map Info.tkey := by
  unfold parseIccpRaw at h
  simp only [bind, Except.bind, eofOr, pure, Except.pure, throw, throwThe, MonadExceptOf.throw] at h
  repeat' split at h
  all_goals first
    | (cases h; done)
    | (cases h
       have hr := reserve_eq_limit (by assumption); subst hr
       simp only [setInfo, Option.map_map]; rfl)

theorem parseIccp_key (cfg : Cfg) (d : Dec) : PKey d (parseIccp cfg d) := by
  intro d' ev h
  unfold parseIccp at h
  simp only at h
  repeat' split at h
  all_goals first
    | (cases h; done)
    | (cases h; rfl)
    | (cases h; have hk := parseIccpRaw_key (by assumption); exact hk)

/-- **`parse_trns` stores a `tRNS` of the documented shape** (and is the only parser that writes it) -/
theorem parseTrns_keyInv {d d' : Dec} {ev : Ev} (h : parseTrns d = .ok (d', ev)) : KeyInv d' := by
  unfold parseTrns at h
  simp only [bind, Except.bind, pure, Except.pure, throw, throwThe, MonadExceptOf.throw, withInfo] at h
  repeat' split at h
  all_goals first
    | (cases h; done)
    | (cases h
       have hr := reserve_eq_limit (by assumption); subst hr
       intro j hj
       simp only [setInfo] at hj
       rw [show d.info = some _ by assumption] at hj
       simp only [Option.map_some, Option.some.injEq] at hj
       subst hj
       intro t ht
       simp only [Option.some.injEq] at ht
       subst ht
       simp only
       constructor <;> intro hc <;> simp_all <;> omega)

theorem parseIhdr_keyInv {d d' : Dec} {ev : Ev} (h : parseIhdr d = .ok (d', ev)) : KeyInv d' := by
  obtain ⟨_, i, rfl, _, _, _, ht, _⟩ := parseIhdr_spec h
  intro j hj
  simp only [Option.some.injEq] at hj
  subst hj
  intro t h; rw [ht] at h; cases h

theorem parseFctl_key (d : Dec) : PKey d (parseFctl d) := by
  intro d' ev h
  obtain ⟨i, fc, hi, _, hi', _⟩ := parseFctl_spec h
  rw [hi, hi']; rfl

local macro "dcase" h:ident c:term "," l:term : tactic =>
  `(tactic| (by_cases hc : $c; (· rw [if_pos hc] at $h:ident; exact $l); rw [if_neg hc] at $h:ident))

/-- every chunk parser keeps the shape -/
theorem dispatch_keyInv {cfg : Cfg} {d d' : Dec} {t : ChunkType} {ev : Ev} (h : dispatch cfg d t = .ok (d', ev))
    (hd : KeyInv d) : KeyInv d' := by
  have key : ∀ {r : PRes}, PKey d r → r = .ok (d', ev) → KeyInv d' := fun hp hr => hd.of_map (hp _ _ hr)
  unfold dispatch at h
  dcase h (t = IHDR), parseIhdr_keyInv h
  dcase h (t = sBIT), key (parseSbit_key _) h
  dcase h (t = PLTE), key (parsePlte_key _) h
  dcase h (t = tRNS), parseTrns_keyInv h
  dcase h (t = pHYs), key (parsePhys_key _) h
  dcase h (t = gAMA), key (parseGama_key _) h
  dcase h (t = acTL), key (parseActl_key _) h
  dcase h (t = fcTL), key (parseFctl_key _) h
  dcase h (t = cHRM), key (parseChrm_key _) h
  dcase h (t = sRGB), key (parseSrgb_key _) h
  dcase h (t = cICP), key (parseCicp_key _) h
  dcase h (t = mDCV), key (parseMdcv_key _) h
  dcase h (t = cLLI), key (parseClli_key _) h
  dcase h (t = eXIf), key (parseExif_key _) h
  dcase h (t = bKGD), key (parseBkgd_key _) h
  dcase h (t = iCCP ∧ (!d.opts.ignoreIccp) = true), key (parseIccp_key _ _) h
  dcase h (t = tEXt ∧ (!d.opts.ignoreText) = true), key (parseText_key _) h
  dcase h (t = zTXt ∧ (!d.opts.ignoreText) = true), key (parseZtxt_key _) h
  dcase h (t = iTXt ∧ (!d.opts.ignoreText) = true), key (parseItxt_key _ _) h
  cases h; exact hd

/-- `parse_chunk`, including the benign failures that keep what was charged to `Limits` -/
theorem parseChunk_keyInv {cfg : Cfg} {d d' : Dec} {t : ChunkType} {ev : Ev}
    (h : parseChunk cfg d t = .ok (ev, d')) (hd : KeyInv d) : KeyInv d' := by
  unfold parseChunk at h
  simp only at h
  have hd0 : KeyInv { d with state := some (.u32 (.crc t) []) } := hd.of_info rfl
  cases hdi : dispatch cfg { d with state := some (.u32 (.crc t) []) } t with
  | ok r =>
    rw [hdi] at h; obtain ⟨d1, ev1⟩ := r; cases h
    exact dispatch_keyInv hdi hd0
  | error e =>
    rw [hdi] at h; simp only at h
    have key : ∀ d0 : Dec, KeyInv d0 → KeyInv (if t = sBIT ∨ t = tRNS then
          (match d0.info with
           | some i =>
             if (if t = sBIT then !(i.palette.isSome || d0.haveIdat || i.sbit.isSome) else !(i.trns.isSome || d0.haveIdat)) = true then
               (match reserve d0 d0.raw.length with | .ok d2 => d2 | .error _ => d0) else d0
           | none => d0)
        else d0) := by
      intro d0 h0
      refine ite_prop (fun x : Dec => KeyInv x) ?_ h0
      split
      · refine ite_prop (fun x : Dec => KeyInv x) ?_ h0
        split
        · rename_i hr; rw [reserve_eq_limit hr]; exact h0.of_info rfl
        · exact h0
      · exact h0
    cases e <;> simp only [Bool.true_and, Bool.false_and, Bool.false_eq_true, if_false] at h
    · split at h
      · cases h; exact key _ hd0
      · cases h
    · split at h
      · cases h; exact key _ hd0
      · cases h
    · cases h
    · cases h

/-! ## `next_state` and `update` -/

/-- **every `next_state` call keeps the shape** -/
theorem nextState_keyInv {cfg : Cfg} {d d' : Dec} {st : St} {buf : Bytes} {n : Nat} {ev : Ev} (hd : KeyInv d)
    (h : nextState cfg d st buf = .ok (n, ev, d')) : KeyInv d' := by
  unfold nextState at h
  simp only at h
  have hd0 : KeyInv { d with state := none } := hd.of_info rfl
  cases st with
  | u32 kind acc =>
    simp only at h
    rcases stepU32_eq h with ⟨_, _, acc', _, hd'⟩ | ⟨b0, b1, b2, b3, hp, _⟩
    · subst hd'; exact hd.of_info rfl
    · cases kind with
      | sig1 => obtain ⟨_, k', _, rfl⟩ := parseU32_simple (Or.inl rfl) hp; exact hd.of_info rfl
      | sig2 => obtain ⟨_, k', _, rfl⟩ := parseU32_simple (Or.inr (Or.inl rfl)) hp; exact hd.of_info rfl
      | length => obtain ⟨_, k', _, rfl⟩ := parseU32_simple (Or.inr (Or.inr rfl)) hp; exact hd.of_info rfl
      | type len =>
        cases parseU32_typeStep hp with
        | flush hne hdt he hi hh hst hc hri hrf hsq => exact hd.of_info hi
        | begin hno he hi hri hrf ho hh hc hinfo hst hsq hraw => exact hd.of_info hi
      | crc t =>
        rcases parseU32_crcStep hp with ⟨_, _, rfl⟩ | ⟨_, _, rfl⟩ | ⟨_, rfl⟩ <;> exact hd.of_info rfl
      | seqNo =>
        obtain ⟨_, q, _, _⟩ := parseU32_seqNoStep hp
        exact hd.of_info q.info
  | parseChunkData t =>
    simp only at h
    unfold stepParse at h
    split at h
    · cases hp : parseChunk cfg { d with state := none } t with
      | error e => rw [hp] at h; cases h
      | ok r =>
        rw [hp] at h; obtain ⟨ev1, d1⟩ := r
        simp only [Except.map] at h
        cases h
        exact parseChunk_keyInv hp hd0
    · cases hp : reserveCurrentChunk { d with state := none } with
      | error e => rw [hp] at h; cases h
      | ok d1 =>
        rw [hp] at h
        simp only [Except.map] at h
        cases h
        obtain ⟨q, _⟩ := reserveCurrentChunk_quiet hp
        exact hd.of_info q.info
  | readChunkData t =>
    simp only at h
    obtain ⟨_, q, _, _⟩ := stepRead_eq h
    exact hd.of_info q.info
  | imageData t =>
    simp only at h
    obtain ⟨_, q, _⟩ := stepImage_eq h
    exact hd.of_info q.info

/-- **every `update` call keeps the shape**, whatever it returns -/
theorem update_keyInv (cfg : Cfg) (d : Dec) (buf : Bytes) (hd : KeyInv d) : KeyInv (update cfg d buf).1 := by
  cases hs : d.state with
  | none =>
    have := (poisoned_refuses cfg d buf hs).2
    rw [this]; exact hd
  | some st0 =>
    have := update_inv cfg KeyInv (fun x st b n x' hx _ hn => nextState_keyInv hx hn) d buf hd (by simp [hs])
    cases hu : update cfg d buf with
    | mk dF res =>
      rw [hu] at this
      cases res with
      | ok r =>
        obtain ⟨m, ev⟩ := r
        rcases this with ⟨_, h⟩ | ⟨dk, st, b, n, hk, _, hn⟩
        · exact h
        · exact nextState_keyInv hk hn
      | error e =>
        obtain ⟨dk, hk, rfl⟩ := this
        exact hk.of_info rfl

/-- a new decoder has no `info` -/
theorem keyInv_new (opts : Options) (limit : Nat) : KeyInv ({ opts := opts, limit := limit } : Dec) := by
  intro i hi; cases hi

end Png.Framing
