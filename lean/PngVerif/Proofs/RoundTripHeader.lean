import PngVerif.Proofs.RoundTripKinds
/-!
# C03 end to end: the decoder accepts the whole header `encode_header` writes for a still image

`metaChunks c` = `pHYs`; `sRGB` (+ substitute `gAMA` / `cHRM`) or `gAMA`, `cHRM`, `iCCP`; `eXIf`; `PLTE`; `tRNS`; the text
chunks — in this order (`Enc.headerChunks`).  `header_accepted`: under `MetaOk` (the text chunks are well-formed text
chunks, bodies shorter than `2^32`, `P` bounds the decompressed ICC profile) and with a limit of at least
`metaCost P c` bytes more than what is needed afterwards, the decoder reads them all (`AncChunksG`) and keeps that much
of its limit.
-/
namespace Png.RoundTrip
open Png Png.Val Png.Framing Png.WellFormed

/-- the extra charge for an `iCCP` chunk: the decompressed profile -/
def iccpExtra (P : Nat) (c : RChunk) : Nat := if c.ty = tyICCP then P else 0

/-- a sufficient limit for the chunks between `IHDR` and `IDAT`: three times the body of each (twice for the growth of the
    chunk buffer — only bodies over 32 KiB make it grow — and once for the copy kept in `Info`), and `P` for the ICC profile -/
def metaCost (P : Nat) (c : Enc.Cfg) : Nat := listCost (iccpExtra P) (metaChunks c)

/-- what the decoder needs of the metadata the encoder was given: text chunks the decoder accepts (`TextChunkOk`: type
    `tEXt`/`zTXt`/`iTXt`, body of the shape the text encoders produce unless text chunks are ignored), chunk bodies whose
    length fits the length field, a bound `P` on the decompressed ICC profile -/
structure MetaOk (cfg : Framing.Cfg) (ignoreText : Bool) (P : Nat) (c : Enc.Cfg) : Prop where
  texts : ∀ ch ∈ (Enc.textPrefix c.texts).1, TextChunkOk cfg ignoreText ch.ty ch.data
  len : ∀ ch ∈ metaChunks c, ch.data.length < 2 ^ 32
  profile : ∀ ch ∈ metaChunks c, ch.ty = tyICCP → ProfileBound cfg ch.data P

theorem preChunks_kinds (m : Enc.Meta) : ∀ c ∈ Enc.preChunks m, c.ty ∈ [pHYs, sRGB, gAMA, cHRM, iCCP, eXIf] := by
  obtain ⟨_, _, _, _, _, e1, e2, e3, e4, e5, e6, _⟩ := ty_eqs
  intro c hc
  simp only [Enc.preChunks, List.mem_append] at hc
  rcases hc with (hc | hc) | hc
  · rw [Enc.optChunk_ty hc, e1]; simp
  · cases hs : m.srgb with
    | some i =>
      simp only [hs, List.mem_append, List.mem_cons, List.not_mem_nil, or_false] at hc
      rcases hc with (hc | hc) | hc
      · rw [hc]; show tySRGB ∈ _; rw [e2]; simp
      · split at hc <;> simp at hc; rw [hc]; show tyGAMA ∈ _; rw [e3]; simp
      · split at hc <;> simp at hc; rw [hc]; show tyCHRM ∈ _; rw [e4]; simp
    | none =>
      simp only [hs, List.mem_append] at hc
      rcases hc with (hc | hc) | hc
      · rw [Enc.optChunk_ty hc, e3]; simp
      · rw [Enc.optChunk_ty hc, e4]; simp
      · rw [Enc.optChunk_ty hc, e5]; simp
  · rw [Enc.optChunk_ty hc, e6]; simp

theorem ne_PLTE_of_mem {t : ChunkType} (h : t ∈ [tRNS, pHYs, sRGB, gAMA, cHRM, iCCP, eXIf, tEXt, zTXt, iTXt]) : t ≠ PLTE := by
  simp only [List.mem_cons, List.mem_nil_iff, or_false] at h
  rcases h with rfl | rfl | rfl | rfl | rfl | rfl | rfl | rfl | rfl | rfl <;> decide +kernel

/-- the metadata chunks before `PLTE` are inert -/
theorem inert_pre (cfg : Framing.Cfg) (o : Options) (P : Nat) (c : RChunk)
    (hk : c.ty ∈ [pHYs, sRGB, gAMA, cHRM, iCCP, eXIf]) (hlen : c.data.length < 2 ^ 32)
    (hP : c.ty = tyICCP → ProfileBound cfg c.data P) : Inert cfg o (iccpExtra P) c := by
  refine ⟨typeOk_of_mem ((by decide +kernel : [pHYs, sRGB, gAMA, cHRM, iCCP, eXIf] ⊆ _) hk),
    ne_PLTE_of_mem ((by decide +kernel : [pHYs, sRGB, gAMA, cHRM, iCCP, eXIf] ⊆ _) hk), hlen, ?_⟩
  simp only [List.mem_cons, List.mem_nil_iff, or_false] at hk
  rcases hk with h | h | h | h | h | h
  · exact ⟨0, Nat.zero_le _, by rw [h]; exact accepts_pHYs cfg o _⟩
  · exact ⟨0, Nat.zero_le _, by rw [h]; exact accepts_sRGB cfg o _⟩
  · exact ⟨0, Nat.zero_le _, by rw [h]; exact accepts_gAMA cfg o _⟩
  · exact ⟨0, Nat.zero_le _, by rw [h]; exact accepts_cHRM cfg o _⟩
  · have hi : c.ty = tyICCP := by rw [h]; exact ty_eqs.2.2.2.2.2.2.2.2.2.1.symm
    refine ⟨P, ?_, by rw [h]; exact accepts_iCCP cfg o _ P (hP hi)⟩
    simp only [iccpExtra, hi, if_true]; omega
  · exact ⟨0, Nat.zero_le _, by rw [h]; exact accepts_eXIf cfg o _⟩

/-- `tRNS` and the text chunks are inert -/
theorem inert_post (cfg : Framing.Cfg) (o : Options) (P : Nat) (c : RChunk) (hlen : c.data.length < 2 ^ 32)
    (hk : c.ty = tRNS ∨ TextChunkOk cfg o.ignoreText c.ty c.data) : Inert cfg o (iccpExtra P) c := by
  rcases hk with h | h
  · refine ⟨typeOk_of_mem (by rw [h]; simp), by rw [h]; decide +kernel, hlen, c.data.length, Nat.le_add_right _ _, ?_⟩
    rw [h]; exact accepts_tRNS cfg o _
  · have hmem : c.ty ∈ [tEXt, zTXt, iTXt] := by
      rcases h.1 with h1 | h1 | h1 <;> rw [h1] <;> simp
    refine ⟨typeOk_of_mem ((by decide +kernel : [tEXt, zTXt, iTXt] ⊆ _) hmem),
      ne_PLTE_of_mem ((by decide +kernel : [tEXt, zTXt, iTXt] ⊆ _) hmem), hlen,
      c.data.length, Nat.le_add_right _ _, accepts_text cfg o _ _ h⟩

theorem pairs_append (a b : List RChunk) : pairs (a ++ b) = pairs a ++ pairs b := by simp [pairs]

/-- **the decoder reads every chunk `encode_header` wrote** and keeps `limit − metaCost` of its limit -/
theorem header_accepted (cfg : Framing.Cfg) (opts : Options) (limit : Nat) (P : Nat) (c : Enc.Cfg) (need : Nat)
    (hm : MetaOk cfg opts.ignoreText P c) (hlimit : need + metaCost P c ≤ limit) :
    ∃ dA, AncChunksG cfg (afterIhdr cfg opts limit (headerOf c)) (pairs (metaChunks c)) dA ∧ need ≤ dA.limit := by
  have hr0 : Ready (afterIhdr cfg opts limit (headerOf c)) (headerOf c).info opts :=
    ⟨rfl, by show 0 < Params.chunkBufferSize; decide, rfl⟩
  have hl0 : (afterIhdr cfg opts limit (headerOf c)).limit = limit := rfl
  generalize afterIhdr cfg opts limit (headerOf c) = d0 at hr0 hl0 ⊢
  have hmem : ∀ ch, ch ∈ Enc.preChunks c.md ∨ ch ∈ Enc.optChunk tyPLTE c.palette ∨ ch ∈ Enc.optChunk tyTRNS c.trns ∨
      ch ∈ (Enc.textPrefix c.texts).1 → ch ∈ metaChunks c := by
    intro ch h
    simp only [metaChunks, List.mem_append]
    grind
  have hcost : metaCost P c = listCost (iccpExtra P) (Enc.preChunks c.md) +
      listCost (iccpExtra P) (Enc.optChunk tyPLTE c.palette) +
      listCost (iccpExtra P) (Enc.optChunk tyTRNS c.trns ++ (Enc.textPrefix c.texts).1) := by
    simp only [metaCost, metaChunks, listCost_append]; omega
  rw [hcost] at hlimit
  -- the metadata before the palette
  obtain ⟨d1, i1, hc1, hr1, hl1, hp1⟩ := chain_of_accepts cfg opts (iccpExtra P) (Enc.preChunks c.md)
    (fun ch hch => inert_pre cfg opts P ch (preChunks_kinds c.md ch hch) (hm.len ch (hmem ch (Or.inl hch)))
      (hm.profile ch (hmem ch (Or.inl hch)))) d0 _ hr0 (by omega)
  have hpal1 : i1.palette = none := hp1
  -- the palette
  have hstage2 : ∃ d2 i2, AncChunksG cfg d1 (pairs (Enc.optChunk tyPLTE c.palette)) d2 ∧ Ready d2 i2 opts ∧
      d1.limit ≤ d2.limit + listCost (iccpExtra P) (Enc.optChunk tyPLTE c.palette) := by
    cases hp : c.palette with
    | none => exact ⟨d1, i1, .nil d1, hr1, Nat.le_add_right _ _⟩
    | some pal =>
      have hlen : pal.length < 2 ^ 32 := hm.len ⟨tyPLTE, pal⟩ (hmem _ (Or.inr (Or.inl (by simp [hp, Enc.optChunk]))))
      have hc : listCost (iccpExtra P) (Enc.optChunk tyPLTE (some pal)) = 3 * pal.length := by
        have hne : ¬ (tyPLTE = tyICCP) := by decide
        simp [Enc.optChunk, listCost, chunkCost, iccpExtra, hne]
      rw [hp, hc] at hlimit
      obtain ⟨d2, i2, hs2, hr2, hl2, _⟩ := step_of_accepts cfg (typeOk_of_mem (t := PLTE) (by simp)) hlen
        (accepts_PLTE cfg opts pal) hr1 hpal1 (by omega) (by omega)
      refine ⟨d2, i2, ?_, hr2, by rw [hc]; omega⟩
      have : pairs (Enc.optChunk tyPLTE (some pal)) = [(PLTE, pal)] := by
        simp only [pairs, Enc.optChunk, List.map_cons, List.map_nil, ty_eqs.2.1]
      rw [this]
      exact .cons hs2 (.nil d2)
  obtain ⟨d2, i2, hc2, hr2, hl2⟩ := hstage2
  -- `tRNS` and the text chunks
  obtain ⟨d3, i3, hc3, hr3, hl3, _⟩ := chain_of_accepts cfg opts (iccpExtra P)
    (Enc.optChunk tyTRNS c.trns ++ (Enc.textPrefix c.texts).1)
    (fun ch hch => by
      rcases List.mem_append.mp hch with h | h
      · exact inert_post cfg opts P ch (hm.len ch (hmem ch (Or.inr (Or.inr (Or.inl h)))))
          (Or.inl (by rw [Enc.optChunk_ty h]; exact ty_eqs.2.2.2.2.1))
      · exact inert_post cfg opts P ch (hm.len ch (hmem ch (Or.inr (Or.inr (Or.inr h))))) (Or.inr (hm.texts ch h)))
    d2 i2 hr2 (by omega)
  refine ⟨d3, ?_, by omega⟩
  have : metaChunks c = Enc.preChunks c.md ++ (Enc.optChunk tyPLTE c.palette ++
      (Enc.optChunk tyTRNS c.trns ++ (Enc.textPrefix c.texts).1)) := by
    simp only [metaChunks, List.append_assoc]
  rw [this, pairs_append, pairs_append]
  exact AncChunksG.append hc1 (AncChunksG.append hc2 hc3)

/-! ## the cost in closed form -/

/-- the bytes of the chunk bodies between `IHDR` and `IDAT` -/
def metaBytes (c : Enc.Cfg) : Nat := ((metaChunks c).map fun ch => ch.data.length).sum

theorem listCost_eq (x : RChunk → Nat) (cs : List RChunk) :
    listCost x cs = 3 * (cs.map fun ch => ch.data.length).sum + (cs.map x).sum := by
  induction cs with
  | nil => rfl
  | cons c cs ih => rw [listCost_cons, ih]; simp only [chunkCost, List.map_cons, List.sum_cons]; omega

theorem extra_optChunk (P : Nat) (t : Ty) (o : Option Bytes) :
    ((Enc.optChunk t o).map (iccpExtra P)).sum = if t = tyICCP ∧ o.isSome then P else 0 := by
  cases o <;> simp [Enc.optChunk, iccpExtra]

/-- `encode_header` writes at most one `iCCP` chunk -/
theorem extra_pre (P : Nat) (m : Enc.Meta) : ((Enc.preChunks m).map (iccpExtra P)).sum ≤ P := by
  have n1 : ¬ (tyPHYS = tyICCP) := by decide
  have n2 : ¬ (tySRGB = tyICCP) := by decide
  have n3 : ¬ (tyGAMA = tyICCP) := by decide
  have n4 : ¬ (tyCHRM = tyICCP) := by decide
  have n5 : ¬ (tyEXIF = tyICCP) := by decide
  unfold Enc.preChunks
  cases m.srgb with
  | some i =>
    simp only [List.map_append, List.sum_append, extra_optChunk, n1, n5, false_and, if_false, Nat.zero_add, Nat.add_zero]
    have a : ((if m.gama = some Enc.substGamma then [(⟨tyGAMA, be32Bytes Enc.substGamma⟩ : RChunk)] else []).map
        (iccpExtra P)).sum = 0 := by split <;> simp [iccpExtra, n3]
    have b : ((if m.chrm = some Enc.substChrm then [(⟨tyCHRM, Enc.substChrm⟩ : RChunk)] else []).map
        (iccpExtra P)).sum = 0 := by split <;> simp [iccpExtra, n4]
    rw [a, b]
    simp [iccpExtra, n2]
  | none =>
    simp only [List.map_append, List.sum_append, extra_optChunk, n1, n3, n4, n5, false_and, if_false, Nat.zero_add,
      Nat.add_zero]
    split <;> omega

/-- **`metaCost` in closed form**: three times the bytes of the chunk bodies between `IHDR` and `IDAT`, plus `P` -/
theorem metaCost_le (P : Nat) (c : Enc.Cfg) (htx : ∀ ch ∈ (Enc.textPrefix c.texts).1, ch.ty ≠ tyICCP) :
    metaCost P c ≤ 3 * metaBytes c + P := by
  have n1 : ¬ (tyPLTE = tyICCP) := by decide
  have n2 : ¬ (tyTRNS = tyICCP) := by decide
  have ht : (((Enc.textPrefix c.texts).1).map (iccpExtra P)).sum = 0 := by
    generalize (Enc.textPrefix c.texts).1 = l at htx
    induction l with
    | nil => rfl
    | cons a l ih =>
      simp only [List.map_cons, List.sum_cons, iccpExtra, htx a (by simp), if_false, Nat.zero_add]
      exact ih (fun ch h => htx ch (by simp [h]))
  unfold metaCost metaBytes
  rw [listCost_eq]
  have : ((metaChunks c).map (iccpExtra P)).sum ≤ P := by
    simp only [metaChunks, List.map_append, List.sum_append, extra_optChunk, n1, n2, false_and, if_false, ht, Nat.add_zero]
    exact extra_pre P c.md
  omega

end Png.RoundTrip
