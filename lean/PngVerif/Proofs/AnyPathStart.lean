import PngVerif.Proofs.ComposeFrames
import PngVerif.Proofs.AnyPathBridge
/-!
# The reader `read_info` returns on a well-formed file: how many frames remain

`Reader.readInfo_wf` (the L2 layer of C01 / C09) describes the reader after `read_info` on a well-formed stream; the
end-to-end theorems keep only the results of the calls.  The composition with C13 (`anyPath_of_run`) needs two more
facts about that reader — no `next_frame` buffer is pending and `remaining` is the number of frames of the file:

* `still_start`: a still image (no `acTL` before the image data): one frame;
* `apng_start`, `apng_default_start`: the two animated layouts of `Model/WellFormed.lean`: `frames.length + 1` frames.
-/
namespace Png.Reader
open Png Png.Framing Png.WellFormed

/-- what follows the image data of a still image begins with the length and the type (not `IDAT`) of a chunk
    (as `Png.C01.tail_shape`) -/
theorem still_tail_shape (cfg : Cfg) (post : List (ChunkType × Bytes))
    (hpost : ∀ c ∈ post, c.1 ≠ IDAT ∧ c.1 < 2 ^ 32 ∧ c.2.length < 2 ^ 32) :
    ∃ len' t' rest', chunks cfg post ++ chunk cfg IEND [] = be32Bytes len' ++ typeBytes t' ++ rest' ∧
      len' < 2 ^ 32 ∧ t' < 2 ^ 32 ∧ t' ≠ IDAT := by
  cases post with
  | nil =>
    refine ⟨0, IEND, [] ++ (be32Bytes (cfg.crc (typeBytes IEND ++ [])) ++ []), ?_, by decide, IEND_lt,
      fun h => IDAT_ne_IEND' h.symm⟩
    simp only [chunks, List.map_nil, List.flatten_nil, List.nil_append]
    have := chunk_append cfg IEND [] []
    simpa using this
  | cons c post =>
    obtain ⟨h1, h2, h3⟩ := hpost c (by simp)
    refine ⟨c.2.length, c.1, c.2 ++ (be32Bytes (cfg.crc (typeBytes c.1 ++ c.2)) ++ (chunks cfg post ++ chunk cfg IEND [])),
      ?_, h3, h2, h1⟩
    have : chunks cfg (c :: post) = chunk cfg c.1 c.2 ++ chunks cfg post := by simp [chunks]
    rw [this, List.append_assoc, chunk_append]

theorem step_readInfo_init (cfg : Cfg) (t : TCfg) (opts : Options) (limit : Nat) (f : Flags) (file : Bytes) :
    step cfg t (R.init opts limit f file file.length) .readInfo = readInfo cfg t (R.init opts limit f file file.length) := by
  have hdead : (R.init opts limit f file file.length).dead = false := rfl
  generalize R.init opts limit f file file.length = r0 at hdead ⊢
  show (if r0.dead then _ else readInfo cfg t r0) = _
  rw [hdead]; rfl

/-- **`read_info` on a well-formed still image** (hypotheses of `Png.C01.C01_decode`, and no `acTL` chunk among the
    chunks before the image data): the reader it returns has no buffer pending and exactly one frame remaining -/
theorem still_start (cfg : Cfg) (hI : cfg.InflateOk) (hC : cfg.CrcOk) {t : TCfg} {f : Flags} (ht : t.IsIdentity f)
    (opts : Options) (limit : Nat) (h : Header) (hv : h.Valid) (anc : Bytes) (dA : Dec)
    (hanc : AncTrace cfg (afterIhdr cfg opts limit h) anc dA) (hidle : Idle dA h.info.core)
    (hstill : ∀ i, dA.info = some i → i.actl = none)
    (zs : List Bytes) (raw : Bytes) (post : List (ChunkType × Bytes))
    (hzs : zs ≠ []) (hlen : ∀ z ∈ zs, z.length < 2 ^ 32) (hinf : cfg.inflate zs.flatten = some (raw, true))
    (hpost : ∀ c ∈ post, c.1 ≠ IDAT ∧ c.1 < 2 ^ 32 ∧ c.2.length < 2 ^ 32)
    (hsize : h.lineSize * h.height < 2 ^ 64) (hlimit : h.lineSize ≤ dA.limit) :
    ∃ r0,
      step cfg t
        (R.init opts limit f
          (signature ++ chunk cfg IHDR h.body ++ anc ++ idats cfg zs ++ chunks cfg post ++ chunk cfg IEND [])
          (signature ++ chunk cfg IHDR h.body ++ anc ++ idats cfg zs ++ chunks cfg post ++ chunk cfg IEND []).length)
        .readInfo = (r0, .header) ∧
      r0.pendingBuf = none ∧ r0.remaining = 1 := by
  obtain ⟨len', t', rest', htail, h1, h2, h3⟩ := still_tail_shape cfg post hpost
  cases zs with
  | nil => exact absurd rfl hzs
  | cons z zs =>
    have hfile : signature ++ chunk cfg IHDR h.body ++ anc ++ idats cfg (z :: zs) ++ chunks cfg post ++ chunk cfg IEND [] =
        signature ++ (chunk cfg IHDR h.body ++ (anc ++ (idats cfg (z :: zs) ++ (be32Bytes len' ++ typeBytes t' ++ rest')))) := by
      rw [← htail]; simp only [List.append_assoc]
    rw [hfile]
    obtain ⟨r, i, N, dEnd, hri, _, _, _, _, _, hpb, _, _, hiA, hrem, hN, _⟩ :=
      readInfo_wf cfg hI hC ht opts limit h hv anc dA none hanc hidle z zs raw (hlen z (by simp))
        (fun z' hz' => hlen z' (by simp [hz'])) hinf len' t' rest' h1 h2 h3 hsize
        (fun j hc hf => by rw [hdrOf_eq hc hf]; exact hlimit)
    refine ⟨r, ?_, hpb, ?_⟩
    · rw [step_readInfo_init]; exact hri
    · rw [hrem, hN, hstill i hiA]

/-- **`read_info` on a well-formed animation whose first frame is the `IDAT` image** (hypotheses of
    `Png.C09.C09_frames` about the chunks before the image data and the first frame): the reader it returns has no
    buffer pending and `frames.length + 1` frames remaining -/
theorem apng_start (cfg : Cfg) (hI : cfg.InflateOk) (hC : cfg.CrcOk) {t : TCfg} {f : Flags} (ht : t.IsIdentity f)
    (opts : Options) (limit : Nat) (h : Header) (hv : h.Valid) (plays : Nat) (hplays : plays < 2 ^ 32)
    (anc : List (ChunkType × Bytes)) (dAnc : Dec)
    (frames : List (FrameControl × List Bytes × Bytes)) (hnf : frames.length + 1 < 2 ^ 32)
    (hanc : AncChunksG cfg (actlAfter (afterIhdr cfg opts limit h) (frames.length + 1) plays) anc dAnc) (hna : NoActl anc)
    (fc0 : FrameControl) (zs0 : List Bytes) (raw0 : Bytes) (hfc0 : FcOk h fc0)
    (hzs0 : zs0 ≠ []) (hlen0 : ∀ z ∈ zs0, z.length < 2 ^ 32) (hinf0 : cfg.inflate zs0.flatten = some (raw0, true))
    (hsize : h.lineSize * h.height < 2 ^ 64)
    (hlimit : (h.frame fc0).lineSize + (frames.map fun x => (h.frame x.1).lineSize).sum ≤ dAnc.limit) :
    ∃ r0,
      step cfg t (R.init opts limit f (wellFormedApng cfg h plays anc fc0 zs0 (framesOf frames))
          (wellFormedApng cfg h plays anc fc0 zs0 (framesOf frames)).length) .readInfo = (r0, .header) ∧
      r0.pendingBuf = none ∧ r0.remaining = frames.length + 1 := by
  obtain ⟨hw1, hw2, hh1, hh2, hleg⟩ := hv
  have hd := (legal_pos hleg).2.2
  have hidle0 := idle_afterIhdr cfg opts limit h
  obtain ⟨hsA, hiA⟩ := ancStep_acTL cfg (afterIhdr cfg opts limit h) h.info (frames.length + 1) plays hnf hplays rfl rfl
    (by show 8 ≤ Params.chunkBufferSize; decide)
  obtain ⟨TA, hidleA, _, _, _, hsqA⟩ := anc_step cfg hC hidle0 hsA
  generalize hdA : actlAfter (afterIhdr cfg opts limit h) (frames.length + 1) plays = dA1 at *
  have hcapA0 : dA1.cap = Params.chunkBufferSize := by rw [← hdA]; rfl
  obtain ⟨TB, hidleB, _, hsqB, hcapB⟩ := anc_chunks_g cfg hC hidleA (by rw [hcapA0]; decide) hanc
  have hactlB := ancChunksG_actl hanc hna
  generalize hfc0' : ({ fc0 with seq := 0 } : FrameControl) = fc0'
  have hframe0 : h.frame fc0' = h.frame fc0 := by rw [← hfc0']; rfl
  have hcapA : dA1.cap = Params.chunkBufferSize := by
    have := hsA; rw [← hdA]; rfl
  have hsq0 : dAnc.seqNo = none := by rw [hsqB, hsqA]; rfl
  obtain ⟨dF, TC, hidleC, hsqC, hlimC, hcapC, _, hactlC⟩ := fctl0_step cfg hC fc0' hidleB
    (by rw [hcapA] at hcapB; have : (26 : Nat) ≤ Params.chunkBufferSize := by decide
        omega)
    (by
      rw [← hfc0']
      refine ⟨by show (0 : Nat) < 2 ^ 32; decide, ?_, ?_, ?_, ?_, hfc0.dn, hfc0.dd, ?_, ?_⟩
      · show fc0.width < 2 ^ 32; have := hfc0.xw; omega
      · show fc0.height < 2 ^ 32; have := hfc0.yh; omega
      · show fc0.x < 2 ^ 32; have := hfc0.xw; omega
      · show fc0.y < 2 ^ 32; have := hfc0.yh; omega
      · show fc0.dispose < 256; have := hfc0.dis; omega
      · show fc0.blend < 256; have := hfc0.bl; omega)
    (by rw [hsq0, ← hfc0']; rfl) (by rw [← hfc0']; exact hfc0.dis) (by rw [← hfc0']; exact hfc0.bl)
    (by
      intro i hi
      obtain ⟨j, hj, hcj, _⟩ := hidleB.info
      rw [hi] at hj; cases hj
      simp only [Info.core, Header.info, Prod.mk.injEq] at hcj
      rw [fctlInBounds_iff, ← hfc0']
      exact ⟨hfc0.w1, hfc0.h1, by rw [hcj.1]; exact hfc0.xw, by rw [hcj.2.1]; exact hfc0.yh⟩)
  have hancAll : AncTrace cfg (afterIhdr cfg opts limit h)
      (chunk cfg acTL (actlBody (frames.length + 1) plays) ++ (chunks cfg anc ++ chunk cfg fcTL (fctlBody fc0'))) dF :=
    TA.append (TB.append TC)
  cases zs0 with
  | nil => exact absurd rfl hzs0
  | cons z0 zs0 =>
    obtain ⟨hl1, hl2, hl3, hl4⟩ := nextHead_facts cfg 1 (framesOf frames)
    have htail := nextHead_eq cfg 1 (framesOf frames)
    generalize hLn : (nextHead cfg 1 (framesOf frames)).1 = lenN at *
    generalize hTn : (nextHead cfg 1 (framesOf frames)).2.1 = tN at *
    generalize hRn : (nextHead cfg 1 (framesOf frames)).2.2 = restN at *
    have hfile : wellFormedApng cfg h plays anc fc0 (z0 :: zs0) (framesOf frames) =
        signature ++ (chunk cfg IHDR h.body ++ ((chunk cfg acTL (actlBody (frames.length + 1) plays) ++
          (chunks cfg anc ++ chunk cfg fcTL (fctlBody fc0'))) ++ (idats cfg (z0 :: zs0) ++
            (be32Bytes lenN ++ typeBytes tN ++ restN)))) := by
      unfold wellFormedApng
      rw [← htail, hfc0']
      have : (framesOf frames).length = frames.length := by simp [framesOf]
      rw [this]
      simp only [List.append_assoc]
    rw [hfile]
    have hLS0 : (h.frame fc0).lineSize ≤ dF.limit := by rw [hlimC]; omega
    obtain ⟨r, i, N, dEnd, hri, _, _, hfctl, _, _, hpb, _, _, hiF, hremN, hN, _⟩ :=
      readInfo_wf cfg hI hC ht opts limit h ⟨hw1, hw2, hh1, hh2, hleg⟩ _ dF (some fc0') hancAll hidleC z0 zs0 raw0
        (hlen0 z0 (by simp)) (fun z' hz' => hlen0 z' (by simp [hz'])) hinf0 lenN tN restN hl1 hl2 hl3 hsize
        (fun j hc hf => by
          have : hdrOf j = h.frame fc0' := by
            have := hdrOf_frame (i := j) fc0' hc
            have hj : ({ j with fctl := some fc0' } : Info) = j := by cases j; simp only at hf; subst hf; rfl
            rw [hj] at this; exact this
          rw [this, hframe0]; exact hLS0)
    have hactl : i.actl = some (frames.length + 1, plays) := by
      have h1 : dF.info.map (·.actl) = some (some (frames.length + 1, plays)) := by
        rw [hactlC, hactlB, hiA]; rfl
      rw [hiF] at h1
      simpa using h1
    have hNv : N = frames.length + 1 := by
      rw [hN, hactl, hfctl]; simp
    refine ⟨r, ?_, hpb, by rw [hremN, hNv]⟩
    rw [step_readInfo_init]; exact hri

/-- **`read_info` on a well-formed animation whose `IDAT` image is not part of the animation** (hypotheses of
    `Png.C09.C09_default_image` about the chunks before the image data and the `IDAT` image): no buffer pending,
    `frames.length + 1` frames remaining (the `IDAT` image and the `frames.length` frames `acTL` counts) -/
theorem apng_default_start (cfg : Cfg) (hI : cfg.InflateOk) (hC : cfg.CrcOk) {t : TCfg} {f : Flags} (ht : t.IsIdentity f)
    (opts : Options) (limit : Nat) (h : Header) (hv : h.Valid) (plays : Nat) (hplays : plays < 2 ^ 32)
    (anc : List (ChunkType × Bytes)) (dAnc : Dec)
    (frames : List (FrameControl × List Bytes × Bytes)) (hnf : frames.length < 2 ^ 32)
    (hanc : AncChunksG cfg (actlAfter (afterIhdr cfg opts limit h) frames.length plays) anc dAnc) (hna : NoActl anc)
    (zs0 : List Bytes) (raw0 : Bytes)
    (hzs0 : zs0 ≠ []) (hlen0 : ∀ z ∈ zs0, z.length < 2 ^ 32) (hinf0 : cfg.inflate zs0.flatten = some (raw0, true))
    (hsize : h.lineSize * h.height < 2 ^ 64)
    (hlimit : h.lineSize + (frames.map fun x => (h.frame x.1).lineSize).sum ≤ dAnc.limit) :
    ∃ r0,
      step cfg t (R.init opts limit f (wellFormedApngDefault cfg h plays anc zs0 (framesOf frames))
          (wellFormedApngDefault cfg h plays anc zs0 (framesOf frames)).length) .readInfo = (r0, .header) ∧
      r0.pendingBuf = none ∧ r0.remaining = frames.length + 1 := by
  obtain ⟨hw1, hw2, hh1, hh2, hleg⟩ := hv
  have hd := (legal_pos hleg).2.2
  have hidle0 := idle_afterIhdr cfg opts limit h
  obtain ⟨hsA, hiA⟩ := ancStep_acTL cfg (afterIhdr cfg opts limit h) h.info frames.length plays hnf hplays rfl rfl
    (by show 8 ≤ Params.chunkBufferSize; decide)
  obtain ⟨TA, hidleA, _, _, _, hsqA⟩ := anc_step cfg hC hidle0 hsA
  generalize hdA : actlAfter (afterIhdr cfg opts limit h) frames.length plays = dA1 at *
  have hcapA : dA1.cap = Params.chunkBufferSize := by rw [← hdA]; rfl
  obtain ⟨TB, hidleB, _, hsqB, hcapB⟩ := anc_chunks_g cfg hC hidleA (by rw [hcapA]; decide) hanc
  have hactlB := ancChunksG_actl hanc hna
  have hancAll : AncTrace cfg (afterIhdr cfg opts limit h)
      (chunk cfg acTL (actlBody frames.length plays) ++ chunks cfg anc) dAnc := TA.append TB
  cases zs0 with
  | nil => exact absurd rfl hzs0
  | cons z0 zs0 =>
    obtain ⟨hl1, hl2, hl3, hl4⟩ := nextHead_facts cfg 0 (framesOf frames)
    have htail := nextHead_eq cfg 0 (framesOf frames)
    generalize hLn : (nextHead cfg 0 (framesOf frames)).1 = lenN at *
    generalize hTn : (nextHead cfg 0 (framesOf frames)).2.1 = tN at *
    generalize hRn : (nextHead cfg 0 (framesOf frames)).2.2 = restN at *
    have hfile : wellFormedApngDefault cfg h plays anc (z0 :: zs0) (framesOf frames) =
        signature ++ (chunk cfg IHDR h.body ++ ((chunk cfg acTL (actlBody frames.length plays) ++ chunks cfg anc) ++
          (idats cfg (z0 :: zs0) ++ (be32Bytes lenN ++ typeBytes tN ++ restN)))) := by
      unfold wellFormedApngDefault
      rw [← htail]
      have : (framesOf frames).length = frames.length := by simp [framesOf]
      rw [this]
      simp only [List.append_assoc]
    rw [hfile]
    obtain ⟨r, i, N, dEnd, hri, _, _, hfctl, _, _, hpb, _, _, hiF, hremN, hN, _⟩ :=
      readInfo_wf cfg hI hC ht opts limit h ⟨hw1, hw2, hh1, hh2, hleg⟩ _ dAnc none hancAll hidleB z0 zs0 raw0
        (hlen0 z0 (by simp)) (fun z' hz' => hlen0 z' (by simp [hz'])) hinf0 lenN tN restN hl1 hl2 hl3 hsize
        (fun j hc hf => by rw [hdrOf_eq hc hf]; omega)
    have hactl : i.actl = some (frames.length, plays) := by
      have h1 : dAnc.info.map (·.actl) = some (some (frames.length, plays)) := by rw [hactlB, hiA]; rfl
      rw [hiF] at h1
      simpa using h1
    have hNv : N = frames.length + 1 := by
      rw [hN, hactl, hfctl]; simp
    refine ⟨r, ?_, hpb, by rw [hremN, hNv]⟩
    rw [step_readInfo_init]; exact hri

/-! ## the results of C09 as buffers -/

/-- the results `FramesOk` describes (all pre-fill bytes being `p`) are frames that left buffers of the image's size,
    the `k`-th being `specFrame` of the `k`-th frame's own data -/
theorem framesOk_bufs (h : Header) (p : UInt8) :
    ∀ (frames : List (FrameControl × List Bytes × Bytes)) (ps : List UInt8) (rs : List Res),
      (∀ q ∈ ps, q = p) → FramesOk h frames ps rs →
      ∃ bs, FrameBufs h.bufferSize rs bs ∧ rs.length = frames.length ∧
        ∀ (k : Nat) (px : Bytes), bs[k]? = some px → ∃ fr : FrameControl × List Bytes × Bytes, frames[k]? = some fr ∧
          specFrame (h.frame fr.1) fr.2.2 (List.replicate h.bufferSize p) = some px := by
  intro frames
  induction frames with
  | nil =>
    intro ps rs _ hok
    cases ps with
    | nil =>
      cases rs with
      | nil => exact ⟨[], trivial, rfl, fun k px hk => by simp at hk⟩
      | cons _ _ => exact False.elim hok
    | cons _ _ => exact False.elim hok
  | cons fr fs ih =>
    intro ps rs hps hok
    cases ps with
    | nil => exact False.elim hok
    | cons q ps =>
      cases rs with
      | nil => exact False.elim hok
      | cons res rs =>
        have hok' : (∃ buf,
            res = .frame { width := fr.1.width, height := fr.1.height, color := h.color, depth := h.depth,
                           lineSize := (h.frame fr.1).lineSize } buf ∧
            specFrame (h.frame fr.1) fr.2.2 (List.replicate h.bufferSize q) = some buf ∧ buf.length = h.bufferSize) ∧
            FramesOk h fs ps rs := hok
        obtain ⟨⟨buf, rfl, hspec, hl⟩, hrest⟩ := hok'
        have hq : q = p := hps q (by simp)
        subst hq
        obtain ⟨bs, hfb, hlen, hall⟩ := ih ps rs (fun x hx => hps x (by simp [hx])) hrest
        refine ⟨buf :: bs, ⟨rfl, hl, hfb⟩, by simp [hlen], ?_⟩
        intro k px hk
        cases k with
        | zero =>
          simp only [List.getElem?_cons_zero, Option.some.injEq] at hk
          subst hk
          exact ⟨fr, rfl, hspec⟩
        | succ k =>
          simp only [List.getElem?_cons_succ] at hk ⊢
          exact hall k px hk

end Png.Reader
