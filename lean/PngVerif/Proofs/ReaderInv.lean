import PngVerif.Model.Reader
import PngVerif.Proofs.ReaderSeq
import PngVerif.Proofs.Unfiltering
import PngVerif.Proofs.Adam7
/-!
# Protocol invariant of the `Reader` model (`Model/Reader.lean`): no call sequence panics

* Part A: one `decode_next` call (`DN`): what it changes, the decoder invariants, the potential that
  bounds the loops.
* Part B: the loops of `ReadDecoder` (`read_header_info`, `read_until_image_data`,
  `finish_decoding_image_data`, `read_until_end_of_input`).
* Part C: geometry of a (sub)frame, the row iterator, the unfiltering buffer.
* Part D: the `Reader` invariant `Inv` and every operation.
* Part E: `step`, `run`.
-/
namespace Png.Reader
open Png Png.Framing

/-! ## Part A: one `decode_next` call -/

/-- the input `decode_next` sees: what is visible beyond the read position -/
def avail (r : R) : Bytes := (r.input.take r.visible).drop r.pos

/-- the potential that every successful `decode_next` call decreases (`Proofs/Framing.mu`) -/
def M (r : R) : Nat := mu r.dec (avail r)

theorem clearOut_eq {d : Dec} (h : d.out = []) : ({ d with out := [] } : Dec) = d := by
  cases d; simp only at h; subst h; rfl

/-- outcome of one `decode_next` call (read_decoder.rs:61-72) -/
inductive DN (cfg : Cfg) (r : R) : R × Except Res (Ev × Bytes) → Prop
  | eof (ha : avail r = []) : DN cfg r (r, .error (.err .eof "UnexpectedEof"))
  | err (d' : Dec) (e : Framing.Err) (ha : avail r ≠ []) (hu : update cfg r.dec (avail r) = (d', .error e)) :
      DN cfg r ({ r with dec := { d' with out := [] } }, .error (ofFraming e))
  | ok (d' : Dec) (n : Nat) (ev : Ev) (ha : avail r ≠ []) (hu : update cfg r.dec (avail r) = (d', .ok (n, ev))) :
      DN cfg r ({ r with dec := { d' with out := [] }, pos := r.pos + n }, .ok (ev, d'.out))

theorem decodeNext'_dn (cfg : Cfg) (r : R) (ho : r.dec.out = []) : DN cfg r (decodeNext' cfg r) := by
  unfold decodeNext'
  simp only
  have hav : (r.input.take r.visible).drop r.pos = avail r := rfl
  rw [hav, clearOut_eq ho]
  cases ha : (avail r).isEmpty with
  | true =>
    simp only [if_true]
    exact .eof (by simpa using ha)
  | false =>
    have hne : avail r ≠ [] := isEmpty_false ha
    simp only [Bool.false_eq_true, if_false]
    cases hu : update cfg r.dec (avail r) with
    | mk d' res =>
      cases res with
      | error e => exact .err d' e hne hu
      | ok p => obtain ⟨n, ev⟩ := p; exact .ok d' n ev hne hu

/-- facts about the stream decoder and the read position that hold for every reader -/
structure Base (r : R) : Prop where
  out : r.dec.out = []
  dinv : DInv r.dec
  acct : r.dec.state ≠ none → Acct r.pos r.dec
  len : r.input.length < 2 ^ 32
  /-- the read position never passes the visible prefix -/
  pos : r.pos ≤ min r.visible r.input.length

theorem avail_len (r : R) (h : r.pos ≤ r.input.length) : r.pos + (avail r).length ≤ r.input.length := by
  simp only [avail, List.length_drop, List.length_take]; omega

theorem avail_drop (r : R) (n : Nat) (d : Dec) : avail { r with dec := d, pos := r.pos + n } = (avail r).drop n := by
  simp only [avail, List.drop_drop]

/-- the parts of a reader that `decode_next` does not touch -/
def Frame (r r' : R) : Prop := r' = { r with dec := r'.dec, pos := r'.pos }

theorem Frame.refl (r : R) : Frame r r := rfl
theorem Frame.trans {a b c : R} (h1 : Frame a b) (h2 : Frame b c) : Frame a c := by
  unfold Frame at *; rw [h2, h1]

/-- what every `decode_next` call guarantees -/
structure DNOk (r r' : R) : Prop where
  base : Base r'
  frame : Frame r r'
  step : InfoStep r.dec r'.dec

/-- an error result (`Err(DecodingError)`), as opposed to a panic or a success -/
def Res.isErr : Res → Bool
  | .err _ _ => true
  | _ => false

theorem Res.isErr_not_panic {e : Res} (h : e.isErr = true) : e.isPanic = false := by
  cases e <;> first | rfl | cases h

theorem Res.isErr_ofFraming {e : Framing.Err} (h : ∀ s, e ≠ .panic s) : (ofFraming e).isErr = true := by
  cases e <;> first | rfl | exact absurd rfl (h _)

/-- a `decode_next` call keeps `Base`, lets `info` evolve as `InfoStep` says, never panics inside the
    stream decoder, poisons the decoder on an error other than end of input, and decreases the
    potential when it succeeds -/
theorem dn_base {cfg : Cfg} {r r' : R} {res : Except Res (Ev × Bytes)} (hB : Base r) (h : DN cfg r (r', res)) :
    DNOk r r' ∧
    (match res with
     | .error e => e.isErr = true ∧ ((r' = r ∧ avail r = []) ∨ r'.dec.state = none)
     | .ok _ => M r' < M r) := by
  have hlen := avail_len r (Nat.le_trans hB.pos (Nat.min_le_right _ _))
  have hl32 := hB.len
  cases h with
  | eof ha => exact ⟨⟨hB, rfl, InfoStep.refl _⟩, rfl, Or.inl ⟨rfl, ha⟩⟩
  | err d' e ha hu =>
    obtain ⟨hD', hS⟩ := update_dinv hB.dinv hu
    have hst : d'.state = none := error_poisons cfg _ _ _ _ hu
    refine ⟨⟨⟨rfl, ?_, fun h => absurd hst h, hB.len, hB.pos⟩, rfl, ⟨hS.idat, hS.rIdat, hS.evo⟩⟩, ?_, Or.inr hst⟩
    · exact ⟨hD'.legal, hD'.fctlOk, hD'.ready, hD'.idat, hD'.endOk⟩
    · cases hs : r.dec.state with
      | none =>
        have := (poisoned_refuses cfg r.dec (avail r) hs).1
        rw [hu] at this; simp only at this; cases this; rfl
      | some st =>
        have := update_acct hB.dinv (hB.acct (by simp [hs])) (by omega) hu
        exact Res.isErr_ofFraming this
  | ok d' n ev ha hu =>
    obtain ⟨hD', hS⟩ := update_dinv hB.dinv hu
    have hst : r.dec.state ≠ none := by
      intro hs
      have := (poisoned_refuses cfg r.dec (avail r) hs).1
      rw [hu] at this; cases this
    obtain ⟨hn, hA⟩ := update_acct hB.dinv (hB.acct hst) (by omega) hu
    refine ⟨⟨⟨rfl, ?_, fun _ => hA, hB.len, by
      have hp := hB.pos
      simp only [avail, List.length_drop, List.length_take] at hn
      simp only; omega⟩, rfl, ⟨hS.idat, hS.rIdat, hS.evo⟩⟩, ?_⟩
    · exact ⟨hD'.legal, hD'.fctlOk, hD'.ready, hD'.idat, hD'.endOk⟩
    · have := (update_no_spin cfg _ _ _ _ _ ha hu).2.2.1
      simp only [M, avail_drop]
      exact this

theorem dn_ok_live {cfg : Cfg} {r r' : R} {x : Ev × Bytes} (h : DN cfg r (r', .ok x)) : r.dec.state ≠ none := by
  cases h with
  | ok d' n ev ha hu =>
    intro hs
    have := (poisoned_refuses cfg r.dec (avail r) hs).1
    rw [hu] at this; cases this

/-- a poisoned (or finished) decoder: `decode_next` fails and changes nothing -/
theorem dn_poisoned {cfg : Cfg} {r r' : R} {res : Except Res (Ev × Bytes)} (ho : r.dec.out = [])
    (hs : r.dec.state = none) (h : DN cfg r (r', res)) : r' = r ∧ ∃ e, res = .error e ∧ e.isErr = true := by
  cases h with
  | eof ha => exact ⟨rfl, _, rfl, rfl⟩
  | err d' e ha hu =>
    obtain ⟨h1, h2⟩ := poisoned_refuses cfg r.dec (avail r) hs
    rw [hu] at h1 h2; simp only at h1 h2
    cases h1; subst h2
    refine ⟨?_, _, rfl, rfl⟩
    rw [clearOut_eq ho]
  | ok d' n ev ha hu =>
    have := (poisoned_refuses cfg r.dec (avail r) hs).1
    rw [hu] at this; cases this

/-- outcome of a successful `decode_next` between data-chunk sequences -/
inductive OutEv (r r' : R) (ev : Ev) : Prop
  | begin (len : Nat) (t : ChunkType) (he : ev = .chunkBegin len t) (ht : DataType t) (hI : InSeq r'.dec)
      (hi : r'.dec.info.isSome) (hri : t = IDAT → r.dec.readyIdat = true)
      (hfc : t = fdAT → ∃ i fc, r'.dec.info = some i ∧ i.fctl = some fc)
  | fin (he : ev = .imageEnd) (hs : r'.dec.state = none)
  | stay (hO : OutSeq r'.dec) (he : ev.outSeqOk = true)

/-- between sequences `decode_next` produces no image data (the `assert!` of read_decoder.rs:79) -/
theorem dn_outSeq {cfg : Cfg} {r r' : R} {ev : Ev} {data : Bytes} (hB : Base r) (hO : OutSeq r.dec)
    (h : DN cfg r (r', .ok (ev, data))) :
    data = [] ∧ r'.dec.readyIdat = r.dec.readyIdat ∧ OutEv r r' ev ∧
    (r.dec.info = none → ev ≠ .imageEnd ∧ ∀ len t, ev = .chunkBegin len t → r'.dec.info = none) := by
  cases h with
  | ok d' n ev ha hu =>
    obtain ⟨h1, h2, h3⟩ := update_outSeq hB.dinv hO hu
    refine ⟨h1.trans hB.out, h2, ?_, fun hn => (by have := update_noInfo (d' := d') hB.dinv hn hu; exact this)⟩
    simp only at h3
    rcases h3 with ⟨len, t, e1, e2, e3, e4, e5, e6⟩ | ⟨e1, e2⟩ | ⟨e1, e2⟩
    · exact .begin len t e1 e2 e3 e4 e5 e6
    · exact .fin e1 e2
    · exact .stay e1 e2

/-- inside a sequence `decode_next` leaves `info` alone and reports only what `decode_image_data`
    accepts (the `unreachable!` of read_decoder.rs:138) -/
theorem dn_inSeq {cfg : Cfg} {r r' : R} {ev : Ev} {data : Bytes} (hI : InSeq r.dec)
    (h : DN cfg r (r', .ok (ev, data))) :
    r'.dec.info = r.dec.info ∧
    ((ev = .imageDataFlushed ∧ OutSeq r'.dec ∧ r'.dec.readyIdat = false) ∨ (InSeq r'.dec ∧ ev.inSeqOk = true)) := by
  cases h with
  | ok d' n ev ha hu =>
    obtain ⟨h1, h2⟩ := update_inSeq hI hu
    exact ⟨h1, h2⟩

theorem dn_inSeq_err {cfg : Cfg} {r r' : R} {e : Res} (hI : InSeq r.dec)
    (h : DN cfg r (r', .error e)) : r'.dec.info = r.dec.info := by
  cases h with
  | eof ha => rfl
  | err d' e ha hu => exact (update_inSeq hI hu).1

theorem fuelOf_ge (r : R) : M r < fuelOf r := by
  have h1 := rank_le r.dec
  have h2 : (avail r).length ≤ r.visible - r.pos := by
    simp only [avail, List.length_drop, List.length_take]; omega
  simp only [M, mu, fuelOf]; omega

/-! ## Part B: the loops of `ReadDecoder` -/

/-- poisoned, or between sequences -/
def OutMode (r : R) : Prop := r.dec.state = none ∨ OutSeq r.dec
/-- poisoned, or inside a sequence -/
def InMode (r : R) : Prop := r.dec.state = none ∨ InSeq r.dec

theorem DNOk.trans {a b c : R} (h1 : DNOk a b) (h2 : DNOk b c) : DNOk a c :=
  ⟨h2.base, h1.frame.trans h2.frame, h1.step.trans h2.step⟩

theorem DNOk.refl {r : R} (hB : Base r) : DNOk r r := ⟨hB, rfl, InfoStep.refl _⟩

/-- `decode_next_without_image_data` between sequences: the assertion holds -/
theorem decodeNextNoData_spec (cfg : Cfg) (r : R) (hB : Base r) (hm : OutMode r) :
    match decodeNextNoData cfg r with
    | (r', .error e) => e.isErr = true ∧ DNOk r r' ∧ (r' = r ∨ r'.dec.state = none)
    | (r', .ok ev) => DNOk r r' ∧ M r' < M r ∧ r'.dec.readyIdat = r.dec.readyIdat ∧ OutEv r r' ev ∧
        (r.dec.info = none → ev ≠ .imageEnd ∧ ∀ len t, ev = .chunkBegin len t → r'.dec.info = none) := by
  unfold decodeNextNoData
  have hdn := decodeNext'_dn cfg r hB.out
  generalize decodeNext' cfg r = out at hdn
  obtain ⟨r', res⟩ := out
  obtain ⟨hok, hres⟩ := dn_base hB hdn
  cases res with
  | error e =>
    simp only at hres ⊢
    exact ⟨hres.1, hok, hres.2.imp (fun h => h.1) id⟩
  | ok x =>
    obtain ⟨ev, data⟩ := x
    have hO : OutSeq r.dec := hm.resolve_left (dn_ok_live hdn)
    obtain ⟨h1, h2, h3, h4⟩ := dn_outSeq hB hO hdn
    subst h1
    simp only at hres ⊢
    exact ⟨hok, hres, h2, h3, h4⟩

/-- **`read_header_info`** never reaches its `unreachable!()` and runs within its fuel -/
theorem readHeaderInfo_spec (cfg : Cfg) : ∀ (fuel : Nat) (r : R), M r < fuel → Base r → OutMode r →
    match readHeaderInfo cfg fuel r with
    | (r', .error e) => e.isErr = true ∧ DNOk r r' ∧ OutMode r'
    | (r', .ok ()) => DNOk r r' ∧ OutMode r' ∧ r'.dec.info.isSome := by
  intro fuel
  induction fuel with
  | zero => intro r h; omega
  | succ fuel ih =>
    intro r hf hB hm
    unfold readHeaderInfo
    cases hi : r.dec.info.isSome with
    | true => simp only [if_true]; exact ⟨DNOk.refl hB, hm, hi⟩
    | false =>
      simp only [Bool.false_eq_true, if_false]
      have hn : r.dec.info = none := by
        cases h : r.dec.info with
        | none => rfl
        | some _ => rw [h] at hi; cases hi
      have hsp := decodeNextNoData_spec cfg r hB hm
      generalize decodeNextNoData cfg r = out at hsp
      obtain ⟨r1, res⟩ := out
      cases res with
      | error e =>
        simp only at hsp ⊢
        refine ⟨hsp.1, hsp.2.1, ?_⟩
        rcases hsp.2.2 with h | h
        · rw [h]; exact hm
        · exact Or.inl h
      | ok ev =>
        simp only at hsp
        obtain ⟨hok, hM, _, hev, hno⟩ := hsp
        obtain ⟨hne, hcb⟩ := hno hn
        have hm1 : OutMode r1 := by
          cases hev with
          | begin len t he ht hI hi' _ _ =>
            have := hcb len t he
            rw [this] at hi'; cases hi'
          | fin he hs => exact Or.inl hs
          | stay hO he => exact Or.inr hO
        have hrec := ih r1 (by omega) hok.base hm1
        have key : ∀ (x : R × Except Res Unit), (match x with
            | (r', .error e) => e.isErr = true ∧ DNOk r1 r' ∧ OutMode r'
            | (r', .ok ()) => DNOk r1 r' ∧ OutMode r' ∧ r'.dec.info.isSome) →
            (match x with
            | (r', .error e) => e.isErr = true ∧ DNOk r r' ∧ OutMode r'
            | (r', .ok ()) => DNOk r r' ∧ OutMode r' ∧ r'.dec.info.isSome) := by
          intro x hx
          obtain ⟨r2, res2⟩ := x
          cases res2 with
          | error e => exact ⟨hx.1, hok.trans hx.2.1, hx.2.2⟩
          | ok u => exact ⟨hok.trans hx.1, hx.2⟩
        cases ev <;> first | exact absurd rfl hne | exact key _ hrec

/-- **`ReadDecoder::read_until_image_data`** between sequences: no assertion fails, it runs within its
    fuel; it ends inside a sequence with `info` present; if no further `IDAT` may begin
    (`ready_for_idat_chunks` cleared by an earlier flush) a frame control is stored when it returns -/
theorem rdReadUntilImageData_spec (cfg : Cfg) : ∀ (fuel : Nat) (r : R), M r < fuel → Base r → OutMode r →
    match rdReadUntilImageData cfg fuel r with
    | (r', .error e) => e.isErr = true ∧ DNOk r r' ∧ OutMode r'
    | (r', .ok ()) => DNOk r r' ∧ InSeq r'.dec ∧ r'.dec.info.isSome ∧
        (r.dec.readyIdat = false → ∃ i fc, r'.dec.info = some i ∧ i.fctl = some fc) := by
  intro fuel
  induction fuel with
  | zero => intro r h; omega
  | succ fuel ih =>
    intro r hf hB hm
    unfold rdReadUntilImageData
    have hsp := decodeNextNoData_spec cfg r hB hm
    generalize decodeNextNoData cfg r = out at hsp
    obtain ⟨r1, res⟩ := out
    cases res with
    | error e =>
      simp only at hsp ⊢
      refine ⟨hsp.1, hsp.2.1, ?_⟩
      rcases hsp.2.2 with h | h
      · rw [h]; exact hm
      · exact Or.inl h
    | ok ev =>
      simp only at hsp
      obtain ⟨hok, hM, hri, hev, _⟩ := hsp
      have key : OutMode r1 → (match rdReadUntilImageData cfg fuel r1 with
          | (r', .error e) => e.isErr = true ∧ DNOk r r' ∧ OutMode r'
          | (r', .ok ()) => DNOk r r' ∧ InSeq r'.dec ∧ r'.dec.info.isSome ∧
              (r.dec.readyIdat = false → ∃ i fc, r'.dec.info = some i ∧ i.fctl = some fc)) := by
        intro hm1
        have hrec := ih r1 (by omega) hok.base hm1
        generalize rdReadUntilImageData cfg fuel r1 = x at hrec
        obtain ⟨r2, res2⟩ := x
        cases res2 with
        | error e => exact ⟨hrec.1, hok.trans hrec.2.1, hrec.2.2⟩
        | ok u => exact ⟨hok.trans hrec.1, hrec.2.1, hrec.2.2.1, fun h => hrec.2.2.2 (hri.trans h)⟩
      cases hev with
      | begin len t he ht hI hi' hri' hfc =>
        subst he
        simp only
        rw [if_pos (show t = IDAT ∨ t = fdAT from ht)]
        refine ⟨hok, hI, hi', fun h => hfc ?_⟩
        rcases ht with ht | ht
        · have := hri' ht; rw [h] at this; cases this
        · exact ht
      | fin he hs =>
        subst he
        exact ⟨rfl, hok, Or.inl hs⟩
      | stay hO he =>
        cases ev with
        | chunkBegin len t =>
          simp only
          have : ¬ (t = IDAT ∨ t = fdAT) := by
            simp only [Ev.outSeqOk, DataType, Bool.not_eq_true'] at he
            exact of_decide_eq_false he
          rw [if_neg this]
          exact key (Or.inr hO)
        | imageEnd => simp [Ev.outSeqOk] at he
        | nothing => exact key (Or.inr hO)
        | header _ _ _ _ _ => exact key (Or.inr hO)
        | chunkComplete _ _ => exact key (Or.inr hO)
        | pixelDimensions _ _ _ => exact key (Or.inr hO)
        | animationControl _ _ => exact key (Or.inr hO)
        | frameControl _ => exact key (Or.inr hO)
        | imageData => exact key (Or.inr hO)
        | imageDataFlushed => exact key (Or.inr hO)
        | partialChunk _ => exact key (Or.inr hO)

/-- the parts of a reader that `decode_image_data` does not touch -/
def FrameU (r r' : R) : Prop := r' = { r with dec := r'.dec, pos := r'.pos, ub := r'.ub }

theorem FrameU.refl (r : R) : FrameU r r := rfl
theorem FrameU.trans {a b c : R} (h1 : FrameU a b) (h2 : FrameU b c) : FrameU a c := by
  unfold FrameU at *; rw [h2, h1]

/-- what `decode_image_data` does to the unfiltering buffer -/
structure UbStep (b : Bool) (r r' : R) : Prop where
  inv : r'.ub.Inv
  prev : r'.ub.prevRow = r.ub.prevRow
  same : b = false → r'.ub = r.ub

theorem UB.prevRow_compact (u : UB) (h : u.Inv) : u.compact.prevRow = u.prevRow := by
  have := UB.abs_compact u h
  exact congrArg UBAbs.prev this

theorem UB.prevRow_extend (u : UB) (bs : Bytes) (h : u.Inv) : (u.extend bs).prevRow = u.prevRow := by
  have := UB.abs_extend u bs h
  exact congrArg UBAbs.prev this

/-- **`decode_image_data`** inside a sequence never reaches its `unreachable!()` -/
theorem decodeImageData_spec (cfg : Cfg) (r : R) (b : Bool) (hB : Base r) (hm : InMode r) (hu : r.ub.Inv) :
    match decodeImageData cfg r b with
    | (r', .error e) => e.isErr = true ∧ Base r' ∧ FrameU r r' ∧ r'.dec.info = r.dec.info ∧ InMode r' ∧ UbStep b r r' ∧
        InfoStep r.dec r'.dec
    | (r', .ok c) => Base r' ∧ FrameU r r' ∧ r'.dec.info = r.dec.info ∧ M r' < M r ∧ UbStep b r r' ∧ InfoStep r.dec r'.dec ∧
        (match c with
         | .more => InSeq r'.dec
         | .done => OutSeq r'.dec ∧ r'.dec.readyIdat = false) := by
  unfold decodeImageData
  simp only
  generalize hr0 : (if b = true then { r with ub := r.ub.compact } else r) = r0
  have hB0 : Base r0 := by
    subst hr0; split
    · exact ⟨hB.out, hB.dinv, hB.acct, hB.len, hB.pos⟩
    · exact hB
  have hm0 : InMode r0 := by subst hr0; split <;> exact hm
  have hF0 : FrameU r r0 := by subst hr0; split <;> rfl
  have hU0 : UbStep b r r0 := by
    subst hr0; split
    · exact ⟨UB.inv_compact _ hu, UB.prevRow_compact _ hu, fun h => by simp_all⟩
    · exact ⟨hu, rfl, fun _ => rfl⟩
  have hM0 : M r0 = M r := by subst hr0; split <;> rfl
  have hi0 : r0.dec.info = r.dec.info := by subst hr0; split <;> rfl
  have hd0 : r0.dec = r.dec := by subst hr0; split <;> rfl
  have hdn := decodeNext'_dn cfg r0 hB0.out
  generalize decodeNext' cfg r0 = out at hdn
  obtain ⟨r1, res⟩ := out
  obtain ⟨hok, hres⟩ := dn_base hB0 hdn
  have hF1 : FrameU r0 r1 := by
    have := hok.frame; unfold Frame at this; unfold FrameU; rw [this]
  have hub1 : r1.ub = r0.ub := by have := hok.frame; unfold Frame at this; rw [this]
  cases res with
  | error e =>
    simp only at hres ⊢
    refine ⟨hres.1, hok.base, hF0.trans hF1, ?_, ?_, ⟨hub1 ▸ hU0.inv, hub1 ▸ hU0.prev, fun h => hub1 ▸ hU0.same h⟩,
      hd0 ▸ hok.step⟩
    · rcases hm0 with h | h
      · rw [(dn_poisoned hB0.out h hdn).1]; exact hi0
      · exact (dn_inSeq_err h hdn).trans hi0
    · rcases hres.2 with h | h
      · rw [h.1]; exact hm0
      · exact Or.inl h
  | ok x =>
    obtain ⟨ev, data⟩ := x
    have hI : InSeq r0.dec := hm0.resolve_left (dn_ok_live hdn)
    obtain ⟨h1, h2⟩ := dn_inSeq hI hdn
    simp only at hres ⊢
    generalize hr2 : (if b = true then { r1 with ub := r1.ub.extend data } else r1) = r2
    have hB2 : Base r2 := by
      subst hr2; split
      · exact ⟨hok.base.out, hok.base.dinv, hok.base.acct, hok.base.len, hok.base.pos⟩
      · exact hok.base
    have hF2 : FrameU r r2 := by
      have : FrameU r1 r2 := by subst hr2; split <;> rfl
      exact (hF0.trans hF1).trans this
    have hi2 : r2.dec.info = r.dec.info := by
      have : r2.dec = r1.dec := by subst hr2; split <;> rfl
      rw [this]; exact h1.trans hi0
    have hd2 : r2.dec = r1.dec := by subst hr2; split <;> rfl
    have hM2 : M r2 < M r := by
      have : M r2 = M r1 := by subst hr2; split <;> rfl
      omega
    have hU2 : UbStep b r r2 := by
      subst hr2; split
      · refine ⟨UB.inv_extend _ _ (hub1 ▸ hU0.inv), ?_, fun h => by simp_all⟩
        simp only
        rw [UB.prevRow_extend _ _ (hub1 ▸ hU0.inv), hub1]; exact hU0.prev
      · exact ⟨hub1 ▸ hU0.inv, hub1 ▸ hU0.prev, fun h => hub1 ▸ hU0.same h⟩
    have hS2 : InfoStep r.dec r2.dec := by rw [hd2, ← hd0]; exact hok.step
    rcases h2 with ⟨he, hO, hri⟩ | ⟨hI1, he⟩
    · subst he
      exact ⟨hB2, hF2, hi2, hM2, hU2, hS2, hd2 ▸ hO, hd2 ▸ hri⟩
    · cases ev <;> first
        | (simp [Ev.inSeqOk] at he; done)
        | exact ⟨hB2, hF2, hi2, hM2, hU2, hS2, hd2 ▸ hI1⟩

/-- **`finish_decoding_image_data`** inside a sequence: runs within its fuel, leaves `info` and the
    unfiltering buffer alone and ends between sequences with `ready_for_idat_chunks` cleared -/
theorem finishDecodingImageData_spec (cfg : Cfg) : ∀ (fuel : Nat) (r : R), M r < fuel → Base r → InMode r → r.ub.Inv →
    match finishDecodingImageData cfg fuel r with
    | (r', .error e) => e.isErr = true ∧ DNOk r r' ∧ r'.dec.info = r.dec.info ∧ InMode r'
    | (r', .ok ()) => DNOk r r' ∧ r'.dec.info = r.dec.info ∧ OutSeq r'.dec ∧ r'.dec.readyIdat = false := by
  intro fuel
  induction fuel with
  | zero => intro r h; omega
  | succ fuel ih =>
    intro r hf hB hm hu
    unfold finishDecodingImageData
    have hsp := decodeImageData_spec cfg r false hB hm hu
    generalize decodeImageData cfg r false = out at hsp
    obtain ⟨r1, res⟩ := out
    have toFrame : ∀ {r1 : R}, FrameU r r1 → r1.ub = r.ub → Frame r r1 := by
      intro r1 h1 h2; unfold FrameU at h1; unfold Frame; rw [h1, h2]
    cases res with
    | error e =>
      obtain ⟨h1, h2, h3, h4, h5, h6, h8⟩ := hsp
      exact ⟨h1, ⟨h2, toFrame h3 (h6.same rfl), h8⟩, h4, h5⟩
    | ok c =>
      obtain ⟨h2, h3, h4, hM, h6, h8, h7⟩ := hsp
      have hF := toFrame h3 (h6.same rfl)
      have hok : DNOk r r1 := ⟨h2, hF, h8⟩
      cases c with
      | done => exact ⟨hok, h4, h7.1, h7.2⟩
      | more =>
        simp only at h7 ⊢
        have hrec := ih r1 (by omega) h2 (Or.inr h7) h6.inv
        generalize finishDecodingImageData cfg fuel r1 = x at hrec
        obtain ⟨r2, res2⟩ := x
        cases res2 with
        | error e => exact ⟨hrec.1, hok.trans hrec.2.1, hrec.2.2.1.trans h4, hrec.2.2.2⟩
        | ok u => exact ⟨hok.trans hrec.1, hrec.2.1.trans h4, hrec.2.2⟩

/-- **`read_until_end_of_input`** from any state: runs within its fuel; `Ok` means `ImageEnd` was
    reached (the decoder is finished) -/
theorem readUntilEndOfInput_spec (cfg : Cfg) : ∀ (fuel : Nat) (r : R), M r < fuel → Base r →
    match readUntilEndOfInput cfg fuel r with
    | (r', .error e) => e.isErr = true ∧ DNOk r r'
    | (r', .ok ()) => DNOk r r' ∧ r'.dec.state = none := by
  intro fuel
  induction fuel with
  | zero => intro r h; omega
  | succ fuel ih =>
    intro r hf hB
    unfold readUntilEndOfInput
    have hdn := decodeNext'_dn cfg r hB.out
    generalize decodeNext' cfg r = out at hdn
    obtain ⟨r1, res⟩ := out
    obtain ⟨hok, hres⟩ := dn_base hB hdn
    cases res with
    | error e => exact ⟨hres.1, hok⟩
    | ok x =>
      obtain ⟨ev, data⟩ := x
      simp only at hres
      have key : (match readUntilEndOfInput cfg fuel r1 with
          | (r', .error e) => e.isErr = true ∧ DNOk r r'
          | (r', .ok ()) => DNOk r r' ∧ r'.dec.state = none) := by
        have hrec := ih r1 (by omega) hok.base
        generalize readUntilEndOfInput cfg fuel r1 = x at hrec
        obtain ⟨r2, res2⟩ := x
        cases res2 with
        | error e => exact ⟨hrec.1, hok.trans hrec.2⟩
        | ok u => exact ⟨hok.trans hrec.1, hrec.2⟩
      have hend : ev = .imageEnd → r1.dec.state = none := by
        intro he
        cases hdn with
        | ok d' n ev ha hu => exact (imageEnd_poisons cfg _ _ _ _ _ hu).mp he
      cases ev <;> first | exact key | exact ⟨hok, hend rfl⟩

/-! ## Part C: geometry of a (sub)frame, the row iterator, the unfiltering buffer -/

open Adam7 in
/-- what the Adam7 iterator yields: a valid pass, the pass width (non-zero), a line of the pass; the
    iterator then stands right behind that line; and the item either continues the pass the
    iterator was in, or is the first line of a pass -/
theorem iter_next_props (w h : Nat) : ∀ (fuel : Nat) (it : Adam7.Iter), it.wf w h →
    ∀ info it', it.next fuel = some (info, it') →
    it'.wf w h ∧ 1 ≤ info.pass ∧ info.pass ≤ 7 ∧ info.width = passW w info.pass ∧ 1 ≤ info.width ∧
    info.line < passH h info.pass ∧ it'.pass = info.pass ∧ it'.line = info.line + 1 ∧ it'.lineWidth = info.width ∧
    ((info.pass = it.pass ∧ info.line = it.line ∧ info.width = it.lineWidth) ∨ info.line = 0) := by
  intro fuel
  induction fuel with
  | zero => intro it _ info it' hnx; simp [Iter.next] at hnx
  | succ fuel ih =>
    intro it hwf info it' hnx
    obtain ⟨hw, hh, hp1, hp7, hl, hlw⟩ := hwf
    unfold Iter.next at hnx
    by_cases hc : it.line < it.lines ∧ it.lineWidth > 0
    · rw [if_pos hc] at hnx
      simp only [Option.some.injEq, Prod.mk.injEq] at hnx
      obtain ⟨rfl, rfl⟩ := hnx
      refine ⟨⟨hw, hh, hp1, hp7, hl, hlw⟩, hp1, hp7, hlw, hc.2, ?_, rfl, rfl, rfl, Or.inl ⟨rfl, rfl, rfl⟩⟩
      simp only; omega
    · rw [if_neg hc] at hnx
      by_cases hp : it.pass < 7
      · rw [if_pos hp] at hnx
        have hwf' : (Iter.initPass { it with pass := it.pass + 1 }).wf w h := by
          refine ⟨hw, hh, ?_, ?_, ?_, ?_⟩ <;> simp [Iter.initPass, hw, hh] <;> omega
        obtain ⟨a1, a2, a3, a4, a5, a6, a7, a8, a9, a10⟩ := ih _ hwf' info it' hnx
        refine ⟨a1, a2, a3, a4, a5, a6, a7, a8, a9, Or.inr ?_⟩
        rcases a10 with ⟨_, h2, _⟩ | h2
        · simpa [Iter.initPass] using h2
        · exact h2
      · rw [if_neg hp] at hnx; cases hnx

open Adam7 in
theorem flatMap_rows_le (w h : Nat) : ∀ (k s : Nat), 1 ≤ s → s + k ≤ 8 →
    ((List.range' s k).flatMap (implPassRows w h)).length ≤ k * h := by
  intro k
  induction k with
  | zero => intro s _ _; simp
  | succ k ih =>
    intro s h1 h8
    rw [List.range'_succ, List.flatMap_cons, List.length_append]
    have a := implPassRows_length_le w h s ⟨h1, by omega⟩
    have b := ih (s + 1) (by omega) (by omega)
    rw [Nat.succ_mul]; omega

open Adam7 in
/-- a well-formed iterator has at most `7·h` rows left -/
theorem rest_length_le (w h : Nat) (it : Adam7.Iter) (hwf : it.wf w h) : (it.rest w h).length ≤ 7 * h := by
  obtain ⟨hw, hh, hp1, hp7, hl, hlw⟩ := hwf
  unfold Iter.rest
  rw [List.length_append]
  have hA : (if it.lineWidth > 0 then (List.range' it.line (it.lines - it.line)).map fun l => (it.pass, l, it.lineWidth) else []).length ≤ h := by
    have : it.lines ≤ h := by rw [hl]; exact dim_le _ _ _ (step_pos ⟨hp1, hp7⟩).2
    split
    · simp only [List.length_map, List.length_range']; omega
    · simp
  have hBd := flatMap_rows_le w h (7 - it.pass) (it.pass + 1) (by omega) (by omega)
  have : (7 - it.pass) * h + h ≤ 7 * h := by
    have : (7 - it.pass) + 1 ≤ 7 := by omega
    calc (7 - it.pass) * h + h = ((7 - it.pass) + 1) * h := by rw [Nat.succ_mul]
      _ ≤ 7 * h := Nat.mul_le_mul_right _ this
  omega

/-- the iterator of the (sub)frame is the one `InterlaceInfoIter::new` builds for its size -/
def IterWf (il : Bool) (s : Sub) : Prop :=
  match il, s.iter with
  | false, .none _ stop => stop = s.height
  | true, .adam7 it => it.wf s.width s.height
  | _, _ => False

/-- `current_interlace_info` is what the iterator yielded last -/
def CurOk (il : Bool) (s : Sub) : Prop :=
  match il, s.iter, s.cur with
  | _, _, none => True
  | false, .none n _, some (.null l) => n = l + 1 ∧ l < s.height
  | true, .adam7 it, some (.adam7 p l w) =>
    1 ≤ p ∧ p ≤ 7 ∧ it.pass = p ∧ it.line = l + 1 ∧ it.lineWidth = w ∧ w = Adam7.passW s.width p ∧ 1 ≤ w ∧
      l < Adam7.passH s.height p
  | _, _, _ => False

/-- raw length (with filter byte) of the row `ii` -/
def rowlenOf (color depth : Nat) (s : Sub) : IInfo → Nat
  | .null _ => s.rowlen
  | .adam7 _ _ w => rawRowLengthFromWidth color depth w

/-- the previous row kept by the unfiltering buffer fits the row that comes next -/
def PrevOk (color depth : Nat) (s : Sub) (prev : Bytes) : Prop :=
  match s.cur with
  | some (.null _) => prev = [] ∨ prev.length + 1 = s.rowlen
  | some (.adam7 _ l w) => l ≠ 0 → prev = [] ∨ prev.length + 1 = rawRowLengthFromWidth color depth w
  | none => True

theorem advance_dims (s : Sub) : s.advance.width = s.width ∧ s.advance.height = s.height ∧
    s.advance.rowlen = s.rowlen ∧ s.advance.caf = s.caf := by
  unfold Sub.advance; split <;> exact ⟨rfl, rfl, rfl, rfl⟩

/-- the two outcomes of `interlace_info_iter.next()` -/
theorem advance_cases (s : Sub) :
    (s.iter.next = none ∧ s.advance = { s with cur := none }) ∨
    (∃ c it, s.iter.next = some (c, it) ∧ s.advance = { s with cur := some c, iter := it }) := by
  unfold Sub.advance
  cases h : s.iter.next with
  | none => exact Or.inl ⟨rfl, rfl⟩
  | some x => obtain ⟨c, it⟩ := x; exact Or.inr ⟨c, it, rfl, rfl⟩

theorem next_null {n stop : Nat} {c : IInfo} {it : IIter} (h : (IIter.none n stop).next = some (c, it)) :
    c = .null n ∧ it = .none (n + 1) stop ∧ n < stop := by
  simp only [IIter.next] at h
  split at h
  · simp only [Option.some.injEq, Prod.mk.injEq] at h
    exact ⟨h.1.symm, h.2.symm, by assumption⟩
  · cases h

theorem next_adam7 {a : Adam7.Iter} {c : IInfo} {it : IIter} (h : (IIter.adam7 a).next = some (c, it)) :
    ∃ i a', Adam7.Iter.next Adam7.nextFuel a = some (i, a') ∧ c = .adam7 i.pass i.line i.width ∧ it = .adam7 a' := by
  simp only [IIter.next] at h
  split at h
  · rename_i i a' hn
    simp only [Option.some.injEq, Prod.mk.injEq] at h
    exact ⟨i, a', hn, h.1.symm, h.2.symm⟩
  · cases h

theorem advance_ok {il : Bool} {s : Sub} (hw : IterWf il s) : IterWf il s.advance ∧ CurOk il s.advance := by
  unfold IterWf at hw
  rcases advance_cases s with ⟨_, ha⟩ | ⟨c, it, hn, ha⟩
  · rw [ha]
    refine ⟨?_, ?_⟩
    · unfold IterWf; exact hw
    · unfold CurOk; simp only
  · rw [ha]
    cases il with
    | false =>
      cases hi : s.iter with
      | adam7 a => rw [hi] at hw; exact hw.elim
      | none n stop =>
        rw [hi] at hw hn; simp only at hw
        obtain ⟨rfl, rfl, hlt⟩ := next_null hn
        exact ⟨hw, ⟨rfl, hw ▸ hlt⟩⟩
    | true =>
      cases hi : s.iter with
      | none n stop => rw [hi] at hw; exact hw.elim
      | adam7 a =>
        rw [hi] at hw hn; simp only at hw
        obtain ⟨i, a', hn', rfl, rfl⟩ := next_adam7 hn
        obtain ⟨a1, a2, a3, a4, a5, a6, a7, a8, a9, _⟩ := iter_next_props _ _ _ _ hw _ _ hn'
        exact ⟨a1, ⟨a2, a3, a7, a8, a9, a4, a5, a6⟩⟩

/-- after the row `ii` was unfiltered (the previous row now has its length) and the iterator advanced,
    the previous row fits the next row -/
theorem advance_prev {il : Bool} {s : Sub} {color depth : Nat} {prev : Bytes} {ii : IInfo} (hw : IterWf il s)
    (hc : CurOk il s) (hcur : s.cur = some ii) (hp : prev.length + 1 = rowlenOf color depth s ii) :
    PrevOk color depth s.advance prev := by
  unfold IterWf at hw
  unfold CurOk at hc
  rcases advance_cases s with ⟨_, ha⟩ | ⟨c, it, hn, ha⟩
  · rw [ha]; unfold PrevOk; simp only
  · rw [ha]
    cases il with
    | false =>
      cases hi : s.iter with
      | adam7 a => rw [hi] at hw; exact hw.elim
      | none n stop =>
        rw [hi] at hn
        rw [hi, hcur] at hc
        obtain ⟨rfl, rfl, hlt⟩ := next_null hn
        cases ii with
        | adam7 _ _ _ => exact hc.elim
        | null l => exact Or.inr hp
    | true =>
      cases hi : s.iter with
      | none n stop => rw [hi] at hw; exact hw.elim
      | adam7 a =>
        rw [hi] at hw hn; simp only at hw
        rw [hi, hcur] at hc
        obtain ⟨i, a', hn', rfl, rfl⟩ := next_adam7 hn
        obtain ⟨_, _, _, _, _, _, _, _, _, a10⟩ := iter_next_props _ _ _ _ hw _ _ hn'
        cases ii with
        | null _ => exact hc.elim
        | adam7 p l w =>
          simp only at hc
          simp only [rowlenOf] at hp
          show i.line ≠ 0 → prev = [] ∨ prev.length + 1 = rawRowLengthFromWidth color depth i.width
          intro hl0
          rcases a10 with ⟨_, _, h3⟩ | h3
          · rw [h3, hc.2.2.2.2.1]; exact Or.inr hp
          · exact absurd h3 hl0

/-! ### row lengths -/

theorem legal_pos {c d : Nat} (h : (c, d) ∈ legalPairs) : 1 ≤ samplesOf c ∧ 1 ≤ d ∧ depthOk d = true := by
  simp only [legalPairs, List.mem_cons, Prod.mk.injEq, List.mem_nil_iff, or_false] at h
  rcases h with ⟨rfl, rfl⟩ | ⟨rfl, rfl⟩ | ⟨rfl, rfl⟩ | ⟨rfl, rfl⟩ | ⟨rfl, rfl⟩ | ⟨rfl, rfl⟩ | ⟨rfl, rfl⟩ |
    ⟨rfl, rfl⟩ | ⟨rfl, rfl⟩ | ⟨rfl, rfl⟩ | ⟨rfl, rfl⟩ | ⟨rfl, rfl⟩ | ⟨rfl, rfl⟩ | ⟨rfl, rfl⟩ | ⟨rfl, rfl⟩ <;> decide

/-- a row of a non-empty (sub)frame has its filter byte and at least one data byte
    (`debug_assert!(rowlen >= 2)`, unfiltering_buffer.rs:91) -/
theorem rowlen_ge2 {c d w : Nat} (h : (c, d) ∈ legalPairs) (hw : 1 ≤ w) : 2 ≤ rawRowLengthFromWidth c d w := by
  obtain ⟨hs, hd, hok⟩ := legal_pos h
  rw [rowlen_spec c d w hok]
  have : 1 ≤ w * samplesOf c * d := Nat.mul_pos (Nat.mul_pos hw hs) hd
  omega

theorem rowlen_mono {c d w w' : Nat} (hd : depthOk d = true) (h : w ≤ w') :
    rawRowLengthFromWidth c d w ≤ rawRowLengthFromWidth c d w' := by
  rw [rowlen_spec c d w hd, rowlen_spec c d w' hd]
  have : w * samplesOf c * d ≤ w' * samplesOf c * d := Nat.mul_le_mul_right _ (Nat.mul_le_mul_right _ h)
  have := Nat.div_le_div_right (c := 8) (Nat.add_le_add_right this 7)
  omega

/-- the pixel sizes of the fifteen legal pairs are the ones `expand_pass` handles -/
theorem legal_validBits {c d : Nat} (h : (c, d) ∈ legalPairs) : Adam7.validBits (samplesOf c * d) := by
  simp only [legalPairs, List.mem_cons, Prod.mk.injEq, List.mem_nil_iff, or_false] at h
  rcases h with ⟨rfl, rfl⟩ | ⟨rfl, rfl⟩ | ⟨rfl, rfl⟩ | ⟨rfl, rfl⟩ | ⟨rfl, rfl⟩ | ⟨rfl, rfl⟩ | ⟨rfl, rfl⟩ |
    ⟨rfl, rfl⟩ | ⟨rfl, rfl⟩ | ⟨rfl, rfl⟩ | ⟨rfl, rfl⟩ | ⟨rfl, rfl⟩ | ⟨rfl, rfl⟩ | ⟨rfl, rfl⟩ | ⟨rfl, rfl⟩ <;> decide

/-- a packed row of `w` pixels: `w · bits ≤ 8 · (rowlen − 1) < w · bits + 8` -/
theorem rowlen_bits {c d w : Nat} (hd : depthOk d = true) :
    w * (samplesOf c * d) ≤ (rawRowLengthFromWidth c d w - 1) * 8 := by
  rw [rowlen_spec c d w hd, Nat.mul_assoc]
  omega

/-! ### the unfiltering buffer -/

/-- **`unfilter_curr_row` does not panic** once a whole row is buffered, the row has at least two
    bytes and the previous row is absent or as long as the row; on success the new previous row has
    the row's length (the `assert_eq!` of mod.rs:584) -/
theorem unfilterCurr_ok (u : UB) (rowlen bpp : Nat) (hi : u.Inv) (h2 : 2 ≤ rowlen)
    (hp : u.prevRow = [] ∨ u.prevRow.length + 1 = rowlen) (hc : ¬ u.currLen < rowlen) :
    (∃ u', u.unfilterCurr rowlen bpp = .ok u' ∧ u'.Inv ∧ u'.prevRow.length = rowlen - 1) ∨
    (∃ b, u.unfilterCurr rowlen bpp = .unknownFilter b) := by
  obtain ⟨h1, h3⟩ := hi
  unfold UB.unfilterCurr
  rw [if_neg (by omega), if_neg (by omega), if_neg (by omega)]
  have hp' : ¬ ¬ (u.prevRow.isEmpty ∨ u.prevRow.length = rowlen - 1) := by
    intro hn; apply hn
    rcases hp with h | h
    · left; rw [h]; rfl
    · right; omega
  rw [if_neg hp', if_neg (by omega)]
  simp only
  cases hft : FilterType.ofNat? (u.data.getD u.curStart 0).toNat with
  | none => exact Or.inr ⟨_, rfl⟩
  | some ft =>
    simp only
    rw [if_neg hc]
    have hol : (unfilterImpl ft bpp u.prevRow ((u.data.drop (u.curStart + 1)).take (rowlen - 1))).length
        = rowlen - 1 := by
      rw [unfilterImpl_length]; simp only [UB.currLen] at hc; simp only [List.length_take, List.length_drop]; omega
    obtain ⟨a, b⟩ := UB.abs_unfilter_ok u rowlen _ ⟨h1, h3⟩ (by omega) (by omega) hol
    refine Or.inl ⟨_, rfl, a, ?_⟩
    have := congrArg UBAbs.prev b
    simp only [UB.abs_prev] at this
    rw [this]; exact hol

theorem prevRow_new : UB.new.prevRow = [] := by simp [UB.new, UB.prevRow]

theorem prevRow_resetPrev (u : UB) : u.resetPrev.prevRow = [] := by
  simp [UB.resetPrev, UB.prevRow]

/-! ## Part D: the `Reader` invariant -/

/-- how the `Info` a transform function was created from relates to a later `Info` of the same
    stream: same IHDR fields, same `tRNS`, and the palette (if there was one) unchanged -/
structure Evolves (snap cur : Info) : Prop where
  core : cur.core = snap.core
  trns : cur.trns = snap.trns
  plte : snap.palette.isSome → cur.palette = snap.palette

theorem Evolves.refl (i : Info) : Evolves i i := ⟨rfl, rfl, fun _ => rfl⟩

theorem outLineSize_eq (t : TCfg) (i : Info) (f : Flags) (w : Nat) :
    outLineSize t i f w = rawRowLengthFromWidth (t.outColorDepth i f).1 (t.outColorDepth i f).2 w - 1 := rfl

/-- **contract of the row transformation** (`transform.rs`, `palette.rs`; hypothesis of C02, what
    `Png.C08` proves about `Model/Transform.lean`): for an `Info` that passed the IHDR validation the
    output type is one of the fifteen legal pairs; `create_transform_fn` fails only with a `Format`
    error; and the function created from `snap` transforms a row of the current `Info` — same IHDR
    fields and `tRNS` as `snap`, same palette if `snap` had one — of the right length into the
    caller's buffer of `output_line_size` bytes without panicking -/
structure TCfg.Ok (t : TCfg) : Prop where
  outLegal : ∀ i f, InfoLegal i → ((t.outColorDepth i f).1, (t.outColorDepth i f).2) ∈ legalPairs
  createOk : ∀ i f w, InfoLegal i → t.create i f = .error w → w.startsWith "panic" = false
  applyOk : ∀ snap f cur row w, InfoLegal cur → Evolves snap cur → t.create snap f = .ok () → 1 ≤ w →
    row.length + 1 = rawRowLengthFromWidth cur.color cur.depth w →
    ∃ out, t.apply snap f cur row (outLineSize t cur f w) = some out ∧ out.length = outLineSize t cur f w

theorem outLineSize_mono {t : TCfg} (ht : t.Ok) {i : Info} (hl : InfoLegal i) (f : Flags) {w w' : Nat} (h : w ≤ w') :
    outLineSize t i f w ≤ outLineSize t i f w' := by
  rw [outLineSize_eq, outLineSize_eq]
  have := rowlen_mono (c := (t.outColorDepth i f).1) (legal_pos (ht.outLegal i f hl)).2.2 h
  omega

theorem outLineSize_pos {t : TCfg} (ht : t.Ok) {i : Info} (hl : InfoLegal i) (f : Flags) {w : Nat} (h : 1 ≤ w) :
    1 ≤ outLineSize t i f w := by
  rw [outLineSize_eq]
  have := rowlen_ge2 (ht.outLegal i f hl) h
  omega

/-- geometry of the current (sub)frame against the image header `i` -/
structure Geo (i : Info) (r : R) : Prop where
  w1 : 1 ≤ r.sub.width
  wW : r.sub.width ≤ i.width
  h1 : 1 ≤ r.sub.height
  hH : r.sub.height ≤ i.height
  rowlen : r.sub.rowlen = rawRowLengthFromWidth i.color i.depth r.sub.width
  iter : IterWf i.interlaced r.sub
  cur : CurOk i.interlaced r.sub
  prev : PrevOk i.color i.depth r.sub r.ub.prevRow

theorem Geo.of_core {i j : Info} {r : R} (h : j.core = i.core) (g : Geo i r) : Geo j r := by
  simp only [Info.core, Prod.mk.injEq] at h
  obtain ⟨h1, h2, h3, h4, h5⟩ := h
  exact ⟨g.w1, h1 ▸ g.wW, g.h1, h2 ▸ g.hH, by rw [h3, h4]; exact g.rowlen, h5 ▸ g.iter, h5 ▸ g.cur,
    by rw [h3, h4]; exact g.prev⟩

theorem Geo.congr {i : Info} {r r' : R} (hs : r'.sub = r.sub) (hp : r'.ub.prevRow = r.ub.prevRow) (g : Geo i r) :
    Geo i r' := by
  refine ⟨?_, ?_, ?_, ?_, ?_, ?_, ?_, ?_⟩ <;> rw [hs] <;> first | rw [hp] | skip
  · exact g.w1
  · exact g.wW
  · exact g.h1
  · exact g.hH
  · exact g.rowlen
  · exact g.iter
  · exact g.cur
  · exact g.prev

/-- **the protocol invariant** of a live `Reader` (after `read_info`) -/
structure Inv (t : TCfg) (r : R) : Prop where
  base : Base r
  /-- `info()` never panics; the (sub)frame fits the header -/
  info : ∃ i, r.dec.info = some i ∧ Geo i r
  /-- image data has begun -/
  idat : r.dec.haveIdat = true
  /-- frame not yet consumed: a frame remains and the stream decoder is inside its data chunks (or poisoned) -/
  live : r.sub.caf = false → 1 ≤ r.remaining ∧ InMode r
  /-- frame consumed and flushed: no `IDAT` sequence can begin any more and the stream decoder is
      between sequences (or poisoned) — unless no frame remains (`finish` may have stopped anywhere) -/
  flushed : r.sub.caf = true → r.remaining = 0 ∨ (r.dec.readyIdat = false ∧ OutMode r)
  fin : r.finished = true → r.sub.caf = true ∧ r.remaining = 0 ∧ r.sub.cur = none
  ub : r.ub.Inv
  /-- the cached `transform_fn` was created successfully from an earlier `Info` of this stream -/
  cached : ∀ snap, r.cached = some snap → t.create snap r.flags = .ok () ∧ ∃ i, r.dec.info = some i ∧ Evolves snap i

theorem Frame.fields {r r' : R} (h : Frame r r') :
    r'.sub = r.sub ∧ r'.ub = r.ub ∧ r'.remaining = r.remaining ∧ r'.finished = r.finished ∧ r'.cached = r.cached ∧
    r'.flags = r.flags ∧ r'.isReader = r.isReader ∧ r'.dead = r.dead ∧ r'.input = r.input ∧ r'.visible = r.visible ∧
    r'.bpp = r.bpp ∧ r'.pendingBuf = r.pendingBuf ∧ r'.scratchLen = r.scratchLen := by
  unfold Frame at h; rw [h]; exact ⟨rfl, rfl, rfl, rfl, rfl, rfl, rfl, rfl, rfl, rfl, rfl, rfl, rfl⟩

theorem Evolves.step {snap i j : Info} (e : Evolves snap i) (hc : j.core = i.core) (ht : j.trns = i.trns)
    (hp : i.palette.isSome → j.palette = i.palette) : Evolves snap j :=
  ⟨hc.trans e.core, ht.trans e.trns, fun h => by
    have h1 := e.plte h
    have h2 := hp (by rw [h1]; exact h)
    exact h2.trans h1⟩

/-- the invariant survives anything that only moves the stream decoder (as `InfoStep` allows),
    provided the mode facts are re-established -/
theorem Inv.dn {t : TCfg} {r r' : R} (hI : Inv t r) (hok : DNOk r r')
    (hl : r.sub.caf = false → InMode r')
    (hf : r.sub.caf = true → r.remaining = 0 ∨ OutMode r') :
    Inv t r' := by
  obtain ⟨f1, f2, f3, f4, f5, f6, _⟩ := hok.frame.fields
  obtain ⟨i, hi, hg⟩ := hI.info
  obtain ⟨j, hj, hc, htr, hpl⟩ := hok.step.evo i hi
  refine ⟨hok.base, ⟨j, hj, ?_⟩, hok.step.idat hI.idat, ?_, ?_, ?_, f2 ▸ hI.ub, ?_⟩
  · exact (hg.congr f1 (by rw [f2])).of_core hc
  · intro h; rw [f1] at h; rw [f3]; exact ⟨(hI.live h).1, hl h⟩
  · intro h; rw [f1] at h; rw [f3]
    rcases hf h with h0 | h0
    · exact Or.inl h0
    · rcases hI.flushed h with h1 | h1
      · exact Or.inl h1
      · exact Or.inr ⟨hok.step.rIdat h1.1, h0⟩
  · intro h; rw [f4] at h; rw [f1, f3]; exact hI.fin h
  · intro snap hs
    rw [f5] at hs
    obtain ⟨h1, i', hi', he⟩ := hI.cached snap hs
    rw [hi] at hi'; cases hi'
    exact ⟨f6 ▸ h1, j, hj, he.step hc (htr hI.idat) hpl⟩

/-- `mark_subframe_as_consumed_and_flushed` with a frame remaining -/
theorem markFlushed_ok (r : R) (h : 1 ≤ r.remaining) :
    markFlushed r = .ok { r with remaining := r.remaining - 1, sub := { r.sub with caf := true } } := by
  unfold markFlushed; rw [if_neg (by omega)]

theorem FrameU.fields {r r' : R} (h : FrameU r r') :
    r'.sub = r.sub ∧ r'.remaining = r.remaining ∧ r'.finished = r.finished ∧ r'.cached = r.cached ∧
    r'.flags = r.flags ∧ r'.isReader = r.isReader ∧ r'.dead = r.dead ∧ r'.input = r.input ∧ r'.visible = r.visible := by
  unfold FrameU at h; rw [h]; exact ⟨rfl, rfl, rfl, rfl, rfl, rfl, rfl, rfl, rfl⟩

/-- fields that no row or frame operation changes, and `info` when it stays the same -/
structure Keep (r r' : R) : Prop where
  flags : r'.flags = r.flags
  isReader : r'.isReader = r.isReader
  dead : r'.dead = r.dead
  finished : r'.finished = r.finished
  input : r'.input = r.input
  visible : r'.visible = r.visible
  info : r'.dec.info = r.dec.info

theorem Keep.refl (r : R) : Keep r r := ⟨rfl, rfl, rfl, rfl, rfl, rfl, rfl⟩
theorem Keep.trans {a b c : R} (h1 : Keep a b) (h2 : Keep b c) : Keep a c :=
  ⟨h2.flags.trans h1.flags, h2.isReader.trans h1.isReader, h2.dead.trans h1.dead, h2.finished.trans h1.finished,
   h2.input.trans h1.input, h2.visible.trans h1.visible, h2.info.trans h1.info⟩

/-- the invariant survives a `decode_image_data` call (decoder, position and buffer move; `info` and
    the previous row stay), provided the mode facts are re-established -/
theorem Inv.du {t : TCfg} {r r' : R} (hI : Inv t r) (hB : Base r') (hF : FrameU r r')
    (hi : r'.dec.info = r.dec.info) (hS : InfoStep r.dec r'.dec) (hU : r'.ub.Inv)
    (hp : r'.ub.prevRow = r.ub.prevRow) (hl : r.sub.caf = false → InMode r')
    (hf : r.sub.caf = true → r.remaining = 0 ∨ (r'.dec.readyIdat = false ∧ OutMode r')) :
    Inv t r' := by
  obtain ⟨f1, f3, f4, f5, f6, _⟩ := hF.fields
  obtain ⟨i, hi0, hg⟩ := hI.info
  refine ⟨hB, ⟨i, hi.trans hi0, hg.congr f1 hp⟩, hS.idat hI.idat, ?_, ?_, ?_, hU, ?_⟩
  · intro h; rw [f1] at h; rw [f3]; exact ⟨(hI.live h).1, hl h⟩
  · intro h; rw [f1] at h; rw [f3]; exact hf h
  · intro h; rw [f4] at h; rw [f1, f3]; exact hI.fin h
  · intro snap hs
    rw [f5] at hs
    obtain ⟨h1, i', hi', he⟩ := hI.cached snap hs
    exact ⟨f6 ▸ h1, i', hi.trans hi', he⟩

theorem FrameU.keep {r r' : R} (h : FrameU r r') (hi : r'.dec.info = r.dec.info) : Keep r r' := by
  obtain ⟨_, _, f4, _, f6, f7, f8, f9, f10⟩ := h.fields
  exact ⟨f6, f7, f8, f4, f9, f10, hi⟩

theorem Base.congr {r r' : R} (h : Base r) (hd : r'.dec = r.dec) (hp : r'.pos = r.pos) (hi : r'.input = r.input)
    (hv : min r.visible r.input.length ≤ min r'.visible r'.input.length := by exact Nat.le_refl _) :
    Base r' := ⟨hd ▸ h.out, hd ▸ h.dinv, by rw [hd, hp]; exact h.acct, hi ▸ h.len, by rw [hp]; exact Nat.le_trans h.pos hv⟩

/-- the invariant after a `decode_image_data` call that reported `ImageDataFlushed`, followed by
    `mark_subframe_as_consumed_and_flushed` -/
theorem Inv.du_flush {t : TCfg} {r r' : R} (hI : Inv t r) (hfin : r.finished = false) (hB : Base r') (hF : FrameU r r')
    (hi : r'.dec.info = r.dec.info) (hS : InfoStep r.dec r'.dec) (hU : r'.ub.Inv)
    (hp : r'.ub.prevRow = r.ub.prevRow) (hO : OutSeq r'.dec) (hr : r'.dec.readyIdat = false) :
    Inv t { r' with remaining := r'.remaining - 1, sub := { r'.sub with caf := true } } := by
  obtain ⟨f1, f3, f4, f5, f6, _⟩ := hF.fields
  obtain ⟨i, hi0, hg⟩ := hI.info
  have hg' := hg.congr f1 hp
  refine ⟨hB.congr rfl rfl rfl, ⟨i, hi.trans hi0, ⟨hg'.w1, hg'.wW, hg'.h1, hg'.hH, hg'.rowlen, hg'.iter, hg'.cur, hg'.prev⟩⟩,
    hS.idat hI.idat, ?_, ?_, ?_, hU, ?_⟩
  · intro h; cases h
  · intro _; exact Or.inr ⟨hr, Or.inr hO⟩
  · intro h; simp only at h; rw [f4, hfin] at h; cases h
  · intro snap hs
    simp only at hs
    rw [f5] at hs
    obtain ⟨h1, i', hi', he⟩ := hI.cached snap hs
    exact ⟨f6 ▸ h1, i', hi.trans hi', he⟩

/-- the invariant after a row was unfiltered in place -/
theorem Inv.setUb {t : TCfg} {r : R} (hI : Inv t r) (u : UB) (hu : u.Inv)
    (hp : ∀ i, r.dec.info = some i → PrevOk i.color i.depth r.sub u.prevRow) : Inv t { r with ub := u } := by
  obtain ⟨i, hi0, hg⟩ := hI.info
  exact ⟨hI.base.congr rfl rfl rfl, ⟨i, hi0, ⟨hg.w1, hg.wW, hg.h1, hg.hH, hg.rowlen, hg.iter, hg.cur, hp i hi0⟩⟩, hI.idat,
    hI.live, hI.flushed, hI.fin, hu, hI.cached⟩

/-- what `next_raw_interlaced_row` leaves alone in the sub-frame state -/
def RawRel (r r' : R) : Prop := r'.sub = { r.sub with caf := r'.sub.caf } ∧ r'.cached = r.cached

theorem RawRel.refl (r : R) : RawRel r r := ⟨rfl, rfl⟩
theorem RawRel.trans {a b c : R} (h1 : RawRel a b) (h2 : RawRel b c) : RawRel a c := by
  obtain ⟨a1, a2⟩ := h1
  obtain ⟨b1, b2⟩ := h2
  exact ⟨by rw [b1, a1], b2.trans a2⟩

theorem prevOk_of_len {color depth : Nat} {s : Sub} {prev : Bytes} {ii : IInfo} (hc : s.cur = some ii)
    (h : prev.length + 1 = rowlenOf color depth s ii) : PrevOk color depth s prev := by
  unfold PrevOk; rw [hc]
  cases ii with
  | null l => exact Or.inr h
  | adam7 p l w => intro _; exact Or.inr h

/-- **`next_raw_interlaced_row`**: runs within its fuel, `mark_subframe_as_consumed_and_flushed` never
    fails its assertion, `unfilter_curr_row` never panics; on success the previous row is the new
    row -/
theorem nextRawRow_spec (cfg : Cfg) (t : TCfg) (rowlen : Nat) (h2 : 2 ≤ rowlen) : ∀ (fuel : Nat) (r : R),
    M r < fuel → Inv t r → r.finished = false →
    (r.ub.prevRow = [] ∨ r.ub.prevRow.length + 1 = rowlen) →
    (∀ i, r.dec.info = some i → ∃ ii, r.sub.cur = some ii ∧ rowlenOf i.color i.depth r.sub ii = rowlen) →
    match nextRawRow cfg rowlen fuel r with
    | (r', .error e) => e.isErr = true ∧ Inv t r' ∧ Keep r r' ∧ RawRel r r' ∧ r'.ub.prevRow = r.ub.prevRow
    | (r', .ok ()) => Inv t r' ∧ Keep r r' ∧ RawRel r r' ∧ r'.ub.prevRow.length + 1 = rowlen := by
  intro fuel
  induction fuel with
  | zero => intro r h; omega
  | succ fuel ih =>
    intro r hf hI hfin hp hrl
    unfold nextRawRow
    by_cases hc : r.ub.currLen < rowlen
    · rw [if_pos hc]
      cases hcaf : r.sub.caf with
      | true => exact ⟨rfl, hI, Keep.refl r, RawRel.refl r, rfl⟩
      | false =>
        simp only [Bool.false_eq_true, if_false]
        obtain ⟨hrem, hm⟩ := hI.live hcaf
        have hsp := decodeImageData_spec cfg r true hI.base hm hI.ub
        generalize decodeImageData cfg r true = out at hsp
        obtain ⟨r1, res⟩ := out
        cases res with
        | error e =>
          obtain ⟨a1, a2, a3, a4, a5, a6, a7⟩ := hsp
          refine ⟨a1, hI.du a2 a3 a4 a7 a6.inv a6.prev (fun _ => a5) (fun h => by rw [hcaf] at h; cases h),
            a3.keep a4, ?_, a6.prev⟩
          obtain ⟨f1, _, _, f5, _⟩ := a3.fields
          exact ⟨by rw [f1], f5⟩
        | ok c =>
          obtain ⟨a2, a3, a4, aM, a6, a7, a8⟩ := hsp
          obtain ⟨f1, f3, f4, f5, _⟩ := a3.fields
          have hK1 : Keep r r1 := a3.keep a4
          have hR1 : RawRel r r1 := ⟨by rw [f1], f5⟩
          have hrl1 : ∀ i, r1.dec.info = some i → ∃ ii, r1.sub.cur = some ii ∧ rowlenOf i.color i.depth r1.sub ii = rowlen := by
            intro i hi; rw [f1]; exact hrl i (a4 ▸ hi)
          cases c with
          | more =>
            simp only at a8 ⊢
            have hI1 : Inv t r1 := hI.du a2 a3 a4 a7 a6.inv a6.prev (fun _ => Or.inr a8)
              (fun h => by rw [hcaf] at h; cases h)
            have hrec := ih r1 (by omega) hI1 (f4.trans hfin) (a6.prev ▸ hp) hrl1
            generalize nextRawRow cfg rowlen fuel r1 = x at hrec
            obtain ⟨r2, res2⟩ := x
            cases res2 with
            | error e =>
              exact ⟨hrec.1, hrec.2.1, hK1.trans hrec.2.2.1, hR1.trans hrec.2.2.2.1, hrec.2.2.2.2.trans a6.prev⟩
            | ok u => exact ⟨hrec.1, hK1.trans hrec.2.1, hR1.trans hrec.2.2.1, hrec.2.2.2⟩
          | done =>
            simp only at a8 ⊢
            have hrem1 : 1 ≤ r1.remaining := f3 ▸ hrem
            rw [markFlushed_ok r1 hrem1]
            simp only
            have hI2 := hI.du_flush hfin a2 a3 a4 a7 a6.inv a6.prev a8.1 a8.2
            have hK2 : Keep r1 { r1 with remaining := r1.remaining - 1, sub := { r1.sub with caf := true } } :=
              ⟨rfl, rfl, rfl, rfl, rfl, rfl, rfl⟩
            have hR2 : RawRel r1 { r1 with remaining := r1.remaining - 1, sub := { r1.sub with caf := true } } :=
              ⟨rfl, rfl⟩
            have hrec := ih _ (by show M r1 < fuel; omega) hI2 (f4.trans hfin) (a6.prev ▸ hp) hrl1
            generalize nextRawRow cfg rowlen fuel
              { r1 with remaining := r1.remaining - 1, sub := { r1.sub with caf := true } } = x at hrec
            obtain ⟨r3, res3⟩ := x
            cases res3 with
            | error e =>
              exact ⟨hrec.1, hrec.2.1, (hK1.trans hK2).trans hrec.2.2.1, (hR1.trans hR2).trans hrec.2.2.2.1,
                hrec.2.2.2.2.trans a6.prev⟩
            | ok u => exact ⟨hrec.1, (hK1.trans hK2).trans hrec.2.1, (hR1.trans hR2).trans hrec.2.2.1, hrec.2.2.2⟩
    · rw [if_neg hc]
      rcases unfilterCurr_ok r.ub rowlen r.bpp hI.ub h2 hp hc with ⟨u', hu, hinv, hlen⟩ | ⟨b, hu⟩
      · rw [hu]
        simp only
        refine ⟨hI.setUb u' hinv ?_, ⟨rfl, rfl, rfl, rfl, rfl, rfl, rfl⟩, ⟨rfl, rfl⟩, by show u'.prevRow.length + 1 = rowlen; omega⟩
        intro i hi
        obtain ⟨ii, hcur, hrow⟩ := hrl i hi
        exact prevOk_of_len hcur (by omega)
      · rw [hu]
        exact ⟨rfl, hI, Keep.refl r, RawRel.refl r, rfl⟩

/-- pixel width of the row `ii` -/
def widthOf (s : Sub) : IInfo → Nat
  | .null _ => s.width
  | .adam7 _ _ w => w

theorem rowlenOf_eq {i : Info} {r : R} (g : Geo i r) (ii : IInfo) :
    rowlenOf i.color i.depth r.sub ii = rawRowLengthFromWidth i.color i.depth (widthOf r.sub ii) := by
  cases ii with
  | null _ => exact g.rowlen
  | adam7 _ _ _ => rfl

theorem lineSizeFor_eq (t : TCfg) (r : R) (i : Info) (ii : IInfo) :
    lineSizeFor t r i ii = outLineSize t i r.flags (widthOf r.sub ii) := by
  cases ii <;> rfl

/-- the current row is at least one pixel and at most the (sub)frame wide -/
theorem widthOf_bounds {i : Info} {r : R} (g : Geo i r) {ii : IInfo} (hc : r.sub.cur = some ii) :
    1 ≤ widthOf r.sub ii ∧ widthOf r.sub ii ≤ r.sub.width := by
  cases ii with
  | null _ => exact ⟨g.w1, Nat.le_refl _⟩
  | adam7 p l w =>
    have hcur := g.cur
    unfold CurOk at hcur
    rw [hc] at hcur
    cases hil : i.interlaced with
    | false =>
      rw [hil] at hcur
      cases hit : r.sub.iter <;> (rw [hit] at hcur; exact hcur.elim)
    | true =>
      rw [hil] at hcur
      cases hit : r.sub.iter with
      | none _ _ => rw [hit] at hcur; exact hcur.elim
      | adam7 it =>
        rw [hit] at hcur; simp only at hcur
        refine ⟨hcur.2.2.2.2.2.2.1, ?_⟩
        show w ≤ r.sub.width
        rw [hcur.2.2.2.2.2.1]
        exact Adam7.dim_le _ _ _ (Adam7.step_pos ⟨hcur.1, hcur.2.1⟩).1

theorem Inv.setCached {t : TCfg} {r : R} (hI : Inv t r) (i : Info) (hi : r.dec.info = some i)
    (hc : t.create i r.flags = .ok ()) : Inv t { r with cached := some i } := by
  obtain ⟨j, hj, hg⟩ := hI.info
  refine ⟨hI.base.congr rfl rfl rfl, ⟨j, hj, ⟨hg.w1, hg.wW, hg.h1, hg.hH, hg.rowlen, hg.iter, hg.cur, hg.prev⟩⟩, hI.idat,
    hI.live, hI.flushed, hI.fin, hI.ub, ?_⟩
  intro snap hs
  simp only [Option.some.injEq] at hs
  subst hs
  exact ⟨hc, i, hi, Evolves.refl i⟩

/-- the cached `transform_fn`: `create_transform_fn` fails only with a `Format` error -/
theorem getTransform_spec {t : TCfg} (ht : t.Ok) {r : R} {i : Info} (hI : Inv t r) (hi : r.dec.info = some i) :
    match getTransform t r i with
    | .error e => e.isErr = true
    | .ok (r2, snap) => (r2 = r ∨ r2 = { r with cached := some i }) ∧ Inv t r2 ∧ t.create snap r.flags = .ok () ∧
        Evolves snap i := by
  unfold getTransform
  cases hc : r.cached with
  | some snap =>
    obtain ⟨h1, j, hj, he⟩ := hI.cached snap hc
    rw [hi] at hj; cases hj
    exact ⟨Or.inl rfl, hI, h1, he⟩
  | none =>
    simp only
    cases hcr : t.create i r.flags with
    | error w =>
      simp only
      have := ht.createOk i r.flags w (hI.base.dinv.legal i hi) hcr
      rw [this]
      rfl
    | ok u => exact ⟨Or.inr rfl, hI.setCached i hi hcr, hcr, Evolves.refl i⟩

/-- the invariant after a row was delivered and `current_interlace_info` advanced -/
theorem Inv.advance {t : TCfg} {r : R} {i : Info} {ii : IInfo} (hI : Inv t r) (hi : r.dec.info = some i)
    (hcur : r.sub.cur = some ii) (hfin : r.finished = false)
    (hlen : r.ub.prevRow.length + 1 = rowlenOf i.color i.depth r.sub ii) :
    Inv t { r with sub := r.sub.advance } := by
  obtain ⟨j, hj, hg⟩ := hI.info
  rw [hi] at hj; cases hj
  obtain ⟨d1, d2, d3, d4⟩ := advance_dims r.sub
  obtain ⟨a1, a2⟩ := advance_ok hg.iter
  refine ⟨hI.base.congr rfl rfl rfl, ⟨i, hi, ⟨?_, ?_, ?_, ?_, ?_, a1, a2, ?_⟩⟩, hI.idat, ?_, ?_, ?_, hI.ub, hI.cached⟩
  · show 1 ≤ r.sub.advance.width; rw [d1]; exact hg.w1
  · show r.sub.advance.width ≤ i.width; rw [d1]; exact hg.wW
  · show 1 ≤ r.sub.advance.height; rw [d2]; exact hg.h1
  · show r.sub.advance.height ≤ i.height; rw [d2]; exact hg.hH
  · show r.sub.advance.rowlen = _; rw [d3, d1]; exact hg.rowlen
  · exact advance_prev hg.iter hg.cur hcur hlen
  · intro h; exact hI.live (d4 ▸ h)
  · intro h; exact hI.flushed (d4 ▸ h)
  · intro h; simp only at h; rw [hfin] at h; cases h

/-- **`next_interlaced_row_impl`**: the `assert_eq!` holds, `info()` is present, the transformation
    neither fails to be created with a panic nor panics when applied; on success the row has
    `output_line_size` bytes and the iterator advanced -/
theorem nextRowImpl_spec (cfg : Cfg) {t : TCfg} (ht : t.Ok) (r : R) (i : Info) (ii : IInfo)
    (hI : Inv t r) (hi : r.dec.info = some i) (hcur : r.sub.cur = some ii)
    (hp : r.ub.prevRow = [] ∨ r.ub.prevRow.length + 1 = rowlenOf i.color i.depth r.sub ii) :
    match nextRowImpl cfg t r (rowlenOf i.color i.depth r.sub ii) (outLineSize t i r.flags (widthOf r.sub ii)) with
    | (r', .error e) => e.isErr = true ∧ Inv t r' ∧ Keep r r' ∧ r'.sub = { r.sub with caf := r'.sub.caf }
    | (r', .ok out) => Inv t r' ∧ Keep r r' ∧ out.length = outLineSize t i r.flags (widthOf r.sub ii) ∧
        r'.sub = { r.sub.advance with caf := r'.sub.caf } := by
  obtain ⟨j, hj, hg⟩ := hI.info
  rw [hi] at hj; cases hj
  have hleg := hI.base.dinv.legal i hi
  obtain ⟨hw1, _⟩ := widthOf_bounds hg hcur
  have hrl := rowlenOf_eq hg ii
  have h2 : 2 ≤ rowlenOf i.color i.depth r.sub ii := by rw [hrl]; exact rowlen_ge2 hleg.pair hw1
  have hfin : r.finished = false := by
    cases h : r.finished with
    | false => rfl
    | true => have := (hI.fin h).2.2; rw [hcur] at this; cases this
  unfold nextRowImpl
  have hsp := nextRawRow_spec cfg t _ h2 (fuelOf r) r (fuelOf_ge r) hI hfin hp
    (fun i' hi' => by rw [hi] at hi'; cases hi'; exact ⟨ii, hcur, rfl⟩)
  generalize nextRawRow cfg (rowlenOf i.color i.depth r.sub ii) (fuelOf r) r = out at hsp
  obtain ⟨r1, res⟩ := out
  cases res with
  | error e => exact ⟨hsp.1, hsp.2.1, hsp.2.2.1, hsp.2.2.2.1.1⟩
  | ok u =>
    obtain ⟨hI1, hK1, hR1, hlen⟩ := hsp
    simp only
    rw [if_neg (by omega)]
    have hi1 : r1.dec.info = some i := hK1.info.trans hi
    simp only [infoOf, hi1]
    have hgt := getTransform_spec ht hI1 hi1
    generalize getTransform t r1 i = gt at hgt
    cases gt with
    | error e => exact ⟨hgt, hI1, hK1, hR1.1⟩
    | ok p =>
      obtain ⟨r2, snap⟩ := p
      obtain ⟨hr2, hI2, hcr, hev⟩ := hgt
      simp only
      have hf2 : r2.flags = r.flags := by rcases hr2 with h | h <;> rw [h] <;> exact hK1.flags
      have hsub2 : r2.sub = r1.sub := by rcases hr2 with h | h <;> rw [h]
      have hub2 : r2.ub = r1.ub := by rcases hr2 with h | h <;> rw [h]
      have hK2 : Keep r1 r2 := by rcases hr2 with h | h <;> rw [h] <;> exact ⟨rfl, rfl, rfl, rfl, rfl, rfl, rfl⟩
      have hrow : r1.ub.prevRow.length + 1 = rawRowLengthFromWidth i.color i.depth (widthOf r.sub ii) := by
        rw [← hrl]; exact hlen
      obtain ⟨out, hap, hol⟩ := ht.applyOk snap r.flags i r1.ub.prevRow (widthOf r.sub ii) hleg hev
        (hK1.flags ▸ hcr) hw1 hrow
      have hap' : t.apply snap r2.flags i r1.ub.prevRow (outLineSize t i r.flags (widthOf r.sub ii)) = some out := by
        rw [hf2]; exact hap
      rw [hap']
      simp only
      have hcur2 : r2.sub.cur = some ii := by rw [hsub2, hR1.1]; exact hcur
      have hi2 : r2.dec.info = some i := hK2.info.trans hi1
      have hlen2 : r2.ub.prevRow.length + 1 = rowlenOf i.color i.depth r2.sub ii := by
        rw [hub2, hlen, hsub2, hR1.1]; cases ii <;> rfl
      refine ⟨hI2.advance hi2 hcur2 ((hK1.trans hK2).finished.trans hfin) hlen2, ?_, hol, ?_⟩
      · exact (hK1.trans hK2).trans ⟨rfl, rfl, rfl, rfl, rfl, rfl, rfl⟩
      · show r2.sub.advance = _
        rw [hsub2, hR1.1]
        rcases advance_cases r.sub with ⟨hn, ha⟩ | ⟨c, it, hn, ha⟩
        · have : ({ r.sub with caf := r1.sub.caf } : Sub).advance = { ({ r.sub with caf := r1.sub.caf } : Sub) with cur := none } := by
            unfold Sub.advance; simp only; rw [hn]
          rw [this, ha]
        · have : ({ r.sub with caf := r1.sub.caf } : Sub).advance =
              { ({ r.sub with caf := r1.sub.caf } : Sub) with cur := some c, iter := it } := by
            unfold Sub.advance; simp only; rw [hn]
          rw [this, ha]

theorem Frame.frameU {r r' : R} (h : Frame r r') : FrameU r r' := by
  unfold Frame at h; unfold FrameU; rw [h]

theorem Frame.keep {r r' : R} (h : Frame r r') (hi : r'.dec.info = r.dec.info) : Keep r r' := h.frameU.keep hi

/-- **`finish_decoding`** with `current_interlace_info = None`: neither assertion fails -/
theorem finishDecoding_spec (cfg : Cfg) {t : TCfg} (r : R) (hI : Inv t r) (hcur : r.sub.cur = none) :
    match finishDecoding cfg r with
    | (r', .error e) => e.isErr = true ∧ Inv t r' ∧ Keep r r' ∧ r'.sub = r.sub ∧ r'.cached = r.cached ∧
        r'.remaining = r.remaining
    | (r', .ok ()) => Inv t r' ∧ Keep r r' ∧ r'.sub = { r.sub with caf := true } ∧ r'.cached = r.cached ∧
        (r.sub.caf = true → r' = r) ∧ (r.sub.caf = false → r'.remaining + 1 = r.remaining) := by
  unfold finishDecoding
  rw [hcur]
  simp only [Option.isSome_none, Bool.false_eq_true, if_false]
  cases hcaf : r.sub.caf with
  | true =>
    rw [if_pos rfl]
    refine ⟨hI, Keep.refl r, ?_, rfl, fun _ => rfl, fun h => (by cases h)⟩
    have : ({ r.sub with caf := r.sub.caf } : Sub) = r.sub := rfl
    rw [hcaf] at this; exact this.symm
  | false =>
    simp only [Bool.false_eq_true, if_false]
    obtain ⟨hrem, hm⟩ := hI.live hcaf
    have hfin : r.finished = false := by
      cases h : r.finished with
      | false => rfl
      | true => have := (hI.fin h).1; rw [hcaf] at this; cases this
    have hsp := finishDecodingImageData_spec cfg (fuelOf r) r (fuelOf_ge r) hI.base hm hI.ub
    generalize finishDecodingImageData cfg (fuelOf r) r = out at hsp
    obtain ⟨r1, res⟩ := out
    cases res with
    | error e =>
      obtain ⟨a1, a2, a3, a4⟩ := hsp
      obtain ⟨f1, _, f3, _, f5, _⟩ := a2.frame.fields
      exact ⟨a1, hI.dn a2 (fun _ => a4) (fun h => by rw [hcaf] at h; cases h), a2.frame.keep a3, f1, f5, f3⟩
    | ok u =>
      obtain ⟨a2, a3, a4, a5⟩ := hsp
      obtain ⟨f1, f2, f3, _, f5, _⟩ := a2.frame.fields
      simp only
      rw [markFlushed_ok r1 (f3 ▸ hrem)]
      simp only
      refine ⟨hI.du_flush hfin a2.base a2.frame.frameU a3 a2.step (f2 ▸ hI.ub) (by rw [f2]) a4 a5, ?_, by rw [f1], f5,
        fun h => h.elim, fun _ => ?_⟩
      · exact (a2.frame.keep a3).trans ⟨rfl, rfl, rfl, rfl, rfl, rfl, rfl⟩
      · show r1.remaining - 1 + 1 = r.remaining
        rw [f3]; omega

theorem Inv.setScratch {t : TCfg} {r : R} (hI : Inv t r) (n : Nat) : Inv t { r with scratchLen := n } := by
  obtain ⟨j, hj, hg⟩ := hI.info
  exact ⟨hI.base.congr rfl rfl rfl, ⟨j, hj, ⟨hg.w1, hg.wW, hg.h1, hg.hH, hg.rowlen, hg.iter, hg.cur, hg.prev⟩⟩, hI.idat,
    hI.live, hI.flushed, hI.fin, hI.ub, hI.cached⟩

theorem Inv.setPending {t : TCfg} {r : R} (hI : Inv t r) (b : Option Bytes) : Inv t { r with pendingBuf := b } := by
  obtain ⟨j, hj, hg⟩ := hI.info
  exact ⟨hI.base.congr rfl rfl rfl, ⟨j, hj, ⟨hg.w1, hg.wW, hg.h1, hg.hH, hg.rowlen, hg.iter, hg.cur, hg.prev⟩⟩, hI.idat,
    hI.live, hI.flushed, hI.fin, hI.ub, hI.cached⟩

/-- `read_row` with a current row, with the row length written as `rowlenOf` -/
theorem readRow_some (cfg : Cfg) (t : TCfg) (r : R) (bufLen : Nat) (ii : IInfo) (h : r.sub.cur = some ii) :
    readRow cfg t r bufLen =
      (match infoOf (if ii.line = 0 then { r with ub := r.ub.resetPrev } else r) with
       | none => ((if ii.line = 0 then { r with ub := r.ub.resetPrev } else r), .panic "info().unwrap()")
       | some i =>
         if bufLen < lineSizeFor t (if ii.line = 0 then { r with ub := r.ub.resetPrev } else r) i ii then
           ((if ii.line = 0 then { r with ub := r.ub.resetPrev } else r), .panic "output_buffer[..output_line_size] (mod.rs:529)")
         else
           match nextRowImpl cfg t (if ii.line = 0 then { r with ub := r.ub.resetPrev } else r)
               (rowlenOf i.color i.depth (if ii.line = 0 then { r with ub := r.ub.resetPrev } else r).sub ii)
               (lineSizeFor t (if ii.line = 0 then { r with ub := r.ub.resetPrev } else r) i ii) with
           | (r', .error e) => (r', e)
           | (r', .ok out) => (r', .row ii out)) := by
  unfold readRow; rw [h]; cases ii <;> rfl

/-- what `read_row` returns, related to the sub-frame state before (`s`) and after (`s'`) -/
def RowRes (t : TCfg) (i : Info) (f : Flags) (s s' : Sub) : Res → Prop
  | .row ii out => s.cur = some ii ∧ out.length = outLineSize t i f (widthOf s ii) ∧ s' = { s.advance with caf := s'.caf }
  | .noRow => s.cur = none ∧ s' = { s with caf := true }
  | .err _ _ => s' = { s with caf := s'.caf }
  | _ => False

/-- **`read_row`** into a buffer that holds a row of the current (sub)frame: `output_buffer[..]` is in
    range and nothing below panics -/
theorem readRow_spec (cfg : Cfg) {t : TCfg} (ht : t.Ok) (r : R) (bufLen : Nat) (i : Info) (hI : Inv t r)
    (hi : r.dec.info = some i) (hbuf : outLineSize t i r.flags r.sub.width ≤ bufLen) :
    match readRow cfg t r bufLen with
    | (r', res) => Inv t r' ∧ Keep r r' ∧ res.isPanic = false ∧ RowRes t i r.flags r.sub r'.sub res := by
  obtain ⟨j, hj, hg⟩ := hI.info
  rw [hi] at hj; cases hj
  have hleg := hI.base.dinv.legal i hi
  cases hcur : r.sub.cur with
  | none =>
    unfold readRow
    rw [hcur]
    simp only
    have hsp := finishDecoding_spec cfg r hI hcur
    generalize finishDecoding cfg r = out at hsp
    obtain ⟨r1, res⟩ := out
    cases res with
    | error e =>
      obtain ⟨a1, a2, a3, a4, _, _⟩ := hsp
      refine ⟨a2, a3, Res.isErr_not_panic a1, ?_⟩
      show RowRes t i r.flags r.sub r1.sub e
      cases e <;> first | (cases a1; done) | skip
      show r1.sub = { r.sub with caf := r1.sub.caf }
      rw [a4]
    | ok u => exact ⟨hsp.1, hsp.2.1, rfl, hcur, hsp.2.2.1⟩
  | some ii =>
    rw [readRow_some cfg t r bufLen ii hcur]
    generalize hr0 : (if ii.line = 0 then { r with ub := r.ub.resetPrev } else r) = r0
    have hI0 : Inv t r0 := by
      subst hr0; split
      · refine hI.setUb _ (UB.inv_resetPrev _ hI.ub) ?_
        intro i' _
        rw [prevRow_resetPrev]
        unfold PrevOk; split
        · exact Or.inl rfl
        · intro _; exact Or.inl rfl
        · trivial
      · exact hI
    have hK0 : Keep r r0 := by subst hr0; split <;> exact ⟨rfl, rfl, rfl, rfl, rfl, rfl, rfl⟩
    have hs0 : r0.sub = r.sub := by subst hr0; split <;> rfl
    have hp0 : r0.ub.prevRow = [] ∨ r0.ub.prevRow.length + 1 = rowlenOf i.color i.depth r0.sub ii := by
      subst hr0; split
      · exact Or.inl (prevRow_resetPrev _)
      · rename_i hl
        have := hg.prev
        unfold PrevOk at this
        rw [hcur] at this
        cases ii with
        | null l => exact this
        | adam7 p l w => exact this hl
    have hi0 : r0.dec.info = some i := hK0.info.trans hi
    simp only [infoOf, hi0]
    rw [lineSizeFor_eq]
    have hcur0 : r0.sub.cur = some ii := hs0 ▸ hcur
    obtain ⟨j, hj, hg0⟩ := hI0.info
    rw [hi0] at hj; cases hj
    obtain ⟨_, hwle⟩ := widthOf_bounds hg0 hcur0
    have hols : ¬ bufLen < outLineSize t i r0.flags (widthOf r0.sub ii) := by
      have := outLineSize_mono ht hleg r0.flags hwle
      rw [hK0.flags, hs0] at this ⊢
      omega
    rw [if_neg hols]
    have hsp := nextRowImpl_spec cfg ht r0 i ii hI0 hi0 hcur0 hp0
    generalize nextRowImpl cfg t r0 (rowlenOf i.color i.depth r0.sub ii) (outLineSize t i r0.flags (widthOf r0.sub ii)) = out at hsp
    obtain ⟨r1, res⟩ := out
    cases res with
    | error e =>
      obtain ⟨a1, a2, a3, a4⟩ := hsp
      refine ⟨a2, hK0.trans a3, Res.isErr_not_panic a1, ?_⟩
      show RowRes t i r.flags r.sub r1.sub e
      cases e <;> first | (cases a1; done) | skip
      show r1.sub = { r.sub with caf := r1.sub.caf }
      rw [a4, hs0]
    | ok out =>
      obtain ⟨a2, a3, a4, a5⟩ := hsp
      refine ⟨a2, hK0.trans a3, rfl, ?_⟩
      show RowRes t i r.flags r.sub r1.sub (.row ii out)
      refine ⟨hcur, ?_, ?_⟩
      · rw [a4, hK0.flags, hs0]
      · rw [a5, hs0]

/-- **`next_interlaced_row` / `next_row`**: the scratch row is long enough -/
theorem nextInterlacedRow_spec (cfg : Cfg) {t : TCfg} (ht : t.Ok) (r : R) (i : Info) (hI : Inv t r)
    (hi : r.dec.info = some i) :
    match nextInterlacedRow cfg t r with
    | (r', res) => Inv t r' ∧ Keep r r' ∧ res.isPanic = false ∧ RowRes t i r.flags r.sub r'.sub res := by
  unfold nextInterlacedRow
  simp only [infoOf, hi]
  have hsp := readRow_spec cfg ht { r with scratchLen := outLineSize t i r.flags r.sub.width }
    (outLineSize t i r.flags r.sub.width) i (hI.setScratch _) hi (Nat.le_refl _)
  generalize readRow cfg t { r with scratchLen := outLineSize t i r.flags r.sub.width }
    (outLineSize t i r.flags r.sub.width) = out at hsp
  obtain ⟨r1, res⟩ := out
  have hK : Keep r { r with scratchLen := outLineSize t i r.flags r.sub.width } := ⟨rfl, rfl, rfl, rfl, rfl, rfl, rfl⟩
  exact ⟨hsp.1, hK.trans hsp.2.1, hsp.2.2.1, hsp.2.2.2⟩

/-! ### the row loops of `next_frame` -/

theorem setSlice_length (buf : Bytes) (a : Nat) (v : Bytes) (h : a + v.length ≤ buf.length) :
    (setSlice buf a v).length = buf.length := by
  simp only [setSlice, List.length_append, List.length_take, List.length_drop]; omega

/-- the row after row `k` of a non-interlaced (sub)frame -/
theorem advance_null {s : Sub} {k : Nat} (hw : IterWf false s) (hc : CurOk false s) (hcur : s.cur = some (.null k)) :
    s.advance.cur = if k + 1 < s.height then some (.null (k + 1)) else none := by
  unfold IterWf at hw
  unfold CurOk at hc
  cases hi : s.iter with
  | adam7 a => rw [hi] at hw; exact hw.elim
  | none n stop =>
    rw [hi] at hw; simp only at hw
    rw [hi, hcur] at hc; simp only at hc
    obtain ⟨rfl, _⟩ := hc
    subst hw
    unfold Sub.advance
    rw [hi]
    simp only [IIter.next]
    by_cases hlt : k + 1 < s.height
    · rw [if_pos hlt, if_pos hlt]
    · rw [if_neg hlt, if_neg hlt]

theorem mul_le_of_le {a b c n : Nat} (h : a ≤ b) (hb : b * c ≤ n) : a * c ≤ n :=
  Nat.le_trans (Nat.mul_le_mul_right c h) hb

/-- **the non-interlaced row loop** (`chunks_exact_mut(line_size).take(height).skip(done)`): every
    remaining row fits the buffer, so the loop ends with `current_interlace_info = None` -/
theorem frameRows_spec (cfg : Cfg) {t : TCfg} (ht : t.Ok) (i : Info) (hil : i.interlaced = false) (lineSize : Nat) :
    ∀ (n k : Nat) (r : R) (buf : Bytes), Inv t r → r.dec.info = some i →
    lineSize = outLineSize t i r.flags r.sub.width → k + n = r.sub.height →
    (n = 0 → r.sub.cur = none) → (0 < n → r.sub.cur = some (.null k)) → r.sub.height * lineSize ≤ buf.length →
    match frameRows cfg t lineSize n k r buf with
    | (r', buf', none) => Inv t r' ∧ Keep r r' ∧ r'.sub.cur = none ∧ buf'.length = buf.length
    | (r', buf', some e) => e.isErr = true ∧ Inv t r' ∧ Keep r r' ∧ buf'.length = buf.length := by
  intro n
  induction n with
  | zero => intro k r buf hI _ _ _ h0 _ _; exact ⟨hI, Keep.refl r, h0 rfl, rfl⟩
  | succ n ih =>
    intro k r buf hI hi hls hkn _ hc hbuf
    have hcur := hc (Nat.succ_pos n)
    obtain ⟨j, hj, hg⟩ := hI.info
    rw [hi] at hj; cases hj
    unfold frameRows
    have hfit : (k + 1) * lineSize ≤ buf.length := mul_le_of_le (by omega) hbuf
    rw [if_neg (by omega)]
    have hp : r.ub.prevRow = [] ∨ r.ub.prevRow.length + 1 = rowlenOf i.color i.depth r.sub (.null k) := by
      have := hg.prev; unfold PrevOk at this; rw [hcur] at this; exact this
    have hsp := nextRowImpl_spec cfg ht r i (.null k) hI hi hcur hp
    have e1 : rowlenOf i.color i.depth r.sub (.null k) = r.sub.rowlen := rfl
    have e2 : outLineSize t i r.flags (widthOf r.sub (.null k)) = lineSize := hls.symm
    rw [e1, e2] at hsp
    generalize nextRowImpl cfg t r r.sub.rowlen lineSize = out at hsp
    obtain ⟨r1, res⟩ := out
    cases res with
    | error e => exact ⟨hsp.1, hsp.2.1, hsp.2.2.1, rfl⟩
    | ok out =>
      obtain ⟨a1, a2, a3, a4⟩ := hsp
      simp only
      obtain ⟨d1, d2, _, _⟩ := advance_dims r.sub
      have hw1 : r1.sub.width = r.sub.width := by rw [a4]; exact d1
      have hh1 : r1.sub.height = r.sub.height := by rw [a4]; exact d2
      have hcur1 : r1.sub.cur = if k + 1 < r.sub.height then some (.null (k + 1)) else none := by
        rw [a4]; exact advance_null (hil ▸ hg.iter) (hil ▸ hg.cur) hcur
      have hlen : (setSlice buf (k * lineSize) out).length = buf.length := by
        apply setSlice_length
        rw [a3]
        have : (k + 1) * lineSize = k * lineSize + lineSize := Nat.succ_mul k lineSize
        omega
      have hrec := ih (k + 1) r1 (setSlice buf (k * lineSize) out) a1 (a2.info.trans hi)
        (by rw [a2.flags, hw1]; exact hls) (by rw [hh1]; omega)
        (fun h0 => by rw [hcur1, if_neg (by omega)])
        (fun h0 => by rw [hcur1, if_pos (by omega)])
        (by rw [hh1, hlen]; exact hbuf)
      generalize frameRows cfg t lineSize n (k + 1) r1 (setSlice buf (k * lineSize) out) = x at hrec
      obtain ⟨r2, buf2, res2⟩ := x
      cases res2 with
      | none => exact ⟨hrec.1, a2.trans hrec.2.1, hrec.2.2.1, hrec.2.2.2.trans hlen⟩
      | some e => exact ⟨hrec.1, hrec.2.1, a2.trans hrec.2.2.1, hrec.2.2.2.trans hlen⟩

/-- rows an interlaced (sub)frame still has to deliver (including the current one) -/
def rowsLeft (s : Sub) : Nat :=
  (if s.cur.isSome then 1 else 0) +
    (match s.iter with
     | .adam7 it => (it.rest s.width s.height).length
     | .none _ _ => 0)

theorem rowsLeft_le {s : Sub} (hw : IterWf true s) : rowsLeft s ≤ 7 * s.height + 1 := by
  unfold IterWf at hw
  unfold rowsLeft
  cases hi : s.iter with
  | none n stop => rw [hi] at hw; exact hw.elim
  | adam7 it =>
    rw [hi] at hw; simp only at hw ⊢
    have := rest_length_le _ _ it hw
    split <;> omega

theorem rowsLeft_advance {s : Sub} (hw : IterWf true s) (hc : s.cur.isSome) : rowsLeft s.advance + 1 = rowsLeft s := by
  unfold IterWf at hw
  cases hi : s.iter with
  | none n stop => rw [hi] at hw; exact hw.elim
  | adam7 it =>
    rw [hi] at hw; simp only at hw
    have hs := Adam7.next_spec s.width s.height Adam7.nextFuel it hw (by have := hw.2.2.1; simp [Adam7.nextFuel]; omega)
    rcases advance_cases s with ⟨hn, ha⟩ | ⟨c, it', hn, ha⟩
    · rw [ha]
      rw [hi] at hn
      simp only [IIter.next] at hn
      split at hn
      · cases hn
      · rename_i hnone
        rw [hnone] at hs; simp only at hs
        simp only [rowsLeft, hi, hs, hc, Option.isSome_none]
        simp
    · rw [ha]
      rw [hi] at hn
      obtain ⟨info, a', hn', rfl, rfl⟩ := next_adam7 hn
      rw [hn'] at hs; simp only at hs
      simp only [rowsLeft, hi, hs.1, hc, Option.isSome_some, List.length_cons, if_true]
      omega

/-- **`expand_pass` stays inside the frame buffer**: a row of pass `p` of a `W × H` (sub)frame, as long
    as `output_line_size(pass width)`, scattered with the sub-frame's line size as stride into a
    buffer of at least `H` lines -/
theorem expandPass_fits {c d W H w p l stride : Nat} {buf data : Bytes} (hleg : (c, d) ∈ legalPairs)
    (hp : 1 ≤ p ∧ p ≤ 7) (hw : w = Adam7.passW W p) (hl : l < Adam7.passH H p) (hH : 1 ≤ H)
    (hstride : stride = rawRowLengthFromWidth c d W - 1) (hdata : data.length = rawRowLengthFromWidth c d w - 1)
    (hbuf : H * stride ≤ buf.length) :
    ∃ buf', Adam7.expandPass buf stride data { pass := p, line := l, width := w } (samplesOf c * d) = some buf' ∧
      buf'.length = buf.length := by
  have hd := (legal_pos hleg).2.2
  have hrow : w * (samplesOf c * d) ≤ data.length * 8 := by rw [hdata]; exact rowlen_bits hd
  have hWb : W * (samplesOf c * d) ≤ stride * 8 := by rw [hstride]; exact rowlen_bits hd
  have hsum : (H - 1) * stride * 8 + stride * 8 = H * stride * 8 := by
    rw [← Nat.add_mul, ← Nat.succ_mul, Nat.succ_eq_add_one, Nat.sub_add_cancel hH]
  have hlen : (H - 1) * stride * 8 + W * (samplesOf c * d) ≤ buf.length * 8 := by omega
  obtain ⟨img', h1, h2, _, _⟩ := Adam7.expandPass_writes (legal_validBits hleg) stride buf data
    { pass := p, line := l, width := w } hp hrow (by
      intro x hx
      simp only at hx ⊢
      apply Adam7.fits_of_length hlen
      · exact (Adam7.passW_spec hp W x).mp (hw ▸ hx)
      · exact (Adam7.passH_spec hp H l).mp hl)
  exact ⟨img', h1, h2⟩

/-- **the interlaced row loop** (`while let Some(row) = next_interlaced_row()? { expand_pass(..) }`):
    runs within its fuel, every row is an Adam7 row, `expand_pass` never indexes out of range; it ends
    with `current_interlace_info = None` -/
theorem frameInterlaced_spec (cfg : Cfg) {t : TCfg} (ht : t.Ok) (i : Info) (hil : i.interlaced = true)
    (stride : Nat) : ∀ (fuel : Nat) (r : R) (buf : Bytes), Inv t r → r.dec.info = some i →
    stride = outLineSize t i r.flags r.sub.width → rowsLeft r.sub < fuel → r.sub.height * stride ≤ buf.length →
    match frameInterlaced cfg t stride (samplesOf (t.outColorDepth i r.flags).1 * (t.outColorDepth i r.flags).2) fuel r buf with
    | (r', buf', none) => Inv t r' ∧ Keep r r' ∧ r'.sub.cur = none ∧ buf'.length = buf.length
    | (r', buf', some e) => e.isErr = true ∧ Inv t r' ∧ Keep r r' ∧ buf'.length = buf.length := by
  intro fuel
  induction fuel with
  | zero => intro r buf _ _ _ h; omega
  | succ fuel ih =>
    intro r buf hI hi hst hfuel hbuf
    obtain ⟨j, hj, hg⟩ := hI.info
    rw [hi] at hj; cases hj
    have hleg := hI.base.dinv.legal i hi
    unfold frameInterlaced
    have hsp := nextInterlacedRow_spec cfg ht r i hI hi
    generalize nextInterlacedRow cfg t r = out at hsp
    obtain ⟨r1, res⟩ := out
    obtain ⟨a1, a2, a3, a4⟩ := hsp
    cases res with
    | panic s => cases a3
    | header => exact a4.elim
    | frame _ _ => exact a4.elim
    | frameInfo _ => exact a4.elim
    | done => exact a4.elim
    | err c w => exact ⟨rfl, a1, a2, rfl⟩
    | noRow =>
      simp only [RowRes] at a4
      refine ⟨a1, a2, ?_, rfl⟩
      rw [a4.2]; exact a4.1
    | row ii data =>
      simp only [RowRes] at a4
      obtain ⟨hcur, hdl, hsub⟩ := a4
      have hc := hg.cur
      unfold CurOk at hc
      rw [hil, hcur] at hc
      cases ii with
      | null l => cases hit : r.sub.iter <;> (rw [hit] at hc; exact hc.elim)
      | adam7 p l w =>
        cases hit : r.sub.iter with
        | none _ _ => rw [hit] at hc; exact hc.elim
        | adam7 it =>
          rw [hit] at hc; simp only at hc
          obtain ⟨hp1, hp7, _, _, _, hwp, _, hlp⟩ := hc
          simp only
          obtain ⟨buf', hex, hbl⟩ := expandPass_fits (c := (t.outColorDepth i r.flags).1) (d := (t.outColorDepth i r.flags).2)
            (W := r.sub.width) (H := r.sub.height) (w := w) (p := p) (l := l) (stride := stride) (buf := buf) (data := data)
            (ht.outLegal i r.flags hleg) ⟨hp1, hp7⟩ hwp hlp hg.h1 (by rw [hst, outLineSize_eq]) (by rw [hdl]; rfl) hbuf
          rw [hex]
          simp only
          obtain ⟨d1, d2, _, _⟩ := advance_dims r.sub
          have hw1 : r1.sub.width = r.sub.width := by rw [hsub]; exact d1
          have hh1 : r1.sub.height = r.sub.height := by rw [hsub]; exact d2
          have hrl : rowsLeft r1.sub + 1 = rowsLeft r.sub := by
            have := rowsLeft_advance (hil ▸ hg.iter) (by rw [hcur]; rfl)
            rw [hsub]
            unfold rowsLeft at this ⊢
            exact this
          have hrec := ih r1 buf' a1 (a2.info.trans hi) (by rw [a2.flags, hw1]; exact hst) (by omega)
            (by rw [hh1, hbl]; exact hbuf)
          rw [a2.flags] at hrec
          generalize frameInterlaced cfg t stride
            (samplesOf (t.outColorDepth i r.flags).1 * (t.outColorDepth i r.flags).2) fuel r1 buf' = x at hrec
          obtain ⟨r2, buf2, res2⟩ := x
          cases res2 with
          | none => exact ⟨hrec.1, a2.trans hrec.2.1, hrec.2.2.1, hrec.2.2.2.trans hbl⟩
          | some e => exact ⟨hrec.1, hrec.2.1, a2.trans hrec.2.2.1, hrec.2.2.2.trans hbl⟩

/-! ### beginning a (sub)frame -/

theorem fctl_dims {i : Info} {fc : FrameControl} (h : fctlInBounds i fc = true) :
    1 ≤ fc.width ∧ fc.width ≤ i.width ∧ 1 ≤ fc.height ∧ fc.height ≤ i.height := by
  simp only [fctlInBounds, Bool.and_eq_true, ne_eq, decide_eq_true_eq] at h
  omega

theorem dims_bounds {d : Dec} (hD : DInv d) {i : Info} (hi : d.info = some i) :
    1 ≤ (Sub.dims i).1 ∧ (Sub.dims i).1 ≤ i.width ∧ 1 ≤ (Sub.dims i).2 ∧ (Sub.dims i).2 ≤ i.height := by
  unfold Sub.dims
  cases hf : i.fctl with
  | none => have := hD.legal i hi; exact ⟨this.width, Nat.le_refl _, this.height, Nat.le_refl _⟩
  | some fc => exact fctl_dims (hD.fctlOk i fc hi hf)

/-- the geometry of the sub-frame `SubframeInfo::new` builds, with a fresh unfiltering buffer -/
theorem geo_new {d : Dec} (hD : DInv d) {i : Info} (hi : d.info = some i) (r : R) (hs : r.sub = Sub.new i)
    (hu : r.ub.prevRow = []) : Geo i r := by
  obtain ⟨b1, b2, b3, b4⟩ := dims_bounds hD hi
  have hw0 : IterWf i.interlaced
      { width := (Sub.dims i).1, height := (Sub.dims i).2,
        rowlen := rawRowLengthFromWidth i.color i.depth (Sub.dims i).1, cur := none,
        iter := IIter.new (Sub.dims i).1 (Sub.dims i).2 i.interlaced, caf := false } := by
    unfold IterWf IIter.new
    cases i.interlaced with
    | false => rfl
    | true => exact Adam7.new_wf _ _
  obtain ⟨a1, a2⟩ := advance_ok hw0
  obtain ⟨d1, d2, d3, _⟩ := advance_dims
      { width := (Sub.dims i).1, height := (Sub.dims i).2,
        rowlen := rawRowLengthFromWidth i.color i.depth (Sub.dims i).1, cur := none,
        iter := IIter.new (Sub.dims i).1 (Sub.dims i).2 i.interlaced, caf := false }
  refine ⟨?_, ?_, ?_, ?_, ?_, ?_, ?_, ?_⟩ <;> rw [hs]
  · show 1 ≤ (Sub.new i).width; unfold Sub.new; rw [d1]; exact b1
  · show (Sub.new i).width ≤ i.width; unfold Sub.new; rw [d1]; exact b2
  · show 1 ≤ (Sub.new i).height; unfold Sub.new; rw [d2]; exact b3
  · show (Sub.new i).height ≤ i.height; unfold Sub.new; rw [d2]; exact b4
  · show (Sub.new i).rowlen = rawRowLengthFromWidth i.color i.depth (Sub.new i).width
    unfold Sub.new; rw [d3, d1]
  · exact a1
  · exact a2
  · rw [hu]; unfold PrevOk; split
    · exact Or.inl rfl
    · intro _; exact Or.inl rfl
    · trivial

theorem subNew_caf (i : Info) : (Sub.new i).caf = false := by
  unfold Sub.new; rw [(advance_dims _).2.2.2]

/-- the state right after `Reader::read_until_image_data` found the next data chunk -/
structure NewFrame (r r' : R) : Prop where
  base : Base r'
  step : InfoStep r.dec r'.dec
  inSeq : InSeq r'.dec
  info : ∃ i, r'.dec.info = some i ∧ r'.sub = Sub.new i ∧ (r.dec.readyIdat = false → i.fctl.isSome)
  ub : r'.ub = UB.new
  remaining : r'.remaining = r.remaining
  finished : r'.finished = r.finished
  cached : r'.cached = r.cached
  flags : r'.flags = r.flags
  isReader : r'.isReader = r.isReader
  dead : r'.dead = r.dead
  input : r'.input = r.input
  visible : r'.visible = r.visible

theorem Base.setLimit {r : R} (h : Base r) (l : Nat) : Base { r with dec := { r.dec with limit := l } } :=
  ⟨h.out, ⟨h.dinv.legal, h.dinv.fctlOk, h.dinv.ready, h.dinv.idat, h.dinv.endOk⟩, h.acct, h.len, h.pos⟩

theorem reserveBytes_cases (r : R) (n : Nat) :
    reserveBytes r n = .error (.err .limits "LimitsExceeded") ∨
    reserveBytes r n = .ok { r with dec := { r.dec with limit := r.dec.limit - n } } := by
  unfold reserveBytes; split
  · exact Or.inr rfl
  · exact Or.inl rfl

theorem NewFrame.of {r r1 r' : R} (a1 : DNOk r r1) (a2 : InSeq r1.dec) {i : Info} (hi : r1.dec.info = some i)
    (hfc : r.dec.readyIdat = false → i.fctl.isSome) (l b : Nat)
    (h : r' = { r1 with sub := Sub.new i, bpp := b, ub := UB.new, dec := { r1.dec with limit := l } }) :
    NewFrame r r' := by
  subst h
  obtain ⟨f1, f2, f3, f4, f5, f6, f7, f8, f9, f10, _⟩ := a1.frame.fields
  exact ⟨⟨a1.base.out, ⟨a1.base.dinv.legal, a1.base.dinv.fctlOk, a1.base.dinv.ready, a1.base.dinv.idat, a1.base.dinv.endOk⟩,
      a1.base.acct, a1.base.len, a1.base.pos⟩, ⟨a1.step.idat, a1.step.rIdat, a1.step.evo⟩, a2,
    ⟨i, hi, rfl, hfc⟩, rfl, f3, f4, f5, f6, f7, f8, f9, f10⟩

/-- the reader after a refused reservation (repair 0a2b38f, mod.rs:367-374): the old sub-frame is kept, marked
    consumed (`current_interlace_info = None`, `consumed_and_flushed = true`), and no frame remains -/
def R.ended (r : R) : R := { r with sub := { r.sub with cur := none, caf := true }, remaining := 0 }

/-- the state right after `Reader::read_until_image_data` found the next data chunk and `Limits` refused its row
    buffers: the stream decoder moved to the beginning of the data-chunk sequence (state `r1`), nothing of the new
    (sub)frame was installed, and the reader is ended -/
structure Refused (r r' : R) : Prop where
  mid : ∃ r1, DNOk r r1 ∧ InSeq r1.dec ∧ r1.dec.info.isSome ∧ r' = r1.ended

theorem Refused.fields {r r' : R} (h : Refused r r') :
    r'.remaining = 0 ∧ r'.sub = { r.sub with cur := none, caf := true } ∧ r'.ub = r.ub ∧ r'.bpp = r.bpp ∧
    r'.finished = r.finished ∧ r'.cached = r.cached ∧ r'.flags = r.flags ∧ r'.isReader = r.isReader ∧ r'.dead = r.dead ∧
    r'.input = r.input ∧ r'.visible = r.visible ∧ r'.pendingBuf = r.pendingBuf ∧ r'.scratchLen = r.scratchLen := by
  obtain ⟨r1, a1, _, _, rfl⟩ := h.mid
  obtain ⟨f1, f2, f3, f4, f5, f6, f7, f8, f9, f10, f11, f12, f13⟩ := a1.frame.fields
  refine ⟨rfl, ?_, f2, f11, f4, f5, f6, f7, f8, f9, f10, f12, f13⟩
  show ({ r1.sub with cur := none, caf := true } : Sub) = _
  rw [f1]

/-- **`Reader::read_until_image_data`** between sequences: `info()` is present, `bpp_in_prediction`
    never reaches `unreachable!()`; it fails with an error — of the stream decoder, or the `Limits` refusal of the
    row buffers, after which nothing of the new sub-frame is installed and the reader is ended — or succeeds at
    the beginning of a data-chunk sequence -/
theorem readUntilImageData_spec (cfg : Cfg) (t : TCfg) (r : R) (hB : Base r) (hm : OutMode r) :
    match readUntilImageData cfg t r with
    | (r', .error e) => e.isErr = true ∧ ((DNOk r r' ∧ OutMode r') ∨ (Refused r r' ∧ e = .err .limits "LimitsExceeded"))
    | (r', .ok ()) => NewFrame r r' := by
  unfold readUntilImageData
  have hsp := rdReadUntilImageData_spec cfg (fuelOf r) r (fuelOf_ge r) hB hm
  generalize rdReadUntilImageData cfg (fuelOf r) r = out at hsp
  obtain ⟨r1, res⟩ := out
  cases res with
  | error e => exact ⟨hsp.1, Or.inl hsp.2⟩
  | ok u =>
    obtain ⟨a1, a2, a3, a4⟩ := hsp
    simp only
    cases hi : r1.dec.info with
    | none => rw [hi] at a3; cases a3
    | some i =>
      simp only [infoOf, hi]
      obtain ⟨hb, _⟩ := bpp_total i.color i.depth (a1.base.dinv.legal i hi).pair
      have hfc : r.dec.readyIdat = false → i.fctl.isSome := by
        intro h
        obtain ⟨i', fc, h1, h2⟩ := a4 h
        rw [hi] at h1; cases h1; rw [h2]; rfl
      rcases reserveBytes_cases r1 (outLineSize t i r1.flags (Sub.new i).width) with h | h
      · rw [h]
        exact ⟨rfl, Or.inr ⟨⟨r1, a1, a2, by rw [hi]; rfl, rfl⟩, rfl⟩⟩
      · rw [h]
        simp only
        rw [hb]
        exact NewFrame.of a1 a2 hi hfc _ _ rfl

/-- the invariant at the beginning of a (sub)frame, with `rem ≥ 1` frames remaining -/
theorem Inv.newFrame {t : TCfg} {r r' : R} (hN : NewFrame r r') (rem : Nat) (hrem : 1 ≤ rem) (hfin : r.finished = false)
    (hc : ∀ snap, r.cached = some snap →
      r.dec.haveIdat = true ∧ t.create snap r.flags = .ok () ∧ ∃ i, r.dec.info = some i ∧ Evolves snap i) :
    Inv t { r' with remaining := rem } := by
  obtain ⟨i, hi, hs, _⟩ := hN.info
  have hg := geo_new hN.base.dinv hi r' hs (by rw [hN.ub]; exact prevRow_new)
  have hcaf : r'.sub.caf = false := by rw [hs]; exact subNew_caf i
  refine ⟨hN.base.congr rfl rfl rfl, ⟨i, hi, ⟨hg.w1, hg.wW, hg.h1, hg.hH, hg.rowlen, hg.iter, hg.cur, hg.prev⟩⟩,
    hN.base.dinv.idat hN.inSeq.1, ?_, ?_, ?_, ?_, ?_⟩
  · intro _; exact ⟨hrem, Or.inr hN.inSeq⟩
  · intro h; simp only at h; rw [hcaf] at h; cases h
  · intro h; simp only at h; rw [hN.finished, hfin] at h; cases h
  · show r'.ub.Inv; rw [hN.ub]; exact UB.inv_new
  · intro snap hsn
    simp only at hsn
    rw [hN.cached] at hsn
    obtain ⟨hid, h1, i0, hi0, he⟩ := hc snap hsn
    obtain ⟨j, hj, hcj, htr, hpl⟩ := hN.step.evo i0 hi0
    rw [hi] at hj; cases hj
    exact ⟨hN.flags ▸ h1, i, hi, he.step hcj (htr hid) hpl⟩

/-- `current_interlace_info = None` (the rest of the frame is skipped) keeps the invariant -/
theorem Inv.clearCur {t : TCfg} {r : R} (hI : Inv t r) : Inv t { r with sub := { r.sub with cur := none } } := by
  obtain ⟨j, hj, hg⟩ := hI.info
  refine ⟨hI.base.congr rfl rfl rfl, ⟨j, hj, ⟨hg.w1, hg.wW, hg.h1, hg.hH, hg.rowlen, ?_, ?_, ?_⟩⟩, hI.idat,
    hI.live, hI.flushed, ?_, hI.ub, hI.cached⟩
  · exact hg.iter
  · unfold CurOk; simp only
  · unfold PrevOk; simp only
  · intro h; obtain ⟨h1, h2, _⟩ := hI.fin h; exact ⟨h1, h2, rfl⟩

theorem Inv.cachedFacts {t : TCfg} {r : R} (hI : Inv t r) : ∀ snap, r.cached = some snap →
    r.dec.haveIdat = true ∧ t.create snap r.flags = .ok () ∧ ∃ i, r.dec.info = some i ∧ Evolves snap i :=
  fun snap h => ⟨hI.idat, hI.cached snap h⟩

theorem Inv.not_finished {t : TCfg} {r : R} (hI : Inv t r) (h : r.remaining ≠ 0) : r.finished = false := by
  cases hf : r.finished with
  | false => rfl
  | true => exact absurd (hI.fin hf).2.1 h

/-- fields that `next_frame`, `next_frame_info`, `finish` and the row calls leave alone -/
structure Stable (r r' : R) : Prop where
  flags : r'.flags = r.flags
  isReader : r'.isReader = r.isReader
  dead : r'.dead = r.dead
  input : r'.input = r.input

theorem Stable.refl (r : R) : Stable r r := ⟨rfl, rfl, rfl, rfl⟩
theorem Stable.trans {a b c : R} (h1 : Stable a b) (h2 : Stable b c) : Stable a c :=
  ⟨h2.flags.trans h1.flags, h2.isReader.trans h1.isReader, h2.dead.trans h1.dead, h2.input.trans h1.input⟩
theorem Keep.stable {r r' : R} (h : Keep r r') : Stable r r' := ⟨h.flags, h.isReader, h.dead, h.input⟩
theorem NewFrame.stable {r r' : R} (h : NewFrame r r') : Stable r r' := ⟨h.flags, h.isReader, h.dead, h.input⟩
theorem DNOk.stable {r r' : R} (h : DNOk r r') : Stable r r' := by
  obtain ⟨_, _, _, _, _, f6, f7, f8, f9, _⟩ := h.frame.fields
  exact ⟨f6, f7, f8, f9⟩
theorem Refused.stable {r r' : R} (h : Refused r r') : Stable r r' := by
  obtain ⟨_, _, _, _, _, _, f6, f7, f8, f9, _⟩ := h.fields
  exact ⟨f6, f7, f8, f9⟩

/-- ending the reader (old sub-frame kept and marked consumed, no frame remaining) after the stream decoder moved
    keeps the invariant, wherever the stream decoder stands -/
theorem Inv.ended {t : TCfg} {r r1 : R} (hI : Inv t r) (hok : DNOk r r1) : Inv t r1.ended := by
  obtain ⟨f1, f2, f3, f4, f5, f6, _⟩ := hok.frame.fields
  obtain ⟨i, hi, hg⟩ := hI.info
  obtain ⟨j, hj, hc, htr, hpl⟩ := hok.step.evo i hi
  have hg1 := (hg.congr f1 (by rw [f2])).of_core hc
  refine ⟨hok.base.congr rfl rfl rfl, ⟨j, hj, ⟨hg1.w1, hg1.wW, hg1.h1, hg1.hH, hg1.rowlen, hg1.iter, ?_, ?_⟩⟩,
    hok.step.idat hI.idat, ?_, ?_, ?_, f2 ▸ hI.ub, ?_⟩
  · unfold CurOk R.ended; simp only
  · unfold PrevOk R.ended; simp only
  · intro h; cases h
  · intro _; exact Or.inl rfl
  · intro _; exact ⟨rfl, rfl, rfl⟩
  · intro snap hs
    have hs' : r1.cached = some snap := hs
    rw [f5] at hs'
    obtain ⟨h1, i', hi', he⟩ := hI.cached snap hs'
    rw [hi] at hi'; cases hi'
    exact ⟨f6 ▸ h1, j, hj, he.step hc (htr hI.idat) hpl⟩

theorem Inv.refused {t : TCfg} {r r' : R} (hI : Inv t r) (h : Refused r r') : Inv t r' := by
  obtain ⟨r1, a1, _, _, rfl⟩ := h.mid
  exact hI.ended a1

/-- **advancing to the next (sub)frame** from a consumed and flushed one with frames remaining -/
theorem advanceFrame_spec (cfg : Cfg) {t : TCfg} (r : R) (hI : Inv t r) (hcaf : r.sub.caf = true)
    (hrem : r.remaining ≠ 0) :
    match readUntilImageData cfg t r with
    | (r', .error e) => e.isErr = true ∧ Inv t r' ∧ Stable r r'
    | (r', .ok ()) => Inv t r' ∧ Stable r r' ∧ r'.remaining = r.remaining ∧ r'.sub.caf = false ∧
        ∃ i, r'.dec.info = some i ∧ i.fctl.isSome := by
  have hfl := (hI.flushed hcaf).resolve_left hrem
  have hsp := readUntilImageData_spec cfg t r hI.base hfl.2
  generalize readUntilImageData cfg t r = out at hsp
  obtain ⟨r1, res⟩ := out
  have hnf : ∀ {r1 : R}, NewFrame r r1 → Inv t r1 := by
    intro r1 hN
    have := Inv.newFrame (t := t) hN r1.remaining (by rw [hN.remaining]; omega) (hI.not_finished hrem) hI.cachedFacts
    exact this
  cases res with
  | error e =>
    obtain ⟨a1, a2⟩ := hsp
    rcases a2 with ⟨a2, a3⟩ | ⟨a2, _⟩
    · exact ⟨a1, hI.dn a2 (fun h => by rw [hcaf] at h; cases h) (fun _ => Or.inr a3), a2.stable⟩
    · exact ⟨a1, hI.refused a2, a2.stable⟩
  | ok u =>
    obtain ⟨i, hi, hs, hfc⟩ := hsp.info
    exact ⟨hnf hsp, hsp.stable, hsp.remaining, by rw [hs]; exact subNew_caf i, i, hi, hfc hfl.1⟩

/-- **`next_frame` inside the frame's image data**: `info()` is present; a buffer of the documented
    size holds every row of the (sub)frame, so `chunks_exact_mut` is never called with 0, the row
    loop delivers all remaining rows and `finish_decoding` finds `current_interlace_info = None` -/
theorem frameInto_spec (cfg : Cfg) {t : TCfg} (ht : t.Ok) (r1 : R) (buf : Bytes) (hI : Inv t r1) :
    match frameInto cfg t r1 buf with
    | (r', res, _) => Inv t r' ∧ Stable r1 r' ∧ res.isPanic = false := by
  obtain ⟨i, hi, hg⟩ := hI.info
  have hleg := hI.base.dinv.legal i hi
  unfold frameInto
  simp only [infoOf, hi]
  by_cases hneed : buf.length < outLineSize t i r1.flags i.width * i.height
  · rw [if_pos hneed]; exact ⟨hI, Stable.refl _, rfl⟩
  · rw [if_neg hneed]
    have hbuf : r1.sub.height * outLineSize t i r1.flags r1.sub.width ≤ buf.length := by
      have h1 := outLineSize_mono ht hleg r1.flags hg.wW
      have h2 : r1.sub.height * outLineSize t i r1.flags r1.sub.width ≤ i.height * outLineSize t i r1.flags i.width :=
        Nat.mul_le_mul hg.hH h1
      rw [Nat.mul_comm i.height] at h2
      omega
    have hbody : match frameBody cfg t r1 i.interlaced (outLineSize t i r1.flags r1.sub.width)
        (samplesOf (t.outColorDepth i r1.flags).1 * (t.outColorDepth i r1.flags).2) buf with
      | (r', buf', none) => Inv t r' ∧ Keep r1 r' ∧ r'.sub.cur = none ∧ buf'.length = buf.length
      | (r', buf', some e) => e.isErr = true ∧ Inv t r' ∧ Keep r1 r' ∧ buf'.length = buf.length := by
      unfold frameBody
      cases hil : i.interlaced with
      | true =>
        simp only [if_true]
        exact frameInterlaced_spec cfg ht i hil _ _ r1 buf hI hi rfl
          (by have := rowsLeft_le (hil ▸ hg.iter); omega) hbuf
      | false =>
        simp only [Bool.false_eq_true, if_false]
        rw [if_neg (by have := outLineSize_pos ht hleg r1.flags hg.w1; omega)]
        cases hcur : r1.sub.cur with
        | none =>
          simp only
          exact frameRows_spec cfg ht i hil _ _ _ r1 buf hI hi rfl (by omega) (fun _ => hcur) (fun h => by omega) hbuf
        | some ii =>
          have hc := hg.cur
          unfold CurOk at hc
          rw [hil, hcur] at hc
          cases ii with
          | adam7 _ _ _ => cases hit : r1.sub.iter <;> (rw [hit] at hc; exact hc.elim)
          | null l =>
            cases hit : r1.sub.iter with
            | adam7 _ => rw [hit] at hc; exact hc.elim
            | none n stop =>
              rw [hit] at hc; simp only at hc
              simp only [IInfo.line]
              exact frameRows_spec cfg ht i hil _ _ _ r1 buf hI hi rfl (by omega) (fun h => by omega) (fun _ => hcur) hbuf
    generalize frameBody cfg t r1 i.interlaced (outLineSize t i r1.flags r1.sub.width)
        (samplesOf (t.outColorDepth i r1.flags).1 * (t.outColorDepth i r1.flags).2) buf = out at hbody
    obtain ⟨r2, buf', res⟩ := out
    cases res with
    | some e => exact ⟨hbody.2.1, hbody.2.2.1.stable, Res.isErr_not_panic hbody.1⟩
    | none =>
      obtain ⟨b1, b2, b3, _⟩ := hbody
      simp only
      have hsp := finishDecoding_spec cfg r2 b1 b3
      generalize finishDecoding cfg r2 = out2 at hsp
      obtain ⟨r3, res3⟩ := out2
      cases res3 with
      | error e => exact ⟨hsp.2.1, b2.stable.trans hsp.2.2.1.stable, Res.isErr_not_panic hsp.1⟩
      | ok u => exact ⟨hsp.1, b2.stable.trans hsp.2.1.stable, rfl⟩

/-- `next_frame` when no row of the current frame is pending (`current_interlace_info = None`): the frame counter,
    then the advance to the next frame if the current one is consumed (mod.rs:407-415) -/
def nextFrameBuf0 (cfg : Cfg) (t : TCfg) (r : R) (buf : Bytes) : R × Res × Bytes :=
  if r.remaining = 0 then (r, .err .parameter "PolledAfterEndOfImage", buf) else
  let adv : R × Except Res Unit := if r.sub.caf then readUntilImageData cfg t r else (r, .ok ())
  match adv with
  | (r1, .error e) => (r1, e, buf)
  | (r1, .ok ()) => frameInto cfg t r1 buf

/-- `next_frame` (repair 429476f): pending rows of the current frame are finished first -/
theorem nextFrameBuf_eq (cfg : Cfg) (t : TCfg) (r : R) (buf : Bytes) :
    nextFrameBuf cfg t r buf = if r.sub.cur.isSome then frameInto cfg t r buf else nextFrameBuf0 cfg t r buf := rfl

/-- **rows pending**: `next_frame` is `frameInto`, whatever the frame counter and `consumed_and_flushed` say -/
theorem nextFrameBuf_some (cfg : Cfg) (t : TCfg) (r : R) (buf : Bytes) (h : r.sub.cur.isSome = true) :
    nextFrameBuf cfg t r buf = frameInto cfg t r buf := by
  rw [nextFrameBuf_eq, if_pos h]

theorem nextFrameBuf_none (cfg : Cfg) (t : TCfg) (r : R) (buf : Bytes) (h : r.sub.cur = none) :
    nextFrameBuf cfg t r buf = nextFrameBuf0 cfg t r buf := by
  rw [nextFrameBuf_eq, h]; rfl

/-- inside a frame that is not yet consumed (a frame remains): `next_frame` is `frameInto`, rows pending or not -/
theorem nextFrameBuf_inside (cfg : Cfg) (t : TCfg) (r : R) (buf : Bytes) (hrem : r.remaining ≠ 0)
    (hcaf : r.sub.caf = false) : nextFrameBuf cfg t r buf = frameInto cfg t r buf := by
  rw [nextFrameBuf_eq]
  split
  · rfl
  · unfold nextFrameBuf0
    rw [if_neg hrem, hcaf]
    simp only [Bool.false_eq_true, if_false]

/-- `next_frame` goes straight into the current frame: rows are pending, or the frame is not yet consumed (and a frame
    remains) -/
def Inside (r : R) : Prop := r.sub.cur.isSome = true ∨ (r.remaining ≠ 0 ∧ r.sub.caf = false)

theorem nextFrameBuf_of_inside (cfg : Cfg) (t : TCfg) (r : R) (buf : Bytes) (h : Inside r) :
    nextFrameBuf cfg t r buf = frameInto cfg t r buf := by
  rcases h with h | ⟨h1, h2⟩
  · exact nextFrameBuf_some cfg t r buf h
  · exact nextFrameBuf_inside cfg t r buf h1 h2

/-- the three ways into `next_frame`: straight into the current frame; no row pending and no frame left; no row pending,
    the frame consumed and a frame left -/
theorem inside_cases (r : R) :
    Inside r ∨ (r.sub.cur = none ∧ r.remaining = 0) ∨ (r.sub.cur = none ∧ r.remaining ≠ 0 ∧ r.sub.caf = true) := by
  cases hcur : r.sub.cur with
  | some ii => exact Or.inl (Or.inl (by rw [hcur]; rfl))
  | none =>
    by_cases hrem : r.remaining = 0
    · exact Or.inr (Or.inl ⟨rfl, hrem⟩)
    · cases hcaf : r.sub.caf with
      | false => exact Or.inl (Or.inr ⟨hrem, hcaf⟩)
      | true => exact Or.inr (Or.inr ⟨rfl, hrem, rfl⟩)

/-- no row pending and no frame left -/
theorem nextFrameBuf_polled (cfg : Cfg) (t : TCfg) (r : R) (buf : Bytes) (hcur : r.sub.cur = none) (hrem : r.remaining = 0) :
    nextFrameBuf cfg t r buf = (r, .err .parameter "PolledAfterEndOfImage", buf) := by
  rw [nextFrameBuf_none cfg t r buf hcur]
  unfold nextFrameBuf0
  rw [if_pos hrem]

/-- **`next_frame`** -/
theorem nextFrameBuf_spec (cfg : Cfg) {t : TCfg} (ht : t.Ok) (r : R) (buf : Bytes) (hI : Inv t r) :
    match nextFrameBuf cfg t r buf with
    | (r', res, _) => Inv t r' ∧ Stable r r' ∧ res.isPanic = false := by
  by_cases hc : r.sub.cur.isSome = true
  · rw [nextFrameBuf_some cfg t r buf hc]; exact frameInto_spec cfg ht r buf hI
  rw [nextFrameBuf_eq, if_neg hc]
  unfold nextFrameBuf0
  by_cases hrem : r.remaining = 0
  · rw [if_pos hrem]; exact ⟨hI, Stable.refl _, rfl⟩
  · rw [if_neg hrem]
    cases hcaf : r.sub.caf with
    | false =>
      simp only [Bool.false_eq_true, if_false]
      exact frameInto_spec cfg ht r buf hI
    | true =>
      simp only [if_true]
      have hsp := advanceFrame_spec cfg r hI hcaf hrem
      generalize readUntilImageData cfg t r = out at hsp
      obtain ⟨r1, res⟩ := out
      cases res with
      | error e => exact ⟨hsp.2.1, hsp.2.2, Res.isErr_not_panic hsp.1⟩
      | ok u =>
        simp only
        have h2 := frameInto_spec cfg ht r1 buf hsp.1
        generalize frameInto cfg t r1 buf = out2 at h2
        obtain ⟨r2, res2, buf2⟩ := out2
        exact ⟨h2.1, hsp.2.1.trans h2.2.1, h2.2.2⟩

/-- **`next_frame_info`**: no underflow, `finish_decoding` after `current_interlace_info = None`, and
    `frame_control.unwrap()` finds the `fcTL` of the `fdAT` sequence that was reached -/
theorem nextFrameInfo_spec (cfg : Cfg) {t : TCfg} (r : R) (hI : Inv t r) :
    match nextFrameInfo cfg t r with
    | (r', res) => Inv t r' ∧ Stable r r' ∧ res.isPanic = false := by
  unfold nextFrameInfo
  cases hcaf : r.sub.caf with
  | true =>
    simp only [if_true, Bool.not_true, Bool.false_eq_true, if_false]
    cases hrem : r.remaining with
    | zero => exact ⟨hI, Stable.refl _, rfl⟩
    | succ n =>
      simp only
      have hsp := advanceFrame_spec cfg r hI hcaf (by omega)
      generalize readUntilImageData cfg t r = out at hsp
      obtain ⟨r1, res⟩ := out
      cases res with
      | error e => exact ⟨hsp.2.1, hsp.2.2, Res.isErr_not_panic hsp.1⟩
      | ok u =>
        obtain ⟨a1, a2, _, _, i, hi, hfc⟩ := hsp
        simp only [infoOf, hi, bind, Option.bind]
        cases hf : i.fctl with
        | none => rw [hf] at hfc; cases hfc
        | some fc => exact ⟨a1, a2, rfl⟩
  | false =>
    simp only [Bool.false_eq_true, if_false, Bool.not_false, if_true]
    cases hrem : r.remaining - 1 with
    | zero => exact ⟨hI, Stable.refl _, rfl⟩
    | succ n =>
      simp only
      have hsp := finishDecoding_spec cfg { r with sub := { r.sub with cur := none } } hI.clearCur rfl
      generalize finishDecoding cfg { r with sub := { r.sub with cur := none } } = out at hsp
      obtain ⟨r1, res⟩ := out
      have hS0 : Stable r { r with sub := { r.sub with cur := none } } := ⟨rfl, rfl, rfl, rfl⟩
      cases res with
      | error e => exact ⟨hsp.2.1, hS0.trans hsp.2.2.1.stable, Res.isErr_not_panic hsp.1⟩
      | ok u =>
        obtain ⟨b1, b2, b3, _, _, b6⟩ := hsp
        simp only
        have hrem1 : r1.remaining + 1 = r.remaining := b6 hcaf
        have hcaf1 : r1.sub.caf = true := by rw [b3]
        have hsp2 := advanceFrame_spec cfg r1 b1 hcaf1 (by omega)
        generalize readUntilImageData cfg t r1 = out2 at hsp2
        obtain ⟨r2, res2⟩ := out2
        cases res2 with
        | error e => exact ⟨hsp2.2.1, (hS0.trans b2.stable).trans hsp2.2.2, Res.isErr_not_panic hsp2.1⟩
        | ok u =>
          obtain ⟨a1, a2, _, _, i, hi, hfc⟩ := hsp2
          simp only [infoOf, hi, bind, Option.bind]
          cases hf : i.fctl with
          | none => rw [hf] at hfc; cases hfc
          | some fc => exact ⟨a1, (hS0.trans b2.stable).trans a2, rfl⟩

/-- **`finish`** -/
theorem finish_spec (cfg : Cfg) {t : TCfg} (r : R) (hI : Inv t r) :
    match finish cfg r with
    | (r', res) => Inv t r' ∧ Stable r r' ∧ res.isPanic = false := by
  unfold finish
  by_cases hfin' : r.finished = true
  · rw [if_pos hfin']; exact ⟨hI, Stable.refl _, rfl⟩
  · rw [if_neg hfin']
    have hfin : r.finished = false := by cases h : r.finished <;> simp_all
    simp only
    obtain ⟨j, hj, hg⟩ := hI.info
    have hI0 : Inv t { r with remaining := 0, ub := UB.new, sub := { r.sub with cur := none, caf := true } } := by
      refine ⟨hI.base.congr rfl rfl rfl, ⟨j, hj, ⟨hg.w1, hg.wW, hg.h1, hg.hH, hg.rowlen, hg.iter, ?_, ?_⟩⟩, hI.idat,
        ?_, ?_, ?_, UB.inv_new, hI.cached⟩
      · unfold CurOk; simp only
      · unfold PrevOk; simp only
      · intro h; cases h
      · intro _; exact Or.inl rfl
      · intro h; simp only at h; rw [hfin] at h; cases h
    have hS0 : Stable r { r with remaining := 0, ub := UB.new, sub := { r.sub with cur := none, caf := true } } :=
      ⟨rfl, rfl, rfl, rfl⟩
    have hsp := readUntilEndOfInput_spec cfg _ _ (fuelOf_ge _) hI0.base
    generalize readUntilEndOfInput cfg
      (fuelOf { r with remaining := 0, ub := UB.new, sub := { r.sub with cur := none, caf := true } })
      { r with remaining := 0, ub := UB.new, sub := { r.sub with cur := none, caf := true } } = out at hsp
    obtain ⟨r1, res⟩ := out
    have hdn : ∀ {r1 : R}, DNOk { r with remaining := 0, ub := UB.new, sub := { r.sub with cur := none, caf := true } } r1 →
        Inv t r1 := fun h => hI0.dn h (fun h => by cases h) (fun _ => Or.inl rfl)
    cases res with
    | error e => exact ⟨hdn hsp.2, hS0.trans hsp.2.stable, Res.isErr_not_panic hsp.1⟩
    | ok u =>
      obtain ⟨a1, a2⟩ := hsp
      have hI1 := hdn a1
      obtain ⟨f1, _, f3, _⟩ := a1.frame.fields
      obtain ⟨k, hk, hg1⟩ := hI1.info
      refine ⟨⟨hI1.base.congr rfl rfl rfl, ⟨k, hk, ⟨hg1.w1, hg1.wW, hg1.h1, hg1.hH, hg1.rowlen, hg1.iter, hg1.cur, hg1.prev⟩⟩,
        hI1.idat, hI1.live, hI1.flushed, ?_, hI1.ub, hI1.cached⟩, (hS0.trans a1.stable).trans ⟨rfl, rfl, rfl, rfl⟩, rfl⟩
      intro _
      show r1.sub.caf = true ∧ r1.remaining = 0 ∧ r1.sub.cur = none
      rw [f1, f3]; exact ⟨rfl, rfl, rfl⟩

/-! ## Part E: `read_info`, `step`, `run` -/

/-- invariant of a `Decoder` (before `read_info` built the `Reader`) -/
structure PreInv (r : R) : Prop where
  base : Base r
  mode : OutMode r
  cached : r.cached = none
  finished : r.finished = false

theorem PreInv.dn {r r' : R} (hP : PreInv r) (hok : DNOk r r') (hm : OutMode r') : PreInv r' := by
  obtain ⟨_, _, _, f4, f5, _⟩ := hok.frame.fields
  exact ⟨hok.base, hm, f5.trans hP.cached, f4.trans hP.finished⟩

/-- **`read_info`**: either it fails with an error, or it returns a `Reader` satisfying the invariant -/
theorem readInfo'_spec (cfg : Cfg) (t : TCfg) (r : R) (hP : PreInv r) (hnr : r.isReader = false) :
    match readInfo' cfg t r with
    | (r', res) => (res = .header ∧ Inv t r' ∧ r'.isReader = true ∧ r'.dead = r.dead ∧ r'.input = r.input ∧
          ∃ i, r'.dec.info = some i ∧ sizeFits (t.outColorDepth i r'.flags) i.width i.height = true) ∨
        res.isErr = true := by
  unfold readInfo'
  rw [hnr]
  simp only [Bool.false_eq_true, if_false]
  have hsp := readHeaderInfo_spec cfg (fuelOf r) r (fuelOf_ge r) hP.base hP.mode
  generalize readHeaderInfo cfg (fuelOf r) r = out at hsp
  obtain ⟨r1, res⟩ := out
  cases res with
  | error e => exact Or.inr hsp.1
  | ok u =>
    obtain ⟨a1, a2, a3⟩ := hsp
    simp only
    cases hi : r1.dec.info with
    | none => rw [hi] at a3; cases a3
    | some i =>
      simp only [infoOf, hi]
      split
      · split
        · exact Or.inr rfl
        · have hP1 := hP.dn a1 a2
          obtain ⟨_, _, _, _, _, _, _, f8, f9, _⟩ := a1.frame.fields
          have hB1 : Base { r1 with isReader := true } := hP1.base.congr rfl rfl rfl
          have hsp2 := readUntilImageData_spec cfg t { r1 with isReader := true } hB1 a2
          generalize readUntilImageData cfg t { r1 with isReader := true } = out2 at hsp2
          obtain ⟨r2, res2⟩ := out2
          cases res2 with
          | error e => exact Or.inr hsp2.1
          | ok u =>
            simp only
            obtain ⟨i2, hi2, hs2, _⟩ := hsp2.info
            simp only [hi2]
            split
            · rename_i hfit
              have hwh : i2.width = i.width ∧ i2.height = i.height := by
                obtain ⟨i', hi', hc, _⟩ := hsp2.step.evo i hi
                rw [hi2] at hi'; cases hi'
                simp only [Info.core, Prod.mk.injEq] at hc
                exact ⟨hc.1, hc.2.1⟩
              refine Or.inl ⟨by first | rfl | trivial, ?_, hsp2.isReader, hsp2.dead.trans f8, hsp2.input.trans f9,
                ⟨i2, hi2, by rw [hwh.1, hwh.2]; exact hfit⟩⟩
              apply Inv.newFrame hsp2 _ _ hP1.finished
              · intro snap hsn
                have : r1.cached = none := hP1.cached
                rw [show ({ r1 with isReader := true } : R).cached = r1.cached from rfl, this] at hsn
                cases hsn
              · split
                · exact Nat.le_refl 1
                · exact Nat.le_max_left _ _
            · exact Or.inr rfl
      · exact Or.inr rfl

/-- **`next_frame` as an operation of the model** (buffer of the documented size) -/
theorem nextFrameOp_spec (cfg : Cfg) {t : TCfg} (ht : t.Ok) (r : R) (p : UInt8) (hI : Inv t r) :
    Inv t (nextFrameOp cfg t r p).1 ∧ Stable r (nextFrameOp cfg t r p).1 ∧ (nextFrameOp cfg t r p).2.isPanic = false := by
  unfold nextFrameOp
  obtain ⟨i, hi, _⟩ := hI.info
  simp only [infoOf, hi]
  have hsp := nextFrameBuf_spec cfg ht { r with pendingBuf := none }
    (callerBuf r (outLineSize t i r.flags i.width * i.height) p) (hI.setPending none)
  generalize nextFrameBuf cfg t { r with pendingBuf := none }
    (callerBuf r (outLineSize t i r.flags i.width * i.height) p) = out at hsp
  obtain ⟨r1, res, buf'⟩ := out
  obtain ⟨b1, b2, b3⟩ := hsp
  have hS : Stable r r1 := (⟨rfl, rfl, rfl, rfl⟩ : Stable r { r with pendingBuf := none }).trans b2
  simp only
  split
  · exact ⟨b1.setPending _, hS.trans ⟨rfl, rfl, rfl, rfl⟩, rfl⟩
  · exact ⟨b1, hS, b3⟩

/-- the state of the model between calls: no `Reader` can exist any more (`dead`), a `Reader` with its
    invariant, or a `Decoder` with its invariant -/
def RInv (t : TCfg) (r : R) : Prop :=
  (r.dead = true ∧ r.isReader = false) ∨ (r.dead = false ∧ r.isReader = true ∧ Inv t r) ∨
  (r.dead = false ∧ r.isReader = false ∧ PreInv r)

theorem Inv.setVisible {t : TCfg} {r : R} (hI : Inv t r) (v : Nat)
    (hv : min r.visible r.input.length ≤ min v r.input.length) : Inv t { r with visible := v } := by
  obtain ⟨j, hj, hg⟩ := hI.info
  exact ⟨hI.base.congr rfl rfl rfl hv, ⟨j, hj, ⟨hg.w1, hg.wW, hg.h1, hg.hH, hg.rowlen, hg.iter, hg.cur, hg.prev⟩⟩, hI.idat,
    hI.live, hI.flushed, hI.fin, hI.ub, hI.cached⟩

/-- **`step_inv` / `step_no_panic`**: every public call (and every growth of the visible input)
    keeps the invariant and does not panic — provided `read_info` is not called on a reader that
    already exists (which the Rust type system excludes: `read_info(self)`) -/
theorem step_spec (cfg : Cfg) {t : TCfg} (ht : t.Ok) (r : R) (op : Op) (hR : RInv t r)
    (hop : op = .readInfo → r.isReader = false) :
    RInv t (step cfg t r op).1 ∧ (step cfg t r op).2.isPanic = false ∧
    (op ≠ .readInfo → (step cfg t r op).1.isReader = r.isReader) := by
  have hreader : ∀ {r0 r' : R} {res : Res} {P : Prop}, r0.dead = false → r0.isReader = true →
      Inv t r' ∧ Stable r0 r' ∧ res.isPanic = false → RInv t r' ∧ res.isPanic = false ∧ (P → r'.isReader = r0.isReader) :=
    fun h1 h2 h3 => ⟨Or.inr (Or.inl ⟨h3.2.1.dead.trans h1, h3.2.1.isReader.trans h2, h3.1⟩), h3.2.2, fun _ => h3.2.1.isReader⟩
  cases op with
  | grow n =>
    simp only [step]
    refine ⟨?_, by first | rfl | trivial, fun _ => by first | rfl | trivial⟩
    rcases hR with h | ⟨h1, h2, h3⟩ | ⟨h1, h2, h3⟩
    · exact Or.inl h
    · exact Or.inr (Or.inl ⟨h1, h2, h3.setVisible _ (by omega)⟩)
    · exact Or.inr (Or.inr ⟨h1, h2, ⟨h3.base.congr rfl rfl rfl (by simp only; omega), h3.mode, h3.cached, h3.finished⟩⟩)
  | readInfo =>
    simp only [step]
    have hnr := hop rfl
    rcases hR with ⟨h1, h2⟩ | ⟨h1, h2, _⟩ | ⟨h1, h2, h3⟩
    · rw [if_pos h1]; exact ⟨Or.inl ⟨h1, h2⟩, rfl, fun h => absurd rfl h⟩
    · rw [hnr] at h2; cases h2
    · rw [if_neg (by rw [h1]; simp)]
      unfold readInfo
      have hsp := readInfo'_spec cfg t r h3 hnr
      generalize readInfo' cfg t r = out at hsp
      obtain ⟨r1, res⟩ := out
      rcases hsp with ⟨rfl, b1, b2, b3, _⟩ | hsp
      · exact ⟨Or.inr (Or.inl ⟨b3.trans h1, b2, b1⟩), rfl, fun h => absurd rfl h⟩
      · cases res <;> first | (cases hsp; done) | exact ⟨Or.inl ⟨rfl, rfl⟩, rfl, fun h => absurd rfl h⟩
  | readHeader =>
    simp only [step]
    rcases hR with ⟨h1, h2⟩ | ⟨h1, h2, h3⟩ | ⟨h1, h2, h3⟩
    · rw [if_pos (Or.inr h1)]; exact ⟨Or.inl ⟨h1, h2⟩, rfl, fun _ => rfl⟩
    · rw [if_pos (Or.inl h2)]; exact ⟨Or.inr (Or.inl ⟨h1, h2, h3⟩), rfl, fun _ => rfl⟩
    · rw [if_neg (by rw [h1, h2]; simp)]
      have hsp := readHeaderInfo_spec cfg (fuelOf r) r (fuelOf_ge r) h3.base h3.mode
      generalize readHeaderInfo cfg (fuelOf r) r = out at hsp
      obtain ⟨r1, res⟩ := out
      cases res with
      | error e =>
        obtain ⟨_, _, _, _, _, _, f7, f8, _⟩ := hsp.2.1.frame.fields
        exact ⟨Or.inr (Or.inr ⟨f8.trans h1, f7.trans h2, h3.dn hsp.2.1 hsp.2.2⟩), Res.isErr_not_panic hsp.1, fun _ => f7⟩
      | ok u =>
        obtain ⟨_, _, _, _, _, _, f7, f8, _⟩ := hsp.1.frame.fields
        exact ⟨Or.inr (Or.inr ⟨f8.trans h1, f7.trans h2, h3.dn hsp.1 hsp.2.1⟩), rfl, fun _ => f7⟩
  | nextFrame p =>
    simp only [step]
    rcases hR with ⟨h1, h2⟩ | ⟨h1, h2, h3⟩ | ⟨h1, h2, h3⟩
    · rw [if_pos (by rw [h2]; rfl)]; exact ⟨Or.inl ⟨h1, h2⟩, rfl, fun _ => rfl⟩
    · rw [if_neg (by rw [h2]; simp)]
      exact hreader h1 h2 (nextFrameOp_spec cfg ht r p h3)
    · rw [if_pos (by rw [h2]; rfl)]; exact ⟨Or.inr (Or.inr ⟨h1, h2, h3⟩), rfl, fun _ => rfl⟩
  | nextRow =>
    simp only [step]
    rcases hR with ⟨h1, h2⟩ | ⟨h1, h2, h3⟩ | ⟨h1, h2, h3⟩
    · rw [if_pos (by rw [h2]; rfl)]; exact ⟨Or.inl ⟨h1, h2⟩, rfl, fun _ => rfl⟩
    · rw [if_neg (by rw [h2]; simp)]
      obtain ⟨i, hi, _⟩ := h3.info
      have hsp := nextInterlacedRow_spec cfg ht { r with pendingBuf := none } i (h3.setPending none) hi
      generalize nextInterlacedRow cfg t { r with pendingBuf := none } = out at hsp
      obtain ⟨r1, res⟩ := out
      have hS : Stable r r1 := (⟨rfl, rfl, rfl, rfl⟩ : Stable r { r with pendingBuf := none }).trans hsp.2.1.stable
      exact hreader h1 h2 ⟨hsp.1, hS, hsp.2.2.1⟩
    · rw [if_pos (by rw [h2]; rfl)]; exact ⟨Or.inr (Or.inr ⟨h1, h2, h3⟩), rfl, fun _ => rfl⟩
  | readRow =>
    simp only [step]
    rcases hR with ⟨h1, h2⟩ | ⟨h1, h2, h3⟩ | ⟨h1, h2, h3⟩
    · rw [if_pos (by rw [h2]; rfl)]; exact ⟨Or.inl ⟨h1, h2⟩, rfl, fun _ => rfl⟩
    · rw [if_neg (by rw [h2]; simp)]
      obtain ⟨i, hi, hg⟩ := h3.info
      simp only [infoOf, hi]
      have hsp := readRow_spec cfg ht { r with pendingBuf := none } (outLineSize t i r.flags i.width) i
        (h3.setPending none) hi (outLineSize_mono ht (h3.base.dinv.legal i hi) r.flags hg.wW)
      generalize readRow cfg t { r with pendingBuf := none } (outLineSize t i r.flags i.width) = out at hsp
      obtain ⟨r1, res⟩ := out
      have hS : Stable r r1 := (⟨rfl, rfl, rfl, rfl⟩ : Stable r { r with pendingBuf := none }).trans hsp.2.1.stable
      exact hreader h1 h2 ⟨hsp.1, hS, hsp.2.2.1⟩
    · rw [if_pos (by rw [h2]; rfl)]; exact ⟨Or.inr (Or.inr ⟨h1, h2, h3⟩), rfl, fun _ => rfl⟩
  | nextFrameInfo =>
    simp only [step]
    rcases hR with ⟨h1, h2⟩ | ⟨h1, h2, h3⟩ | ⟨h1, h2, h3⟩
    · rw [if_pos (by rw [h2]; rfl)]; exact ⟨Or.inl ⟨h1, h2⟩, rfl, fun _ => rfl⟩
    · rw [if_neg (by rw [h2]; simp)]
      have hsp := nextFrameInfo_spec cfg { r with pendingBuf := none } (h3.setPending none)
      generalize nextFrameInfo cfg t { r with pendingBuf := none } = out at hsp
      obtain ⟨r1, res⟩ := out
      have hS : Stable r r1 := (⟨rfl, rfl, rfl, rfl⟩ : Stable r { r with pendingBuf := none }).trans hsp.2.1
      exact hreader h1 h2 ⟨hsp.1, hS, hsp.2.2⟩
    · rw [if_pos (by rw [h2]; rfl)]; exact ⟨Or.inr (Or.inr ⟨h1, h2, h3⟩), rfl, fun _ => rfl⟩
  | finish =>
    simp only [step]
    rcases hR with ⟨h1, h2⟩ | ⟨h1, h2, h3⟩ | ⟨h1, h2, h3⟩
    · rw [if_pos (by rw [h2]; rfl)]; exact ⟨Or.inl ⟨h1, h2⟩, rfl, fun _ => rfl⟩
    · rw [if_neg (by rw [h2]; simp)]
      have hsp := finish_spec cfg { r with pendingBuf := none } (h3.setPending none)
      generalize finish cfg { r with pendingBuf := none } = out at hsp
      obtain ⟨r1, res⟩ := out
      have hS : Stable r r1 := (⟨rfl, rfl, rfl, rfl⟩ : Stable r { r with pendingBuf := none }).trans hsp.2.1
      exact hreader h1 h2 ⟨hsp.1, hS, hsp.2.2⟩
    · rw [if_pos (by rw [h2]; rfl)]; exact ⟨Or.inr (Or.inr ⟨h1, h2, h3⟩), rfl, fun _ => rfl⟩

/-- the state `Decoder::new` creates (model: `R.init`), for an input shorter than 4 GiB -/
theorem rinv_init (t : TCfg) (opts : Options) (limit : Nat) (flags : Flags) (input : Bytes) (visible : Nat)
    (hlen : input.length < 2 ^ 32) : RInv t (R.init opts limit flags input visible) := by
  refine Or.inr (Or.inr ⟨rfl, rfl, ⟨⟨rfl, dinv_new opts limit, fun _ => ?_, hlen, Nat.zero_le _⟩,
    Or.inr (outSeq_new opts limit), rfl, rfl⟩⟩)
  show seqVal _ + fresh _ ≤ 0
  simp [seqVal, fresh, R.init]

/-- `read_info` is called at most once (the Rust type system: `Decoder::read_info(self)`), and not at
    all once a `Reader` exists -/
def OpsOk (isReader : Bool) (ops : List Op) : Prop :=
  (isReader = true → Op.readInfo ∉ ops) ∧ ops.count Op.readInfo ≤ 1

theorem run_acc (cfg : Cfg) (t : TCfg) : ∀ (ops : List Op) (r : R) (acc : List Res),
    ops.foldl (fun (a : R × List Res) op => let (r', x) := step cfg t a.1 op; (r', a.2 ++ [x])) (r, acc) =
      ((run cfg t r ops).1, acc ++ (run cfg t r ops).2) := by
  intro ops
  induction ops with
  | nil => intro r acc; simp [run]
  | cons op ops ih =>
    intro r acc
    simp only [run, List.foldl_cons, List.nil_append]
    rw [ih, ih (step cfg t r op).1 [(step cfg t r op).2]]
    simp [run]

/-- **`run_no_panic`**: from any state satisfying the invariant, no call sequence with at most one
    `read_info` produces a panic, and the invariant holds at the end -/
theorem run_no_panic (cfg : Cfg) {t : TCfg} (ht : t.Ok) : ∀ (ops : List Op) (r : R), RInv t r → OpsOk r.isReader ops →
    RInv t (run cfg t r ops).1 ∧ ∀ res ∈ (run cfg t r ops).2, res.isPanic = false := by
  intro ops
  induction ops with
  | nil => intro r hR _; exact ⟨hR, by simp [run]⟩
  | cons op ops ih =>
    intro r hR hops
    have hstep := step_spec cfg ht r op hR (fun h => by
      cases hr : r.isReader with
      | false => rfl
      | true => exact absurd (by rw [h]; exact List.mem_cons_self) (hops.1 hr))
    have hops' : OpsOk (step cfg t r op).1.isReader ops := by
      refine ⟨fun hr => ?_, ?_⟩
      · by_cases hop : op = .readInfo
        · subst hop
          have := hops.2
          rw [List.count_cons_self] at this
          exact fun hm => by have := List.count_pos_iff.mpr hm; omega
        · rw [hstep.2.2 hop] at hr
          exact fun hm => hops.1 hr (List.mem_cons_of_mem _ hm)
      · have := hops.2
        rw [List.count_cons] at this
        omega
    obtain ⟨h1, h2⟩ := ih (step cfg t r op).1 hstep.1 hops'
    have hrun : run cfg t r (op :: ops) =
        ((run cfg t (step cfg t r op).1 ops).1, (step cfg t r op).2 :: (run cfg t (step cfg t r op).1 ops).2) := by
      simp only [run, List.foldl_cons, List.nil_append]
      rw [run_acc]
      simp [run]
    rw [hrun]
    refine ⟨h1, ?_⟩
    intro res hres
    simp only [List.mem_cons] at hres
    rcases hres with rfl | hres
    · exact hstep.2.1
    · exact h2 res hres

end Png.Reader
