import PngVerif.Model.Transform
/-!
# Proofs about the output transformations (`PngVerif/Model/Transform.lean`)

Helper lemmas for `PngVerif/Props/C08.lean`.  Structure: generic list lemmas; sizes; bytes and
16-bit samples; chunk loops; the transform families (colour key 8/16 bit, strip16, copy, sub-byte
unpacking, gray expansion, memo palette — pinned-tree function and repaired function —, palette
expansion); selection; the combined row theorem (for every PLTE length); sizes; defect D1 on the
pinned tree; corner cases.
-/
namespace Png.Transform
open Png

/-! ### generic list lemmas -/

theorem flatMap_congr' {α β : Type} {l : List α} {f g : α → List β} (h : ∀ x ∈ l, f x = g x) :
    l.flatMap f = l.flatMap g := by
  induction l with
  | nil => rfl
  | cons a t ih =>
    simp only [List.flatMap_cons]
    rw [h a (by simp), ih (fun x hx => h x (by simp [hx]))]

theorem chunksN_map {α β : Type} (f : α → β) (k : Nat) : ∀ (n : Nat) (l : List α),
    chunksN k n (l.map f) = (chunksN k n l).map (·.map f) := by
  intro n
  induction n with
  | zero => intro l; rfl
  | succ n ih => intro l; simp [chunksN, ← List.map_take, ← List.map_drop, ih]

theorem chunksN_flatMap_map {α β : Type} (h : α → β) (k : Nat) : ∀ (n : Nat) (l : List α),
    (chunksN k n l).flatMap (·.map h) = (l.take (n * k)).map h := by
  intro n
  induction n with
  | zero => intro l; simp [chunksN]
  | succ n ih =>
    intro l
    simp only [chunksN, List.flatMap_cons, ih]
    rw [← List.map_append]
    congr 1
    rw [Nat.succ_mul, Nat.add_comm, List.take_add]

theorem chunksN_flatMap_flatMap {α β : Type} (h : α → List β) (k : Nat) : ∀ (n : Nat) (l : List α),
    (chunksN k n l).flatMap (·.flatMap h) = (l.take (n * k)).flatMap h := by
  intro n
  induction n with
  | zero => intro l; simp [chunksN]
  | succ n ih =>
    intro l
    simp only [chunksN, List.flatMap_cons, ih]
    rw [← List.flatMap_append]
    congr 1
    rw [Nat.succ_mul, Nat.add_comm, List.take_add]

theorem chunksN_one {α : Type} : ∀ (n : Nat) (l : List α), n ≤ l.length →
    chunksN 1 n l = (l.take n).map (fun x => [x]) := by
  intro n
  induction n with
  | zero => intro l _; simp [chunksN]
  | succ n ih =>
    intro l hl
    cases l with
    | nil => simp at hl
    | cons a t =>
      simp only [chunksN, List.take_succ_cons, List.map_cons, List.drop_succ_cons, List.drop_zero]
      rw [ih t (by simpa using hl)]
      simp

theorem mem_chunksN_length {α : Type} (k : Nat) : ∀ (n : Nat) (l : List α), n * k ≤ l.length →
    ∀ px ∈ chunksN k n l, px.length = k := by
  intro n
  induction n with
  | zero => intro l _ px h; simp [chunksN] at h
  | succ n ih =>
    intro l hl px h
    rw [Nat.succ_mul] at hl
    simp only [chunksN, List.mem_cons] at h
    rcases h with h | h
    · subst h; simp; omega
    · exact ih (l.drop k) (by simp; omega) px h

/-! ### sizes -/

theorem rawRowLength_eq (ct : ColorType) (d : BitDepth) (w : Nat) :
    rawRowLengthFromWidth ct d w - 1 = specRowBytes ct d w := by
  simp only [rawRowLengthFromWidth, specRowBytes]
  generalize w * ct.samples = s
  cases d <;> simp only [BitDepth.toNat, Nat.reduceDiv]
  case one => by_cases h : s % 8 > 0 <;> simp only [h, ↓reduceIte] <;> omega
  case two => by_cases h : s % 4 > 0 <;> simp only [h, ↓reduceIte] <;> omega
  case four => by_cases h : s % 2 > 0 <;> simp only [h, ↓reduceIte] <;> omega
  all_goals omega

theorem specExpandedDepth_cases (info : Info) (f : Flags) :
    specExpandedDepth info f = 8 ∨ specExpandedDepth info f = info.bitDepth.toNat := by
  unfold specExpandedDepth; split <;> simp

/-- `output_color_type` never panics and is the documented output type -/
theorem outputColorType_eq (info : Info) (f : Flags) :
    ∃ d, outputColorType info f = .ok (specOutputColor info f, d) ∧ d.toNat = specOutputDepth info f := by
  obtain ⟨ct, bd, pal, trns⟩ := info
  obtain ⟨e, s, a⟩ := f
  cases bd <;> cases e <;> cases s <;> cases a <;> cases ct <;> cases trns <;>
    simp [outputColorType, specOutputColor, specOutputDepth, specExpandedDepth, Flags.isIdentity,
      Flags.doExpand, addAlpha, BitDepth.toNat, BitDepth.ofNat?]

theorem outputLineSize_eq (info : Info) (f : Flags) (w : Nat) :
    outputLineSize info f w = .ok (specOutputLineSize info f w) := by
  obtain ⟨d, h, hd⟩ := outputColorType_eq info f
  simp only [outputLineSize, h, rawRowLength_eq, specRowBytes, specOutputLineSize, hd]

theorem outputBufferSize_eq (info : Info) (f : Flags) (w h : Nat)
    (hfit : specOutputLineSize info f w * h < 2 ^ 64) :
    outputBufferSize info f w h = .ok (specOutputLineSize info f w * h) := by
  simp only [outputBufferSize, outputLineSize_eq, hfit, if_true]

theorem toUInt8_toNat (x : UInt8) : x.toNat.toUInt8 = x := by
  apply UInt8.toNat_inj.mp; simp

theorem map_toUInt8_toNat (l : Bytes) : (l.map (·.toNat)).map (·.toUInt8) = l := by
  induction l with
  | nil => rfl
  | cons a t ih => simp at ih ⊢; exact ih

theorem map_toNat_inj {a b : Bytes} (h : a.map (·.toNat) = b.map (·.toNat)) : a = b := by
  have := congrArg (List.map (·.toUInt8)) h
  simpa only [map_toUInt8_toNat] using this

/-! ### 16-bit samples -/

theorem be16_length : ∀ (n : Nat) (l : Bytes), l.length = n → (be16 l).length = n / 2 := by
  intro n
  induction n using Nat.strongRecOn with
  | _ n ih =>
    intro l hl
    match l, hl with
    | [], hl => simp [be16] at hl ⊢; omega
    | [_], hl => simp [be16] at hl ⊢; omega
    | h :: lo :: rest, hl =>
      simp only [be16, List.length_cons] at hl ⊢
      rw [ih (n - 2) (by omega) rest (by omega)]; omega

theorem be16_take : ∀ (k : Nat) (l : Bytes), be16 (l.take (2 * k)) = (be16 l).take k := by
  intro k
  induction k with
  | zero => intro l; simp [be16]
  | succ k ih =>
    intro l
    match l with
    | [] => simp [be16]
    | [_] => rw [show 2 * (k + 1) = (2 * k + 1) + 1 by omega]; simp [be16]
    | h :: lo :: rest =>
      rw [show 2 * (k + 1) = (2 * k + 1) + 1 by omega]
      simp only [List.take_succ_cons, be16, ih]

theorem be16_drop : ∀ (k : Nat) (l : Bytes), be16 (l.drop (2 * k)) = (be16 l).drop k := by
  intro k
  induction k with
  | zero => intro l; simp
  | succ k ih =>
    intro l
    match l with
    | [] => simp [be16]
    | [_] => rw [show 2 * (k + 1) = (2 * k + 1) + 1 by omega]; simp [be16]
    | h :: lo :: rest =>
      rw [show 2 * (k + 1) = (2 * k + 1) + 1 by omega]
      simp only [List.drop_succ_cons, be16, ih]

theorem chunksN_be16 (k : Nat) : ∀ (n : Nat) (l : Bytes),
    chunksN k n (be16 l) = (chunksN (2 * k) n l).map be16 := by
  intro n
  induction n with
  | zero => intro l; rfl
  | succ n ih => intro l; simp only [chunksN, List.map_cons, be16_take, be16_drop, ← ih]

theorem be16_inj : ∀ (n : Nat) (a b : Bytes), a.length = 2 * n → b.length = 2 * n → be16 a = be16 b → a = b := by
  intro n
  induction n with
  | zero => intro a b ha hb _; simp at ha hb; simp [ha, hb]
  | succ n ih =>
    intro a b ha hb h
    match a, b, ha, hb with
    | h1 :: l1 :: ra, h2 :: l2 :: rb, ha, hb =>
      simp only [be16, List.cons.injEq] at h
      have e1 := h1.toNat_lt; have e2 := l1.toNat_lt; have e3 := h2.toNat_lt; have e4 := l2.toNat_lt
      have hh : h1 = h2 := UInt8.toNat_inj.mp (by omega)
      have hl : l1 = l2 := UInt8.toNat_inj.mp (by omega)
      simp only [List.length_cons] at ha hb
      rw [hh, hl, ih ra rb (by omega) (by omega) h.2]

theorem highBytes_eq : ∀ (n : Nat) (l : Bytes), l.length = n →
    highBytes l = (be16 l).map (fun v => (v / 256).toUInt8) := by
  intro n
  induction n using Nat.strongRecOn with
  | _ n ih =>
    intro l hl
    match l, hl with
    | [], _ => simp [be16, highBytes]
    | [_], _ => simp [be16, highBytes]
    | h :: lo :: rest, hl =>
      simp only [be16, highBytes, List.map_cons, List.length_cons] at hl ⊢
      rw [ih (n - 2) (by omega) rest (by omega)]
      have e2 := lo.toNat_lt
      rw [show (h.toNat * 256 + lo.toNat) / 256 = h.toNat by omega, toUInt8_toNat]

theorem be16_roundtrip : ∀ (n : Nat) (l : Bytes), l.length = 2 * n →
    (be16 l).flatMap (fun v => [(v / 256).toUInt8, (v % 256).toUInt8]) = l := by
  intro n
  induction n with
  | zero => intro l hl; simp at hl; simp [hl, be16]
  | succ n ih =>
    intro l hl
    match l, hl with
    | h :: lo :: rest, hl =>
      simp only [List.length_cons] at hl
      simp only [be16, List.flatMap_cons, ih rest (by omega)]
      have e2 := lo.toNat_lt
      rw [show (h.toNat * 256 + lo.toNat) / 256 = h.toNat by omega,
          show (h.toNat * 256 + lo.toNat) % 256 = lo.toNat by omega, toUInt8_toNat, toUInt8_toNat]
      rfl

theorem samples_pos (ct : ColorType) : 0 < ct.samples := by cases ct <;> simp [ColorType.samples]

/-! ### chunk loops -/

theorem zipChunks_eq (a b : Nat) (g : Bytes → Bytes) : ∀ (n : Nat) (inp out : Bytes),
    zipChunks a b g n inp out = (chunksN a n inp).flatMap g ++ out.drop (n * b) := by
  intro n
  induction n with
  | zero => intro inp out; simp [zipChunks, chunksN]
  | succ n ih =>
    intro inp out
    simp only [zipChunks, chunksN, List.flatMap_cons, ih, List.drop_drop, List.append_assoc]
    rw [show b + n * b = (n + 1) * b by rw [Nat.succ_mul, Nat.add_comm]]

theorem zipChunks_exact (a b : Nat) (g : Bytes → Bytes) (w : Nat) (inp out : Bytes)
    (ha : 0 < a) (hb : 0 < b) (hin : inp.length = w * a) (hout : out.length = w * b) :
    zipChunks a b g (zipChunksCount a b inp out) inp out = (chunksN a w inp).flatMap g := by
  have hn : zipChunksCount a b inp out = w := by
    simp [zipChunksCount, hin, hout, Nat.mul_div_cancel _ ha, Nat.mul_div_cancel _ hb]
  rw [hn, zipChunks_eq, List.drop_of_length_le (by omega), List.append_nil]

/-! ### colour key, 8 bit -/

theorem isKey_iff8 (info : Info) (px : Bytes) (h16 : info.bitDepth ≠ .sixteen) :
    (specKey info = some (px.map (·.toNat))) ↔ isKey info.trns px = true := by
  unfold specKey isKey
  cases info.trns with
  | none => simp
  | some t =>
    simp only [Option.map_some, h16, if_false, Option.some.injEq, beq_iff_eq]
    constructor
    · intro h; exact map_toNat_inj h
    · intro h; rw [h]

theorem map_ofNat_toNat (l : Bytes) :
    List.map ((fun x => UInt8.ofNat x) ∘ fun x : UInt8 => x.toNat) l = l := by
  induction l with
  | nil => rfl
  | cons a t ih => simp at ih ⊢; exact ih

theorem specPixel_key8 (info : Info) (f : Flags) (px : Bytes)
    (hd : info.bitDepth = .eight) (hct : info.colorType = .gray ∨ info.colorType = .rgb)
    (he : f.doExpand = true) (ha : addAlpha info f = true) :
    serialize (specOutputDepth info f) (specPixel info f (px.map (·.toNat)))
      = px ++ [if isKey info.trns px then 0 else 0xFF] := by
  have hk := isKey_iff8 info px (by simp [hd])
  have hed : specExpandedDepth info f = 8 := by simp [specExpandedDepth, hd, BitDepth.toNat]
  simp only [specOutputDepth, specPixel, hed, serialize]
  simp only [specExpandPixel, he, ha, if_true, hd, BitDepth.toNat, hed]
  rcases hct with h | h <;> simp only [h] <;>
  · by_cases hkey : isKey info.trns px = true
    · simp [hkey, hk.mpr hkey, map_ofNat_toNat]
    · simp [hkey, mt hk.mp hkey, map_ofNat_toNat]

/-- `expand_trns_line` = documented conversion (8-bit grayscale / RGB with colour key or ALPHA) -/
theorem expandTrnsLine_eq_spec (info : Info) (f : Flags) (w : Nat) (row out : Bytes)
    (hd : info.bitDepth = .eight) (hct : info.colorType = .gray ∨ info.colorType = .rgb)
    (he : f.doExpand = true) (ha : addAlpha info f = true)
    (hrow : row.length = w * info.colorType.samples)
    (hout : out.length = w * (info.colorType.samples + 1)) :
    expandTrnsLine info row out = specConvert info f row w := by
  unfold expandTrnsLine
  rw [zipChunks_exact _ _ _ w row out (samples_pos _) (by omega) hrow hout]
  simp only [specConvert, hd, BitDepth.toNat, specSamples, chunksN_map, List.flatMap_map]
  simp only [show ¬ (8 < 8 ∧ ¬ f.doExpand = true) by omega, if_false]
  apply flatMap_congr'
  intro px _
  exact (specPixel_key8 info f px hd hct he ha).symm

/-! ### colour key, 16 bit -/

theorem isKey_iff16 (info : Info) (px : Bytes) (n : Nat) (h16 : info.bitDepth = .sixteen)
    (hpx : px.length = 2 * n) (hkey : ∀ t, info.trns = some t → t.length = 2 * n) :
    (specKey info = some (be16 px)) ↔ isKey info.trns px = true := by
  unfold specKey isKey
  cases ht : info.trns with
  | none => simp
  | some t =>
    simp only [Option.map_some, h16, if_true, Option.some.injEq, beq_iff_eq]
    constructor
    · intro h; exact be16_inj n t px (hkey t ht) hpx h
    · intro h; rw [h]

theorem specPixel_key16 (info : Info) (f : Flags) (px : Bytes)
    (hd : info.bitDepth = .sixteen) (hct : info.colorType = .gray ∨ info.colorType = .rgb)
    (he : f.doExpand = true) (ha : addAlpha info f = true) (hs : f.strip16 = false)
    (hpx : px.length = 2 * info.colorType.samples)
    (hkey : ∀ t, info.trns = some t → t.length = 2 * info.colorType.samples) :
    serialize (specOutputDepth info f) (specPixel info f (be16 px))
      = px ++ (if isKey info.trns px then [0, 0] else [0xFF, 0xFF]) := by
  have hk := isKey_iff16 info px _ hd hpx hkey
  have hed : specExpandedDepth info f = 16 := by simp [specExpandedDepth, hd, BitDepth.toNat]
  have hrt := be16_roundtrip _ px hpx
  simp only [specOutputDepth, specPixel, hed, serialize, hs]
  simp only [specExpandPixel, he, ha, if_true, hd, BitDepth.toNat, hed]
  rcases hct with h | h <;> simp only [h] <;>
  · by_cases hkey : isKey info.trns px = true
    · simp [hkey, hk.mpr hkey, hrt]
    · simp [hkey, mt hk.mp hkey, hrt]

theorem specPixel_keystrip16 (info : Info) (f : Flags) (px : Bytes)
    (hd : info.bitDepth = .sixteen) (hct : info.colorType = .gray ∨ info.colorType = .rgb)
    (he : f.doExpand = true) (ha : addAlpha info f = true) (hs : f.strip16 = true)
    (hpx : px.length = 2 * info.colorType.samples)
    (hkey : ∀ t, info.trns = some t → t.length = 2 * info.colorType.samples) :
    serialize (specOutputDepth info f) (specPixel info f (be16 px))
      = highBytes px ++ [if isKey info.trns px then 0 else 0xFF] := by
  have hk := isKey_iff16 info px _ hd hpx hkey
  have hed : specExpandedDepth info f = 16 := by simp [specExpandedDepth, hd, BitDepth.toNat]
  have hh := highBytes_eq _ px rfl
  simp only [specOutputDepth, specPixel, hed, serialize, hs]
  simp only [specExpandPixel, he, ha, if_true, hd, BitDepth.toNat, hed]
  rcases hct with h | h <;> simp only [h] <;>
  · by_cases hkey : isKey info.trns px = true
    · simp [hkey, hk.mpr hkey, hh]
    · simp [hkey, mt hk.mp hkey, hh]

theorem specConvert16 (info : Info) (f : Flags) (w : Nat) (row : Bytes) (hd : info.bitDepth = .sixteen) :
    specConvert info f row w = (chunksN (2 * info.colorType.samples) w row).flatMap fun px =>
      serialize (specOutputDepth info f) (specPixel info f (be16 px)) := by
  simp only [specConvert, hd, BitDepth.toNat, specSamples, chunksN_be16, List.flatMap_map]
  simp only [show ¬ (16 < 8 ∧ ¬ f.doExpand = true) by omega, if_false]

/-- `expand_trns_line16` = documented conversion -/
theorem expandTrnsLine16_eq_spec (info : Info) (f : Flags) (w : Nat) (row out : Bytes)
    (hd : info.bitDepth = .sixteen) (hct : info.colorType = .gray ∨ info.colorType = .rgb)
    (he : f.doExpand = true) (ha : addAlpha info f = true) (hs : f.strip16 = false)
    (hkey : ∀ t, info.trns = some t → t.length = 2 * info.colorType.samples)
    (hrow : row.length = w * (info.colorType.samples * 2))
    (hout : out.length = w * (info.colorType.samples * 2 + 2)) :
    expandTrnsLine16 info row out = specConvert info f row w := by
  unfold expandTrnsLine16
  have hp := samples_pos info.colorType
  rw [zipChunks_exact _ _ _ w row out (by omega) (by omega) hrow hout, specConvert16 info f w row hd,
    Nat.mul_comm info.colorType.samples 2]
  apply flatMap_congr'
  intro px hpx
  have hl := mem_chunksN_length _ w row (by rw [hrow, Nat.mul_comm info.colorType.samples 2]; exact Nat.le_refl _) px hpx
  exact (specPixel_key16 info f px hd hct he ha hs hl hkey).symm

/-- `expand_trns_and_strip_line16` = documented conversion -/
theorem expandTrnsAndStripLine16_eq_spec (info : Info) (f : Flags) (w : Nat) (row out : Bytes)
    (hd : info.bitDepth = .sixteen) (hct : info.colorType = .gray ∨ info.colorType = .rgb)
    (he : f.doExpand = true) (ha : addAlpha info f = true) (hs : f.strip16 = true)
    (hkey : ∀ t, info.trns = some t → t.length = 2 * info.colorType.samples)
    (hrow : row.length = w * (info.colorType.samples * 2))
    (hout : out.length = w * (info.colorType.samples + 1)) :
    expandTrnsAndStripLine16 info row out = specConvert info f row w := by
  unfold expandTrnsAndStripLine16
  have hp := samples_pos info.colorType
  rw [zipChunks_exact _ _ _ w row out (by omega) (by omega) hrow hout, specConvert16 info f w row hd,
    Nat.mul_comm info.colorType.samples 2]
  apply flatMap_congr'
  intro px hpx
  have hl := mem_chunksN_length _ w row (by rw [hrow, Nat.mul_comm info.colorType.samples 2]; exact Nat.le_refl _) px hpx
  exact (specPixel_keystrip16 info f px hd hct he ha hs hl hkey).symm

/-! ### strip16 without colour key -/

theorem transformRowStrip16_eq : ∀ (n : Nat) (row out : Bytes), row.length = n → row.length / 2 ≤ out.length →
    transformRowStrip16 row out = .ok (highBytes row ++ out.drop (row.length / 2)) := by
  intro n
  induction n using Nat.strongRecOn with
  | _ n ih =>
    intro row out hn hlen
    match row, out, hn, hlen with
    | [], out, _, _ => simp [transformRowStrip16, highBytes]
    | [_], out, _, _ => simp [transformRowStrip16, highBytes]
    | h :: lo :: rest, [], _, hlen => simp at hlen; omega
    | h :: lo :: rest, o :: out, hn, hlen =>
      simp only [List.length_cons] at hn hlen
      have := ih (n - 2) (by omega) rest out (by omega) (by omega)
      simp only [transformRowStrip16, this, highBytes, List.length_cons, List.cons_append]
      rw [show (rest.length + 1 + 1) / 2 = rest.length / 2 + 1 by omega, List.drop_succ_cons]

/-- the pixel conversion when no EXPAND rule applies to the pixel: identity, then STRIP_16 -/
def plainPixel (info : Info) (f : Flags) : Prop :=
  ∀ px, specExpandPixel info f px = px

theorem transformRowStrip16_eq_spec (info : Info) (f : Flags) (w : Nat) (row out : Bytes)
    (hd : info.bitDepth = .sixteen) (hs : f.strip16 = true) (hplain : plainPixel info f)
    (hrow : row.length = w * (info.colorType.samples * 2))
    (hout : out.length = w * info.colorType.samples) :
    transformRowStrip16 row out = .ok (specConvert info f row w) := by
  have hhalf : row.length / 2 = w * info.colorType.samples := by
    rw [hrow, ← Nat.mul_assoc, Nat.mul_div_cancel _ (by decide : 0 < 2)]
  rw [transformRowStrip16_eq _ row out rfl (by omega), List.drop_of_length_le (by omega), List.append_nil,
    highBytes_eq _ row rfl]
  have hed : specExpandedDepth info f = 16 := by simp [specExpandedDepth, hd, BitDepth.toNat]
  simp only [specConvert, hd, BitDepth.toNat, specSamples, specOutputDepth, specPixel, hed, hs,
    serialize, hplain _]
  simp only [show ¬ (16 < 8 ∧ ¬ f.doExpand = true) by omega, if_false, and_self, if_true,
    show (8 : Nat) ≠ 16 by decide, List.map_map]
  rw [chunksN_flatMap_map, List.take_of_length_le (by rw [be16_length _ row rfl]; omega)]
  rfl

/-! ### copy -/

theorem copyRow_eq_spec (info : Info) (f : Flags) (w : Nat) (row out : Bytes)
    (hcase : (info.bitDepth.toNat < 8 ∧ f.doExpand = false) ∨
      ((info.bitDepth = .eight ∨ (info.bitDepth = .sixteen ∧ f.strip16 = false)) ∧ plainPixel info f))
    (hrow : row.length = w * info.colorType.samples * info.bitDepth.toNat / 8 ∨ info.bitDepth.toNat < 8)
    (hout : out.length = row.length) :
    copyRow row out = .ok (specConvert info f row w) := by
  simp only [copyRow, hout, if_true]
  congr 1
  rcases hcase with ⟨h1, h2⟩ | ⟨h1, hplain⟩
  · simp [specConvert, h1, h2]
  · rcases h1 with h8 | ⟨h16, hs⟩
    · have hed : specExpandedDepth info f = 8 := by simp [specExpandedDepth, h8, BitDepth.toNat]
      have hrow' : row.length = w * info.colorType.samples := by
        rcases hrow with h | h
        · rw [h, h8]; simp [BitDepth.toNat]
        · rw [h8] at h; simp [BitDepth.toNat] at h
      have hpx : ∀ px, serialize (specOutputDepth info f) (specPixel info f px) = px.map (·.toUInt8) := by
        intro px; simp [specOutputDepth, specPixel, hed, serialize, hplain _]
      simp only [specConvert, h8, BitDepth.toNat, specSamples, hpx]
      simp only [show ¬ (8 < 8 ∧ ¬ f.doExpand = true) by omega, if_false]
      rw [chunksN_flatMap_map, List.take_of_length_le (by simp [hrow']), map_toUInt8_toNat]
    · have hed : specExpandedDepth info f = 16 := by simp [specExpandedDepth, h16, BitDepth.toNat]
      have hrow' : row.length = 2 * (w * info.colorType.samples) := by
        rcases hrow with h | h
        · rw [h, h16]; simp [BitDepth.toNat]; omega
        · rw [h16] at h; simp [BitDepth.toNat] at h
      have hpx : ∀ px, serialize (specOutputDepth info f) (specPixel info f px)
          = px.flatMap (fun v => [(v / 256).toUInt8, (v % 256).toUInt8]) := by
        intro px; simp [specOutputDepth, specPixel, hed, serialize, hplain _, hs]
      simp only [specConvert, h16, BitDepth.toNat, specSamples, hpx]
      simp only [show ¬ (16 < 8 ∧ ¬ f.doExpand = true) by omega, if_false]
      rw [chunksN_flatMap_flatMap, List.take_of_length_le (by rw [be16_length _ row rfl]; omega),
        be16_roundtrip _ row hrow']

/-! ### `unpack_bits` -/

/-- the values the shift iterator produces from one byte (same expressions as in `unpackLoop`) -/
def implByteSamples (d : Nat) (c : UInt8) : List UInt8 :=
  (List.range (8 / d)).map fun (k : Nat) =>
    (c >>> ((8 : Int) - d * ((k : Int) + 1)).toNat.toUInt8) &&& ((1 <<< d) - 1 : Nat).toUInt8

theorem implByteSamples_length (d : Nat) (c : UInt8) : (implByteSamples d c).length = 8 / d := by
  simp [implByteSamples]

theorem unpack8_nil (func : PixelFn) : unpack8 func [] = .ok [] := rfl
theorem unpack8_cons (func : PixelFn) (c : UInt8) (l : Bytes) :
    unpack8 func (c :: l) = appendE (func c) (unpack8 func l) := rfl

theorem unpackLoop_eq (d : Nat) (hd : d = 1 ∨ d = 2 ∨ d = 4) (func : PixelFn) : ∀ n,
    (∀ (shift : Int) (curr : UInt8) (iter : Bytes), shift < 0 →
      n ≤ (iter.flatMap (implByteSamples d)).length →
      unpackLoop d func n shift curr iter
        = unpack8 func ((iter.flatMap (implByteSamples d)).take n)) ∧
    (∀ (k : Nat) (curr : UInt8) (iter : Bytes), k < 8 / d →
      n ≤ ((implByteSamples d curr).drop k ++ iter.flatMap (implByteSamples d)).length →
      unpackLoop d func n ((8 : Int) - d * (k + 1)) curr iter
        = unpack8 func (((implByteSamples d curr).drop k ++ iter.flatMap (implByteSamples d)).take n)) := by
  intro n
  induction n with
  | zero => constructor <;> intros <;> simp [unpackLoop, unpack8_nil]
  | succ n ih =>
    obtain ⟨ihA, ihB⟩ := ih
    constructor
    · intro shift curr iter hs hn
      cases iter with
      | nil => simp at hn
      | cons c iter' =>
        have hlen := implByteSamples_length d c
        have h1 : 1 < 8 / d := by rcases hd with rfl | rfl | rfl <;> decide
        have hdrop : implByteSamples d c = (implByteSamples d c)[0]'(by omega) :: (implByteSamples d c).drop 1 := by
          rw [← List.drop_eq_getElem_cons]; rfl
        have hB := ihB 1 c iter' h1 (by
          simp only [List.flatMap_cons, List.length_append, List.length_drop] at hn ⊢; omega)
        simp only [unpackLoop, hs, if_true, List.flatMap_cons]
        rw [hdrop, List.cons_append, List.take_succ_cons, unpack8_cons]
        rw [show ((8 : Int) - (d : Int) - (d : Int)) = 8 - d * ((1 : Nat) + 1) by
          rcases hd with rfl | rfl | rfl <;> omega]
        rw [hB]
        congr 2
        simp [implByteSamples]
    · intro k curr iter hk hn
      have hlen := implByteSamples_length d curr
      have hge : ¬ ((8 : Int) - d * (k + 1) < 0) := by
        rcases hd with rfl | rfl | rfl <;> omega
      have hdrop : (implByteSamples d curr).drop k
          = (implByteSamples d curr)[k]'(by omega) :: (implByteSamples d curr).drop (k + 1) := by
        rw [← List.drop_eq_getElem_cons]
      simp only [unpackLoop, hge, if_false]
      rw [hdrop, List.cons_append, List.take_succ_cons, unpack8_cons]
      rw [hdrop, List.cons_append] at hn
      have hpix : (implByteSamples d curr)[k]'(by omega)
          = (curr >>> ((8 : Int) - d * (k + 1)).toNat.toUInt8) &&& ((1 <<< d) - 1 : Nat).toUInt8 := by
        simp [implByteSamples]
      rw [hpix]
      congr 1
      by_cases hk1 : k + 1 < 8 / d
      · rw [show ((8 : Int) - d * (k + 1) - (d : Int)) = 8 - d * ((k + 1 : Nat) + 1) by
          rcases hd with rfl | rfl | rfl <;> omega]
        exact ihB (k + 1) curr iter hk1 (by simpa using hn)
      · have hnil : (implByteSamples d curr).drop (k + 1) = [] := by
          apply List.drop_of_length_le; omega
        rw [hnil, List.nil_append] at hn ⊢
        exact ihA _ curr iter (by rcases hd with rfl | rfl | rfl <;> omega) (by simpa using hn)

/-- the shift/mask values of every byte are the MSB-first samples of the specification:
    all 3 x 256 (depth, byte) pairs, evaluated by the kernel -/
def byteSamplesOk : Bool := [1, 2, 4].all fun d => (List.range 256).all fun c =>
  (implByteSamples d c.toUInt8).map (·.toNat) == specByteSamples d c.toUInt8
theorem byteSamplesOk_true : byteSamplesOk = true := by decide +kernel

theorem implByteSamples_spec (d : Nat) (hd : d = 1 ∨ d = 2 ∨ d = 4) (c : UInt8) :
    (implByteSamples d c).map (·.toNat) = specByteSamples d c := by
  have h := byteSamplesOk_true
  simp only [byteSamplesOk, List.all_eq_true, List.mem_range, beq_iff_eq] at h
  have := h d (by rcases hd with rfl | rfl | rfl <;> simp) c.toNat c.toNat_lt
  simpa [toUInt8_toNat] using this

theorem implByteSamples_lt (d : Nat) (hd : d = 1 ∨ d = 2 ∨ d = 4) (c : UInt8) :
    ∀ x ∈ implByteSamples d c, x.toNat < 2 ^ d := by
  intro x hx
  have hm : x.toNat ∈ (implByteSamples d c).map (·.toNat) := List.mem_map_of_mem hx
  rw [implByteSamples_spec d hd c] at hm
  simp only [specByteSamples, List.mem_map, List.mem_range] at hm
  obtain ⟨k, _, hk⟩ := hm
  rw [← hk]
  exact Nat.mod_lt _ (Nat.two_pow_pos d)

/-- all values `unpack_bits` passes to its closure for a row, in order -/
def implSamples (d : Nat) (row : Bytes) : List UInt8 :=
  if d = 8 then row else row.flatMap (implByteSamples d)

theorem implSamples_length (d : Nat) (row : Bytes) :
    (implSamples d row).length = 8 / d * row.length := by
  unfold implSamples
  split
  · next h => subst h; simp
  · induction row with
    | nil => simp
    | cons c t ih => simp only [List.flatMap_cons, List.length_append, implByteSamples_length, ih,
        List.length_cons, Nat.mul_succ]; omega

theorem implSamples_lt (d : Nat) (hd : d = 1 ∨ d = 2 ∨ d = 4) (row : Bytes) :
    ∀ x ∈ implSamples d row, x.toNat < 2 ^ d := by
  intro x hx
  have h8 : d ≠ 8 := by rcases hd with rfl | rfl | rfl <;> decide
  simp only [implSamples, h8, if_false, List.mem_flatMap] at hx
  obtain ⟨c, _, hc⟩ := hx
  exact implByteSamples_lt d hd c x hc

theorem specSamples_eq (bd : BitDepth) (h : bd ≠ .sixteen) (row : Bytes) :
    specSamples bd row = (implSamples bd.toNat row).map (·.toNat) := by
  cases bd with
  | sixteen => exact absurd rfl h
  | eight => simp [specSamples, implSamples, BitDepth.toNat]
  | one =>
    simp only [specSamples, implSamples, BitDepth.toNat, show (1 : Nat) ≠ 8 by decide, if_false, List.map_flatMap]
    exact flatMap_congr' fun c _ => (implByteSamples_spec 1 (by simp) c).symm
  | two =>
    simp only [specSamples, implSamples, BitDepth.toNat, show (2 : Nat) ≠ 8 by decide, if_false, List.map_flatMap]
    exact flatMap_congr' fun c _ => (implByteSamples_spec 2 (by simp) c).symm
  | four =>
    simp only [specSamples, implSamples, BitDepth.toNat, show (4 : Nat) ≠ 8 by decide, if_false, List.map_flatMap]
    exact flatMap_congr' fun c _ => (implByteSamples_spec 4 (by simp) c).symm

theorem appendE_ok_nil (a : Except Err Bytes) : appendE a (.ok []) = a := by
  cases a <;> simp [appendE]

/-- `unpack_bits` on buffers of matching sizes: neither assert fires, the `expect` is never
    reached, and the closure sees exactly the first `n` samples of the row -/
theorem unpackBits_eq (d ch n : Nat) (hd : d = 1 ∨ d = 2 ∨ d = 4 ∨ d = 8) (hch : 0 < ch)
    (row out : Bytes) (func : PixelFn) (hout : out.length = n * ch)
    (hn : n ≤ (implSamples d row).length) :
    unpackBits row out ch d func = unpack8 func ((implSamples d row).take n) := by
  have hlen := implSamples_length d row
  have hassert : ¬ (8 / d * ch * row.length < out.length) := by
    rw [hout, Nat.mul_right_comm, ← hlen]
    exact Nat.not_lt.mpr (Nat.mul_le_mul_right ch hn)
  have hdiv : out.length / ch = n := by rw [hout, Nat.mul_div_cancel _ hch]
  simp only [unpackBits, hd, not_true, if_false, hassert, hdiv]
  rw [List.drop_of_length_le (by omega)]
  by_cases h8 : d = 8
  · simp only [h8, if_true, appendE_ok_nil, implSamples]
  · have hd' : d = 1 ∨ d = 2 ∨ d = 4 := by omega
    simp only [h8, if_false, appendE_ok_nil, implSamples] at hn ⊢
    exact (unpackLoop_eq d hd' func n).1 (-1) 0 row (by decide) hn

theorem unpack8_ok (func : PixelFn) (g : UInt8 → Bytes) : ∀ (l : Bytes),
    (∀ x ∈ l, func x = .ok (g x)) → unpack8 func l = .ok (l.flatMap g) := by
  intro l
  induction l with
  | nil => intro _; rfl
  | cons c t ih =>
    intro h
    rw [unpack8_cons, h c (by simp), ih (fun x hx => h x (by simp [hx]))]
    simp [appendE]

/-- single-channel rows of depth ≤ 8 that are expanded (grayscale below 8 bits, indexed): the
    documented conversion in terms of the unpacked values -/
theorem specConvert_1ch (info : Info) (f : Flags) (w : Nat) (row : Bytes)
    (hch : info.colorType.samples = 1) (hd : info.bitDepth ≠ .sixteen)
    (he : f.doExpand = true ∨ info.bitDepth = .eight)
    (hw : w ≤ (implSamples info.bitDepth.toNat row).length) :
    specConvert info f row w = ((implSamples info.bitDepth.toNat row).take w).flatMap fun x =>
      serialize (specOutputDepth info f) (specPixel info f [x.toNat]) := by
  have hno : ¬ (info.bitDepth.toNat < 8 ∧ ¬ f.doExpand = true) := by
    rcases he with h | h
    · simp [h]
    · simp [h, BitDepth.toNat]
  simp only [specConvert, hno, if_false, hch, specSamples_eq _ hd]
  rw [chunksN_one _ _ (by simpa using hw), ← List.map_take, List.map_map, List.flatMap_map]
  rfl

/-! ### grayscale below 8 bits -/

theorem mul_toUInt8 (x : UInt8) (k : Nat) : (x.toNat * k).toUInt8 = x * k.toUInt8 := by
  apply UInt8.toNat_inj.mp
  simp [UInt8.toNat_mul, Nat.mul_mod]

theorem subbyte_cases (bd : BitDepth) (h : bd.toNat < 8) : bd = .one ∨ bd = .two ∨ bd = .four := by
  cases bd <;> simp [BitDepth.toNat] at h ⊢

theorem subbyte_row_enough (bd : BitDepth) (h : bd.toNat < 8) (w ch : Nat) (row : Bytes)
    (hrow : row.length = (w * ch * bd.toNat + 7) / 8) :
    w * ch ≤ (implSamples bd.toNat row).length := by
  rw [implSamples_length]
  generalize w * ch = s at *
  rcases subbyte_cases bd h with rfl | rfl | rfl <;> simp only [BitDepth.toNat] at * <;> omega

/-- per-pixel: bit replication `v * (255 / (2^d - 1))` with checked `u8` multiplication -/
theorem gray_scale (bd : BitDepth) (h : bd.toNat < 8) (x : UInt8) (hx : x.toNat < 2 ^ bd.toNat) :
    ∃ sf, scalingFactor bd.toNat = .ok sf ∧ mulChecked x sf = .ok (x * sf) ∧
      (x.toNat * (255 / (2 ^ bd.toNat - 1))).toUInt8 = x * sf := by
  rcases subbyte_cases bd h with rfl | rfl | rfl
  · refine ⟨255, by rfl, ?_, ?_⟩
    · simp only [BitDepth.toNat] at hx; simp only [mulChecked]; rw [if_pos]; show x.toNat * 255 < 256; omega
    · simp only [BitDepth.toNat]; exact mul_toUInt8 x 255
  · refine ⟨85, by rfl, ?_, ?_⟩
    · simp only [BitDepth.toNat] at hx; simp only [mulChecked]; rw [if_pos]; show x.toNat * 85 < 256; omega
    · simp only [BitDepth.toNat]; exact mul_toUInt8 x 85
  · refine ⟨17, by rfl, ?_, ?_⟩
    · simp only [BitDepth.toNat] at hx; simp only [mulChecked]; rw [if_pos]; show x.toNat * 17 < 256; omega
    · simp only [BitDepth.toNat]; exact mul_toUInt8 x 17

/-- `expand_gray_u8` = documented conversion (grayscale below 8 bits, no alpha) -/
theorem expandGrayU8_eq_spec (info : Info) (f : Flags) (w : Nat) (row out : Bytes)
    (hct : info.colorType = .gray) (hd : info.bitDepth.toNat < 8) (he : f.doExpand = true)
    (ha : addAlpha info f = false)
    (hrow : row.length = (w * info.colorType.samples * info.bitDepth.toNat + 7) / 8)
    (hout : out.length = w) :
    expandGrayU8 info row out = .ok (specConvert info f row w) := by
  have hch : info.colorType.samples = 1 := by simp [hct, ColorType.samples]
  have h16 : info.bitDepth ≠ .sixteen := by intro h; simp [h, BitDepth.toNat] at hd
  have hen := subbyte_row_enough info.bitDepth hd w 1 row (by simpa [hch] using hrow)
  simp only [Nat.mul_one] at hen
  have hlt := implSamples_lt info.bitDepth.toNat
    (by rcases subbyte_cases _ hd with h | h | h <;> simp [h, BitDepth.toNat]) row
  obtain ⟨sf, hsf, _, _⟩ := gray_scale info.bitDepth hd 0 (Nat.two_pow_pos _)
  rw [specConvert_1ch info f w row hch h16 (Or.inl he) hen]
  simp only [expandGrayU8, hsf]
  rw [unpackBits_eq _ 1 w (by rcases subbyte_cases _ hd with h | h | h <;> simp [h, BitDepth.toNat])
    (by decide) row out _ (by simpa using hout) hen]
  rw [unpack8_ok _ (fun x => [x * sf])]
  · congr 1
    apply flatMap_congr'
    intro x hx
    obtain ⟨sf', hsf', _, hval⟩ := gray_scale info.bitDepth hd x (hlt x (List.mem_of_mem_take hx))
    have : sf' = sf := by rw [hsf] at hsf'; exact (Except.ok.inj hsf').symm
    subst this
    have hed : specExpandedDepth info f = 8 := by simp [specExpandedDepth, hd, he]
    simp [specOutputDepth, specPixel, hed, serialize, specExpandPixel, he, hct, hd, ha, ← hval]
  · intro x hx
    obtain ⟨sf', hsf', hmul, _⟩ := gray_scale info.bitDepth hd x (hlt x (List.mem_of_mem_take hx))
    have : sf' = sf := by rw [hsf] at hsf'; exact (Except.ok.inj hsf').symm
    subst this
    simp only [hmul]

/-- `expand_gray_u8_with_trns` = documented conversion (grayscale below 8 bits with colour key or ALPHA) -/
theorem expandGrayU8WithTrns_eq_spec (info : Info) (f : Flags) (w : Nat) (row out : Bytes)
    (hct : info.colorType = .gray) (hd : info.bitDepth.toNat < 8) (he : f.doExpand = true)
    (ha : addAlpha info f = true)
    (hkey : ∀ t, info.trns = some t → t.length = 1)
    (hrow : row.length = (w * info.colorType.samples * info.bitDepth.toNat + 7) / 8)
    (hout : out.length = w * 2) :
    expandGrayU8WithTrns info row out = .ok (specConvert info f row w) := by
  have hch : info.colorType.samples = 1 := by simp [hct, ColorType.samples]
  have h16 : info.bitDepth ≠ .sixteen := by intro h; simp [h, BitDepth.toNat] at hd
  have hen := subbyte_row_enough info.bitDepth hd w 1 row (by simpa [hch] using hrow)
  simp only [Nat.mul_one] at hen
  have hlt := implSamples_lt info.bitDepth.toNat
    (by rcases subbyte_cases _ hd with h | h | h <;> simp [h, BitDepth.toNat]) row
  obtain ⟨sf, hsf, _, _⟩ := gray_scale info.bitDepth hd 0 (Nat.two_pow_pos _)
  rw [specConvert_1ch info f w row hch h16 (Or.inl he) hen]
  simp only [expandGrayU8WithTrns, hsf]
  rw [unpackBits_eq _ 2 w (by rcases subbyte_cases _ hd with h | h | h <;> simp [h, BitDepth.toNat])
    (by decide) row out _ hout hen]
  rw [unpack8_ok _ (fun x => [x * sf, if isKey info.trns [x] then 0 else 0xFF])]
  · congr 1
    apply flatMap_congr'
    intro x hx
    obtain ⟨sf', hsf', _, hval⟩ := gray_scale info.bitDepth hd x (hlt x (List.mem_of_mem_take hx))
    have : sf' = sf := by rw [hsf] at hsf'; exact (Except.ok.inj hsf').symm
    subst this
    have hed : specExpandedDepth info f = 8 := by simp [specExpandedDepth, hd, he]
    have hk := isKey_iff8 info [x] h16
    simp only [List.map_cons, List.map_nil] at hk
    by_cases hkey' : isKey info.trns [x] = true
    · simp [specOutputDepth, specPixel, hed, serialize, specExpandPixel, he, hct, hd, ha, ← hval,
        hkey', hk.mpr hkey']
    · simp [specOutputDepth, specPixel, hed, serialize, specExpandPixel, he, hct, hd, ha, ← hval,
        hkey', mt hk.mp hkey']
  · intro x hx
    obtain ⟨sf', hsf', hmul, _⟩ := gray_scale info.bitDepth hd x (hlt x (List.mem_of_mem_take hx))
    have : sf' = sf := by rw [hsf] at hsf'; exact (Except.ok.inj hsf').symm
    subst this
    simp only [hmul]
    cases ht : info.trns with
    | none => simp [isKey]
    | some t =>
      have := hkey t ht
      match t, this with
      | [t0], _ =>
        simp only [isKey, beq_iff_eq, Option.some.injEq, List.cons.injEq, and_true]
        by_cases hxt : x = t0
        · simp [hxt]
        · have : ¬ t0 = x := fun h => hxt h.symm
          simp [hxt, this]

/-! ### the memo palette (`create_rgba_palette`) -/

def Rgba.rgb (e : Rgba) : UInt8 × UInt8 × UInt8 := (e.1, e.2.1, e.2.2.1)
def Rgba.a (e : Rgba) : UInt8 := e.2.2.2

@[simp] theorem setAlpha_rgb (e : Rgba) (a : UInt8) : (e.setAlpha a).rgb = e.rgb := rfl
@[simp] theorem setAlpha_a (e : Rgba) (a : UInt8) : (e.setAlpha a).a = a := rfl

theorem copyEntries_nil (slots : List Rgba) : copyEntries slots [] = .ok slots := by
  cases slots <;> simp [copyEntries]

/-- the 4-byte copies, given whole entries and enough table rows: no panic, RGB of the first `m`
    rows from the palette, all later rows untouched (alpha of the first `m` rows is garbage) -/
theorem copyEntries_spec : ∀ (m : Nat) (slots : List Rgba) (pal : Bytes),
    pal.length = 3 * m → m ≤ slots.length →
    ∃ L, copyEntries slots pal = .ok L ∧ L.length = slots.length ∧
      (∀ i, i < m → ∃ e, L[i]? = some e ∧
        e.rgb = (pal.getD (3 * i) 0, pal.getD (3 * i + 1) 0, pal.getD (3 * i + 2) 0)) ∧
      (∀ i, m ≤ i → L[i]? = slots[i]?) := by
  intro m
  induction m with
  | zero =>
    intro slots pal hp _
    have : pal = [] := List.eq_nil_of_length_eq_zero (by omega)
    subst this
    exact ⟨slots, copyEntries_nil slots, rfl, fun i hi => absurd hi (Nat.not_lt_zero i), fun _ _ => rfl⟩
  | succ m ih =>
    intro slots pal hp hs
    match pal, hp, slots, hs with
    | [r, g, b], hp, e :: slots', _ =>
      have hm : m = 0 := by simp at hp; omega
      subst hm
      refine ⟨(r, g, b, e.2.2.2) :: slots', by simp [copyEntries], by simp, ?_, ?_⟩
      · intro i hi
        have : i = 0 := by omega
        subst this
        exact ⟨_, rfl, rfl⟩
      · intro i hi
        match i, hi with
        | j + 1, _ => simp
    | r :: g :: b :: x :: rest, hp, e :: slots', hs =>
      simp only [List.length_cons] at hp hs
      obtain ⟨L', hL', hlen, hrgb, hrest⟩ := ih slots' (x :: rest) (by simp; omega) (by omega)
      refine ⟨(r, g, b, x) :: L', by simp [copyEntries, hL'], by simp [hlen], ?_, ?_⟩
      · intro i hi
        match i, hi with
        | 0, _ => exact ⟨_, rfl, rfl⟩
        | j + 1, hj =>
          obtain ⟨e', he', hrgb'⟩ := hrgb j (by omega)
          refine ⟨e', by simpa using he', ?_⟩
          rw [hrgb']
          simp only [show 3 * (j + 1) = 3 * j + 1 + 1 + 1 by omega,
            show 3 * j + 1 + 1 + 1 + 1 = (3 * j + 1) + 1 + 1 + 1 by omega,
            show 3 * j + 1 + 1 + 1 + 2 = (3 * j + 2) + 1 + 1 + 1 by omega, List.getD_cons_succ]
      · intro i hi
        match i, hi with
        | j + 1, hj =>
          have := hrest j (by omega)
          simpa using this

theorem zipAlpha_getElem? : ∀ (t : Bytes) (L : List Rgba) (i : Nat),
    (zipAlpha t L)[i]? = if i < t.length then L[i]?.map (·.setAlpha (t.getD i 0)) else L[i]? := by
  intro t
  induction t with
  | nil => intro L i; simp [zipAlpha]
  | cons a t ih =>
    intro L i
    cases L with
    | nil => simp [zipAlpha]
    | cons e L' =>
      cases i with
      | zero => simp [zipAlpha]
      | succ j => simp [zipAlpha, ih L' j]

theorem zipAlpha_length : ∀ (t : Bytes) (L : List Rgba), (zipAlpha t L).length = L.length := by
  intro t
  induction t with
  | nil => intro L; simp [zipAlpha]
  | cons a t ih =>
    intro L
    cases L with
    | nil => simp [zipAlpha]
    | cons e L' => simp [zipAlpha, ih L']

/-- the tRNS entries `create_rgba_palette` actually uses -/
def effTrns (pal : Bytes) (trns : Option Bytes) : Bytes :=
  if (trns.getD []).length ≤ pal.length / 3 then trns.getD [] else []

theorem effTrns_length (pal : Bytes) (trns : Option Bytes) : (effTrns pal trns).length ≤ pal.length / 3 := by
  unfold effTrns; split <;> simp_all

theorem specPaletteAlpha_eff (pal : Bytes) (trns : Option Bytes) (i : Nat) :
    specPaletteAlpha pal trns i = (((effTrns pal trns)[i]?).map (·.toNat)).getD 255 := by
  unfold specPaletteAlpha effTrns
  cases trns with
  | none => simp
  | some t => simp only [Option.getD_some]; split <;> simp

/-- one memo entry as the specification describes it -/
def entryOk (pal : Bytes) (trns : Option Bytes) (i : Nat) (e : Rgba) : Prop :=
  e.rgbBytes.map (·.toNat) = specPaletteRgb pal i ∧ e.a.toNat = specPaletteAlpha pal trns i

theorem rgbBytes_of_rgb (e : Rgba) (r g b : UInt8) (h : e.rgb = (r, g, b)) : e.rgbBytes = [r, g, b] := by
  obtain ⟨e1, e2, e3, e4⟩ := e
  simp only [Rgba.rgb, Prod.mk.injEq] at h
  simp [Rgba.rgbBytes, h]

/-- the pinned-tree function (= the repaired function after its truncation step): memo palette =
    documented lookup, for every index 0..255, given whole entries and at most 256 of them; in
    particular no panic then -/
theorem createRgbaPaletteOld_spec (pal : Bytes) (trns : Option Bytes)
    (h3 : pal.length % 3 = 0) (h768 : pal.length ≤ 768) :
    ∃ memo, createRgbaPaletteOld pal trns = .ok memo ∧ memo.length = 256 ∧
      ∀ i, i < 256 → ∃ e, memo[i]? = some e ∧ entryOk pal trns i e := by
  have hm : pal.length = 3 * (pal.length / 3) := by omega
  have hm256 : pal.length / 3 ≤ 256 := by omega
  obtain ⟨L, hL, hlen, hrgb, hrest⟩ :=
    copyEntries_spec (pal.length / 3) (List.replicate 256 (0, 0, 0, 0xFF)) pal hm (by rw [List.length_replicate]; exact hm256)
  have htl := effTrns_length pal trns
  have hLlen : L.length = 256 := by rw [hlen, List.length_replicate]
  have hun : (effTrns pal trns).length ≤ pal.length / 3 ∧
      pal.length / 3 ≤ (zipAlpha (effTrns pal trns) L).length := by
    rw [zipAlpha_length, hLlen]; exact ⟨htl, hm256⟩
  refine ⟨_, by simp only [createRgbaPaletteOld, hL, unclobber]; rw [← effTrns, if_pos hun], by
    simp [zipAlpha_length, hLlen], ?_⟩
  intro i hi
  have hLi : ∃ e0, L[i]? = some e0 := ⟨L[i]'(by omega), List.getElem?_eq_getElem (by omega)⟩
  obtain ⟨e0, he0⟩ := hLi
  simp only [List.getElem?_mapIdx, zipAlpha_getElem?, he0]
  unfold entryOk
  rw [specPaletteAlpha_eff]
  generalize effTrns pal trns = t at *
  by_cases h1 : i < t.length
  · -- alpha from tRNS
    obtain ⟨e', he', hrgb'⟩ := hrgb i (by omega)
    have : e' = e0 := by rw [he0] at he'; exact (Option.some.inj he').symm
    subst this
    refine ⟨_, by simp only [h1, if_true, Option.map_some]; rfl, ?_, ?_⟩
    · have hno : ¬ (t.length ≤ i ∧ i < pal.length / 3) := by omega
      simp only [hno, if_false]
      rw [rgbBytes_of_rgb _ (pal.getD (3 * i) 0) (pal.getD (3 * i + 1) 0) (pal.getD (3 * i + 2) 0)
        (by rw [setAlpha_rgb, hrgb'])]
      simp [specPaletteRgb, show 3 * i + 3 ≤ pal.length by omega]
    · have hno : ¬ (t.length ≤ i ∧ i < pal.length / 3) := by omega
      simp only [hno, if_false, setAlpha_a]
      simp [List.getElem?_eq_getElem h1, List.getD_eq_getElem?_getD]
  · by_cases h2 : i < pal.length / 3
    · -- un-clobbered
      obtain ⟨e', he', hrgb'⟩ := hrgb i h2
      have : e' = e0 := by rw [he0] at he'; exact (Option.some.inj he').symm
      subst this
      refine ⟨_, by simp only [h1, if_false, Option.map_some]; rfl, ?_, ?_⟩
      · have hyes : t.length ≤ i ∧ i < pal.length / 3 := by omega
        simp only [hyes, and_self, if_true]
        rw [rgbBytes_of_rgb _ (pal.getD (3 * i) 0) (pal.getD (3 * i + 1) 0) (pal.getD (3 * i + 2) 0)
          (by rw [setAlpha_rgb, hrgb'])]
        simp [specPaletteRgb, show 3 * i + 3 ≤ pal.length by omega]
      · have hyes : t.length ≤ i ∧ i < pal.length / 3 := by omega
        simp only [hyes, and_self, if_true, setAlpha_a]
        simp [List.getElem?_eq_none (Nat.le_of_not_lt h1)]
    · -- beyond the palette: the default entry
      have hd := hrest i (by omega)
      rw [he0] at hd
      have he0' : e0 = (0, 0, 0, 0xFF) := by
        rw [List.getElem?_replicate, if_pos hi] at hd; exact (Option.some.inj hd)
      subst he0'
      refine ⟨_, by simp only [h1, if_false, Option.map_some]; rfl, ?_, ?_⟩
      · have hno : ¬ (t.length ≤ i ∧ i < pal.length / 3) := by omega
        simp only [hno, if_false]
        simp [specPaletteRgb, Rgba.rgbBytes, show ¬ (3 * i + 3 ≤ pal.length) by omega]
      · have hno : ¬ (t.length ≤ i ∧ i < pal.length / 3) := by omega
        simp only [hno, if_false]
        simp [List.getElem?_eq_none (Nat.le_of_not_lt h1), Rgba.a]

/-! ### the repaired `create_rgba_palette`: truncation to whole entries, at most 256 -/

theorem specPalette_length (plte : Bytes) :
    (specPalette plte).length = min (plte.length / 3) 256 * 3 := by
  unfold specPalette; rw [List.length_take]; omega

theorem specPalette_guard (plte : Bytes) :
    (specPalette plte).length % 3 = 0 ∧ (specPalette plte).length ≤ 768 := by
  rw [specPalette_length]; omega

/-- number of usable entries -/
theorem specPalette_entries (plte : Bytes) : (specPalette plte).length / 3 = min (plte.length / 3) 256 := by
  rw [specPalette_length]; omega

/-- a valid PLTE chunk is its own list of entries -/
theorem specPalette_of_guard (plte : Bytes) (h3 : plte.length % 3 = 0) (h768 : plte.length ≤ 768) :
    specPalette plte = plte := by
  unfold specPalette; apply List.take_of_length_le; omega

/-- the slice expression of the repair cannot panic; the repaired function is the old one on the
    usable entries -/
theorem createRgbaPalette_eq (pal : Bytes) (trns : Option Bytes) :
    createRgbaPalette pal trns = createRgbaPaletteOld (specPalette pal) trns := by
  unfold createRgbaPalette specPalette
  simp only
  rw [if_pos (by omega)]

/-- **memo palette = documented lookup for EVERY PLTE length** (repaired function): no panic, and
    row `i` is entry `i` of the usable entries (black beyond) with the tRNS alpha -/
theorem createRgbaPalette_spec (pal : Bytes) (trns : Option Bytes) :
    ∃ memo, createRgbaPalette pal trns = .ok memo ∧ memo.length = 256 ∧
      ∀ i, i < 256 → ∃ e, memo[i]? = some e ∧ entryOk (specPalette pal) trns i e := by
  rw [createRgbaPalette_eq]
  exact createRgbaPaletteOld_spec (specPalette pal) trns (specPalette_guard pal).1 (specPalette_guard pal).2

/-! ### palette expansion -/

theorem row_enough (bd : BitDepth) (h : bd ≠ .sixteen) (w ch : Nat) (row : Bytes)
    (hrow : row.length = (w * ch * bd.toNat + 7) / 8) :
    w * ch ≤ (implSamples bd.toNat row).length := by
  rw [implSamples_length]
  generalize w * ch = s at *
  cases bd <;> simp only [BitDepth.toNat] at * <;> first | omega | exact absurd rfl h

/-- the memo entry for an index (total: the table has 256 rows) -/
def memoGet (memo : List Rgba) (i : UInt8) : Rgba := (memo[i.toNat]?).getD (0, 0, 0, 0)

theorem memoLookup_ok (memo : List Rgba) (hlen : memo.length = 256) (i : UInt8) :
    memoLookup memo i = .ok (memoGet memo i) := by
  have hi := i.toNat_lt
  simp [memoLookup, memoGet, List.getElem?_eq_getElem (show i.toNat < memo.length by omega)]

theorem memoGet_ok (pal : Bytes) (trns : Option Bytes) (memo : List Rgba)
    (hmemo : ∀ i, i < 256 → ∃ e, memo[i]? = some e ∧ entryOk pal trns i e) (x : UInt8) :
    entryOk pal trns x.toNat (memoGet memo x) := by
  obtain ⟨e, he, hok⟩ := hmemo x.toNat x.toNat_lt
  simp only [memoGet, he, Option.getD_some]; exact hok

theorem notSixteen_depth (info : Info) (f : Flags) (hd : info.bitDepth ≠ .sixteen)
    (he : f.doExpand = true) : specExpandedDepth info f = 8 := by
  cases h : info.bitDepth <;> simp [specExpandedDepth, h, BitDepth.toNat, he] <;> exact absurd h hd

/-- per pixel: the memo entry is the documented palette lookup -/
theorem specPixel_indexed (info : Info) (f : Flags) (pal : Bytes) (x : UInt8) (e : Rgba)
    (hct : info.colorType = .indexed) (hd : info.bitDepth ≠ .sixteen) (he : f.doExpand = true)
    (hpal : info.palette = some pal) (hok : entryOk (specPalette pal) info.trns x.toNat e) :
    serialize (specOutputDepth info f) (specPixel info f [x.toNat])
      = if addAlpha info f then e.toBytes else e.rgbBytes := by
  have hed := notSixteen_depth info f hd he
  obtain ⟨hrgb, ha⟩ := hok
  have h1 : specOutputDepth info f = 8 := by simp [specOutputDepth, hed]
  have h2 : specPixel info f [x.toNat] = specExpandPixel info f [x.toNat] := by simp [specPixel, hed]
  rw [h1, h2]
  simp only [serialize, specExpandPixel, he, hct, hpal, show (8 : Nat) ≠ 16 by decide,
    if_true, if_false, Option.getD_some, List.headD_cons, ← hrgb, ← ha]
  obtain ⟨e1, e2, e3, e4⟩ := e
  by_cases haa : addAlpha info f = true <;> simp [haa, Rgba.rgbBytes, Rgba.toBytes, Rgba.a]

/-- `expand_paletted_into_rgba8` = documented conversion -/
theorem expandPalettedIntoRgba8_eq_spec (info : Info) (f : Flags) (pal : Bytes) (memo : List Rgba)
    (w : Nat) (row out : Bytes)
    (hct : info.colorType = .indexed) (hd : info.bitDepth ≠ .sixteen) (he : f.doExpand = true)
    (ha : addAlpha info f = true) (hpal : info.palette = some pal)
    (hlen : memo.length = 256)
    (hmemo : ∀ i, i < 256 → ∃ e, memo[i]? = some e ∧ entryOk (specPalette pal) info.trns i e)
    (hrow : row.length = (w * info.colorType.samples * info.bitDepth.toNat + 7) / 8)
    (hout : out.length = w * 4) :
    expandPalettedIntoRgba8 info memo row out = .ok (specConvert info f row w) := by
  have hch : info.colorType.samples = 1 := by simp [hct, ColorType.samples]
  have hen := row_enough info.bitDepth hd w 1 row (by simpa [hch] using hrow)
  simp only [Nat.mul_one] at hen
  rw [specConvert_1ch info f w row hch hd (Or.inl he) hen]
  unfold expandPalettedIntoRgba8
  rw [unpackBits_eq _ 4 w (by cases h : info.bitDepth <;> simp [BitDepth.toNat] <;> exact absurd h hd)
    (by decide) row out _ hout hen]
  rw [unpack8_ok _ (fun x => (memoGet memo x).toBytes)]
  · congr 1
    apply flatMap_congr'
    intro x _
    rw [specPixel_indexed info f pal x _ hct hd he hpal (memoGet_ok (specPalette pal) info.trns memo hmemo x), if_pos ha]
  · intro x _
    simp only [memoLookup_ok memo hlen]

/-- `expand_into_rgb8` (sub-byte depths) = documented conversion -/
theorem expandIntoRgb8_eq_spec (info : Info) (f : Flags) (pal : Bytes) (memo : List Rgba)
    (w : Nat) (row out : Bytes)
    (hct : info.colorType = .indexed) (hd : info.bitDepth ≠ .sixteen) (he : f.doExpand = true)
    (ha : addAlpha info f = false) (hpal : info.palette = some pal)
    (hlen : memo.length = 256)
    (hmemo : ∀ i, i < 256 → ∃ e, memo[i]? = some e ∧ entryOk (specPalette pal) info.trns i e)
    (hrow : row.length = (w * info.colorType.samples * info.bitDepth.toNat + 7) / 8)
    (hout : out.length = w * 3) :
    expandIntoRgb8 info memo row out = .ok (specConvert info f row w) := by
  have hch : info.colorType.samples = 1 := by simp [hct, ColorType.samples]
  have hen := row_enough info.bitDepth hd w 1 row (by simpa [hch] using hrow)
  simp only [Nat.mul_one] at hen
  rw [specConvert_1ch info f w row hch hd (Or.inl he) hen]
  unfold expandIntoRgb8
  rw [unpackBits_eq _ 3 w (by cases h : info.bitDepth <;> simp [BitDepth.toNat] <;> exact absurd h hd)
    (by decide) row out _ hout hen]
  rw [unpack8_ok _ (fun x => (memoGet memo x).rgbBytes)]
  · congr 1
    apply flatMap_congr'
    intro x _
    rw [specPixel_indexed info f pal x _ hct hd he hpal (memoGet_ok (specPalette pal) info.trns memo hmemo x)]
    simp [ha]
  · intro x _
    simp only [memoLookup_ok memo hlen]

/-- the overlapping 4-byte writes of `expand_8bit_into_rgb8` leave exactly the 3-byte entries:
    every alpha byte is overwritten by the next round, whatever the buffer held before -/
theorem expand8bitIntoRgb8_eq (memo : List Rgba) (hlen : memo.length = 256) : ∀ (row out : Bytes),
    out.length = 3 * row.length →
    expand8bitIntoRgb8 memo row out = .ok (row.flatMap fun i => (memoGet memo i).rgbBytes) := by
  intro row
  induction row with
  | nil =>
    intro out ho
    have : out = [] := List.eq_nil_of_length_eq_zero (by simpa using ho)
    subst this
    simp [expand8bitIntoRgb8]
  | cons i rest ih =>
    intro out ho
    match rest, out, ho, ih with
    | [], [_, _, _], _, _ => simp [expand8bitIntoRgb8, memoLookup_ok memo hlen]
    | j :: rest', o0 :: o1 :: o2 :: o3 :: orest, ho, ih =>
      have := ih ((memoGet memo i).2.2.2 :: orest) (by simp only [List.length_cons] at ho ⊢; omega)
      simp only [expand8bitIntoRgb8, memoLookup_ok memo hlen, this, List.flatMap_cons]
      rfl
    | [], [], ho, _ => simp at ho
    | [], [_], ho, _ => simp at ho
    | [], [_, _], ho, _ => simp at ho
    | [], _ :: _ :: _ :: _ :: _, ho, _ => simp at ho
    | j :: rest', [], ho, _ => simp at ho
    | j :: rest', [_], ho, _ => simp at ho; omega
    | j :: rest', [_, _], ho, _ => simp at ho; omega
    | j :: rest', [_, _, _], ho, _ => simp at ho; omega

/-- `expand_8bit_into_rgb8` = documented conversion -/
theorem expand8bitIntoRgb8_eq_spec (info : Info) (f : Flags) (pal : Bytes) (memo : List Rgba)
    (w : Nat) (row out : Bytes)
    (hct : info.colorType = .indexed) (hd : info.bitDepth = .eight) (he : f.doExpand = true)
    (ha : addAlpha info f = false) (hpal : info.palette = some pal)
    (hlen : memo.length = 256)
    (hmemo : ∀ i, i < 256 → ∃ e, memo[i]? = some e ∧ entryOk (specPalette pal) info.trns i e)
    (hrow : row.length = w) (hout : out.length = w * 3) :
    expand8bitIntoRgb8 memo row out = .ok (specConvert info f row w) := by
  have hch : info.colorType.samples = 1 := by simp [hct, ColorType.samples]
  have hd' : info.bitDepth ≠ .sixteen := by simp [hd]
  have hen : w ≤ (implSamples info.bitDepth.toNat row).length := by
    simp [implSamples, hd, BitDepth.toNat, hrow]
  rw [specConvert_1ch info f w row hch hd' (Or.inl he) hen,
    expand8bitIntoRgb8_eq memo hlen row out (by omega)]
  simp only [implSamples, hd, BitDepth.toNat, if_true, List.take_of_length_le (Nat.le_of_eq hrow)]
  congr 1
  apply flatMap_congr'
  intro x _
  rw [specPixel_indexed info f pal x _ hct hd' he hpal (memoGet_ok (specPalette pal) info.trns memo hmemo x)]
  simp [ha]

/-! ### selection (`create_transform_fn`) -/

/-- the `assert_eq!(bit_depth, 16)` arm cannot fail for a legal colour type / bit depth pair -/
theorem selectTransform_no_panic (info : Info) (f : Flags)
    (hl : legal info.colorType info.bitDepth = true) : selectTransform info f ≠ .error .panic := by
  obtain ⟨ct, bd, pal, trns⟩ := info
  obtain ⟨e, s, a⟩ := f
  cases ct <;> cases bd <;> simp [legal] at hl <;> cases e <;> cases s <;> cases a <;>
    cases trns <;> cases pal <;> simp [selectTransform, BitDepth.toNat]

/-- no error at all when, in addition, an indexed image has a palette -/
theorem selectTransform_ok (info : Info) (f : Flags)
    (hl : legal info.colorType info.bitDepth = true)
    (hp : info.colorType = .indexed → info.palette.isSome = true) :
    ∃ k, selectTransform info f = .ok k := by
  obtain ⟨ct, bd, pal, trns⟩ := info
  obtain ⟨e, s, a⟩ := f
  cases ct <;> cases bd <;> simp [legal] at hl <;> cases e <;> cases s <;> cases a <;>
    cases trns <;> cases pal <;> simp [selectTransform, BitDepth.toNat] at hp ⊢

/-! ### the combined row theorem -/

theorem selectTransform_eq (info : Info) (f : Flags) : selectTransform info f =
    (if info.colorType = .indexed ∧ f.doExpand = true then
      if info.palette.isNone = true then .error .paletteRequired
      else if info.bitDepth = .sixteen then .error .invalidColorBitDepth
      else if addAlpha info f = true then .ok .paletteRgba
      else if info.bitDepth = .eight then .ok .paletteRgb8
      else .ok .paletteRgb
    else if (info.colorType = .gray ∨ info.colorType = .grayAlpha) ∧ info.bitDepth.toNat < 8
        ∧ f.doExpand = true then
      .ok (if addAlpha info f = true then .grayTrns else .gray)
    else if (info.colorType = .gray ∨ info.colorType = .rgb) ∧ f.doExpand = true
        ∧ addAlpha info f = true then
      if info.bitDepth.toNat = 8 then .ok .trnsLine
      else if (info.bitDepth.toNat == 16 && f.strip16) = true then .ok .trnsStrip16
      else if info.bitDepth.toNat = 16 then .ok .trnsLine16 else .error .panic
    else if (info.colorType = .gray ∨ info.colorType = .grayAlpha ∨ info.colorType = .rgb
        ∨ info.colorType = .rgba) ∧ (info.bitDepth.toNat == 16 && f.strip16) = true then .ok .strip16
    else .ok .copy) := rfl

theorem outLen (info : Info) (f : Flags) (w : Nat) (out : Bytes)
    (hout : outputLineSize info f w = .ok out.length) :
    out.length = (w * (specOutputColor info f).samples * specOutputDepth info f + 7) / 8 := by
  rw [outputLineSize_eq] at hout
  exact (Except.ok.inj hout).symm

/-- pixels that no EXPAND rule touches, depth 8 or 16: `transform_row_strip16` or `copy_row` -/
theorem plain_case (info : Info) (f : Flags) (w : Nat) (row out : Bytes)
    (hd : info.bitDepth = .eight ∨ info.bitDepth = .sixteen)
    (hplain : plainPixel info f) (hcol : specOutputColor info f = info.colorType)
    (hsel : selectTransform info f
      = .ok (if info.bitDepth = .sixteen ∧ f.strip16 = true then .strip16 else .copy))
    (hrow : row.length = (w * info.colorType.samples * info.bitDepth.toNat + 7) / 8)
    (hol : out.length = (w * (specOutputColor info f).samples * specOutputDepth info f + 7) / 8) :
    transformRow info f row out = .ok (specConvert info f row w) := by
  rw [hcol] at hol
  generalize hs : w * info.colorType.samples = s at *
  rcases hd with hd | hd
  · have hed : specExpandedDepth info f = 8 := by simp [specExpandedDepth, hd, BitDepth.toNat]
    simp only [specOutputDepth, hed, hd, BitDepth.toNat, show ¬ ((8 : Nat) = 16 ∧ f.strip16 = true) by omega,
      if_false] at hol hrow
    simp only [transformRow, hsel, hd, show ¬ (BitDepth.eight = BitDepth.sixteen ∧ f.strip16 = true) by simp,
      if_false, applyKind, applyKindWith]
    exact copyRow_eq_spec info f w row out (Or.inr ⟨Or.inl hd, hplain⟩)
      (Or.inl (by rw [hs, hd]; simp only [BitDepth.toNat]; omega)) (by omega)
  · have hed : specExpandedDepth info f = 16 := by simp [specExpandedDepth, hd, BitDepth.toNat]
    by_cases hst : f.strip16 = true
    · simp only [specOutputDepth, hed, hst, and_self, if_true, hd, BitDepth.toNat] at hol hrow
      simp only [transformRow, hsel, hd, hst, and_self, if_true, applyKind, applyKindWith]
      exact transformRowStrip16_eq_spec info f w row out hd hst hplain
        (by rw [← Nat.mul_assoc, hs]; omega) (by rw [hs]; omega)
    · have hst' : f.strip16 = false := by simpa using hst
      simp only [specOutputDepth, hed, hst', hd, BitDepth.toNat, Bool.false_eq_true, and_false,
        if_false] at hol hrow
      simp only [transformRow, hsel, hd, hst', Bool.false_eq_true, and_false, if_false, applyKind, applyKindWith]
      exact copyRow_eq_spec info f w row out (Or.inr ⟨Or.inr ⟨hd, hst'⟩, hplain⟩)
        (Or.inl (by rw [hs, hd]; simp only [BitDepth.toNat]; omega)) (by omega)

theorem legal_cases (ct : ColorType) (bd : BitDepth) (h : legal ct bd = true) :
    (ct = .gray) ∨ (ct = .indexed ∧ bd ≠ .sixteen) ∨
    ((ct = .rgb ∨ ct = .grayAlpha ∨ ct = .rgba) ∧ (bd = .eight ∨ bd = .sixteen)) := by
  cases ct <;> cases bd <;> simp [legal] at h ⊢

theorem depth_cases (bd : BitDepth) : bd.toNat < 8 ∨ bd = .eight ∨ bd = .sixteen := by
  cases bd <;> simp [BitDepth.toNat]

/-- without EXPAND/ALPHA no pixel is touched before STRIP_16 -/
theorem plain_of_not_expand (info : Info) (f : Flags) (he : f.doExpand = false) : plainPixel info f := by
  intro px; simp [specExpandPixel, he]

theorem transformRow_noexpand (info : Info) (f : Flags) (w : Nat) (row out : Bytes)
    (hl : legal info.colorType info.bitDepth = true) (he : f.doExpand = false)
    (hrow : row.length = (w * info.colorType.samples * info.bitDepth.toNat + 7) / 8)
    (hol : out.length = (w * (specOutputColor info f).samples * specOutputDepth info f + 7) / 8) :
    transformRow info f row out = .ok (specConvert info f row w) := by
  have hcol : specOutputColor info f = info.colorType := by simp [specOutputColor, he]
  rcases depth_cases info.bitDepth with hd | hd | hd
  · -- packed samples stay packed
    have hed : specExpandedDepth info f = info.bitDepth.toNat := by simp [specExpandedDepth, he]
    have hsel : selectTransform info f = .ok .copy := by
      rw [selectTransform_eq]
      have : ¬ ((info.bitDepth.toNat == 16 && f.strip16) = true) := by
        simp only [Bool.and_eq_true, beq_iff_eq]; omega
      simp [he, this]
    have hod : specOutputDepth info f = info.bitDepth.toNat := by
      simp only [specOutputDepth, hed]; rw [if_neg (by omega)]
    rw [hcol, hod] at hol
    simp only [transformRow, hsel, applyKind, applyKindWith]
    exact copyRow_eq_spec info f w row out (Or.inl ⟨hd, he⟩) (Or.inr hd) (by omega)
  all_goals
    apply plain_case info f w row out (by simp [hd]) (plain_of_not_expand info f he) hcol _ hrow hol
    rw [selectTransform_eq]
    rcases legal_cases _ _ hl with hc | ⟨hc, hne⟩ | ⟨hc | hc | hc, _⟩ <;>
      cases hs : f.strip16 <;> simp [he, hd, hc, BitDepth.toNat] <;> exact absurd hd hne

/-- grayscale / RGB of depth 8 or 16 with a colour key or ALPHA -/
theorem transformRow_key (info : Info) (f : Flags) (w : Nat) (row out : Bytes)
    (hct : info.colorType = .gray ∨ info.colorType = .rgb)
    (hd : info.bitDepth = .eight ∨ info.bitDepth = .sixteen)
    (he : f.doExpand = true) (ha : addAlpha info f = true)
    (hkey : ∀ t, info.trns = some t →
      t.length = info.colorType.samples * (if info.bitDepth = .sixteen then 2 else 1))
    (hrow : row.length = (w * info.colorType.samples * info.bitDepth.toNat + 7) / 8)
    (hol : out.length = (w * (specOutputColor info f).samples * specOutputDepth info f + 7) / 8) :
    transformRow info f row out = .ok (specConvert info f row w) := by
  have hoc : (specOutputColor info f).samples = info.colorType.samples + 1 := by
    rcases hct with h | h <;> simp [specOutputColor, he, ha, h, ColorType.samples]
  rw [hoc] at hol
  generalize hch : info.colorType.samples = ch at *
  rcases hd with hd | hd
  · have hed : specExpandedDepth info f = 8 := by simp [specExpandedDepth, hd, BitDepth.toNat]
    have hsel : selectTransform info f = .ok .trnsLine := by
      rw [selectTransform_eq]; rcases hct with h | h <;> simp [h, he, ha, hd, BitDepth.toNat]
    simp only [specOutputDepth, hed, hd, BitDepth.toNat, show ¬ ((8 : Nat) = 16 ∧ f.strip16 = true) by omega,
      if_false] at hol hrow
    simp only [transformRow, hsel, applyKind, applyKindWith]
    congr 1
    exact expandTrnsLine_eq_spec info f w row out hd hct he ha (by rw [hch]; omega) (by rw [hch]; omega)
  · have hed : specExpandedDepth info f = 16 := by simp [specExpandedDepth, hd, BitDepth.toNat]
    have hkey' : ∀ t, info.trns = some t → t.length = 2 * info.colorType.samples := by
      intro t ht; have := hkey t ht; simp only [hd, if_true] at this; rw [hch]; omega
    by_cases hst : f.strip16 = true
    · have hsel : selectTransform info f = .ok .trnsStrip16 := by
        rw [selectTransform_eq]; rcases hct with h | h <;> simp [h, he, ha, hd, hst, BitDepth.toNat]
      simp only [specOutputDepth, hed, hst, and_self, if_true, hd, BitDepth.toNat] at hol hrow
      simp only [transformRow, hsel, applyKind, applyKindWith]
      congr 1
      exact expandTrnsAndStripLine16_eq_spec info f w row out hd hct he ha hst hkey'
        (by rw [hch, ← Nat.mul_assoc]; omega) (by rw [hch]; omega)
    · have hst' : f.strip16 = false := by simpa using hst
      have hsel : selectTransform info f = .ok .trnsLine16 := by
        rw [selectTransform_eq]; rcases hct with h | h <;> simp [h, he, ha, hd, hst', BitDepth.toNat]
      simp only [specOutputDepth, hed, hst', hd, BitDepth.toNat, Bool.false_eq_true, and_false,
        if_false] at hol hrow
      simp only [transformRow, hsel, applyKind, applyKindWith]
      congr 1
      exact expandTrnsLine16_eq_spec info f w row out hd hct he ha hst' hkey'
        (by rw [hch, ← Nat.mul_assoc]; omega)
        (by rw [hch]; simp only [Nat.mul_add, Nat.mul_one, ← Nat.mul_assoc] at hol ⊢; omega)

/-- grayscale below 8 bits under EXPAND -/
theorem transformRow_gray_subbyte (info : Info) (f : Flags) (w : Nat) (row out : Bytes)
    (hct : info.colorType = .gray) (hd : info.bitDepth.toNat < 8) (he : f.doExpand = true)
    (hkey : ∀ t, info.trns = some t →
      t.length = info.colorType.samples * (if info.bitDepth = .sixteen then 2 else 1))
    (hrow : row.length = (w * info.colorType.samples * info.bitDepth.toNat + 7) / 8)
    (hol : out.length = (w * (specOutputColor info f).samples * specOutputDepth info f + 7) / 8) :
    transformRow info f row out = .ok (specConvert info f row w) := by
  have hed : specExpandedDepth info f = 8 := by simp [specExpandedDepth, hd, he]
  have hod : specOutputDepth info f = 8 := by simp [specOutputDepth, hed]
  rw [hod] at hol
  by_cases ha : addAlpha info f = true
  · have hsel : selectTransform info f = .ok .grayTrns := by
      rw [selectTransform_eq]; simp [hct, he, ha, hd]
    have hoc : (specOutputColor info f).samples = 2 := by
      simp [specOutputColor, he, ha, hct, ColorType.samples]
    rw [hoc] at hol
    simp only [transformRow, hsel, applyKind, applyKindWith]
    refine expandGrayU8WithTrns_eq_spec info f w row out hct hd he ha ?_ hrow (by omega)
    intro t ht
    have := hkey t ht
    have h16 : info.bitDepth ≠ .sixteen := by intro h; simp [h, BitDepth.toNat] at hd
    simpa [hct, ColorType.samples, h16] using this
  · have ha' : addAlpha info f = false := by simpa using ha
    have hsel : selectTransform info f = .ok .gray := by
      rw [selectTransform_eq]; simp [hct, he, ha', hd]
    have hoc : (specOutputColor info f).samples = 1 := by
      simp [specOutputColor, he, ha', hct, ColorType.samples]
    rw [hoc] at hol
    simp only [transformRow, hsel, applyKind, applyKindWith]
    exact expandGrayU8_eq_spec info f w row out hct hd he ha' hrow (by omega)

/-- indexed images under EXPAND, for a PLTE chunk of any length -/
theorem transformRow_indexed (info : Info) (f : Flags) (w : Nat) (row out : Bytes) (pal : Bytes)
    (hct : info.colorType = .indexed) (hd : info.bitDepth ≠ .sixteen) (he : f.doExpand = true)
    (hpal : info.palette = some pal)
    (hrow : row.length = (w * info.colorType.samples * info.bitDepth.toNat + 7) / 8)
    (hol : out.length = (w * (specOutputColor info f).samples * specOutputDepth info f + 7) / 8) :
    transformRow info f row out = .ok (specConvert info f row w) := by
  have hed := notSixteen_depth info f hd he
  have hod : specOutputDepth info f = 8 := by simp [specOutputDepth, hed]
  rw [hod] at hol
  obtain ⟨memo, hmemo, hlen, hent⟩ := createRgbaPalette_spec pal info.trns
  by_cases ha : addAlpha info f = true
  · have hsel : selectTransform info f = .ok .paletteRgba := by
      rw [selectTransform_eq]; simp [hct, he, ha, hd, hpal]
    have hoc : (specOutputColor info f).samples = 4 := by
      simp [specOutputColor, he, ha, hct, ColorType.samples]
    rw [hoc] at hol
    simp only [transformRow, hsel, applyKind, applyKindWith, hpal, hmemo]
    exact expandPalettedIntoRgba8_eq_spec info f pal memo w row out hct hd he ha hpal hlen hent hrow (by omega)
  · have ha' : addAlpha info f = false := by simpa using ha
    have hoc : (specOutputColor info f).samples = 3 := by
      simp [specOutputColor, he, ha', hct, ColorType.samples]
    rw [hoc] at hol
    by_cases h8 : info.bitDepth = .eight
    · have hsel : selectTransform info f = .ok .paletteRgb8 := by
        rw [selectTransform_eq]; simp [hct, he, ha', hpal, h8]
      simp only [transformRow, hsel, applyKind, applyKindWith, hpal, hmemo]
      refine expand8bitIntoRgb8_eq_spec info f pal memo w row out hct h8 he ha' hpal hlen hent ?_ (by omega)
      rw [hrow, h8, hct]; simp only [ColorType.samples, BitDepth.toNat]; omega
    · have hsel : selectTransform info f = .ok .paletteRgb := by
        rw [selectTransform_eq]; simp [hct, he, ha', hd, hpal, h8]
      simp only [transformRow, hsel, applyKind, applyKindWith, hpal, hmemo]
      exact expandIntoRgb8_eq_spec info f pal memo w row out hct hd he ha' hpal hlen hent hrow (by omega)

/-- **Row theorem.**  For well-formed metadata, every flag set, every width, every row of the raw
    row length and every prior content of an output buffer of the advertised line size: the
    selected transform neither errors nor panics and leaves exactly the documented conversion. -/
theorem transformRow_eq_spec_decodable (info : Info) (f : Flags) (w : Nat) (row out : Bytes)
    (hw : Decodable info)
    (hrow : row.length = rawRowLengthFromWidth info.colorType info.bitDepth w - 1)
    (hout : outputLineSize info f w = .ok out.length) :
    transformRow info f row out = .ok (specConvert info f row w) := by
  rw [rawRowLength_eq] at hrow
  unfold specRowBytes at hrow
  have hol := outLen info f w out hout
  obtain ⟨hl, hpal, hkey⟩ := hw
  by_cases he : f.doExpand = true
  · rcases legal_cases _ _ hl with hc | ⟨hc, hne⟩ | ⟨hc, hd⟩
    · -- grayscale
      rcases depth_cases info.bitDepth with hd | hd | hd
      · exact transformRow_gray_subbyte info f w row out hc hd he
          (fun t ht => hkey t ht (Or.inl hc)) hrow hol
      all_goals
        by_cases ha : addAlpha info f = true
        · exact transformRow_key info f w row out (Or.inl hc) (by simp [hd]) he ha
            (fun t ht => hkey t ht (Or.inl hc)) hrow hol
        · have ha' : addAlpha info f = false := by simpa using ha
          apply plain_case info f w row out (by simp [hd]) _ _ _ hrow hol
          · intro px; simp [specExpandPixel, he, hc, ha', hd, BitDepth.toNat]
          · simp [specOutputColor, he, hc, ha']
          · rw [selectTransform_eq]; cases hs : f.strip16 <;> simp [he, hc, ha', hd, BitDepth.toNat]
    · -- indexed
      have hsome := hpal hc
      cases hp : info.palette with
      | none => simp [hp] at hsome
      | some pal => exact transformRow_indexed info f w row out pal hc hne he hp hrow hol
    · rcases hc with hc | hc | hc
      · -- RGB
        by_cases ha : addAlpha info f = true
        · exact transformRow_key info f w row out (Or.inr hc) hd he ha
            (fun t ht => hkey t ht (Or.inr hc)) hrow hol
        · have ha' : addAlpha info f = false := by simpa using ha
          apply plain_case info f w row out hd _ _ _ hrow hol
          · intro px; simp [specExpandPixel, he, hc, ha']
          · simp [specOutputColor, he, hc, ha']
          · rw [selectTransform_eq]
            rcases hd with hd | hd <;> cases hs : f.strip16 <;> simp [he, hc, ha', hd, BitDepth.toNat]
      all_goals
        apply plain_case info f w row out hd _ _ _ hrow hol
        · intro px; simp [specExpandPixel, he, hc]
        · simp [specOutputColor, he, hc]
        · rw [selectTransform_eq]
          rcases hd with hd | hd <;> cases hs : f.strip16 <;> simp [he, hc, hd, BitDepth.toNat]
  · exact transformRow_noexpand info f w row out hl (by simpa using he) hrow hol

theorem WellFormed.decodable {info : Info} (hw : WellFormed info) : Decodable info :=
  ⟨hw.legal, fun hc => by obtain ⟨p, hp, _⟩ := hw.palette hc; simp [hp], hw.key⟩

/-- the same for valid metadata -/
theorem transformRow_eq_spec (info : Info) (f : Flags) (w : Nat) (row out : Bytes)
    (hw : WellFormed info)
    (hrow : row.length = rawRowLengthFromWidth info.colorType info.bitDepth w - 1)
    (hout : outputLineSize info f w = .ok out.length) :
    transformRow info f row out = .ok (specConvert info f row w) :=
  transformRow_eq_spec_decodable info f w row out hw.decodable hrow hout

/-! ### the documented conversion has the documented size -/

theorem length_flatMap_const {α β : Type} (g : α → List β) (k : Nat) : ∀ (l : List α),
    (∀ x ∈ l, (g x).length = k) → (l.flatMap g).length = l.length * k := by
  intro l
  induction l with
  | nil => intro _; simp
  | cons a t ih =>
    intro h
    simp only [List.flatMap_cons, List.length_append, h a (by simp),
      ih (fun x hx => h x (by simp [hx])), List.length_cons, Nat.succ_mul]
    omega

theorem chunksN_length {α : Type} (k : Nat) : ∀ (n : Nat) (l : List α), (chunksN k n l).length = n := by
  intro n
  induction n with
  | zero => intro l; rfl
  | succ n ih => intro l; simp [chunksN, ih]

theorem serialize_length (d : Nat) (l : List Nat) :
    (serialize d l).length = if d = 16 then 2 * l.length else l.length := by
  unfold serialize
  split
  · rw [length_flatMap_const _ 2 l (fun _ _ => rfl)]; omega
  · simp

theorem specPaletteRgb_length (pal : Bytes) (i : Nat) : (specPaletteRgb pal i).length = 3 := by
  unfold specPaletteRgb; split <;> rfl

theorem specPixel_length (info : Info) (f : Flags) (px : List Nat)
    (hpx : px.length = info.colorType.samples) :
    (specPixel info f px).length = (specOutputColor info f).samples := by
  have h1 : (specPixel info f px).length = (specExpandPixel info f px).length := by
    unfold specPixel; simp only; split <;> simp
  rw [h1]
  unfold specExpandPixel specOutputColor
  by_cases he : f.doExpand = true
  · by_cases ha : addAlpha info f = true <;>
      cases hc : info.colorType <;>
      simp [he, ha, hc, ColorType.samples, specPaletteRgb_length] at hpx ⊢ <;>
      (try split) <;> simp [hpx]
  · simp [he, hpx]

theorem specSamples_enough (info : Info) (w : Nat) (row : Bytes)
    (hrow : row.length = (w * info.colorType.samples * info.bitDepth.toNat + 7) / 8) :
    w * info.colorType.samples ≤ (specSamples info.bitDepth row).length := by
  by_cases h16 : info.bitDepth = .sixteen
  · rw [h16] at hrow ⊢
    simp only [specSamples, be16_length _ row rfl, BitDepth.toNat] at hrow ⊢
    omega
  · rw [specSamples_eq _ h16, List.length_map]
    exact row_enough _ h16 w _ row hrow

/-- the documented conversion of a row of the raw row length has the documented line size -/
theorem specConvert_length (info : Info) (f : Flags) (w : Nat) (row : Bytes)
    (hrow : row.length = (w * info.colorType.samples * info.bitDepth.toNat + 7) / 8) :
    (specConvert info f row w).length = specOutputLineSize info f w := by
  unfold specConvert specOutputLineSize
  by_cases hno : info.bitDepth.toNat < 8 ∧ ¬ f.doExpand = true
  · have he : f.doExpand = false := by simpa using hno.2
    have hed : specExpandedDepth info f = info.bitDepth.toNat := by simp [specExpandedDepth, he]
    have hod : specOutputDepth info f = info.bitDepth.toNat := by
      simp only [specOutputDepth, hed]; rw [if_neg (by omega)]
    have hoc : specOutputColor info f = info.colorType := by simp [specOutputColor, he]
    rw [if_pos hno, hod, hoc, hrow]
  · rw [if_neg hno]
    have hen := specSamples_enough info w row hrow
    have hk : ∀ px ∈ chunksN info.colorType.samples w (specSamples info.bitDepth row),
        (serialize (specOutputDepth info f) (specPixel info f px)).length
          = (if specOutputDepth info f = 16 then 2 else 1) * (specOutputColor info f).samples := by
      intro px hpx
      rw [serialize_length, specPixel_length info f px (mem_chunksN_length _ w _ hen px hpx)]
      split <;> omega
    rw [length_flatMap_const _ _ _ hk, chunksN_length]
    have hdep : specOutputDepth info f = 8 ∨ specOutputDepth info f = 16 := by
      unfold specOutputDepth specExpandedDepth
      cases hb : info.bitDepth <;> simp [hb, BitDepth.toNat] at hno ⊢ <;>
        cases f.strip16 <;> simp [hno]
    generalize (specOutputColor info f).samples = c
    rcases hdep with h | h
    · rw [h, if_neg (by decide), Nat.mul_comm 1 c, Nat.mul_one]
      generalize w * c = s; omega
    · rw [h, if_pos rfl, Nat.mul_comm 2 c, ← Nat.mul_assoc]
      generalize w * c = s; omega

/-! ### exactly when `create_rgba_palette` panics (defect D1) -/

/-- the copy loop panics as soon as the palette is not a whole number of entries or has more
    entries than table rows are left -/
theorem copyEntries_panic : ∀ (slots : List Rgba) (pal : Bytes),
    pal.length % 3 ≠ 0 ∨ pal.length > 3 * slots.length → copyEntries slots pal = .error .panic := by
  intro slots
  induction slots with
  | nil =>
    intro pal h
    match pal with
    | [] => simp at h
    | [_] => simp [copyEntries]
    | [_, _] => simp [copyEntries]
    | [_, _, _] => simp [copyEntries]
    | _ :: _ :: _ :: _ :: _ => simp [copyEntries]
  | cons e s ih =>
    intro pal h
    match pal with
    | [] => simp at h
    | [_] => simp [copyEntries]
    | [_, _] => simp [copyEntries]
    | [_, _, _] => simp at h; omega
    | r :: g :: b :: x :: rest =>
      have := ih (x :: rest) (by simp only [List.length_cons] at h ⊢; omega)
      simp [copyEntries, this]

/-- **pinned tree: `create_rgba_palette` panicked exactly when the PLTE length is not a multiple of
    3 or exceeds 768 bytes** (whatever the tRNS chunk) -/
theorem createRgbaPaletteOld_panic_iff (pal : Bytes) (trns : Option Bytes) :
    createRgbaPaletteOld pal trns = .error .panic ↔ (pal.length % 3 ≠ 0 ∨ pal.length > 768) := by
  constructor
  · intro h
    by_cases hg : pal.length % 3 = 0 ∧ pal.length ≤ 768
    · obtain ⟨memo, hm, _⟩ := createRgbaPaletteOld_spec pal trns hg.1 hg.2
      rw [hm] at h; cases h
    · omega
  · intro h
    have := copyEntries_panic (List.replicate 256 (0, 0, 0, 0xFF)) pal
      (by rw [List.length_replicate]; omega)
    simp only [createRgbaPaletteOld, this]

/-- pinned tree: never any other failure -/
theorem createRgbaPaletteOld_total (pal : Bytes) (trns : Option Bytes) :
    createRgbaPaletteOld pal trns = .error .panic ∨ ∃ memo, createRgbaPaletteOld pal trns = .ok memo := by
  by_cases hg : pal.length % 3 = 0 ∧ pal.length ≤ 768
  · obtain ⟨memo, hm, _⟩ := createRgbaPaletteOld_spec pal trns hg.1 hg.2
    exact Or.inr ⟨memo, hm⟩
  · exact Or.inl ((createRgbaPaletteOld_panic_iff pal trns).mpr (by omega))

/-- **the repaired `create_rgba_palette` is total**: a table of 256 rows for every PLTE and tRNS,
    never a panic -/
theorem createRgbaPalette_total (pal : Bytes) (trns : Option Bytes) :
    ∃ memo, createRgbaPalette pal trns = .ok memo ∧ memo.length = 256 := by
  obtain ⟨memo, hm, hl, _⟩ := createRgbaPalette_spec pal trns
  exact ⟨memo, hm, hl⟩

theorem createRgbaPalette_no_panic (pal : Bytes) (trns : Option Bytes) :
    createRgbaPalette pal trns ≠ .error .panic := by
  obtain ⟨memo, hm, _⟩ := createRgbaPalette_total pal trns
  rw [hm]; intro h; cases h

/-- the repair is conservative: with a valid PLTE (or none) the pinned-tree row transform is the
    repaired one -/
theorem transformRowOld_eq (info : Info) (f : Flags) (row out : Bytes)
    (hguard : ∀ p, info.palette = some p → p.length % 3 = 0 ∧ p.length ≤ 768) :
    transformRowOld info f row out = transformRow info f row out := by
  unfold transformRowOld transformRow applyKind
  cases selectTransform info f with
  | error e => rfl
  | ok k =>
    simp only
    cases hp : info.palette with
    | none => cases k <;> simp [applyKindWith, hp]
    | some p =>
      have hg := hguard p hp
      cases k <;> simp [applyKindWith, hp, createRgbaPalette_eq, specPalette_of_guard p hg.1 hg.2]

/-! ### documented corner cases of the palette lookup -/

theorem entry_of_ok (pal : Bytes) (trns : Option Bytes) (i : Nat) (e : Rgba)
    (h : entryOk pal trns i e) (hrgb : specPaletteRgb pal i = [0, 0, 0])
    (ha : specPaletteAlpha pal trns i = 255) : e = (0, 0, 0, 0xFF) := by
  obtain ⟨e1, e2, e3, e4⟩ := e
  obtain ⟨h1, h2⟩ := h
  rw [hrgb] at h1; rw [ha] at h2
  simp only [Rgba.rgbBytes, List.map_cons, List.map_nil, List.cons.injEq, and_true] at h1
  simp only [Rgba.a] at h2
  have := UInt8.toNat_inj.mp (show e1.toNat = (0 : UInt8).toNat from h1.1)
  have := UInt8.toNat_inj.mp (show e2.toNat = (0 : UInt8).toNat from h1.2.1)
  have := UInt8.toNat_inj.mp (show e3.toNat = (0 : UInt8).toNat from h1.2.2)
  have := UInt8.toNat_inj.mp (show e4.toNat = (255 : UInt8).toNat from h2)
  simp_all

theorem specPaletteAlpha_out_of_range (pal : Bytes) (trns : Option Bytes) (i : Nat)
    (hi : pal.length / 3 ≤ i) : specPaletteAlpha pal trns i = 255 := by
  unfold specPaletteAlpha
  cases trns with
  | none => rfl
  | some t =>
    simp only
    split
    · next h => simp [List.getElem?_eq_none (show t.length ≤ i by omega)]
    · rfl

/-- an index beyond the palette is looked up as opaque black in the memo table -/
theorem memo_out_of_range (pal : Bytes) (trns : Option Bytes) (memo : List Rgba)
    (hm : createRgbaPalette pal trns = .ok memo) (i : Nat) (hi : min (pal.length / 3) 256 ≤ i)
    (h256 : i < 256) :
    memo[i]? = some (0, 0, 0, 0xFF) := by
  obtain ⟨memo', hm', _, hent⟩ := createRgbaPalette_spec pal trns
  rw [hm] at hm'; cases hm'
  obtain ⟨e, he, hok⟩ := hent i h256
  have hi' : (specPalette pal).length / 3 ≤ i := by rw [specPalette_entries]; exact hi
  have hlen := specPalette_length pal
  rw [he, entry_of_ok (specPalette pal) trns i e hok (by simp [specPaletteRgb]; omega)
    (specPaletteAlpha_out_of_range (specPalette pal) trns i hi')]

/-- a tRNS chunk with more entries than the palette is ignored: the memo table is that of an empty tRNS -/
theorem createRgbaPalette_trns_longer (pal t : Bytes) (h : min (pal.length / 3) 256 < t.length) :
    createRgbaPalette pal (some t) = createRgbaPalette pal (some []) := by
  have h' : ¬ (t.length ≤ (specPalette pal).length / 3) := by rw [specPalette_entries]; omega
  simp only [createRgbaPalette_eq, createRgbaPaletteOld, Option.getD_some, h',
    if_false, List.length_nil, Nat.zero_le, if_true]

theorem specConvert_trns_longer (info : Info) (f : Flags) (row : Bytes) (w : Nat) (pal t : Bytes)
    (hct : info.colorType = .indexed) (hp : info.palette = some pal) (ht : info.trns = some t)
    (h : min (pal.length / 3) 256 < t.length) :
    specConvert info f row w = specConvert { info with trns := some [] } f row w := by
  have h' : ¬ (t.length ≤ (specPalette pal).length / 3) := by rw [specPalette_entries]; omega
  have hpx : ∀ px, specPixel info f px = specPixel { info with trns := some [] } f px := by
    intro px
    simp [specPixel, specExpandedDepth, specExpandPixel, hct, hp, ht, addAlpha, specPaletteAlpha, h']
  simp only [specConvert, hpx]
  rfl

/-! ### `parse_trns` keeps the key's sample values -/

/-- for depths below 16 the stored key (low bytes only) has the sample values of the 16-bit key
    in the chunk, provided the chunk is well formed (high bytes zero, as the PNG specification
    requires for depths below 16) -/
theorem parseTrns_gray (d : BitDepth) (hd : d ≠ .sixteen) (l : UInt8) :
    ∃ t, parseTrns .gray d [0, l] = some t ∧ t.map (·.toNat) = be16 [0, l] := by
  refine ⟨[l], ?_, by simp [be16]⟩
  cases d <;> simp [parseTrns, BitDepth.toNat] at hd ⊢

theorem parseTrns_rgb (d : BitDepth) (hd : d ≠ .sixteen) (r g b : UInt8) :
    ∃ t, parseTrns .rgb d [0, r, 0, g, 0, b] = some t ∧ t.map (·.toNat) = be16 [0, r, 0, g, 0, b] := by
  refine ⟨[r, g, b], ?_, by simp [be16]⟩
  cases d <;> simp [parseTrns, BitDepth.toNat] at hd ⊢

theorem parseTrns_sixteen (ct : ColorType) (hct : ct = .gray ∨ ct = .rgb) (raw : Bytes)
    (hlen : raw.length = 2 * ct.samples) : parseTrns ct .sixteen raw = some raw := by
  rcases hct with rfl | rfl <;> simp [parseTrns, BitDepth.toNat, ColorType.samples] at hlen ⊢ <;> omega

/-! ### decidable equality of outcomes (for `decide`d examples) -/

instance : DecidableEq (Except Err Bytes)
  | .ok a, .ok b => if h : a = b then isTrue (by rw [h]) else isFalse (fun h' => h (Except.ok.inj h'))
  | .error a, .error b =>
    if h : a = b then isTrue (by rw [h]) else isFalse (fun h' => h (Except.error.inj h'))
  | .ok _, .error _ => isFalse (fun h => by cases h)
  | .error _, .ok _ => isFalse (fun h => by cases h)

instance : DecidableEq (Except Err (List Rgba))
  | .ok a, .ok b => if h : a = b then isTrue (by rw [h]) else isFalse (fun h' => h (Except.ok.inj h'))
  | .error a, .error b =>
    if h : a = b then isTrue (by rw [h]) else isFalse (fun h' => h (Except.error.inj h'))
  | .ok _, .error _ => isFalse (fun h => by cases h)
  | .error _, .ok _ => isFalse (fun h => by cases h)

end Png.Transform
