import PngVerif.Model.Util
import PngVerif.Model.Transform
/-! Line protocol for C08 (see harness/src/props/c08.rs).

Common fields: `<color>` 0|2|3|4|6, `<depth>` 1|2|4|8|16, `<flags>` 0..7 (bit0 EXPAND, bit1 STRIP_16,
bit2 ALPHA), `<plte>` / `<trns>` lowercase hex, `-` for an empty chunk, `none` for an absent one
(`trns` is the chunk as stored in `Info.trns`, i.e. after `parse_trns`).

  `c08 row <color> <depth> <flags> <width> <plte> <trns> <rowhex>`
      the row transform applied to `rowhex` with an output buffer of `outputLineSize width` bytes
      pre-filled with 0x5a
      -> `<outColor> <outDepth> <lineSize> <hex transformRow> <hex specConvert>`
         or `panic` / `err:PaletteRequired` / `err:InvalidColorBitDepth`
  `c08 rowout <color> <depth> <flags> <plte> <trns> <rowhex> <outhex>`
      the same with an explicit prior output buffer of any length -> `<hex transformRow>` | `panic` | `err:…`
  `c08 sizes <color> <depth> <flags> <width> <height> <trns>`
      -> `<outColor> <outDepth> <lineSize> <bufferSize> <specColor> <specDepth> <specLineSize>` | `panic`
  `c08 memo <plte> <trns>` -> hex of the 256 x 4 bytes of `createRgbaPalette` (the repaired function:
      whole entries, at most 256) | `panic`
  `c08 memoold <plte> <trns>` -> the same for `createRgbaPaletteOld` (pinned tree a1124db)
  `c08 parsetrns <color> <depth> <rawhex>` -> hex of what `parse_trns` stores | `none` -/
namespace Png.Driver
open Png Png.Transform

def optHex (s : String) : Option (Option Bytes) :=
  if s == "none" then some none else (parseHexL s).map some

def c08Info (color depth plte trns : String) : Option Info :=
  match color.toNat? >>= ColorType.ofNat?, depth.toNat? >>= BitDepth.ofNat?, optHex plte, optHex trns with
  | some c, some d, some p, some t => some ⟨c, d, p, t⟩
  | _, _, _, _ => none

def c08Flags (s : String) : Option Flags :=
  match s.toNat? with
  | some n => if n < 8 then some (Flags.ofNat n) else none
  | none => none

def c08 (args : List String) : String :=
  match args with
  | ["row", color, depth, flags, width, plte, trns, row] =>
    match c08Info color depth plte trns, c08Flags flags, width.toNat?, parseHexL row with
    | some info, some f, some w, some row =>
      match outputColorType info f, outputLineSize info f w with
      | .ok (oc, od), .ok ls =>
        match transformRow info f row (List.replicate ls 0x5a) with
        | .ok out => s!"{oc.toNat} {od.toNat} {ls} {toHexL out} {toHexL (specConvert info f row w)}"
        | .error e => e.toString
      | .error e, _ => e.toString
      | _, .error e => e.toString
    | _, _, _, _ => "bad-op"
  | ["rowout", color, depth, flags, plte, trns, row, out] =>
    match c08Info color depth plte trns, c08Flags flags, parseHexL row, parseHexL out with
    | some info, some f, some row, some out =>
      match transformRow info f row out with
      | .ok out => toHexL out
      | .error e => e.toString
    | _, _, _, _ => "bad-op"
  | ["sizes", color, depth, flags, width, height, trns] =>
    match c08Info color depth "none" trns, c08Flags flags, width.toNat?, height.toNat? with
    | some info, some f, some w, some h =>
      match outputColorType info f, outputLineSize info f w, outputBufferSize info f w h with
      | .ok (oc, od), .ok ls, .ok bs =>
        let (sc, sd) := specOutputColorType info f
        s!"{oc.toNat} {od.toNat} {ls} {bs} {sc.toNat} {sd} {specOutputLineSize info f w}"
      | _, _, _ => "panic"
    | _, _, _, _ => "bad-op"
  | ["memo", plte, trns] =>
    match parseHexL plte, optHex trns with
    | some p, some t =>
      match createRgbaPalette p t with
      | .ok memo => toHexL (memo.flatMap Rgba.toBytes)
      | .error e => e.toString
    | _, _ => "bad-op"
  | ["memoold", plte, trns] =>
    match parseHexL plte, optHex trns with
    | some p, some t =>
      match createRgbaPaletteOld p t with
      | .ok memo => toHexL (memo.flatMap Rgba.toBytes)
      | .error e => e.toString
    | _, _ => "bad-op"
  | ["parsetrns", color, depth, raw] =>
    match color.toNat? >>= ColorType.ofNat?, depth.toNat? >>= BitDepth.ofNat?, parseHexL raw with
    | some c, some d, some raw =>
      match parseTrns c d raw with
      | some t => toHexL t
      | none => "none"
    | _, _, _ => "bad-op"
  | _ => "bad-op"

end Png.Driver
