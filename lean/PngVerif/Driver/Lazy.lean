import PngVerif.Model.LazyReader
/-! Line protocol of the lazy `Reader` model (`Model/LazyReader.lean`; harness: `harness/src/props/c04_lazy.rs`).

  `lazy run <interlaced 0|1> <rem0> <frames> <arrival> <ops>`

  * `<frames>`: frames separated by `,`; a frame is `<rows>/<avail>` where `<rows>` is a `+`-separated list of
    `<count>x<rowlen>` groups (row-units in delivery order; `-` for no rows), e.g. `32x1025/32800` or `1x2+1x2+2x3/12`;
  * `<arrival>`: `eager` (everything with the first pull, `Done` brings nothing), `lazy-all` (everything together
    with `Done`), or an explicit list, one entry per frame separated by `,`: `<pulls>:<last>` with `<pulls>` a
    `+`-separated list of byte counts (`-` for none), e.g. `1+0+5:9,-:12`;
  * `<ops>`: `,`-separated calls `nf` (next_frame), `nr` / `rr` (next_row / read_row), `fi` (next_frame_info),
    `fin` (finish).

  Answer: `<results> | polled=<0|1> strict=<0|1> valid=<0|1>` where `<results>` are space-separated tokens
  `row(k,i)`, `none`, `frame(k,lo,n)` (rows `lo..lo+n-1` written; `frame(k,?i.j...)` if not a range), `fctl(k)`, `ok`,
  `err(polled|nomore|missing|eof)`, `PANIC(site)`; `polled` = `polledRes` of the run (the class of
  `lazy_arrival_independent_partial`), `strict` = `polledStrictRes`, `valid` = the arrival hands out exactly each
  frame's data (`Env.validB`).  `noreader` if the file has no frame; `bad-op` for anything unparsable. -/
namespace Png.Driver
open Png.Lazy

namespace LazyDrv

def parseList (sep : String) (s : String) (f : String → Option α) : Option (List α) :=
  if s == "-" then some [] else (s.splitOn sep).mapM f

def parseGroup (s : String) : Option (List Nat) :=
  match s.splitOn "x" with
  | [c, l] => match c.toNat?, l.toNat? with
    | some c, some l => some (List.replicate c l)
    | _, _ => none
  | _ => none

def parseFrame (s : String) : Option Frame :=
  match s.splitOn "/" with
  | [rows, avail] =>
    match parseList "+" rows parseGroup, avail.toNat? with
    | some gs, some a => some ⟨gs.flatten, a⟩
    | _, _ => none
  | _ => none

def parseArrival1 (s : String) : Option Arrival :=
  match s.splitOn ":" with
  | [pulls, last] =>
    match parseList "+" pulls (fun (t : String) => t.toNat?), last.toNat? with
    | some ps, some l => some ⟨ps, l⟩
    | _, _ => none
  | _ => none

def parseArrivals (frames : List Frame) (s : String) : Option (List Arrival) :=
  if s == "eager" then some (frames.map fun f => Arrival.eager f.avail)
  else if s == "lazy-all" then some (frames.map fun f => Arrival.lazyAll f.avail)
  else parseList "," s parseArrival1

def parseOp (s : String) : Option Op :=
  if s == "nf" then some .nextFrame
  else if s == "nr" || s == "rr" then some .nextRow
  else if s == "fi" then some .nextFrameInfo
  else if s == "fin" then some .finish
  else none

def siteStr : Site → String
  | .markAssert => "assert-remaining-frames"
  | .finishAssert => "assert-interlace-info-none"
  | .pullOutside => "decode-image-data-outside"
  | .readInside => "read-until-image-data-inside"
  | .fuel => "fuel"

def isRange' (w : List Nat) : Bool :=
  match w with
  | [] => true
  | lo :: _ => w == List.range' lo w.length

def resStr : Res → String
  | .row k i => s!"row({k},{i})"
  | .none => "none"
  | .frame k w =>
    if isRange' w then s!"frame({k},{w.headD 0},{w.length})"
    else s!"frame({k},?{".".intercalate (w.map toString)})"
  | .fctl k => s!"fctl({k})"
  | .ok => "ok"
  | .err .polled => "err(polled)"
  | .err .noMoreImageData => "err(nomore)"
  | .err .missingImageData => "err(missing)"
  | .err .eof => "err(eof)"
  | .panic s => s!"PANIC({siteStr s})"

def b01 (b : Bool) : String := if b then "1" else "0"

end LazyDrv

open LazyDrv in
def «lazy» (args : List String) : String :=
  match args with
  | ["run", il, rem0, frames, arrival, ops] =>
    match il.toNat?, rem0.toNat?, parseList "," frames parseFrame with
    | some il, some rem0, some fr =>
      if il > 1 then "bad-op" else
      match parseArrivals fr arrival, parseList "," ops parseOp with
      | some arrs, some ops =>
        let e : Env := ⟨il == 1, fr, arrs⟩
        match init e rem0 with
        | none => "noreader"
        | some s0 =>
          let rs := (run e s0 ops).2
          let toks := " ".intercalate (rs.map resStr)
          s!"{toks} | polled={b01 (polledRes fr false ops rs)} strict={b01 (polledStrictRes fr false ops rs)} valid={b01 e.validB}"
      | _, _ => "bad-op"
    | _, _, _ => "bad-op"
  | _ => "bad-op"

end Png.Driver
