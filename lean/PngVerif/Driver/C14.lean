import PngVerif.Model.ScanlinesImpl
import PngVerif.Model.Util
import PngVerif.Model.Filter
/-! Line protocol for C14 (see harness/src/props/c14.rs).
  `c14 paeth <c>`                       -> hex of paethSpec a b c for all (a,b), index a*256+b
  `c14 avg`                             -> hex of floor((a+b)/2) for all (a,b)
  `c14 unfilter <ft> <bpp> <prev> <cur>` -> `<hex unfilterImpl> <hex reconRow>`
  `c14 filter <ft|5> <bpp> <prev> <cur>` -> `<type used> <hex filterImpl/adaptive> <hex filtRow>` -/
namespace Png.Driver
open Png

def ftOfString (s : String) : Option FilterType := s.toNat? >>= FilterType.ofNat?

def c14 (args : List String) : String :=
  match args with
  | ["paeth", c] =>
    match c.toNat? with
    | some cn =>
      if cn ≥ 256 then "bad-op" else
      let c8 := cn.toUInt8
      let row := (List.range 65536).map fun i => paethSpec (i / 256).toUInt8 (i % 256).toUInt8 c8
      toHexL row
    | none => "bad-op"
  | ["avg"] =>
    toHexL ((List.range 65536).map fun i => avgWide (i / 256).toUInt8 (i % 256).toUInt8)
  | ["unfilter", ft, bpp, prev, cur] =>
    match ftOfString ft, bpp.toNat?, parseHexL prev, parseHexL cur with
    | some ft, some bpp, some prev, some cur =>
      s!"{toHexL (unfilterImpl ft bpp prev cur)} {toHexL (reconRow ft bpp prev cur)}"
    | _, _, _, _ => "bad-op"
  | ["filter", ft, bpp, prev, cur] =>
    match ft.toNat?, bpp.toNat?, parseHexL prev, parseHexL cur with
    | some 5, some bpp, some prev, some cur =>
      let (ft, out) := adaptive bpp prev cur
      s!"{ft.toNat} {toHexL out} {toHexL (filtRow ft bpp prev cur)}"
    | some f, some bpp, some prev, some cur =>
      match FilterType.ofNat? f with
      | some ft => s!"{ft.toNat} {toHexL (filterImpl ft bpp prev cur)} {toHexL (filtRow ft bpp prev cur)}"
      | none => "bad-op"
    | _, _, _, _ => "bad-op"
  | ["image", setting, bpp, rb, rows] =>
    -- one image / pass / frame: the scanline stream the encoder's row loop emits, and whether the decoder's loop gives the rows back
    match setting.toNat?, bpp.toNat?, rb.toNat?, parseHexL rows with
    | some f, some bpp, some rb, some bytes =>
      if rb = 0 || bytes.length % rb ≠ 0 then "bad-op" else
      let setting? : Option (Option FilterType) := if f = 5 then some none else (FilterType.ofNat? f).map some
      match setting? with
      | none => "bad-op"
      | some st =>
        let rws := (List.range (bytes.length / rb)).map fun i => (bytes.drop (i * rb)).take rb
        let stream := encodeRowsImpl st bpp (List.replicate rb 0) rws
        let back := decodeRowsImpl bpp rb rws.length [] stream
        s!"{toHexL stream} {if back == some rws then "inverse" else "not-inverse"}"
    | _, _, _, _ => "bad-op"
  | _ => "bad-op"

end Png.Driver
