import PngVerif.Model.Unfiltering
import PngVerif.Model.ZlibWindow
import PngVerif.Model.Crc
import PngVerif.Model.Util
/-! Line protocol for the two buffer components of the decoder (C01 component ties, through hooks).
  `cmp zw <maxTotal|max> <k1,k2,…>` — `ZlibStream`: one `decompress` call per `k` (bytes the inflater produced in that call);
      answer: `bufLen:outPos:readPos` after each call, space separated (`panic` if the model says the call panics).
  `cmp ub <rowlen> <bpp> <op,op,…>` — `UnfilteringBuffer`: ops `a<hex>` (as_mut_vec + append), `u` (unfilter_curr_row), `r` (reset_prev_row);
      answer: per op `prevStart:curStart:len:fnv(data)` | `err<filter byte>` | `panic`. -/
namespace Png.Driver
open Png

def hex64c (x : UInt64) : String :=
  String.ofList ((List.range 16).map fun i => hexChar ((x >>> (4 * (15 - i)).toUInt64) &&& 15).toUInt8)

def cmp (args : List String) : String :=
  match args with
  | ["zw", mt, ks] =>
    match (if mt == "max" then some usizeMax else mt.toNat?), (ks.splitOn ",").mapM (·.toNat?) with
    | some m, some kl =>
      let O : Bytes := List.replicate (kl.foldl (· + ·) 0) 0
      let z0 := ZW.init.setMaxTotal m
      let (_, outs) := kl.foldl (fun (acc : Option ZW × List String) k =>
        match acc.1 with
        | none => (none, acc.2 ++ ["panic"])
        | some z =>
          match z.decompress ZCfg.current O k with
          | none => (none, acc.2 ++ ["panic"])
          | some z' => (some z', acc.2 ++ [s!"{z'.bufLen}:{z'.hist.length}:{z'.readPos}"])) (some z0, [])
      " ".intercalate outs
    | _, _ => "bad-op"
  | ["ub", rowlen, bpp, ops] =>
    match rowlen.toNat?, bpp.toNat? with
    | some rl, some bp =>
      let step (acc : Option UB × List String) (op : String) : Option UB × List String :=
        match acc.1 with
        | none => (none, acc.2 ++ ["dead"])
        | some u =>
          let show_ (u : UB) : String := s!"{u.prevStart}:{u.curStart}:{u.data.length}:{hex64c (fnv64 (ofList u.data))}"
          if op == "u" then
            match u.unfilterCurr rl bp with
            | .ok u' => (some u', acc.2 ++ [show_ u'])
            | .unknownFilter b => (some u, acc.2 ++ [s!"err{b.toNat}"])
            | .panic => (none, acc.2 ++ ["panic"])
          else if op == "r" then let u' := u.resetPrev; (some u', acc.2 ++ [show_ u'])
          else if op.startsWith "a" then
            match parseHexL (op.drop 1).toString with
            | some bs => let u' := u.append bs; (some u', acc.2 ++ [show_ u'])
            | none => (none, acc.2 ++ ["bad-op"])
          else (none, acc.2 ++ ["bad-op"])
      let (_, outs) := (ops.splitOn ",").foldl step (some UB.new, [])
      " ".intercalate outs
    | _, _ => "bad-op"
  | _ => "bad-op"

end Png.Driver
