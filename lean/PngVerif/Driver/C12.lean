import PngVerif.Model.Validator
import PngVerif.Model.Encoder
/-! Line protocol for C12 / C19 (see harness/src/props/c12.rs, c19.rs).

  `c12 validate <filehex>`  -> `ok` | `bad <reason>`        (`Val.validPng`, reason = first rule broken)

  `c12 run <cfg> <sink> <table> <steps> <final>` -> one line
      `hdr=<res> ops=<res,…> fin=<res,…> iend=<n> n=<bytes> fnv=<16 hex> sk=<skeleton> v=<ok|reason>`
    (`Enc.runProg`; alias `c12 skeleton …`).  `res` = `ok` | `err:<Err>` | `panic:<PanicSite>`; the results of
    a stream-writer session are bracketed: `[new,op,…,end]`.  `iend` = IEND emissions attempted, `n`/`fnv` =
    number / FNV-1a-64 of the bytes the sink accepted, `sk` = the completely accepted chunks
    `TYPE:len` joined by `/` (`fcTL:26:<hex of the 26 bytes>`, `acTL:8:<hex>`: every field of the chunk;
    `fdAT:len:seq`),
    `v` = `validPng` of the accepted bytes.

  cfg   : comma-separated `key=value`: `w= h= c=<colour type> d=<depth>` `an=<frames>:<plays>` (animated as
          by `set_animated`: full-canvas frame control, sequence number 0) `fc=seq:w:h:x:y:dn:dd:dispose:blend`
          (explicit `Info::frame_control`, as `Encoder::with_info` accepts it) `pal=<hex>` `trns=<hex>`
          `phys=<hex>` `srgb=<n>` `gama=<n>` `chrm=<hex>` `iccp=<hex chunk data>` `exif=<hex>`
          `t=<TYPE>:<hex>` / `t=!` (text chunk of the Info, in order; `!` = its encode fails) `sep=1` `val=1`
  sink  : `-` | `w<N>` | `w<N>o` | `f<K>` | `f<K>o` | `w…+f…`   (byte offset at which write fails / index of the
          failing flush; `o` = once)
  table : `-` | comma-separated `<keyhex>:<zhex>`: what the real compressor answered.  Key for
          `write_image_data`: the image data; for the stream writer: the scanlines with filter type 0
          (`00 row 00 row …`).  Without an entry a stored-block zlib stream is used.
  steps : `-` | `;`-separated: `I<datahex>` image · `C<TYPE>:<hex>` raw chunk · `T<TYPE>:<hex>` / `T!` text chunk ·
          `sd<n>:<d>` delay · `sz<w>:<h>` dimension · `sp<x>:<y>` position · `rz` · `rp` reset · `sb<n>` blend ·
          `so<n>` dispose · `S<size>[<sops>]<F|D>` borrowed stream writer, sops `,`-separated: `w<hex>` write_all ·
          `f` flush · the setter codes; `F` = `finish()`, `D` = drop
  final : `F` | `D` | `X<size>[<sops>]<F|D>` (`into_stream_writer_with_size`)
-/
namespace Png.Driver.C12d
open Png Png.Val Png.Enc

def hex64' (x : UInt64) : String :=
  String.ofList ((List.range 16).map fun i => hexChar ((x >>> (4 * (15 - i)).toUInt64) &&& 15).toUInt8)

/-! ### a stored-block zlib encoder (valid streams for the model's own output) -/

def storedBlocks : Nat → Bytes → Bytes
  | 0, _ => [1, 0, 0, 255, 255]
  | fuel+1, d =>
    if d.length ≤ 65535 then
      [1, (d.length % 256).toUInt8, (d.length / 256).toUInt8, ((65535 - d.length) % 256).toUInt8, ((65535 - d.length) / 256).toUInt8] ++ d
    else [0, 255, 255, 0, 0] ++ d.take 65535 ++ storedBlocks fuel (d.drop 65535)

def storedZlib (d : Bytes) : Bytes :=
  [0x78, 0x01] ++ storedBlocks (d.length / 65535 + 1) d ++ be32Bytes (adler32 (ofList d))

def noneScanlines (rowLen : Nat) : Nat → Bytes → Bytes
  | 0, _ => []
  | h+1, d => 0 :: d.take rowLen ++ noneScanlines rowLen h (d.drop rowLen)

abbrev Table := List (Bytes × Bytes)

def tableCodec (t : Table) : Codec :=
  { encode := fun _ rowLen h data => match t.lookup data with
      | some z => z
      | none => storedZlib (noneScanlines rowLen h data) }

def writtenOf (hist : List ZOp) : Bytes :=
  (hist.map fun o => match o with | .write d => d | _ => []).flatten

def tableZ (t : Table) : ZCodec :=
  { out := fun hist op => match op with
      | .finish => (match t.lookup (writtenOf hist) with
        | some z => z
        | none => storedZlib (writtenOf hist))
      | _ => []
    row := fun _ _ cur => 0 :: cur }

/-! ### parsing -/

def tyOfName (s : String) : Option Ty := if s.length = 4 then some (tyOfString s) else none

def nats (s : String) (sep : String := ":") : Option (List Nat) := (s.splitOn sep).mapM (·.toNat?)

def parseSink (s : String) : Option SinkBehaviour :=
  if s == "-" then some {} else
  (s.splitOn "+").foldlM (fun (b : SinkBehaviour) (t : String) =>
    let once := t.endsWith "o"
    let body := if once then (t.dropEnd 1).toString else t
    match (body.drop 1).toString.toNat? with
    | none => none
    | some n =>
      if body.startsWith "w" then some { b with writeFailAt := some n, writeOnce := once }
      else if body.startsWith "f" then some { b with flushFailAt := some n, flushOnce := once }
      else none) {}

def parseTable (s : String) : Option Table :=
  if s == "-" then some [] else
  (s.splitOn ",").mapM fun e => match e.splitOn ":" with
    | [k, z] => do pure ((← parseHexL k), (← parseHexL z))
    | _ => none

def parseTyHex (s : String) : Option RChunk :=
  match s.splitOn ":" with
  | [t, h] => do pure ⟨← tyOfName t, ← parseHexL h⟩
  | _ => none

def parseText (s : String) : Option (Option RChunk) :=
  if s == "!" then some none else (parseTyHex s).map some

def parseFC (s : String) : Option FC :=
  match nats s with
  | some [seq, w, h, x, y, dn, dd, di, bl] => some { seq, w, h, x, y, delayNum := dn, delayDen := dd, dispose := di, blend := bl }
  | _ => none

def parseCfg (s : String) : Option Cfg :=
  (s.splitOn ",").foldlM (fun (c : Cfg) (kv : String) =>
    match kv.splitOn "=" with
    | [k, v] =>
      match k with
      | "w" => v.toNat?.map fun n => { c with width := n }
      | "h" => v.toNat?.map fun n => { c with height := n }
      | "c" => v.toNat?.map fun n => { c with color := n }
      | "d" => v.toNat?.map fun n => { c with depth := n }
      | "an" => match nats v with
        | some [f, p] => some { c with actl := some (f, p), fctl := c.fctl.orElse fun _ => some { w := c.width, h := c.height } }
        | _ => none
      | "fc" => (parseFC v).map fun f => { c with fctl := some f }
      | "pal" => (parseHexL v).map fun b => { c with palette := some b }
      | "trns" => (parseHexL v).map fun b => { c with trns := some b }
      | "phys" => (parseHexL v).map fun b => { c with md := { c.md with phys := some b } }
      | "srgb" => v.toNat?.map fun n => { c with md := { c.md with srgb := some n } }
      | "gama" => v.toNat?.map fun n => { c with md := { c.md with gama := some n } }
      | "chrm" => (parseHexL v).map fun b => { c with md := { c.md with chrm := some b } }
      | "iccp" => (parseHexL v).map fun b => { c with md := { c.md with iccp := some b } }
      | "exif" => (parseHexL v).map fun b => { c with md := { c.md with exif := some b } }
      | "t" => (parseText v).map fun t => { c with texts := c.texts ++ [t] }
      | "sep" => some { c with sepDefImg := v == "1" }
      | "val" => some { c with validate := v == "1" }
      | _ => none
    | _ => none) { width := 0, height := 0 }

def parseSetOp (s : String) : Option SetOp :=
  let two (p : String) : Option (Nat × Nat) := match nats (s.drop p.length).toString with
    | some [a, b] => some (a, b)
    | _ => none
  if s == "rz" then some .resetDim
  else if s == "rp" then some .resetPos
  else if s.startsWith "sd" then (two "sd").map fun (a, b) => .delay a b
  else if s.startsWith "sz" then (two "sz").map fun (a, b) => .dim a b
  else if s.startsWith "sp" then (two "sp").map fun (a, b) => .pos a b
  else if s.startsWith "sb" then (s.drop 2).toString.toNat?.map .blend
  else if s.startsWith "so" then (s.drop 2).toString.toNat?.map .dispose
  else none

def parseSOp (s : String) : Option SOp :=
  if s == "f" then some .flush
  else if s.startsWith "w" then (parseHexL (s.drop 1).toString).map .write
  else (parseSetOp s).map .set

def parseFinal (s : String) : Option Final :=
  if s == "F" then some .finish else if s == "D" then some .drop else none

/-- `<size>[<sops>]<F|D>` -/
def parseSession (s : String) : Option (Nat × List SOp × Final) :=
  match s.splitOn "[" with
  | [size, rest] =>
    match rest.splitOn "]" with
    | [ops, fin] => do
      let n ← size.toNat?
      let f ← parseFinal fin
      let l ← if ops == "" then some [] else (ops.splitOn ",").mapM parseSOp
      pure (n, l, f)
    | _ => none
  | _ => none

def setOpToOp : SetOp → Op
  | .delay n d => .setDelay n d
  | .dim w h => .setDim w h
  | .pos x y => .setPos x y
  | .resetDim => .resetDim
  | .resetPos => .resetPos
  | .blend b => .setBlend b
  | .dispose d => .setDispose d

def parseStep (s : String) : Option Step :=
  if s.startsWith "I" then (parseHexL (s.drop 1).toString).map fun d => .op (.image d)
  else if s.startsWith "C" then (parseTyHex (s.drop 1).toString).map fun c => .op (.chunk c.ty c.data)
  else if s.startsWith "T" then (parseText (s.drop 1).toString).map fun t => .op (.text t)
  else if s.startsWith "S" then (parseSession (s.drop 1).toString).map fun (n, l, f) => .stream n l f
  else (parseSetOp s).map fun o => .op (setOpToOp o)

def parseSteps (s : String) : Option (List Step) :=
  if s == "-" then some [] else (s.splitOn ";").mapM parseStep

def parsePFinal (s : String) : Option PFinal :=
  if s == "F" then some .finish
  else if s == "D" then some .drop
  else if s.startsWith "X" then (parseSession (s.drop 1).toString).map fun (n, l, f) => .intoStream n l f
  else none

/-! ### printing -/

def errName : Err → String
  | .zeroWidth => "zeroWidth" | .zeroHeight => "zeroHeight" | .invalidColor => "invalidColor"
  | .noPalette => "noPalette" | .writtenTooMuch => "writtenTooMuch" | .notAnimated => "notAnimated"
  | .outOfBounds => "outOfBounds" | .endReached => "endReached" | .zeroFrames => "zeroFrames"
  | .missingFrames => "missingFrames" | .missingData => "missingData" | .unrecoverable => "unrecoverable"
  | .badText => "badText" | .imageBufferSize => "imageBufferSize" | .limits => "limits" | .io => "io"
  | .writeZero => "writeZero"

def siteName : PanicSite → String
  | .chunksZero => "chunksZero" | .resetDimUnderflow => "resetDimUnderflow"
  | .animWrittenOverflow => "animWrittenOverflow"
  | .rowSlice => "rowSlice"
  | .unreachableWrapper => "unreachableWrapper"
  | .assertIndexZero => "assertIndexZero"
  | .toWriteUnderflow => "toWriteUnderflow"

def resName : Res → String
  | .ok => "ok"
  | .err e => s!"err:{errName e}"
  | .panic p => s!"panic:{siteName p}"

def chunkSk (c : RChunk) : String :=
  let base := s!"{tyName c.ty}:{c.data.length}"
  if c.ty = tyFCTL ∨ c.ty = tyACTL then s!"{base}:{toHexL c.data}"
  else if c.ty = tyFDAT ∧ c.data.length ≥ 4 then s!"{base}:{be32At c.data 0}"
  else base

def showVerdict (r : Except String Unit) : String :=
  match r with
  | .ok _ => "ok"
  | .error e => e

def stepResults (steps : List Step) (rss : List (List Res)) : String :=
  ",".intercalate ((List.zip (steps.take rss.length) rss).map fun (st, rs) =>
    match st with
    | .op _ => ",".intercalate (rs.map resName)
    | .stream .. => "[" ++ ",".intercalate (rs.map resName) ++ "]")

end Png.Driver.C12d

namespace Png.Driver
open Png Png.Val Png.Enc Png.Driver.C12d

def c12 (args : List String) : String :=
  match args with
  | ["validate", f] =>
    match parseHex f with
    | none => "bad-op"
    | some file =>
      match validPng file with
      | .ok _ => "ok"
      | .error e => s!"bad {e}"
  | [cmd, cfg, sink, table, steps, fin] =>
    if cmd != "run" && cmd != "skeleton" then "bad-op" else
    match parseCfg cfg, parseSink sink, parseTable table, parseSteps steps, parsePFinal fin with
    | some c0, some beh, some t, some st, some pf =>
      -- `fc=` = the `Encoder::with_info` path
      let viaInfo := (cfg.splitOn ",").any (·.startsWith "fc=")
      let c1 : Cfg := if viaInfo ∧ c0.actl.isNone then { c0 with actl := some (1, 0) } else c0
      match (if viaInfo then withInfo c1 else .ok c1) with
      | .error e => s!"hdr={resName (.err e)} ops= fin= iend=0 n=0 fnv={hex64' (fnv64 ByteArray.empty)} sk= v={showVerdict (validPng ByteArray.empty)}"
      | .ok c =>
      let r := runProg (tableCodec t) (tableZ t) c beh st pf
      let bytes := ofList r.state.sink.bytes
      let finS := match pf with
        | .intoStream .. => "[" ++ ",".intercalate (r.final.map resName) ++ "]"
        | _ => ",".intercalate (r.final.map resName)
      let sk := "/".intercalate (r.state.sink.chunks.map chunkSk)
      s!"hdr={resName r.header} ops={stepResults st r.results} fin={finS} iend={r.state.sink.iendAttempts} n={bytes.size} fnv={hex64' (fnv64 bytes)} sk={sk} v={showVerdict (validPng bytes)}"
    | _, _, _, _, _ => "bad-op"
  | _ => "bad-op"

end Png.Driver
