import PngVerif.Model.Reader
import PngVerif.Model.Transform
import PngVerif.Driver.Framing
/-! Line protocol for the `Reader` model (C02, C05, C09, C13, C18).
  `rdr run <opts> <limit|max> <flags 0..7> <filehex> <visible0> <ops>`
   ops (comma separated): `ri` read_info, `nf<hh>` next_frame into a buffer of the documented size pre-filled with byte hh,
   `nr` next_row / next_interlaced_row, `rr` read_row (buffer of the documented size), `fi` next_frame_info, `fin` finish, `g<n>` n more bytes visible;
   getters (no state change; `err(parameter)` while no `Reader` exists): `obs` output_buffer_size(), `ols<w>` output_line_size(w), `rb` info().raw_bytes()
   — answered `size(<n>)` or `PANIC(<site>)` (`Reader.outputBufferSizeGetter`, `outputLineSizeGetter`, `rawBytesGetter`).
  Answer: one token per op, then ` | <info> | rem=<remaining_frames> caf=<0|1> fin=<0|1>`. -/
namespace Png.Driver
open Png Png.Framing Png.Reader

/-- the part of `Info` the transformations read -/
def tInfo (i : Info) : Option Transform.Info := do
  let ct ← Transform.ColorType.ofNat? i.color
  let bd ← Transform.BitDepth.ofNat? i.depth
  some { colorType := ct, bitDepth := bd, palette := i.palette, trns := i.trns }

def tFlags (f : Flags) : Transform.Flags := ⟨f.expand, f.strip16, f.alpha⟩

def isPaletteKind : Transform.Kind → Bool
  | .paletteRgba | .paletteRgb8 | .paletteRgb => true
  | _ => false

/-- `Model/Transform.lean` behind the `Reader` model: selection (and the memo palette) come from the `Info`
    the function was created from, everything else the row functions read comes from the current `Info` -/
def realT : TCfg where
  outColorDepth := fun i f =>
    match tInfo i with
    | some ti =>
      match Transform.outputColorType ti (tFlags f) with
      | .ok (c, d) => (c.toNat, d.toNat)
      | .error _ => (i.color, i.depth)
    | none => (i.color, i.depth)
  create := fun i f =>
    match tInfo i with
    | none => .error "panic: illegal colour type / depth in Info"
    | some ti =>
      match Transform.selectTransform ti (tFlags f) with
      | .error .paletteRequired => .error "PaletteRequired"
      | .error .invalidColorBitDepth => .error "InvalidColorBitDepth"
      | .error .panic => .error "panic: assert_eq!(bit_depth, 16) (transform.rs:66)"
      | .ok k =>
        if isPaletteKind k then
          match ti.palette with
          | none => .error "panic: expect(Caller should verify)"
          | some pal =>
            match Transform.createRgbaPalette pal ti.trns with
            | .ok _ => .ok ()
            | .error _ => .error "panic: create_rgba_palette slice index (palette.rs:67-87)"
        else .ok ()
  apply := fun snap f cur row outLen =>
    match tInfo snap, tInfo cur with
    | some ts, some tc =>
      match Transform.selectTransform ts (tFlags f) with
      | .error _ => none
      | .ok k =>
        let info := if isPaletteKind k then { tc with palette := ts.palette, trns := ts.trns } else tc
        match Transform.applyKind info k row (List.replicate outLen 0) with
        | .ok out => some out
        | .error _ => none
    | _, _ => none

def hex64' (x : UInt64) : String :=
  String.ofList ((List.range 16).map fun i => hexChar ((x >>> (4 * (15 - i)).toUInt64) &&& 15).toUInt8)

def dig (b : Bytes) : String := s!"{b.length}:{hex64' (fnv64 (ofList b))}"

def iiStr : IInfo → String
  | .null l => s!"n{l}"
  | .adam7 p l w => s!"a{p}:{l}:{w}"

def errClassStr : ErrClass → String
  | .eof => "eof" | .format => "format" | .parameter => "parameter" | .limits => "limits"

def resStr : Res → String
  | .header => "hdr"
  | .frame oi buf => s!"frame({oi.width},{oi.height},{oi.color},{oi.depth},{oi.lineSize},{dig buf})"
  | .row ii d => s!"row({iiStr ii},{dig d})"
  | .noRow => "none"
  | .frameInfo fc => s!"fc({fc.seq},{fc.width},{fc.height},{fc.x},{fc.y})"
  | .done => "ok"
  | .err c _ => s!"err({errClassStr c})"
  | .panic s => s!"PANIC({s})"

def gresStr : GRes → String
  | .value n => s!"size({n})"
  | .panic s => s!"PANIC({s})"

/-- a call of the protocol: an operation of the model, or a getter -/
inductive RdrCall
  | op (o : Op)
  | outputBufferSize
  | outputLineSize (w : Nat)
  | rawBytes

def parseRdrOp (s : String) : Option Op :=
  if s == "ri" then some .readInfo
  else if s == "rh" then some .readHeader
  else if s == "nr" then some .nextRow
  else if s == "rr" then some .readRow
  else if s == "fi" then some .nextFrameInfo
  else if s == "fin" then some .finish
  else if s.startsWith "nf" then
    match parseHexL (s.drop 2).toString with
    | some [b] => some (.nextFrame b)
    | _ => none
  else if s.startsWith "g" then (s.drop 1).toString.toNat?.map .grow
  else none

def parseRdrCall (s : String) : Option RdrCall :=
  if s == "obs" then some .outputBufferSize
  else if s == "rb" then some .rawBytes
  else if s.startsWith "ols" then (s.drop 3).toString.toNat?.map .outputLineSize
  else (parseRdrOp s).map .op

def rdr (args : List String) (tOf : Flags → Option TCfg := fun _ => some realT) : String :=
  match args with
  | ["run", opts, limit, flags, file, vis, ops] =>
    match parseOpts opts, (if limit == "max" then some (2 ^ 64 - 1) else limit.toNat?), flags.toNat?, parseHexL file, vis.toNat?, (ops.splitOn ",").mapM parseRdrCall with
    | some o, some lim, some fl, some f, some v, some opl =>
      let flg : Flags := { expand := fl % 2 == 1, strip16 := (fl / 2) % 2 == 1, alpha := (fl / 4) % 2 == 1 }
      match tOf flg with
      | none => "bad-op"
      | some t =>
        let cfg := realCfg (!o.ignoreAdler)
        let r0 := R.init o lim flg f (min v f.length)
        -- calls whose caller-side buffer would exceed 4 MiB are not made (`toolarge`), as in the harness
        let big (r : R) (op : Op) : Bool :=
          match r.dec.info, op with
          | some i, .nextFrame _ => r.isReader && outLineSize t i r.flags i.width * i.height > 4194304
          | some i, .nextRow => r.isReader && outLineSize t i r.flags i.width > 4194304
          | some i, .readRow => r.isReader && outLineSize t i r.flags i.width > 4194304
          | _, _ => false
        -- the list-based `expandPass` costs about (pixels x buffer length) steps: whole-frame calls on big interlaced
        -- images are answered `tooslow` (counted by the harness as outside the compared domain, never as agreement)
        let slow (r : R) (op : Op) : Bool :=
          match r.dec.info, op with
          | some i, .nextFrame _ => r.isReader && i.interlaced && i.width * i.height * (outLineSize t i r.flags i.width * i.height) > 1073741824
          | _, _ => false
        let getter (r : R) (g : R → GRes) : String := if r.isReader then gresStr (g r) else "err(parameter)"
        let (r, res) := opl.foldl (fun (acc : R × List String) call =>
            if acc.2.getLast? == some "tooslow" then acc
            else match call with
            | .outputBufferSize => (acc.1, acc.2 ++ [getter acc.1 (outputBufferSizeGetter t)])
            | .outputLineSize w => (acc.1, acc.2 ++ [getter acc.1 (fun r => outputLineSizeGetter t r w)])
            | .rawBytes => (acc.1, acc.2 ++ [getter acc.1 rawBytesGetter])
            | .op op =>
              if big acc.1 op then (acc.1, acc.2 ++ ["toolarge"])
              else if slow acc.1 op then (acc.1, acc.2 ++ ["tooslow"])
              else let (r', x) := Reader.step cfg t acc.1 op; (r', acc.2 ++ [resStr x])) (r0, [])
        s!"{" ".intercalate res} | {infoStr r.dec.info} | rem={r.remaining} caf={if r.sub.caf then 1 else 0} fin={if r.finished then 1 else 0}"
    | _, _, _, _, _, _ => "bad-op"
  | _ => "bad-op"

end Png.Driver
