import PngVerif.Model.Reader
import PngVerif.Driver.Framing
/-! Line protocol for the `Reader` model (C02, C05, C09, C13, C18).
  `rdr run <opts> <limit|max> <flags 0..7> <filehex> <visible0> <ops>`
   ops (comma separated): `ri` read_info, `nf<hh>` next_frame into a buffer of the documented size pre-filled with byte hh,
   `nr` next_row / next_interlaced_row, `rr` read_row (buffer of the documented size), `fi` next_frame_info, `fin` finish, `g<n>` n more bytes visible.
  Answer: one token per op, then ` | <info> | rem=<remaining_frames> caf=<0|1> fin=<0|1>`. -/
namespace Png.Driver
open Png Png.Framing Png.Reader

/-- identity transformation only (flags = 0); `copy_from_slice` panics on a length mismatch -/
def identityT : TCfg where
  outColorDepth := fun i _ => (i.color, i.depth)
  create := fun _ _ => .ok ()
  apply := fun _ _ _ row outLen => if row.length = outLen then some row else none

def hex64' (x : UInt64) : String :=
  String.ofList ((List.range 16).map fun i => hexChar ((x >>> (4 * (15 - i)).toUInt64) &&& 15).toUInt8)

def dig (b : Bytes) : String := s!"{b.length}:{hex64' (fnv64 (ofList b))}"

def iiStr : IInfo → String
  | .null l => s!"n{l}"
  | .adam7 p l w => s!"a{p}:{l}:{w}"

def errClassStr : ErrClass → String
  | .eof => "eof" | .format => "format" | .parameter => "parameter" | .limits => "limits"

def resStr : Res → String
  | .header => "hdr"
  | .frame oi buf => s!"frame({oi.width},{oi.height},{oi.color},{oi.depth},{oi.lineSize},{dig buf})"
  | .row ii d => s!"row({iiStr ii},{dig d})"
  | .noRow => "none"
  | .frameInfo fc => s!"fc({fc.seq},{fc.width},{fc.height},{fc.x},{fc.y})"
  | .done => "ok"
  | .err c _ => s!"err({errClassStr c})"
  | .panic s => s!"PANIC({s})"

def parseRdrOp (s : String) : Option Op :=
  if s == "ri" then some .readInfo
  else if s == "nr" then some .nextRow
  else if s == "rr" then some .readRow
  else if s == "fi" then some .nextFrameInfo
  else if s == "fin" then some .finish
  else if s.startsWith "nf" then
    match parseHexL (s.drop 2).toString with
    | some [b] => some (.nextFrame b)
    | _ => none
  else if s.startsWith "g" then (s.drop 1).toString.toNat?.map .grow
  else none

def rdr (args : List String) (tOf : Flags → Option TCfg := fun f => if f.identity then some identityT else none) : String :=
  match args with
  | ["run", opts, limit, flags, file, vis, ops] =>
    match parseOpts opts, (if limit == "max" then some (2 ^ 64 - 1) else limit.toNat?), flags.toNat?, parseHexL file, vis.toNat?, (ops.splitOn ",").mapM parseRdrOp with
    | some o, some lim, some fl, some f, some v, some opl =>
      let flg : Flags := { expand := fl % 2 == 1, strip16 := (fl / 2) % 2 == 1, alpha := (fl / 4) % 2 == 1 }
      match tOf flg with
      | none => "bad-op"
      | some t =>
        let cfg := realCfg (!o.ignoreAdler)
        let r0 := R.init o lim flg f (min v f.length)
        let (r, res) := Reader.run cfg t r0 opl
        s!"{" ".intercalate (res.map resStr)} | {infoStr r.dec.info} | rem={r.remaining} caf={if r.sub.caf then 1 else 0} fin={if r.finished then 1 else 0}"
    | _, _, _, _, _, _ => "bad-op"
  | _ => "bad-op"

end Png.Driver
