import PngVerif.Model.Spec
/-! Line protocol for whole-file specification decoding (C01, C03, C09 …).
  `c01 decode <filehex>`      -> `ok <w> <h> <color> <depth> <interlace> <nframes> <w:h:len:fnv64>…` | `err <reason>`
  `c01 pixels <filehex> <k>`  -> hex of frame k's packed pixels | `err <reason>`
  Reverse filtering is executed with `unfilterImpl` (proved equal to `reconRow` on every row the
  decoder produces: `Png.C14.unfilter_impl_eq_spec`). -/
namespace Png.Driver
open Png Png.Spec

def hex64 (x : UInt64) : String :=
  String.ofList ((List.range 16).map fun i => hexChar ((x >>> (4 * (15 - i)).toUInt64) &&& 15).toUInt8)

def c01 (args : List String) : String :=
  match args with
  | ["decode", f] =>
    match parseHex f with
    | none => "bad-op"
    | some file =>
      match specFrames unfilterImpl file with
      | .error e => s!"err {e}"
      | .ok d =>
        let fr := d.frames.map fun fr => s!"{fr.width}:{fr.height}:{fr.pixels.size}:{hex64 (fnv64 fr.pixels)}"
        s!"ok {d.ihdr.width} {d.ihdr.height} {d.ihdr.color} {d.ihdr.depth} {d.ihdr.interlace} {d.frames.length} {" ".intercalate fr}"
  | ["pixels", f, k] =>
    match parseHex f, k.toNat? with
    | some file, some k =>
      match specFrames unfilterImpl file with
      | .error e => s!"err {e}"
      | .ok d =>
        match d.frames[k]? with
        | some fr => toHex fr.pixels
        | none => "err no-such-frame"
    | _, _ => "bad-op"
  | _ => "bad-op"

end Png.Driver
