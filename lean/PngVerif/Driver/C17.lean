import PngVerif.Model.Util
import PngVerif.Model.Crc
import PngVerif.Model.Inflate
import PngVerif.Model.EncodeMeta
import PngVerif.Driver.C20
import PngVerif.Driver.Framing
/-! Line protocol for C17 (see harness/src/props/c17.rs).

Numbers are decimal, byte strings lowercase hex (`-` = empty), strings the hex of their UTF-8
encoding (`<str>`), an absent optional item is the token `none`.  `<state>` is `c:<payload bytes>`
(Compressed) or `u:<str>` (Uncompressed), as in `c20`.

  `c17 consts`   -> `<substitute gamma> <substitute chromaticities, 8 numbers csv> <max chunk length> parseEmpty=<0|1>`
        (the last field is `EncodeMeta.parseEmptyChunks`, the switch for the zero-length-chunk repair of the decoder)
  `c17 enc <kind> <fields…>` -> `<body>` | `err:<class>` — the chunk body of one item:
        `ihdr <w> <h> <depth> <color>`          encodeIhdr
        `phys <xppu> <yppu> <0|1>`               encodePhys
        `gama <g>`  `srgb <intent>`  `actl <frames> <plays>`
        `chrm <wx,wy,rx,ry,gx,gy,bx,by>`         encodeChrm
        `fctl <seq,w,h,x,y,dnum,dden,dispose,blend>`   encodeFctl
        `iccp <profile>`                         encodeIccp c17Codec
        `text <kw:str> <text:str>`               TEXt.encodeBody
        `ztxt <kw:str> <state>`                  ZTXt.encodeBody c17Codec
        `itxt <kw:str> <0|1> <lang:str> <tk:str> <state>`   ITXt.encodeBody c17Codec
     A field outside its Rust type (e.g. 2^32) is `bad-op`: the harness cannot produce it either.
  `c17 header <cfg>` -> `ok <chunks>` | `err:<class> <chunks that reached the sink>`      writeHeader c17Codec
     `<cfg>` = 16 tokens: `<w> <h> <depth> <color> <plte|none> <trns|none> <phys x,y,u|none> <gamma|none>
     <chrm csv|none> <srgb|none> <icc|none> <exif|none> <actl f,p|none> <texts> <ztxts> <itxts>`
     with `<texts>` = `kw/text;kw/text;…` (`-` for an empty list), `<ztxts>` = `kw/state;…`,
     `<itxts>` = `kw/flag/lang/tk/state;…`.  `<chunks>` = `TYPE:<body>,TYPE:<body>,…` (`-` = none).
  `c17 decode <chunks>` -> `<info>` | `err:<class> <info so far>`       feedChunks (realCfg true) {} chunks
     `<info>` is `infoStr` of `Driver/Framing.lean` followed by ` gamma()=<n|none> chromaticities()=<csv|none>`
     (`infoGamma`, `infoChroma`).  Compressed text payloads and the ICC profile are inflated by the Lean
     inflater, so chunks written by the real encoder can be given.
  `c17 expect <cfg>` -> `<info>`        `expectedInfo` with `expectedViews` as text (what C17_header_roundtrip
     promises for this configuration), in the same format; `err:<class>` when the header is refused
  `c17 fcops <cw> <ch> <ops>` -> `<r1>,<r2>,…;<fc>`   applyOp on `initialFc cw ch`, a refused call leaves the
     frame control unchanged; `<ops>` = `;`-separated `dim/w/h`, `pos/x/y`, `rdim`, `rpos`, `delay/n/d`,
     `blend/b`, `dispose/o` (`-` = no call); `<ri>` = `ok` | `err:<class>`; `<fc>` as in `enc fctl`;
     then ` inv=<0|1>` (`FcInv cw ch fc`)

  `c17 fcstream <cw> <ch> <events>` -> `<r1>,<r2>,…;<fc>|<fc>|…`    fcRun on `⟨initialFc cw ch, none⟩`: the writer's
     frame control and the stream writer's copy.  `<events>` = `;`-separated `w/<op>` (Writer setter), `s/<op>`
     (StreamWriter setter), `img` / `img0` (write_image_data, with / without an fcTL), `open` / `open0`
     (StreamWriter::new), `next` (new_frame), `close`; `<op>` as in `fcops`.  `<ri>`: one per setter event;
     `<fc>`: one per fcTL written, as in `enc fctl` (sequence number always 0: not tracked)

THE CODEC.  `c17Codec.compress` writes a zlib stream of stored blocks (RFC 1950/1951, Adler-32
computed here); `decompress` / `decompressBounded` are the Lean inflater of `Model/Inflate.lean`, the
same one `realCfg` gives the decoder model, so `CfgAgrees (realCfg true) c17Codec` holds by
construction.  The contract `ZCodec.Ok` is *not* proved for this concrete codec (it is proved for
`toyCodec`); the harness checks it on every payload it compares (both directions: model payloads are
inflated by an independent inflater in the harness, real payloads by the Lean inflater here).  Payload
bytes are never compared with the real encoder's (different compressors), only what they inflate to. -/
namespace Png.Driver
open Png Png.Framing Png.EncodeMeta

/-- zlib stream consisting of stored blocks only -/
def zlibStored (x : Bytes) : Bytes :=
  let rec blocks (fuel : Nat) (x : Bytes) (acc : Array UInt8) : Array UInt8 :=
    match fuel with
    | 0 => acc
    | fuel + 1 =>
      let n := min x.length 65535
      let final : UInt8 := if x.length ≤ 65535 then 1 else 0
      let acc := acc.push final |>.push (n % 256).toUInt8 |>.push (n / 256).toUInt8
        |>.push (255 - n % 256).toUInt8 |>.push (255 - n / 256).toUInt8
      let acc := (x.take n).foldl (fun (a : Array UInt8) (b : UInt8) => a.push b) acc
      if x.length ≤ 65535 then acc else blocks fuel (x.drop n) acc
  let body := blocks (x.length / 65535 + 2) x #[0x78, 0x01]
  body.toList ++ be32Bytes (adler32 (ofList x))

def c17Codec : ZCodec where
  compress := zlibStored
  decompress := inflText
  decompressBounded := fun zs n =>
    match (realCfg true).inflateBounded zs n with
    | .ok x => .ok x
    | .error true => .error .tooLarge
    | .error false => .error .corrupt

def encErrClass : EncErr → String
  | .zeroWidth => "zeroWidth" | .zeroHeight => "zeroHeight" | .invalidColorCombination => "invalidColorCombination"
  | .writtenTooMuch => "writtenTooMuch" | .text e => encErrName e
  | .notAnimated => "notAnimated" | .outOfBounds => "outOfBounds" | .zeroFrames => "zeroFrames"

def natsOf (s : String) : Option (List Nat) := (s.splitOn ",").mapM (·.toNat?)
def u32? (s : String) : Option Nat := s.toNat? >>= fun n => if n < 4294967296 then some n else none

def optTok {α} (f : String → Option α) (s : String) : Option (Option α) :=
  if s == "none" then some none else (f s).map some

def listTok {α} (f : List String → Option α) (s : String) : Option (List α) :=
  if s == "-" then some [] else (s.splitOn ";").mapM (fun item => f (item.splitOn "/"))

def parseChrmTok (s : String) : Option Chromaticities :=
  match natsOf s with
  | some [a, b, c, d, e, f, g, h] =>
    let c' : Chromaticities := ⟨a, b, c, d, e, f, g, h⟩
    if decide c'.InRange then some c' else none
  | _ => none

def parseFcTok (s : String) : Option FrameControl :=
  match natsOf s with
  | some [a, b, c, d, e, f, g, h, i] =>
    let fc : FrameControl := ⟨a, b, c, d, e, f, g, h, i⟩
    if decide (FcInRange fc) then some fc else none
  | _ => none

def fcStr (fc : FrameControl) : String :=
  s!"{fc.seq},{fc.width},{fc.height},{fc.x},{fc.y},{fc.delayNum},{fc.delayDen},{fc.dispose},{fc.blend}"

def parseCfg (t : List String) : Option MetaConfig :=
  match t with
  | [w, h, d, c, plte, trns, phys, gamma, chrm, srgb, icc, exif, actl, texts, ztxts, itxts] => do
    let w ← u32? w
    let h ← u32? h
    let d ← d.toNat?
    let c ← c.toNat?
    let plte ← optTok parseHexL plte
    let trns ← optTok parseHexL trns
    let phys ← optTok (fun s => match natsOf s with
      | some [x, y, u] => if x < 4294967296 ∧ y < 4294967296 ∧ u ≤ 1 then some (PixelDims.mk x y (u == 1)) else none
      | _ => none) phys
    let gamma ← optTok u32? gamma
    let chrm ← optTok parseChrmTok chrm
    let srgb ← optTok (fun s => s.toNat? >>= fun n => if n ≤ 3 then some n else none) srgb
    let icc ← optTok parseHexL icc
    let exif ← optTok parseHexL exif
    let actl ← optTok (fun s => match natsOf s with
      | some [f, p] => if f < 4294967296 ∧ p < 4294967296 then some (f, p) else none
      | _ => none) actl
    let texts ← listTok (fun f => match f with
      | [k, t] => do pure (TEXt.mk (← parseStr k) (← parseStr t))
      | _ => none) texts
    let ztxts ← listTok (fun f => match f with
      | [k, st] => do pure (ZTXt.mk (← parseStr k) (← parseState st))
      | _ => none) ztxts
    let itxts ← listTok (fun f => match f with
      | [k, fl, l, tk, st] => do
        let fl ← fl.toNat?
        if fl > 1 then none else
        pure (ITXt.mk (← parseStr k) (fl == 1) (← parseStr l) (← parseStr tk) (← parseState st))
      | _ => none) itxts
    let m : MetaConfig := {
      width := w, height := h, depth := d, color := c, palette := plte, trns := trns,
      pixelDims := phys, gamma := gamma, chroma := chrm, srgb := srgb, icc := icc, exif := exif, actl := actl,
      tEXt := texts, zTXt := ztxts, iTXt := itxts }
    if depthOk d && colorOk c then some m else none
  | _ => none

def chunksStr (cs : List Chunk) : String :=
  if cs.isEmpty then "-" else ",".intercalate (cs.map fun c => s!"{typeName c.1}:{toHexL c.2}")

def parseType (s : String) : Option ChunkType :=
  match s.toList with
  | [a, b, c, d] => if [a, b, c, d].all (fun x => x.toNat < 128) then some (mkType a b c d) else none
  | _ => none

def parseChunks (s : String) : Option (List Chunk) :=
  if s == "-" then some [] else
  (s.splitOn ",").mapM fun item =>
    match item.splitOn ":" with
    | [t, b] => do pure ((← parseType t), (← parseHexL b))
    | _ => none

def accessorsStr (i : Option Info) : String :=
  match i with
  | none => ""
  | some i =>
    let g := match infoGamma i with | some g => toString g | none => "none"
    let c := match infoChroma i with | some l => ",".intercalate (l.map toString) | none => "none"
    s!" gamma()={g} chromaticities()={c}"

def fullInfoStr (i : Option Info) : String := infoStr i ++ accessorsStr i

/-- a stored text chunk for a view promised by `expectedViews` (bytes as the parser would hold them) -/
def chunkOfView : Option TextView → Option TextChunk
  | some (.t c) => match encodeLatin1 c.keyword, encodeLatin1 c.text with
    | .ok k, .ok t => some (.tEXt k t) | _, _ => none
  | some (.z c) => match encodeLatin1 c.keyword, c.text with
    | .ok k, .compressed v => some (.zTXt k v) | _, _ => none
  | some (.i c) => match encodeLatin1 c.keyword, c.text with
    | .ok k, .compressed v => some (.iTXt k c.compressed (utf8Encode c.languageTag) (utf8Encode c.translatedKeyword) v)
    | .ok k, .uncompressed s =>
      some (.iTXt k c.compressed (utf8Encode c.languageTag) (utf8Encode c.translatedKeyword) (utf8Encode s))
    | _, _ => none
  | none => none

def parseFcOp (s : String) : Option FcOp :=
  match s.splitOn "/" with
  | ["dim", w, h] => do pure (.dimension (← u32? w) (← u32? h))
  | ["pos", x, y] => do pure (.position (← u32? x) (← u32? y))
  | ["rdim"] => some .resetDimension
  | ["rpos"] => some .resetPosition
  | ["delay", n, d] => do
    let n ← n.toNat?; let d ← d.toNat?
    if n < 65536 ∧ d < 65536 then some (.delay n d) else none
  | ["blend", b] => b.toNat? >>= fun b => if b ≤ 1 then some (.blend b) else none
  | ["dispose", o] => o.toNat? >>= fun o => if o ≤ 2 then some (.dispose o) else none
  | _ => none

def runFcOps (cw ch : Nat) : FrameControl → List FcOp → List String → List String × FrameControl
  | fc, [], acc => (acc.reverse, fc)
  | fc, op :: ops, acc =>
    match applyOp cw ch fc op with
    | .ok fc' => runFcOps cw ch fc' ops ("ok" :: acc)
    | .error e => runFcOps cw ch fc ops (s!"err:{encErrClass e}" :: acc)

def parseFcEvent (s : String) : Option FcEvent :=
  if s == "img" then some (.image true)
  else if s == "img0" then some (.image false)
  else if s == "open" then some (.openStream true)
  else if s == "open0" then some (.openStream false)
  else if s == "next" then some .nextFrame
  else if s == "close" then some .closeStream
  else if s.startsWith "w/" then (parseFcOp (s.drop 2).toString).map FcEvent.writerSet
  else if s.startsWith "s/" then (parseFcOp (s.drop 2).toString).map FcEvent.streamSet
  else none

def bodyOut (r : Except TextEncErr Bytes) : String :=
  match r with
  | .ok b => toHexL b
  | .error e => s!"err:{encErrName e}"

def c17 (args : List String) : String :=
  match args with
  | ["consts"] =>
    s!"{substituteGamma} {",".intercalate (substituteChroma.toList.map toString)} {maxChunkLen} parseEmpty={if parseEmptyChunks then 1 else 0}"
  | ["enc", "ihdr", w, h, d, c] =>
    match u32? w, u32? h, d.toNat?, c.toNat? with
    | some w, some h, some d, some c => if d < 256 ∧ c < 256 then toHexL (encodeIhdr w h d c) else "bad-op"
    | _, _, _, _ => "bad-op"
  | ["enc", "phys", x, y, u] =>
    match u32? x, u32? y, u.toNat? with
    | some x, some y, some u => if u ≤ 1 then toHexL (encodePhys ⟨x, y, u == 1⟩) else "bad-op"
    | _, _, _ => "bad-op"
  | ["enc", "gama", g] => match u32? g with | some g => toHexL (encodeGama g) | none => "bad-op"
  | ["enc", "srgb", r] =>
    match r.toNat? with
    | some r => if r ≤ 3 then toHexL (encodeSrgb r) else "bad-op"
    | none => "bad-op"
  | ["enc", "actl", f, p] =>
    match u32? f, u32? p with
    | some f, some p => toHexL (encodeActl (f, p))
    | _, _ => "bad-op"
  | ["enc", "chrm", c] => match parseChrmTok c with | some c => toHexL (encodeChrm c) | none => "bad-op"
  | ["enc", "fctl", f] => match parseFcTok f with | some fc => toHexL (encodeFctl fc) | none => "bad-op"
  | ["enc", "iccp", p] => match parseHexL p with | some p => toHexL (encodeIccp c17Codec p) | none => "bad-op"
  | ["enc", "text", kw, text] =>
    match parseStr kw, parseStr text with
    | some kw, some text => bodyOut (TEXt.encodeBody ⟨kw, text⟩)
    | _, _ => "bad-op"
  | ["enc", "ztxt", kw, st] =>
    match parseStr kw, parseState st with
    | some kw, some t => bodyOut (ZTXt.encodeBody c17Codec ⟨kw, t⟩)
    | _, _ => "bad-op"
  | ["enc", "itxt", kw, flag, lang, tk, st] =>
    match parseStr kw, flag.toNat?, parseStr lang, parseStr tk, parseState st with
    | some kw, some f, some lang, some tk, some t =>
      if f > 1 then "bad-op" else bodyOut (ITXt.encodeBody c17Codec ⟨kw, f == 1, lang, tk, t⟩)
    | _, _, _, _, _ => "bad-op"
  | "header" :: cfg =>
    match parseCfg cfg with
    | some m =>
      match writeHeader c17Codec m with
      | (cs, .ok ()) => s!"ok {chunksStr cs}"
      | (cs, .error e) => s!"err:{encErrClass e} {chunksStr cs}"
    | none => "bad-op"
  | ["decode", chunks] =>
    match parseChunks chunks with
    | some cs =>
      -- feed one by one so that the state at the first error can be shown
      let rec go (d : Dec) : List Chunk → String
        | [] => fullInfoStr d.info
        | c :: rest =>
          match feedChunk (realCfg true) d c with
          | .ok d' => go d' rest
          | .error e => s!"err:{errStr e} {fullInfoStr d.info}"
      go {} cs
    | none => "bad-op"
  | "expect" :: cfg =>
    match parseCfg cfg with
    | some m =>
      match encodeHeaderChunks c17Codec m with
      | .error e => s!"err:{encErrClass e}"
      | .ok _ =>
        match (expectedViews c17Codec m).mapM chunkOfView with
        | some tcs => fullInfoStr (some { expectedInfo m with text := tcs })
        | none => "err:view"
    | none => "bad-op"
  | ["fcstream", cw, ch, evs] =>
    match u32? cw, u32? ch, (if evs == "-" then some [] else (evs.splitOn ";").mapM parseFcEvent) with
    | some cw, some ch, some evs =>
      let (_, rs, es) := fcRun cw ch ⟨initialFc cw ch, none⟩ evs [] []
      let rstr := rs.map fun (r : Except EncErr Unit) => match r with | .ok () => "ok" | .error e => s!"err:{encErrClass e}"
      s!"{",".intercalate rstr};{"|".intercalate (es.map fcStr)}"
    | _, _, _ => "bad-op"
  | ["fcops", cw, ch, ops] =>
    match u32? cw, u32? ch, (if ops == "-" then some [] else (ops.splitOn ";").mapM parseFcOp) with
    | some cw, some ch, some ops =>
      let (rs, fc) := runFcOps cw ch (initialFc cw ch) ops []
      s!"{",".intercalate rs};{fcStr fc} inv={if decide (FcInv cw ch fc) then 1 else 0}"
    | _, _, _ => "bad-op"
  | _ => "bad-op"

end Png.Driver
