import PngVerif.Model.DataPath
import PngVerif.Model.Util
/-! Line protocol for the Reader's image-data path (`Model/DataPath.lean`; theorems: `Props/C06Reader.lean`).

  `c06dp <L> <rowlen>:<outLine>:<bpp> <streams> <ops>`

* `<L>`: budget left at the first image data (`DP.start`); `<rowlen>:<outLine>:<bpp>`: the first frame.
* `<streams>`: `;`-separated ideal outputs of the successive zlib streams (the first is current at the start,
  every flush makes the next one current; none left = empty).  A stream is `-` (empty) or `+`-separated
  segments, each `<hex>` or `<hex>*<count>` (the bytes repeated `count` times).
* `<ops>`: `,`-separated (or `-` for none):
  `m<n>` `set_max_total_output(n)` · `c<n>` charge `n` bytes · `n` pull that appends nothing ·
  `p<k>` pull with one `decompress` producing `k` · `z` inflater error (prepare only) · `r` `unfilter_curr_row` ·
  `w<r>` new pass with row length `r` · `s` scratch resize · `k<k>` skip with one `decompress` producing `k` ·
  `N<rowlen>:<outLine>:<bpp>` next frame (refused by `Limits`: nothing installed, no further frame) · `e` `Reader::finish` ·
  flushes into the unfiltering buffer: `fi` (loop not entered) · `f<k1>.<k2>…<kl>` (explicit iterations, the last
  one final) · `F<T>` (an inflater that fills the space it is offered until `T` bytes are out; `F0` = `fi`);
  the same into a discard vector: `gi`, `g<k1>.….<kl>`, `G<T>`.
* answer: one token per op `ubLen:prevStart:curStart/bufLen:outPos:readPos/scratchLen/limit/<f|-><u|->`
  (`f` = consumed_and_flushed, `u` = some frame start was refused by `Limits`, and not installed), or `refused` / `panic` / `bad-op` and then
  `dead` for the rest; then `hw:<zHigh>:<tmpHigh>:<flushHigh>` and `bound:ok` or `bound:VIOLATED@<i>` — the
  conclusion of `C06_reader_buffers_bounded` evaluated on every state reached (index of the first op after
  which it fails).  `read_info` refused by `Limits`: the single token `no-reader`. -/
namespace Png.Driver.C06DP
open Png

def parseSeg (s : String) : Option Bytes :=
  match s.splitOn "*" with
  | [h] => parseHexL h
  | [h, n] =>
    match parseHexL h, n.toNat? with
    | some bs, some k => some ((List.replicate k bs).flatten)
    | _, _ => none
  | _ => none

def parseStream (s : String) : Option Bytes :=
  if s == "-" then some [] else
  ((s.splitOn "+").mapM parseSeg).map List.flatten

def parseFrame (s : String) : Option DPFrame :=
  match (s.splitOn ":").mapM (·.toNat?) with
  | some [r, o, b] => some ⟨r, o, b⟩
  | _ => none

/-- the iterations of an inflater that fills whatever space it is offered until `T` bytes are out -/
def greedyIters (c : ZCfg) (O : Bytes) : Nat → ZW → Nat → List Nat → ZFlush
  | 0, _, _, acc => .loop acc.reverse 0
  | fuel + 1, z, rem, acc =>
    match z.prepare c with
    | none => .loop acc.reverse rem
    | some z1 =>
      let n := min (z1.bufLen - z1.hist.length) rem
      if rem - n = 0 then .loop acc.reverse n
      else
        match z.finishIter c O n with
        | none => .loop (n :: acc).reverse (rem - n)
        | some z' => greedyIters c O fuel z' (rem - n) (n :: acc)

def parseFlush (c : ZCfg) (st : DP) (greedy : Bool) (arg : String) : Option ZFlush :=
  if greedy then
    match arg.toNat? with
    | some 0 => some .idle
    | some t => some (greedyIters c st.O (t + 2) { st.z with delivered := [] } t [])
    | none => none
  else if arg == "i" then some .idle
  else
    match (arg.splitOn ".").mapM (·.toNat?) with
    | some ks => match ks.reverse with
      | kl :: rest => some (.loop rest.reverse kl)
      | [] => none
    | none => none

/-- parse one op in the current state (greedy flushes need the window state); the streams still unused -/
def parseOp (c : ZCfg) (st : DP) (next : Bytes) (op : String) : Option DPOp :=
  let arg := (op.drop 1).toString
  match op.toList.head? with
  | some 'm' => arg.toNat?.map .setMax
  | some 'c' => arg.toNat?.map .charge
  | some 'n' => if arg.isEmpty then some .pullNone else none
  | some 'p' => arg.toNat?.map .pull
  | some 'z' => if arg.isEmpty then some .zFail else none
  | some 'r' => if arg.isEmpty then some .row else none
  | some 'w' => arg.toNat?.map .newPass
  | some 's' => if arg.isEmpty then some .scratch else none
  | some 'k' => arg.toNat?.map .skip
  | some 'N' => (parseFrame arg).map .newFrame
  | some 'e' => if arg.isEmpty then some .finish else none
  | some 'f' => (parseFlush c st false arg).map (.pullFlush · next)
  | some 'F' => (parseFlush c st true arg).map (.pullFlush · next)
  | some 'g' => (parseFlush c st false arg).map (.skipFlush · next)
  | some 'G' => (parseFlush c st true arg).map (.skipFlush · next)
  | _ => none

def DPOp.isFlush : DPOp → Bool
  | .pullFlush .. => true
  | .skipFlush .. => true
  | _ => false

def showSizes (s : DPSizes) : String :=
  s!"{s.ubLen}:{s.prevStart}:{s.curStart}/{s.bufLen}:{s.outPos}:{s.readPos}/{s.scratchLen}/{s.limit}/" ++
    (if s.flushed then "f" else "-") ++ (if s.limitHit then "u" else "-")

/-- the conclusion of `C06_reader_buffers_bounded` on a state (`L` = initial budget) -/
def boundHolds (c : ZCfg) (L : Nat) (st : DP) : Bool :=
  decide (st.ub.data.length + 2 ≤ 2 * st.frame.rowlen + max c.window st.flushHigh) &&
  decide (st.z.bufLen ≤ st.zHigh) && decide (st.zHigh ≤ c.window) &&
  decide (st.tmpHigh ≤ max c.window st.flushHigh) && decide (st.limit ≤ L) &&
  decide (st.scratchLen ≤ L - st.limit) && decide (st.frame.outLine ≤ L - st.limit)

structure Acc where
  st : Option DP
  streams : List Bytes
  outs : List String      -- reversed
  idx : Nat := 0
  bad : Option Nat := none

def run (args : List String) : String :=
  match args with
  | [l, fr, streams, ops] =>
    match l.toNat?, parseFrame fr, (streams.splitOn ";").mapM parseStream with
    | some L, some fr, some (O :: rest) =>
      let c := ZCfg.current
      match DP.start L fr O with
      | none => "no-reader"
      | some st0 =>
        let opl := if ops == "-" then [] else ops.splitOn ","
        let step (a : Acc) (op : String) : Acc :=
          match a.st with
          | none => { a with outs := "dead" :: a.outs, idx := a.idx + 1 }
          | some st =>
            let next := a.streams.headD []
            match parseOp c st next op with
            | none => { a with st := none, outs := "bad-op" :: a.outs, idx := a.idx + 1 }
            | some o =>
              match st.step c o with
              | .refused => { a with st := none, outs := "refused" :: a.outs, idx := a.idx + 1 }
              | .panic => { a with st := none, outs := "panic" :: a.outs, idx := a.idx + 1 }
              | .ok st' =>
                { st := some st', streams := if DPOp.isFlush o then a.streams.drop 1 else a.streams,
                  outs := showSizes st'.sizes :: a.outs, idx := a.idx + 1,
                  bad := match a.bad with
                    | some i => some i
                    | none => if boundHolds c L st' then none else some a.idx }
        let a := opl.foldl step { st := some st0, streams := rest, outs := [],
                                  bad := if boundHolds c L st0 then none else some 0 }
        let tail := match a.st with
          | some st => [s!"hw:{st.zHigh}:{st.tmpHigh}:{st.flushHigh}"]
          | none => []
        let b := match a.bad with
          | none => "bound:ok"
          | some i => s!"bound:VIOLATED@{i}"
        " ".intercalate (a.outs.reverse ++ tail ++ [b])
    | _, _, _ => "bad-op"
  | _ => "bad-op"

end Png.Driver.C06DP

/-- entry point (`Main.lean` dispatches the token `c06dp`) -/
def Png.Driver.c06dp (args : List String) : String := Png.Driver.C06DP.run args
