import PngVerif.Model.Util
import PngVerif.Model.Adam7
/-! Line protocol for C15 (see harness/src/props/c15.rs).  Numbers decimal, byte strings lowercase
hex (`-` = empty), lists comma-separated (`-` = empty list).

  `c15 rows <w> <h>`            -> `pass:line:width,…` = `iterRows w h` (`-` when there is no row);
                                   `MISMATCH` if it differs from `specRows w h` (impossible by
                                   `Png.C15.iter_eq_spec`; computed anyway)
  `c15 rows-max <w> <h> <max>`  -> the first `max` items, `iterRowsFuel max w h`
                                   (= `Adam7Iterator::new(w, h).take(max)`; usable for huge `w`, `h`)
  `c15 dims <w> <h>`            -> `w1:h1,…,w7:h7` = `passW w p : passH h p` for p = 1..7
  `c15 src <x> <y>`             -> `pass:line:index` = `specSrc x y`
  `c15 expand <bits> <stride> <pass> <line> <width> <img> <row>`
                                -> hex of `expandPass img stride row ⟨pass,line,width⟩ bits` (repaired
                                   mask-then-or store) or `panic`
  `c15 expand-or …`             -> same with `expandPassOr` (the `|=` store of the pinned tree)
  `c15 deint <bits> <stride> <w> <h> <img> <row,row,…>`
                                -> hex of `deinterlace img stride bits (iterRows w h zipped with the rows)`
                                   or `panic`; `bad-op` if the number of rows is not `(iterRows w h).length`
  `c15 deint-or …`              -> same with the `|=` store -/
namespace Png.Driver
open Png Png.Adam7

def showRows (rs : List (Nat × Nat × Nat)) : String :=
  if rs.isEmpty then "-" else
    ",".intercalate (rs.map fun (r : Nat × Nat × Nat) => s!"{r.1}:{r.2.1}:{r.2.2}")

def showOpt : Option Bytes → String
  | none => "panic"
  | some b => toHexL b

def parseRows (s : String) : Option (List Bytes) :=
  if s == "-" then some [] else (s.splitOn ",").mapM parseHexL

def nats (xs : List String) : Option (List Nat) := xs.mapM (·.toNat?)

def c15 (args : List String) : String :=
  match args with
  | ["rows", w, h] =>
    match w.toNat?, h.toNat? with
    | some w, some h =>
      let rs := iterRows w h
      if rs == specRows w h then showRows rs else "MISMATCH"
    | _, _ => "bad-op"
  | ["rows-max", w, h, n] =>
    match w.toNat?, h.toNat?, n.toNat? with
    | some w, some h, some n => showRows (iterRowsFuel n w h)
    | _, _, _ => "bad-op"
  | ["dims", w, h] =>
    match w.toNat?, h.toNat? with
    | some w, some h =>
      ",".intercalate ((List.range' 1 7).map fun (p : Nat) => s!"{passW w p}:{passH h p}")
    | _, _ => "bad-op"
  | ["src", x, y] =>
    match x.toNat?, y.toNat? with
    | some x, some y => let s := specSrc x y; s!"{s.1}:{s.2.1}:{s.2.2}"
    | _, _ => "bad-op"
  | [op, bits, stride, pass, line, width, img, row] =>
    match nats [bits, stride, pass, line, width], parseHexL img, parseHexL row with
    | some [bits, stride, pass, line, width], some img, some row =>
      if bits ≥ 256 then "bad-op"
      else if op == "expand" then showOpt (expandPass img stride row ⟨pass, line, width⟩ bits)
      else if op == "expand-or" then showOpt (expandPassOr img stride row ⟨pass, line, width⟩ bits)
      else "bad-op"
    | _, _, _ => "bad-op"
  | [op, bits, stride, w, h, img, rows] =>
    match nats [bits, stride, w, h], parseHexL img, parseRows rows with
    | some [bits, stride, w, h], some img, some rows =>
      let infos := iterRows w h
      if bits ≥ 256 || infos.length != rows.length then "bad-op" else
      let acts := (infos.zip rows).map fun (a : (Nat × Nat × Nat) × Bytes) =>
        (({ pass := a.1.1, line := a.1.2.1, width := a.1.2.2 } : Adam7Info), a.2)
      if op == "deint" then showOpt (deinterlace img stride bits acts)
      else if op == "deint-or" then showOpt (deinterlaceWith orPx img stride bits acts)
      else "bad-op"
    | _, _, _ => "bad-op"
  | _ => "bad-op"

end Png.Driver
