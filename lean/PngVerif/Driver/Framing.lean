import PngVerif.Model.Framing
import PngVerif.Model.Crc
import PngVerif.Model.Inflate
/-! Line protocol for the framing state machine (C04, C07, C10, C11, C16 …).
  `frm run <opts> <limit|max> <filehex> <cuts>` — feed the file to `Framing.update` in pieces cut at the
  comma-separated offsets (`-` = one piece) and print the canonical result:
    `<events> | <info> | <err class or ok> | <update calls> <max iterations bound ok>`
  opts: 5 characters 0/1 = ignore_adler32, ignore_crc, ignore_text_chunk, ignore_iccp_chunk, skip_ancillary_crc_failures.
  Events are projected (no Nothing / PartialChunk / ImageData); `FL(len:fnv)` carries the digest of the image
  data produced since the previous flush. -/
namespace Png.Driver
open Png Png.Framing

def realCfg (checkAdler : Bool) : Cfg where
  crc := fun b => (crc32 (ofList b)).toNat
  inflate := fun z =>
    match Inf.zlibPrefix (ofList z) checkAdler with
    | .done o _ => some (o.toList, true)
    | .more o => some (o.toList, false)
    | .bad => none
  inflateBounded := fun z n =>
    match Inf.zlibInflate (ofList z) true (limit := n) with
    | some (o, _) => .ok o.toList
    | none =>
      -- distinguish "too large" from "corrupt" by retrying without a bound
      match Inf.zlibInflate (ofList z) true with
      | some _ => .error true
      | none => .error false
  utf8Ok := fun b => (String.fromUTF8? (ofList b)).isSome

def evStr (outSince : Bytes) : Ev → Option String
  | .nothing => none
  | .partialChunk _ => none
  | .imageData => none
  | .header w h d c i => some s!"H({w},{h},{d},{c},{if i then 1 else 0})"
  | .chunkBegin l t => some s!"B({l},{typeName t})"
  | .chunkComplete _ t => some s!"C({typeName t})"
  | .pixelDimensions x y u => some s!"P({x},{y},{u})"
  | .animationControl f p => some s!"A({f},{p})"
  | .frameControl fc => some s!"F({fc.seq},{fc.width},{fc.height},{fc.x},{fc.y},{fc.delayNum},{fc.delayDen},{fc.dispose},{fc.blend})"
  | .imageDataFlushed => some s!"FL({outSince.length}:{hex64 (fnv64 (ofList outSince))})"
  | .imageEnd => some "E"
where
  hex64 (x : UInt64) : String :=
    String.ofList ((List.range 16).map fun i => hexChar ((x >>> (4 * (15 - i)).toUInt64) &&& 15).toUInt8)

def optB (o : Option Bytes) : String := match o with | some b => toHexL b | none => "none"
def optN (o : Option Nat) : String := match o with | some n => toString n | none => "none"

def inflText (z : Bytes) : Option Bytes := (Inf.zlibInflate (ofList z) true).map (·.1.toList)

def textStr : TextChunk → String
  | .tEXt k t => s!"t:{toHexL k}:{toHexL t}"
  | .zTXt k c => s!"z:{toHexL k}:{match inflText c with | some t => toHexL t | none => "err"}"
  | .iTXt k c l tr t =>
    let txt := if c then (match inflText t with
        | some u => if (String.fromUTF8? (ofList u)).isSome then toHexL u else "err"
        | none => "err") else toHexL t
    s!"i:{toHexL k}:{if c then 1 else 0}:{toHexL l}:{toHexL tr}:{txt}"

def textKind : TextChunk → Nat
  | .tEXt .. => 0 | .zTXt .. => 1 | .iTXt .. => 2

def infoStr : Option Info → String
  | none => "noinfo"
  | some i =>
    let pd := match i.pixelDims with | some (x, y, u) => s!"{x},{y},{u}" | none => "none"
    let chrm := match i.chrm with | some l => ",".intercalate (l.map toString) | none => "none"
    let cicp := match i.cicp with | some (a, b, c, f) => s!"{a},{b},{c},{if f then 1 else 0}" | none => "none"
    let mdcv := match i.mdcv with | some (l, mx, mn) => s!"{",".intercalate (l.map toString)};{mx};{mn}" | none => "none"
    let clli := match i.clli with | some (a, b) => s!"{a},{b}" | none => "none"
    let actl := match i.actl with | some (a, b) => s!"{a},{b}" | none => "none"
    let grp (k : Nat) : String := ";".intercalate ((i.text.filter (fun t => textKind t == k)).map textStr)
    let fctl := match i.fctl with
      | some fc => s!"{fc.seq},{fc.width},{fc.height},{fc.x},{fc.y},{fc.delayNum},{fc.delayDen},{fc.dispose},{fc.blend}"
      | none => "none"
    s!"{i.width}x{i.height} d{i.depth} c{i.color} il{if i.interlaced then 1 else 0} plte={optB i.palette} trns={optB i.trns} sbit={optB i.sbit} bkgd={optB i.bkgd} phys={pd} gama={optN i.gama} chrm={chrm} srgb={optN i.srgb} cicp={cicp} mdcv={mdcv} clli={clli} exif={optB i.exif} icc={optB i.icc} actl={actl} fctl={fctl} text=[{grp 0}|{grp 1}|{grp 2}]"

def errStr : Err → String
  | .format w => s!"format({w})"
  | .limits => "limits"
  | .parameter => "parameter"
  | .panic s => s!"PANIC({s})"

/-- run the caller loop over one piece; accumulates projected events; tracks the output index of the last flush -/
partial def runPiece (cfg : Cfg) (d : Dec) (buf : Bytes) (evs : Array String) (flushedAt calls : Nat) :
    Dec × Array String × Nat × Nat × Option Err :=
  if buf.isEmpty then (d, evs, flushedAt, calls, none) else
  match update cfg d buf with
  | (d', .error e) => (d', evs, flushedAt, calls + 1, some e)
  | (d', .ok (n, ev)) =>
    let since := d'.out.drop flushedAt
    let flushedAt' := if ev = .imageDataFlushed then d'.out.length else flushedAt
    let evs' := match evStr since ev with | some s => evs.push s | none => evs
    runPiece cfg d' (buf.drop n) evs' flushedAt' (calls + 1)

def parseOpts (s : String) : Option Options :=
  match s.toList with
  | [a, b, c, d, e] =>
    if [a, b, c, d, e].all (fun x => x == '0' || x == '1') then
      some { ignoreAdler := a == '1', ignoreCrc := b == '1', ignoreText := c == '1', ignoreIccp := d == '1', skipAncillaryCrcFailures := e == '1' }
    else none
  | _ => none

def frm (args : List String) : String :=
  match args with
  | ["run", opts, limit, file, cuts] =>
    match parseOpts opts, (if limit == "max" then some (2 ^ 64 - 1) else limit.toNat?), parseHexL file with
    | some o, some lim, some f =>
      let cutList : Option (List Nat) := if cuts == "-" then some [] else (cuts.splitOn ",").mapM (·.toNat?)
      match cutList with
      | none => "bad-op"
      | some cl =>
        let cfg := realCfg (!o.ignoreAdler)
        let d0 : Dec := { opts := o, limit := lim }
        let bounds := (0 :: cl) ++ [f.length]
        let pieces := (bounds.zip (bounds.drop 1)).map fun (a, b) => (f.drop a).take (b - a)
        let (d, evs, _, calls, err) := pieces.foldl
          (fun (acc : Dec × Array String × Nat × Nat × Option Err) (p : Bytes) =>
            let (d, evs, fl, calls, err) := acc
            match err with
            | some _ => acc
            | none => runPiece cfg d p evs fl calls)
          (d0, #[], 0, 0, none)
        let e := match err with | some e => errStr e | none => "ok"
        s!"{" ".intercalate evs.toList} | {infoStr d.info} | {e} | {calls}"
    | _, _, _ => "bad-op"
  | _ => "bad-op"

end Png.Driver
