import PngVerif.Model.Util
import PngVerif.Model.Text
/-! Line protocol for C20 (see harness/src/props/c20.rs).

Byte strings are lowercase hex (`-` = empty).  Strings travel as the hex of their UTF-8 encoding
(`<str>` below); a `<str>` argument that is not valid UTF-8 is `bad-op` (a Rust `String` cannot hold
it either).  Errors are printed as `err:<constructor name>` of `TextDecErr` / `TextEncErr`.

  `c20 consts`                      -> `<DECOMPRESSION_LIMIT> <max keyword length>`
  `c20 codec`                       -> `toy`  (name of the codec instantiated below)
  `c20 l1dec <bytes>`               -> `<str>`                       decodeLatin1
  `c20 l1enc <str>`                 -> `<bytes>` | `err:unrepresentable`   encodeLatin1
  `c20 utf8 <bytes>`                -> `ok` | `err`                  utf8Decode
  `c20 ascii <bytes>`               -> `ok <str>` | `err:…` | `panic`  decodeAscii
  `c20 text <body>`                 -> `ok <kw:str> <text:str>` | `err:…`              parseTEXt
  `c20 ztxt <body>`                 -> `ok <kw:str> <state>` | `err:…`                 parseZTXt
  `c20 itxt <body>`                 -> `ok <kw:str> <0|1> <lang:str> <tk:str> <state>` | `err:…` | `panic`   parseITXt
  `c20 enctext <kw:str> <text:str>` -> `<body>` | `err:…`            TEXt.encodeBody
  `c20 encztxt <kw:str> <state>`    -> `<body>` | `err:…`            ZTXt.encodeBody c20Codec
  `c20 encitxt <kw:str> <0|1> <lang:str> <tk:str> <state>` -> `<body>` | `err:…`   ITXt.encodeBody c20Codec
  `c20 optc <z|i> <state> <ops>`    -> `<r1>,<r2>,…;<state>`         the OptCompressed machine
        (`z` = zTXt/Latin-1, `i` = iTXt/UTF-8)

`<state>` is `c:<payload bytes>` (Compressed) or `u:<str>` (Uncompressed).
`<ops>` is a comma-separated list of `d<limit>` (decompress_text_with_limit), `D` (decompress_text,
i.e. the default limit), `c` (compress_text), `g` (get_text); the answers `<ri>` are `ok`,
`err:<name>`, and for `g` `ok:<str>`.

THE CODEC.  `c20Codec` is the one definition to change when a real inflater/deflater is available
in Lean.  Today it is `toyCodec` (Model/Text.lean): the "compressed" form of `x` is `0x78 :: x`.  It is
*not* zlib.  It is used only for (a) state-machine runs (`optc`), where the harness gives the model
the toy form of the text it gave the real crate as a real zlib stream (and `00` for a corrupt
stream), and compares results and texts, not payload bytes; (b) `encztxt`/`encitxt` of a chunk in
the Uncompressed state, where the harness compares everything before the payload byte for byte and
the payloads after inflating each with its own codec.  Chunk *parsing* never calls the codec. -/
namespace Png.Driver
open Png

/-- the codec used by the driver — change this one definition to plug in a real zlib -/
def c20Codec : ZCodec := toyCodec
def c20CodecName : String := "toy"

def strHex (s : String) : String := toHexL (utf8Encode s)
def parseStr (h : String) : Option String := parseHexL h >>= utf8Decode

def decErrName : TextDecErr → String
  | .unrepresentable => "unrepresentable"
  | .invalidKeywordSize => "invalidKeywordSize"
  | .missingNullSeparator => "missingNullSeparator"
  | .inflationError => "inflationError"
  | .outOfDecompressionSpace => "outOfDecompressionSpace"
  | .invalidCompressionMethod => "invalidCompressionMethod"
  | .invalidCompressionFlag => "invalidCompressionFlag"
  | .missingCompressionFlag => "missingCompressionFlag"

def encErrName : TextEncErr → String
  | .unrepresentable => "unrepresentable"
  | .invalidKeywordSize => "invalidKeywordSize"
  | .compressionError => "compressionError"

def stateStr : OptC → String
  | .compressed v => s!"c:{toHexL v}"
  | .uncompressed s => s!"u:{strHex s}"

def parseState (t : String) : Option OptC :=
  if t.startsWith "c:" then (parseHexL (t.drop 2).toString).map OptC.compressed
  else if t.startsWith "u:" then (parseStr (t.drop 2).toString).map OptC.uncompressed
  else none

def encOut : Except TextEncErr Bytes → String
  | .ok b => toHexL b
  | .error e => s!"err:{encErrName e}"

inductive Op | decompress (n : Nat) | compress | getText

def parseOp (s : String) : Option Op :=
  if s == "c" then some .compress
  else if s == "g" then some .getText
  else if s == "D" then some (.decompress decompressionLimit)
  else if s.startsWith "d" then (s.drop 1).toString.toNat?.map Op.decompress
  else none

def parseOps (s : String) : Option (List Op) := (s.splitOn ",").mapM parseOp

def runOps (k : Coding) : List Op → OptC → List String → List String × OptC
  | [], t, acc => (acc.reverse, t)
  | .decompress n :: ops, t, acc =>
    let r := t.decompressWithLimit c20Codec k n
    runOps k ops r.1 ((match r.2 with | .ok () => "ok" | .error e => s!"err:{decErrName e}") :: acc)
  | .compress :: ops, t, acc =>
    let r := t.compress c20Codec k
    runOps k ops r.1 ((match r.2 with | .ok () => "ok" | .error e => s!"err:{encErrName e}") :: acc)
  | .getText :: ops, t, acc =>
    runOps k ops t ((match t.getText c20Codec k with
      | .ok s => s!"ok:{strHex s}" | .error e => s!"err:{decErrName e}") :: acc)

def c20 (args : List String) : String :=
  match args with
  | ["consts"] => s!"{decompressionLimit} {maxKeywordLen}"
  | ["codec"] => c20CodecName
  | ["l1dec", b] =>
    match parseHexL b with
    | some bs => strHex (decodeLatin1 bs)
    | none => "bad-op"
  | ["l1enc", s] =>
    match parseStr s with
    | some s => encOut (encodeLatin1 s)
    | none => "bad-op"
  | ["utf8", b] =>
    match parseHexL b with
    | some bs => if (utf8Decode bs).isSome then "ok" else "err"
    | none => "bad-op"
  | ["ascii", b] =>
    match parseHexL b with
    | some bs =>
      match decodeAscii bs with
      | .ok s => s!"ok {strHex s}"
      | .err e => s!"err:{decErrName e}"
      | .panic => "panic"
    | none => "bad-op"
  | ["text", b] =>
    match parseHexL b with
    | some bs =>
      match parseTEXt bs with
      | .ok c => s!"ok {strHex c.keyword} {strHex c.text}"
      | .error e => s!"err:{decErrName e}"
    | none => "bad-op"
  | ["ztxt", b] =>
    match parseHexL b with
    | some bs =>
      match parseZTXt bs with
      | .ok c => s!"ok {strHex c.keyword} {stateStr c.text}"
      | .error e => s!"err:{decErrName e}"
    | none => "bad-op"
  | ["itxt", b] =>
    match parseHexL b with
    | some bs =>
      match parseITXt bs with
      | .ok c =>
        s!"ok {strHex c.keyword} {if c.compressed then 1 else 0} {strHex c.languageTag} {strHex c.translatedKeyword} {stateStr c.text}"
      | .err e => s!"err:{decErrName e}"
      | .panic => "panic"
    | none => "bad-op"
  | ["enctext", kw, text] =>
    match parseStr kw, parseStr text with
    | some kw, some text => encOut (TEXt.encodeBody ⟨kw, text⟩)
    | _, _ => "bad-op"
  | ["encztxt", kw, st] =>
    match parseStr kw, parseState st with
    | some kw, some t => encOut (ZTXt.encodeBody c20Codec ⟨kw, t⟩)
    | _, _ => "bad-op"
  | ["encitxt", kw, flag, lang, tk, st] =>
    match parseStr kw, flag.toNat?, parseStr lang, parseStr tk, parseState st with
    | some kw, some f, some lang, some tk, some t =>
      if f > 1 then "bad-op" else encOut (ITXt.encodeBody c20Codec ⟨kw, f == 1, lang, tk, t⟩)
    | _, _, _, _, _ => "bad-op"
  | ["optc", kind, st, ops] =>
    match parseState st, parseOps ops with
    | some t, some ops =>
      if kind == "z" || kind == "i" then
        let k := if kind == "z" then latin1Coding else utf8Coding
        let (rs, t') := runOps k ops t []
        s!"{",".intercalate rs};{stateStr t'}"
      else "bad-op"
    | _, _ => "bad-op"
  | _ => "bad-op"

end Png.Driver
