/-!
# Colour types, bit depths, row lengths (`src/common.rs:25-137, 838-848`)

Colour types and depths are carried as their byte values (`ColorType::from_u8`, `BitDepth::from_u8`).
-/
namespace Png

/-- `ColorType::from_u8` accepts exactly these -/
def colorOk (c : Nat) : Bool := c == 0 || c == 2 || c == 3 || c == 4 || c == 6
/-- `BitDepth::from_u8` accepts exactly these -/
def depthOk (d : Nat) : Bool := d == 1 || d == 2 || d == 4 || d == 8 || d == 16

/-- `ColorType::samples` (common.rs:27-40) -/
def samplesOf : Nat → Nat
  | 0 => 1 | 3 => 1 | 2 => 3 | 4 => 2 | 6 => 4 | _ => 0

/-- `is_combination_invalid` (common.rs:74-83) -/
def combinationInvalid (color depth : Nat) : Bool :=
  ((depth == 1 || depth == 2 || depth == 4) && (color == 2 || color == 4 || color == 6))
    || (depth == 16 && color == 3)

/-- the fifteen legal pairs of the PNG specification (table 11.1) -/
def legalPairs : List (Nat × Nat) :=
  [(0,1),(0,2),(0,4),(0,8),(0,16),(2,8),(2,16),(3,1),(3,2),(3,4),(3,8),(4,8),(4,16),(6,8),(6,16)]

/-- `checked_raw_row_length` (common.rs:54-58): `None` when it does not fit `usize` (64-bit) -/
def checkedRawRowLength (color depth width : Nat) : Option Nat :=
  let bits := width * samplesOf color * depth
  let v := 1 + (bits + 7) / 8
  if v < 2 ^ 64 then some v else none

/-- `raw_row_length_from_width` (common.rs:60-72), `usize` arithmetic without overflow for `u32` widths -/
def rawRowLengthFromWidth (color depth width : Nat) : Nat :=
  let samples := width * samplesOf color
  1 + (if depth = 16 then samples * 2
       else if depth = 8 then samples
       else
         let perByte := 8 / depth
         samples / perByte + (if samples % perByte > 0 then 1 else 0))

/-- `bits_per_pixel`, `bytes_per_pixel` (common.rs:85-93) -/
def bitsPerPixel (color depth : Nat) : Nat := samplesOf color * depth
def bytesPerPixel (color depth : Nat) : Nat := samplesOf color * ((depth + 7) / 8)

/-- `BytesPerPixel::from_usize` (common.rs:838-848): `none` is the `unreachable!()` arm -/
def bppFromUsize (n : Nat) : Option Nat :=
  if n = 1 ∨ n = 2 ∨ n = 3 ∨ n = 4 ∨ n = 6 ∨ n = 8 then some n else none

end Png
