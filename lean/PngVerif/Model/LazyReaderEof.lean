import PngVerif.Model.LazyReader
/-!
# The call protocol of `Reader` over a lazy image-data source whose input temporarily ENDS

`Model/LazyReader.lean` (`Png.Lazy`) assumes that all input is present.  Here the input may end anywhere and grow
later: the arrival of every frame's data, and of the stretches of chunks between the frames, is extended with `Eof`
pseudo-steps.  A read that finds an `Eof` marker (`fill_buf` returns an empty slice, read_decoder.rs:62-66) makes
the public call return `UnexpectedEof` (`.err .eof`) and CONSUMES the marker: the next read sees what follows, i.e.
the input has grown meanwhile.

Representation.  The file and the arrival of its data are a `Png.Lazy.Env` (`Env.base`); the `Eof` markers are
given on the side: `Env.eofs[k]` lists, for frame `k`, the number of markers in front of each step of its arrival
(one entry per pull, and one in front of the `Done` step; missing entries count as 0; entries beyond the `Done` step
are only met by `finish`, as part of the stretch that follows), `Env.gaps[k]` is the number of markers in the stretch
of chunks after the data of frame `k` (up to the next data sequence, or up to `IEND`).
Removing all markers = forgetting `eofs` / `gaps` = `Env.base`; a state without its markers = `St.core`, a state of
`Png.Lazy`.  `ofSteps` converts from the flat presentation (a list of steps, `none` = `Eof`).

What a call leaves behind when it returns `UnexpectedEof` in the middle (read from the code, mod.rs):
* `next_raw_interlaced_row` (mod.rs:672-691): the bytes received so far stay in `unfiltering_buffer`; the row
  cursor, `consumed_and_flushed`, `remaining_frames` are as they were;
* `next_frame` (mod.rs:413-479): a successful `read_until_image_data` has installed the new subframe; the rows
  already unfiltered stay consumed AND written to the caller's buffer, the cursor has advanced; a repeated call finds
  `current_interlace_info.is_some()` and goes on with the CURRENT frame from `already_done_rows`;
* `finish_decoding` (mod.rs:490-502): the bytes discarded so far are gone, `consumed_and_flushed` still `false`;
* `next_frame_info` (mod.rs:343-366): `current_interlace_info = None` was set before `finish_decoding`: the rest
  of the frame is dropped; a failure inside `read_until_image_data` leaves `consumed_and_flushed = true`;
* `ReadDecoder::read_until_image_data` (read_decoder.rs:103-118): the chunks parsed so far are consumed, the
  `Reader` fields untouched;
* `finish` (mod.rs:579-596): `remaining_frames = 0`, no current row, `consumed_and_flushed = true`; `finished` still
  `false`, so a repeated `finish` reads on (every other call is answered without touching the input).

One pull = one `decode_next` (one `fill_buf` + `update`), so "between two pulls" is exactly where `fill_buf` can come
back empty.  When the input grows, `fill_buf` may cut it into other pieces than an uninterrupted read would: that is a
different ARRIVAL of the same file, covered by quantifying over all arrivals (`Props/C05Lazy.lean`,
`lazy_resume_independent_*`).

Not modelled (as in `Png.Lazy`): `Eof` before the first image data (`read_info`), pixel values.
Core Lean only.
-/
namespace Png.LazyEof
open Png.Lazy (Frame Arrival ErrC Site Res Op)

/-- the file, the arrival of its data, and the places where the input temporarily ends -/
structure Env where
  /-- the file and the arrival with all `Eof` markers removed -/
  base : Png.Lazy.Env
  /-- per frame: the number of `Eof` markers in front of each step of the arrival (pulls, then `Done`) -/
  eofs : List (List Nat)
  /-- per frame: the number of `Eof` markers in the chunks that follow its data sequence -/
  gaps : List Nat
deriving Repr

structure St where
  /-- the state of `Png.Lazy` (reader fields, position in the current data sequence) -/
  core : Png.Lazy.St
  /-- the `Eof` markers in front of the steps still to come of the current data sequence -/
  eofs : List Nat
  /-- the `Eof` markers still ahead in the stretch after the current data sequence -/
  gap : Nat
  /-- `some n`: a `finish` call has begun to read to `IEND`; `n` `Eof` markers are still ahead of it -/
  tail : Option Nat
deriving Repr, DecidableEq

/-- the `Eof` markers from frame `k` on -/
def later (e : Env) (k : Nat) : Nat := ((e.eofs.drop k).map List.sum).sum + (e.gaps.drop k).sum

/-- the `Eof` markers between the input position and `IEND` -/
def ahead (e : Env) (s : St) : Nat := s.eofs.sum + s.gap + later e (s.core.fi + 1)

/-- the number of `Eof` markers a caller can still meet -/
def marks (e : Env) (s : St) : Nat :=
  match s.tail with
  | some n => n
  | none => ahead e s

def init (e : Env) (rem0 : Nat) : Option St :=
  (Png.Lazy.init e.base rem0).map fun c => { core := c, eofs := e.eofs.getD 0 [], gap := e.gaps.getD 0 0, tail := none }

inductive Pull
  /-- `fill_buf` returned an empty slice: `UnexpectedEof` (read_decoder.rs:62-66) -/
  | eof
  | got (p : Png.Lazy.Pull)

/-- `ReadDecoder::decode_image_data` (read_decoder.rs:124-140) on input that may end -/
def pull (s : St) : St × Pull :=
  if s.core.src.isNone then (s, .got .outside) else
  if 0 < s.eofs.headD 0 then ({ s with eofs := (s.eofs.headD 0 - 1) :: s.eofs.tail }, .eof)
  else ({ s with core := (Png.Lazy.pull s.core).1, eofs := s.eofs.tail }, .got (Png.Lazy.pull s.core).2)

/-- `next_raw_interlaced_row` (mod.rs:672-691) -/
def nextRaw (rowlen : Nat) : Nat → St → St × Option Res
  | 0, s => (s, some (.panic .fuel))
  | fuel + 1, s =>
    if s.core.buf < rowlen then
      if s.core.caf then (s, some (.err .noMoreImageData)) else
      match pull s with
      | (s', .eof) => (s', some (.err .eof))                       -- mod.rs:683 `?`: the buffer keeps its bytes
      | (s', .got .outside) => (s', some (.panic .pullOutside))
      | (s', .got (.more n)) => nextRaw rowlen fuel { s' with core := { s'.core with buf := s'.core.buf + n } }
      | (s', .got (.done m)) =>
        match Png.Lazy.mark { s'.core with buf := s'.core.buf + m } with
        | .error r => ({ s' with core := { s'.core with buf := s'.core.buf + m } }, some r)
        | .ok c2 => nextRaw rowlen fuel { s' with core := c2 }
    else ({ s with core := { s.core with buf := s.core.buf - rowlen } }, none)

/-- `next_interlaced_row_impl` (mod.rs:599-619) -/
def rowImpl (s : St) (i : Nat) : St × Option Res :=
  match nextRaw (s.core.sub.getD i 0) (Png.Lazy.fuelOf s.core) s with
  | (s', some r) => (s', some r)
  | (s', none) => ({ s' with core := { s'.core with cur := Png.Lazy.advance s'.core } }, none)

/-- `ReadDecoder::finish_decoding_image_data` (read_decoder.rs:145-152) -/
def discard : Nat → St → St × Option Res
  | 0, s => (s, some (.panic .fuel))
  | fuel + 1, s =>
    match pull s with
    | (s', .eof) => (s', some (.err .eof))
    | (s', .got .outside) => (s', some (.panic .pullOutside))
    | (s', .got (.done _)) => (s', none)
    | (s', .got (.more _)) => discard fuel s'

/-- `finish_decoding` (mod.rs:490-502) -/
def finishDecoding (s : St) : St × Option Res :=
  if s.core.cur.isSome then (s, some (.panic .finishAssert)) else
  if s.core.caf then (s, none) else
  match discard (Png.Lazy.fuelOf s.core) s with
  | (s', some r) => (s', some r)                                   -- mod.rs:497 `?`: not marked as consumed
  | (s', none) =>
    match Png.Lazy.mark s'.core with
    | .error r => (s', some r)
    | .ok c2 => ({ s' with core := c2 }, none)

/-- `read_until_image_data` (mod.rs:370-391, read_decoder.rs:103-118) -/
def readUntilImageData (e : Env) (s : St) : St × Option Res :=
  if s.core.atEnd then (s, some (.err .eof)) else
  if s.core.src.isSome then (s, some (.panic .readInside)) else
  if 0 < s.gap then ({ s with gap := s.gap - 1 }, some (.err .eof)) else   -- read_decoder.rs:105 `?`
  match Png.Lazy.readUntilImageData e.base s.core with
  | (c, none) => ({ s with core := c, eofs := e.eofs.getD c.fi [], gap := e.gaps.getD c.fi 0 }, none)
  | (c, some r) => ({ s with core := c }, some r)

def nextRow (s : St) : St × Res :=
  match s.core.cur with
  | none =>
    match finishDecoding s with
    | (s', some r) => (s', r)
    | (s', none) => (s', .none)
  | some i =>
    match rowImpl s i with
    | (s', some r) => (s', r)
    | (s', none) => (s', .row s.core.fi i)

def frameRows : Nat → Nat → St → List Nat → St × List Nat × Option Res
  | 0, _, s, w => (s, w, none)
  | n + 1, j, s, w =>
    match rowImpl s j with
    | (s', some r) => (s', w, some r)
    | (s', none) => frameRows n (j + 1) s' (w ++ [j])

def frameInterlaced : Nat → St → List Nat → St × List Nat × Option Res
  | 0, s, w => (s, w, some (.panic .fuel))
  | fuel + 1, s, w =>
    match nextRow s with
    | (s', .row _ i) => frameInterlaced fuel s' (w ++ [i])
    | (s', .none) => (s', w, none)
    | (s', r) => (s', w, some r)

/-- `next_frame` once the reader stands in the frame's image data; the third component = the row-units this call
    wrote into the caller's buffer (also when it fails) -/
def frameInto (e : Env) (s1 : St) : St × Res × List Nat :=
  let body :=
    if e.base.interlaced then frameInterlaced (s1.core.sub.length + 2) s1 []
    else
      let done := s1.core.cur.getD s1.core.sub.length
      frameRows (s1.core.sub.length - done) done s1 []
  match body with
  | (s2, w, some r) => (s2, r, w)
  | (s2, w, none) =>
    match finishDecoding s2 with
    | (s3, some r) => (s3, r, w)
    | (s3, none) => (s3, .frame s1.core.fi w, w)

/-- `next_frame` (mod.rs:413-479) -/
def nextFrame (e : Env) (s : St) : St × Res × List Nat :=
  let adv : St × Option Res :=
    if s.core.cur.isSome then (s, none)
    else if s.core.rem = 0 then (s, some (.err .polled))
    else if s.core.caf then readUntilImageData e s
    else (s, none)
  match adv with
  | (s1, some r) => (s1, r, [])
  | (s1, none) => frameInto e s1

/-- `next_frame_info` (mod.rs:343-366) -/
def nextFrameInfo (e : Env) (s : St) : St × Res :=
  let r := if s.core.caf then s.core.rem else s.core.rem - 1
  if r = 0 then (s, .err .polled) else
  let fin : St × Option Res :=
    if !s.core.caf then finishDecoding { s with core := { s.core with cur := none } }   -- mod.rs:357-358
    else (s, none)
  match fin with
  | (s1, some r) => (s1, r)
  | (s1, none) =>
    match readUntilImageData e s1 with
    | (s2, some r) => (s2, r)
    | (s2, none) => (s2, .fctl s2.core.fi)

/-- `finish` (mod.rs:579-596): the fields are set first, then `read_until_end_of_input` reads whatever lies between
    the input position and `IEND` -/
def finish (e : Env) (s : St) : St × Res :=
  if s.core.finished then (s, .err .polled) else
  let c1 : Png.Lazy.St := { s.core with rem := 0, buf := 0, cur := none, caf := true }
  if c1.atEnd then ({ s with core := c1 }, .err .eof) else
  let n := marks e s
  if n = 0 then
    ({ core := { c1 with src := none, atEnd := true, finished := true }, eofs := [], gap := 0, tail := some 0 }, .ok)
  else
    ({ core := { c1 with src := none }, eofs := [], gap := 0, tail := some (n - 1) }, .err .eof)   -- mod.rs:592 `?`

/-- one ATTEMPT of a public call: the new state, the answer, the row-units written into the caller's buffer -/
def step (e : Env) (s : St) : Op → St × Res × List Nat
  | .nextFrame => nextFrame e s
  | .nextRow => ((nextRow s).1, (nextRow s).2, [])
  | .nextFrameInfo => ((nextFrameInfo e s).1, (nextFrameInfo e s).2, [])
  | .finish => ((finish e s).1, (finish e s).2, [])

/-- a caller that never repeats anything: a sequence of attempts -/
def run (e : Env) : St → List Op → St × List Res
  | s, [] => (s, [])
  | s, op :: ops =>
    let (s2, rs) := run e (step e s op).1 ops
    (s2, (step e s op).2.1 :: rs)

/-- the rows a repeated `next_frame` wrote in its earlier attempts are in the caller's buffer as well -/
def addW (acc : List Nat) : Res → Res
  | .frame k w => .frame k (acc ++ w)
  | r => r

/-- A caller that REPEATS the call while it answers `UnexpectedEof`, at most `n` times (`n` = a bound on the number
    of `Eof` markers); `acc` = the row-units earlier attempts wrote into the (same) buffer. -/
def resume (e : Env) : Nat → St → Op → List Nat → St × Res
  | 0, s, op, acc => ((step e s op).1, addW acc (step e s op).2.1)
  | n + 1, s, op, acc =>
    if (step e s op).2.1 = .err .eof then resume e n (step e s op).1 op (acc ++ (step e s op).2.2)
    else ((step e s op).1, addW acc (step e s op).2.1)

/-- a sequence of calls, each repeated while it answers `UnexpectedEof` -/
def resumeRun (e : Env) (n : Nat) : St → List Op → St × List Res
  | s, [] => (s, [])
  | s, op :: ops =>
    let (s2, rs) := resumeRun e n (resume e n s op []).1 ops
    (s2, (resume e n s op []).2 :: rs)

/-- everything the retrying caller is answered during one repeated call, `UnexpectedEof`s included -/
def resumeTrace (e : Env) : Nat → St → Op → List Nat → List Res
  | 0, s, op, acc => [addW acc (step e s op).2.1]
  | n + 1, s, op, acc =>
    if (step e s op).2.1 = .err .eof then
      .err .eof :: resumeTrace e n (step e s op).1 op (acc ++ (step e s op).2.2)
    else [addW acc (step e s op).2.1]

/-- everything the retrying caller is answered during a sequence of calls -/
def resumeTraceRun (e : Env) (n : Nat) : St → List Op → List Res
  | _, [] => []
  | s, op :: ops => resumeTrace e n s op [] ++ resumeTraceRun e n (resume e n s op []).1 ops

/-- the answers other than `UnexpectedEof` -/
def noEof (rs : List Res) : List Res := rs.filter (· != .err .eof)

/-- flat presentation of an arrival with `Eof` pseudo-steps (`none`): the pulls and the marker counts -/
def ofSteps : List (Option Nat) → List Nat × List Nat
  | [] => ([], [0])
  | none :: l =>
    match ofSteps l with
    | (p, k :: ks) => (p, (k + 1) :: ks)
    | (p, []) => (p, [1])
  | some n :: l => (n :: (ofSteps l).1, 0 :: (ofSteps l).2)

/-- an environment from flat arrivals: per frame the steps (`none` = `Eof`), the bytes arriving with `Done`, and
    the markers in the stretch after the frame -/
def Env.ofFlat (interlaced : Bool) (frames : List Frame) (arr : List (List (Option Nat) × Nat × Nat)) : Env :=
  { base := ⟨interlaced, frames, arr.map fun a => ⟨(ofSteps a.1).1, a.2.1⟩⟩,
    eofs := arr.map fun a => (ofSteps a.1).2,
    gaps := arr.map fun a => a.2.2 }

end Png.LazyEof
