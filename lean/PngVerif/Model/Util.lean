/-! Byte-string helpers shared by the model and the line-protocol driver (core Lean only). -/
namespace Png

def hexDigit (b : UInt8) : Option UInt8 :=
  if 48 ≤ b && b ≤ 57 then some (b - 48)
  else if 97 ≤ b && b ≤ 102 then some (b - 87)
  else none

/-- lowercase hex → bytes; `-` is the empty string; anything else malformed → `none` -/
def parseHex (s : String) : Option ByteArray :=
  if s == "-" then some ByteArray.empty else
  let u := s.toUTF8
  if u.size % 2 != 0 then none else Id.run do
    let mut out := ByteArray.emptyWithCapacity (u.size / 2)
    for i in [0:u.size / 2] do
      match hexDigit u[2*i]!, hexDigit u[2*i+1]! with
      | some h, some l => out := out.push (h * 16 + l)
      | _, _ => return none
    return some out

def hexChar (n : UInt8) : Char :=
  if n < 10 then Char.ofNat (48 + n.toNat) else Char.ofNat (87 + n.toNat)

def toHex (b : ByteArray) : String :=
  if b.size = 0 then "-" else Id.run do
    let mut s := ""
    for i in [0:b.size] do
      let x : UInt8 := b[i]!
      s := (s.push (hexChar (x >>> 4))).push (hexChar (x &&& 15))
    return s

def toHexL (b : List UInt8) : String :=
  if b.isEmpty then "-" else
    b.foldl (fun (s : String) (x : UInt8) => (s.push (hexChar (x >>> 4))).push (hexChar (x &&& 15))) ""

def parseHexL (s : String) : Option (List UInt8) := (parseHex s).map (·.toList)

def ofList (l : List UInt8) : ByteArray := ByteArray.mk l.toArray

/-- big-endian 32-bit -/
def be32 (a b c d : UInt8) : Nat := ((a.toNat * 256 + b.toNat) * 256 + c.toNat) * 256 + d.toNat
def be32Bytes (n : Nat) : List UInt8 :=
  [(n / 16777216 % 256).toUInt8, (n / 65536 % 256).toUInt8, (n / 256 % 256).toUInt8, (n % 256).toUInt8]
def be16Bytes (n : Nat) : List UInt8 := [(n / 256 % 256).toUInt8, (n % 256).toUInt8]

end Png
