import PngVerif.Model.Util
import PngVerif.Model.Basic
import PngVerif.Model.Text
import PngVerif.Model.Framing
/-!
# What the encoder writes for each metadata item (`src/encoder.rs`, `src/common.rs`, `src/srgb.rs`)

Core Lean only: this file is linked into the `pngmodel` driver.

Implementation-shaped model of

* the chunk *bodies* produced by `PixelDimensions` (encoder.rs:599-608), `ScaledFloat::encode_gama`
  (common.rs:465-467), `SourceChromaticities::encode` (:493-517), `SrgbRenderingIntent::encode`
  (:551-553), `AnimationControl::encode` (:310-315), `FrameControl::encode` (:283-298),
  `Writer::write_iccp_chunk` (encoder.rs:689-712), the raw PLTE / tRNS / eXIf blobs (:635-651) and —
  from `Model/Text.lean` — the three `EncodableTextChunk::encode` functions;
* `Writer::encode_header` (encoder.rs:585-666) with its order of chunks and the special treatment of
  sRGB (:610-633), preceded by the three checks of `Writer::init` (:559-582);
* the frame-control setters of `Encoder` (:219-239, :357-425) and `Writer` (:945-1087) and the
  `fcTL` emission of `write_image_data` (:865-891).

A chunk is a pair (type, body); length field and CRC are property C12's business.
`encoder::write_chunk` (encoder.rs:536-545) writes `data.len() as u32` without a check; only the
callers that go through `Writer::write_chunk` (:674-683: IHDR, pHYs, iCCP, eXIf, PLTE, tRNS) refuse a
body longer than `i32::MAX`.  A text chunk body of 2^32 bytes or more would get a truncated length
field; this is outside what can be executed and is not modelled (the chunk list below carries the
body itself).

Numbers are `Nat`s; that every field fits its Rust type (`u32`, `u16`, the members of an enum) is the
predicate `MetaConfig.InRange` / `FcInRange`, a typing fact and not a restriction.

The zlib compressor is the abstract `ZCodec` of `Model/Text.lean`.  (`write_iccp_chunk` uses
`flate2::Compression::default()`, the text chunks `Compression::fast()`; the contract
`decompress (compress x) = some x` does not depend on the level, and payload bytes are never
compared with the real encoder's.)
-/
namespace Png.EncodeMeta
open Png Png.Framing

abbrev Chunk := ChunkType × Bytes

/-! ## Values -/

/-- `PixelDimensions` (common.rs:141-148); `meter` = `Unit::Meter` (1), otherwise `Unit::Unspecified` (0) -/
structure PixelDims where
  xppu : Nat
  yppu : Nat
  meter : Bool
deriving DecidableEq, Repr

/-- `SourceChromaticities` (common.rs:476-481), each `ScaledFloat` by its scaled `u32` -/
structure Chromaticities where
  wx : Nat
  wy : Nat
  rx : Nat
  ry : Nat
  gx : Nat
  gy : Nat
  bx : Nat
  by_ : Nat
deriving DecidableEq, Repr

/-- order of `to_be_bytes` (common.rs:494-513) = order in which `parse_chrm` reads (stream.rs:1325-1332) -/
def Chromaticities.toList (c : Chromaticities) : List Nat := [c.wx, c.wy, c.rx, c.ry, c.gx, c.gy, c.bx, c.by_]

/-- `srgb::substitute_gamma` (srgb.rs:4-7) -/
def substituteGamma : Nat := 45455
/-- `srgb::substitute_chromaticities` (srgb.rs:10-30) -/
def substituteChroma : Chromaticities := ⟨31270, 32900, 64000, 33000, 30000, 60000, 15000, 6000⟩

/-- everything `encode_header` looks at (`Info`, common.rs:648-699), IHDR fields first -/
structure MetaConfig where
  width : Nat
  height : Nat
  depth : Nat
  color : Nat
  palette : Option Bytes := none
  trns : Option Bytes := none
  pixelDims : Option PixelDims := none
  /-- `Info::source_gamma` (scaled) -/
  gamma : Option Nat := none
  /-- `Info::source_chromaticities` -/
  chroma : Option Chromaticities := none
  /-- `Info::srgb`: rendering intent 0..3 -/
  srgb : Option Nat := none
  icc : Option Bytes := none
  exif : Option Bytes := none
  actl : Option (Nat × Nat) := none
  tEXt : List TEXt := []
  zTXt : List ZTXt := []
  iTXt : List ITXt := []
deriving DecidableEq

def U32 (n : Nat) : Prop := n < 4294967296
def U16 (n : Nat) : Prop := n < 65536
instance (n : Nat) : Decidable (U32 n) := by unfold U32; infer_instance
instance (n : Nat) : Decidable (U16 n) := by unfold U16; infer_instance

def PixelDims.InRange (p : PixelDims) : Prop := U32 p.xppu ∧ U32 p.yppu
def Chromaticities.InRange (c : Chromaticities) : Prop := ∀ v ∈ c.toList, U32 v
instance (p : PixelDims) : Decidable p.InRange := by unfold PixelDims.InRange; infer_instance
instance (c : Chromaticities) : Decidable c.InRange := by unfold Chromaticities.InRange; infer_instance

/-- `Option`-lifted predicate -/
def optAll {α} (p : α → Prop) : Option α → Prop
  | none => True
  | some a => p a
instance {α} (p : α → Prop) [DecidablePred p] (o : Option α) : Decidable (optAll p o) := by
  cases o <;> unfold optAll <;> infer_instance

/-- every field is a value of its Rust type: `u32` sizes and scaled floats, `BitDepth`, `ColorType`,
`SrgbRenderingIntent` members -/
def MetaConfig.InRange (m : MetaConfig) : Prop :=
  U32 m.width ∧ U32 m.height ∧ depthOk m.depth = true ∧ colorOk m.color = true ∧
  optAll PixelDims.InRange m.pixelDims ∧ optAll U32 m.gamma ∧ optAll Chromaticities.InRange m.chroma ∧
  optAll (· ≤ 3) m.srgb ∧ optAll (fun (a : Nat × Nat) => U32 a.1 ∧ U32 a.2) m.actl
instance (m : MetaConfig) : Decidable m.InRange := by unfold MetaConfig.InRange; infer_instance

/-! ## Chunk bodies -/

/-- IHDR as `encode_header` writes it (encoder.rs:589-596): compression, filter and interlace
methods are always 0 (scanlines are written progressively whatever `Info::interlaced` says) -/
def encodeIhdr (w h depth color : Nat) : Bytes :=
  be32Bytes w ++ (be32Bytes h ++ [depth.toUInt8, color.toUInt8, 0, 0, 0])

/-- pHYs (encoder.rs:599-608) -/
def encodePhys (p : PixelDims) : Bytes :=
  be32Bytes p.xppu ++ (be32Bytes p.yppu ++ [if p.meter then 1 else 0])

/-- gAMA: `into_scaled().to_be_bytes()` (common.rs:465-467) -/
def encodeGama (g : Nat) : Bytes := be32Bytes g

def be32List : List Nat → Bytes
  | [] => []
  | v :: vs => be32Bytes v ++ be32List vs

/-- cHRM: `to_be_bytes` (common.rs:494-513) -/
def encodeChrm (c : Chromaticities) : Bytes := be32List c.toList

/-- sRGB: `[self.into_raw()]` (common.rs:551-553) -/
def encodeSrgb (intent : Nat) : Bytes := [intent.toUInt8]

/-- acTL (common.rs:310-315) -/
def encodeActl (a : Nat × Nat) : Bytes := be32Bytes a.1 ++ be32Bytes a.2

/-- fcTL: the 26 bytes of `FrameControl::encode` (common.rs:283-298) -/
def encodeFctl (fc : FrameControl) : Bytes :=
  be32Bytes fc.seq ++ (be32Bytes fc.width ++ (be32Bytes fc.height ++ (be32Bytes fc.x ++ (be32Bytes fc.y ++
    (be16Bytes fc.delayNum ++ (be16Bytes fc.delayDen ++ [fc.dispose.toUInt8, fc.blend.toUInt8]))))))

/-- iCCP: `write_iccp_chunk("_", profile)` (encoder.rs:631, 689-712): profile name `_`, its NUL
terminator, compression method 0, then the deflated profile.  The name is a constant that passes the
Latin-1 and size checks of :690-693; `LimitsExceeded` (:695-704) needs a `usize` overflow or a failed
allocation and is not reachable for a profile that fits in memory. -/
def encodeIccp (z : ZCodec) (profile : Bytes) : Bytes := 0x5F :: 0 :: 0 :: z.compress profile

/-! ## Errors and the sink -/

/-- the `EncodingError`s `write_header` can return apart from I/O errors of the sink -/
inductive EncErr
  | zeroWidth | zeroHeight | invalidColorCombination       -- `Writer::init` (encoder.rs:560-577)
  | writtenTooMuch                                          -- `Writer::write_chunk` (:677-680)
  | text (e : TextEncErr)                                   -- `BadTextEncoding` (:134-140)
  | notAnimated | outOfBounds | zeroFrames                  -- frame setters
deriving DecidableEq, Repr

/-- `i32::MAX`, the longest body `Writer::write_chunk` accepts (encoder.rs:677) -/
def maxChunkLen : Nat := 2147483647

/-- `Writer::write_chunk` (encoder.rs:674-683) -/
def checkedChunk (t : ChunkType) (body : Bytes) : Except EncErr (List Chunk) :=
  if body.length > maxChunkLen then .error .writtenTooMuch else .ok [(t, body)]

/-- an optional blob written through `Writer::write_chunk` -/
def optChunk (t : ChunkType) : Option Bytes → Except EncErr (List Chunk)
  | none => .ok []
  | some b => checkedChunk t b

/-- `Writer::write_text_chunk` (encoder.rs:685-687) = `EncodableTextChunk::encode`: either one whole
chunk or an error and nothing (the three `encode` functions build the body in a `Vec` and call
`encoder::write_chunk` last) -/
def textStep (t : ChunkType) (r : Except TextEncErr Bytes) : Except EncErr (List Chunk) :=
  match r with
  | .ok body => .ok [(t, body)]
  | .error e => .error (.text e)

def tEXtStep (c : TEXt) : Except EncErr (List Chunk) := textStep Framing.tEXt c.encodeBody
def zTXtStep (z : ZCodec) (c : ZTXt) : Except EncErr (List Chunk) := textStep Framing.zTXt (c.encodeBody z)
def iTXtStep (z : ZCodec) (c : ITXt) : Except EncErr (List Chunk) := textStep Framing.iTXt (c.encodeBody z)

/-- The sink as a list of chunks.  Steps are executed in order; the first failing one stops the
sequence (`?`), and what the earlier ones wrote stays in the sink. -/
def runSteps : List (Except EncErr (List Chunk)) → List Chunk → List Chunk × Except EncErr Unit
  | [], sink => (sink, .ok ())
  | .ok cs :: rest, sink => runSteps rest (sink ++ cs)
  | .error e :: _, sink => (sink, .error e)

/-- `Writer::write_text_chunk` on a sink: new sink and result -/
def writeTextChunk (sink : List Chunk) (step : Except EncErr (List Chunk)) : List Chunk × Except EncErr Unit :=
  runSteps [step] sink

/-! ## `encode_header` -/

/-- the colour-space chunks (encoder.rs:610-633).  With sRGB: the sRGB chunk, then gAMA / cHRM only
when the configured value *equals* the substitute; the ICC profile is not written.  Without: gAMA,
cHRM, iCCP as configured. -/
def colourSteps (z : ZCodec) (m : MetaConfig) : List (Except EncErr (List Chunk)) :=
  match m.srgb with
  | some intent =>
    [.ok [(Framing.sRGB, encodeSrgb intent)],
     .ok (if m.gamma = some substituteGamma then [(Framing.gAMA, encodeGama substituteGamma)] else []),
     .ok (if m.chroma = some substituteChroma then [(Framing.cHRM, encodeChrm substituteChroma)] else [])]
  | none =>
    [.ok (m.gamma.map fun g => (Framing.gAMA, encodeGama g)).toList,
     .ok (m.chroma.map fun c => (Framing.cHRM, encodeChrm c)).toList,
     optChunk Framing.iCCP (m.icc.map (encodeIccp z))]

/-- the steps of `encode_header` after the signature, in order (encoder.rs:588-663) -/
def headerSteps (z : ZCodec) (m : MetaConfig) : List (Except EncErr (List Chunk)) :=
  [checkedChunk Framing.IHDR (encodeIhdr m.width m.height m.depth m.color),
   optChunk Framing.pHYs (m.pixelDims.map encodePhys)]
  ++ colourSteps z m ++
  [optChunk Framing.eXIf m.exif,
   .ok (m.actl.map fun a => (Framing.acTL, encodeActl a)).toList,
   optChunk Framing.PLTE m.palette,
   optChunk Framing.tRNS m.trns]
  ++ m.tEXt.map tEXtStep ++ m.zTXt.map (zTXtStep z) ++ m.iTXt.map (iTXtStep z)

/-- `Writer::init` (encoder.rs:559-582): three checks, then `encode_header`.  First component: the
chunks that reached the sink (all of them on success, those before the failing one otherwise). -/
def writeHeader (z : ZCodec) (m : MetaConfig) : List Chunk × Except EncErr Unit :=
  if m.width = 0 then ([], .error .zeroWidth)
  else if m.height = 0 then ([], .error .zeroHeight)
  else if combinationInvalid m.color m.depth then ([], .error .invalidColorCombination)
  else runSteps (headerSteps z m) []

/-- the chunks of a successfully written header -/
def encodeHeaderChunks (z : ZCodec) (m : MetaConfig) : Except EncErr (List Chunk) :=
  match writeHeader z m with
  | (cs, .ok ()) => .ok cs
  | (_, .error e) => .error e

/-! ## Frame control: setters and emission -/

/-- every field of a `FrameControl` is a value of its Rust type -/
def FcInRange (fc : FrameControl) : Prop :=
  U32 fc.seq ∧ U32 fc.width ∧ U32 fc.height ∧ U32 fc.x ∧ U32 fc.y ∧ U16 fc.delayNum ∧ U16 fc.delayDen ∧
  fc.dispose ≤ 2 ∧ fc.blend ≤ 1
instance (fc : FrameControl) : Decidable (FcInRange fc) := by unfold FcInRange; infer_instance

/-- `Encoder::set_animated` (encoder.rs:219-239): `FrameControl::default()` (common.rs:258-272) with
the canvas size -/
def initialFc (w h : Nat) : FrameControl :=
  { seq := 0, width := w, height := h, x := 0, y := 0, delayNum := 1, delayDen := 30, dispose := 0, blend := 0 }

/-- `Encoder::set_animated`: refuses zero frames -/
def setAnimated (w h frames plays : Nat) : Except EncErr ((Nat × Nat) × FrameControl) :=
  if frames = 0 then .error .zeroFrames else .ok ((frames, plays), initialFc w h)

/-- the per-frame setters of `Writer` (those of `Encoder` are the same three for delay, blend,
dispose) -/
inductive FcOp
  | dimension (w h : Nat)        -- `set_frame_dimension` (encoder.rs:967-984)
  | position (x y : Nat)         -- `set_frame_position` (:996-1009)
  | resetDimension               -- `reset_frame_dimension` (:1020-1028)
  | resetPosition                -- `reset_frame_position` (:1037-1045)
  | delay (num den : Nat)        -- `set_frame_delay` (:945-953)
  | blend (op : Nat)             -- `set_blend_op` (:1060-1067)
  | dispose (op : Nat)           -- `set_dispose_op` (:1080-1087)
deriving DecidableEq, Repr

/-- arguments are values of their Rust types -/
def FcOp.InRange : FcOp → Prop
  | .dimension w h => U32 w ∧ U32 h
  | .position x y => U32 x ∧ U32 y
  | .delay n d => U16 n ∧ U16 d
  | .blend b => b ≤ 1
  | .dispose o => o ≤ 2
  | _ => True

/-- One setter call on an animated writer whose canvas is `cw × ch`.  `Some(a) > b.checked_sub(c)`
with `b < c` compares with `None`, which is smaller than every `Some`: the call is refused.
`reset_frame_dimension` computes `width - x_offset` unchecked: an underflow would be a panic in a
debug build; `FcInv` excludes it (`applyOp_inv`). -/
def applyOp (cw ch : Nat) (fc : FrameControl) : FcOp → Except EncErr FrameControl
  | .dimension w h =>
    if cw < fc.x ∨ w > cw - fc.x ∨ ch < fc.y ∨ h > ch - fc.y then .error .outOfBounds
    else if w = 0 then .error .zeroWidth
    else if h = 0 then .error .zeroHeight
    else .ok { fc with width := w, height := h }
  | .position x y =>
    if cw < fc.width ∨ x > cw - fc.width ∨ ch < fc.height ∨ y > ch - fc.height then .error .outOfBounds
    else .ok { fc with x := x, y := y }
  | .resetDimension => .ok { fc with width := cw - fc.x, height := ch - fc.y }
  | .resetPosition => .ok { fc with x := 0, y := 0 }
  | .delay n d => .ok { fc with delayNum := n, delayDen := d }
  | .blend b => .ok { fc with blend := b }
  | .dispose o => .ok { fc with dispose := o }

/-- a refused call leaves the frame control as it was -/
def applyOps (cw ch : Nat) : FrameControl → List FcOp → FrameControl
  | fc, [] => fc
  | fc, op :: ops =>
    match applyOp cw ch fc op with
    | .ok fc' => applyOps cw ch fc' ops
    | .error _ => applyOps cw ch fc ops

/-- the sequence number the decoder expects next (stream.rs:1050-1068) -/
def SeqOk (prev : Option Nat) (seq : Nat) : Prop :=
  match prev with
  | none => seq = 0
  | some s => s + 1 < 4294967296 ∧ seq = s + 1
instance (prev : Option Nat) (seq : Nat) : Decidable (SeqOk prev seq) := by
  unfold SeqOk; cases prev <;> infer_instance

/-- the frame lies inside a `cw × ch` canvas and is not empty -/
def FcInv (cw ch : Nat) (fc : FrameControl) : Prop :=
  fc.width ≠ 0 ∧ fc.height ≠ 0 ∧ fc.x + fc.width ≤ cw ∧ fc.y + fc.height ≤ ch
instance (cw ch : Nat) (fc : FrameControl) : Decidable (FcInv cw ch fc) := by unfold FcInv; infer_instance

/-- what `write_image_data` emits before the frame's data when a frame control is pending and the
image is not a skipped default image (encoder.rs:872-875), and the frame control afterwards:
`sequence_number.wrapping_add(1)`; `dataChunks` further increments for the frame's fdAT chunks
(:883-888; none for the IDAT frame) -/
def emitFctl (fc : FrameControl) (dataChunks : Nat) : Chunk × FrameControl :=
  ((Framing.fcTL, encodeFctl fc), { fc with seq := (fc.seq + 1 + dataChunks) % 4294967296 })

/-! ## The stream writer's copy of the frame control

`StreamWriter::new` (encoder.rs, `impl StreamWriter`) starts an image at once — the `fcTL` it writes
is the *writer's* frame control — and keeps a copy of that frame control in `StreamWriter::fctl`.  Its
seven setters (same bodies as the `Writer`'s, bounds against the canvas) change the copy only.  When
the first byte of the next image arrives, `new_frame` hands the copy to `ChunkWriter::set_fctl`, which
replaces the writer's frame control by it **except for the sequence number**, and then writes the
`fcTL`.  So a setter called during a session shows in the next frame of that session; the copy is
dropped with the stream writer. -/

/-- `ChunkWriter::set_fctl`: every field of the copy, the writer's own sequence number -/
def setFctl (writerFc copy : FrameControl) : FrameControl := { copy with seq := writerFc.seq }

/-- what happens to the two frame controls, in the order of the calls -/
inductive FcEvent
  | writerSet (op : FcOp)      -- a setter of `Writer`, between images
  | streamSet (op : FcOp)      -- a setter of `StreamWriter`, any time during a session
  | image (emit : Bool)        -- `Writer::write_image_data` (`emit = false`: the skipped default image)
  | openStream (emit : Bool)   -- `StreamWriter::new`: copy taken, first image of the session started
  | nextFrame                  -- `new_frame`: `set_fctl` with the copy, next image started
  | closeStream                -- the stream writer is finished / dropped
deriving DecidableEq, Repr

/-- writer's frame control, the stream writer's copy while a session is open -/
structure FcState where
  writerFc : FrameControl
  copy : Option FrameControl := none
deriving DecidableEq, Repr

/-- One event: new state, the result of a setter call (`none` for the other events), the `fcTL` emitted
(sequence numbers are not tracked here: they depend on how many `fdAT` chunks the data needs).
A stream setter without a session, `nextFrame` without a session: no effect (the harness never does
that; the API cannot express it). -/
def fcStep (cw ch : Nat) (s : FcState) : FcEvent → FcState × Option (Except EncErr Unit) × Option FrameControl
  | .writerSet op =>
    match applyOp cw ch s.writerFc op with
    | .ok fc => ({ s with writerFc := fc }, some (.ok ()), none)
    | .error e => (s, some (.error e), none)
  | .streamSet op =>
    match s.copy with
    | none => (s, some (.error .notAnimated), none)
    | some c =>
      match applyOp cw ch c op with
      | .ok c' => ({ s with copy := some c' }, some (.ok ()), none)
      | .error e => (s, some (.error e), none)
  | .image emit => (s, none, if emit then some s.writerFc else none)
  | .openStream emit => ({ s with copy := some s.writerFc }, none, if emit then some s.writerFc else none)
  | .nextFrame =>
    match s.copy with
    | none => (s, none, none)
    | some c => ({ s with writerFc := setFctl s.writerFc c }, none, some (setFctl s.writerFc c))
  | .closeStream => ({ s with copy := none }, none, none)

def fcRun (cw ch : Nat) : FcState → List FcEvent → List (Except EncErr Unit) → List FrameControl →
    FcState × List (Except EncErr Unit) × List FrameControl
  | s, [], rs, es => (s, rs.reverse, es.reverse)
  | s, ev :: evs, rs, es =>
    let (s', r, e) := fcStep cw ch s ev
    fcRun cw ch s' evs (match r with | some r => r :: rs | none => rs) (match e with | some e => e :: es | none => es)

/-! ## The decoder side, chunk by chunk, and the documented accessors -/

/-- **THE SWITCH for the zero-length-chunk repair.**  `false` = today's `StreamingDecoder`: a chunk
whose length field is 0 goes from the type field straight to the CRC (`ReadChunkData` with nothing
remaining, stream.rs:745-748) and is never handed to `parse_chunk`.  `true` = the decoder with the
planned repair (`_ if length == 0 => ParseChunkData` in `parse_u32`): an empty chunk is parsed like any
other.  Every theorem of `Proofs/EncodeMeta.lean` and `Props/C17.lean` is proved without unfolding
this definition, i.e. for both values; set it to `true` when the repair lands (nothing else in the
Lean sources has to change). -/
def parseEmptyChunks : Bool := true

/-- What `StreamingDecoder` does with one complete chunk that is not a data chunk: the body is
collected in `raw_bytes` and handed to `parse_chunk` — unless it is empty and empty chunks are not
parsed (`parseEmptyChunks`).
(The growth of `raw_bytes` beyond 32 KiB is charged to `Limits` by `reserve_current_chunk`; that
accounting belongs to the byte-level machine and to property C06 and is not repeated here.) -/
def feedChunk (cfg : Cfg) (d : Dec) (c : Chunk) : Except Err Dec :=
  if c.2.isEmpty && !parseEmptyChunks then .ok d
  else match parseChunk cfg { d with raw := c.2 } c.1 with
    | .ok (_, d') => .ok d'
    | .error e => .error e

def feedChunks (cfg : Cfg) : Dec → List Chunk → Except Err Dec
  | d, [] => .ok d
  | d, c :: cs =>
    match feedChunk cfg d c with
    | .ok d' => feedChunks cfg d' cs
    | .error e => .error e

/-- `Info::gamma()` (common.rs:808-814): the substitute when an sRGB chunk is present -/
def infoGamma (i : Info) : Option Nat := if i.srgb.isSome then some substituteGamma else i.gama

/-- `Info::chromaticities()` (common.rs:817-823) -/
def infoChroma (i : Info) : Option (List Nat) :=
  if i.srgb.isSome then some substituteChroma.toList else i.chrm

/-- How the `Info` of the real decoder presents a stored text chunk: the `decode` function of the
chunk type applied to the fields the parser split off (stream.rs:1709, 1730, 1772-1779).  (The
`Framing` model keeps the fields as bytes.) -/
inductive TextView
  | t (c : TEXt)
  | z (c : ZTXt)
  | i (c : ITXt)
deriving DecidableEq

def viewText : TextChunk → Option TextView
  | .tEXt k v => match TEXt.decode k v with | .ok c => some (.t c) | .error _ => none
  | .zTXt k c => match ZTXt.decode k 0 c with | .ok c => some (.z c) | .error _ => none
  | .iTXt k comp l tr text =>
    match ITXt.decode k (if comp then 1 else 0) 0 l tr text with
    | .ok c => some (.i c)
    | _ => none

/-- tRNS as `parse_trns` keeps it (stream.rs:1233-1277): for grayscale and RGB below 16 bits the low
byte of each 16-bit sample -/
def trnsStored (color depth : Nat) (v : Bytes) : Bytes :=
  if depth < 16 then
    (if color = 0 then [v.getD 1 0] else if color = 2 then [v.getD 1 0, v.getD 3 0, v.getD 5 0] else v)
  else v

/-- does the decoder take a tRNS chunk with this (non-empty) body?  Grayscale needs 2 bytes, RGB 6,
indexed a palette before it; with an alpha channel the chunk is ignored (all these refusals are
"benign": the chunk is skipped) -/
def trnsTaken (color : Nat) (paletteSeen : Bool) (v : Bytes) : Bool :=
  if color = 0 then decide (2 ≤ v.length)
  else if color = 2 then decide (6 ≤ v.length)
  else if color = 3 then paletteSeen
  else false

/-- what `Info::trns` holds after a tRNS chunk with body `o` was written (nothing for an empty
chunk when empty chunks are not parsed, and for a chunk that is skipped because it does not apply) -/
def trnsRead (color depth : Nat) (paletteSeen : Bool) : Option Bytes → Option Bytes
  | none => none
  | some v =>
    if v.isEmpty && !parseEmptyChunks then none
    else if trnsTaken color paletteSeen v then some (trnsStored color depth v) else none

/-- a blob written as a chunk of length zero is not seen by the decoder unless empty chunks are
parsed -/
def nonEmpty : Option Bytes → Option Bytes
  | some [] => if parseEmptyChunks then some [] else none
  | o => o

/-- the codec used by a `Cfg` is the one the encoder model compresses with -/
structure CfgAgrees (cfg : Cfg) (z : ZCodec) : Prop where
  inflateBounded : ∀ zs n, cfg.inflateBounded zs n =
    match z.decompressBounded zs n with
    | .ok x => .ok x
    | .error .tooLarge => .error true
    | .error .corrupt => .error false
  utf8Ok : ∀ b, cfg.utf8Ok b = (utf8Decode b).isSome

/-- a `Cfg` around a codec (CRC and the streaming inflater play no role for metadata) -/
def cfgOf (z : ZCodec) : Cfg where
  crc := fun _ => 0
  inflate := fun _ => none
  inflateBounded := fun zs n =>
    match z.decompressBounded zs n with
    | .ok x => .ok x
    | .error .tooLarge => .error true
    | .error .corrupt => .error false
  utf8Ok := fun b => (utf8Decode b).isSome

/-- feeding what one encoder step wrote (a failed step wrote nothing) -/
def feedStep (cfg : Cfg) (d : Dec) (s : Except EncErr (List Chunk)) : Except Err Dec :=
  match s with
  | .ok cs => feedChunks cfg d cs
  | .error _ => .ok d

def feedSteps (cfg : Cfg) : Dec → List (Except EncErr (List Chunk)) → Except Err Dec
  | d, [] => .ok d
  | d, s :: rest =>
    match feedStep cfg d s with
    | .ok d' => feedSteps cfg d' rest
    | .error e => .error e

def bodyLen : Except TextEncErr Bytes → Nat
  | .ok b => b.length
  | .error _ => 0

def optLen : Option Bytes → Nat
  | some b => b.length
  | none => 0

/-- What the header's chunks charge to the decoder's `Limits` (decoder/mod.rs:70) when they are
parsed: the inflated ICC profile (when it is written, i.e. without sRGB), PLTE, tRNS and the body
of every text chunk. -/
def MetaConfig.budget (z : ZCodec) (m : MetaConfig) : Nat :=
  (if m.srgb.isNone then optLen m.icc else 0) + optLen m.palette + optLen m.trns +
  ((m.tEXt.map fun c => bodyLen c.encodeBody).sum + (m.zTXt.map fun c => bodyLen (c.encodeBody z)).sum +
   (m.iTXt.map fun c => bodyLen (c.encodeBody z)).sum)

/-! ## What the decoder is expected to hold after the header -/

/-- the chunk object the decoder builds from what `ITXtChunk::encode` wrote: the compressed state
when the flag is set; the same chunk for a plain text; the inflated text for a compressed payload
written with the flag cleared (`encode` accepts that only when the payload inflates to UTF-8; the
other arms are never reached for an accepted chunk) -/
def _root_.Png.ITXt.readBack (z : ZCodec) (c : ITXt) : ITXt :=
  if c.compressed then (c.compress z).1
  else match c.text with
    | .uncompressed _ => c
    | .compressed v =>
      match z.decompress v with
      | some raw => (match utf8Decode raw with | some s => { c with text := .uncompressed s } | none => c)
      | none => c

/-- `Info::gama_chunk` after decoding: with sRGB the chunk exists only for the substitute value -/
def gamaWritten (m : MetaConfig) : Option Nat :=
  match m.srgb with
  | some _ => if m.gamma = some substituteGamma then some substituteGamma else none
  | none => m.gamma

/-- `Info::chrm_chunk` after decoding -/
def chrmWritten (m : MetaConfig) : Option (List Nat) :=
  match m.srgb with
  | some _ => if m.chroma = some substituteChroma then some substituteChroma.toList else none
  | none => m.chroma.map Chromaticities.toList

/-- `Info::icc_profile` after decoding: not written when sRGB is set (encoder.rs:611-633) -/
def iccWritten (m : MetaConfig) : Option Bytes :=
  match m.srgb with
  | some _ => none
  | none => m.icc

/-- the decoder's `Info` after the header written for `m`, text chunks aside -/
def expectedInfo (m : MetaConfig) : Info :=
  { width := m.width, height := m.height, depth := m.depth, color := m.color, interlaced := false,
    pixelDims := m.pixelDims.map (fun p => (p.xppu, p.yppu, if p.meter then 1 else 0)),
    srgb := m.srgb, gama := gamaWritten m, chrm := chrmWritten m, icc := iccWritten m,
    exif := nonEmpty m.exif, actl := m.actl, palette := nonEmpty m.palette,
    trns := trnsRead m.color m.depth (nonEmpty m.palette).isSome m.trns }

/-- the text chunks as the decoder presents them, in file order -/
def expectedViews (z : ZCodec) (m : MetaConfig) : List (Option TextView) :=
  m.tEXt.map (fun c => some (.t c)) ++ m.zTXt.map (fun c => some (.z (c.compress z).1)) ++
  m.iTXt.map (fun c => some (.i (c.readBack z)))

end Png.EncodeMeta
