import PngVerif.Generated.Params
import PngVerif.Model.Filter
/-!
# Adam7 interlacing (`src/adam7.rs`, `src/decoder/interlace_info.rs`)

Specification side (reads like PNG specification section 8.2): the 8×8 `pattern`, `passOf`, the
reduced-image dimensions `specPassW`/`specPassH` obtained by *counting* the columns / rows of the
pattern that belong to a pass, the row enumeration `specRows` (passes 1..7 in order, lines in order,
empty passes skipped) and the de-interlacing source `specSrc` of a destination pixel.

Implementation side (mirrors the mechanism of the Rust code):
* `dim`, `passW`, `passH`, `Iter`, `Iter.initPass`, `Iter.next`, `iterRowsFuel`, `iterRows` —
  `Adam7Iterator::{new, init_pass, next}` (adam7.rs:54-117; used through `InterlaceInfoIter`,
  interlace_info.rs:60-80, which only wraps the items in `InterlaceInfo::Adam7`);
* `subbytePixel(s)` — `subbyte_pixels` (adam7.rs:119-136);
* `expandBits` — `expand_adam7_bits` (adam7.rs:141-173);
* `expandPass` — `expand_pass` = the public `png::expand_interlaced_row` (adam7.rs:209-234) with the
  **repaired** sub-byte store (mask, then or); `expandPassOr` is the store of the pinned tree
  (`img[pos / 8] |= px << rem`, adam7.rs:223, defect D7).

The two constant tables of the Rust code are NOT written here: they come from
`Png.Params.adam7Pass` (`init_pass`: `(xoff, yoff, xstep, ystep)` per pass) and `Png.Params.adam7Bits`
(`expand_adam7_bits`: `(line_mul, line_off, samp_mul, samp_off)` per pass), re-extracted from the Rust
source on every run.  The facts needed about them are proved in `Proofs/Adam7.lean` by `decide`, so
a changed constant in the Rust source breaks the proofs instead of silently changing nothing.

Panics of the Rust code (slice index out of range, `unreachable!`, `panic!("Invalid Adam7Info.pass")`,
`step_by(0)`) are the outcome `none`.

Core Lean only: this file is linked into the `pngmodel` driver.
-/

namespace Png.Adam7

/-! ## Specification -/

/-- The pass pattern of the PNG specification (section 8.2), replicated over the whole image. -/
def pattern : List (List Nat) :=
  [[1, 6, 4, 6, 2, 6, 4, 6],
   [7, 7, 7, 7, 7, 7, 7, 7],
   [5, 6, 5, 6, 5, 6, 5, 6],
   [7, 7, 7, 7, 7, 7, 7, 7],
   [3, 6, 4, 6, 3, 6, 4, 6],
   [7, 7, 7, 7, 7, 7, 7, 7],
   [5, 6, 5, 6, 5, 6, 5, 6],
   [7, 7, 7, 7, 7, 7, 7, 7]]

/-- the pass that transmits pixel `(x, y)` (column `x`, row `y`) -/
def passOf (x y : Nat) : Nat := (pattern.getD (y % 8) []).getD (x % 8) 0

/-- column `x` contains pixels of pass `p` -/
def colHas (p x : Nat) : Bool := (List.range 8).any fun y => passOf x y == p
/-- row `y` contains pixels of pass `p` -/
def rowHas (p y : Nat) : Bool := (List.range 8).any fun x => passOf x y == p

/-- width of the reduced image of pass `p`: the number of columns `< w` that contain pass-`p` pixels -/
def specPassW (w p : Nat) : Nat := (List.range w).countP (colHas p)
/-- height of the reduced image of pass `p`: the number of rows `< h` that contain pass-`p` pixels -/
def specPassH (h p : Nat) : Nat := (List.range h).countP (rowHas p)

/-- the rows `(pass, line, width)` of one pass; a pass without pixels has no rows -/
def specPassRows (w h p : Nat) : List (Nat × Nat × Nat) :=
  if specPassW w p = 0 then [] else (List.range (specPassH h p)).map fun l => (p, l, specPassW w p)

/-- all interlaced rows of a `w × h` image in transmission order -/
def specRows (w h : Nat) : List (Nat × Nat × Nat) :=
  (List.range' 1 7).flatMap (specPassRows w h)

/-- De-interlacing, seen from the destination: pixel `(x, y)` is transmitted in pass `passOf x y`;
    within that pass's reduced image it sits in the line numbered by the pass's rows above `y` and
    at the index numbered by the pass's columns left of `x`.  Result: `(pass, line, index)`. -/
def specSrc (x y : Nat) : Nat × Nat × Nat :=
  (passOf x y, specPassH y (passOf x y), specPassW x (passOf x y))

/-! ## Implementation: the pass iterator -/

/-- `Adam7Info` (adam7.rs:10-14) -/
structure Adam7Info where
  pass : Nat
  line : Nat
  width : Nat
deriving DecidableEq, Repr, Inhabited

/-- row `p - 1` of the table extracted from `init_pass` (adam7.rs:81-90): `(xoff, yoff, xstep, ystep)`.
    Only meaningful for `1 ≤ p ≤ 7`; every caller that can be reached with another `p` in the Rust
    code panics there and checks the range explicitly here. -/
def passParams (p : Nat) : Nat × Nat × Nat × Nat := Params.adam7Pass.getD (p - 1) (0, 0, 1, 1)

/-- `((n - off) / step).ceil() as u32` (adam7.rs:79-92).  The Rust code computes this in `f64`:
    `n < 2^32` and `off ≤ 4` are exact in `f64`, the difference is exact, division by a power of two
    `≤ 8` is exact (all operands `< 2^53`), `ceil` is exact and the `as u32` cast saturates negative
    values (`n < off`) to 0.  So the value is `⌈(n − off) / step⌉`, and `0` when `n ≤ off`. -/
def dim (n off step : Nat) : Nat := if n ≤ off then 0 else (n - off + step - 1) / step

/-- `line_width` computed by `init_pass` for pass `p` -/
def passW (w p : Nat) : Nat := dim w (passParams p).1 (passParams p).2.2.1
/-- `lines` computed by `init_pass` for pass `p` -/
def passH (h p : Nat) : Nat := dim h (passParams p).2.1 (passParams p).2.2.2

/-- `Adam7Iterator` (adam7.rs:54-61) -/
structure Iter where
  line : Nat
  lines : Nat
  lineWidth : Nat
  pass : Nat
  width : Nat
  height : Nat
deriving Repr

/-- `init_pass` (adam7.rs:78-94) -/
def Iter.initPass (it : Iter) : Iter :=
  { it with lineWidth := passW it.width it.pass, lines := passH it.height it.pass, line := 0 }

/-- `Adam7Iterator::new` (adam7.rs:64-75) -/
def Iter.new (w h : Nat) : Iter :=
  Iter.initPass { line := 0, lines := 0, lineWidth := 0, pass := 1, width := w, height := h }

/-- `next` (adam7.rs:100-116).  The Rust function calls itself after advancing to the next pass;
    `fuel` bounds that chain (at most 6 advances, `nextFuel = 7` is enough — `Proofs/Adam7.lean`,
    `next_spec`). -/
def Iter.next : Nat → Iter → Option (Adam7Info × Iter)
  | 0, _ => none
  | fuel + 1, it =>
    if it.line < it.lines ∧ it.lineWidth > 0 then
      some ({ pass := it.pass, line := it.line, width := it.lineWidth }, { it with line := it.line + 1 })
    else if it.pass < 7 then
      Iter.next fuel (Iter.initPass { it with pass := it.pass + 1 })
    else none

def nextFuel : Nat := 7

/-- the first `n` items of the iterator (`Adam7Iterator::new(w, h).take(n)`) as `(pass, line, width)` -/
def Iter.collect : Nat → Iter → List (Nat × Nat × Nat)
  | 0, _ => []
  | n + 1, it =>
    match it.next nextFuel with
    | none => []
    | some (info, it') => (info.pass, info.line, info.width) :: Iter.collect n it'

def iterRowsFuel (n w h : Nat) : List (Nat × Nat × Nat) := (Iter.new w h).collect n

/-- all items of `Adam7Iterator::new(w, h)`; `7 * h` bounds their number (`Proofs`: `specRows_length_le`) -/
def iterRows (w h : Nat) : List (Nat × Nat × Nat) := iterRowsFuel (7 * h) w h

/-! ## Implementation: scattering one interlaced row -/

/-- sequential `for` loop whose body may panic -/
def foldOpt {S A : Type} (step : S → A → Option S) : S → List A → Option S
  | s, [] => some s
  | s, a :: as =>
    match step s a with
    | none => none
    | some s' => foldOpt step s' as

/-- row `p - 1` of the table extracted from `expand_adam7_bits` (adam7.rs:150-163):
    `(line_mul, line_off, samp_mul, samp_off)` -/
def bitsParams (p : Nat) : Nat × Nat × Nat × Nat := Params.adam7Bits.getD (p - 1) (1, 0, 1, 0)

/-- destination column of sample `i` of a pass-`p` row: `i * samp_mul + samp_off` (adam7.rs:170) -/
def destX (p i : Nat) : Nat := i * (bitsParams p).2.2.1 + (bitsParams p).2.2.2
/-- destination row of line `l` of pass `p`: `line_mul * line_no + line_off` (adam7.rs:166) -/
def destY (p l : Nat) : Nat := (bitsParams p).1 * l + (bitsParams p).2.1

/-- `expand_adam7_bits` (adam7.rs:141-173): bit offsets of the destination pixels, for a valid pass.
    (`usize` arithmetic: `prog_line * row_stride * 8` would overflow 64 bits only for offsets no
    slice can have; the model computes in `Nat` and the write then fails the bounds check.) -/
def expandBits (stride : Nat) (info : Adam7Info) (bitsPP : Nat) : List Nat :=
  let progLine := destY info.pass info.line
  let lineStart := progLine * stride * 8
  (List.range info.width).map fun i => destX info.pass i * bitsPP + lineStart

/-- the `match bits_pp` of `subbyte_pixels` (adam7.rs:128-134); `none` is `unreachable!()` -/
def subMask : Nat → Option UInt8
  | 1 => some 1
  | 2 => some 3
  | 4 => some 15
  | _ => none

/-- pixel number `k` of a packed scanline (adam7.rs:122-134).  `bit_idx / 8 < scanline.len()` always
    holds for the indices produced by `subbytePixels`, so the default of `getD` is never used. -/
def subbytePixel (scanline : Bytes) (bitsPP : Nat) (m : UInt8) (k : Nat) : UInt8 :=
  let bitIdx := k * bitsPP
  let rem := 8 - bitIdx % 8 - bitsPP
  (scanline.getD (bitIdx / 8) 0 >>> rem.toUInt8) &&& m

/-- `subbyte_pixels`: `(0..len * 8).step_by(bits_pp).map(..)` -/
def subbytePixels (scanline : Bytes) (bitsPP : Nat) (m : UInt8) : List UInt8 :=
  (List.range ((scanline.length * 8 + bitsPP - 1) / bitsPP)).map (subbytePixel scanline bitsPP m)

/-- repaired sub-byte store: clear the pixel's field, then or the pixel in -/
def setPx (m old px rem : UInt8) : UInt8 := (old &&& ~~~(m <<< rem)) ||| (px <<< rem)
/-- sub-byte store of the pinned tree (adam7.rs:223): `img[pos / 8] |= px << rem` -/
def orPx (_m old px rem : UInt8) : UInt8 := old ||| (px <<< rem)

/-- body of the sub-byte loop (adam7.rs:221-224) with the store `store`.  `8 - pos % 8 - bits_pp`
    cannot underflow: `pos` is a multiple of `bits_pp ∈ {1,2,4}` (`Proofs`: `rem_no_underflow`). -/
def writeSub (store : UInt8 → UInt8 → UInt8 → UInt8 → UInt8) (m : UInt8) (bitsPP : Nat)
    (img : Bytes) (a : Nat × UInt8) : Option Bytes :=
  let rem := 8 - a.1 % 8 - bitsPP
  if a.1 / 8 < img.length then
    some (img.set (a.1 / 8) (store m (img.getD (a.1 / 8) 0) a.2 rem.toUInt8))
  else none

/-- inner loop of the whole-byte case (adam7.rs:229-231): `img[at + offset] = val` -/
def writeBytesAt : Bytes → Nat → Bytes → Option Bytes
  | img, _, [] => some img
  | img, i, v :: vs => if i < img.length then writeBytesAt (img.set i v) (i + 1) vs else none

/-- body of the whole-byte loop (adam7.rs:228-232) -/
def writePx (img : Bytes) (a : Nat × Bytes) : Option Bytes := writeBytesAt img (a.1 / 8) a.2

/-- `slice::chunks(n)` for `n > 0`: `⌈len / n⌉` chunks, the last one possibly shorter -/
def chunks (n : Nat) (l : Bytes) : List Bytes :=
  (List.range ((l.length + n - 1) / n)).map fun i => (l.drop (i * n)).take n

/-- `expand_pass` (adam7.rs:209-234) with the sub-byte store as a parameter.
    * an invalid pass panics in `expand_adam7_bits` (adam7.rs:158-162);
    * `bits_pp = 0` panics in `step_by(0)`; `bits_pp ∈ {3,5,6,7}` reaches `unreachable!()` as soon as
      one pixel is pulled from `subbyte_pixels`, i.e. when `width > 0` and the row is not empty;
    * every store is bounds-checked. -/
def expandPassWith (store : UInt8 → UInt8 → UInt8 → UInt8 → UInt8)
    (img : Bytes) (stride : Nat) (row : Bytes) (info : Adam7Info) (bitsPP : Nat) : Option Bytes :=
  if ¬ (1 ≤ info.pass ∧ info.pass ≤ 7) then none else
  let positions := expandBits stride info bitsPP
  if bitsPP < 8 then
    match subMask bitsPP with
    | some m => foldOpt (writeSub store m bitsPP) img (positions.zip (subbytePixels row bitsPP m))
    | none => if bitsPP = 0 then none else if info.width > 0 ∧ row ≠ [] then none else some img
  else
    foldOpt writePx img (positions.zip (chunks (bitsPP / 8) row))

/-- `png::expand_interlaced_row` with the repaired (mask-then-or) sub-byte store -/
def expandPass (img : Bytes) (stride : Nat) (row : Bytes) (info : Adam7Info) (bitsPP : Nat) : Option Bytes :=
  expandPassWith setPx img stride row info bitsPP

/-- `png::expand_interlaced_row` of the pinned tree (`|=`, defect D7) -/
def expandPassOr (img : Bytes) (stride : Nat) (row : Bytes) (info : Adam7Info) (bitsPP : Nat) : Option Bytes :=
  expandPassWith orPx img stride row info bitsPP

/-- de-interlacing a whole image: `expand_interlaced_row` for every row in order -/
def deinterlaceWith (store : UInt8 → UInt8 → UInt8 → UInt8 → UInt8)
    (img : Bytes) (stride bitsPP : Nat) (rows : List (Adam7Info × Bytes)) : Option Bytes :=
  foldOpt (fun (im : Bytes) (r : Adam7Info × Bytes) => expandPassWith store im stride r.2 r.1 bitsPP) img rows

def deinterlace (img : Bytes) (stride bitsPP : Nat) (rows : List (Adam7Info × Bytes)) : Option Bytes :=
  deinterlaceWith setPx img stride bitsPP rows

/-- the interlaced rows of a `w × h` image whose row `(pass, line)` has contents `data pass line` -/
def imageRows (w h : Nat) (data : Nat → Nat → Bytes) : List (Adam7Info × Bytes) :=
  (specRows w h).map fun r => ({ pass := r.1, line := r.2.1, width := r.2.2 }, data r.1 r.2.1)

/-! ## Reading an image bit by bit (used to state what a store changed) -/

/-- bit number `k` of a byte string, most significant bit of byte 0 first (PNG bit order) -/
def bitAt (img : Bytes) (k : Nat) : Bool := (img.getD (k / 8) 0).toNat.testBit (7 - k % 8)

/-- first bit of the field of destination pixel `(x, y)` in an image with `stride` bytes per line -/
def pixelBit (stride bitsPP x y : Nat) : Nat := y * stride * 8 + x * bitsPP

/-- the pixel sizes PNG has: 1, 2, 4 bits and whole bytes -/
def validBits (b : Nat) : Prop := b = 1 ∨ b = 2 ∨ b = 4 ∨ (8 ≤ b ∧ b % 8 = 0)

instance (b : Nat) : Decidable (validBits b) := by unfold validBits; infer_instance

end Png.Adam7
