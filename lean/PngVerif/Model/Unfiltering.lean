import PngVerif.Model.Filter
/-!
# `UnfilteringBuffer` (`src/decoder/unfiltering_buffer.rs`, whole file)

Implementation-shaped: the state `(data_stream, prev_start, current_start)` and the operations
`new`, `reset_prev_row`, `prev_row`, `curr_row_len`, `as_mut_vec` (compaction; the caller then
appends) and `unfilter_curr_row`, which calls the real `unfilterImpl` of `Model/Filter.lean` with the
filter type read from the row's first byte.

Specification side: the abstract state `Abs` (previous reconstructed row, not-yet-consumed stream
bytes) and `specRows` (split the inflated stream into rows of `rowlen` bytes — filter byte plus
data — and reconstruct each with `reconRow` against the previous reconstructed row).

Panics are explicit outcomes.  The model follows the `dev` profile used by the harness
(`debug_assert!`s are checked).  Core Lean only (linked into `pngmodel`).
-/
namespace Png

/-- implementation-shaped `UnfilteringBuffer` (unfiltering_buffer.rs:6-18) -/
structure UB where
  data : Bytes
  prevStart : Nat
  curStart : Nat
deriving Repr, DecidableEq

/-- `debug_assert_invariants` (unfiltering_buffer.rs:24-28) -/
def UB.Inv (u : UB) : Prop := u.prevStart ≤ u.curStart ∧ u.curStart ≤ u.data.length

instance (u : UB) : Decidable u.Inv := by unfold UB.Inv; exact inferInstance

/-- `new` (:30) -/
def UB.new : UB := ⟨[], 0, 0⟩

/-- `reset_prev_row` (:42) -/
def UB.resetPrev (u : UB) : UB := { u with prevStart := u.curStart }

/-- the slice `data_stream[prev_start..current_start]` (:52; also `:93-95` in `unfilter_curr_row`) -/
def UB.prevRow (u : UB) : Bytes := (u.data.drop u.prevStart).take (u.curStart - u.prevStart)

/-- `prev_row` (:48) including its `debug_assert!(prev_start < current_start)`; `none` = panic -/
def UB.prevRowChecked (u : UB) : Option Bytes :=
  if u.prevStart < u.curStart ∧ u.curStart ≤ u.data.length then some u.prevRow else none

/-- `curr_row_len` (:56).  (`usize` subtraction: underflow would panic; excluded by `Inv`.) -/
def UB.currLen (u : UB) : Nat := u.data.length - u.curStart

/-- the compaction done by `as_mut_vec` (:68-81): discard everything before `prev_start` -/
def UB.compact (u : UB) : UB :=
  if u.prevStart > 0 then ⟨u.data.drop u.prevStart, 0, u.curStart - u.prevStart⟩ else u

/-- the caller of `as_mut_vec` appends `bs` to the returned vector (no compaction) -/
def UB.extend (u : UB) (bs : Bytes) : UB := { u with data := u.data ++ bs }

/-- `as_mut_vec().extend_from_slice(bs)`: compaction followed by extending — what
    `decode_image_data(self.unfiltering_buffer.as_mut_vec())` does (decoder/mod.rs:654) -/
def UB.append (u : UB) (bs : Bytes) : UB := u.compact.extend bs

/-- result of `unfilter_curr_row` on a state of type `σ` -/
inductive UnfOutcome (σ : Type) where
  /-- `Ok(())`, with the new state -/
  | ok (s : σ)
  /-- `Err(Format(UnknownFilterMethod(b)))`; returned before anything is mutated, so the buffer
      is exactly as before the call -/
  | unknownFilter (b : UInt8)
  /-- a slice index out of range or a failed `debug_assert!` -/
  | panic
deriving Repr, DecidableEq

def UnfOutcome.map {σ τ : Type} (f : σ → τ) : UnfOutcome σ → UnfOutcome τ
  | .ok s => .ok (f s)
  | .unknownFilter b => .unknownFilter b
  | .panic => .panic

/-- `unfilter_curr_row` (:86-111), in source order:
    `debug_assert!(rowlen >= 2)` (:91); `split_at_mut(current_start)` (:93) and `prev[prev_start..]`
    (:95) panic on out-of-range indices; `debug_assert!(prev.is_empty() || prev.len() == rowlen-1)`
    (:96); `row[0]` (:99) panics on an empty current row; an unknown filter byte returns the error
    *before* `row[1..rowlen]` (:102) is sliced, which panics when fewer than `rowlen` bytes are
    present; then `unfilter` runs in place and the two indices advance (:106-107). -/
def UB.unfilterCurr (u : UB) (rowlen bpp : Nat) : UnfOutcome UB :=
  if rowlen < 2 then .panic
  else if u.data.length < u.curStart then .panic
  else if u.curStart < u.prevStart then .panic
  else if ¬ (u.prevRow.isEmpty ∨ u.prevRow.length = rowlen - 1) then .panic
  else if u.currLen = 0 then .panic
  else
    let fb := u.data.getD u.curStart 0
    match FilterType.ofNat? fb.toNat with
    | none => .unknownFilter fb
    | some ft =>
      if u.currLen < rowlen then .panic
      else
        let row := (u.data.drop (u.curStart + 1)).take (rowlen - 1)
        let out := unfilterImpl ft bpp u.prevRow row
        .ok ⟨u.data.take (u.curStart + 1) ++ out ++ u.data.drop (u.curStart + rowlen),
             u.curStart + 1, u.curStart + rowlen⟩

/-! ## Abstract view -/

/-- abstract state: the previous reconstructed row (`[]` = none) and the not-yet-consumed bytes of
    the inflated stream -/
structure UBAbs where
  prev : Bytes
  pending : Bytes
deriving Repr, DecidableEq

def UB.abs (u : UB) : UBAbs := ⟨u.prevRow, u.data.drop u.curStart⟩

def UBAbs.append (a : UBAbs) (bs : Bytes) : UBAbs := { a with pending := a.pending ++ bs }
def UBAbs.resetPrev (a : UBAbs) : UBAbs := { a with prev := [] }
def UBAbs.currLen (a : UBAbs) : Nat := a.pending.length

/-- `unfilter_curr_row` on the abstract state (same order of checks) -/
def UBAbs.unfilterCurr (a : UBAbs) (rowlen bpp : Nat) : UnfOutcome UBAbs :=
  if rowlen < 2 then .panic
  else if ¬ (a.prev.isEmpty ∨ a.prev.length = rowlen - 1) then .panic
  else if a.pending.length = 0 then .panic
  else
    let fb := a.pending.headD 0
    match FilterType.ofNat? fb.toNat with
    | none => .unknownFilter fb
    | some ft =>
      if a.pending.length < rowlen then .panic
      else .ok ⟨unfilterImpl ft bpp a.prev ((a.pending.drop 1).take (rowlen - 1)), a.pending.drop rowlen⟩

/-! ## Specification: rows of the inflated stream -/

/-- rows reconstructed from `stream`, the row before the first one being `prev` (`[]` = none).
    Stops at the last complete row or at the first unknown filter byte.  `fuel ≥ stream.length`
    suffices (each row consumes `rowlen ≥ 1` bytes). -/
def specRowsAux (bpp rowlen : Nat) : Nat → Bytes → Bytes → List Bytes
  | 0, _, _ => []
  | fuel + 1, prev, stream =>
    if rowlen = 0 ∨ stream.length < rowlen then [] else
    match FilterType.ofNat? (stream.headD 0).toNat with
    | none => []
    | some ft =>
      let r := reconRow ft bpp prev ((stream.drop 1).take (rowlen - 1))
      r :: specRowsAux bpp rowlen fuel r (stream.drop rowlen)

def specRowsFrom (bpp rowlen : Nat) (prev stream : Bytes) : List Bytes :=
  specRowsAux bpp rowlen stream.length prev stream

/-- the rows of one image / one pass: no previous row before the first -/
def specRows (bpp rowlen : Nat) (stream : Bytes) : List Bytes := specRowsFrom bpp rowlen [] stream

/-! ## Runs: any interleaving of the operations -/

inductive UBOp where
  /-- `as_mut_vec()` then append `bs` (one delivery from the inflater, any size incl. 0) -/
  | append (bs : Bytes)
  /-- `as_mut_vec()` with nothing appended -/
  | compact
  /-- `next_raw_interlaced_row`'s tail (decoder/mod.rs:645-661): `unfilter_curr_row` is only called
      once `curr_row_len() >= rowlen`; otherwise the decoder first fetches more data -/
  | unfilter
deriving Repr

/-- bytes fed by an operation -/
def UBOp.fed : UBOp → Bytes
  | .append bs => bs
  | _ => []

/-- one operation on (buffer, rows handed out so far); `none` = panic.  After `Ok` the decoder reads
    the new row through `prev_row()` (decoder/mod.rs:576).  An unknown filter byte is returned to
    the caller as an error and leaves the buffer as it was. -/
def UB.runOp (rowlen bpp : Nat) (st : UB × List Bytes) : UBOp → Option (UB × List Bytes)
  | .append bs => some (st.1.append bs, st.2)
  | .compact => some (st.1.compact, st.2)
  | .unfilter =>
    if st.1.currLen < rowlen then some st
    else match st.1.unfilterCurr rowlen bpp with
      | .ok u' => some (u', st.2 ++ [u'.prevRow])
      | .unknownFilter _ => some st
      | .panic => none

def UB.run (rowlen bpp : Nat) : List UBOp → UB × List Bytes → Option (UB × List Bytes)
  | [], st => some st
  | op :: ops, st => match UB.runOp rowlen bpp st op with
    | some st' => UB.run rowlen bpp ops st'
    | none => none

/-- everything fed by a sequence of operations, in order -/
def UBOp.fedAll : List UBOp → Bytes
  | [] => []
  | op :: ops => op.fed ++ UBOp.fedAll ops

end Png
