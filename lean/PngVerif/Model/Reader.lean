import PngVerif.Model.Framing
import PngVerif.Model.Unfiltering
import PngVerif.Model.Adam7
/-!
# `Decoder` / `Reader` / `ReadDecoder` (`src/decoder/mod.rs:189-697`, `src/decoder/read_decoder.rs`)

Implementation-shaped model of the public decoding calls on top of the framing model
(`Model/Framing.lean`), the unfiltering buffer (`Model/Unfiltering.lean`) and the Adam7 iterator and
scatter (`Model/Adam7.lean`).  Every `assert!`, `unwrap`, `unreachable!`, unchecked subtraction and
slice index of the Rust code that a caller could conceivably reach is an explicit `panic` result.

The input is a byte string of which a prefix of `visible` bytes exists so far; `grow` makes more of
it visible (a slow stream).  `decode_next` reports `UnexpectedEof` — without touching any state —
when nothing is visible beyond `pos` (`read_decoder.rs:61-66`).

The row transformation (`transform.rs`) is a parameter (`TCfg`), instantiated with
`Model/Transform.lean` by the driver.
-/
namespace Png.Reader
open Png Png.Framing

/-- `InterlaceInfo` (interlace_info.rs:11-33) -/
inductive IInfo
  | null (line : Nat)
  | adam7 (pass line width : Nat)
deriving Repr, DecidableEq

def IInfo.line : IInfo → Nat
  | .null l => l
  | .adam7 _ l _ => l

/-- `InterlaceInfoIter` (interlace_info.rs:55-90) -/
inductive IIter
  | none (next stop : Nat)
  | adam7 (it : Adam7.Iter)

def IIter.new (w h : Nat) (interlaced : Bool) : IIter :=
  if interlaced then .adam7 (Adam7.Iter.new w h) else .none 0 h

def IIter.next : IIter → Option (IInfo × IIter)
  | .none n stop => if n < stop then some (.null n, .none (n + 1) stop) else Option.none
  | .adam7 it =>
    match Adam7.Iter.next Adam7.nextFuel it with
    | some (i, it') => some (.adam7 i.pass i.line i.width, .adam7 it')
    | Option.none => Option.none

/-- `SubframeInfo` (mod.rs:314-321, 659-697) -/
structure Sub where
  width : Nat
  height : Nat
  rowlen : Nat
  cur : Option IInfo
  iter : IIter
  caf : Bool            -- consumed_and_flushed

def Sub.notYetInit : Sub := ⟨0, 0, 0, none, .none 0 0, false⟩

/-- `current_interlace_info = interlace_info_iter.next()` (mod.rs:595, 694) -/
def Sub.advance (s : Sub) : Sub :=
  match s.iter.next with
  | some (c, it) => { s with cur := some c, iter := it }
  | none => { s with cur := none }

/-- the size of the (sub)frame: the `fcTL` overrides the IHDR size (mod.rs:687-691) -/
def Sub.dims (i : Info) : Nat × Nat :=
  match i.fctl with
  | some fc => (fc.width, fc.height)
  | none => (i.width, i.height)

/-- `SubframeInfo::new` (mod.rs:684-703) -/
def Sub.new (i : Info) : Sub :=
  Sub.advance { width := (Sub.dims i).1, height := (Sub.dims i).2,
                rowlen := rawRowLengthFromWidth i.color i.depth (Sub.dims i).1, cur := none,
                iter := IIter.new (Sub.dims i).1 (Sub.dims i).2 i.interlaced, caf := false }

structure Flags where
  expand : Bool := false
  strip16 : Bool := false
  alpha : Bool := false
deriving Repr, DecidableEq

def Flags.identity (f : Flags) : Bool := !f.expand && !f.strip16 && !f.alpha

/-- the row transformation, outside this file (`transform.rs`, modelled in `Model/Transform.lean`) -/
structure TCfg where
  /-- `output_color_type` (mod.rs:596-632): (colour type, bit depth) -/
  outColorDepth : Info → Flags → Nat × Nat
  /-- `create_transform_fn(info, transform)`: `Except.error` = the `Format` errors it can return; a message
      starting with `panic` stands for a panic inside it -/
  create : Info → Flags → Except String Unit
  /-- applying the cached function (created from `snapshot`) to `row` with an output buffer of
      `outLen` bytes and the current `info`; `none` = panic (length mismatch, index out of range) -/
  apply : (snapshot : Info) → Flags → (current : Info) → Bytes → Nat → Option Bytes

inductive ErrClass
  | eof | format | parameter | limits
deriving Repr, DecidableEq

structure OutputInfo where
  width : Nat
  height : Nat
  color : Nat
  depth : Nat
  lineSize : Nat
deriving Repr, DecidableEq

inductive Res
  | header                                         -- read_info / read_header_info succeeded
  | frame (oi : OutputInfo) (buf : Bytes)          -- next_frame: OutputInfo and the caller's buffer afterwards
  | row (ii : IInfo) (data : Bytes)
  | noRow
  | frameInfo (fc : FrameControl)
  | done
  | err (c : ErrClass) (why : String)
  | panic (site : String)
deriving Repr

def Res.isPanic : Res → Bool
  | .panic _ => true
  | _ => false

structure R where
  dec : Dec
  input : Bytes
  pos : Nat := 0
  visible : Nat
  flags : Flags := {}
  /-- false until `read_info` has built the `Reader` -/
  isReader : Bool := false
  bpp : Nat := 1
  sub : Sub := Sub.notYetInit
  remaining : Nat := 0            -- remaining_frames
  ub : UB := UB.new
  /-- `transform_fn`: the `Info` it was created from -/
  cached : Option Info := none
  scratchLen : Nat := 0           -- scratch_buffer.len()
  finished : Bool := false
  /-- `read_info(self)` failed: the `Decoder` is gone and no `Reader` exists -/
  dead : Bool := false
  /-- the caller's frame buffer when the previous call was a `next_frame` that ran out of input: a caller that
      retries passes the same buffer again -/
  pendingBuf : Option Bytes := none

def ofFraming (e : Framing.Err) : Res :=
  match e with
  | .format w => .err .format w
  | .limits => .err .limits "LimitsExceeded"
  | .parameter => .err .parameter "PolledAfterFatalError"
  | .panic s => .panic s

/-- `Limits::reserve_bytes` on the decoder's budget -/
def reserveBytes (r : R) (n : Nat) : Except Res R :=
  if r.dec.limit ≥ n then .ok { r with dec := { r.dec with limit := r.dec.limit - n } }
  else .error (.err .limits "LimitsExceeded")

/-- `ReadDecoder::decode_next` (read_decoder.rs:61-72): one `update` on everything visible; returns the
    event and the image data produced by this call.  The poisoned decoder is kept on error. -/
def decodeNext' (cfg : Cfg) (r : R) : R × Except Res (Ev × Bytes) :=
  let avail := (r.input.take r.visible).drop r.pos
  if avail.isEmpty then (r, .error (.err .eof "UnexpectedEof")) else
  let d0 := { r.dec with out := [] }
  match update cfg d0 avail with
  | (d', .error e) => ({ r with dec := { d' with out := [] } }, .error (ofFraming e))
  | (d', .ok (n, ev)) => ({ r with dec := { d' with out := [] }, pos := r.pos + n }, .ok (ev, d'.out))

/-- `decode_next_without_image_data` (read_decoder.rs:74-82): `assert!(buf.is_empty())` -/
def decodeNextNoData (cfg : Cfg) (r : R) : R × Except Res Ev :=
  match decodeNext' cfg r with
  | (r', .error e) => (r', .error e)
  | (r', .ok (ev, data)) =>
    if data.isEmpty then (r', .ok ev) else (r', .error (.panic "assert!(buf.is_empty()) (read_decoder.rs:80)"))

/-- `read_header_info` (read_decoder.rs:92-99).  Fuel: one call per visible byte at most. -/
def readHeaderInfo (cfg : Cfg) : Nat → R → R × Except Res Unit
  | 0, r => (r, .error (.panic "fuel"))
  | fuel+1, r =>
    if r.dec.info.isSome then (r, .ok ()) else
    match decodeNextNoData cfg r with
    | (r', .error e) => (r', .error e)
    | (r', .ok .imageEnd) => (r', .error (.panic "unreachable!() (read_decoder.rs:95)"))
    | (r', .ok _) => readHeaderInfo cfg fuel r'

/-- `ReadDecoder::read_until_image_data` (read_decoder.rs:104-120) -/
def rdReadUntilImageData (cfg : Cfg) : Nat → R → R × Except Res Unit
  | 0, r => (r, .error (.panic "fuel"))
  | fuel+1, r =>
    match decodeNextNoData cfg r with
    | (r', .error e) => (r', .error e)
    | (r', .ok (.chunkBegin _ t)) =>
      if t = IDAT ∨ t = fdAT then (r', .ok ()) else rdReadUntilImageData cfg fuel r'
    | (r', .ok .imageEnd) => (r', .error (.err .format "MissingImageData"))
    | (r', .ok _) => rdReadUntilImageData cfg fuel r'

inductive Completion | more | done

/-- `decode_image_data` (read_decoder.rs:126-143): appends to the unfiltering buffer -/
def decodeImageData (cfg : Cfg) (r : R) (intoUb : Bool) : R × Except Res Completion :=
  -- `as_mut_vec()` compacts first when the data goes to the unfiltering buffer
  let r := if intoUb then { r with ub := r.ub.compact } else r
  match decodeNext' cfg r with
  | (r', .error e) => (r', .error e)
  | (r', .ok (ev, data)) =>
    let r' := if intoUb then { r' with ub := r'.ub.extend data } else r'
    match ev with
    | .imageData => (r', .ok .more)
    | .imageDataFlushed => (r', .ok .done)
    | .nothing | .chunkComplete _ _ | .chunkBegin _ _ | .partialChunk _ => (r', .ok .more)
    | _ => (r', .error (.panic "unreachable!(unexpected event inside image data) (read_decoder.rs:141)"))

/-- `finish_decoding_image_data` (read_decoder.rs:148-155) -/
def finishDecodingImageData (cfg : Cfg) : Nat → R → R × Except Res Unit
  | 0, r => (r, .error (.panic "fuel"))
  | fuel+1, r =>
    match decodeImageData cfg r false with
    | (r', .error e) => (r', .error e)
    | (r', .ok .done) => (r', .ok ())
    | (r', .ok .more) => finishDecodingImageData cfg fuel r'

/-- `read_until_end_of_input` (read_decoder.rs:160-166) -/
def readUntilEndOfInput (cfg : Cfg) : Nat → R → R × Except Res Unit
  | 0, r => (r, .error (.panic "fuel"))
  | fuel+1, r =>
    match decodeNext' cfg r with
    | (r', .error e) => (r', .error e)
    | (r', .ok (.imageEnd, _)) => (r', .ok ())
    | (r', .ok _) => readUntilEndOfInput cfg fuel r'

def fuelOf (r : R) : Nat := 6 * (r.visible - r.pos) + 16

/-- current `Info` (`self.info()` = `decoder.info().unwrap()`) -/
def infoOf (r : R) : Option Info := r.dec.info

def outLineSize (t : TCfg) (i : Info) (f : Flags) (width : Nat) : Nat :=
  let (c, d) := t.outColorDepth i f
  rawRowLengthFromWidth c d width - 1

/-- `Reader::read_until_image_data` (mod.rs:357-371) -/
def readUntilImageData (cfg : Cfg) (t : TCfg) (r : R) : R × Except Res Unit :=
  match rdReadUntilImageData cfg (fuelOf r) r with
  | (r', .error e) => (r', .error e)
  | (r', .ok ()) =>
    match infoOf r' with
    | none => (r', .error (.panic "info().unwrap()"))
    | some i =>
      -- the row buffers of the new (sub)frame are asked for BEFORE it is installed (repair 0a2b38f): a refusal keeps the
      -- old sub-frame, marked consumed, and ends the decoding of image data (no rows, no further frames)
      match reserveBytes r' (outLineSize t i r'.flags (Sub.new i).width) with
      | .error e => ({ r' with sub := { r'.sub with cur := none, caf := true }, remaining := 0 }, .error e)
      | .ok r3 =>
        match bppFromUsize (bytesPerPixel i.color i.depth) with
        | none => (r3, .error (.panic "unreachable!(bpp) (common.rs:846)"))
        | some bpp => ({ r3 with sub := Sub.new i, bpp := bpp, ub := UB.new }, .ok ())

/-- `color.checked_raw_row_length(depth, width).and_then(|rowlen| (rowlen - 1).checked_mul(height)).is_some()`
    (mod.rs:227-229): the output buffer of a `width` x `height` image of output type `cd` fits `usize` -/
def sizeFits (cd : Nat × Nat) (width height : Nat) : Bool :=
  match checkedRawRowLength cd.1 cd.2 width with
  | some rl => decide ((rl - 1) * height < 2 ^ 64)
  | none => false

/-- `Decoder::read_info` (mod.rs:190-250) -/
def readInfo' (cfg : Cfg) (t : TCfg) (r : R) : R × Res :=
  if r.isReader then (r, .panic "model: read_info called twice") else
  match readHeaderInfo cfg (fuelOf r) r with
  | (r', .error e) => (r', e)
  | (r', .ok ()) =>
    match infoOf r' with
    | none => (r', .panic "info().unwrap()")
    | some i =>
      -- size checks with the output type as known after IHDR only (u32 dimensions: never exceed usize on 64 bit,
      -- `rowlen.checked_mul(height)` can)
      let (c, d) := t.outColorDepth i r'.flags
      match checkedRawRowLength i.color i.depth i.width, checkedRawRowLength c d i.width with
      | some _, some rl =>
        if (rl - 1) * i.height ≥ 2 ^ 64 then (r', .err .limits "LimitsExceeded") else
        let r1 := { r' with isReader := true }
        match readUntilImageData cfg t r1 with
        | (r2, .error e) => (r2, e)
        | (r2, .ok ()) =>
          match infoOf r2 with
          | none => (r2, .panic "info().unwrap()")
          | some i2 =>
            -- a `tRNS` chunk in front of the image data can widen the output pixels: the size of the output buffer is
            -- checked again with the final output type and the IHDR size read above (repair f60364d, mod.rs:224-232)
            if sizeFits (t.outColorDepth i2 r2.flags) i.width i.height then
              let rem := match i2.actl with
                | none => 1
                | some (nf, _) => max 1 (if i2.fctl.isNone then nf + 1 else nf)
              ({ r2 with remaining := rem }, .header)
            else (r2, .err .limits "LimitsExceeded")
      | _, _ => (r', .err .limits "LimitsExceeded")

def readInfo (cfg : Cfg) (t : TCfg) (r : R) : R × Res :=
  match readInfo' cfg t r with
  | (r', .header) => (r', .header)
  | (r', e) => ({ r' with isReader := false, dead := true }, e)

/-- `mark_subframe_as_consumed_and_flushed` (mod.rs:451-456) -/
def markFlushed (r : R) : Except Res R :=
  if r.remaining = 0 then .error (.panic "assert!(self.remaining_frames > 0) (mod.rs:452)")
  else .ok { r with remaining := r.remaining - 1, sub := { r.sub with caf := true } }

/-- `finish_decoding` (mod.rs:460-473) -/
def finishDecoding (cfg : Cfg) (r : R) : R × Except Res Unit :=
  if r.sub.cur.isSome then (r, .error (.panic "assert!(current_interlace_info.is_none()) (mod.rs:463)")) else
  if r.sub.caf then (r, .ok ()) else
  match finishDecodingImageData cfg (fuelOf r) r with
  | (r', .error e) => (r', .error e)
  | (r', .ok ()) =>
    match markFlushed r' with
    | .error e => (r', .error e)
    | .ok r2 => (r2, .ok ())

/-- `next_raw_interlaced_row` (mod.rs:641-662).  Fuel bounds the `while` loop. -/
def nextRawRow (cfg : Cfg) (rowlen : Nat) : Nat → R → R × Except Res Unit
  | 0, r => (r, .error (.panic "fuel"))
  | fuel+1, r =>
    if r.ub.currLen < rowlen then
      if r.sub.caf then (r, .error (.err .format "NoMoreImageData")) else
      match decodeImageData cfg r true with
      | (r', .error e) => (r', .error e)
      | (r', .ok .more) => nextRawRow cfg rowlen fuel r'
      | (r', .ok .done) =>
        match markFlushed r' with
        | .error e => (r', .error e)
        | .ok r2 => nextRawRow cfg rowlen fuel r2
    else
      match r.ub.unfilterCurr rowlen r.bpp with
      | .ok u => ({ r with ub := u }, .ok ())
      | .unknownFilter _ => (r, .error (.err .format "UnknownFilterMethod"))
      | .panic => (r, .error (.panic "unfilter_curr_row (unfiltering_buffer.rs:86-111)"))

/-- the cached `transform_fn`, created from the current `Info` on first use (mod.rs:587-592): the reader
    afterwards and the `Info` the function was created from -/
def getTransform (t : TCfg) (r : R) (i : Info) : Except Res (R × Info) :=
  match r.cached with
  | some snap => .ok (r, snap)
  | none =>
    match t.create i r.flags with
    | .error w => if w.startsWith "panic" then .error (.panic w) else .error (.err .format w)
    | .ok () => .ok ({ r with cached := some i }, i)

/-- `next_interlaced_row_impl` (mod.rs:568-591): returns the transformed row -/
def nextRowImpl (cfg : Cfg) (t : TCfg) (r : R) (rowlen outLen : Nat) : R × Except Res Bytes :=
  match nextRawRow cfg rowlen (fuelOf r) r with
  | (r', .error e) => (r', .error e)
  | (r', .ok ()) =>
    let row := r'.ub.prevRow
    if row.length ≠ rowlen - 1 then (r', .error (.panic "assert_eq!(row.len(), rowlen - 1) (mod.rs:576)")) else
    match infoOf r' with
    | none => (r', .error (.panic "info().unwrap()"))
    | some i =>
      match getTransform t r' i with
      | .error e => (r', .error e)
      | .ok (r2, snap) =>
        match t.apply snap r2.flags i row outLen with
        | none => (r2, .error (.panic "transform_fn (transform.rs / palette.rs)"))
        | some out => ({ r2 with sub := r2.sub.advance }, .ok out)

def lineSizeFor (t : TCfg) (r : R) (i : Info) (ii : IInfo) : Nat :=
  match ii with
  | .adam7 _ _ w => outLineSize t i r.flags w
  | .null _ => outLineSize t i r.flags r.sub.width

/-- `read_row` (mod.rs:506-535) with a buffer of `bufLen` bytes -/
def readRow (cfg : Cfg) (t : TCfg) (r : R) (bufLen : Nat) : R × Res :=
  match r.sub.cur with
  | none =>
    match finishDecoding cfg r with
    | (r', .error e) => (r', e)
    | (r', .ok ()) => (r', .noRow)
  | some ii =>
    let r := if ii.line = 0 then { r with ub := r.ub.resetPrev } else r
    match infoOf r with
    | none => (r, .panic "info().unwrap()")
    | some i =>
      let rowlen := match ii with
        | .null _ => r.sub.rowlen
        | .adam7 _ _ w => rawRowLengthFromWidth i.color i.depth w
      let ols := lineSizeFor t r i ii
      if bufLen < ols then (r, .panic "output_buffer[..output_line_size] (mod.rs:529)") else
      match nextRowImpl cfg t r rowlen ols with
      | (r', .error e) => (r', e)
      | (r', .ok out) => (r', .row ii out)

/-- `next_interlaced_row` / `next_row` (mod.rs:477-500): scratch buffer sized by the canvas width -/
def nextInterlacedRow (cfg : Cfg) (t : TCfg) (r : R) : R × Res :=
  match infoOf r with
  | none => (r, .panic "info().unwrap()")
  | some i =>
    let n := outLineSize t i r.flags r.sub.width      -- a row of the current (sub)frame (mod.rs:483)
    let r := { r with scratchLen := n }
    readRow cfg t r n

def setSlice (buf : Bytes) (at_ : Nat) (v : Bytes) : Bytes := buf.take at_ ++ v ++ buf.drop (at_ + v.length)

/-- rows `done..height` of a non-interlaced frame written at their final offsets (mod.rs:431-442) -/
def frameRows (cfg : Cfg) (t : TCfg) (lineSize : Nat) : Nat → Nat → R → Bytes → R × Bytes × Option Res
  | 0, _, r, buf => (r, buf, none)
  | n+1, k, r, buf =>
    -- `chunks_exact_mut(line_size)`: with `line_size = 0` it panics; a short buffer yields fewer chunks
    if (k + 1) * lineSize > buf.length then (r, buf, none) else
    match nextRowImpl cfg t r r.sub.rowlen lineSize with
    | (r', .error e) => (r', buf, some e)
    | (r', .ok out) => frameRows cfg t lineSize n (k + 1) r' (setSlice buf (k * lineSize) out)

/-- interlaced frame: `next_interlaced_row` + `expand_pass` until `None` (mod.rs:413-427) -/
def frameInterlaced (cfg : Cfg) (t : TCfg) (stride bitsPP : Nat) : Nat → R → Bytes → R × Bytes × Option Res
  | 0, r, buf => (r, buf, some (.panic "fuel"))
  | fuel+1, r, buf =>
    match nextInterlacedRow cfg t r with
    | (r', .noRow) => (r', buf, none)
    | (r', .row (.adam7 p l w) data) =>
      match Adam7.expandPass buf stride data { pass := p, line := l, width := w } bitsPP with
      | none => (r', buf, some (.panic "expand_pass: index out of range (adam7.rs:223-231)"))
      | some buf' => frameInterlaced cfg t stride bitsPP fuel r' buf'
    | (r', .row (.null _) _) => (r', buf, some (.panic "get_adam7_info().unwrap() (mod.rs:424)"))
    | (r', e) => (r', buf, some e)

/-- the row loop of `next_frame` (mod.rs:424-451) -/
def frameBody (cfg : Cfg) (t : TCfg) (r1 : R) (interlaced : Bool) (lineSize bitsPP : Nat) (buf : Bytes) : R × Bytes × Option Res :=
  if interlaced then
    frameInterlaced cfg t lineSize bitsPP (7 * r1.sub.height + 8) r1 buf
  else
    let done := match r1.sub.cur with | some ii => ii.line | none => r1.sub.height
    if lineSize = 0 then (r1, buf, some (.panic "chunks_exact_mut(0) (mod.rs:436)")) else
    frameRows cfg t lineSize (r1.sub.height - done) done r1 buf

/-- `next_frame` once the reader stands in the frame's image data (mod.rs:405-456): the buffer size check,
    the row loop, `finish_decoding` -/
def frameInto (cfg : Cfg) (t : TCfg) (r1 : R) (buf : Bytes) : R × Res × Bytes :=
  match infoOf r1 with
  | none => (r1, .panic "info().unwrap()", buf)
  | some i =>
    let need := outLineSize t i r1.flags i.width * i.height
    if buf.length < need then (r1, .err .parameter "ImageBufferSize", buf) else
    let cd := t.outColorDepth i r1.flags
    let oi : OutputInfo := { width := r1.sub.width, height := r1.sub.height, color := cd.1, depth := cd.2, lineSize := outLineSize t i r1.flags r1.sub.width }
    match frameBody cfg t r1 i.interlaced oi.lineSize (samplesOf cd.1 * cd.2) buf with
    | (r2, buf', some e) => (r2, e, buf')
    | (r2, buf', none) =>
      match finishDecoding cfg r2 with
      | (r3, .error e) => (r3, e, buf')
      | (r3, .ok ()) => (r3, .frame oi buf', buf')

/-- `next_frame` (mod.rs:384-449) into a caller buffer with contents `buf`; also returns the buffer afterwards
    (partially written when the call fails) -/
def nextFrameBuf (cfg : Cfg) (t : TCfg) (r : R) (buf : Bytes) : R × Res × Bytes :=
  -- rows of the current frame are still to be delivered (the end of its data may already have been seen while earlier rows
  -- were read): this frame is finished first (repair 429476f)
  if r.sub.cur.isSome then frameInto cfg t r buf else
  if r.remaining = 0 then (r, .err .parameter "PolledAfterEndOfImage", buf) else
  let adv : R × Except Res Unit := if r.sub.caf then readUntilImageData cfg t r else (r, .ok ())
  match adv with
  | (r1, .error e) => (r1, e, buf)
  | (r1, .ok ()) => frameInto cfg t r1 buf

def nextFrame (cfg : Cfg) (t : TCfg) (r : R) (buf : Bytes) : R × Res :=
  let (r', res, _) := nextFrameBuf cfg t r buf
  (r', res)

/-- `next_frame_info` (mod.rs:331-353) -/
def nextFrameInfo (cfg : Cfg) (t : TCfg) (r : R) : R × Res :=
  let rf : Except Res Nat :=
    if r.sub.caf then .ok r.remaining
    else .ok (r.remaining - 1)        -- `saturating_sub(1)` (mod.rs:336)
  match rf with
  | .error e => (r, e)
  | .ok 0 => (r, .err .parameter "PolledAfterEndOfImage")
  | .ok _ =>
    let fin : R × Except Res Unit :=
      if !r.sub.caf then finishDecoding cfg { r with sub := { r.sub with cur := none } } else (r, .ok ())
    match fin with
    | (r1, .error e) => (r1, e)
    | (r1, .ok ()) =>
      match readUntilImageData cfg t r1 with
      | (r2, .error e) => (r2, e)
      | (r2, .ok ()) =>
        match infoOf r2 >>= (·.fctl) with
        | some fc => (r2, .frameInfo fc)
        | none => (r2, .panic "frame_control.as_ref().unwrap() (mod.rs:352)")

/-- `finish` (mod.rs:552-566) -/
def finish (cfg : Cfg) (r : R) : R × Res :=
  if r.finished then (r, .err .parameter "PolledAfterEndOfImage") else
  -- the rest of the current frame is discarded (mod.rs:561-566)
  let r := { r with remaining := 0, ub := UB.new, sub := { r.sub with cur := none, caf := true } }
  match readUntilEndOfInput cfg (fuelOf r) r with
  | (r', .error e) => (r', e)
  | (r', .ok ()) => ({ r' with finished := true }, .done)

/-- the buffer a `next_frame` call of the model gets: `size` bytes `p`, or — when the previous call was a
    `next_frame` that ran out of input — the buffer of that call again -/
def callerBuf (r : R) (size : Nat) (p : UInt8) : Bytes :=
  match r.pendingBuf with
  | some b => if b.length = size then b else List.replicate size p
  | none => List.replicate size p

/-- `next_frame` as an operation of the model: the documented buffer size (`output_buffer_size()`) is queried
    before the call; a call that ran out of input leaves its buffer for the retry -/
def nextFrameOp (cfg : Cfg) (t : TCfg) (r : R) (p : UInt8) : R × Res :=
  match infoOf r with
  | none => (r, .panic "info().unwrap()")
  | some i =>
    let out := nextFrameBuf cfg t { r with pendingBuf := none } (callerBuf r (outLineSize t i r.flags i.width * i.height) p)
    match out.2.1 with
    | .err .eof _ => ({ out.1 with pendingBuf := some out.2.2 }, out.2.1)
    | _ => (out.1, out.2.1)

inductive Op
  | readHeader
  | readInfo
  | nextFrame (prefill : UInt8)
  | nextRow
  | readRow
  | nextFrameInfo
  | finish
  | grow (n : Nat)
deriving Repr, DecidableEq

/-- one public call (or a growth of the visible input) -/
def step (cfg : Cfg) (t : TCfg) (r : R) : Op → R × Res
  | .grow n => ({ r with visible := min r.input.length (r.visible + n) }, .done)
  | .readInfo => if r.dead then (r, .err .parameter "model: Decoder consumed by a failed read_info") else readInfo cfg t r
  | .readHeader =>
    -- `Decoder::read_header_info` (only a `Decoder` has it)
    if r.isReader ∨ r.dead then (r, .err .parameter "model: Decoder already consumed") else
    match readHeaderInfo cfg (fuelOf r) r with
    | (r', .error e) => (r', e)
    | (r', .ok ()) => (r', .header)
  | op =>
    if !r.isReader then (r, .err .parameter "model: no Reader yet") else
    match op with
    | .nextFrame p => nextFrameOp cfg t r p
    | .nextRow => nextInterlacedRow cfg t { r with pendingBuf := none }
    | .readRow =>
      match infoOf r with
      | none => (r, .panic "info().unwrap()")
      | some i => readRow cfg t { r with pendingBuf := none } (outLineSize t i r.flags i.width)
    | .nextFrameInfo => nextFrameInfo cfg t { r with pendingBuf := none }
    | .finish => finish cfg { r with pendingBuf := none }
    | _ => (r, .done)

def run (cfg : Cfg) (t : TCfg) (r : R) (ops : List Op) : R × List Res :=
  ops.foldl (fun (acc : R × List Res) op => let (r', x) := step cfg t acc.1 op; (r', acc.2 ++ [x])) (r, [])

def R.init (opts : Options) (limit : Nat) (flags : Flags) (input : Bytes) (visible : Nat) : R :=
  { dec := { opts := opts, limit := limit }, input := input, visible := visible, flags := flags }

/-! ## Getters of the `Reader` whose arithmetic is unchecked (`usize`, 64 bit)

They change no state, so they are not `Op`s of `step`: a caller may call them between any two calls.  Sizes are `Nat`
everywhere else in this model; here a product that does not fit `usize` is the explicit `panic` result (overflow checks
on; without them the value wraps silently — equally a violation of the documented meaning of the getter). -/

/-- the result of a size getter -/
inductive GRes
  | value (n : Nat)
  | panic (site : String)
deriving Repr, DecidableEq

def GRes.isPanic : GRes → Bool
  | .panic _ => true
  | .value _ => false

/-- `Reader::output_line_size(width)` (mod.rs:666-669): `color.raw_row_length_from_width(depth, width) - 1` with the output
    type; `raw_row_length_from_width` (common.rs:59-72) is unchecked `usize` arithmetic — `width as usize * samples`, `* 2`,
    `1 + …`, every intermediate value at most the final one — and at least 1, so the subtraction cannot underflow -/
def outputLineSizeGetter (t : TCfg) (r : R) (width : Nat) : GRes :=
  match infoOf r with
  | none => .panic "info().unwrap()"
  | some i =>
    let cd := t.outColorDepth i r.flags
    if rawRowLengthFromWidth cd.1 cd.2 width ≥ 2 ^ 64 then
      .panic "raw_row_length_from_width: usize overflow (common.rs:59-72)"
    else .value (rawRowLengthFromWidth cd.1 cd.2 width - 1)

/-- `Reader::output_buffer_size()` (mod.rs:659-663): `self.output_line_size(width) * height as usize`, unchecked -/
def outputBufferSizeGetter (t : TCfg) (r : R) : GRes :=
  match infoOf r with
  | none => .panic "info().unwrap()"
  | some i =>
    match outputLineSizeGetter t r i.width with
    | .panic s => .panic s
    | .value size =>
      if size * i.height ≥ 2 ^ 64 then .panic "attempt to multiply with overflow: size * height (mod.rs:662)"
      else .value (size * i.height)

/-- `Info::raw_bytes()` (common.rs:787-790, repair 4faadfc): `(self.height as usize).saturating_mul(self.raw_row_length())`;
    `raw_row_length()` includes the filter byte of each row and is about the IMAGE type (not the output type); for a
    `u32` width it is at most 8 · 2^32 + 1.  Total: no panic site. -/
def rawBytes (i : Info) : Nat :=
  min (i.height * rawRowLengthFromWidth i.color i.depth i.width) (2 ^ 64 - 1)

/-- `reader.info().raw_bytes()` -/
def rawBytesGetter (r : R) : GRes :=
  match infoOf r with
  | none => .panic "info().unwrap()"
  | some i => .value (rawBytes i)

end Png.Reader
