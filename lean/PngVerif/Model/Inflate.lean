/-!
RFC 1950/1951 inflate as a total (fuel-bounded) executable specification, core Lean only.
It instantiates the abstract inflater of the theorems when the driver executes the model.
Checked in the design phase against 641 real zlib streams and 280 corrupted ones.
-/
namespace Png.Inf

structure BitReader where
  data : ByteArray
  pos : Nat := 0      -- byte position
  bit : Nat := 0      -- bit position within byte (0 = LSB)

namespace BitReader
@[inline] def readBit (r : BitReader) : Option (Nat × BitReader) :=
  if r.pos < r.data.size then
    let b := (r.data[r.pos]!.toNat >>> r.bit) &&& 1
    if r.bit = 7 then some (b, { r with pos := r.pos + 1, bit := 0 })
    else some (b, { r with bit := r.bit + 1 })
  else none

def readBits (r : BitReader) : Nat → Option (Nat × BitReader)
  | 0 => some (0, r)
  | n+1 => do
    let (b, r1) ← r.readBit
    let (v, r2) ← readBits r1 n
    pure (b + 2 * v, r2)

def alignByte (r : BitReader) : BitReader :=
  if r.bit = 0 then r else { r with pos := r.pos + 1, bit := 0 }
end BitReader

/-- canonical Huffman table: `count[len]`, symbols sorted by (len, symbol) -/
structure Huff where
  count : Array Nat
  symbol : Array Nat

def mkHuff (lengths : Array Nat) : Huff := Id.run do
  let mut count := Array.replicate 16 0
  for l in lengths do count := count.modify l (· + 1)
  let mut offs := Array.replicate 16 0
  for len in [1:15] do offs := offs.set! (len + 1) (offs[len]! + count[len]!)
  let mut symbol := Array.replicate lengths.size 0
  for sym in [0:lengths.size] do
    let l := lengths[sym]!
    if l ≠ 0 then
      symbol := symbol.set! offs[l]! sym
      offs := offs.modify l (· + 1)
  return ⟨count, symbol⟩

/-- over-subscribed or incomplete (except the single-code case) tables are rejected like zlib's `puff` -/
def huffLeft (lengths : Array Nat) : Int := Id.run do
  let mut count := Array.replicate 16 0
  for l in lengths do count := count.modify l (· + 1)
  let mut left : Int := 1
  for len in [1:16] do
    left := left * 2 - (count[len]! : Int)
    if left < 0 then return left
  return left

def decodeSym (h : Huff) (r : BitReader) : Option (Nat × BitReader) := Id.run do
  let mut code : Int := 0
  let mut first : Int := 0
  let mut index : Int := 0
  let mut rd := r
  for len in [1:16] do
    match rd.readBit with
    | none => return none
    | some (b, r1) =>
      rd := r1
      code := code + b
      let cnt : Int := h.count[len]!
      if code - cnt < first then
        return some (h.symbol[(index + (code - first)).toNat]!, rd)
      index := index + cnt
      first := (first + cnt) * 2
      code := code * 2
  return none

def lenBase : Array Nat := #[3,4,5,6,7,8,9,10,11,13,15,17,19,23,27,31,35,43,51,59,67,83,99,115,131,163,195,227,258]
def lenExtra : Array Nat := #[0,0,0,0,0,0,0,0,1,1,1,1,2,2,2,2,3,3,3,3,4,4,4,4,5,5,5,5,0]
def distBase : Array Nat := #[1,2,3,4,5,7,9,13,17,25,33,49,65,97,129,193,257,385,513,769,1025,1537,2049,3073,4097,6145,8193,12289,16385,24577]
def distExtra : Array Nat := #[0,0,0,0,1,1,2,2,3,3,4,4,5,5,6,6,7,7,8,8,9,9,10,10,11,11,12,12,13,13]

def fixedLit : Huff := mkHuff ((Array.replicate 144 8) ++ (Array.replicate 112 9) ++ (Array.replicate 24 7) ++ (Array.replicate 8 8))
def fixedDist : Huff := mkHuff (Array.replicate 30 5)

/-- decode symbols of one compressed block; `limit` bounds the output (bombs) -/
def codes (lit dist : Huff) (limit : Nat) : Nat → BitReader → ByteArray → Option (BitReader × ByteArray)
  | 0, _, _ => none
  | fuel+1, r, out => do
    let (sym, r1) ← decodeSym lit r
    if sym < 256 then
      if out.size ≥ limit then none else codes lit dist limit fuel r1 (out.push sym.toUInt8)
    else if sym = 256 then pure (r1, out)
    else
      let s := sym - 257
      if s ≥ 29 then none else
      let (eb, r2) ← r1.readBits lenExtra[s]!
      let len := lenBase[s]! + eb
      let (ds, r3) ← decodeSym dist r2
      if ds ≥ 30 then none else
      let (de, r4) ← r3.readBits distExtra[ds]!
      let d := distBase[ds]! + de
      if d > out.size then none else
      if out.size + len > limit then none else
      let out' := Id.run do
        let mut o := out
        for _ in [0:len] do o := o.push o[o.size - d]!
        return o
      codes lit dist limit fuel r4 out'

def clOrder : Array Nat := #[16,17,18,0,8,7,9,6,10,5,11,4,12,3,13,2,14,1,15]

def readDynamic (r : BitReader) : Option (Huff × Huff × BitReader) := do
  let (hlit, r) ← r.readBits 5
  let (hdist, r) ← r.readBits 5
  let (hclen, r) ← r.readBits 4
  let nlen := hlit + 257; let ndist := hdist + 1; let ncode := hclen + 4
  if nlen > 286 ∨ ndist > 30 then none else
  let mut cl := Array.replicate 19 0
  let mut rd := r
  for i in [0:ncode] do
    let (v, r1) ← rd.readBits 3
    rd := r1
    cl := cl.set! clOrder[i]! v
  if huffLeft cl ≠ 0 then none else
  let clh := mkHuff cl
  let mut lengths : Array Nat := #[]
  let mut fuel := nlen + ndist + 1
  while lengths.size < nlen + ndist ∧ fuel > 0 do
    fuel := fuel - 1
    let (sym, r1) ← decodeSym clh rd
    rd := r1
    if sym < 16 then lengths := lengths.push sym
    else
      let (prev, rep, r2) ← (do
        if sym = 16 then
          if lengths.size = 0 then none else
          let (e, r2) ← rd.readBits 2
          pure (lengths[lengths.size - 1]!, 3 + e, r2)
        else if sym = 17 then
          let (e, r2) ← rd.readBits 3
          pure (0, 3 + e, r2)
        else
          let (e, r2) ← rd.readBits 7
          pure (0, 11 + e, r2) : Option (Nat × Nat × BitReader))
      rd := r2
      if lengths.size + rep > nlen + ndist then none
      for _ in [0:rep] do lengths := lengths.push prev
  if lengths.size ≠ nlen + ndist then none else
  if lengths[256]! = 0 then none else
  let ll := lengths.extract 0 nlen
  let dl := lengths.extract nlen (nlen + ndist)
  let l1 := huffLeft ll
  -- incomplete codes are allowed only when every used code has length 1 (zlib `puff`: count[0] + count[1] = n)
  if l1 < 0 ∨ (l1 > 0 ∧ (ll.filter (fun x => x = 0 ∨ x = 1)).size ≠ nlen) then none else
  let l2 := huffLeft dl
  if l2 < 0 ∨ (l2 > 0 ∧ (dl.filter (fun x => x = 0 ∨ x = 1)).size ≠ ndist) then none else
  pure (mkHuff ll, mkHuff dl, rd)

/-- raw deflate stream; returns output and the reader after the final block -/
def inflateBlocks (limit : Nat) : Nat → BitReader → ByteArray → Option (BitReader × ByteArray)
  | 0, _, _ => none
  | fuel+1, r, out => do
    let (last, r) ← r.readBit
    let (typ, r) ← r.readBits 2
    let (r', out') ← (match typ with
      | 0 => do
        let r := r.alignByte
        if r.pos + 4 > r.data.size then none else
        let len := r.data[r.pos]!.toNat + 256 * r.data[r.pos+1]!.toNat
        let nlen := r.data[r.pos+2]!.toNat + 256 * r.data[r.pos+3]!.toNat
        if len + nlen ≠ 65535 then none else
        if r.pos + 4 + len > r.data.size then none else
        if out.size + len > limit then none else
        pure ({ r with pos := r.pos + 4 + len }, out ++ r.data.extract (r.pos + 4) (r.pos + 4 + len))
      | 1 => codes fixedLit fixedDist limit (8 * r.data.size + 8) r out
      | 2 => do
        let (lit, dist, r) ← readDynamic r
        codes lit dist limit (8 * r.data.size + 8) r out
      | _ => none : Option (BitReader × ByteArray))
    if last = 1 then pure (r', out') else inflateBlocks limit fuel r' out'

def adler (b : ByteArray) : Nat := Id.run do
  let mut a := 1; let mut s := 0
  for i in [0:b.size] do
    a := (a + b[i]!.toNat) % 65521
    s := (s + a) % 65521
  return s * 65536 + a

/-- zlib stream: header check, deflate blocks, Adler-32; returns (output, bytes consumed).
    `limit`: maximum output size (larger → `none`). -/
def zlibInflate (z : ByteArray) (checkAdler : Bool := true) (limit : Nat := 1 <<< 40) : Option (ByteArray × Nat) := do
  if z.size < 2 then none else
  let cmf := z[0]!.toNat; let flg := z[1]!.toNat
  if cmf % 16 ≠ 8 ∨ cmf / 16 > 7 ∨ flg &&& 32 ≠ 0 ∨ (cmf * 256 + flg) % 31 ≠ 0 then none else
  let (r, out) ← inflateBlocks limit (z.size + 1) { data := z, pos := 2 } ByteArray.empty
  let r := r.alignByte
  if r.pos + 4 > z.size then none else
  let ad := ((z[r.pos]!.toNat * 256 + z[r.pos+1]!.toNat) * 256 + z[r.pos+2]!.toNat) * 256 + z[r.pos+3]!.toNat
  if checkAdler ∧ ad ≠ adler out then none else
  pure (out, r.pos + 4)

/-- deflate blocks only, no trailer required: what a PNG decoder that ignores the Adler-32 field
    and any bytes after the final block can reconstruct -/
def zlibInflateNoTrailer (z : ByteArray) (limit : Nat := 1 <<< 40) : Option ByteArray := do
  if z.size < 2 then none else
  let cmf := z[0]!.toNat; let flg := z[1]!.toNat
  if cmf % 16 ≠ 8 ∨ cmf / 16 > 7 ∨ flg &&& 32 ≠ 0 ∨ (cmf * 256 + flg) % 31 ≠ 0 then none else
  let (_, out) ← inflateBlocks limit (z.size + 1) { data := z, pos := 2 } ByteArray.empty
  pure out


/-! ## Prefix mode: everything decodable from a prefix of the stream -/

/-- result of inflating a prefix -/
inductive Progress
  | done (out : ByteArray) (consumed : Nat)   -- final block and trailer seen
  | more (out : ByteArray)                    -- input exhausted first
  | bad                                       -- corrupt

/-- symbols of one compressed block until input runs out (`more`), end of block, or corruption.
    Returns `(reader after the block, out, finishedBlock)`; `none` = corrupt. -/
def codesP (lit dist : Huff) (limit : Nat) : Nat → BitReader → ByteArray → Option (BitReader × ByteArray × Bool)
  | 0, _, _ => none
  | fuel+1, r, out =>
    match decodeSym lit r with
    | none =>
      -- either the input ran out or no code matched within 15 bits
      if r.pos + 2 ≥ r.data.size then some (r, out, false) else none
    | some (sym, r1) =>
      if sym < 256 then
        if out.size ≥ limit then none else codesP lit dist limit fuel r1 (out.push sym.toUInt8)
      else if sym = 256 then some (r1, out, true)
      else
        let s := sym - 257
        if s ≥ 29 then none else
        match r1.readBits lenExtra[s]! with
        | none => some (r, out, false)
        | some (eb, r2) =>
          let len := lenBase[s]! + eb
          match decodeSym dist r2 with
          | none => if r2.pos + 2 ≥ r2.data.size then some (r, out, false) else none
          | some (ds, r3) =>
            if ds ≥ 30 then none else
            match r3.readBits distExtra[ds]! with
            | none => some (r, out, false)
            | some (de, r4) =>
              let d := distBase[ds]! + de
              if d > out.size then none else
              if out.size + len > limit then none else
              let out' := Id.run do
                let mut o := out
                for _ in [0:len] do o := o.push o[o.size - d]!
                return o
              codesP lit dist limit fuel r4 out'

/-- blocks until the final one; `Progress.more` as soon as the input runs out -/
def inflateBlocksP (limit : Nat) : Nat → BitReader → ByteArray → Option (Option BitReader × ByteArray)
  | 0, _, _ => none
  | fuel+1, r, out =>
    match r.readBit with
    | none => some (none, out)
    | some (last, r1) =>
      match r1.readBits 2 with
      | none => some (none, out)
      | some (typ, r2) =>
        let step : Option (BitReader × ByteArray × Bool) :=
          match typ with
          | 0 =>
            let ra := r2.alignByte
            if ra.pos + 4 > ra.data.size then some (ra, out, false) else
            let len := ra.data[ra.pos]!.toNat + 256 * ra.data[ra.pos+1]!.toNat
            let nlen := ra.data[ra.pos+2]!.toNat + 256 * ra.data[ra.pos+3]!.toNat
            if len + nlen ≠ 65535 then none else
            let avail := min len (ra.data.size - (ra.pos + 4))
            if out.size + avail > limit then none else
            let out' := out ++ ra.data.extract (ra.pos + 4) (ra.pos + 4 + avail)
            some ({ ra with pos := ra.pos + 4 + avail }, out', avail == len)
          | 1 => codesP fixedLit fixedDist limit (8 * r2.data.size + 8) r2 out
          | 2 =>
            match readDynamic r2 with
            | some (lit, dist, r3) => codesP lit dist limit (8 * r3.data.size + 8) r3 out
            | none =>
              -- a truncated table description is "need more input"; a complete but invalid one is corrupt.
              -- The description is at most 14 + 19*3 + 320*(15+7) bits < 900 bytes.
              if r2.pos + 900 ≥ r2.data.size then some (r2, out, false) else none
          | _ => none
        match step with
        | none => none
        | some (_, out', false) => some (none, out')
        | some (r', out', true) => if last = 1 then some (some r', out') else inflateBlocksP limit fuel r' out'

/-- everything decodable from a prefix `z` of a zlib stream -/
def zlibPrefix (z : ByteArray) (checkAdler : Bool) (limit : Nat := 1 <<< 40) : Progress :=
  if z.size < 2 then .more ByteArray.empty else
  let cmf := z[0]!.toNat; let flg := z[1]!.toNat
  if cmf % 16 ≠ 8 ∨ cmf / 16 > 7 ∨ flg &&& 32 ≠ 0 ∨ (cmf * 256 + flg) % 31 ≠ 0 then .bad else
  match inflateBlocksP limit (z.size + 1) { data := z, pos := 2 } ByteArray.empty with
  | none => .bad
  | some (none, out) => .more out
  | some (some r, out) =>
    let r := r.alignByte
    if r.pos + 4 > z.size then .more out else
    let ad := ((z[r.pos]!.toNat * 256 + z[r.pos+1]!.toNat) * 256 + z[r.pos+2]!.toNat) * 256 + z[r.pos+3]!.toNat
    if checkAdler ∧ ad ≠ adler out then .bad else .done out (r.pos + 4)

end Png.Inf
