import PngVerif.Model.ZlibWindow
import PngVerif.Model.Unfiltering
/-!
# The Reader's image-data path: `ZlibStream` window + `UnfilteringBuffer` + scratch row + discard vector

Implementation-shaped composite of the two existing component models (`Model/ZlibWindow.lean`,
`Model/Unfiltering.lean`) driven the way `Reader` drives them (`src/decoder/mod.rs`,
`src/decoder/read_decoder.rs`, `src/decoder/stream.rs:781-795, 840-853`).  It models every heap buffer
that lies between the compressed `IDAT`/`fdAT` bytes and the caller:

| buffer                         | source                               | here                |
|--------------------------------|--------------------------------------|---------------------|
| `ZlibStream::out_buffer`       | zlib.rs:14                           | `z.bufLen`, `zHigh` |
| `UnfilteringBuffer::data_stream` | unfiltering_buffer.rs:8            | `ub.data`           |
| `Reader::scratch_buffer`       | mod.rs:305, resized at mod.rs:505    | `scratchLen`        |
| `to_be_discarded` (one per call) | read_decoder.rs:84, :147           | `tmpHigh`           |

One `decode_image_data` call (read_decoder.rs:124) is one `fill_buf` and one `StreamingDecoder::update`
(read_decoder.rs:61-71), and one `update` returns right after at most one `ZlibStream::decompress`
(stream.rs:785-793, event `ImageData`) or one `finish_compressed_chunks` + `reset` (stream.rs:844-853,
event `ImageDataFlushed`); every other event appends nothing.  So the vector handed to
`decode_image_data` grows per call by what ONE `decompress` transfers, or by what the finish loop
transfers in total.

The inflater is abstract exactly as in `Model/ZlibWindow.lean`: in each call it "wants" to produce `k`
bytes and produces `min k (space offered) (what is left of the ideal output O)`.  Sizes never depend
on the contents of `O` (the only place a byte value is looked at is the filter-type byte in
`unfilter_curr_row`).

`DPOut.refused` = the Reader never performs this operation in this state (the *discipline*):
`next_raw_interlaced_row` (mod.rs:659-678) fetches data only `while curr_row_len() < rowlen` and not
after `consumed_and_flushed`; it unfilters only once a whole row is present; a pass row is never longer
than the frame's row.  `DPOut.panic` = a Rust panic (explicit outcome).

Core Lean only (linked into `pngmodel`).
-/
namespace Png

/-! ## `ZlibStream` seen from `decode_image_data`: bytes appended per call -/

/-- one `ZlibStream::decompress` (zlib.rs:82-113) into a vector; result: new window state and the bytes
    appended to the vector by this call (`delivered` is used as the per-call output and cleared) -/
def ZW.pull (c : ZCfg) (O : Bytes) (z : ZW) (k : Nat) : Option (ZW × Bytes) :=
  match ({ z with delivered := [] } : ZW).decompress c O k with
  | none => none
  | some z' => some ({ z' with delivered := [] }, z'.delivered)

/-- what the inflater does during `finish_compressed_chunks` (zlib.rs:120-152) -/
inductive ZFlush where
  /-- `!self.started` (:124) or the inflater is already done (:128): the loop body never runs -/
  | idle
  /-- the loop runs: iterations after which the inflater is still not done (wanting `ks`), then the
      iteration in which it reports done (wanting `kl`) -/
  | loop (ks : List Nat) (kl : Nat)
deriving Repr

/-- bytes the inflater wants to produce during the flush -/
def ZFlush.want : ZFlush → Nat
  | .idle => 0
  | .loop ks kl => ks.foldr (· + ·) 0 + kl

/-- the non-final iterations of `while !self.state.is_done()` (zlib.rs:128-147) -/
def ZW.finishIters (c : ZCfg) (O : Bytes) : List Nat → ZW → Option ZW
  | [], z => some z
  | k :: ks, z =>
    match z.finishIter c O k with
    | none => none
    | some z' => ZW.finishIters c O ks z'

/-- `finish_compressed_chunks` (zlib.rs:120-152) into a vector, followed by `reset()`
    (stream.rs:844-845; afterwards the window state is `ZW.init`).  Result: the bytes appended to the
    vector and the largest `out_buffer.len()` reached on the way.  `none` = panic (the progress
    `assert!` zlib.rs:141, or one of the panics of `ZW.call`). -/
def ZW.flush (c : ZCfg) (O : Bytes) (z : ZW) : ZFlush → Option (Bytes × Nat)
  | .idle =>
    -- `transfer_finished_data` (:149) then `out_buffer.clear()` (:150); (when `!started` the function
    -- returns at :125 and the buffer is empty anyway)
    if z.hist.length < z.readPos then none
    else some (({ z with delivered := [] } : ZW).transfer.delivered, z.bufLen)
  | .loop ks kl =>
    match ZW.finishIters c O ks { z with delivered := [] } with
    | none => none
    | some z1 =>
      match z1.prepare c, z1.finishLast c O kl with
      | some zp, some z2 => some (z2.delivered, zp.bufLen)
      | _, _ => none

/-! ## The composite state -/

/-- what is fixed when a (sub)frame is started (`SubframeInfo::new`, mod.rs:693-712) -/
structure DPFrame where
  /-- `subframe.rowlen = info.raw_row_length_from_width(width)` (mod.rs:707): filter byte + data -/
  rowlen : Nat
  /-- `output_line_size(subframe.width)` (mod.rs:366-367 and :505): the amount charged to `Limits` when the
      frame is started and the length the scratch row is resized to -/
  outLine : Nat
  /-- `info.bpp_in_prediction()` (mod.rs:377) -/
  bpp : Nat
deriving Repr, DecidableEq

structure DP where
  /-- `StreamingDecoder::inflater` (stream.rs:524); `z.delivered = []` between operations -/
  z : ZW
  /-- ghost: the ideal output of the zlib stream being inflated (a new one after every `reset`) -/
  O : Bytes
  /-- `Reader::unfiltering_buffer` (mod.rs:296) -/
  ub : UB
  /-- `Reader::scratch_buffer.len()` (mod.rs:305) -/
  scratchLen : Nat
  /-- `decoder.limits.bytes`: what is left of the budget -/
  limit : Nat
  /-- the current (sub)frame -/
  frame : DPFrame
  /-- row length of the current pass (`read_row`, mod.rs:541-546) -/
  rowlen : Nat
  /-- `subframe.consumed_and_flushed` -/
  flushed : Bool
  /-- ghost high-water mark: largest `out_buffer.len()` so far (inside operations included) -/
  zHigh : Nat
  /-- ghost high-water mark: largest length a `to_be_discarded` vector has reached so far -/
  tmpHigh : Nat
  /-- ghost high-water mark: most bytes one `finish_compressed_chunks` call has produced so far -/
  flushHigh : Nat
  /-- `remaining_frames == 0` forced by a refused frame start or by `finish` (mod.rs:372, :573): every later
      `next_frame`/`next_frame_info` answers `PolledAfterEndOfImage` -/
  noFrames : Bool
  /-- ghost: some frame start returned `LimitsExceeded` from `reserve_bytes` (mod.rs:367); the refused frame
      was NOT installed -/
  limitHit : Bool
deriving Repr

/-- `Decoder::read_info` (mod.rs:189-239) up to and including the first `Reader::read_until_image_data`
    with `L` bytes of budget left: `none` = `LimitsExceeded`, and then there is no `Reader` at all
    (`read_info` consumes the `Decoder`) -/
def DP.start (L : Nat) (fr : DPFrame) (O : Bytes) : Option DP :=
  if fr.rowlen < 2 ∨ L < fr.outLine then none
  else some { z := ZW.init, O := O, ub := UB.new, scratchLen := 0, limit := L - fr.outLine, frame := fr,
              rowlen := fr.rowlen, flushed := false, zHigh := 0, tmpHigh := 0, flushHigh := 0,
              noFrames := false, limitHit := false }

inductive DPOp where
  /-- `set_max_total_output` (zlib.rs:55; called from the IHDR parser, stream.rs:1688) -/
  | setMax (n : Nat)
  /-- the framing layer charges `n` bytes for something else (`Limits::reserve_bytes`, mod.rs:70) -/
  | charge (n : Nat)
  /-- `decode_image_data(unfiltering_buffer.as_mut_vec())` (mod.rs:668-670) that appends nothing:
      `as_mut_vec` compacts, then `decode_next` reports a non-data event, or `decompress` returns
      early (inflater done, zlib.rs:90), or `fill_buf` fails/has nothing -/
  | pullNone
  /-- the same with one `ZlibStream::decompress` in which the inflater wants to produce `k` bytes -/
  | pull (k : Nat)
  /-- the same with `finish_compressed_chunks` + `reset` (event `ImageDataFlushed`), then
      `mark_subframe_as_consumed_and_flushed` (mod.rs:673); `O'` = ideal output of the next stream -/
  | pullFlush (fl : ZFlush) (O' : Bytes)
  /-- the inflater reports an error inside `decompress`/the finish loop: only
      `prepare_vec_for_appending` has happened (zlib.rs:94, :129) -/
  | zFail
  /-- `unfilter_curr_row(rowlen)` at the end of `next_raw_interlaced_row` (mod.rs:677) -/
  | row
  /-- `read_row` at `line_number() == 0` (mod.rs:538-546): `reset_prev_row`, row length `r` of the pass -/
  | newPass (r : Nat)
  /-- `next_interlaced_row`/`next_row` (mod.rs:503-505): `scratch_buffer.resize(output_line_size(..))` -/
  | scratch
  /-- one `decode_image_data(&mut vec![])` of `finish_decoding_image_data` (read_decoder.rs:145-152) or
      one `decode_next_and_discard_image_data` of `read_until_end_of_input` (:83-86, :157-163) with a
      `decompress` wanting `k` bytes: the data goes to a fresh vector dropped after the call -/
  | skip (k : Nat)
  /-- the same with `finish_compressed_chunks` + `reset` -/
  | skipFlush (fl : ZFlush) (O' : Bytes)
  /-- `Reader::read_until_image_data` (mod.rs:360-383) once `ReadDecoder::read_until_image_data` has
      reached the next `IDAT`/`fdAT`: `reserve_bytes(output_line_size)` FIRST; on success the new
      `SubframeInfo` and `UnfilteringBuffer::new()` are installed; on `LimitsExceeded` the OLD subframe is
      kept (`current_interlace_info = None`, `consumed_and_flushed = true`, `remaining_frames = 0`) and the
      error is returned (repaired by 0a2b38f; the pinned tree installed the frame first: `DP.stepPinned`) -/
  | newFrame (fr : DPFrame)
  /-- `Reader::finish`: `remaining_frames = 0`, `UnfilteringBuffer::new()`, `consumed_and_flushed = true`;
      the remaining data is then skipped (`skip`/`skipFlush`) -/
  | finish
deriving Repr

inductive DPOut where
  | ok (st : DP)
  /-- not an operation the Reader performs in this state -/
  | refused
  | panic
deriving Repr

/-- `while self.unfiltering_buffer.curr_row_len() < rowlen` and `!consumed_and_flushed`
    (mod.rs:661-662) -/
def DP.wantsData (st : DP) : Bool := !st.flushed && decide (st.ub.currLen < st.rowlen)

def DP.step (c : ZCfg) (st : DP) : DPOp → DPOut
  | .setMax n => .ok { st with z := st.z.setMaxTotal n }
  | .charge n => if n ≤ st.limit then .ok { st with limit := st.limit - n } else .refused
  | .pullNone =>
    if !st.wantsData then .refused else .ok { st with ub := st.ub.compact }
  | .pull k =>
    if !st.wantsData then .refused else
    match st.z.pull c st.O k with
    | none => .panic
    | some (z', bs) => .ok { st with z := z', ub := st.ub.append bs, zHigh := max st.zHigh z'.bufLen }
  | .pullFlush fl O' =>
    if !st.wantsData then .refused else
    match st.z.flush c st.O fl with
    | none => .panic
    | some (bs, hi) =>
      .ok { st with z := ZW.init, O := O', ub := st.ub.append bs, flushed := true,
                    zHigh := max st.zHigh hi, flushHigh := max st.flushHigh bs.length }
  | .zFail =>
    match st.z.prepare c with
    | none => .panic
    | some z1 => .ok { st with z := z1, zHigh := max st.zHigh z1.bufLen }
  | .row =>
    if st.ub.currLen < st.rowlen then .refused else
    match st.ub.unfilterCurr st.rowlen st.frame.bpp with
    | .ok u => .ok { st with ub := u }
    | .unknownFilter _ => .ok st       -- `Err(UnknownFilterMethod)`, buffer untouched
    | .panic => .panic
  | .newPass r =>
    if 2 ≤ r ∧ r ≤ st.frame.rowlen then .ok { st with ub := st.ub.resetPrev, rowlen := r } else .refused
  | .scratch => .ok { st with scratchLen := st.frame.outLine }
  | .skip k =>
    match st.z.pull c st.O k with
    | none => .panic
    | some (z', bs) =>
      .ok { st with z := z', zHigh := max st.zHigh z'.bufLen, tmpHigh := max st.tmpHigh bs.length }
  | .skipFlush fl O' =>
    match st.z.flush c st.O fl with
    | none => .panic
    | some (bs, hi) =>
      .ok { st with z := ZW.init, O := O', flushed := true, zHigh := max st.zHigh hi,
                    tmpHigh := max st.tmpHigh bs.length, flushHigh := max st.flushHigh bs.length }
  | .newFrame fr =>
    if !st.flushed ∨ st.noFrames ∨ fr.rowlen < 2 then .refused else
    if fr.outLine ≤ st.limit then
      .ok { st with frame := fr, rowlen := fr.rowlen, ub := UB.new, flushed := false,
                    limit := st.limit - fr.outLine }
    else
      -- the call returns `Err(LimitsExceeded)`: nothing of the refused frame is installed
      .ok { st with flushed := true, noFrames := true, limitHit := true }
  | .finish => .ok { st with ub := UB.new, flushed := true, noFrames := true }

def DP.run (c : ZCfg) : List DPOp → DP → DPOut
  | [], st => .ok st
  | op :: ops, st =>
    match st.step c op with
    | .ok st' => DP.run c ops st'
    | .refused => .refused
    | .panic => .panic

/-! ## The pinned tree (before the repair 0a2b38f) -/

/-- the OLD `Reader::read_until_image_data`: the new `SubframeInfo` and `UnfilteringBuffer::new()` were
    installed BEFORE `reserve_bytes`; on `LimitsExceeded` they stayed installed and the `Reader` stayed
    usable, so the next row call decoded the refused frame with nothing charged.  Every other operation
    is `DP.step`. -/
def DP.stepPinned (c : ZCfg) (st : DP) : DPOp → DPOut
  | .newFrame fr =>
    if !st.flushed ∨ st.noFrames ∨ fr.rowlen < 2 then .refused else
    let st1 := { st with frame := fr, rowlen := fr.rowlen, ub := UB.new, flushed := false }
    if fr.outLine ≤ st.limit then .ok { st1 with limit := st.limit - fr.outLine }
    else .ok { st1 with limitHit := true }
  | op => st.step c op

def DP.runPinned (c : ZCfg) : List DPOp → DP → DPOut
  | [], st => .ok st
  | op :: ops, st =>
    match st.stepPinned c op with
    | .ok st' => DP.runPinned c ops st'
    | .refused => .refused
    | .panic => .panic

/-! ## Observable sizes (what the harness compares, what the examples decide) -/

/-- `(data_stream.len(), prev_start, current_start)`, `(out_buffer.len(), out_pos, read_pos)`,
    `scratch_buffer.len()`, `limits.bytes`, the flag and the ghosts -/
structure DPSizes where
  ubLen : Nat
  prevStart : Nat
  curStart : Nat
  bufLen : Nat
  outPos : Nat
  readPos : Nat
  scratchLen : Nat
  limit : Nat
  flushed : Bool
  limitHit : Bool
  zHigh : Nat
  tmpHigh : Nat
  flushHigh : Nat
deriving Repr, DecidableEq

def DP.sizes (st : DP) : DPSizes :=
  { ubLen := st.ub.data.length, prevStart := st.ub.prevStart, curStart := st.ub.curStart,
    bufLen := st.z.bufLen, outPos := st.z.hist.length, readPos := st.z.readPos,
    scratchLen := st.scratchLen, limit := st.limit, flushed := st.flushed, limitHit := st.limitHit,
    zHigh := st.zHigh, tmpHigh := st.tmpHigh, flushHigh := st.flushHigh }

inductive DPObs where
  | ok (s : DPSizes)
  | refused
  | panic
deriving Repr, DecidableEq

def DPOut.obs : DPOut → DPObs
  | .ok st => .ok st.sizes
  | .refused => .refused
  | .panic => .panic

/-- `read_info` then the operations; `none` = `read_info` failed (`LimitsExceeded`), no Reader -/
def DP.runFrom (c : ZCfg) (L : Nat) (fr : DPFrame) (O : Bytes) (ops : List DPOp) : Option DPObs :=
  match DP.start L fr O with
  | none => none
  | some st0 => some (DP.run c ops st0).obs

/-- the same on the pinned tree's step -/
def DP.runFromPinned (c : ZCfg) (L : Nat) (fr : DPFrame) (O : Bytes) (ops : List DPOp) : Option DPObs :=
  match DP.start L fr O with
  | none => none
  | some st0 => some (DP.runPinned c ops st0).obs

/-- the constant of the bounds: `2·(LOOKBACK_SIZE·4 + CHUNK_BUFFER_SIZE)` -/
def ZCfg.window (c : ZCfg) : Nat := 2 * (c.thresh + c.chunk)

end Png
