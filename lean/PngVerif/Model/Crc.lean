/-! CRC-32 (ISO-HDLC, as used by PNG) and Adler-32 (RFC 1950): executable specifications. -/
namespace Png

/-- one table entry: 8 shift/xor steps with the reflected polynomial 0xEDB88320 -/
def crcEntry (n : UInt32) : UInt32 := Id.run do
  let mut c := n
  for _ in [0:8] do
    c := if c &&& 1 == 1 then (c >>> 1) ^^^ 0xEDB88320 else c >>> 1
  return c

def crcTable : Array UInt32 := (Array.range 256).map fun i => crcEntry i.toUInt32

/-- running CRC state update (state is the bit-inverted register, as in `crc32fast::Hasher`) -/
def crcUpdate (reg : UInt32) (b : ByteArray) (start stop : Nat) : UInt32 := Id.run do
  let mut c := reg
  for i in [start:stop] do
    c := crcTable[((c ^^^ b[i]!.toUInt32) &&& 0xFF).toNat]! ^^^ (c >>> 8)
  return c

def crc32 (b : ByteArray) : UInt32 := (crcUpdate 0xFFFFFFFF b 0 b.size) ^^^ 0xFFFFFFFF

/-- CRC over `type ++ data` of a chunk -/
def crc32Range (b : ByteArray) (start stop : Nat) : UInt32 := (crcUpdate 0xFFFFFFFF b start stop) ^^^ 0xFFFFFFFF

def adler32 (b : ByteArray) : Nat := Id.run do
  let mut a := 1
  let mut s := 0
  for i in [0:b.size] do
    a := (a + b[i]!.toNat) % 65521
    s := (s + a) % 65521
  return s * 65536 + a

/-- FNV-1a 64-bit, only used to compare large outputs by digest in the line protocol -/
def fnv64 (b : ByteArray) : UInt64 := Id.run do
  let mut h : UInt64 := 0xcbf29ce484222325
  for i in [0:b.size] do
    h := (h ^^^ b[i]!.toUInt64) * 0x100000001B3
  return h

end Png
