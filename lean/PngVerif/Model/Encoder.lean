import PngVerif.Model.Validator
import PngVerif.Model.Basic
/-!
# Implementation-shaped model of the writers (`src/encoder.rs`)

Core Lean only: linked into `pngmodel`.

* `Sink` — the `W: Write` under the encoder: the bytes it accepted (as a log of pieces with the
  number of bytes of each piece that got through) and a failure schedule `SinkBehaviour`.  Every
  write of the crate goes through `write_all`, so a sink is characterised by the BYTE OFFSET at
  which `write` fails (permanently, or once) — short writes are invisible — and by the index of
  the failing `flush` call.
* `WState` + `writeHeader`, `writeChunk`, `writeTextChunk`, `writeImageData`, the frame setters,
  `finishW`, `dropW` — `Writer`/`PartialInfo` (encoder.rs:476-1152).
* `CW` — `ChunkWriter` (:1194-1351); `ZEnc` — `flate2::write::ZlibEncoder<ChunkWriter>` reduced to
  what the encoder relies on (an abstract deterministic compressor `ZCodec` plus flate2's buffer of
  output not yet handed to the inner writer); `Wrap`/`SW` — `Wrapper`/`StreamWriter` (:1370-1764).
* the compressors are parameters: `Codec.encode` is the whole "filter rows + deflate" back-end of
  `write_image_data` (three variants in the source, :808-863), `ZCodec.out` the streaming one.
  Their contracts (`Codec.Ok`, `ZCodec.Ok`) appear only as hypotheses of theorems.
* every Rust panic site is an explicit `Res.panic` outcome (`PanicSite` lists them with line numbers).

Numbers are `Nat`; `u32`/`u16`/`usize` ranges are explicit where the Rust arithmetic depends on them
(`u32` fields of a configuration are assumed `< 2^32` by `Cfg.inRange`, the type invariant).
-/
namespace Png.Enc
open Png Png.Val

/-! ## Results -/

/-- `FormatErrorKind` / `ParameterErrorKind` / `IoError` / `LimitsExceeded` (encoder.rs:24-52) -/
inductive Err
  | zeroWidth | zeroHeight | invalidColor | noPalette | writtenTooMuch | notAnimated | outOfBounds
  | endReached | zeroFrames | missingFrames | missingData | unrecoverable | badText
  | imageBufferSize | limits | io | writeZero
deriving DecidableEq, Repr

/-- the places where the Rust code can panic -/
inductive PanicSite
  | chunksZero            -- `data.chunks(in_len)` with `in_len = 0` (:812, :822, :840, :854)
  | resetDimUnderflow     -- `self.info.width - fctl.x_offset` (:1022-1023, :1554-1555)
  | animWrittenOverflow   -- `animation_written += 1` (:875, :1270)
  | rowSlice              -- `self.curr_buf[..self.line_len][self.index..]` out of range (:1741)
  | unreachableWrapper    -- the `unreachable!()` arms on `Wrapper` (:1678, :1679, :1705, :1733, :1734, :1758)
  | assertIndexZero       -- `assert_eq!(self.index, 0)` (:1254)
  | toWriteUnderflow      -- `self.to_write -= written` (:1743)
deriving DecidableEq, Repr

inductive Res
  | ok
  | err (e : Err)
  | panic (p : PanicSite)
deriving DecidableEq, Repr

def Res.isPanic : Res → Bool
  | .panic _ => true
  | _ => false

/-! ## Sink -/

structure SinkBehaviour where
  /-- the sink accepts exactly this many bytes, then `write` fails (`none`: never) -/
  writeFailAt : Option Nat := none
  /-- the failure happens once (the `write` call that reaches the offset), afterwards the sink works again -/
  writeOnce : Bool := false
  /-- index (from 0) of the first failing `flush` call -/
  flushFailAt : Option Nat := none
  flushOnce : Bool := false
deriving DecidableEq, Repr

inductive Piece
  | sig
  | chunk (c : RChunk)
deriving DecidableEq, Repr

/-- bytes of a piece on the wire: 8 for the signature, length + type + data + CRC for a chunk -/
def Piece.size : Piece → Nat
  | .sig => 8
  | .chunk c => 12 + c.data.length

/-- one `write_chunk` (or the signature write): how many of its bytes the sink accepted -/
structure Emit where
  piece : Piece
  accepted : Nat
deriving DecidableEq, Repr

def Emit.complete (e : Emit) : Bool := e.accepted == e.piece.size

structure Sink where
  beh : SinkBehaviour := {}
  log : List Emit := []
  count : Nat := 0
  fired : Bool := false
  flushes : Nat := 0
deriving DecidableEq, Repr

/-- bytes the sink still accepts before `write` fails (`none`: no limit) -/
def Sink.budget (s : Sink) : Option Nat :=
  match s.beh.writeFailAt with
  | none => none
  | some l => if s.beh.writeOnce ∧ s.fired then none else some (l - s.count)

/-- the `write_all` calls of one `write_chunk`: all bytes, or a prefix and `Err` -/
def Sink.emit (s : Sink) (p : Piece) : Sink × Bool :=
  match s.budget with
  | none => ({ s with log := s.log ++ [⟨p, p.size⟩], count := s.count + p.size }, true)
  | some b =>
    if p.size ≤ b then ({ s with log := s.log ++ [⟨p, p.size⟩], count := s.count + p.size }, true)
    else ({ s with log := s.log ++ [⟨p, b⟩], count := s.count + b, fired := true }, false)

def Sink.flush (s : Sink) : Sink × Bool :=
  let fail := match s.beh.flushFailAt with
    | none => false
    | some k => if s.beh.flushOnce then s.flushes == k else k ≤ s.flushes
  ({ s with flushes := s.flushes + 1 }, !fail)

/-- chunks one after the other, stopping at the first failure (`?` after every `write_chunk`) -/
def Sink.emitChunks : Sink → List RChunk → Sink × Bool
  | s, [] => (s, true)
  | s, c :: cs =>
    match s.emit (.chunk c) with
    | (s', true) => Sink.emitChunks s' cs
    | (s', false) => (s', false)

/-- the completely accepted chunks, in order -/
def Sink.chunks (s : Sink) : List RChunk :=
  s.log.filterMap fun e => match e.piece with
    | .chunk c => if e.complete then some c else none
    | .sig => none

/-- the accepted bytes -/
def Emit.bytes (e : Emit) : Bytes :=
  match e.piece with
  | .sig => signatureBytes.take e.accepted
  | .chunk c => (chunkBytes c).take e.accepted

def Sink.bytes (s : Sink) : Bytes := (s.log.map Emit.bytes).flatten

def iendChunk : RChunk := ⟨tyIEND, []⟩

/-- number of IEND chunks whose emission was attempted (complete or cut by a sink failure) -/
def Sink.iendAttempts (s : Sink) : Nat := (s.log.filter fun e => e.piece == .chunk iendChunk).length

/-! ## Configuration -/

/-- `FrameControl` (common.rs:252-272); `dispose`/`blend` are the enum discriminants -/
structure FC where
  seq : Nat := 0
  w : Nat
  h : Nat
  x : Nat := 0
  y : Nat := 0
  delayNum : Nat := 1
  delayDen : Nat := 30
  dispose : Nat := 0
  blend : Nat := 0
deriving DecidableEq, Repr

def FC.toFctl (f : FC) : Spec.Fctl :=
  { seq := f.seq, width := f.w, height := f.h, x := f.x, y := f.y, delayNum := f.delayNum,
    delayDen := f.delayDen, dispose := f.dispose, blend := f.blend }

def FC.inRange (f : FC) : Prop :=
  f.seq < 2 ^ 32 ∧ f.w < 2 ^ 32 ∧ f.h < 2 ^ 32 ∧ f.x < 2 ^ 32 ∧ f.y < 2 ^ 32 ∧
  f.delayNum < 2 ^ 16 ∧ f.delayDen < 2 ^ 16 ∧ f.dispose ≤ 2 ∧ f.blend ≤ 1

instance (f : FC) : Decidable f.inRange := by unfold FC.inRange; infer_instance

/-- the metadata items written between IHDR and acTL (`encode_header`, :598-637) -/
structure Meta where
  phys : Option Bytes := none        -- 9 bytes
  srgb : Option Nat := none          -- rendering intent
  gama : Option Nat := none          -- scaled gamma
  chrm : Option Bytes := none        -- 32 bytes
  iccp : Option Bytes := none        -- chunk data as built by `write_iccp_chunk` ("_", 0, 0, zlib stream)
  exif : Option Bytes := none
deriving DecidableEq, Repr

/-- `srgb::substitute_gamma`, `substitute_chromaticities` (srgb.rs) -/
def substGamma : Nat := 45455
def substChrm : Bytes :=
  be32Bytes 31270 ++ be32Bytes 32900 ++ be32Bytes 64000 ++ be32Bytes 33000 ++
  be32Bytes 30000 ++ be32Bytes 60000 ++ be32Bytes 15000 ++ be32Bytes 6000

def optChunk (ty : Ty) : Option Bytes → List RChunk
  | some d => [⟨ty, d⟩]
  | none => []

/-- encoder.rs:598-637 -/
def preChunks (m : Meta) : List RChunk :=
  optChunk tyPHYS m.phys ++
  (match m.srgb with
   | some i =>
     [⟨tySRGB, [i.toUInt8]⟩] ++
     (if m.gama = some substGamma then [⟨tyGAMA, be32Bytes substGamma⟩] else []) ++
     (if m.chrm = some substChrm then [⟨tyCHRM, substChrm⟩] else [])
   | none =>
     optChunk tyGAMA (m.gama.map be32Bytes) ++ optChunk tyCHRM m.chrm ++ optChunk tyICCP m.iccp) ++
  optChunk tyEXIF m.exif

/-- `Info` + `Options` as far as the writers look at them -/
structure Cfg where
  width : Nat
  height : Nat
  color : Nat := 0
  depth : Nat := 8
  actl : Option (Nat × Nat) := none      -- num_frames, num_plays
  fctl : Option FC := none
  palette : Option Bytes := none
  trns : Option Bytes := none
  md : Meta := {}
  /-- tEXt*, zTXt*, iTXt* of the `Info`: what `EncodableTextChunk::encode` builds (`none`: it fails) -/
  texts : List (Option RChunk) := []
  sepDefImg : Bool := false
  validate : Bool := false
deriving DecidableEq, Repr

/-- type invariant of the Rust values (`u32` fields, enum discriminants) -/
def Cfg.inRange (c : Cfg) : Prop :=
  c.width < 2 ^ 32 ∧ c.height < 2 ^ 32 ∧ colorOk c.color = true ∧ depthOk c.depth = true ∧
  (∀ a ∈ c.actl, a.1 < 2 ^ 32 ∧ a.2 < 2 ^ 32) ∧ (∀ f ∈ c.fctl, f.inRange)

instance (c : Cfg) : Decidable c.inRange := by unfold Cfg.inRange; infer_instance

/-- `Some(a) > b.checked_sub(c)`: true when the subtraction underflows (`Some(_) > None`) -/
def gtCheckedSub (a b c : Nat) : Bool := if c ≤ b then decide (a > b - c) else true

/-- the frame-control part of `Encoder::with_info` (:185-198) -/
def checkFrameControl (cw ch : Nat) (f : FC) : Except Err FC :=
  if f.w = 0 then .error .zeroWidth
  else if f.h = 0 then .error .zeroHeight
  else if gtCheckedSub f.w cw f.x || gtCheckedSub f.h ch f.y then .error .outOfBounds
  else .ok { f with seq := 0 }

/-- `Encoder::with_info` (:173-210): the frame control has to lie inside the canvas and be non-empty;
    its sequence number is reset to 0.  (`Encoder::new` + the `Encoder` setters only produce
    configurations that pass unchanged, apart from a zero-sized canvas, which `write_header` refuses.) -/
def withInfo (c : Cfg) : Except Err Cfg :=
  if c.actl.isSome != c.fctl.isSome then .error .notAnimated else
  if c.actl.map (·.1) = some 0 then .error .zeroFrames else
  match c.fctl with
  | none => .ok c
  | some f =>
    match checkFrameControl c.width c.height f with
    | .error e => .error e
    | .ok f' => .ok { c with fctl := some f' }

/-- what `Encoder::set_animated` installs (:219-239) -/
def animatedCfg (c : Cfg) (frames plays : Nat) : Cfg :=
  { c with actl := some (frames, plays), fctl := some { w := c.width, h := c.height } }

/-! ## Chunks the writers build -/

def mkIhdr (c : Cfg) : RChunk :=
  ⟨tyIHDR, be32Bytes c.width ++ be32Bytes c.height ++ [c.depth.toUInt8, c.color.toUInt8, 0, 0, 0]⟩
def mkActl (n p : Nat) : RChunk := ⟨tyACTL, be32Bytes n ++ be32Bytes p⟩
def mkFctl (f : FC) : RChunk :=
  ⟨tyFCTL, be32Bytes f.seq ++ be32Bytes f.w ++ be32Bytes f.h ++ be32Bytes f.x ++ be32Bytes f.y ++
    be16Bytes f.delayNum ++ be16Bytes f.delayDen ++ [f.dispose.toUInt8, f.blend.toUInt8]⟩
def mkIdat (d : Bytes) : RChunk := ⟨tyIDAT, d⟩
def mkFdat (seq : Nat) (d : Bytes) : RChunk := ⟨tyFDAT, be32Bytes seq ++ d⟩

/-- `slice.chunks(n)` for `n > 0` (fuel: the list length) -/
def chunksOfAux (n : Nat) : Nat → Bytes → List Bytes
  | 0, _ => []
  | fuel+1, l => if l = [] then [] else l.take n :: chunksOfAux n fuel (l.drop n)
def chunksOf (n : Nat) (l : Bytes) : List Bytes := chunksOfAux n l.length l

def maxIdatChunkLen : Nat := 2 ^ 31 - 1      -- `u32::MAX >> 1` (:766)
def maxFdatChunkLen : Nat := 2 ^ 31 - 1 - 4  -- (:768)

/-! ## Writer -/

/-- the "filter every row and deflate" back-end of `write_image_data` (:808-863): zlib stream for
    `data` = `height` rows of `rowLen` bytes with filter unit `bpp` -/
structure Codec where
  encode : (bpp rowLen height : Nat) → Bytes → Bytes

structure WState where
  width : Nat
  height : Nat
  color : Nat
  depth : Nat
  actl : Option (Nat × Nat)
  fctl : Option FC
  hasPalette : Bool
  sepDefImg : Bool
  validate : Bool
  imagesWritten : Nat := 0
  animWritten : Nat := 0
  iendWritten : Bool := false
  sink : Sink := {}
deriving DecidableEq, Repr

def WState.emit (s : WState) (cs : List RChunk) : WState × Bool :=
  let (k, ok) := s.sink.emitChunks cs
  ({ s with sink := k }, ok)

/-- `write_iend` (:909-912): the flag is set BEFORE the chunk is written -/
def writeIend (s : WState) : WState × Bool :=
  ({ s with iendWritten := true }).emit [iendChunk]

/-- `Drop for Writer` (:1146-1152) -/
def dropW (s : WState) : WState :=
  if s.iendWritten then s else (writeIend s).1

/-- text chunks up to the first one whose `encode` fails -/
def textPrefix : List (Option RChunk) → List RChunk × Bool
  | [] => ([], true)
  | some c :: r => let (l, ok) := textPrefix r; (c :: l, ok)
  | none :: _ => ([], false)

/-- the chunks of `encode_header` after the signature (:588-663) -/
def headerChunks (c : Cfg) : List RChunk :=
  [mkIhdr c] ++ preChunks c.md ++
  (match c.actl with | some (n, p) => [mkActl n p] | none => []) ++
  optChunk tyPLTE c.palette ++ optChunk tyTRNS c.trns ++ (textPrefix c.texts).1

def initState (c : Cfg) (beh : SinkBehaviour) : WState :=
  { width := c.width, height := c.height, color := c.color, depth := c.depth, actl := c.actl,
    fctl := c.fctl, hasPalette := c.palette.isSome, sepDefImg := c.sepDefImg, validate := c.validate,
    sink := { beh } }

/-- `Encoder::write_header` = `Writer::new(..).init(..)` (:298-300, :548-582).  On an error the
    `Writer` value is dropped, so its `Drop` still writes an IEND. -/
def writeHeader (c : Cfg) (beh : SinkBehaviour) : WState × Res :=
  let s := initState c beh
  if c.width = 0 then (dropW s, .err .zeroWidth) else
  if c.height = 0 then (dropW s, .err .zeroHeight) else
  if combinationInvalid c.color c.depth then (dropW s, .err .invalidColor) else
  match s.sink.emit .sig with
  | (k, false) => (dropW { s with sink := k }, .err .io)
  | (k, true) =>
    match ({ s with sink := k }).emit (headerChunks c) with
    | (s', false) => (dropW s', .err .io)
    | (s', true) => if (textPrefix c.texts).2 then (s', .ok) else (dropW s', .err .badText)

/-- `Writer::write_chunk` (:674-683) -/
def writeChunk (s : WState) (ty : Ty) (data : Bytes) : WState × Res :=
  if data.length > 2 ^ 31 - 1 then (s, .err .writtenTooMuch) else
  match s.emit [⟨ty, data⟩] with
  | (s', true) => (s', .ok)
  | (s', false) => (s', .err .io)

/-- `Writer::write_text_chunk` (:685-687); `body` = what `encode` builds, `none` if it refuses -/
def writeTextChunk (s : WState) (body : Option RChunk) : WState × Res :=
  match body with
  | none => (s, .err .badText)
  | some c =>
    match s.emit [c] with
    | (s', true) => (s', .ok)
    | (s', false) => (s', .err .io)

/-- `validate_new_image` (:715-736) -/
def validateNewImage (s : WState) : Option Err :=
  if !s.validate then none else
  match s.actl with
  | none => if s.imagesWritten = 0 then none else some .endReached
  | some _ => if s.fctl.isSome then none else some .endReached

/-- `validate_first_image_rect` (:739-750): the first image is the default image and covers the canvas -/
def validateFirstImageRect (s : WState) : Option Err :=
  match s.fctl with
  | some f =>
    if s.imagesWritten = 0 ∧ ¬ (f.x = 0 ∧ f.y = 0 ∧ f.w = s.width ∧ f.h = s.height) then some .outOfBounds else none
  | none => none

/-- `validate_sequence_done` (:752-764) -/
def validateSequenceDone (s : WState) : Option Err :=
  if !s.validate then none else
  if (s.actl.isSome ∧ s.fctl.isSome) ∨ s.imagesWritten = 0 then some .missingFrames else none

/-- `increment_images_written` (:898-907) (`u64::saturating_add`) -/
def incrementImagesWritten (s : WState) : WState :=
  let s := { s with imagesWritten := min (s.imagesWritten + 1) (2 ^ 64 - 1) }
  match s.actl with
  | some (n, _) => if n ≤ s.animWritten then { s with fctl := none } else s
  | none => s

def skipFctlOnDefault (s : WState) : Bool := s.sepDefImg && s.imagesWritten == 0

/-- size of the next image: from the frame control if there is one, else the canvas (:779-787, :1233-1241) -/
def nextDims (s : WState) : Nat × Nat :=
  match s.fctl with
  | some f => (f.w, f.h)
  | none => (s.width, s.height)

def inLenOf (s : WState) (w : Nat) : Nat := rawRowLengthFromWidth s.color s.depth w - 1

/-- the fdAT loop (:881-888): every chunk takes the next sequence number (`wrapping_add`) -/
def fdatChunks : Nat → List Bytes → List RChunk × Nat
  | seq, [] => ([], seq)
  | seq, p :: ps => let (l, s') := fdatChunks ((seq + 1) % 2 ^ 32) ps; (mkFdat seq p :: l, s')

/-- sequence number after emitting the first `k` of the fdAT chunks -/
def seqAfter (seq k : Nat) : Nat := (seq + k) % 2 ^ 32

/-- the checks of `write_image_data` before anything is written (:772-800) and the first panic site
    (`data.chunks(in_len)`); on success: row length and height of the image -/
def imageChecks (s : WState) (data : Bytes) : Except Res (Nat × Nat) :=
  if s.color = 3 ∧ s.hasPalette = false then .error (.err .noPalette) else
  match validateNewImage s with
  | some e => .error (.err e)
  | none =>
  match validateFirstImageRect s with
  | some e => .error (.err e)
  | none =>
  let wh := nextDims s
  let inLen := inLenOf s wh.1
  let dataSize := if inLen * wh.2 < 2 ^ 64 then inLen * wh.2 else 2 ^ 64 - 1
  if dataSize ≠ data.length then .error (.err .imageBufferSize) else
  if inLen = 0 then .error (.panic .chunksZero) else .ok (inLen, wh.2)

/-- `write_zlib_encoded_idat` + `increment_images_written` (:867, :870, :879, :893); `parts`: the zlib
    stream cut into the payloads of the chunks (`write_image_data`: `chunks(MAX_IDAT_CHUNK_LEN)`) -/
def emitIdatImage (s : WState) (parts : List Bytes) : WState × Res :=
  match s.emit (parts.map mkIdat) with
  | (s', false) => (s', .err .io)
  | (s', true) => (incrementImagesWritten s', .ok)

/-- the fdAT loop (:881-888) + `increment_images_written`: one chunk at a time, the sequence number is
    bumped after each successful write; a failing write leaves the number of the failed chunk -/
def emitFdatImage (s1 : WState) (f : FC) (seq1 : Nat) (parts : List Bytes) : WState × Res :=
  let before := s1.sink.chunks.length
  match s1.emit (fdatChunks seq1 parts).1 with
  | (s2, false) =>
    let done := s2.sink.chunks.length - before
    ({ s2 with fctl := some { f with seq := seqAfter seq1 done } }, .err .io)
  | (s2, true) =>
    (incrementImagesWritten { s2 with fctl := some { f with seq := seqAfter seq1 parts.length } }, .ok)

/-- fcTL, then the image data as IDAT (first image, payloads `pi`) or fdAT (payloads `pf`) (:872-890) -/
def emitFrame (s : WState) (f : FC) (pi pf : List Bytes) : WState × Res :=
  match s.emit [mkFctl f] with
  | (s', false) => (s', .err .io)
  | (s', true) =>
    if s'.animWritten + 1 ≥ 2 ^ 32 then (s', .panic .animWrittenOverflow) else
    let seq1 := (f.seq + 1) % 2 ^ 32
    let s1 := { s' with fctl := some { f with seq := seq1 }, animWritten := s'.animWritten + 1 }
    if s1.imagesWritten = 0 then emitIdatImage s1 pi else emitFdatImage s1 f seq1 pf

/-- :865-893 -/
def emitImage (s : WState) (pi pf : List Bytes) : WState × Res :=
  match s.fctl with
  | none => emitIdatImage s pi
  | some f => if skipFctlOnDefault s then emitIdatImage s pi else emitFrame s f pi pf

/-- `Writer::write_image_data` (:771-896) -/
def writeImageData (E : Codec) (s : WState) (data : Bytes) : WState × Res :=
  match imageChecks s data with
  | .error r => (s, r)
  | .ok (inLen, h) =>
    let z := E.encode (bytesPerPixel s.color s.depth) inLen h data
    emitImage s (chunksOf maxIdatChunkLen z) (chunksOf maxFdatChunkLen z)

/-! ### Frame setters (:945-1087) -/

def withFctl (s : WState) (k : FC → WState × Res) : WState × Res :=
  match s.fctl with
  | some f => k f
  | none => (s, .err .notAnimated)

def setFrameDelay (s : WState) (n d : Nat) : WState × Res :=
  withFctl s fun f => ({ s with fctl := some { f with delayNum := n, delayDen := d } }, .ok)

def setFrameDimension (s : WState) (w h : Nat) : WState × Res :=
  withFctl s fun f =>
    if gtCheckedSub w s.width f.x || gtCheckedSub h s.height f.y then (s, .err .outOfBounds)
    else if w = 0 then (s, .err .zeroWidth)
    else if h = 0 then (s, .err .zeroHeight)
    else ({ s with fctl := some { f with w := w, h := h } }, .ok)

def setFramePosition (s : WState) (x y : Nat) : WState × Res :=
  withFctl s fun f =>
    if gtCheckedSub x s.width f.w || gtCheckedSub y s.height f.h then (s, .err .outOfBounds)
    else ({ s with fctl := some { f with x := x, y := y } }, .ok)

def resetFrameDimension (s : WState) : WState × Res :=
  withFctl s fun f =>
    if s.width < f.x ∨ s.height < f.y then (s, .panic .resetDimUnderflow)
    else ({ s with fctl := some { f with w := s.width - f.x, h := s.height - f.y } }, .ok)

def resetFramePosition (s : WState) : WState × Res :=
  withFctl s fun f => ({ s with fctl := some { f with x := 0, y := 0 } }, .ok)

def setBlendOp (s : WState) (b : Nat) : WState × Res :=
  withFctl s fun f => ({ s with fctl := some { f with blend := b } }, .ok)

def setDisposeOp (s : WState) (d : Nat) : WState × Res :=
  withFctl s fun f => ({ s with fctl := some { f with dispose := d } }, .ok)

/-- `Writer::finish` (:1135-1143): whatever happens, `self` is dropped at the end -/
def finishW (s : WState) : WState × Res :=
  match validateSequenceDone s with
  | some e => (dropW s, .err e)
  | none =>
    match writeIend s with
    | (s', false) => (dropW s', .err .io)
    | (s', true) =>
      match s'.sink.flush with
      | (k, false) => (dropW { s' with sink := k }, .err .io)
      | (k, true) => (dropW { s' with sink := k }, .ok)

/-! ## Operations of the whole-image API -/

inductive Op
  | image (data : Bytes)
  | chunk (ty : Ty) (data : Bytes)
  | text (body : Option RChunk)
  | setDelay (n d : Nat)
  | setDim (w h : Nat)
  | setPos (x y : Nat)
  | resetDim
  | resetPos
  | setBlend (b : Nat)
  | setDispose (d : Nat)
deriving DecidableEq, Repr

def writerStep (E : Codec) (s : WState) : Op → WState × Res
  | .image d => writeImageData E s d
  | .chunk ty d => writeChunk s ty d
  | .text b => writeTextChunk s b
  | .setDelay n d => setFrameDelay s n d
  | .setDim w h => setFrameDimension s w h
  | .setPos x y => setFramePosition s x y
  | .resetDim => resetFrameDimension s
  | .resetPos => resetFramePosition s
  | .setBlend b => setBlendOp s b
  | .setDispose d => setDisposeOp s d

/-- a panic unwinds: the remaining operations do not run (the `Writer` is dropped by the unwinding) -/
def runOps (E : Codec) : WState → List Op → WState × List Res
  | s, [] => (s, [])
  | s, op :: ops =>
    match writerStep E s op with
    | (s', .panic p) => (s', [.panic p])
    | (s', r) => let (s'', rs) := runOps E s' ops; (s'', r :: rs)

/-- how the `Writer` ends: `finish()` or going out of scope -/
inductive Final
  | finish
  | drop
deriving DecidableEq, Repr

def finalStep (s : WState) : Final → WState × Res
  | .finish => finishW s
  | .drop => (dropW s, .ok)

structure Run where
  state : WState
  header : Res
  results : List Res := []
  final : Option Res := none
deriving DecidableEq, Repr

def anyPanic (rs : List Res) : Bool := rs.any Res.isPanic

/-- `write_header`, the operations, then `finish`/drop -/
def runWriter (E : Codec) (c : Cfg) (beh : SinkBehaviour) (ops : List Op) (fin : Final) : Run :=
  match writeHeader c beh with
  | (s, .ok) =>
    let (s', rs) := runOps E s ops
    if anyPanic rs then { state := dropW s', header := .ok, results := rs }
    else
      let (s'', r) := finalStep s' fin
      { state := s'', header := .ok, results := rs, final := some r }
  | (s, r) => { state := s, header := r }


/-! ## Streaming writer -/

/-- outcome of an internal call that returns a value -/
inductive Out (α : Type)
  | ok (a : α)
  | err (e : Err)
  | panic (p : PanicSite)

def Out.toRes {α : Type} : Out α → Res
  | .ok _ => .ok
  | .err e => .err e
  | .panic p => .panic p

/-- operations of a `flate2::write::ZlibEncoder` -/
inductive ZOp
  | write (d : Bytes)
  | flush                -- sync flush
  | finish
deriving DecidableEq, Repr

/-- a deterministic streaming compressor: the bytes an operation produces are a function of the
    operations performed before it.  `row bpp prev cur` = filter type byte followed by the filtered
    row, what `StreamWriter::write` feeds to it for a complete line (:1716-1731). -/
structure ZCodec where
  out : List ZOp → ZOp → Bytes
  row : (bpp : Nat) → (prev cur : Bytes) → Bytes

/-- `ChunkWriter` (:1194-1200); `index = buf.length`, `buffer.len() = cap` -/
structure CW where
  w : WState
  cap : Nat
  buf : Bytes := []
  curr : Ty
deriving DecidableEq, Repr

/-- the largest chunk buffer: `CAP = u32::MAX as usize >> 1` (:1210) -/
def chunkCap : Nat := 2 ^ 31 - 1
/-- the smallest chunk buffer: room for a sequence number and one byte, `CAP.min(buf_len).max(5)` (:1211) -/
def streamMinBuffer : Nat := 5
/-- `DEFAULT_BUFFER_LENGTH` (:534): `stream_writer()` / `into_stream_writer()` are the `_with_size` forms with
    this size (:1097-1118) -/
def defaultBufferLength : Nat := 4096

/-- the kind of data chunk of the next image: like `write_image_data`, the first image is an IDAT and
    so is every image written after the animation is complete (:1211-1215, :1259-1263) -/
def chunkKind (w : WState) : Ty :=
  if w.imagesWritten = 0 ∨ w.fctl = none then tyIDAT else tyFDAT

/-- `ChunkWriter::new` (:1203-1223): the buffer has room for a sequence number and one byte -/
def CW.new (w : WState) (bufLen : Nat) : CW :=
  { w, cap := max (min chunkCap bufLen) streamMinBuffer, curr := chunkKind w }

/-- `next_frame_info` (:1231-1249): `in_len.checked_mul(height).unwrap_or(usize::MAX)` -/
def CW.nextFrameInfo (c : CW) : Nat × Nat :=
  let (w, h) := nextDims c.w
  let inLen := inLenOf c.w w
  (inLen, if inLen * h < 2 ^ 64 then inLen * h else 2 ^ 64 - 1)

/-- `ChunkWriter::write_header` (:1253-1277): an fcTL (unless skipped for the default image) takes the
    next sequence number (`wrapping_add`) and counts as an animation frame (`animation_written += 1`) -/
def CW.writeHeader (c : CW) : CW × Res :=
  if c.buf.length ≠ 0 then (c, .panic .assertIndexZero) else
  let c := { c with curr := chunkKind c.w }
  match c.w.fctl with
  | none => (c, .ok)
  | some f =>
    if skipFctlOnDefault c.w then (c, .ok) else
    match c.w.emit [mkFctl f] with
    | (w', false) => ({ c with w := w' }, .err .io)
    | (w', true) =>
      if w'.animWritten + 1 ≥ 2 ^ 32 then ({ c with w := w' }, .panic .animWrittenOverflow)
      else ({ c with w := { w' with fctl := some { f with seq := (f.seq + 1) % 2 ^ 32 },
                                     animWritten := w'.animWritten + 1 } }, .ok)

/-- `set_fctl` (:1282-1291): nothing happens once the animation is complete -/
def CW.setFctl (c : CW) (f : FC) : CW :=
  match c.w.fctl with
  | some cur => { c with w := { c.w with fctl := some { f with seq := cur.seq } } }
  | none => c

/-- `if let Some(fctl) = self.fctl { wrt.set_fctl(fctl) }` (:1684-1686) -/
def CW.setFctlOpt (c : CW) (f : Option FC) : CW :=
  match f with
  | some f => c.setFctl f
  | none => c

/-- `flush_inner` (:1294-1306) -/
def CW.flushInner (c : CW) : CW × Res :=
  if c.buf.length > 0 then
    match c.w.emit [⟨c.curr, c.buf⟩] with
    | (w', true) => ({ c with w := w', buf := [] }, .ok)
    | (w', false) => ({ c with w := w' }, .err .io)
  else (c, .ok)

/-- start of a chunk (`index == 0`, :1316-1325): every fdAT chunk starts with the next sequence
    number (`wrapping_add`); an IDAT chunk never does -/
def CW.startChunk (c : CW) : CW :=
  if c.buf.length = 0 ∧ c.curr = tyFDAT then
    match c.w.fctl with
    | some f => { c with buf := be32Bytes f.seq, w := { c.w with fctl := some { f with seq := (f.seq + 1) % 2 ^ 32 } } }
    | none => c
  else c

/-- copy as much as fits, emit the chunk when the buffer is full (:1327-1340) -/
def CW.append (c : CW) (data : Bytes) : CW × Out Nat :=
  let written := min data.length (c.cap - c.buf.length)
  let c := { c with buf := c.buf ++ data.take written }
  if c.buf.length = c.cap then
    match c.flushInner with
    | (c', .ok) => (c', .ok written)
    | (c', .err e) => (c', .err e)
    | (c', .panic p) => (c', .panic p)
  else (c, .ok written)

/-- `impl Write for ChunkWriter`: `write` (:1310-1341) -/
def CW.write (c : CW) (data : Bytes) : CW × Out Nat :=
  if data = [] then (c, .ok 0) else c.startChunk.append data

/-- `flate2::write::ZlibEncoder<ChunkWriter>`: the compressor (its history) and flate2's buffer of
    produced but not yet forwarded output (`zio::Writer::buf`) -/
structure ZEnc where
  cw : CW
  hist : List ZOp := []
  pending : Bytes := []
deriving DecidableEq, Repr

/-- `zio::Writer::dump`: forward the buffered output; `Ok(0)` from the inner writer is `WriteZero` -/
def ZEnc.dumpAux : Nat → ZEnc → ZEnc × Res
  | 0, z => (z, .ok)
  | fuel+1, z =>
    if z.pending = [] then (z, .ok) else
    match z.cw.write z.pending with
    | (cw', .ok n) =>
      if n = 0 then ({ z with cw := cw' }, .err .writeZero)
      else ZEnc.dumpAux fuel { z with cw := cw', pending := z.pending.drop n }
    | (cw', .err e) => ({ z with cw := cw' }, .err e)
    | (cw', .panic p) => ({ z with cw := cw' }, .panic p)

def ZEnc.dump (z : ZEnc) : ZEnc × Res := ZEnc.dumpAux (z.pending.length + 1) z

def ZEnc.finished (z : ZEnc) : Bool := z.hist.contains ZOp.finish

/-- `write_all` on the encoder (non-empty data): forward what is pending, then compress -/
def ZEnc.writeAll (Z : ZCodec) (z : ZEnc) (d : Bytes) : ZEnc × Res :=
  if d = [] then (z, .ok) else
  match z.dump with
  | (z', .ok) => ({ z' with pending := z'.pending ++ Z.out z'.hist (.write d), hist := z'.hist ++ [.write d] }, .ok)
  | r => r

/-- `ZlibEncoder::flush`: sync flush, forward everything, flush the chunk writer -/
def ZEnc.flush (Z : ZCodec) (z : ZEnc) : ZEnc × Res :=
  let z := { z with pending := z.pending ++ Z.out z.hist ZOp.flush, hist := z.hist ++ [ZOp.flush] }
  match z.dump with
  | (z', .ok) => let (cw', r) := z'.cw.flushInner; ({ z' with cw := cw' }, r)
  | r => r

/-- `zio::Writer::finish`: forward, emit the final block and trailer (once), forward -/
def ZEnc.finish (Z : ZCodec) (z : ZEnc) : ZEnc × Res :=
  match z.dump with
  | (z', .ok) =>
    if z'.finished then (z', .ok) else
    ({ z' with pending := z'.pending ++ Z.out z'.hist ZOp.finish, hist := z'.hist ++ [ZOp.finish] }).dump
  | r => r

/-- dropping a `ChunkWriter` (:1348-1352), then — if it owns the `Writer` — the `Writer` -/
def CW.drop (c : CW) (owned : Bool) : WState × Res :=
  match c.flushInner with
  | (c', .panic p) => (c'.w, .panic p)
  | (c', _) => (if owned then dropW c'.w else c'.w, .ok)

/-- dropping a `ZlibEncoder`: `let _ = self.finish()`, then the inner `ChunkWriter` -/
def ZEnc.drop (Z : ZCodec) (z : ZEnc) (owned : Bool) : WState × Res :=
  match z.finish Z with
  | (z', .panic p) => (z'.cw.w, .panic p)
  | (z', _) => z'.cw.drop owned

/-- `Wrapper` (:1370-1376) -/
inductive Wrap
  | chunk (c : CW)
  | zlib (z : ZEnc)
  | unrecoverable
  | none
deriving DecidableEq, Repr

/-- `StreamWriter` (:1395-1415).  `released`: the `Writer` after the chunk writer that held it was
    dropped (for an owned `Writer` this includes the `Writer`'s own drop). -/
structure SW where
  wr : Wrap
  owned : Bool
  bpp : Nat
  prevBuf : Bytes
  curBuf : Bytes            -- `curr_buf`: one row of the current frame
  index : Nat := 0
  lineLen : Nat
  toWrite : Nat
  width : Nat
  height : Nat
  fctl : Option FC
  released : Option WState := none
deriving DecidableEq, Repr

def Wrap.drop (Z : ZCodec) (wr : Wrap) (owned : Bool) : Option WState × Res :=
  match wr with
  | .chunk c => let (w, r) := c.drop owned; (some w, r)
  | .zlib z => let (w, r) := z.drop Z owned; (some w, r)
  | _ => (Option.none, .ok)

/-- put the released writer in place when a wrapper has been dropped -/
def SW.release (s : SW) (w : Option WState) : SW :=
  match w with
  | some w => { s with released := some w }
  | none => s

/-- the checks of `StreamWriter::new` before anything is written (:1420-1424) -/
def streamChecks (w : WState) : Option Err :=
  if w.color = 3 ∧ w.hasPalette = false then some .noPalette else
  match validateNewImage w with
  | some e => some e
  | none => validateFirstImageRect w

/-- `StreamWriter::new` (:1419-1460).  The row buffers are as long as the first frame is wide.  On an
    error — and when a panic unwinds — the chunk writer (and an owned `Writer`) is dropped. -/
def SW.new (w : WState) (owned : Bool) (bufLen : Nat) : Sum SW WState × Res :=
  match streamChecks w with
  | some e => (.inr (if owned then dropW w else w), .err e)
  | none =>
  let cw := CW.new w bufLen
  let info := cw.nextFrameInfo
  match cw.writeHeader with
  | (cw', .ok) =>
    (.inl { wr := .zlib { cw := cw' }, owned, bpp := bytesPerPixel w.color w.depth,
            prevBuf := List.replicate info.1 0, curBuf := List.replicate info.1 0,
            lineLen := info.1, toWrite := info.2, width := w.width, height := w.height, fctl := w.fctl }, .ok)
  | (cw', r) => (.inr (cw'.drop owned).1, r)

/-- `take()` a `Zlib` wrapper and finish its stream (:1651-1660, :1722-1732).  `ZlibEncoder::finish(self)`
    consumes the encoder: on an error it is dropped, with the chunk writer and an owned `Writer`. -/
def SW.endZlib (Z : ZCodec) (s : SW) : SW × Res :=
  match s.wr with
  | .zlib z =>
    match z.finish Z with
    | (z', .ok) => ({ s with wr := .chunk z'.cw }, .ok)
    | (z', .panic p) => ({ s with wr := .zlib z' }, .panic p)
    | (z', .err e) =>
      let (w, r) := z'.drop Z s.owned
      match r with
      | .panic p => ({ s with wr := .unrecoverable, released := some w }, .panic p)
      | _ => ({ s with wr := .unrecoverable, released := some w }, .err e)
  | _ => (s, .ok)

/-- `finish_image` (:1649-1666): end the compressed stream, flush the last chunk, count the image -/
def SW.finishImage (Z : ZCodec) (s : SW) : SW × Res :=
  match s.endZlib Z with
  | (s, .ok) =>
    match s.wr with
    | .chunk cw =>
      match cw.flushInner with
      | (cw', .ok) => ({ s with wr := .chunk { cw' with w := incrementImagesWritten cw'.w } }, .ok)
      | (cw', r) => ({ s with wr := .chunk cw' }, r)
    | _ => (s, .ok)
  | r => r

/-- `new_frame` (:1671-1709): the frame header is written BEFORE the row geometry is changed; the frame starts
    at the beginning of its first row (`self.index = 0`, repair c724280: a row of the last frame whose write
    failed is not carried over) -/
def SW.newFrame (s : SW) : SW × Res :=
  match s.wr with
  | .unrecoverable => (s, .err .unrecoverable)
  | .zlib _ => (s, .panic .unreachableWrapper)
  | .none => (s, .panic .unreachableWrapper)
  | .chunk cw =>
    match cw.flushInner with
    | (cw, .panic p) => ({ s with wr := .chunk cw }, .panic p)
    | (cw, .err e) => ({ s with wr := .chunk cw }, .err e)
    | (cw, .ok) =>
      match validateNewImage cw.w with
      | some e => ({ s with wr := .chunk cw }, .err e)
      | none =>
        let cw := cw.setFctlOpt s.fctl
        let info := cw.nextFrameInfo
        match cw.writeHeader with
        | (cw, .ok) =>
          ({ s with wr := .zlib { cw }, index := 0, lineLen := info.1, toWrite := info.2,
                    prevBuf := List.replicate info.1 0,
                    curBuf := (s.curBuf ++ List.replicate info.1 0).take info.1 }, .ok)
        | (cw, r) => ({ s with wr := .chunk cw }, r)

/-- overwrite the bytes of `buf` from position `i` with `d` (`data.read(&mut buf[i..])`) -/
def overwrite (buf : Bytes) (i : Nat) (d : Bytes) : Bytes := buf.take i ++ d ++ buf.drop (i + d.length)

/-- the part of `write` that starts the next image when the previous one is complete (:1720-1737) -/
def SW.beginIfDone (Z : ZCodec) (s : SW) : SW × Res :=
  if s.toWrite = 0 then
    match s.wr with
    | .unrecoverable => (s, .panic .unreachableWrapper)
    | .none => (s, .panic .unreachableWrapper)
    | _ =>
      match s.endZlib Z with
      | (s1, .ok) => s1.newFrame
      | r => r
  else (s, .ok)

/-- a complete row: filter, hand to the compressor, swap the buffers; after the last row of the
    image, `finish_image` (:1743-1767) -/
def SW.rowDone (Z : ZCodec) (s : SW) : SW × Res :=
  match s.wr with
  | .zlib z =>
    let r := Z.row s.bpp s.prevBuf s.curBuf
    match z.writeAll Z (r.take 1) with
    | (z, .ok) =>
      match z.writeAll Z (r.drop 1) with
      | (z, .ok) =>
        let s := { s with wr := .zlib z, prevBuf := s.curBuf, curBuf := s.prevBuf, index := 0 }
        if s.toWrite = 0 then s.finishImage Z else (s, .ok)
      | (z, r) => ({ s with wr := .zlib z }, r)
    | (z, r) => ({ s with wr := .zlib z }, r)
  | _ => (s, .panic .unreachableWrapper)

/-- `impl Write for StreamWriter`: `write` (:1711-1770) -/
def SW.write (Z : ZCodec) (s : SW) (data : Bytes) : SW × Out Nat :=
  if s.wr = .unrecoverable then (s, .err .unrecoverable) else
  if data = [] then (s, .ok 0) else
  match s.beginIfDone Z with
  | (s, .err e) => (s, .err e)
  | (s, .panic p) => (s, .panic p)
  | (s, .ok) =>
    -- `self.curr_buf[..self.line_len][self.index..]`
    if s.lineLen > s.curBuf.length ∨ s.index > s.lineLen then (s, .panic .rowSlice) else
    let written := min data.length (s.lineLen - s.index)
    if written > s.toWrite then (s, .panic .toWriteUnderflow) else
    let s := { s with curBuf := overwrite s.curBuf s.index (data.take written),
                      index := s.index + written, toWrite := s.toWrite - written }
    if s.index = s.lineLen then
      match s.rowDone Z with
      | (s, .ok) => (s, .ok written)
      | (s, .err e) => (s, .err e)
      | (s, .panic p) => (s, .panic p)
    else (s, .ok written)

/-- `Write::write_all` (std): repeat `write`; `Ok(0)` is `WriteZero` -/
def SW.writeAllAux (Z : ZCodec) : Nat → SW → Bytes → SW × Res
  | 0, s, _ => (s, .ok)
  | fuel+1, s, d =>
    if d = [] then (s, .ok) else
    match s.write Z d with
    | (s', .ok n) => if n = 0 then (s', .err .writeZero) else SW.writeAllAux Z fuel s' (d.drop n)
    | (s', .err e) => (s', .err e)
    | (s', .panic p) => (s', .panic p)

def SW.writeAll (Z : ZCodec) (s : SW) (d : Bytes) : SW × Res := SW.writeAllAux Z (d.length + 1) s d

/-- `impl Write for StreamWriter`: `flush` (:1772-1790) -/
def SW.flush (Z : ZCodec) (s : SW) : SW × Res :=
  let r : SW × Res := match s.wr with
    | .zlib z => let (z', r) := z.flush Z; ({ s with wr := .zlib z' }, r)
    | .chunk c => let (c', r) := c.flushInner; ({ s with wr := .chunk c' }, r)
    | _ => (s, .err .unrecoverable)
  match r with
  | (s, .ok) => if s.index > 0 then (s, .err .writtenTooMuch) else (s, .ok)
  | r => r

/-- `Drop for StreamWriter` (:1793-1797) followed by the drop of its fields -/
def SW.drop (Z : ZCodec) (s : SW) : SW × Res :=
  match s.flush Z with
  | (s, .panic p) => (s, .panic p)
  | (s, _) =>
    let (w, r) := s.wr.drop Z s.owned
    (({ s with wr := .none }).release w, r)

/-- the `Wrapper::Chunk` arm of `finish` (:1634-1641): sequence validation and, for an owned `Writer`,
    the IEND chunk and the sink's `flush` — reported, not left to `Drop`; then the chunk writer is
    dropped (an owned `Writer` with it: no second IEND, the flag is set) -/
def SW.finishChunk (s : SW) (cw : CW) : SW × Res :=
  let fin (w : WState) (r : Res) : SW × Res :=
    let (w', _) := ({ cw with w := w }).drop s.owned
    ({ s with wr := .none, released := some w' }, r)
  match validateSequenceDone cw.w with
  | some e => fin cw.w (.err e)
  | none =>
    if s.owned then
      match writeIend cw.w with
      | (w1, false) => fin w1 (.err .io)
      | (w1, true) =>
        match w1.sink.flush with
        | (k, false) => fin { w1 with sink := k } (.err .io)
        | (k, true) => fin { w1 with sink := k } .ok
    else fin cw.w .ok

/-- `StreamWriter::finish` (:1627-1645); the returned state is the one after `self` has been dropped -/
def SW.finish (Z : ZCodec) (s : SW) : SW × Res :=
  if s.toWrite > 0 then
    match s.drop Z with
    | (s, .panic p) => (s, .panic p)
    | (s, _) => (s, .err .missingData)
  else
    match s.flush Z with
    | (s, .panic p) => (s, .panic p)
    | (s, .err e) =>
      match s.drop Z with
      | (s, .panic p) => (s, .panic p)
      | (s, _) => (s, .err e)
    | (s, .ok) =>
      match s.wr with
      | .chunk cw => s.finishChunk cw
      | _ =>
        -- `self.writer.take()` of anything else is just dropped; `Drop for StreamWriter` then sees `None`
        let (w, r) := s.wr.drop Z s.owned
        let s := ({ s with wr := .none }).release w
        match r with
        | .panic p => (s, .panic p)
        | _ => (s, .ok)

/-! ### Frame setters shared by both writers: the `StreamWriter` ones work on its own copy (:1481-1619) -/

inductive SetOp
  | delay (n d : Nat)
  | dim (w h : Nat)
  | pos (x y : Nat)
  | resetDim
  | resetPos
  | blend (b : Nat)
  | dispose (d : Nat)
deriving DecidableEq, Repr

def setFc (cw ch : Nat) (fc : Option FC) (o : SetOp) : Option FC × Res :=
  match fc with
  | none => (none, .err .notAnimated)
  | some f =>
    match o with
    | .delay n d => (some { f with delayNum := n, delayDen := d }, .ok)
    | .dim w h =>
      if gtCheckedSub w cw f.x || gtCheckedSub h ch f.y then (fc, .err .outOfBounds)
      else if w = 0 then (fc, .err .zeroWidth)
      else if h = 0 then (fc, .err .zeroHeight)
      else (some { f with w := w, h := h }, .ok)
    | .pos x y =>
      if gtCheckedSub x cw f.w || gtCheckedSub y ch f.h then (fc, .err .outOfBounds)
      else (some { f with x := x, y := y }, .ok)
    | .resetDim =>
      if cw < f.x ∨ ch < f.y then (fc, .panic .resetDimUnderflow)
      else (some { f with w := cw - f.x, h := ch - f.y }, .ok)
    | .resetPos => (some { f with x := 0, y := 0 }, .ok)
    | .blend b => (some { f with blend := b }, .ok)
    | .dispose d => (some { f with dispose := d }, .ok)

inductive SOp
  | write (d : Bytes)      -- `write_all`
  | flush
  | set (o : SetOp)
deriving DecidableEq, Repr

def streamStep (Z : ZCodec) (s : SW) : SOp → SW × Res
  | .write d => s.writeAll Z d
  | .flush => s.flush Z
  | .set o => let (fc, r) := setFc s.width s.height s.fctl o; ({ s with fctl := fc }, r)

def runSOps (Z : ZCodec) : SW → List SOp → SW × List Res
  | s, [] => (s, [])
  | s, op :: ops =>
    match streamStep Z s op with
    | (s', .panic p) => (s', [.panic p])
    | (s', r) => let (s'', rs) := runSOps Z s' ops; (s'', r :: rs)

/-- the `Writer` a stream writer leaves behind (released by a drop, or still inside the wrapper
    when a panic cut the run short) -/
def SW.writerState (s : SW) (fallback : WState) : WState :=
  match s.released with
  | some w => w
  | none =>
    match s.wr with
    | .chunk c => c.w
    | .zlib z => z.cw.w
    | _ => fallback

/-- one stream-writer session on a `Writer`: `new`, the operations, `finish()` or drop.
    Results: of `new`, of every operation, of the end.  A panic unwinds: the `StreamWriter` is
    dropped like any other value (a second panic inside that drop aborts the process; it is listed
    as a second `panic` result). -/
def streamSession (Z : ZCodec) (w : WState) (owned : Bool) (size : Nat) (ops : List SOp) (fin : Final) :
    WState × List Res :=
  match SW.new w owned size with
  | (.inr w', r) => (w', [r])
  | (.inl s, r0) =>
    let (s1, rs) := runSOps Z s ops
    if anyPanic rs then
      let (s2, r) := s1.drop Z
      (s2.writerState w, r0 :: rs ++ (if r.isPanic then [r] else []))
    else
      let (s2, r) := match fin with
        | .finish => s1.finish Z
        | .drop => s1.drop Z
      (s2.writerState w, r0 :: rs ++ [r])

/-! ## Programs over both APIs -/

inductive Step
  | op (o : Op)
  | stream (size : Nat) (ops : List SOp) (fin : Final)     -- `writer.stream_writer_with_size(size)` (borrowed)
deriving DecidableEq, Repr

inductive PFinal
  | finish
  | drop
  | intoStream (size : Nat) (ops : List SOp) (fin : Final) -- `writer.into_stream_writer_with_size(size)` (owned)
deriving DecidableEq, Repr

def runSteps (E : Codec) (Z : ZCodec) : WState → List Step → WState × List (List Res)
  | s, [] => (s, [])
  | s, .op o :: rest =>
    match writerStep E s o with
    | (s', .panic p) => (s', [[.panic p]])
    | (s', r) => let (s'', rs) := runSteps E Z s' rest; (s'', [r] :: rs)
  | s, .stream size ops fin :: rest =>
    let (s', rs) := streamSession Z s false size ops fin
    if anyPanic rs then (s', [rs])
    else let (s'', rss) := runSteps E Z s' rest; (s'', rs :: rss)

structure ProgRun where
  state : WState
  header : Res
  results : List (List Res) := []
  final : List Res := []
deriving DecidableEq, Repr

def runProg (E : Codec) (Z : ZCodec) (c : Cfg) (beh : SinkBehaviour) (steps : List Step) (fin : PFinal) : ProgRun :=
  match writeHeader c beh with
  | (s, .ok) =>
    let (s', rss) := runSteps E Z s steps
    if rss.any anyPanic then { state := dropW s', header := .ok, results := rss }
    else
      match fin with
      | .finish => let (s'', r) := finishW s'; { state := s'', header := .ok, results := rss, final := [r] }
      | .drop => { state := dropW s', header := .ok, results := rss, final := [.ok] }
      | .intoStream size ops f =>
        let (s'', rs) := streamSession Z s' true size ops f
        { state := s'', header := .ok, results := rss, final := rs }
  | (s, r) => { state := s, header := r }

end Png.Enc
