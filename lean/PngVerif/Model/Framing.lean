import PngVerif.Model.Util
import PngVerif.Model.Basic
import PngVerif.Model.Filter
import PngVerif.Generated.Params
/-!
# `StreamingDecoder` (`src/decoder/stream.rs:560-1850`): the byte-level framing state machine

Implementation-shaped model of `update` / `next_state` / `parse_u32` / `reserve_current_chunk` /
`parse_chunk` and every per-chunk parser, including the order of their checks, what they charge to
`Limits`, which errors are "benign", and when the decoder becomes poisoned (`state = None`).

Outside image-png, entering as parameters (`Cfg`): the CRC function, the inflater, UTF-8 validity.
The inflater is used through its contract (`Cfg.InflateOk`): `inflate z` is *all* output decodable
from the prefix `z` of the zlib stream (fdeflate is eager), a prefix of a non-corrupt stream is not
corrupt and yields a prefix of the output, and bytes after a complete stream are ignored.  The model
accumulates the compressed bytes of the current data-chunk sequence (`zin`), appends what is newly
decodable to `out` at every `ImageData` step (`zemitted` = how much of the current stream's output
was already handed out) and requires a complete stream at the flush (`ImageDataFlushed`).  How many
bytes one `decompress` call consumes (the real one may stop early when its output buffer is full) is
not modelled: the `ImageData` step always takes `min(len, remaining)`.  How the output is split over
`ImageData` events (and how many there are) depends on the delivery and is exactly what property C04
declares unobservable.

Proofs: `Proofs/Framing.lean` (progress/fuel of `update`: C07; delivery independence of `feed`: C04).
-/
namespace Png.Framing
open Png

abbrev ChunkType := Nat   -- the four type bytes as a big-endian number

def mkType (a b c d : Char) : ChunkType := ((a.toNat * 256 + b.toNat) * 256 + c.toNat) * 256 + d.toNat
def IHDR := mkType 'I' 'H' 'D' 'R'
def PLTE := mkType 'P' 'L' 'T' 'E'
def IDAT := mkType 'I' 'D' 'A' 'T'
def IEND := mkType 'I' 'E' 'N' 'D'
def tRNS := mkType 't' 'R' 'N' 'S'
def bKGD := mkType 'b' 'K' 'G' 'D'
def pHYs := mkType 'p' 'H' 'Y' 's'
def cHRM := mkType 'c' 'H' 'R' 'M'
def gAMA := mkType 'g' 'A' 'M' 'A'
def sRGB := mkType 's' 'R' 'G' 'B'
def iCCP := mkType 'i' 'C' 'C' 'P'
def cICP := mkType 'c' 'I' 'C' 'P'
def mDCV := mkType 'm' 'D' 'C' 'V'
def cLLI := mkType 'c' 'L' 'L' 'I'
def eXIf := mkType 'e' 'X' 'I' 'f'
def tEXt := mkType 't' 'E' 'X' 't'
def zTXt := mkType 'z' 'T' 'X' 't'
def iTXt := mkType 'i' 'T' 'X' 't'
def sBIT := mkType 's' 'B' 'I' 'T'
def acTL := mkType 'a' 'c' 'T' 'L'
def fcTL := mkType 'f' 'c' 'T' 'L'
def fdAT := mkType 'f' 'd' 'A' 'T'

def typeBytes (t : ChunkType) : Bytes := be32Bytes t
def typeName (t : ChunkType) : String := String.ofList ((typeBytes t).map fun b => Char.ofNat b.toNat)
/-- `chunk::is_critical` (chunk.rs:67): bit 5 of the first type byte is clear -/
def isCritical (t : ChunkType) : Bool := (t / 16777216) % 64 < 32

/-- what lives outside image-png -/
structure Cfg where
  crc : Bytes → Nat
  /-- incremental inflate: ALL output decodable from this prefix of the zlib stream, and whether the
      stream is complete (final block and 4-byte trailer seen; bytes after that are ignored);
      `none` = corrupt -/
  inflate : Bytes → Option (Bytes × Bool)
  /-- `fdeflate::decompress_to_vec_bounded`: `ok out` | `corrupt` | `tooLarge` -/
  inflateBounded : Bytes → Nat → Except Bool Bytes   -- error `true` = output too large, `false` = corrupt
  utf8Ok : Bytes → Bool

/-- contract of `Cfg.inflate` (a hypothesis of theorems, never an axiom) -/
structure Cfg.InflateOk (cfg : Cfg) : Prop where
  /-- prefix-monotone: a prefix of a non-corrupt input is not corrupt and yields a prefix of the output -/
  mono : ∀ (a b o2 : Bytes) (d2 : Bool), cfg.inflate (a ++ b) = some (o2, d2) →
    ∃ o1 d1, cfg.inflate a = some (o1, d1) ∧ o1 <+: o2
  /-- done-stable: bytes after a complete stream are ignored -/
  done : ∀ (a b o : Bytes), cfg.inflate a = some (o, true) → cfg.inflate (a ++ b) = some (o, true)

structure Options where
  ignoreAdler : Bool := true
  ignoreCrc : Bool := false
  ignoreText : Bool := false
  ignoreIccp : Bool := false
  skipAncillaryCrcFailures : Bool := true
deriving Repr, DecidableEq

structure FrameControl where
  seq : Nat
  width : Nat
  height : Nat
  x : Nat
  y : Nat
  delayNum : Nat
  delayDen : Nat
  dispose : Nat
  blend : Nat
deriving Repr, DecidableEq

/-- text chunks as stored in `Info` (fields as byte strings; Latin-1 decoding is `Model/Text`) -/
inductive TextChunk
  | tEXt (keyword text : Bytes)
  | zTXt (keyword compressed : Bytes)
  | iTXt (keyword : Bytes) (compressed : Bool) (lang translated text : Bytes)
deriving Repr, DecidableEq

structure Info where
  width : Nat
  height : Nat
  depth : Nat
  color : Nat
  interlaced : Bool
  palette : Option Bytes := none
  trns : Option Bytes := none
  sbit : Option Bytes := none
  bkgd : Option Bytes := none
  pixelDims : Option (Nat × Nat × Nat) := none
  gama : Option Nat := none
  chrm : Option (List Nat) := none          -- white x,y red x,y green x,y blue x,y
  srgb : Option Nat := none
  cicp : Option (Nat × Nat × Nat × Bool) := none
  mdcv : Option (List Nat × Nat × Nat) := none  -- chromaticities (white, red, green, blue; scaled ×2), max, min
  clli : Option (Nat × Nat) := none
  exif : Option Bytes := none
  icc : Option Bytes := none
  actl : Option (Nat × Nat) := none
  fctl : Option FrameControl := none
  text : List TextChunk := []
deriving Repr, DecidableEq

inductive U32Kind
  | sig1 | sig2 | length
  | type (length : Nat)
  | crc (ty : ChunkType)
  | seqNo
deriving Repr, DecidableEq

inductive St
  | u32 (kind : U32Kind) (acc : Bytes)      -- `acc.length = accumulated_count ≤ 4`
  | readChunkData (ty : ChunkType)
  | parseChunkData (ty : ChunkType)
  | imageData (ty : ChunkType)
deriving Repr, DecidableEq

inductive Ev
  | nothing
  | header (w h depth color : Nat) (interlaced : Bool)
  | chunkBegin (len : Nat) (ty : ChunkType)
  | chunkComplete (crc : Nat) (ty : ChunkType)
  | pixelDimensions (x y unit : Nat)
  | animationControl (frames plays : Nat)
  | frameControl (fc : FrameControl)
  | imageData
  | imageDataFlushed
  | partialChunk (ty : ChunkType)
  | imageEnd
deriving Repr, DecidableEq

inductive Err
  | format (why : String)
  | limits
  | parameter          -- `PolledAfterFatalError`
  | panic (site : String)
deriving Repr, DecidableEq

structure Dec where
  state : Option St := some (.u32 .sig1 [])
  curType : ChunkType := 0
  /-- bytes fed to the chunk's CRC so far (type bytes first) -/
  crcAcc : Bytes := []
  remaining : Nat := 0
  raw : Bytes := []
  /-- capacity of `raw_bytes` (only grows) -/
  cap : Nat := Params.chunkBufferSize
  /-- compressed bytes of the current data-chunk sequence fed to the inflater so far -/
  zin : Bytes := []
  /-- `inflater.started` -/
  zstarted : Bool := false
  /-- output bytes of the current zlib stream already appended to `out` -/
  zemitted : Nat := 0
  info : Option Info := none
  seqNo : Option Nat := none
  haveIdat : Bool := false
  readyIdat : Bool := true
  readyFdat : Bool := false
  haveIccp : Bool := false
  opts : Options := {}
  limit : Nat := 2 ^ 64 - 1
  /-- the caller's `image_data` vector -/
  out : Bytes := []
deriving Repr

def Dec.new (opts : Options) : Dec := { opts := opts }

/-- `StreamingDecoder::reset` (stream.rs:588-597): note what it does NOT restore -/
def Dec.reset (d : Dec) : Dec :=
  { d with state := some (.u32 .sig1 []), crcAcc := [], remaining := 0, raw := [], zin := [], zstarted := false, zemitted := 0,
           info := none, seqNo := none, haveIdat := false, haveIccp := false, readyIdat := true, readyFdat := false, curType := 0 }

/-! ## byte readers (`read_be`); `none` = `UnexpectedEof` -/
def rdU8 : Bytes → Option (Nat × Bytes)
  | a :: r => some (a.toNat, r)
  | _ => none
def rdU16 : Bytes → Option (Nat × Bytes)
  | a :: b :: r => some (a.toNat * 256 + b.toNat, r)
  | _ => none
def rdU32 : Bytes → Option (Nat × Bytes)
  | a :: b :: c :: d :: r => some (be32 a b c d, r)
  | _ => none

/-- error of a chunk parser before `parse_chunk` post-processes it -/
inductive PErr
  | eof                 -- becomes `Format(ChunkTooShort)`
  | format (why : String)
  | limits
  | panic (site : String)
deriving Repr, DecidableEq

abbrev PRes := Except PErr (Dec × Ev)

/-- `Limits::reserve_bytes` (decoder/mod.rs:70) -/
def reserve (d : Dec) (n : Nat) : Except PErr Dec :=
  if d.limit ≥ n then .ok { d with limit := d.limit - n } else .error .limits

def setInfo (d : Dec) (f : Info → Info) : Dec := { d with info := d.info.map f }

/-- a dummy used where the Rust code does `self.info.as_mut().unwrap()`; reaching it is a panic -/
def withInfo (d : Dec) (k : Info → PRes) : PRes :=
  match d.info with
  | some i => k i
  | none => .error (.panic "info.unwrap()")

def eofOr {α} (o : Option α) : Except PErr α :=
  match o with
  | some a => .ok a
  | none => .error .eof

/-! ## per-chunk parsers -/

/-- `parse_ihdr` (stream.rs:1592-1686) -/
def parseIhdr (d : Dec) : PRes := do
  if d.info.isSome then throw (.format "DuplicateChunk IHDR")
  let (w, b) ← eofOr (rdU32 d.raw)
  let (h, b) ← eofOr (rdU32 b)
  if w = 0 ∨ h = 0 then throw (.format "InvalidDimensions")
  let (depth, b) ← eofOr (rdU8 b)
  if !depthOk depth then throw (.format "InvalidBitDepth")
  let (color, b) ← eofOr (rdU8 b)
  if !colorOk color then throw (.format "InvalidColorType")
  if combinationInvalid color depth then throw (.format "InvalidColorBitDepth")
  let (cm, b) ← eofOr (rdU8 b)
  if cm ≠ 0 then throw (.format "UnknownCompressionMethod")
  let (fm, b) ← eofOr (rdU8 b)
  if fm ≠ 0 then throw (.format "UnknownFilterMethod")
  let (il, _) ← eofOr (rdU8 b)
  if il > 1 then throw (.format "UnknownInterlaceMethod")
  let info : Info := { width := w, height := h, depth := depth, color := color, interlaced := il == 1 }
  pure ({ d with info := some info }, .header w h depth color (il == 1))

/-- `Info::validate` (stream.rs:1813-1833): `checked_sub` arithmetic -/
def fctlInBounds (i : Info) (fc : FrameControl) : Bool :=
  fc.width ≠ 0 && fc.height ≠ 0 &&
  (fc.x ≤ i.width && fc.width ≤ i.width - fc.x) && (fc.y ≤ i.height && fc.height ≤ i.height - fc.y)

/-- `parse_fctl` (stream.rs:1047-1112) -/
def parseFctl (d : Dec) : PRes := do
  let (seq, b) ← eofOr (rdU32 d.raw)
  let d ← match d.seqNo with
    | some s =>
      if s + 1 ≥ 2 ^ 32 then throw (.panic "seq_no + 1 overflow (stream.rs:1053)")
      else if seq ≠ s + 1 then throw (.format "ApngOrder") else pure { d with seqNo := some seq }
    | none => if seq ≠ 0 then throw (.format "ApngOrder") else pure { d with seqNo := some 0 }
  -- inflater.reset(); ready_for_fdat_chunks = true  (before the remaining fields are read)
  let d := { d with zin := [], zstarted := false, zemitted := 0, readyFdat := true }
  let (w, b) ← eofOr (rdU32 b)
  let (h, b) ← eofOr (rdU32 b)
  let (x, b) ← eofOr (rdU32 b)
  let (y, b) ← eofOr (rdU32 b)
  let (dn, b) ← eofOr (rdU16 b)
  let (dd, b) ← eofOr (rdU16 b)
  let (dis, b) ← eofOr (rdU8 b)
  if dis > 2 then throw (.format "InvalidDisposeOp")
  let (bl, _) ← eofOr (rdU8 b)
  if bl > 1 then throw (.format "InvalidBlendOp")
  let fc : FrameControl := { seq := seq, width := w, height := h, x := x, y := y, delayNum := dn, delayDen := dd, dispose := dis, blend := bl }
  withInfo d fun i =>
    if fc.width = 0 ∨ fc.height = 0 then .error (.format "InvalidDimensions")
    else if !fctlInBounds i fc then .error (.format "BadSubFrameBounds")
    else .ok (setInfo d (fun i => { i with fctl := some fc }), .frameControl fc)

/-- `parse_actl` (stream.rs:1114-1129) -/
def parseActl (d : Dec) : PRes := do
  if d.haveIdat then throw (.format "AfterIdat acTL")
  let (nf, b) ← eofOr (rdU32 d.raw)
  let (np, _) ← eofOr (rdU32 b)
  withInfo d fun _ => .ok (setInfo d (fun i => { i with actl := some (nf, np) }), .animationControl nf np)

/-- `parse_plte` (stream.rs:1131-1145): no length validation -/
def parsePlte (d : Dec) : PRes :=
  withInfo d fun i =>
    if i.palette.isSome then .error (.format "DuplicateChunk PLTE") else do
      let d ← reserve d d.raw.length
      pure (setInfo d (fun i => { i with palette := some d.raw }), .nothing)

def sbitExpected : Nat → Nat
  | 0 => 1 | 2 => 3 | 3 => 3 | 4 => 2 | _ => 4

/-- `parse_sbit` (stream.rs:1147-1203) -/
def parseSbit (d : Dec) : PRes :=
  withInfo d fun i => do
    if i.palette.isSome then throw (.format "AfterPlte sBIT")
    if d.haveIdat then throw (.format "AfterIdat sBIT")
    if i.sbit.isSome then throw (.format "DuplicateChunk sBIT")
    let sampleDepth := if i.color = 3 then 8 else i.depth
    let d ← reserve d d.raw.length
    if sbitExpected i.color ≠ d.raw.length then throw (.format "InvalidSbitChunkSize")
    if d.raw.any (fun s => s.toNat < 1 || s.toNat > sampleDepth) then throw (.format "InvalidSbit")
    pure (setInfo d (fun i => { i with sbit := some d.raw }), .nothing)

/-- `parse_trns` (stream.rs:1205-1268) -/
def parseTrns (d : Dec) : PRes :=
  withInfo d fun i => do
    if i.trns.isSome then throw (.format "DuplicateChunk tRNS")
    if d.haveIdat then throw (.format "AfterIdat tRNS")
    let d ← reserve d d.raw.length
    let v := d.raw
    match i.color with
    | 0 =>
      if v.length < 2 then throw (.format "ShortPalette")
      let v := if i.depth < 16 then [v.getD 1 0] else v
      pure (setInfo d (fun i => { i with trns := some v }), .nothing)
    | 2 =>
      if v.length < 6 then throw (.format "ShortPalette")
      let v := if i.depth < 16 then [v.getD 1 0, v.getD 3 0, v.getD 5 0] else v
      pure (setInfo d (fun i => { i with trns := some v }), .nothing)
    | 3 =>
      if i.palette.isNone then throw (.format "BeforePlte tRNS")
      if d.haveIdat then throw (.format "OutsidePlteIdat tRNS")
      pure (setInfo d (fun i => { i with trns := some v }), .nothing)
    | _ => throw (.format "ColorWithBadTrns")

/-- `parse_phys` (stream.rs:1264-1292) -/
def parsePhys (d : Dec) : PRes :=
  withInfo d fun i => do
    if d.haveIdat then throw (.format "AfterIdat pHYs")
    if i.pixelDims.isSome then throw (.format "DuplicateChunk pHYs")
    let (x, b) ← eofOr (rdU32 d.raw)
    let (y, b) ← eofOr (rdU32 b)
    let (u, _) ← eofOr (rdU8 b)
    if u > 1 then throw (.format "InvalidUnit")
    pure (setInfo d (fun i => { i with pixelDims := some (x, y, u) }), .pixelDimensions x y u)

def rdU32s : Nat → Bytes → Option (List Nat × Bytes)
  | 0, b => some ([], b)
  | n+1, b => do
    let (v, b) ← rdU32 b
    let (vs, b) ← rdU32s n b
    pure (v :: vs, b)

/-- `parse_chrm` (stream.rs:1294-1345) -/
def parseChrm (d : Dec) : PRes :=
  withInfo d fun i => do
    if d.haveIdat then throw (.format "AfterIdat cHRM")
    if i.chrm.isSome then throw (.format "DuplicateChunk cHRM")
    let (vs, _) ← eofOr (rdU32s 8 d.raw)
    pure (setInfo d (fun i => { i with chrm := some vs }), .nothing)

/-- `parse_gama` (stream.rs:1347-1365) -/
def parseGama (d : Dec) : PRes :=
  withInfo d fun i => do
    if d.haveIdat then throw (.format "AfterIdat gAMA")
    if i.gama.isSome then throw (.format "DuplicateChunk gAMA")
    let (g, _) ← eofOr (rdU32 d.raw)
    pure (setInfo d (fun i => { i with gama := some g }), .nothing)

/-- `parse_srgb` (stream.rs:1367-1388) -/
def parseSrgb (d : Dec) : PRes :=
  withInfo d fun i => do
    if d.haveIdat then throw (.format "AfterIdat sRGB")
    if i.srgb.isSome then throw (.format "DuplicateChunk sRGB")
    let (r, _) ← eofOr (rdU8 d.raw)
    if r > 3 then throw (.format "InvalidSrgbRenderingIntent")
    pure (setInfo d (fun i => { i with srgb := some r }), .nothing)

/-- `parse_cicp` (stream.rs:1393-1438): infallible, first wins, must precede PLTE and IDAT -/
def parseCicp (d : Dec) : PRes :=
  withInfo d fun i =>
    let parsed : Option (Nat × Nat × Nat × Bool) := do
      let (cp, b) ← rdU8 d.raw
      let (tf, b) ← rdU8 b
      let (mc, b) ← rdU8 b
      let (fr, b) ← rdU8 b
      if fr > 1 then none else
      if mc ≠ 0 then none else
      if !b.isEmpty then none else
      some (cp, tf, mc, fr == 1)
    if !d.haveIdat && i.palette.isNone && i.cicp.isNone then
      .ok (setInfo d (fun i => { i with cicp := parsed }), .nothing)
    else .ok (d, .nothing)

def rdU16s : Nat → Bytes → Option (List Nat × Bytes)
  | 0, b => some ([], b)
  | n+1, b => do
    let (v, b) ← rdU16 b
    let (vs, b) ← rdU16s n b
    pure (v :: vs, b)

/-- `parse_mdcv` (stream.rs:1443-1497): order red, green, blue, white in the chunk; stored ×2 -/
def parseMdcv (d : Dec) : PRes :=
  withInfo d fun i =>
    let parsed : Option (List Nat × Nat × Nat) := do
      let (cs, b) ← rdU16s 8 d.raw
      let (mx, b) ← rdU32 b
      let (mn, b) ← rdU32 b
      if !b.isEmpty then none else
      match cs with
      | [rx, ry, gx, gy, bx, by_, wx, wy] => some ([wx * 2, wy * 2, rx * 2, ry * 2, gx * 2, gy * 2, bx * 2, by_ * 2], mx, mn)
      | _ => none
    if !d.haveIdat && i.palette.isNone && i.mdcv.isNone then
      .ok (setInfo d (fun i => { i with mdcv := parsed }), .nothing)
    else .ok (d, .nothing)

/-- `parse_clli` (stream.rs:1502-1523) -/
def parseClli (d : Dec) : PRes :=
  withInfo d fun i =>
    let parsed : Option (Nat × Nat) := do
      let (a, b) ← rdU32 d.raw
      let (c, b) ← rdU32 b
      if !b.isEmpty then none else some (a, c)
    if i.clli.isNone then .ok (setInfo d (fun i => { i with clli := parsed }), .nothing) else .ok (d, .nothing)

/-- `parse_exif` (stream.rs:1525-1533): unpaid copy, first wins -/
def parseExif (d : Dec) : PRes :=
  withInfo d fun i =>
    if i.exif.isNone then .ok (setInfo d (fun i => { i with exif := some d.raw }), .nothing) else .ok (d, .nothing)

/-- `parse_bkgd` (stream.rs:1785-1809) -/
def parseBkgd (d : Dec) : PRes :=
  withInfo d fun i =>
    if i.bkgd.isNone && !d.haveIdat then
      let expected : Option Nat :=
        if i.color = 3 then (if i.palette.isNone then none else some 1)
        else if i.color = 0 ∨ i.color = 4 then some 2 else some 6
      match expected with
      | none => .ok (d, .nothing)
      | some e => if d.raw.length = e then .ok (setInfo d (fun i => { i with bkgd := some d.raw }), .nothing) else .ok (d, .nothing)
    else .ok (d, .nothing)

/-- profile name loop of `parse_iccp_raw` (stream.rs:1571-1581, after repair of D28: `for len in 0..=79`, a name has 1-79 bytes):
    returns the rest after the NUL -/
def iccpName : Nat → Nat → Bytes → Except PErr Bytes
  | 0, _, _ => .ok []   -- unreachable: the loop returns within 80 iterations
  | fuel+1, len, b =>
    match b with
    | [] => .error .eof
    | raw :: rest =>
      if (raw = 0 ∧ len = 0) ∨ (raw ≠ 0 ∧ len = 79) then .error (.format "InvalidKeywordSize")
      else if raw = 0 then .ok rest
      else if len = 79 then .ok rest
      else iccpName fuel (len + 1) rest

/-- `parse_iccp_raw` (stream.rs:1559-1590); every error is swallowed by `parse_iccp` -/
def parseIccpRaw (cfg : Cfg) (d : Dec) : Except PErr Dec := do
  let b ← iccpName 82 0 d.raw
  let (m, b) ← eofOr (rdU8 b)
  if m ≠ 0 then throw (.format "UnknownCompressionMethod")
  match cfg.inflateBounded b d.limit with
  | .ok profile =>
    let d ← reserve d profile.length
    pure (setInfo d (fun i => { i with icc := some profile }))
  | .error true => throw .limits
  | .error false => throw (.format "CorruptFlateStream")

/-- `parse_iccp` (stream.rs:1535-1557) -/
def parseIccp (cfg : Cfg) (d : Dec) : PRes :=
  if d.haveIdat then .error (.format "AfterIdat iCCP")
  else if d.haveIccp then .ok (d, .nothing)
  else
    let d := { d with haveIccp := true }
    match parseIccpRaw cfg d with
    | .ok d' => .ok (d', .nothing)
    | .error _ => .ok (d, .nothing)

/-- `split_keyword` (stream.rs:1688-1700) -/
def splitKeyword (b : Bytes) : Except PErr (Bytes × Bytes) :=
  match b.findIdx? (· = 0) with
  | none => .error (.format "MissingNullSeparator")
  | some k => if k = 0 ∨ k > 79 then .error (.format "InvalidKeywordSize") else .ok (b.take k, b.drop (k + 1))

def addText (d : Dec) (t : TextChunk) : Dec := setInfo d (fun i => { i with text := i.text ++ [t] })

/-- `parse_text` (stream.rs:1702-1715) -/
def parseText (d : Dec) : PRes := do
  let d ← reserve d d.raw.length
  let (k, v) ← splitKeyword d.raw
  withInfo d fun _ => .ok (addText d (.tEXt k v), .nothing)

/-- `parse_ztxt` (stream.rs:1717-1736) -/
def parseZtxt (d : Dec) : PRes := do
  let d ← reserve d d.raw.length
  let (k, v) ← splitKeyword d.raw
  match v with
  | [] => throw (.format "InvalidCompressionMethod")
  | m :: t =>
    if m ≠ 0 then throw (.format "InvalidCompressionMethod")
    withInfo d fun _ => .ok (addText d (.zTXt k t), .nothing)

/-- `parse_itxt` (stream.rs:1738-1781) + `ITXtChunk::decode` (text_metadata.rs:401-445) -/
def parseItxt (cfg : Cfg) (d : Dec) : PRes := do
  let d ← reserve d d.raw.length
  let (k, v) ← splitKeyword d.raw
  match v with
  | [] => throw (.format "MissingCompressionFlag")
  | [_] => throw (.format "InvalidCompressionMethod")
  | flag :: method :: rest =>
    match rest.findIdx? (· = 0) with
    | none => throw (.format "MissingNullSeparator")
    | some i2 =>
      let lang := rest.take i2
      let rest2 := rest.drop (i2 + 1)
      match rest2.findIdx? (· = 0) with
      | none => throw (.format "MissingNullSeparator")
      | some i3 =>
        let trans := rest2.take i3
        let text := rest2.drop (i3 + 1)
        if flag.toNat > 1 then throw (.format "InvalidCompressionFlag")
        let compressed := flag = 1
        if compressed ∧ method ≠ 0 then throw (.format "InvalidCompressionMethod")
        if lang.any (fun b => b.toNat ≥ 128) then throw (.format "Unrepresentable")
        if !cfg.utf8Ok trans then throw (.format "Unrepresentable")
        if !compressed ∧ !cfg.utf8Ok text then throw (.format "Unrepresentable")
        withInfo d fun _ => .ok (addText d (.iTXt k compressed lang trans text), .nothing)

/-- kinds whose `Format` errors `parse_chunk` turns into `Ok(Nothing)` (stream.rs:1021-1035) -/
def benign (t : ChunkType) : Bool :=
  t == cHRM || t == gAMA || t == iCCP || t == pHYs || t == sBIT || t == sRGB || t == tRNS

/-- dispatch of `parse_chunk` (stream.rs:976-998) -/
def dispatch (cfg : Cfg) (d : Dec) (t : ChunkType) : PRes :=
  if t = IHDR then parseIhdr d
  else if t = sBIT then parseSbit d
  else if t = PLTE then parsePlte d
  else if t = tRNS then parseTrns d
  else if t = pHYs then parsePhys d
  else if t = gAMA then parseGama d
  else if t = acTL then parseActl d
  else if t = fcTL then parseFctl d
  else if t = cHRM then parseChrm d
  else if t = sRGB then parseSrgb d
  else if t = cICP then parseCicp d
  else if t = mDCV then parseMdcv d
  else if t = cLLI then parseClli d
  else if t = eXIf then parseExif d
  else if t = bKGD then parseBkgd d
  else if t = iCCP ∧ !d.opts.ignoreIccp then parseIccp cfg d
  else if t = tEXt ∧ !d.opts.ignoreText then parseText d
  else if t = zTXt ∧ !d.opts.ignoreText then parseZtxt d
  else if t = iTXt ∧ !d.opts.ignoreText then parseItxt cfg d
  else .ok (d, .partialChunk t)

/-- `parse_chunk` (stream.rs:975-1045): state := `U32 Crc(t)` first; EOF → `ChunkTooShort`; benign
    errors swallowed (the parser's partial effects on `d` are kept only on success, as in Rust where
    every parser mutates `info` last — except the effects listed explicitly below); other errors poison -/
def parseChunk (cfg : Cfg) (d : Dec) (t : ChunkType) : Except Err (Ev × Dec) :=
  let d := { d with state := some (.u32 (.crc t) []) }
  match dispatch cfg d t with
  | .ok (d', ev) => .ok (ev, d')
  | .error e =>
    let isFormat : Bool := match e with | .eof => true | .format _ => true | _ => false
    if isFormat && benign t then
      -- effects that survive a benign failure: bytes already charged to `Limits` (sBIT, tRNS)
      let d' :=
        if (t = sBIT ∨ t = tRNS) then
          (match d.info with
           | some i =>
             let charged : Bool :=
               if t = sBIT then !(i.palette.isSome || d.haveIdat || i.sbit.isSome) else !(i.trns.isSome || d.haveIdat)
             if charged then (match reserve d d.raw.length with | .ok d2 => d2 | .error _ => d) else d
           | none => d)
        else d
      .ok (.nothing, d')
    else
      match e with
      | .eof => .error (.format "ChunkTooShort")
      | .format w => .error (.format w)
      | .limits => .error .limits
      | .panic s => .error (.panic s)

/-- `reserve_current_chunk` (stream.rs:959-973) -/
def reserveCurrentChunk (d : Dec) : Except Err Dec :=
  let r := min d.raw.length (d.limit - d.cap)        -- `max.saturating_sub(capacity).min(len)`
  if d.limit < r then .error .limits else
  let d := { d with limit := d.limit - r, cap := max d.cap (d.raw.length + r) }  -- `reserve_exact(r)`
  if d.cap = d.raw.length then .error .limits else .ok d

/-- `ZlibStream::finish_compressed_chunks` at the end of a data-chunk sequence (stream.rs:839) -/
def flushData (cfg : Cfg) (d : Dec) : Except Err Dec :=
  if !d.zstarted then .ok d else
  match cfg.inflate d.zin with
  | some (o, true) => .ok { d with out := d.out ++ o.drop d.zemitted }
  | some (_, false) => .error (.format "CorruptFlateStream (InsufficientInput)")
  | none => .error (.format "CorruptFlateStream")

/-- the state that follows a chunk-type field (stream.rs:850-879) -/
def afterType (d : Dec) (t : ChunkType) (length : Nat) : Except Err (St × Dec) :=
  if t = fdAT then
    if !d.readyFdat then .error (.format "UnexpectedRestartOfDataChunkSequence fdAT")
    else if length < 4 then .error (.format "FdatShorterThanFourBytes")
    else .ok (.u32 .seqNo [], { d with haveIdat := true })      -- image data has begun (stream.rs:868)
  else if t = IDAT then
    if !d.readyIdat then .error (.format "UnexpectedRestartOfDataChunkSequence IDAT")
    else .ok (.imageData t, { d with haveIdat := true })
  else if length = 0 then .ok (.parseChunkData t, d)      -- an empty chunk is complete already (stream.rs:886-887)
  else .ok (.readChunkData t, d)

/-- `parse_u32` (stream.rs:808-957).  `d.state = none` on entry (taken by `next_state`). -/
def parseU32 (cfg : Cfg) (d : Dec) (kind : U32Kind) (b0 b1 b2 b3 : UInt8) : Except Err (Ev × Dec) :=
  let val := be32 b0 b1 b2 b3
  match kind with
  | .sig1 =>
    if [b0.toNat, b1.toNat, b2.toNat, b3.toNat] = Params.signature.take 4 then .ok (.nothing, { d with state := some (.u32 .sig2 []) })
    else .error (.format "InvalidSignature")
  | .sig2 =>
    if [b0.toNat, b1.toNat, b2.toNat, b3.toNat] = Params.signature.drop 4 then .ok (.nothing, { d with state := some (.u32 .length []) })
    else .error (.format "InvalidSignature")
  | .length => .ok (.nothing, { d with state := some (.u32 (.type val) []) })
  | .type length =>
    let t := val
    if d.info.isNone ∧ t ≠ IHDR then .error (.format "ChunkBeforeIhdr") else
    if t ≠ d.curType ∧ (d.curType = IDAT ∨ d.curType = fdAT) then
      -- end of a data-chunk sequence: flush the inflater, re-parse the type on the next call
      match flushData cfg { d with curType := t } with
      | .error e => .error e
      | .ok d =>
        let d2 : Dec := { d with zin := [], zstarted := false, zemitted := 0, readyIdat := false, readyFdat := false,
                                 state := some (.u32 (.type length) [b0, b1, b2, b3]) }
        .ok (.imageDataFlushed, d2)
    else
      match afterType d t length with
      | .error e => .error e
      | .ok (st, d) =>
        .ok (.chunkBegin length t,
             { d with state := some st, curType := t, crcAcc := if d.opts.ignoreCrc then d.crcAcc else typeBytes t,
                      remaining := length, raw := [] })
  | .crc t =>
    let sum := if d.opts.ignoreCrc then val else cfg.crc d.crcAcc
    if val = sum then
      if t = IEND then .ok (.imageEnd, d)       -- state stays `none`
      else .ok (.chunkComplete val t, { d with state := some (.u32 .length []) })
    else if d.opts.skipAncillaryCrcFailures ∧ !isCritical t ∧ t ≠ acTL ∧ t ≠ fcTL ∧ t ≠ fdAT then
      -- (the animation chunks have been acted on already: not skipped, stream.rs:925-928)
      .ok (.nothing, { d with state := some (.u32 .length []) })
    else .error (.format "CrcMismatch")
  | .seqNo =>
    let d := { d with remaining := d.remaining - 4 }
    match d.seqNo with
    | none => .error (.format "MissingFctl")
    | some s =>
      if s + 1 ≥ 2 ^ 32 then .error (.panic "seq_no + 1 overflow (stream.rs:935)")
      else if val ≠ s + 1 then .error (.format "ApngOrder")
      else
        .ok (.partialChunk fdAT,
             { d with seqNo := some val, crcAcc := if d.opts.ignoreCrc then d.crcAcc else d.crcAcc ++ [b0, b1, b2, b3],
                      state := some (.imageData fdAT) })

/-- `self.state = s` -/
def Dec.withState (d : Dec) (s : Option St) : Dec := { d with state := s }

/-- the four accumulated bytes handed to `parse_u32`; `n` = bytes consumed from the input -/
def parse4 (cfg : Cfg) (d : Dec) (kind : U32Kind) (l : Bytes) (n : Nat) : Except Err (Nat × Ev × Dec) :=
  match l with
  | b0 :: b1 :: b2 :: b3 :: _ => (parseU32 cfg d kind b0 b1 b2 b3).map fun (ev, d) => (n, ev, d)
  | _ => .error (.panic "unreachable")

/-- `next_state`, arm `U32 {kind, bytes, accumulated_count}` (stream.rs:688-726) -/
def stepU32 (cfg : Cfg) (d : Dec) (kind : U32Kind) (acc buf : Bytes) : Except Err (Nat × Ev × Dec) :=
  if acc.length = 0 ∧ buf.length ≥ 4 then parse4 cfg d kind buf 4
  else
    let n := min (4 - acc.length) buf.length
    let acc' := acc ++ buf.take n
    if acc'.length < 4 then .ok (n, .nothing, { d with state := some (.u32 kind acc') })
    else parse4 cfg d kind acc' n

/-- `next_state`, arm `ParseChunkData` (stream.rs:727-740): never looks at the input -/
def stepParse (cfg : Cfg) (d : Dec) (t : ChunkType) : Except Err (Nat × Ev × Dec) :=
  if d.remaining = 0 then (parseChunk cfg d t).map fun (ev, d) => (0, ev, d)
  else (reserveCurrentChunk d).map fun d => (0, .partialChunk t, { d with state := some (.readChunkData t) })

/-- `n` more bytes of the chunk body (`piece`, `piece.length = n`) go to the CRC and to `raw_bytes` -/
def Dec.readPiece (d : Dec) (n : Nat) (piece : Bytes) : Dec :=
  { d with crcAcc := if d.opts.ignoreCrc then d.crcAcc else d.crcAcc ++ piece,
           raw := d.raw ++ piece, remaining := d.remaining - n }

/-- `next_state`, arm `ReadChunkData` (stream.rs:741-776) -/
def stepRead (d : Dec) (t : ChunkType) (buf : Bytes) : Except Err (Nat × Ev × Dec) :=
  if d.remaining = 0 then .ok (0, .nothing, { d with state := some (.u32 (.crc t) []) })
  else
    let bufAvail := d.cap - d.raw.length
    if bufAvail = 0 then .ok (0, .nothing, { d with state := some (.parseChunkData t) })
    else
      let n := min d.remaining (min buf.length bufAvail)
      let d := d.readPiece n (buf.take n)
      .ok (n, .nothing, { d with state := some (if d.remaining = 0 then .parseChunkData t else .readChunkData t) })

/-- `n` more bytes of a data chunk (`piece`, `piece.length = n`) went through `inflater.decompress`,
    after which `o` is everything decodable from the stream so far: the part of `o` not yet handed out
    is appended to the caller's `image_data`; the CRC is updated unconditionally here (stream.rs:782) -/
def Dec.imagePiece (d : Dec) (n : Nat) (piece o : Bytes) : Dec :=
  { d with zin := d.zin ++ piece, zstarted := true, out := d.out ++ o.drop d.zemitted,
           zemitted := max d.zemitted o.length, crcAcc := d.crcAcc ++ piece, remaining := d.remaining - n }

/-- `next_state`, arm `ImageData` (stream.rs:777-790) -/
def stepImage (cfg : Cfg) (d : Dec) (t : ChunkType) (buf : Bytes) : Except Err (Nat × Ev × Dec) :=
  let n := min buf.length d.remaining
  let piece := buf.take n
  match cfg.inflate (d.zin ++ piece) with
  | none => .error (.format "CorruptFlateStream")
  | some (o, _) =>
    let d := d.imagePiece n piece o
    .ok (n, .imageData, { d with state := some (if d.remaining = 0 then .u32 (.crc t) [] else .imageData t) })

/-- `next_state` (stream.rs:677-792).  Returns `(consumed, event, decoder)`; on `error` the decoder
    is poisoned (the caller keeps `state = none`). -/
def nextState (cfg : Cfg) (d0 : Dec) (st : St) (buf : Bytes) : Except Err (Nat × Ev × Dec) :=
  let d := { d0 with state := none }      -- `self.state.take()`
  match st with
  | .u32 kind acc => stepU32 cfg d kind acc buf
  | .parseChunkData t => stepParse cfg d t
  | .readChunkData t => stepRead d t buf
  | .imageData t => stepImage cfg d t buf

/-- fuel that `update` gives its loop; `Proofs/Framing.updateLoop_fuel` shows that it always suffices -/
def updateFuel (buf : Bytes) : Nat := 5 * buf.length + 5

/-- `update` (stream.rs:649-675): loop until an event other than `Nothing`, an error, or the buffer is
    exhausted.  The decoder is mutated in place by every iteration, so after an error it keeps what
    the earlier iterations of the same call did (and `state = None`). -/
def updateLoop (cfg : Cfg) : Nat → Dec → Bytes → Nat → Dec × Except Err (Nat × Ev)
  | 0, d, _, consumed => (d, .ok (consumed, .nothing))
  | fuel+1, d, buf, consumed =>
    if buf.isEmpty then (d, .ok (consumed, .nothing)) else
    match d.state with
    | none => (d, .error (.panic "state.take().unwrap() (stream.rs:685)"))
    | some st =>
      match nextState cfg d st buf with
      | .error e => ({ d with state := none }, .error e)
      | .ok (n, .nothing, d') => updateLoop cfg fuel d' (buf.drop n) (consumed + n)
      | .ok (n, ev, d') => (d', .ok (consumed + n, ev))

/-- result of one `update` call: the decoder afterwards is always returned (poisoned on error) -/
def update (cfg : Cfg) (d : Dec) (buf : Bytes) : Dec × Except Err (Nat × Ev) :=
  match d.state with
  | none => (d, .error .parameter)
  | some _ => updateLoop cfg (updateFuel buf) d buf 0

/-- a caller that keeps calling `update` until the buffer is used up or an error occurs; collects
    the events.  Fuel: every call strictly decreases `5·|buf| + rank` (`Proofs/Framing.update_no_spin`),
    so `5·|buf| + 5` suffices (`Proofs/Framing.feed_eq_run`). -/
def feed (cfg : Cfg) : Nat → Dec → Bytes → List Ev → Dec × List Ev × Option Err
  | 0, d, _, evs => (d, evs.reverse, none)
  | fuel+1, d, buf, evs =>
    if buf.isEmpty then (d, evs.reverse, none) else
    match update cfg d buf with
    | (d', .error e) => (d', evs.reverse, some e)
    | (d', .ok (n, ev)) => feed cfg fuel d' (buf.drop n) (if ev = .nothing then evs else ev :: evs)

end Png.Framing
