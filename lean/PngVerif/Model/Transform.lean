import PngVerif.Model.Filter
/-!
# Output transformations (`src/decoder/transform.rs`, `src/decoder/transform/palette.rs`)

Specification side (written from the documentation of `Transformations::{EXPAND, STRIP_16, ALPHA}`
and the PNG specification, *not* from the code): `specSamples` (sample unpacking: sub-byte samples
MSB-first, 16-bit big-endian), `specPaletteRgb` / `specPaletteAlpha` (palette lookup: out-of-range
index = opaque black, missing alpha = 255, an over-long tRNS is ignored), `specKey` (colour key),
`specPixel` (EXPAND, then STRIP_16, per pixel), `specConvert` (whole row), `specOutputColorType`,
`specOutputLineSize`.

Implementation-shaped side (every definition cites the Rust lines it mirrors):
`rawRowLengthFromWidth` (common.rs:59), `createRgbaPalette` (palette.rs:39-95: truncation to whole
entries, at most 256, then — as `createRgbaPaletteOld`, the pinned-tree function — 4-byte copies that
clobber the next alpha, tRNS pass, un-clobbering), `expand8bitIntoRgb8` (palette.rs:97-110:
overlapping 4-byte writes), `unpackBits` (transform.rs:90-135: shift iterator with its asserts and
`expect`), the closures of `expand_into_rgb8` / `expand_paletted_into_rgba8` / `expand_gray_u8` /
`expand_gray_u8_with_trns`, `expandTrnsLine` / `expandTrnsLine16` / `expandTrnsAndStripLine16`
(transform.rs:137-179), `transformRowStrip16` (:83), `copyRow` (:79), `selectTransform`
(= the `match` of `create_transform_fn`, :20-77), `outputColorType` / `outputLineSize` /
`outputBufferSize` (decoder/mod.rs:594-640), `parseTrns` (stream.rs:1211-1272, the key
normalisation only).

A transform function is modelled as `row → out → Except Err out'` where `out` is the *prior content*
of the output buffer the caller passes (`&mut [u8]`), and `out'` its content afterwards (same
length): theorems then say that every byte of the buffer is (over)written with the specified value
whatever was there before.  Every place where the Rust code can panic (slice index out of range,
`assert!`, `expect`, `copy_from_slice` length mismatch, arithmetic overflow in the closures) is an
explicit `.error .panic`.

All definitions live in `Png.Transform` (sub-namespace: `ColorType`, `BitDepth`, `Info` are generic
names).  Core Lean only: this file is linked into the `pngmodel` driver.
-/

namespace Png.Transform
open Png

/-! ## Types -/

/-- PNG colour types 0, 2, 3, 4, 6 (`common.rs` `ColorType`) -/
inductive ColorType | gray | rgb | indexed | grayAlpha | rgba
deriving DecidableEq, Repr, Inhabited

def ColorType.ofNat? : Nat → Option ColorType
  | 0 => some .gray | 2 => some .rgb | 3 => some .indexed | 4 => some .grayAlpha | 6 => some .rgba
  | _ => none

def ColorType.toNat : ColorType → Nat
  | .gray => 0 | .rgb => 2 | .indexed => 3 | .grayAlpha => 4 | .rgba => 6

/-- `ColorType::samples` (common.rs:27-39) -/
def ColorType.samples : ColorType → Nat
  | .gray => 1 | .indexed => 1 | .rgb => 3 | .grayAlpha => 2 | .rgba => 4

/-- bit depths 1, 2, 4, 8, 16 (`common.rs` `BitDepth`) -/
inductive BitDepth | one | two | four | eight | sixteen
deriving DecidableEq, Repr, Inhabited

def BitDepth.ofNat? : Nat → Option BitDepth
  | 1 => some .one | 2 => some .two | 4 => some .four | 8 => some .eight | 16 => some .sixteen
  | _ => none

def BitDepth.toNat : BitDepth → Nat
  | .one => 1 | .two => 2 | .four => 4 | .eight => 8 | .sixteen => 16

/-- the 15 colour type / bit depth combinations of the PNG specification (table 11.1);
    `is_combination_invalid` (common.rs:73) is its negation -/
def legal : ColorType → BitDepth → Bool
  | .gray, _ => true
  | .indexed, d => d != .sixteen
  | _, d => d == .eight || d == .sixteen

/-- the three decoder transformations a client can request (`Transformations`, common.rs:892) -/
structure Flags where
  expand : Bool
  strip16 : Bool
  alpha : Bool
deriving DecidableEq, Repr, Inhabited

/-- bit 0 = EXPAND, bit 1 = STRIP_16, bit 2 = ALPHA -/
def Flags.ofNat (n : Nat) : Flags := ⟨n % 2 == 1, n / 2 % 2 == 1, n / 4 % 2 == 1⟩

def allFlags : List Flags := (List.range 8).map Flags.ofNat

/-- `t == Transformations::IDENTITY` -/
def Flags.isIdentity (f : Flags) : Bool := !f.expand && !f.strip16 && !f.alpha

/-- "ALPHA implies EXPAND" (documentation of `Transformations::ALPHA`) -/
def Flags.doExpand (f : Flags) : Bool := f.expand || f.alpha

/-- the part of `png::Info` the transformations read; `trns` is the chunk *as stored by*
    `parse_trns` (see `parseTrns`) -/
structure Info where
  colorType : ColorType
  bitDepth : BitDepth
  palette : Option Bytes
  trns : Option Bytes
deriving Repr, Inhabited

/-- outcomes other than a value: a Rust panic, or one of the two `DecodingError::Format` errors of
    `create_transform_fn` -/
inductive Err | panic | paletteRequired | invalidColorBitDepth
deriving DecidableEq, Repr, Inhabited

def Err.toString : Err → String
  | .panic => "panic" | .paletteRequired => "err:PaletteRequired"
  | .invalidColorBitDepth => "err:InvalidColorBitDepth"

/-- an alpha channel is produced: a tRNS chunk is present or ALPHA is requested -/
def addAlpha (info : Info) (f : Flags) : Bool := info.trns.isSome || f.alpha

/-! ## Specification -/

/-- bytes of a row of `width` pixels (PNG specification: samples packed without padding between
    pixels, each row padded to a whole byte) -/
def specRowBytes (ct : ColorType) (d : BitDepth) (width : Nat) : Nat :=
  (width * ct.samples * d.toNat + 7) / 8

/-- the `8/d` samples of depth `d < 8` packed in one byte, leftmost sample in the high-order bits -/
def specByteSamples (d : Nat) (c : UInt8) : List Nat :=
  (List.range (8 / d)).map fun k => c.toNat / 2 ^ (8 - d * (k + 1)) % 2 ^ d

/-- 16-bit samples are stored most significant byte first -/
def be16 : Bytes → List Nat
  | h :: l :: rest => (h.toNat * 256 + l.toNat) :: be16 rest
  | _ => []

/-- all samples stored in a row, in order, as numbers -/
def specSamples (d : BitDepth) (row : Bytes) : List Nat :=
  match d with
  | .sixteen => be16 row
  | .eight => row.map (·.toNat)
  | d => row.flatMap (specByteSamples d.toNat)

/-- the first `n` groups of `k` consecutive elements -/
def chunksN {α : Type} (k : Nat) : Nat → List α → List (List α)
  | 0, _ => []
  | n + 1, l => l.take k :: chunksN k n (l.drop k)

/-- The entries of a PLTE chunk body: whole 3-byte entries only, and at most 256 of them (a valid
    PLTE chunk is exactly its entries; trailing bytes of a malformed chunk are not an entry). -/
def specPalette (plte : Bytes) : Bytes := plte.take (min (plte.length / 3) 256 * 3)

/-- palette entry `i` as RGB; an index beyond the palette is black -/
def specPaletteRgb (pal : Bytes) (i : Nat) : List Nat :=
  if 3 * i + 3 ≤ pal.length then
    [(pal.getD (3 * i) 0).toNat, (pal.getD (3 * i + 1) 0).toNat, (pal.getD (3 * i + 2) 0).toNat]
  else [0, 0, 0]

/-- alpha of palette entry `i`: the tRNS entry if there is one, else opaque; a tRNS chunk with more
    entries than the palette is ignored altogether -/
def specPaletteAlpha (pal : Bytes) (trns : Option Bytes) (i : Nat) : Nat :=
  match trns with
  | none => 255
  | some t => if t.length ≤ pal.length / 3 then (t[i]?.map (·.toNat)).getD 255 else 255

/-- colour key of a grayscale / RGB image as sample values: 16-bit samples for depth 16, otherwise
    the one stored byte per sample -/
def specKey (info : Info) : Option (List Nat) :=
  info.trns.map fun t => if info.bitDepth = .sixteen then be16 t else t.map (·.toNat)

/-- sample depth after EXPAND (before STRIP_16) -/
def specExpandedDepth (info : Info) (f : Flags) : Nat :=
  if info.bitDepth.toNat < 8 ∧ f.doExpand then 8 else info.bitDepth.toNat

/-- EXPAND on one pixel given as sample values: palette lookup; bit replication
    `v * (255 / (2^d - 1))` for grayscale below 8 bits; alpha channel from the colour key (0 exactly
    for the key, else the maximum) for grayscale and RGB. -/
def specExpandPixel (info : Info) (f : Flags) (px : List Nat) : List Nat :=
  let d := info.bitDepth.toNat
  if f.doExpand then
    match info.colorType with
    | .indexed =>
      let pal := specPalette (info.palette.getD [])
      let i := px.headD 0
      specPaletteRgb pal i ++ (if addAlpha info f then [specPaletteAlpha pal info.trns i] else [])
    | .gray =>
      let v := if d < 8 then px.map (· * (255 / (2 ^ d - 1))) else px
      v ++ (if addAlpha info f then
              [if specKey info = some px then 0 else 2 ^ specExpandedDepth info f - 1] else [])
    | .rgb =>
      px ++ (if addAlpha info f then [if specKey info = some px then 0 else 2 ^ d - 1] else [])
    | _ => px
  else px

/-- EXPAND, then STRIP_16 (keep the high byte of 16-bit samples) on one pixel -/
def specPixel (info : Info) (f : Flags) (px : List Nat) : List Nat :=
  let px1 := specExpandPixel info f px
  if specExpandedDepth info f = 16 ∧ f.strip16 then px1.map (· / 256) else px1

/-- sample depth of the output -/
def specOutputDepth (info : Info) (f : Flags) : Nat :=
  if specExpandedDepth info f = 16 ∧ f.strip16 then 8 else specExpandedDepth info f

/-- samples as bytes: one byte for depth 8, two (big-endian) for depth 16 -/
def serialize (d : Nat) (samples : List Nat) : Bytes :=
  if d = 16 then samples.flatMap fun v => [(v / 256).toUInt8, (v % 256).toUInt8]
  else samples.map (·.toUInt8)

/-- The documented conversion of one identity-decoded row of `width` pixels.  Rows with samples
    below 8 bits that are not expanded are delivered as they are (packed, padding bits included). -/
def specConvert (info : Info) (f : Flags) (row : Bytes) (width : Nat) : Bytes :=
  if info.bitDepth.toNat < 8 ∧ ¬ f.doExpand then row
  else
    (chunksN info.colorType.samples width (specSamples info.bitDepth row)).flatMap fun px =>
      serialize (specOutputDepth info f) (specPixel info f px)

/-- documented output colour type -/
def specOutputColor (info : Info) (f : Flags) : ColorType :=
  if f.doExpand then
    match info.colorType with
    | .indexed => if addAlpha info f then .rgba else .rgb
    | .gray => if addAlpha info f then .grayAlpha else .gray
    | .rgb => if addAlpha info f then .rgba else .rgb
    | ct => ct
  else info.colorType

def specOutputColorType (info : Info) (f : Flags) : ColorType × Nat :=
  (specOutputColor info f, specOutputDepth info f)

/-- documented size of one output row -/
def specOutputLineSize (info : Info) (f : Flags) (width : Nat) : Nat :=
  (width * (specOutputColor info f).samples * specOutputDepth info f + 7) / 8

/-! ## Implementation-shaped: sizes -/

/-- `ColorType::raw_row_length_from_width` (common.rs:59-71), including the filter byte.
    `usize` is 64 bits and `width < 2^32`, so no product overflows. -/
def rawRowLengthFromWidth (ct : ColorType) (d : BitDepth) (width : Nat) : Nat :=
  let samples := width * ct.samples
  1 + match d with
    | .sixteen => samples * 2
    | .eight => samples
    | subbyte =>
      let samplesPerByte := 8 / subbyte.toNat
      let whole := samples / samplesPerByte
      let fract := if samples % samplesPerByte > 0 then 1 else 0
      whole + fract

/-- `Reader::output_color_type` (decoder/mod.rs:594-626); `BitDepth::from_u8(bits).unwrap()` is
    the `none → panic` case -/
def outputColorType (info : Info) (f : Flags) : Except Err (ColorType × BitDepth) :=
  if f.isIdentity then .ok (info.colorType, info.bitDepth)
  else
    let n := info.bitDepth.toNat
    let bits :=
      if n = 16 ∧ f.strip16 then 8
      else if n < 8 ∧ (f.expand || f.alpha) then 8
      else n
    let colorType :=
      if f.expand || f.alpha then
        let hasTrns := info.trns.isSome || f.alpha
        match info.colorType with
        | .gray => if hasTrns then .grayAlpha else .gray
        | .rgb => if hasTrns then .rgba else .rgb
        | .indexed => if hasTrns then .rgba else .rgb
        | ct => ct
      else info.colorType
    match BitDepth.ofNat? bits with
    | some d => .ok (colorType, d)
    | none => .error .panic

/-- `Reader::output_line_size` (decoder/mod.rs:637-640) -/
def outputLineSize (info : Info) (f : Flags) (width : Nat) : Except Err Nat :=
  match outputColorType info f with
  | .ok (c, d) => .ok (rawRowLengthFromWidth c d width - 1)
  | .error e => .error e

/-- `Reader::output_buffer_size` (decoder/mod.rs:630-634): `size * height as usize` panics on
    overflow in builds with overflow checks -/
def outputBufferSize (info : Info) (f : Flags) (width height : Nat) : Except Err Nat :=
  match outputLineSize info f width with
  | .ok size => if size * height < 2 ^ 64 then .ok (size * height) else .error .panic
  | .error e => .error e

/-! ## Implementation-shaped: `create_rgba_palette` -/

/-- one entry of the 256-entry memo table `[[u8; 4]; 256]` -/
abbrev Rgba := UInt8 × UInt8 × UInt8 × UInt8

def Rgba.setAlpha (e : Rgba) (a : UInt8) : Rgba := (e.1, e.2.1, e.2.2.1, a)
def Rgba.toBytes (e : Rgba) : Bytes := [e.1, e.2.1, e.2.2.1, e.2.2.2]
def Rgba.rgbBytes (e : Rgba) : Bytes := [e.1, e.2.1, e.2.2.1]

/-- palette.rs:65-80.  First argument `rgba_iter` (the not yet written rows of the table), second
    `palette_iter`.  While at least 4 palette bytes remain, copy 4 bytes into `rgba_iter[0]` (the
    4th is the next entry's red: clobbers alpha) and advance by 3 bytes / one row; afterwards, if
    bytes remain, copy `palette_iter[0..3]` into `rgba_iter[0][0..3]`.  Panics: `rgba_iter[0]` on an
    exhausted table, `palette_iter[0..3]` with 1 or 2 bytes left. -/
def copyEntries : List Rgba → Bytes → Except Err (List Rgba)
  | _ :: slots, r :: g :: b :: x :: rest =>
    match copyEntries slots (x :: rest) with
    | .ok t => .ok ((r, g, b, x) :: t)
    | .error e => .error e
  | [], _ :: _ :: _ :: _ :: _ => .error .panic
  | slots, [] => .ok slots
  | e :: slots, [r, g, b] => .ok ((r, g, b, e.2.2.2) :: slots)
  | _, _ => .error .panic

/-- palette.rs:85-87: `for (alpha, rgba) in trns.iter().copied().zip(rgba_palette.iter_mut())` -/
def zipAlpha : Bytes → List Rgba → List Rgba
  | a :: t, e :: tbl => e.setAlpha a :: zipAlpha t tbl
  | _, tbl => tbl

/-- palette.rs:90-92: `for rgba in rgba_palette[lo..hi].iter_mut() { rgba[3] = 0xFF }`; the slice
    expression panics when `lo > hi` or `hi > 256` -/
def unclobber (lo hi : Nat) (tbl : List Rgba) : Except Err (List Rgba) :=
  if lo ≤ hi ∧ hi ≤ tbl.length then
    .ok (tbl.mapIdx fun i e => if lo ≤ i ∧ i < hi then e.setAlpha 0xFF else e)
  else .error .panic

/-- `create_rgba_palette` **as it was on the pinned tree a1124db** (palette.rs:39-91 there), for
    `info.palette = Some(palette)`: no look at the PLTE length, hence the panics of defect D1.  Since
    the repair (commit c0a00c7) this is the part of the function after the truncation. -/
def createRgbaPaletteOld (palette : Bytes) (trnsOpt : Option Bytes) : Except Err (List Rgba) :=
  let trns := trnsOpt.getD []
  let trns := if trns.length ≤ palette.length / 3 then trns else []
  match copyEntries (List.replicate 256 (0, 0, 0, 0xFF)) palette with
  | .error e => .error e
  | .ok t => unclobber trns.length (palette.length / 3) (zipAlpha trns t)

/-- `create_rgba_palette` (palette.rs:39-95, repaired): first
    `let palette = &palette[..(palette.len() / 3).min(256) * 3];` (palette.rs:45; the slice
    expression panics if the bound exceeds the length), then everything as before on the truncated
    palette — including the `trns.len() <= palette.len() / 3` test. -/
def createRgbaPalette (palette : Bytes) (trnsOpt : Option Bytes) : Except Err (List Rgba) :=
  let n := min (palette.length / 3) 256 * 3
  if n ≤ palette.length then createRgbaPaletteOld (palette.take n) trnsOpt else .error .panic

/-- `rgba_palette[i as usize]` -/
def memoLookup (memo : List Rgba) (i : UInt8) : Except Err Rgba :=
  match memo[i.toNat]? with
  | some e => .ok e
  | none => .error .panic

/-! ## Implementation-shaped: `expand_8bit_into_rgb8` -/

/-- palette.rs:97-110.  First argument `input`, second the remaining `output` slice (prior content);
    the result is the final content of that slice.  While at least 4 output bytes remain, write all
    4 bytes of the memo entry and advance the output by 3 — so the alpha byte lands in what the
    next round sees as `output[0]`; finally write 3 bytes.  Panics: `input[0]` on an empty input,
    `output[0..3]` with 1 or 2 bytes left. -/
def expand8bitIntoRgb8 (memo : List Rgba) : Bytes → Bytes → Except Err Bytes
  | i :: input, _ :: _ :: _ :: _ :: orest =>
    match memoLookup memo i with
    | .error e => .error e
    | .ok e =>
      match expand8bitIntoRgb8 memo input (e.2.2.2 :: orest) with
      | .ok r => .ok (e.1 :: e.2.1 :: e.2.2.1 :: r)
      | .error err => .error err
  | [], _ :: _ :: _ :: _ :: _ => .error .panic
  | _, [] => .ok []
  | i :: _, [_, _, _] =>
    match memoLookup memo i with
    | .error e => .error e
    | .ok e => .ok e.rgbBytes
  | _, _ => .error .panic

/-! ## Implementation-shaped: `unpack_bits` -/

/-- a closure passed to `unpack_bits`: from the unpacked value to the new content of the whole
    output chunk (each closure in the crate assigns every element of its chunk) -/
abbrev PixelFn := UInt8 → Except Err Bytes

/-- `a ++ b` under `Except` -/
def appendE (a b : Except Err Bytes) : Except Err Bytes :=
  match a, b with
  | .ok x, .ok y => .ok (x ++ y)
  | .error e, _ => .error e
  | _, .error e => .error e

/-- transform.rs:117-133, the loop over the `n` output chunks for `bit_depth < 8`.
    State: `shift : i32`, `curr`, and the input iterator. -/
def unpackLoop (d : Nat) (func : PixelFn) : Nat → Int → UInt8 → Bytes → Except Err Bytes
  | 0, _, _, _ => .ok []
  | n + 1, shift, curr, iter =>
    if shift < 0 then
      match iter with
      | [] => .error .panic          -- `.expect("input for unpack bits is not empty")`
      | c :: iter' =>
        let shift' : Int := 8 - d
        let pixel := (c >>> shift'.toNat.toUInt8) &&& ((1 <<< d) - 1 : Nat).toUInt8
        appendE (func pixel) (unpackLoop d func n (shift' - d) c iter')
    else
      let pixel := (curr >>> shift.toNat.toUInt8) &&& ((1 <<< d) - 1 : Nat).toUInt8
      appendE (func pixel) (unpackLoop d func n (shift - d) curr iter)

/-- transform.rs:112-116, `for (&curr, chunk) in iter.zip(&mut buf_chunks)` for `bit_depth == 8` -/
def unpack8 (func : PixelFn) : Bytes → Except Err Bytes
  | [] => .ok []
  | c :: rest => appendE (func c) (unpack8 func rest)

/-- `unpack_bits` (transform.rs:90-135): the two `assert!`s, then the chunk loop over
    `output.chunks_exact_mut(channels)`; the remainder `output.len() % channels` is left as it was.
    (`channels` is a literal 1..4 at every call site.) -/
def unpackBits (input out : Bytes) (channels d : Nat) (func : PixelFn) : Except Err Bytes :=
  if ¬ (d = 1 ∨ d = 2 ∨ d = 4 ∨ d = 8) then .error .panic
  else if 8 / d * channels * input.length < out.length then .error .panic
  else
    let n := out.length / channels
    let tail := out.drop (n * channels)
    if d = 8 then appendE (unpack8 func (input.take n)) (.ok tail)
    else appendE (unpackLoop d func n (-1) 0 input) (.ok tail)

/-- `val * scaling_factor` on `u8` (panics on overflow in builds with overflow checks) -/
def mulChecked (a b : UInt8) : Except Err UInt8 :=
  if a.toNat * b.toNat < 256 then .ok (a * b) else .error .panic

/-- `(255) / ((1u16 << info.bit_depth as u8) - 1) as u8` (transform.rs:182, 189); for depth 16 the
    shift overflows (debug) or the division is by zero (release): panic either way -/
def scalingFactor (d : Nat) : Except Err UInt8 :=
  if d < 16 then .ok ((255 : UInt8) / ((1 <<< d) - 1 : Nat).toUInt8) else .error .panic

/-- `expand_gray_u8` (transform.rs:181-186) -/
def expandGrayU8 (info : Info) (row out : Bytes) : Except Err Bytes :=
  match scalingFactor info.bitDepth.toNat with
  | .error e => .error e
  | .ok sf =>
    unpackBits row out 1 info.bitDepth.toNat fun val =>
      match mulChecked val sf with
      | .ok v => .ok [v]
      | .error e => .error e

/-- `expand_gray_u8_with_trns` (transform.rs:188-203); `trns[0]` panics on an empty tRNS -/
def expandGrayU8WithTrns (info : Info) (row out : Bytes) : Except Err Bytes :=
  match scalingFactor info.bitDepth.toNat with
  | .error e => .error e
  | .ok sf =>
    unpackBits row out 2 info.bitDepth.toNat fun pixel =>
      let alpha : Except Err UInt8 :=
        match info.trns with
        | some trns =>
          match trns with
          | [] => .error .panic
          | t0 :: _ => .ok (if pixel = t0 then 0 else 0xFF)
        | none => .ok 0xFF
      match alpha, mulChecked pixel sf with
      | .ok a, .ok v => .ok [v, a]
      | .error e, _ => .error e
      | _, .error e => .error e

/-- `expand_into_rgb8` (palette.rs:112-119) -/
def expandIntoRgb8 (info : Info) (memo : List Rgba) (row out : Bytes) : Except Err Bytes :=
  unpackBits row out 3 info.bitDepth.toNat fun i =>
    match memoLookup memo i with
    | .ok e => .ok e.rgbBytes
    | .error e => .error e

/-- `expand_paletted_into_rgba8` (palette.rs:121-130) -/
def expandPalettedIntoRgba8 (info : Info) (memo : List Rgba) (row out : Bytes) : Except Err Bytes :=
  unpackBits row out 4 info.bitDepth.toNat fun i =>
    match memoLookup memo i with
    | .ok e => .ok e.toBytes
    | .error e => .error e

/-! ## Implementation-shaped: colour-key expansion, strip, copy -/

/-- `input.chunks_exact(a).zip(output.chunks_exact_mut(b))` with a body that assigns the whole
    output chunk from the input chunk; `n = min (input.len / a) (output.len / b)` rounds; the rest
    of `output` is left as it was -/
def zipChunks (a b : Nat) (g : Bytes → Bytes) : Nat → Bytes → Bytes → Bytes
  | 0, _, out => out
  | n + 1, inp, out => g (inp.take a) ++ zipChunks a b g n (inp.drop a) (out.drop b)

def zipChunksCount (a b : Nat) (inp out : Bytes) : Nat := min (inp.length / a) (out.length / b)

/-- `Some(input) == trns` -/
def isKey (trns : Option Bytes) (px : Bytes) : Bool := trns == some px

/-- `expand_trns_line` (transform.rs:137-147) -/
def expandTrnsLine (info : Info) (row out : Bytes) : Bytes :=
  let ch := info.colorType.samples
  zipChunks ch (ch + 1) (fun px => px ++ [if isKey info.trns px then 0 else 0xFF])
    (zipChunksCount ch (ch + 1) row out) row out

/-- `expand_trns_line16` (transform.rs:149-165) -/
def expandTrnsLine16 (info : Info) (row out : Bytes) : Bytes :=
  let ch := info.colorType.samples
  zipChunks (ch * 2) (ch * 2 + 2)
    (fun px => px ++ (if isKey info.trns px then [0, 0] else [0xFF, 0xFF]))
    (zipChunksCount (ch * 2) (ch * 2 + 2) row out) row out

/-- `output[i] = input[i * 2]` for `i in 0..channels` -/
def highBytes : Bytes → Bytes
  | h :: _ :: rest => h :: highBytes rest
  | _ => []

/-- `expand_trns_and_strip_line16` (transform.rs:167-179) -/
def expandTrnsAndStripLine16 (info : Info) (row out : Bytes) : Bytes :=
  let ch := info.colorType.samples
  zipChunks (ch * 2) (ch + 1)
    (fun px => highBytes px ++ [if isKey info.trns px then 0 else 0xFF])
    (zipChunksCount (ch * 2) (ch + 1) row out) row out

/-- `transform_row_strip16` (transform.rs:83-87): `output_buffer[i] = row[2 * i]` for
    `i < row.len() / 2`; panics when the output is shorter; bytes beyond stay -/
def transformRowStrip16 : Bytes → Bytes → Except Err Bytes
  | h :: _ :: rest, _ :: out =>
    match transformRowStrip16 rest out with
    | .ok r => .ok (h :: r)
    | .error e => .error e
  | _ :: _ :: _, [] => .error .panic
  | _, out => .ok out

/-- `copy_row` (transform.rs:79-81): `copy_from_slice` panics on a length mismatch -/
def copyRow (row out : Bytes) : Except Err Bytes :=
  if row.length = out.length then .ok row else .error .panic

/-! ## Implementation-shaped: selection (`create_transform_fn`) -/

/-- the ten row functions `create_transform_fn` can return -/
inductive Kind
  | paletteRgba | paletteRgb8 | paletteRgb | grayTrns | gray
  | trnsLine | trnsStrip16 | trnsLine16 | strip16 | copy
deriving DecidableEq, Repr, Inhabited

/-- the `match` of `create_transform_fn` (transform.rs:20-77), arm by arm and in order.  The
    `assert_eq!(bit_depth, 16)` of the third arm is the `.error .panic` outcome. -/
def selectTransform (info : Info) (f : Flags) : Except Err Kind :=
  let bitDepth := info.bitDepth.toNat
  let trns := info.trns.isSome || f.alpha
  let expand := f.expand || f.alpha
  let strip16 := bitDepth == 16 && f.strip16
  let ct := info.colorType
  if ct = .indexed ∧ expand then
    if info.palette.isNone then .error .paletteRequired
    else if info.bitDepth = .sixteen then .error .invalidColorBitDepth
    else if trns then .ok .paletteRgba                       -- create_expansion_into_rgba8
    else if info.bitDepth = .eight then .ok .paletteRgb8     -- palette.rs:25
    else .ok .paletteRgb
  else if (ct = .gray ∨ ct = .grayAlpha) ∧ bitDepth < 8 ∧ expand then
    .ok (if trns then .grayTrns else .gray)
  else if (ct = .gray ∨ ct = .rgb) ∧ expand ∧ trns then
    if bitDepth = 8 then .ok .trnsLine
    else if strip16 then .ok .trnsStrip16
    else if bitDepth = 16 then .ok .trnsLine16 else .error .panic
  else if (ct = .gray ∨ ct = .grayAlpha ∨ ct = .rgb ∨ ct = .rgba) ∧ strip16 then .ok .strip16
  else .ok .copy

/-- the selected function applied to a row; the memo palette is built first, as
    `create_expansion_into_rgb(a)8` do at creation time (`expect("Caller should verify")` on a
    missing palette) -/
def applyKindWith (mkMemo : Bytes → Option Bytes → Except Err (List Rgba))
    (info : Info) (k : Kind) (row out : Bytes) : Except Err Bytes :=
  match k with
  | .paletteRgba | .paletteRgb8 | .paletteRgb =>
    match info.palette with
    | none => .error .panic
    | some pal =>
      match mkMemo pal info.trns with
      | .error e => .error e
      | .ok memo =>
        match k with
        | .paletteRgba => expandPalettedIntoRgba8 info memo row out
        | .paletteRgb8 => expand8bitIntoRgb8 memo row out
        | _ => expandIntoRgb8 info memo row out
  | .grayTrns => expandGrayU8WithTrns info row out
  | .gray => expandGrayU8 info row out
  | .trnsLine => .ok (expandTrnsLine info row out)
  | .trnsStrip16 => .ok (expandTrnsAndStripLine16 info row out)
  | .trnsLine16 => .ok (expandTrnsLine16 info row out)
  | .strip16 => transformRowStrip16 row out
  | .copy => copyRow row out

/-- the selected function with the (repaired) `create_rgba_palette` -/
def applyKind (info : Info) (k : Kind) (row out : Bytes) : Except Err Bytes :=
  applyKindWith createRgbaPalette info k row out

/-- `create_transform_fn(info, t)?` followed by `transform_fn(row, output_buffer, info)`
    (decoder/mod.rs:580-586) -/
def transformRow (info : Info) (f : Flags) (row out : Bytes) : Except Err Bytes :=
  match selectTransform info f with
  | .error e => .error e
  | .ok k => applyKind info k row out

/-- the same on the pinned tree a1124db (with `createRgbaPaletteOld`): kept for the record of
    defect D1 -/
def transformRowOld (info : Info) (f : Flags) (row out : Bytes) : Except Err Bytes :=
  match selectTransform info f with
  | .error e => .error e
  | .ok k => applyKindWith createRgbaPaletteOld info k row out

/-! ## `parse_trns`: normalisation of the colour key -/

/-- what `parse_trns` (stream.rs:1211-1272) stores in `info.trns` for the raw chunk body `raw`;
    `none` = the chunk is rejected (too short, or colour type with an alpha channel).  For
    grayscale / RGB below 16 bits only the low byte of each 16-bit key sample is kept. -/
def parseTrns (ct : ColorType) (d : BitDepth) (raw : Bytes) : Option Bytes :=
  match ct with
  | .gray =>
    if raw.length < 2 then none
    else if d.toNat < 16 then some [raw.getD 1 0] else some raw
  | .rgb =>
    if raw.length < 6 then none
    else if d.toNat < 16 then some [raw.getD 1 0, raw.getD 3 0, raw.getD 5 0] else some raw
  | .indexed => some raw
  | _ => none

/-! ## Well-formed metadata -/

/-- What the decoder needs of the metadata (weaker than validity): a legal colour type / bit depth
    pair; an indexed image has *some* PLTE chunk, of any length; a grayscale / RGB colour key has one
    stored sample per channel. -/
structure Decodable (info : Info) : Prop where
  legal : legal info.colorType info.bitDepth = true
  palette : info.colorType = .indexed → info.palette.isSome = true
  key : ∀ t, info.trns = some t → info.colorType = .gray ∨ info.colorType = .rgb →
    t.length = info.colorType.samples * (if info.bitDepth = .sixteen then 2 else 1)

/-- What the PNG specification guarantees about the metadata of a valid image: a legal colour type /
    bit depth pair; an indexed image has a PLTE chunk of 1..256 whole entries (length divisible by 3,
    at most 768 bytes — the guard `create_rgba_palette` lacked on the pinned tree, defect D1, and
    no longer needs since commit c0a00c7); a grayscale / RGB colour
    key has one stored sample per channel (two bytes each for depth 16, one byte each otherwise, as
    `parse_trns` leaves it). -/
structure WellFormed (info : Info) : Prop where
  legal : legal info.colorType info.bitDepth = true
  palette : info.colorType = .indexed →
    ∃ p, info.palette = some p ∧ p.length % 3 = 0 ∧ p.length ≤ 768
  key : ∀ t, info.trns = some t → info.colorType = .gray ∨ info.colorType = .rgb →
    t.length = info.colorType.samples * (if info.bitDepth = .sixteen then 2 else 1)

end Png.Transform
