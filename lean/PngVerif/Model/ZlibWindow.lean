import PngVerif.Model.Filter
import PngVerif.Generated.Params
/-!
# `ZlibStream` window arithmetic (`src/decoder/zlib.rs:82-229`)

Implementation-shaped model of how `ZlibStream` manages `out_buffer`: `prepare_vec_for_appending`
(:155) with `decoding_size` (:180), the call of the inflater at `out_pos` (:100-108),
`transfer_finished_data` (:196), `compact_out_buffer_if_needed` (:203), `decompress` (:82) and one
iteration of the loop of `finish_compressed_chunks` (:128-147).

The inflater is abstract: `O` is its ideal total output; in one call it produces some number of
bytes that is at most the space it is offered (`out_buffer.len() - out_pos`) and at most what is
left of `O`.  By the inflater's contract the bytes it writes are the next bytes of `O` provided the
look-back window below `out_pos` is intact — which is exactly what `ZInv` maintains.

The constants come from the source through `Generated/Params.lean` (Tie A): `ZCfg.current`.
Core Lean only (linked into `pngmodel`).
-/
namespace Png

/-- `usize::MAX`, `isize::MAX` on the 64-bit targets the harness runs on -/
def usizeMax : Nat := 2 ^ 64 - 1
def isizeMax : Nat := 2 ^ 63 - 1

/-- `usize::saturating_add` -/
def satAdd (a b : Nat) : Nat := min (a + b) usizeMax

/-- the three constants of zlib.rs -/
structure ZCfg where
  /-- `LOOKBACK_SIZE` (zlib.rs:211) -/
  lookback : Nat
  /-- the factor in `out_pos > LOOKBACK_SIZE * 4` (zlib.rs:221) -/
  factor : Nat
  /-- `CHUNK_BUFFER_SIZE` (stream.rs:21) -/
  chunk : Nat
deriving Repr

/-- the constants as extracted from the current source -/
def ZCfg.current : ZCfg := ⟨Params.lookbackSize, Params.compactFactor, Params.chunkBufferSize⟩

/-- compaction threshold `LOOKBACK_SIZE * 4` -/
def ZCfg.thresh (c : ZCfg) : Nat := c.lookback * c.factor

/-- `ZlibStream` seen through what matters for the window: `hist = out_buffer[..out_pos]`
    (so `out_pos = hist.length`), `bufLen = out_buffer.len()`, `read_pos`, `max_total_output`.
    Ghost fields: `p` = number of bytes of the ideal output `O` produced so far, `delivered` =
    everything appended to `image_data` so far. -/
structure ZW where
  hist : Bytes
  bufLen : Nat
  readPos : Nat
  maxTotal : Nat
  p : Nat
  delivered : Bytes
deriving Repr

/-- `out_pos` -/
abbrev ZW.outPos (z : ZW) : Nat := z.hist.length

/-- `new` (:34) and `reset` (:46) give the same window state -/
def ZW.init : ZW := ⟨[], 0, 0, usizeMax, 0, []⟩

/-- `reset` (:46-53); the ghost counters restart because a new zlib stream begins -/
def ZW.reset (_ : ZW) : ZW := ZW.init

/-- `set_max_total_output` (:55) -/
def ZW.setMaxTotal (z : ZW) (n : Nat) : ZW := { z with maxTotal := n }

/-- `decoding_size` (:180-194) for `max_total_output = mt` -/
def decodingSize (c : ZCfg) (len mt : Nat) : Nat :=
  min (min (min (satAdd len (max c.chunk len)) usizeMax) isizeMax) mt

/-- `prepare_vec_for_appending` (:155-178).  `none` = `debug_assert!(len <= buffered_len)` (:176)
    fails (never, see `ZW.prepare_some`). -/
def ZW.prepare (c : ZCfg) (z : ZW) : Option ZW :=
  let mt := if z.hist.length ≥ z.maxTotal then usizeMax else z.maxTotal
  let desired := min (satAdd z.hist.length c.chunk) mt
  if z.bufLen ≥ desired then some { z with maxTotal := mt }
  else
    let buffered := decodingSize c z.bufLen mt
    if buffered < z.bufLen then none
    else some { z with maxTotal := mt, bufLen := buffered }

/-- bytes actually produced when the inflater "wants" to produce `k`: at most the space offered and
    at most what is left of `O` -/
def ZW.readLen (O : Bytes) (z : ZW) (k : Nat) : Nat :=
  min k (min (z.bufLen - z.hist.length) (O.length - z.p))

/-- `state.read(data, out_buffer, out_pos, ..)` followed by `out_pos += out_consumed` (:100-108) -/
def ZW.read (O : Bytes) (z : ZW) (k : Nat) : ZW :=
  let n := z.readLen O k
  { z with hist := z.hist ++ (O.drop z.p).take n, p := z.p + n }

/-- `transfer_finished_data` (:196-201) -/
def ZW.transfer (z : ZW) : ZW :=
  { z with delivered := z.delivered ++ z.hist.drop z.readPos, readPos := z.hist.length }

/-- `compact_out_buffer_if_needed` (:203-229); `out_buffer.len()` is unchanged (`copy_within`) -/
def ZW.compact (c : ZCfg) (z : ZW) : ZW :=
  if z.hist.length > c.thresh then
    let start := z.hist.length - c.lookback           -- `saturating_sub`
    let preserved := z.hist.length - start
    { z with hist := z.hist.drop start, readPos := preserved }
  else z

/-- the part shared by `decompress` and the loop body of `finish_compressed_chunks`: prepare, run
    the inflater, transfer, compact.  `none` = panic: the `debug_assert!` in `prepare`, the
    inflater's `output_position <= output.len()` requirement, or the slice
    `out_buffer[read_pos..out_pos]` out of range. -/
def ZW.call (c : ZCfg) (O : Bytes) (z : ZW) (k : Nat) : Option ZW :=
  match z.prepare c with
  | none => none
  | some z1 =>
    if z1.bufLen < z1.hist.length then none
    else
      let z2 := z1.read O k
      if z2.hist.length < z2.readPos then none
      else some ((z2.transfer).compact c)

/-- `decompress` (:82-113) when the inflater is not yet done (when it is done the call returns
    immediately and nothing changes) -/
def ZW.decompress (c : ZCfg) (O : Bytes) (z : ZW) (k : Nat) : Option ZW := z.call c O k

/-- one iteration of `while !self.state.is_done()` in `finish_compressed_chunks` (:128-147) after
    which the inflater is still not done: as `decompress`, plus
    `assert!(transferred > 0 || out_consumed > 0)` (:141) -/
def ZW.finishIter (c : ZCfg) (O : Bytes) (z : ZW) (k : Nat) : Option ZW :=
  match z.prepare c with
  | none => none
  | some z1 =>
    if z1.bufLen < z1.hist.length then none
    else
      let n := z1.readLen O k
      let z2 := z1.read O k
      if z2.hist.length < z2.readPos then none
      else
        let transferred := z2.hist.length - z2.readPos
        if ¬ (transferred > 0 ∨ n > 0) then none
        else some ((z2.transfer).compact c)

/-- the last iteration (the inflater reports done) and the epilogue (:149-150): transfer, then
    `out_buffer.clear()`.  `hist` is kept as a ghost of what was below `out_pos`. -/
def ZW.finishLast (c : ZCfg) (O : Bytes) (z : ZW) (k : Nat) : Option ZW :=
  match z.prepare c with
  | none => none
  | some z1 =>
    if z1.bufLen < z1.hist.length then none
    else
      let z2 := z1.read O k
      if z2.hist.length < z2.readPos then none
      else some { z2.transfer with bufLen := 0 }

inductive ZOp where
  | decompress (k : Nat)
  | finishIter (k : Nat)
  | setMaxTotal (n : Nat)
deriving Repr

def ZW.step (c : ZCfg) (O : Bytes) (z : ZW) : ZOp → Option ZW
  | .decompress k => z.decompress c O k
  | .finishIter k => z.finishIter c O k
  | .setMaxTotal n => some (z.setMaxTotal n)

def ZW.run (c : ZCfg) (O : Bytes) : List ZOp → ZW → Option ZW
  | [], z => some z
  | op :: ops, z => match z.step c O op with
    | some z' => ZW.run c O ops z'
    | none => none

end Png
