/-!
# Scanline filters (`src/filter.rs`)

Specification side: `paethSpec`, `pred`, `recon`, `filt`, `reconRow`, `filtRow` read like the PNG
specification (section 9).  Implementation side: `paethA` (`filter_paeth`, filter.rs:313),
`paethStbi` (`filter_paeth_stbi`, :335), `paethFpnge` (`filter_paeth_fpnge`, :364), `unfilterImpl`
(`unfilter`, :405-897: first-row substitution, per-`bpp` chunk loops, remainder untouched),
`filterImpl` (`filter_internal`, :899-1036: leading `bpp` bytes, then body) and `adaptive`
(`filter`, :1038-1072 with `sum_buffer`, :1075).

Core Lean only: this file is linked into the `pngmodel` driver.
-/

namespace Png

abbrev Bytes := List UInt8

/-! ## Specification -/

/-- PNG specification's Paeth predictor (ties: left, above, upper-left), on integers. -/
def paethSpecInt (a b c : Int) : Int :=
  let p := a + b - c
  let pa := (p - a).natAbs
  let pb := (p - b).natAbs
  let pc := (p - c).natAbs
  if pa ≤ pb ∧ pa ≤ pc then a else if pb ≤ pc then b else c

def paethSpec (a b c : UInt8) : UInt8 :=
  (paethSpecInt a.toNat b.toNat c.toNat).toNat.toUInt8

/-- the five filter types of filter method 0 -/
inductive FilterType | none | sub | up | avg | paeth
deriving DecidableEq, Repr, Inhabited

def FilterType.ofNat? : Nat → Option FilterType
  | 0 => some .none | 1 => some .sub | 2 => some .up | 3 => some .avg | 4 => some .paeth
  | _ => Option.none

def FilterType.toNat : FilterType → Nat
  | .none => 0 | .sub => 1 | .up => 2 | .avg => 3 | .paeth => 4

/-- predictor of each filter type from the three neighbours a (left), b (above), c (upper left) -/
def pred : FilterType → UInt8 → UInt8 → UInt8 → UInt8
  | .none, _, _, _ => 0
  | .sub, a, _, _ => a
  | .up, _, b, _ => b
  | .avg, a, b, _ => ((a.toNat + b.toNat) / 2).toUInt8
  | .paeth, a, b, c => paethSpec a b c

/-- byte `k` positions back in `done`, or 0 (bytes left of the row count as 0) -/
def back (done : Bytes) (k : Nat) : UInt8 :=
  if k ≤ done.length ∧ 0 < k then done.getD (done.length - k) 0 else 0

/-- the three neighbours of the byte that follows `done` -/
def nbrs (bpp : Nat) (prior done : Bytes) : UInt8 × UInt8 × UInt8 :=
  (back done bpp, prior.getD done.length 0,
   if bpp ≤ done.length ∧ 0 < bpp then prior.getD (done.length - bpp) 0 else 0)

/-- specification: bytes reconstructed from `fs`, given the reconstructed prefix `done` -/
def recon (p : UInt8 → UInt8 → UInt8 → UInt8) (bpp : Nat) (prior : Bytes) : Bytes → Bytes → Bytes
  | _, [] => []
  | done, x :: xs =>
    let (a, b, c) := nbrs bpp prior done
    let v := x + p a b c
    v :: recon p bpp prior (done ++ [v]) xs

/-- specification: filtered bytes for raw `todo`, given the raw prefix `done` -/
def filt (p : UInt8 → UInt8 → UInt8 → UInt8) (bpp : Nat) (prior : Bytes) : Bytes → Bytes → Bytes
  | _, [] => []
  | done, x :: xs =>
    let (a, b, c) := nbrs bpp prior done
    (x - p a b c) :: filt p bpp prior (done ++ [x]) xs

/-- Recon of a whole row.  `prior = []` for the first row of an image or pass (all zero). -/
def reconRow (ft : FilterType) (bpp : Nat) (prior row : Bytes) : Bytes := recon (pred ft) bpp prior [] row
def filtRow (ft : FilterType) (bpp : Nat) (prior row : Bytes) : Bytes := filt (pred ft) bpp prior [] row

/-! ## Implementation-shaped -/

def iabs (x : Int) : Int := if x < 0 then -x else x

/-- `filter_paeth` (filter.rs:313): i16 arithmetic, running minimum -/
def paethAInt (a b c : Int) : Int :=
  let pa := iabs (b - c)
  let pb := iabs (a - c)
  let pc := iabs ((a - c) + (b - c))
  let out := a
  let mn := pa
  let (mn, out) := if pb < mn then (pb, b) else (mn, out)
  let out := if pc < mn then c else out
  out

/-- `filter_paeth_stbi` (filter.rs:335) -/
def paethStbiInt (a b c : Int) : Int :=
  let thresh := c * 3 - (a + b)
  let lo := min a b
  let hi := max a b
  let t0 := if hi ≤ thresh then lo else c
  let t1 := if thresh ≤ lo then hi else t0
  t1

/-- `filter_paeth_fpnge` (filter.rs:364): unsigned 8-bit arithmetic (no subtraction underflows) -/
def paethFpngeNat (a b c : Nat) : Nat :=
  let pa := max b c - min c b
  let pb := max a c - min c a
  let pc := if (decide (a < c)) == (decide (c < b)) then max pa pb - min pa pb else 255
  if pa ≤ pb ∧ pa ≤ pc then a else if pb ≤ pc then b else c

def paethA (a b c : UInt8) : UInt8 := (paethAInt a.toNat b.toNat c.toNat).toNat.toUInt8
def paethStbi (a b c : UInt8) : UInt8 := (paethStbiInt a.toNat b.toNat c.toNat).toNat.toUInt8
def paethFpnge (a b c : UInt8) : UInt8 := (paethFpngeNat a.toNat b.toNat c.toNat).toUInt8

/-- bitwise average used by the encoder (filter.rs:981) -/
def avgBitwise (a b : UInt8) : UInt8 := (a &&& b) + ((a ^^^ b) >>> 1)

/-- `((above as u16 + left as u16) / 2) as u8` (filter.rs:666) -/
def avgWide (a b : UInt8) : UInt8 := ((a.toNat + b.toNat) / 2).toUInt8

def zipWith4 (f : UInt8 → UInt8 → UInt8 → UInt8 → UInt8) : Bytes → Bytes → Bytes → Bytes → Bytes
  | a :: as, b :: bs, c :: cs, x :: xs => f a b c x :: zipWith4 f as bs cs xs
  | _, _, _, _ => []

/-- `for (chunk, above) in current.chunks_exact_mut(n).zip(previous.chunks_exact(n))` carrying the
    arrays `a` (last output chunk) and `c` (last `previous` chunk).  A trailing partial chunk of
    either slice stops the loop and the rest of `current` stays untouched. -/
def chunkLoop2 (n : Nat) (f : UInt8 → UInt8 → UInt8 → UInt8 → UInt8) :
    Nat → Bytes → Bytes → Bytes → Bytes → Bytes
  | 0, _, _, cur, _ => cur
  | fuel+1, a, c, cur, prev =>
    if cur.length < n ∨ prev.length < n ∨ n = 0 then cur
    else
      let b := prev.take n
      let new := zipWith4 f a b c (cur.take n)
      new ++ chunkLoop2 n f fuel new b (cur.drop n) (prev.drop n)

/-- `for chunk in current.chunks_exact_mut(n)` carrying `prev` (loops that ignore `previous`) -/
def chunkLoop1 (n : Nat) (f : UInt8 → UInt8 → UInt8) : Nat → Bytes → Bytes → Bytes
  | 0, _, cur => cur
  | fuel+1, a, cur =>
    if cur.length < n ∨ n = 0 then cur
    else
      let new := List.zipWith f a (cur.take n)
      new ++ chunkLoop1 n f fuel new (cur.drop n)

/-- `current.iter_mut().reduce(|&mut prev, curr| { *curr = g(curr, prev); curr })` (bpp = 1 arms) -/
def reduceLoop (g : UInt8 → UInt8 → UInt8) : Bytes → Bytes
  | [] => []
  | x :: xs => x :: go x xs
where
  go (prev : UInt8) : Bytes → Bytes
    | [] => []
    | y :: ys => let v := g y prev; v :: go v ys

/-- the decoder's Paeth on this target (x86_64: `filter_paeth_stbi`) -/
def paethDecode := paethStbi

/-- `unfilter` (filter.rs:405).  `bpp` is a `BytesPerPixel` value (1,2,3,4,6,8). -/
def unfilterImpl (ft : FilterType) (bpp : Nat) (previous current : Bytes) : Bytes :=
  let ft := if previous.isEmpty then
      (match ft with | .paeth => FilterType.sub | .up => FilterType.none | f => f) else ft
  let zeros := List.replicate bpp (0 : UInt8)
  let fuel := current.length + 1
  match ft with
  | .none => current
  | .sub =>
    if bpp = 1 then reduceLoop (fun cur prev => cur + prev) current
    else chunkLoop1 bpp (fun p x => x + p) fuel zeros current
  | .up => List.zipWith (fun cur above => cur + above) current previous ++ current.drop (min current.length previous.length)
  | .avg =>
    if previous.isEmpty then
      if bpp = 1 then reduceLoop (fun cur prev => cur + prev / 2) current
      else chunkLoop1 bpp (fun p x => x + p / 2) fuel zeros current
    else chunkLoop2 bpp (fun a b _ x => x + avgWide b a) fuel zeros zeros current previous
  | .paeth => chunkLoop2 bpp (fun a b c x => x + paethDecode a b c) fuel zeros zeros current previous

/-- `filter_internal` (filter.rs:899): body computed from shifted slices (the 32-byte chunking and
    its remainder loop are a plain `zipWith` over the common length), then the leading `bpp` bytes.
    Requires `bpp ≤ len` and (`Up/Avg/Paeth`) `previous.length = len`, as at every call site. -/
def filterImpl (ft : FilterType) (bpp : Nat) (previous current : Bytes) : Bytes :=
  let len := current.length
  match ft with
  | .none => current
  | .sub =>
    current.take bpp ++ List.zipWith (fun cur p => cur - p) (current.drop bpp) (current.take (len - bpp))
  | .up => List.zipWith (fun cur p => cur - p) current previous
  | .avg =>
    List.zipWith (fun cur p => cur - p / 2) (current.take bpp) previous ++
    zipWith4 (fun cmb p _ cur => cur - avgBitwise cmb p)
      (current.take (len - bpp)) (previous.drop bpp) (previous.drop bpp) (current.drop bpp)
  | .paeth =>
    List.zipWith (fun cur p => cur - paethFpnge 0 p 0) (current.take bpp) previous ++
    zipWith4 (fun a b c cur => cur - paethFpnge a b c)
      (current.take (len - bpp)) (previous.drop bpp) (previous.take (len - bpp)) (current.drop bpp)

/-- `sum_buffer` (filter.rs:1075): Σ |b as i8| (the saturating `u64` adds cannot saturate for any
    representable length; modelled on `Nat`) -/
def sumBuffer (buf : Bytes) : Nat :=
  buf.foldl (fun acc b => acc + (if b.toNat < 128 then b.toNat else 256 - b.toNat)) 0

/-- `filter` with `Filter::Adaptive` (filter.rs:1050-1066): last minimiser in the order
    Sub, Up, Avg, Paeth because of `<=` -/
def adaptive (bpp : Nat) (previous current : Bytes) : FilterType × Bytes :=
  let step (acc : Option (Nat × FilterType)) (ft : FilterType) : Option (Nat × FilterType) :=
    let s := sumBuffer (filterImpl ft bpp previous current)
    match acc with
    | Option.none => some (s, ft)
    | some (m, best) => if s ≤ m then some (s, ft) else some (m, best)
  match [FilterType.sub, .up, .avg, .paeth].foldl step Option.none with
  | some (_, ft) => (ft, filterImpl ft bpp previous current)
  | Option.none => (.none, current)

end Png
