import PngVerif.Model.Spec
/-!
# A strict PNG / APNG validator (specification side of C12 and C19)

`validPng : ByteArray → Except String Unit` accepts exactly the byte streams that satisfy the rules
listed below, all of them taken from the PNG specification (W3C, 2nd/3rd edition: 5.2 signature,
5.3 chunk layout, 5.6 chunk ordering, 11.2 critical chunks, 11.3 ancillary chunks, 9 filtering,
10 compression) and from the APNG specification (acTL / fcTL / fdAT, sequence numbers).  It shares no
mechanism with the encoder of the crate; it is built on the specification-level reader of
`Model/Spec.lean` (`parseChunks`, `parseIhdr`, `rowBytes`, `passCount`) and the Lean inflater
(`Inf.zlibInflate`, which needs the whole zlib stream including its Adler-32).

The result names the FIRST RULE BROKEN in the following rule order.

1. byte level (`parseStrict`): `signature`; `truncated-chunk-header` / `truncated-chunk`;
   `chunk-length` (> 2^31-1); `chunk-type` (a type byte that is not an ASCII letter); `crc`;
   `data-after-iend`.
2. `no-chunks`, `first-chunk-not-ihdr`, the IHDR field rules of `Spec.parseIhdr`.
3. chunk summaries (`summarize`): `actl-length`, `fctl-length`, `fdat-too-short`.
4. the sequencing automaton (`skStep`, `skEnd`) in file order:
   `chunk-after-iend`, `duplicate-ihdr`, `plte-after-idat`, `duplicate-plte`, `plte-forbidden`,
   `plte-length`, `plte-missing`, `idat-not-consecutive`, `first-frame-not-canvas`,
   `actl-after-idat`, `duplicate-actl`, `actl-zero-frames`, `fctl-without-actl`,
   `fdat-without-actl`, `fctl-without-data`, `seq-number`, `frame-zero-size`,
   `frame-outside-canvas`, `fctl-dispose-op`, `fctl-blend-op`, `fdat-before-idat`,
   `fdat-without-fctl`, `unknown-critical`, `chunk-type-reserved-bit`, `no-idat`, `fctl-count`,
   `iend-not-empty`, `iend-missing`; and, whenever a run of IDAT (or fdAT) chunks ends, the image
   rule for the concatenated payload (parameter `imgOk`; in `validPng`: `zlib-corrupt`,
   `zlib-trailing-data`, `image-data-size`, `filter-type`).
5. placement of ancillary chunks (`orderOk`): `duplicate-<type>` for the chunks that may occur at
   most once; `<type>-after-plte` (cHRM gAMA iCCP sBIT sRGB cICP mDCV cLLI), `<type>-after-idat`
   (those, and bKGD hIST tRNS pHYs sPLT eXIf acTL), `<type>-before-plte` (bKGD hIST tRNS when a
   PLTE exists).
6. contents of the ancillary chunks the crate can write (`contentOk`): `trns-length`,
   `trns-forbidden`, `gama-length`, `chrm-length`, `srgb-length`, `srgb-intent`, `phys-length`,
   `phys-unit`, `text-keyword` (keyword of 1..79 bytes followed by a NUL separator; tEXt, zTXt,
   iTXt), `ztxt-method`, `ztxt-stream`, `itxt-header`, `itxt-stream`, `iccp-header`, `iccp-stream`.

The automaton works on chunk *summaries* (`CSum`) so that the same function can be applied to the
chunk list of the implementation-shaped encoder model (`Model/Encoder.lean`) and to the chunks parsed
from real bytes.  The image rule is a parameter of the automaton: theorems use any `imgOk`, the
executable validator instantiates it with `realImgOk` (Lean inflater).
-/
namespace Png.Val
open Png Png.Spec

/-- chunk type: the four type bytes read as a big-endian number -/
abbrev Ty := Nat

def tyIHDR : Ty := 1229472850
def tyPLTE : Ty := 1347179589
def tyIDAT : Ty := 1229209940
def tyIEND : Ty := 1229278788
def tyACTL : Ty := 1633899596
def tyFCTL : Ty := 1717785676
def tyFDAT : Ty := 1717846356
def tyTRNS : Ty := 1951551059
def tyPHYS : Ty := 1883789683
def tySRGB : Ty := 1934772034
def tyGAMA : Ty := 1732332865
def tyCHRM : Ty := 1665684045
def tyICCP : Ty := 1766015824
def tyEXIF : Ty := 1700284774
def tyTEXT : Ty := 1950701684
def tyZTXT : Ty := 2052348020
def tyITXT : Ty := 1767135348
def tyBKGD : Ty := 1649100612
def tyHIST : Ty := 1749635924
def tySBIT : Ty := 1933723988
def tySPLT : Ty := 1934642260
def tyTIME : Ty := 1950960965
def tyCICP : Ty := 1665745744
def tyMDCV : Ty := 1833190230
def tyCLLI : Ty := 1665944649

/-- the four type bytes -/
def tyBytes (t : Ty) : Bytes := be32Bytes t
def tyByte (t : Ty) (i : Nat) : Nat := t / 256 ^ (3 - i) % 256
def tyName (t : Ty) : String := String.ofList ((List.range 4).map fun i => Char.ofNat (tyByte t i))

def isLetter (b : Nat) : Bool := (65 ≤ b && b ≤ 90) || (97 ≤ b && b ≤ 122)
def tyLetters (t : Ty) : Bool := t < 2 ^ 32 && (List.range 4).all fun i => isLetter (tyByte t i)
/-- bit 5 of the first byte clear: critical chunk -/
def tyCritical (t : Ty) : Bool := tyByte t 0 / 32 % 2 == 0
/-- bit 5 of the second byte set: private chunk -/
def tyPrivate (t : Ty) : Bool := tyByte t 1 / 32 % 2 == 1
/-- bit 5 of the third byte must be clear in this version of PNG -/
def tyReservedOk (t : Ty) : Bool := tyByte t 2 / 32 % 2 == 0

/-- a chunk as found in a file: type and payload -/
structure RChunk where
  ty : Ty
  data : Bytes
deriving DecidableEq, Repr

/-- big-endian 32-bit field at offset `i` of a payload (missing bytes read as 0; lengths are
    checked before any field is used) -/
def be32At (d : Bytes) (i : Nat) : Nat := be32 (d.getD i 0) (d.getD (i+1) 0) (d.getD (i+2) 0) (d.getD (i+3) 0)
def be16At (d : Bytes) (i : Nat) : Nat := (d.getD i 0).toNat * 256 + (d.getD (i+1) 0).toNat

/-! ## Chunk summaries -/

/-- what the sequencing rules need to know about a chunk -/
inductive CSum
  | ihdr
  | plte (len : Nat)
  | idat (data : Bytes)
  | iend (len : Nat)
  | actl (frames plays : Nat)
  | fctl (f : Fctl)
  | fdat (seq : Nat) (data : Bytes)
  | other (ty : Ty) (len : Nat)
deriving DecidableEq, Repr

def parseFctlL (d : Bytes) : Fctl :=
  { seq := be32At d 0, width := be32At d 4, height := be32At d 8, x := be32At d 12, y := be32At d 16,
    delayNum := be16At d 20, delayDen := be16At d 22, dispose := (d.getD 24 0).toNat, blend := (d.getD 25 0).toNat }

def summarize (c : RChunk) : Except String CSum :=
  if c.ty = tyIHDR then .ok .ihdr
  else if c.ty = tyPLTE then .ok (.plte c.data.length)
  else if c.ty = tyIDAT then .ok (.idat c.data)
  else if c.ty = tyIEND then .ok (.iend c.data.length)
  else if c.ty = tyACTL then
    if c.data.length = 8 then .ok (.actl (be32At c.data 0) (be32At c.data 4)) else .error "actl-length"
  else if c.ty = tyFCTL then
    if c.data.length = 26 then .ok (.fctl (parseFctlL c.data)) else .error "fctl-length"
  else if c.ty = tyFDAT then
    if c.data.length ≥ 4 then .ok (.fdat (be32At c.data 0) (c.data.drop 4)) else .error "fdat-too-short"
  else .ok (.other c.ty c.data.length)

/-! ## The sequencing automaton -/

/- Sequence numbers are 32-bit fields: the automaton counts modulo 2^32 like the field itself (a
   stream with more than 2^32 fcTL/fdAT chunks is longer than 50 GB; the APNG specification does
   not say what follows 2^32-1). -/
inductive Phase
  | pre                                   -- no IDAT yet
  | idat (acc : Bytes)                    -- inside the run of IDAT chunks; payload so far
  | fdat (w h : Nat) (acc : Bytes)        -- inside a run of fdAT chunks of a frame of size w × h
  | mid                                   -- after the IDAT run, not inside a run of data chunks
  | done                                  -- IEND seen
deriving DecidableEq, Repr

structure Sk where
  cw : Nat                 -- canvas width, height (IHDR)
  ch : Nat
  color : Nat
  plte : Bool := false
  frames : Option Nat := none     -- acTL seen: declared number of frames
  pending : Option Fctl := none   -- an fcTL whose image data has not started yet
  nextSeq : Nat := 0
  fctls : Nat := 0                -- number of fcTL chunks seen
  phase : Phase := .pre
deriving DecidableEq, Repr

/-- image rule: `imgOk w h z` for the concatenated payload `z` of an image of `w × h` pixels -/
abbrev ImgRule := Nat → Nat → Bytes → Except String Unit

/-- a chunk that is not a continuation of the current run of data chunks ends the run: the
    collected payload must be one complete image -/
def closeRun (imgOk : ImgRule) (sk : Sk) : Except String Sk :=
  match sk.phase with
  | .idat acc => match imgOk sk.cw sk.ch acc with
    | .ok _ => .ok { sk with phase := .mid }
    | .error e => .error e
  | .fdat w h acc => match imgOk w h acc with
    | .ok _ => .ok { sk with phase := .mid }
    | .error e => .error e
  | _ => .ok sk

def fctlFieldsOk (sk : Sk) (f : Fctl) : Except String Unit :=
  if f.width = 0 ∨ f.height = 0 then .error "frame-zero-size"
  else if f.x + f.width > sk.cw ∨ f.y + f.height > sk.ch then .error "frame-outside-canvas"
  else if f.dispose > 2 then .error "fctl-dispose-op"
  else if f.blend > 1 then .error "fctl-blend-op"
  else .ok ()

def coversCanvas (sk : Sk) (f : Fctl) : Bool := f.x == 0 && f.y == 0 && f.width == sk.cw && f.height == sk.ch

def stepIdat (sk : Sk) (d : Bytes) : Except String Sk :=
  match sk.phase with
  | .pre =>
    if sk.color = 3 ∧ sk.plte = false then .error "plte-missing" else
    match sk.pending with
    | some f => if coversCanvas sk f then .ok { sk with phase := .idat d, pending := none } else .error "first-frame-not-canvas"
    | none => .ok { sk with phase := .idat d }
  | .idat acc => .ok { sk with phase := .idat (acc ++ d) }
  | _ => .error "idat-not-consecutive"

def stepFdat (imgOk : ImgRule) (sk : Sk) (seq : Nat) (d : Bytes) : Except String Sk :=
  if sk.frames = none then .error "fdat-without-actl" else
  if seq ≠ sk.nextSeq then .error "seq-number" else
  match sk.phase with
  | .pre => .error "fdat-before-idat"
  | .fdat w h acc => .ok { sk with phase := .fdat w h (acc ++ d), nextSeq := (sk.nextSeq + 1) % 2 ^ 32 }
  | _ =>
    match closeRun imgOk sk with
    | .error e => .error e
    | .ok sk' =>
      match sk'.pending with
      | none => .error "fdat-without-fctl"
      | some f => .ok { sk' with phase := .fdat f.width f.height d, pending := none, nextSeq := (sk'.nextSeq + 1) % 2 ^ 32 }

def stepFctl (imgOk : ImgRule) (sk : Sk) (f : Fctl) : Except String Sk :=
  match closeRun imgOk sk with
  | .error e => .error e
  | .ok sk' =>
    if sk'.frames = none then .error "fctl-without-actl" else
    if sk'.pending ≠ none then .error "fctl-without-data" else
    if f.seq ≠ sk'.nextSeq then .error "seq-number" else
    match fctlFieldsOk sk' f with
    | .error e => .error e
    | .ok _ => .ok { sk' with pending := some f, nextSeq := (sk'.nextSeq + 1) % 2 ^ 32, fctls := sk'.fctls + 1 }

def stepActl (sk : Sk) (n : Nat) : Except String Sk :=
  if sk.phase ≠ .pre then .error "actl-after-idat" else
  if sk.frames ≠ none then .error "duplicate-actl" else
  if n = 0 then .error "actl-zero-frames" else
  .ok { sk with frames := some n }

def stepPlte (sk : Sk) (len : Nat) : Except String Sk :=
  if sk.phase ≠ .pre then .error "plte-after-idat" else
  if sk.plte then .error "duplicate-plte" else
  if sk.color = 0 ∨ sk.color = 4 then .error "plte-forbidden" else
  if len % 3 ≠ 0 ∨ len = 0 ∨ len > 768 then .error "plte-length" else
  .ok { sk with plte := true }

def stepIend (imgOk : ImgRule) (sk : Sk) (len : Nat) : Except String Sk :=
  match closeRun imgOk sk with
  | .error e => .error e
  | .ok sk' =>
    if sk'.phase ≠ .mid then .error "no-idat" else
    if sk'.pending ≠ none then .error "fctl-without-data" else
    if sk'.frames ≠ none ∧ sk'.frames ≠ some sk'.fctls then .error "fctl-count" else
    if len ≠ 0 then .error "iend-not-empty" else
    .ok { sk' with phase := .done }

def stepOther (imgOk : ImgRule) (sk : Sk) (ty : Ty) : Except String Sk :=
  match closeRun imgOk sk with
  | .error e => .error e
  | .ok sk' =>
    if tyCritical ty then .error "unknown-critical" else
    if !tyReservedOk ty then .error "chunk-type-reserved-bit" else
    .ok sk'

def skStep (imgOk : ImgRule) (sk : Sk) (c : CSum) : Except String Sk :=
  if sk.phase = .done then .error "chunk-after-iend" else
  match c with
  | .ihdr => .error "duplicate-ihdr"
  | .plte len => stepPlte sk len
  | .idat d => stepIdat sk d
  | .iend len => stepIend imgOk sk len
  | .actl n _ => stepActl sk n
  | .fctl f => stepFctl imgOk sk f
  | .fdat seq d => stepFdat imgOk sk seq d
  | .other ty _ => stepOther imgOk sk ty

def skRun (imgOk : ImgRule) : Sk → List CSum → Except String Sk
  | sk, [] => .ok sk
  | sk, c :: cs => match skStep imgOk sk c with
    | .ok sk' => skRun imgOk sk' cs
    | .error e => .error e

def skEnd (sk : Sk) : Except String Unit := if sk.phase = .done then .ok () else .error "iend-missing"

/-- the sequencing rules for the summaries of the chunks AFTER the IHDR -/
def skeletonOk (imgOk : ImgRule) (cw ch color : Nat) (cs : List CSum) : Except String Unit :=
  match skRun imgOk { cw, ch, color } cs with
  | .ok sk => skEnd sk
  | .error e => .error e

/-- Bool form used in theorem statements -/
def validSkeleton (imgOk : ImgRule) (cw ch color : Nat) (cs : List CSum) : Bool :=
  match skeletonOk imgOk cw ch color cs with
  | .ok _ => true
  | .error _ => false

/-- rules 3 and 4 for the raw chunks after the IHDR -/
def skeletonOfChunks (imgOk : ImgRule) (cw ch color : Nat) (rest : List RChunk) : Except String Unit :=
  match rest.mapM summarize with
  | .error e => .error e
  | .ok sums => skeletonOk imgOk cw ch color sums

/-! ## Placement of ancillary chunks (on the list of chunk types) -/

def onceTypes : List Ty :=
  [tyCHRM, tyGAMA, tyICCP, tySBIT, tySRGB, tyBKGD, tyHIST, tyTRNS, tyPHYS, tyTIME, tyEXIF, tyCICP, tyMDCV, tyCLLI]
/-- must precede PLTE and IDAT -/
def prePlteTypes : List Ty := [tyCHRM, tyGAMA, tyICCP, tySBIT, tySRGB, tyCICP, tyMDCV, tyCLLI]
/-- must follow PLTE (if there is one) and precede IDAT -/
def postPlteTypes : List Ty := [tyBKGD, tyHIST, tyTRNS]
/-- must precede IDAT -/
def preIdatTypes : List Ty := [tyPHYS, tySPLT, tyEXIF]

/-- first type of `ts` that occurs twice -/
def firstDup : List Ty → Option Ty
  | [] => none
  | t :: ts => if ts.contains t then some t else firstDup ts

/-- first element of `ts` satisfying `bad` that comes after an element satisfying `mark` -/
def firstAfter (mark bad : Ty → Bool) : List Ty → Option Ty
  | [] => none
  | t :: ts => if mark t then ts.find? bad else firstAfter mark bad ts

def orderOk (ts : List Ty) : Except String Unit :=
  match firstDup (ts.filter onceTypes.contains) with
  | some t => .error s!"duplicate-{tyName t}"
  | none =>
  match firstAfter (· == tyPLTE) prePlteTypes.contains ts with
  | some t => .error s!"{tyName t}-after-plte"
  | none =>
  match firstAfter (· == tyIDAT) (fun t => prePlteTypes.contains t || postPlteTypes.contains t || preIdatTypes.contains t) ts with
  | some t => .error s!"{tyName t}-after-idat"
  | none =>
  match firstAfter postPlteTypes.contains (· == tyPLTE) ts with
  | some _ => match ts.find? postPlteTypes.contains with
    | some t => .error s!"{tyName t}-before-plte"
    | none => .error "plte-order"
  | none => .ok ()

/-! ## Contents of ancillary chunks -/

/-- index of the first NUL, if any -/
def nulIndex (d : Bytes) : Option Nat := d.findIdx? (· == 0)

/-- keyword of 1..79 bytes followed by a NUL separator; returns the rest after the separator -/
def splitKeywordStrict (d : Bytes) : Option Bytes :=
  match nulIndex d with
  | some i => if 1 ≤ i ∧ i ≤ 79 then some (d.drop (i + 1)) else none
  | none => none

def zlibWhole (z : Bytes) : Bool :=
  match Inf.zlibInflate (ofList z) true with
  | some (_, used) => used == z.length
  | none => false

/-- payload rules; `plteEntries` = number of palette entries (0 without PLTE) -/
def contentOk (ih : Ihdr) (plteEntries : Nat) (c : RChunk) : Except String Unit :=
  let n := c.data.length
  if c.ty = tyTRNS then
    if ih.color = 4 ∨ ih.color = 6 then .error "trns-forbidden"
    else if ih.color = 0 ∧ n ≠ 2 then .error "trns-length"
    else if ih.color = 2 ∧ n ≠ 6 then .error "trns-length"
    else if ih.color = 3 ∧ (n = 0 ∨ n > plteEntries) then .error "trns-length"
    else .ok ()
  else if c.ty = tyGAMA then (if n = 4 then .ok () else .error "gama-length")
  else if c.ty = tyCHRM then (if n = 32 then .ok () else .error "chrm-length")
  else if c.ty = tySRGB then
    if n ≠ 1 then .error "srgb-length" else if (c.data.getD 0 0).toNat > 3 then .error "srgb-intent" else .ok ()
  else if c.ty = tyPHYS then
    if n ≠ 9 then .error "phys-length" else if (c.data.getD 8 0).toNat > 1 then .error "phys-unit" else .ok ()
  else if c.ty = tyTEXT then
    match splitKeywordStrict c.data with
    | some _ => .ok ()
    | none => .error "text-keyword"
  else if c.ty = tyZTXT then
    match splitKeywordStrict c.data with
    | none => .error "text-keyword"
    | some rest =>
      match rest with
      | [] => .error "ztxt-method"
      | m :: z => if m ≠ 0 then .error "ztxt-method" else if zlibWhole z then .ok () else .error "ztxt-stream"
  else if c.ty = tyITXT then
    match splitKeywordStrict c.data with
    | none => .error "text-keyword"
    | some rest =>
      match rest with
      | flag :: method :: r2 =>
        if flag.toNat > 1 ∨ method ≠ 0 then .error "itxt-header" else
        match nulIndex r2 with
        | none => .error "itxt-header"
        | some i =>
          let r3 := r2.drop (i + 1)
          match nulIndex r3 with
          | none => .error "itxt-header"
          | some j =>
            let text := r3.drop (j + 1)
            if flag = 1 ∧ !zlibWhole text then .error "itxt-stream" else .ok ()
      | _ => .error "itxt-header"
  else if c.ty = tyICCP then
    match splitKeywordStrict c.data with
    | none => .error "iccp-header"
    | some rest =>
      match rest with
      | [] => .error "iccp-header"
      | m :: z => if m ≠ 0 then .error "iccp-header" else if zlibWhole z then .ok () else .error "iccp-stream"
  else .ok ()

def firstError {α : Type} (f : α → Except String Unit) : List α → Except String Unit
  | [] => .ok ()
  | x :: xs => match f x with
    | .ok _ => firstError f xs
    | .error e => .error e

/-! ## The image rule with the Lean inflater -/

/-- (rows, bytes per row) of every non-empty pass, in stream order -/
def layout (ih : Ihdr) (w h : Nat) : List (Nat × Nat) :=
  if ih.interlace = 0 then [(h, rowBytes ih w)]
  else Params.adam7Pass.filterMap fun (xo, yo, xs, ys) =>
    let pw := passCount w xo xs
    let ph := passCount h yo ys
    if pw > 0 ∧ ph > 0 then some (ph, rowBytes ih pw) else none

def layoutSize (l : List (Nat × Nat)) : Nat := l.foldl (fun (a : Nat) (p : Nat × Nat) => a + p.1 * (1 + p.2)) 0

/-- every scanline starts with a filter type byte ≤ 4 -/
def filterBytesOk (raw : ByteArray) : List (Nat × Nat) → Nat → Bool
  | [], _ => true
  | (rows, rb) :: rest, pos =>
    (List.range rows).all (fun i => raw[pos + i * (1 + rb)]!.toNat ≤ 4) && filterBytesOk raw rest (pos + rows * (1 + rb))

/-- one zlib stream, nothing after its Adler-32, inflating to exactly the scanlines of a `w × h` image -/
def realImgOk (ih : Ihdr) : ImgRule := fun w h z =>
  match Inf.zlibInflate (ofList z) true with
  | none => .error "zlib-corrupt"
  | some (raw, used) =>
    if used ≠ z.length then .error "zlib-trailing-data" else
    let l := layout ih w h
    if raw.size ≠ layoutSize l then .error "image-data-size" else
    if !filterBytesOk raw l 0 then .error "filter-type" else .ok ()

/-! ## Whole chunk lists and whole files -/

def plteEntriesOf (cs : List RChunk) : Nat :=
  match cs.find? (·.ty == tyPLTE) with
  | some c => c.data.length / 3
  | none => 0

/-- rules 2–6 for a parsed chunk list; `imgOkOf` yields the image rule once the IHDR is known -/
def validChunks (imgOkOf : Ihdr → ImgRule) (cs : List RChunk) : Except String Unit :=
  match cs with
  | [] => .error "no-chunks"
  | c0 :: rest =>
    if c0.ty ≠ tyIHDR then .error "first-chunk-not-ihdr" else
    match parseIhdr (ofList c0.data) with
    | .error e => .error e
    | .ok ih =>
      match skeletonOfChunks (imgOkOf ih) ih.width ih.height ih.color rest with
      | .error e => .error e
      | .ok _ =>
        match orderOk (cs.map (·.ty)) with
        | .error e => .error e
        | .ok _ => firstError (contentOk ih (plteEntriesOf cs)) cs

def tyOfString (s : String) : Ty := s.toList.foldl (fun (a : Nat) (c : Char) => a * 256 + c.toNat) 0

/-- rule 1: byte-level framing.  `Spec.parseChunks` stops after IEND; anything after it is an error -/
def parseStrict (f : ByteArray) : Except String (List RChunk) :=
  match parseChunks f with
  | .error e => .error e
  | .ok cs =>
    match cs.find? (fun c => c.data.size ≥ 2 ^ 31) with
    | some _ => .error "chunk-length"
    | none =>
    match cs.find? (fun c => !tyLetters (tyOfString c.ty)) with
    | some _ => .error "chunk-type"
    | none =>
    match cs.find? (fun c => !c.crcOk) with
    | some _ => .error "crc"
    | none =>
      let endPos := match cs.getLast? with
        | some c => c.offset + 12 + c.data.size
        | none => 8
      if endPos ≠ f.size then .error "data-after-iend"
      else .ok (cs.map fun c => { ty := tyOfString c.ty, data := c.data.toList })

/-- the strict validator -/
def validPng (f : ByteArray) : Except String Unit :=
  match parseStrict f with
  | .error e => .error e
  | .ok cs => validChunks realImgOk cs

/-! ## Serialisation (specification of the chunk layout, PNG 5.3) -/

def crcOfList (b : Bytes) : Nat := (crc32 (ofList b)).toNat

def chunkBytes (c : RChunk) : Bytes :=
  be32Bytes c.data.length ++ tyBytes c.ty ++ c.data ++ be32Bytes (crcOfList (tyBytes c.ty ++ c.data))

def signatureBytes : Bytes := [137, 80, 78, 71, 13, 10, 26, 10]

def fileBytes (cs : List RChunk) : Bytes := signatureBytes ++ (cs.map chunkBytes).flatten

end Png.Val
