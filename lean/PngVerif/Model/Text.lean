import PngVerif.Model.Util
import PngVerif.Model.Filter
/-!
# Text chunks: tEXt / zTXt / iTXt (`src/text_metadata.rs`, `src/decoder/stream.rs:1689-1783`)

Core Lean only: this file is linked into the `pngmodel` driver.

What is modelled, and where it comes from:

* `decodeLatin1` (`decode_iso_8859_1`, text_metadata.rs:157-159), `encodeLatin1`
  (`encode_iso_8859_1*`, :161-175), `decodeAscii` (`decode_ascii`, :177-185);
* `TEXt.decode`/`ZTXt.decode`/`ITXt.decode` (:199-211, :263-280, :411-455) — the checks in the order of
  the Rust code; `splitKeyword`, `parseTEXt`, `parseZTXt`, `parseITXt`
  (stream.rs:1689-1700, :1702-1715, :1717-1736, :1738-1783) — the field splitting done by the
  streaming decoder before calling `decode`.  (`limits.reserve_bytes(buf.len())`, the first statement
  of the three `parse_*` functions, belongs to the resource-limit property C06 and is not part of
  this model; a chunk that is refused for that reason never reaches the code modelled here.  A text
  chunk of length zero is parsed like any other since /repo f31d047 (no NUL separator: refused); before
  that it went straight to the CRC and was skipped.)
* `TEXt.encodeBody`/`ZTXt.encodeBody`/`ITXt.encodeBody` (`EncodableTextChunk::encode`, :214-234,
  :344-382, :523-600): the chunk *data* handed to `encoder::write_chunk` (length, type and CRC
  are C12's business);
* the private `OptCompressed` state (`Compressed(Vec<u8>) | Uncompressed(String)`, :245-252) with
  `decompress_text_with_limit`, `get_text`, `compress_text` of `ZTXtChunk` (:288-341) and `ITXtChunk`
  (:463-520).  The two Rust copies differ only in the text coding (Latin-1 for zTXt, UTF-8 for iTXt);
  the model has one machine `OptC.*` parameterised by a `Coding` and the two instances
  `latin1Coding`, `utf8Coding`.  `&mut self` operations return the new state *and* the result,
  so "an error leaves the chunk unchanged" is a theorem and not true by construction.

The zlib compressor / inflater are abstract parameters (`ZCodec`), their contract is the structure
`ZCodec.Ok`, which only ever appears as a hypothesis.

Strings are Lean 4.33 `String`s, i.e. a `ByteArray` together with a proof that it is the UTF-8
encoding of a list of `Char`s (Unicode scalar values) — the same invariant as Rust's `String`.
`Char` excludes surrogates exactly as Rust's `char` does.
-/
namespace Png

/-- core has no `DecidableEq (Except ε α)`; needed for `decide` on concrete outcomes -/
instance textExceptDecEq {ε α : Type} [DecidableEq ε] [DecidableEq α] : DecidableEq (Except ε α)
  | .ok a, .ok b => if h : a = b then isTrue (by rw [h]) else isFalse (fun h' => h (Except.ok.inj h'))
  | .error a, .error b =>
    if h : a = b then isTrue (by rw [h]) else isFalse (fun h' => h (Except.error.inj h'))
  | .ok _, .error _ => isFalse (fun h => by cases h)
  | .error _, .ok _ => isFalse (fun h => by cases h)

/-! ## Errors -/

/-- `TextDecodingError` (text_metadata.rs:121-140) -/
inductive TextDecErr
  | unrepresentable | invalidKeywordSize | missingNullSeparator | inflationError
  | outOfDecompressionSpace | invalidCompressionMethod | invalidCompressionFlag
  | missingCompressionFlag
  deriving DecidableEq, Repr

/-- `TextEncodingError` (text_metadata.rs:110-119) -/
inductive TextEncErr
  | unrepresentable | invalidKeywordSize | compressionError
  deriving DecidableEq, Repr

/-- `DECOMPRESSION_LIMIT` (text_metadata.rs:108) -/
def decompressionLimit : Nat := 2097152
/-- the keyword bound used at text_metadata.rs:203, 219, 268, 348, 419, 528 and stream.rs:1695 -/
def maxKeywordLen : Nat := 79

/-! ## ISO 8859-1 -/

/-- `b as char` (text_metadata.rs:158): the character whose code point is the byte value -/
def latin1Char (b : UInt8) : Char := Char.ofNat b.toNat

/-- `decode_iso_8859_1` (text_metadata.rs:157-159) -/
def decodeLatin1 (bs : Bytes) : String := String.ofList (bs.map latin1Char)

/-- `u8::try_from(c as u32).map_err(|_| Unrepresentable)` (text_metadata.rs:174) -/
def latin1Byte (c : Char) : Except TextEncErr UInt8 :=
  if c.toNat ≤ 255 then .ok c.toNat.toUInt8 else .error .unrepresentable

/-- `encode_iso_8859_1_iter(..).collect::<Result<Vec<u8>,_>>()` on a list of characters -/
def encodeLatin1L (cs : List Char) : Except TextEncErr Bytes := cs.mapM latin1Byte

/-- `encode_iso_8859_1` (text_metadata.rs:161-163); `encode_iso_8859_1_into` (:165-170) appends the
same bytes to a buffer and fails in the same cases -/
def encodeLatin1 (s : String) : Except TextEncErr Bytes := encodeLatin1L s.toList

/-- specification: every character is in the Latin-1 range U+0000..U+00FF -/
def IsLatin1 (s : String) : Prop := ∀ c ∈ s.toList, c.toNat ≤ 255

/-- specification: the string does not contain U+0000 (PNG keywords, language tags and translated
keywords are NUL-terminated in the file; the three `encode` functions refuse a string that does —
the repair of defect D16) -/
def NulFree (s : String) : Prop := ∀ c ∈ s.toList, c.toNat ≠ 0

instance (s : String) : Decidable (IsLatin1 s) := by unfold IsLatin1; infer_instance
instance (s : String) : Decidable (NulFree s) := by unfold NulFree; infer_instance

/-! ## UTF-8 and ASCII -/

/-- `std::str::from_utf8` / `String::from_utf8` on a byte list: `none` iff not valid UTF-8 -/
def utf8Decode (bs : Bytes) : Option String := String.fromUTF8? (ofList bs)

/-- `str::as_bytes` -/
def utf8Encode (s : String) : Bytes := s.toUTF8.data.toList

def isAsciiBytes (bs : Bytes) : Bool := bs.all (fun (b : UInt8) => b < 128)

/-- `str::is_ascii` -/
def isAsciiStr (s : String) : Bool := s.toList.all (fun (c : Char) => c.toNat < 128)

/-- Outcome of `decode_ascii` (text_metadata.rs:177-185).  The Rust code is
`if text.is_ascii() { Ok(from_utf8(text).expect("unreachable")) } else { Err(Unrepresentable) }`;
the `expect` is a possible panic and is modelled as its own outcome (`Proofs/Text.lean` shows it
cannot happen). -/
inductive AsciiOut
  | ok (s : String) | err (e : TextDecErr) | panic
  deriving DecidableEq

def decodeAscii (bs : Bytes) : AsciiOut :=
  if isAsciiBytes bs then
    match utf8Decode bs with
    | some s => .ok s
    | none => .panic
  else .err .unrepresentable

/-! ## Chunk objects -/

/-- `TEXtChunk` (text_metadata.rs:149-155) -/
structure TEXt where
  keyword : String
  text : String
  deriving DecidableEq

/-- `OptCompressed` (text_metadata.rs:245-252) -/
inductive OptC
  | compressed (z : Bytes)
  | uncompressed (s : String)
  deriving DecidableEq

/-- `ZTXtChunk` (text_metadata.rs:237-243) -/
structure ZTXt where
  keyword : String
  text : OptC
  deriving DecidableEq

/-- `ITXtChunk` (text_metadata.rs:385-397) -/
structure ITXt where
  keyword : String
  compressed : Bool
  languageTag : String
  translatedKeyword : String
  text : OptC
  deriving DecidableEq

/-- `TEXtChunk::new` (:190) -/
def TEXt.new (kw text : String) : TEXt := ⟨kw, text⟩
/-- `ZTXtChunk::new` (:256): the text starts out *uncompressed* -/
def ZTXt.new (kw text : String) : ZTXt := ⟨kw, .uncompressed text⟩
/-- `ITXtChunk::new` (:401) -/
def ITXt.new (kw text : String) : ITXt := ⟨kw, false, "", "", .uncompressed text⟩

/-! ## `decode` functions of the three chunk types (text_metadata.rs) -/

/-- `keyword_slice.is_empty() || keyword_slice.len() > 79` -/
def badKeywordLen (kw : Bytes) : Bool := kw.isEmpty || decide (kw.length > maxKeywordLen)

/-- `TEXtChunk::decode` (text_metadata.rs:199-211) -/
def TEXt.decode (kw text : Bytes) : Except TextDecErr TEXt :=
  if badKeywordLen kw then .error .invalidKeywordSize
  else .ok ⟨decodeLatin1 kw, decodeLatin1 text⟩

/-- `ZTXtChunk::decode` (text_metadata.rs:263-280) -/
def ZTXt.decode (kw : Bytes) (method : UInt8) (text : Bytes) : Except TextDecErr ZTXt :=
  if badKeywordLen kw then .error .invalidKeywordSize
  else if method != 0 then .error .invalidCompressionMethod
  else .ok ⟨decodeLatin1 kw, .compressed text⟩

/-- Result of `ITXtChunk::decode`; `panic` is the `expect("unreachable")` inside `decode_ascii`. -/
inductive ITXtOut
  | ok (c : ITXt) | err (e : TextDecErr) | panic
  deriving DecidableEq

/-- `ITXtChunk::decode` (text_metadata.rs:411-455).  Order of checks: keyword size (:419), flag
(:424-428), method only if compressed (:430), language tag ASCII (:434), translated keyword UTF-8
(:436-438), text UTF-8 only if not compressed (:439-446). -/
def ITXt.decode (kw : Bytes) (flag method : UInt8) (lang tk text : Bytes) : ITXtOut :=
  if badKeywordLen kw then .err .invalidKeywordSize else
  let keyword := decodeLatin1 kw
  if flag != 0 && flag != 1 then .err .invalidCompressionFlag else
  let compressed := flag == 1
  if compressed && method != 0 then .err .invalidCompressionMethod else
  match decodeAscii lang with
  | .err e => .err e
  | .panic => .panic
  | .ok languageTag =>
    match utf8Decode tk with
    | none => .err .unrepresentable
    | some translatedKeyword =>
      if compressed then .ok ⟨keyword, true, languageTag, translatedKeyword, .compressed text⟩
      else match utf8Decode text with
        | none => .err .unrepresentable
        | some s => .ok ⟨keyword, false, languageTag, translatedKeyword, .uncompressed s⟩

/-! ## Field splitting in the streaming decoder (stream.rs) -/

/-- `buf.iter().position(|&b| b == 0)` together with the two slices around that index:
`none` when there is no zero byte -/
def splitNul (bs : Bytes) : Option (Bytes × Bytes) :=
  match bs.dropWhile (fun (b : UInt8) => b != 0) with
  | [] => none
  | _ :: r => some (bs.takeWhile (fun (b : UInt8) => b != 0), r)

/-- `StreamingDecoder::split_keyword` (stream.rs:1689-1700) -/
def splitKeyword (buf : Bytes) : Except TextDecErr (Bytes × Bytes) :=
  match splitNul buf with
  | none => .error .missingNullSeparator
  | some (kw, rest) =>
    if kw.length == 0 || decide (kw.length > maxKeywordLen) then .error .invalidKeywordSize
    else .ok (kw, rest)

/-- `parse_text` (stream.rs:1702-1715) without the `Limits` reservation -/
def parseTEXt (buf : Bytes) : Except TextDecErr TEXt :=
  match splitKeyword buf with
  | .error e => .error e
  | .ok (kw, value) => TEXt.decode kw value

/-- `parse_ztxt` (stream.rs:1717-1736) -/
def parseZTXt (buf : Bytes) : Except TextDecErr ZTXt :=
  match splitKeyword buf with
  | .error e => .error e
  | .ok (kw, value) =>
    match value with
    | [] => .error .invalidCompressionMethod
    | method :: text => ZTXt.decode kw method text

/-- `parse_itxt` (stream.rs:1738-1783).  Order: keyword (:1742), flag present (:1744-1746), method
present (:1748-1750), second separator (:1752-1756), third separator (:1760-1764), then `decode`. -/
def parseITXt (buf : Bytes) : ITXtOut :=
  match splitKeyword buf with
  | .error e => .err e
  | .ok (kw, value) =>
    match value with
    | [] => .err .missingCompressionFlag
    | [_] => .err .invalidCompressionMethod
    | flag :: method :: rest =>
      match splitNul rest with
      | none => .err .missingNullSeparator
      | some (lang, rest2) =>
        match splitNul rest2 with
        | none => .err .missingNullSeparator
        | some (tk, text) => ITXt.decode kw flag method lang tk text

/-! ## The compressor / inflater as parameters -/

/-- why a bounded inflation failed (`fdeflate::BoundedDecompressionError`) -/
inductive BoundErr
  | tooLarge   -- `OutputTooLarge`
  | corrupt    -- `DecompressionError`
  deriving DecidableEq, Repr

/-- zlib as used by the text chunks: `compress` = `flate2::write::ZlibEncoder` at
`Compression::fast()`, `decompress` = `fdeflate::decompress_to_vec` (`none` = error),
`decompressBounded` = `fdeflate::decompress_to_vec_bounded`. -/
structure ZCodec where
  compress : Bytes → Bytes
  decompress : Bytes → Option Bytes
  decompressBounded : Bytes → Nat → Except BoundErr Bytes

/-- Contract of the dependency, used only as a hypothesis. -/
structure ZCodec.Ok (z : ZCodec) : Prop where
  /-- inflating what was deflated gives the input back -/
  roundtrip : ∀ x, z.decompress (z.compress x) = some x
  /-- bounded inflation succeeds exactly when the whole stream inflates to at most `n` bytes -/
  bounded_ok : ∀ zs n x, z.decompressBounded zs n = .ok x ↔ z.decompress zs = some x ∧ x.length ≤ n
  /-- a "corrupt" verdict is never given for a stream that inflates -/
  bounded_corrupt : ∀ zs n, z.decompressBounded zs n = .error .corrupt → z.decompress zs = none

/-! ## `OptCompressed` state machine -/

/-- How the text of a chunk kind is represented as bytes: Latin-1 for zTXt, UTF-8 for iTXt.
`none` stands for `Unrepresentable`. -/
structure Coding where
  dec : Bytes → Option String
  enc : String → Option Bytes

/-- the two directions are mutually inverse partial functions -/
structure Coding.Ok (k : Coding) : Prop where
  dec_enc : ∀ s b, k.enc s = some b → k.dec b = some s
  enc_dec : ∀ b s, k.dec b = some s → k.enc s = some b

/-- zTXt: `decode_iso_8859_1` never fails; `encode_iso_8859_1` may -/
def latin1Coding : Coding where
  dec := fun bs => some (decodeLatin1 bs)
  enc := fun s => match encodeLatin1 s with | .ok b => some b | .error _ => none

/-- iTXt: `String::from_utf8` may fail; `as_bytes` never does -/
def utf8Coding : Coding where
  dec := utf8Decode
  enc := fun s => some (utf8Encode s)

/-- `decompress_text_with_limit` (zTXt: text_metadata.rs:288-307, iTXt: :463-485): new state and
result.  The state changes only on the path that reaches the assignment `self.text = …`. -/
def OptC.decompressWithLimit (z : ZCodec) (k : Coding) (n : Nat) (t : OptC) :
    OptC × Except TextDecErr Unit :=
  match t with
  | .compressed v =>
    match z.decompressBounded v n with
    | .error .tooLarge => (t, .error .outOfDecompressionSpace)
    | .error .corrupt => (t, .error .inflationError)
    | .ok raw =>
      match k.dec raw with
      | none => (t, .error .unrepresentable)
      | some s => (.uncompressed s, .ok ())
  | .uncompressed _ => (t, .ok ())

/-- `get_text` (zTXt: text_metadata.rs:311-320, iTXt: :489-499): unbounded inflation -/
def OptC.getText (z : ZCodec) (k : Coding) (t : OptC) : Except TextDecErr String :=
  match t with
  | .compressed v =>
    match z.decompress v with
    | none => .error .inflationError
    | some raw =>
      match k.dec raw with
      | none => .error .unrepresentable
      | some s => .ok s
  | .uncompressed s => .ok s

/-- `compress_text` (zTXt: text_metadata.rs:323-341, iTXt: :502-520).  Writing to a `Vec` cannot
fail, so `CompressionError` is not reachable here. -/
def OptC.compress (z : ZCodec) (k : Coding) (t : OptC) : OptC × Except TextEncErr Unit :=
  match t with
  | .uncompressed s =>
    match k.enc s with
    | none => (t, .error .unrepresentable)
    | some raw => (.compressed (z.compress raw), .ok ())
  | .compressed _ => (t, .ok ())

def ZTXt.decompressWithLimit (z : ZCodec) (n : Nat) (c : ZTXt) : ZTXt × Except TextDecErr Unit :=
  let r := c.text.decompressWithLimit z latin1Coding n
  ({ c with text := r.1 }, r.2)
/-- `ZTXtChunk::decompress_text` (:283-285) -/
def ZTXt.decompress (z : ZCodec) (c : ZTXt) := c.decompressWithLimit z decompressionLimit
def ZTXt.getText (z : ZCodec) (c : ZTXt) : Except TextDecErr String := c.text.getText z latin1Coding
def ZTXt.compress (z : ZCodec) (c : ZTXt) : ZTXt × Except TextEncErr Unit :=
  let r := c.text.compress z latin1Coding
  ({ c with text := r.1 }, r.2)

def ITXt.decompressWithLimit (z : ZCodec) (n : Nat) (c : ITXt) : ITXt × Except TextDecErr Unit :=
  let r := c.text.decompressWithLimit z utf8Coding n
  ({ c with text := r.1 }, r.2)
/-- `ITXtChunk::decompress_text` (:458-460) -/
def ITXt.decompress (z : ZCodec) (c : ITXt) := c.decompressWithLimit z decompressionLimit
def ITXt.getText (z : ZCodec) (c : ITXt) : Except TextDecErr String := c.text.getText z utf8Coding
def ITXt.compress (z : ZCodec) (c : ITXt) : ITXt × Except TextEncErr Unit :=
  let r := c.text.compress z utf8Coding
  ({ c with text := r.1 }, r.2)

/-! ## `encode`: the chunk data written by `EncodableTextChunk::encode` -/

/-- `str::contains('\0')` (text_metadata.rs:551, :560) -/
def strHasNul (s : String) : Bool := s.toList.any (fun (c : Char) => c.toNat == 0)

/-- keyword bytes: `encode_iso_8859_1(&self.keyword)?`, then the size check, then the refusal of a
zero byte — the keyword is NUL-terminated in the chunk, so it cannot contain one (:217-226, :346-355,
:526-535; the third check is the repair of defect D16) -/
def encodeKeyword (kw : String) : Except TextEncErr Bytes :=
  match encodeLatin1 kw with
  | .error e => .error e
  | .ok data =>
    if badKeywordLen data then .error .invalidKeywordSize
    else if (0 : UInt8) ∈ data then .error .unrepresentable
    else .ok data

/-- `TEXtChunk::encode` (text_metadata.rs:216-233) -/
def TEXt.encodeBody (c : TEXt) : Except TextEncErr Bytes :=
  match encodeKeyword c.keyword with
  | .error e => .error e
  | .ok data =>
    match encodeLatin1 c.text with
    | .error e => .error e
    | .ok t => .ok (data ++ 0 :: t)

/-- `ZTXtChunk::encode` (text_metadata.rs:345-381): already compressed text is copied, uncompressed
text is Latin-1 encoded and deflated behind the two bytes `0, 0` -/
def ZTXt.encodeBody (z : ZCodec) (c : ZTXt) : Except TextEncErr Bytes :=
  match encodeKeyword c.keyword with
  | .error e => .error e
  | .ok data =>
    match c.text with
    | .compressed v => .ok (data ++ 0 :: 0 :: v)
    | .uncompressed s =>
      match encodeLatin1 s with
      | .error e => .error e
      | .ok raw => .ok (data ++ 0 :: 0 :: z.compress raw)

/-- `ITXtChunk::encode` (text_metadata.rs:524-602).  Order of the refusals: keyword (Latin-1, size,
NUL), language tag (`!is_ascii() || contains('\0')`, :551), translated keyword (`contains('\0')`,
:560), then the text.  With `compressed = false` and a text that is still in the `Compressed` state
the payload is inflated (without a bound, :588) and written only if it is valid UTF-8 (:591-592,
the repair of the defect found by property C17): `CompressionError` when it does not inflate,
`Unrepresentable` when what it inflates to is no text. -/
def ITXt.encodeBody (z : ZCodec) (c : ITXt) : Except TextEncErr Bytes :=
  match encodeKeyword c.keyword with
  | .error e => .error e
  | .ok data =>
    if !isAsciiStr c.languageTag || strHasNul c.languageTag then .error .unrepresentable else
    if strHasNul c.translatedKeyword then .error .unrepresentable else
    let head := data ++ 0 :: (if c.compressed then 1 else 0) :: 0 ::
      (utf8Encode c.languageTag ++ 0 :: (utf8Encode c.translatedKeyword ++ [0]))
    if c.compressed then
      match c.text with
      | .compressed v => .ok (head ++ v)
      | .uncompressed s => .ok (head ++ z.compress (utf8Encode s))
    else
      match c.text with
      | .compressed v =>
        match z.decompress v with
        | none => .error .compressionError
        | some raw =>
          if (utf8Decode raw).isSome then .ok (head ++ raw) else .error .unrepresentable
      | .uncompressed s => .ok (head ++ utf8Encode s)

/-! ## A toy codec

Used for non-vacuity examples and by the line-protocol driver for state-machine tests only: the
"compressed" form of `x` is `0x78 :: x`.  It satisfies `ZCodec.Ok` (`Proofs/Text.lean`); it is *not*
zlib. -/
def toyCodec : ZCodec where
  compress := fun x => 0x78 :: x
  decompress := fun zs => match zs with
    | 0x78 :: x => some x
    | _ => none
  decompressBounded := fun zs n => match zs with
    | 0x78 :: x => if x.length ≤ n then .ok x else .error .tooLarge
    | _ => .error .corrupt

end Png
