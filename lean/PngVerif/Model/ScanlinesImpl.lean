import PngVerif.Model.Scanlines
/-!
# The two row loops as the code runs them

`encodeRowsImpl`: the encoder's loop over the rows of one image / pass / animation frame — each row filtered by
`filterImpl` (a fixed type) or `adaptive` against the previous RAW row, the first against the row it is handed
(`encoder.rs` hands it an all-zero row).  `decodeRowsImpl`: the decoder's loop — each row reconstructed by
`unfilterImpl` against the previously reconstructed row, the first against the row it is handed (`[]` in the decoder).
`Props/C14Image.lean` proves the second inverts the first; the driver command `c14 image` runs both for Tie B.
-/
namespace Png

/-- one row of the encoder: the filter type used and the filtered bytes.  `setting = none` is the adaptive filter. -/
def encodeStep (setting : Option FilterType) (bpp : Nat) (prev r : Bytes) : FilterType × Bytes :=
  match setting with
  | some ft => (ft, filterImpl ft bpp prev r)
  | none => adaptive bpp prev r

/-- the encoder's loop over the rows of one image / pass / frame.  `setting = none` is the adaptive filter. -/
def encodeRowsImpl (setting : Option FilterType) (bpp : Nat) : Bytes → List Bytes → Bytes
  | _, [] => []
  | prev, r :: rs =>
    let fo := encodeStep setting bpp prev r
    (ftByte fo.1 :: fo.2) ++ encodeRowsImpl setting bpp r rs

/-- the decoder's loop: `n` rows of `rb` bytes, each reconstructed by `unfilterImpl` against the previously
    reconstructed row (`[]` before the first); `none` if the stream is short or a filter type byte is > 4 -/
def decodeRowsImpl (bpp rb : Nat) : Nat → Bytes → Bytes → Option (List Bytes)
  | 0, _, _ => some []
  | n+1, prev, s =>
    match s with
    | [] => none
    | f :: rest =>
      if rest.length < rb then none else
      match FilterType.ofNat? f.toNat with
      | none => none
      | some ft =>
        let row := unfilterImpl ft bpp prev (rest.take rb)
        (decodeRowsImpl bpp rb n row (rest.drop rb)).map (row :: ·)

end Png
