import PngVerif.Model.Framing
import PngVerif.Model.Unfiltering
import PngVerif.Model.Adam7
/-!
# Well-formed PNG streams and what the PNG specification says their pixels are (specification side of C01 / C09)

Everything here reads like the PNG specification (sections 5, 7, 8, 9, 11) and is independent of the
mechanisms of the crate:

* `chunk`, `signature`, `Header.body`, `wellFormedStill`: the byte layout of a datastream — signature,
  `IHDR`, chunks before the image data, the zlib stream cut into consecutive `IDAT` chunks (any cut,
  empty pieces included), chunks after the image data, `IEND` (sections 5.2–5.6, 11.2.2, 11.2.4).
  The CRC function and the inflater are the parameters `cfg.crc` / `cfg.inflate` of `Model/Framing.lean`.
* `Header.scanlines`: the scanlines in transmission order — one per image row, or the rows of the seven
  reduced images of Adam7 (`Adam7.specRows`, section 8.2) — each as `(pass, line, width in pixels)`.
* `RawOk`: the inflated stream consists of exactly these scanlines, each a filter-type byte `≤ 4` followed
  by `⌈width · bits per pixel / 8⌉` bytes (section 7.2, 9.2).
* `unfilterScanlines`: reverse filtering (section 9.2): every scanline is reconstructed with the
  specification's `reconRow` against the previous reconstructed scanline of the same (reduced) image; the
  first scanline of an image / pass has no predecessor.
* `specPixels`: the reconstructed scanlines, packed one after the other (no interlace), or put in place by
  the specification's de-interlacing `Adam7.deinterlace` (section 8.2; `Proofs/Adam7.deinterlace_spec`
  characterises it pixel by pixel through `specSrc`).

Core Lean only.
-/
namespace Png.WellFormed
open Png Png.Framing

/-- the five image-describing fields of `IHDR` (compression and filter method are always 0) -/
structure Header where
  width : Nat
  height : Nat
  color : Nat
  depth : Nat
  interlaced : Bool
deriving Repr, DecidableEq

/-- section 11.2.2: non-zero four-byte dimensions, one of the fifteen colour type / bit depth pairs -/
def Header.Valid (h : Header) : Prop :=
  1 ≤ h.width ∧ h.width < 2 ^ 32 ∧ 1 ≤ h.height ∧ h.height < 2 ^ 32 ∧ (h.color, h.depth) ∈ legalPairs

instance (h : Header) : Decidable h.Valid := by unfold Header.Valid; exact inferInstance

/-- the thirteen bytes of the `IHDR` body -/
def Header.body (h : Header) : Bytes :=
  be32Bytes h.width ++ be32Bytes h.height ++
    [h.depth.toUInt8, h.color.toUInt8, 0, 0, if h.interlaced then 1 else 0]

/-- the `Info` a decoder holds after `IHDR` and nothing else -/
def Header.info (h : Header) : Info :=
  { width := h.width, height := h.height, depth := h.depth, color := h.color, interlaced := h.interlaced }

/-- the eight signature bytes -/
def signature : Bytes := Params.signature.map Nat.toUInt8

/-- one chunk: length, type, body, CRC of type and body (section 5.3) -/
def chunk (cfg : Cfg) (t : ChunkType) (body : Bytes) : Bytes :=
  be32Bytes body.length ++ typeBytes t ++ body ++ be32Bytes (cfg.crc (typeBytes t ++ body))

/-- a sequence of chunks -/
def chunks (cfg : Cfg) (cs : List (ChunkType × Bytes)) : Bytes := (cs.map fun c => chunk cfg c.1 c.2).flatten

/-- the zlib stream `zs.flatten` cut into consecutive `IDAT` chunks -/
def idats (cfg : Cfg) (zs : List Bytes) : Bytes := chunks cfg (zs.map fun z => (IDAT, z))

/-- a still image: signature, `IHDR`, the chunks `anc` before the image data, the `IDAT` chunks, the chunks
    `post` after the image data, `IEND` -/
def wellFormedStill (cfg : Cfg) (h : Header) (anc : List (ChunkType × Bytes)) (zs : List Bytes)
    (post : List (ChunkType × Bytes)) : Bytes :=
  signature ++ chunk cfg IHDR h.body ++ chunks cfg anc ++ idats cfg zs ++ chunks cfg post ++ chunk cfg IEND []

/-! ## animated images (APNG) -/

/-- the 26 bytes of an `fcTL` body -/
def fctlBody (fc : FrameControl) : Bytes :=
  be32Bytes fc.seq ++ be32Bytes fc.width ++ be32Bytes fc.height ++ be32Bytes fc.x ++ be32Bytes fc.y ++
    be16Bytes fc.delayNum ++ be16Bytes fc.delayDen ++ [fc.dispose.toUInt8, fc.blend.toUInt8]

/-- the eight bytes of an `acTL` body -/
def actlBody (frames plays : Nat) : Bytes := be32Bytes frames ++ be32Bytes plays

/-- the zlib stream `zs.flatten` cut into consecutive `fdAT` chunks, numbered `s + 1, s + 2, …` -/
def fdats (cfg : Cfg) : Nat → List Bytes → Bytes
  | _, [] => []
  | s, z :: zs => chunk cfg fdAT (be32Bytes (s + 1) ++ z) ++ fdats cfg (s + 1) zs

/-- frames of an animation given by their `fcTL` + `fdAT` chunks: the `fcTL` gets the sequence number `n` (the other
    fields from the frame control), the frame's `fdAT` chunks the following numbers; numbering runs on through all
    frames -/
def apngFrames (cfg : Cfg) : Nat → List (FrameControl × List Bytes) → Bytes
  | _, [] => []
  | n, (fc, zs) :: rest =>
    chunk cfg fcTL (fctlBody { fc with seq := n }) ++ fdats cfg n zs ++ apngFrames cfg (n + 1 + zs.length) rest

/-- an animated image whose first frame is the `IDAT` image: signature, `IHDR`, `acTL`, the chunks `anc`, `fcTL` number 0,
    the `IDAT` chunks, the further frames (numbers from 1), `IEND` -/
def wellFormedApng (cfg : Cfg) (h : Header) (plays : Nat) (anc : List (ChunkType × Bytes)) (fc0 : FrameControl)
    (zs0 : List Bytes) (frames : List (FrameControl × List Bytes)) : Bytes :=
  signature ++ chunk cfg IHDR h.body ++ chunk cfg acTL (actlBody (frames.length + 1) plays) ++ chunks cfg anc ++
    chunk cfg fcTL (fctlBody { fc0 with seq := 0 }) ++ idats cfg zs0 ++ apngFrames cfg 1 frames ++ chunk cfg IEND []

/-- an animated image whose `IDAT` image is not part of the animation (a default image for viewers that ignore the
    animation): signature, `IHDR`, `acTL`, the chunks `anc`, the `IDAT` chunks, all frames as `fcTL` + `fdAT` chunks
    (numbers from 0), `IEND` -/
def wellFormedApngDefault (cfg : Cfg) (h : Header) (plays : Nat) (anc : List (ChunkType × Bytes))
    (zs0 : List Bytes) (frames : List (FrameControl × List Bytes)) : Bytes :=
  signature ++ chunk cfg IHDR h.body ++ chunk cfg acTL (actlBody frames.length plays) ++ chunks cfg anc ++
    idats cfg zs0 ++ apngFrames cfg 0 frames ++ chunk cfg IEND []

/-- the header of a frame: the frame control's size, the image's pixel format -/
def Header.frame (h : Header) (fc : FrameControl) : Header := { h with width := fc.width, height := fc.height }

/-! ## geometry -/

/-- bits per pixel: samples per pixel times bit depth -/
def Header.bitsPerPixel (h : Header) : Nat := samplesOf h.color * h.depth

/-- the filter unit: bytes per complete pixel, rounded up to one (section 9.2) -/
def Header.filterUnit (h : Header) : Nat := bytesPerPixel h.color h.depth

/-- bytes of a packed scanline of `w` pixels (without the filter-type byte) -/
def Header.rowBytes (h : Header) (w : Nat) : Nat := (w * h.bitsPerPixel + 7) / 8

/-- bytes of one row of the decoded image -/
def Header.lineSize (h : Header) : Nat := h.rowBytes h.width

/-- bytes of the decoded image -/
def Header.bufferSize (h : Header) : Nat := h.lineSize * h.height

/-- the scanlines in transmission order as `(pass, line, width in pixels)`; pass 0 = no interlace -/
def Header.scanlines (h : Header) : List (Nat × Nat × Nat) :=
  if h.interlaced then Adam7.specRows h.width h.height
  else (List.range h.height).map fun l => (0, l, h.width)

/-! ## the inflated stream -/

/-- `s` consists of exactly the scanlines `ls`: for each a filter-type byte `≤ 4` and `rb width` bytes -/
def ScanlinesOk (rb : Nat → Nat) : List (Nat × Nat × Nat) → Bytes → Prop
  | [], s => s = []
  | (_, _, w) :: rest, s =>
    1 + rb w ≤ s.length ∧ (s.headD 0).toNat ≤ 4 ∧ ScanlinesOk rb rest (s.drop (1 + rb w))

def ScanlinesOk.dec (rb : Nat → Nat) : (ls : List (Nat × Nat × Nat)) → (s : Bytes) → Decidable (ScanlinesOk rb ls s)
  | [], s => inferInstanceAs (Decidable (s = []))
  | (_, _, w) :: rest, s =>
    have := ScanlinesOk.dec rb rest (s.drop (1 + rb w))
    inferInstanceAs (Decidable (1 + rb w ≤ s.length ∧ (s.headD 0).toNat ≤ 4 ∧ ScanlinesOk rb rest (s.drop (1 + rb w))))

instance (rb : Nat → Nat) (ls : List (Nat × Nat × Nat)) (s : Bytes) : Decidable (ScanlinesOk rb ls s) :=
  ScanlinesOk.dec rb ls s

/-- the inflated stream has exactly the length the header implies and only defined filter types -/
def RawOk (h : Header) (raw : Bytes) : Prop := ScanlinesOk h.rowBytes h.scanlines raw

instance (h : Header) (raw : Bytes) : Decidable (RawOk h raw) := by unfold RawOk; exact inferInstance

/-- reverse filtering of a scanline sequence; `prev` is the previous reconstructed scanline, ignored for
    the first line of an image / pass.  (Stops at an undefined filter type; excluded by `ScanlinesOk`.) -/
def unfilterScanlines (unit : Nat) (rb : Nat → Nat) : List (Nat × Nat × Nat) → Bytes → Bytes → List Bytes
  | [], _, _ => []
  | (_, l, w) :: rest, prev, s =>
    match FilterType.ofNat? (s.headD 0).toNat with
    | none => []
    | some ft =>
      let row := reconRow ft unit (if l = 0 then [] else prev) ((s.drop 1).take (rb w))
      row :: unfilterScanlines unit rb rest row (s.drop (1 + rb w))

/-- the reconstructed scanlines of the image, in transmission order -/
def specScanlines (h : Header) (raw : Bytes) : List Bytes :=
  unfilterScanlines h.filterUnit h.rowBytes h.scanlines [] raw

/-- the interlaced rows with their reconstructed contents, as `Adam7.deinterlace` takes them -/
def specPassRows (h : Header) (raw : Bytes) : List (Adam7.Adam7Info × Bytes) :=
  (h.scanlines.zip (specScanlines h raw)).map fun x =>
    ({ pass := x.1.1, line := x.1.2.1, width := x.1.2.2 }, x.2)

/-- **the pixels the PNG specification defines** for header `h` and inflated stream `raw`, as the bytes of
    an image buffer of `lineSize × height` bytes.  Without interlacing: the reconstructed scanlines one after
    the other.  With Adam7: every reduced-image row put in place by the specification's de-interlacing into
    the buffer `bg` (`bg` only supplies the padding bits at the end of each row when
    `width · bitsPerPixel` is not a multiple of 8; `none` if `bg` is too short). -/
def specPixels (h : Header) (raw bg : Bytes) : Option Bytes :=
  if h.interlaced then Adam7.deinterlace bg h.lineSize h.bitsPerPixel (specPassRows h raw)
  else some (specScanlines h raw).flatten


/-- a (sub)frame of header `h` decoded into a buffer `bg` that may be larger than the frame (an APNG frame smaller
    than the image): the frame's `lineSize × height` bytes from the start of the buffer, rows `lineSize` bytes
    apart; the rest of the buffer is untouched -/
def specFrame (h : Header) (raw bg : Bytes) : Option Bytes :=
  if h.interlaced then Adam7.deinterlace bg h.lineSize h.bitsPerPixel (specPassRows h raw)
  else some ((specScanlines h raw).flatten ++ bg.drop h.bufferSize)

end Png.WellFormed
