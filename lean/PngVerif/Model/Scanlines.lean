import PngVerif.Model.Filter
/-!
# Scanline streams: the data between deflate and pixels

`encodeScanlines` is what an encoder emits for a list of packed rows (filter byte + filtered row,
each row filtered against the previous raw row; PNG spec 7.2/9); `decodeScanlines` is the
specification's reverse (PNG spec 13.9).  The filter-type choice is an arbitrary function of the
previous and current row (fixed type, adaptive heuristics, anything).
-/
namespace Png

def ftByte (ft : FilterType) : UInt8 := ft.toNat.toUInt8

/-- rows → scanline stream.  `prev` is the previous raw row (`[]` before the first row). -/
def encodeScanlines (choose : Bytes → Bytes → FilterType) (bpp : Nat) : Bytes → List Bytes → Bytes
  | _, [] => []
  | prev, r :: rs =>
    let ft := choose prev r
    (ftByte ft :: filtRow ft bpp prev r) ++ encodeScanlines choose bpp r rs

/-- scanline stream → `n` rows of `rb` bytes; `none` if the stream is too short or a filter byte is > 4 -/
def decodeScanlines (bpp rb : Nat) : Nat → Bytes → Bytes → Option (List Bytes)
  | 0, _, _ => some []
  | n+1, prev, s =>
    match s with
    | [] => none
    | f :: rest =>
      if rest.length < rb then none else
      match FilterType.ofNat? f.toNat with
      | none => none
      | some ft =>
        let row := reconRow ft bpp prev (rest.take rb)
        (decodeScanlines bpp rb n row (rest.drop rb)).map (row :: ·)

end Png
