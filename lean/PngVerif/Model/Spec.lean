import PngVerif.Model.Util
import PngVerif.Model.Crc
import PngVerif.Model.Inflate
import PngVerif.Model.Filter
import PngVerif.Generated.Params
/-!
# Specification-level PNG/APNG decoding (executable)

`parseChunks`, `parseIhdr`, `specFrames`: what the PNG (2nd ed.) and APNG specifications define for a
byte stream: chunk layout, IHDR fields, one zlib stream per image spread over consecutive
IDAT/fdAT chunks, reverse filtering (`reconRow`) and Adam7 de-interlacing into packed rows.
This file shares no mechanism with the Rust decoder's state machines; it is the reference the
implementation-shaped models and the implementation are compared with.
-/
namespace Png.Spec
open Png

structure Chunk where
  ty : String          -- 4 ASCII characters (non-ASCII type bytes are kept as Latin-1 code points)
  data : ByteArray
  crcOk : Bool
  offset : Nat         -- offset of the length field in the file

def tyOf (f : ByteArray) (p : Nat) : String :=
  String.ofList [Char.ofNat f[p]!.toNat, Char.ofNat f[p+1]!.toNat, Char.ofNat f[p+2]!.toNat, Char.ofNat f[p+3]!.toNat]

def rd32 (f : ByteArray) (p : Nat) : Nat := be32 f[p]! f[p+1]! f[p+2]! f[p+3]!

def signatureOk (f : ByteArray) : Bool :=
  f.size ≥ 8 && (List.range 8).all fun i => f[i]!.toNat == Params.signature.getD i 256

/-- chunk list up to and including IEND (or the end of the data); `Except.error` on a broken layout -/
def parseChunksFrom (f : ByteArray) : Nat → Nat → List Chunk → Except String (List Chunk)
  | 0, _, acc => .ok acc.reverse
  | fuel+1, p, acc =>
    if p = f.size then .ok acc.reverse else
    if p + 12 > f.size then .error "truncated-chunk-header" else
    let len := rd32 f p
    if p + 12 + len > f.size then .error "truncated-chunk" else
    let ty := tyOf f (p + 4)
    let data := f.extract (p + 8) (p + 8 + len)
    let crc := rd32 f (p + 8 + len)
    let c : Chunk := { ty, data, crcOk := (crc32Range f (p + 4) (p + 8 + len)).toNat == crc, offset := p }
    if ty == "IEND" then .ok (c :: acc).reverse
    else parseChunksFrom f fuel (p + 12 + len) (c :: acc)

def parseChunks (f : ByteArray) : Except String (List Chunk) :=
  if !signatureOk f then .error "signature" else parseChunksFrom f (f.size + 1) 8 []

structure Ihdr where
  width : Nat
  height : Nat
  depth : Nat
  color : Nat
  interlace : Nat
deriving Repr, DecidableEq

def samples : Nat → Nat
  | 0 => 1 | 2 => 3 | 3 => 1 | 4 => 2 | 6 => 4 | _ => 0

def legalPair (color depth : Nat) : Bool :=
  match color with
  | 0 => depth == 1 || depth == 2 || depth == 4 || depth == 8 || depth == 16
  | 3 => depth == 1 || depth == 2 || depth == 4 || depth == 8
  | 2 | 4 | 6 => depth == 8 || depth == 16
  | _ => false

def parseIhdr (d : ByteArray) : Except String Ihdr :=
  if d.size ≠ 13 then .error "ihdr-length" else
  let h : Ihdr := { width := rd32 d 0, height := rd32 d 4, depth := d[8]!.toNat, color := d[9]!.toNat, interlace := d[12]!.toNat }
  if h.width = 0 ∨ h.height = 0 then .error "ihdr-zero-dimension" else
  if !legalPair h.color h.depth then .error "ihdr-color-depth" else
  if d[10]!.toNat ≠ 0 then .error "ihdr-compression" else
  if d[11]!.toNat ≠ 0 then .error "ihdr-filter" else
  if h.interlace > 1 then .error "ihdr-interlace" else
  .ok h

def bitsPerPixel (h : Ihdr) : Nat := samples h.color * h.depth
/-- bytes in a packed row of `w` pixels -/
def rowBytes (h : Ihdr) (w : Nat) : Nat := (w * bitsPerPixel h + 7) / 8
/-- filter unit: bytes per complete pixel, at least 1 -/
def filterBpp (h : Ihdr) : Nat := max 1 (bitsPerPixel h / 8)

/-- number of `x < n` with `x ≡ off (mod step)` -/
def passCount (n off step : Nat) : Nat := if n ≤ off then 0 else (n - off + step - 1) / step

/-- reverse filtering of `rows` scanlines of `rowBytes w` bytes starting at `raw[pos]`; the row
    reconstruction function is a parameter (`reconRow` in theorems; the provably equal
    `unfilterImpl` when executed) -/
def unfilterRows (unf : FilterType → Nat → Bytes → Bytes → Bytes) (bpp rb : Nat) (raw : ByteArray) :
    Nat → Nat → Bytes → List Bytes → Except String (List Bytes × Nat)
  | 0, pos, _, acc => .ok (acc.reverse, pos)
  | n+1, pos, prev, acc =>
    if pos + 1 + rb > raw.size then .error "not-enough-image-data" else
    match FilterType.ofNat? raw[pos]!.toNat with
    | none => .error "bad-filter-type"
    | some ft =>
      let row := (raw.extract (pos + 1) (pos + 1 + rb)).toList
      let out := unf ft bpp prev row
      unfilterRows unf bpp rb raw n (pos + 1 + rb) out (out :: acc)

/-- copy pixel `i` (of `bits` bits) of packed `row` to pixel position `x` of packed row `y` in `img` -/
def putPixel (img : ByteArray) (stride bits : Nat) (row : ByteArray) (i x y : Nat) : ByteArray :=
  if bits ≥ 8 then Id.run do
    let n := bits / 8
    let mut im := img
    for k in [0:n] do
      im := im.set! (y * stride + x * n + k) row[i * n + k]!
    return im
  else
    let sbit := i * bits
    let v := (row[sbit / 8]!.toNat >>> (8 - sbit % 8 - bits)) &&& (2 ^ bits - 1)
    let dbit := x * bits
    let di := y * stride + dbit / 8
    let sh := 8 - dbit % 8 - bits
    let old := img[di]!.toNat
    let cleared := old - (old &&& ((2 ^ bits - 1) <<< sh))
    img.set! di (cleared + (v <<< sh)).toUInt8

/-- pixels of one image (IHDR-like geometry `h` with the frame's width/height) from its inflated data -/
def decodeImage (unf : FilterType → Nat → Bytes → Bytes → Bytes) (h : Ihdr) (raw : ByteArray) : Except String ByteArray :=
  let bpp := filterBpp h
  let stride := rowBytes h h.width
  if h.interlace = 0 then
    match unfilterRows unf bpp stride raw h.height 0 [] [] with
    | .error e => .error e
    | .ok (rows, _) => .ok (rows.foldl (fun (acc : ByteArray) (r : Bytes) => acc ++ ofList r) (ByteArray.emptyWithCapacity (stride * h.height)))
  else Id.run do
    let mut img := ByteArray.mk (Array.replicate (stride * h.height) 0)
    let mut pos := 0
    let bits := bitsPerPixel h
    for (xo, yo, xs, ys) in Params.adam7Pass do
      let pw := passCount h.width xo xs
      let ph := passCount h.height yo ys
      if pw > 0 ∧ ph > 0 then
        match unfilterRows unf bpp (rowBytes h pw) raw ph pos [] [] with
        | .error e => return .error e
        | .ok (rows, pos') =>
          pos := pos'
          let mut l := 0
          for r in rows do
            let rb := ofList r
            for i in [0:pw] do
              img := putPixel img stride bits rb i (i * xs + xo) (l * ys + yo)
            l := l + 1
    return .ok img

structure Fctl where
  seq : Nat
  width : Nat
  height : Nat
  x : Nat
  y : Nat
  delayNum : Nat
  delayDen : Nat
  dispose : Nat
  blend : Nat
deriving Repr, DecidableEq

def parseFctl (d : ByteArray) : Option Fctl :=
  if d.size ≠ 26 then none else
  some { seq := rd32 d 0, width := rd32 d 4, height := rd32 d 8, x := rd32 d 12, y := rd32 d 16,
         delayNum := d[20]!.toNat * 256 + d[21]!.toNat, delayDen := d[22]!.toNat * 256 + d[23]!.toNat,
         dispose := d[24]!.toNat, blend := d[25]!.toNat }

/-- one data-chunk sequence of the file: its frame control (if any) and the concatenated payload -/
structure RawFrame where
  fc : Option Fctl
  zdata : ByteArray

/-- group the chunk list into data sequences in file order (IDAT run, then each fdAT run, sequence
    numbers stripped), each with the most recent fcTL -/
def rawFrames (cs : List Chunk) : List RawFrame := Id.run do
  let mut out : Array RawFrame := #[]
  let mut fc : Option Fctl := none
  let mut cur : Option ByteArray := none
  let mut curKind := ""
  for c in cs do
    if c.ty == "IDAT" ∨ c.ty == "fdAT" then
      let payload := if c.ty == "fdAT" then c.data.extract 4 c.data.size else c.data
      match cur with
      | some z =>
        if curKind == c.ty then cur := some (z ++ payload)
        else
          out := out.push { fc := fc, zdata := z }
          cur := some payload; curKind := c.ty
      | none => cur := some payload; curKind := c.ty
    else
      match cur with
      | some z => out := out.push { fc := fc, zdata := z }; cur := none
      | none => pure ()
      if c.ty == "fcTL" then fc := parseFctl c.data
  match cur with
  | some z => out := out.push { fc := fc, zdata := z }
  | none => pure ()
  return out.toList

structure Frame where
  fc : Option Fctl
  width : Nat
  height : Nat
  pixels : ByteArray

structure Decoded where
  ihdr : Ihdr
  frames : List Frame

/-- the specification's reconstruction of every image in the stream -/
def specFrames (unf : FilterType → Nat → Bytes → Bytes → Bytes) (file : ByteArray) (checkAdler : Bool := false) :
    Except String Decoded := do
  let cs ← parseChunks file
  match cs with
  | [] => .error "no-chunks"
  | c0 :: _ =>
    if c0.ty != "IHDR" then .error "first-chunk-not-ihdr" else
    let ih ← parseIhdr c0.data
    let mut frames : Array Frame := #[]
    for rf in rawFrames cs do
      let (w, hgt) := match rf.fc with
        | some fc => (fc.width, fc.height)
        | none => (ih.width, ih.height)
      let g : Ihdr := { ih with width := w, height := hgt }
      let raw ← match (if checkAdler then (Inf.zlibInflate rf.zdata true).map (·.1) else Inf.zlibInflateNoTrailer rf.zdata) with
        | some r => pure r
        | none => throw "corrupt-deflate-stream"
      let px ← decodeImage unf g raw
      frames := frames.push { fc := rf.fc, width := w, height := hgt, pixels := px }
    if frames.isEmpty then .error "no-image-data" else
    pure { ihdr := ih, frames := frames.toList }

end Png.Spec
